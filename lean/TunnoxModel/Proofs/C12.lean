import TunnoxModel.Spec.C12
/-! Helper lemmas for C12 (core Lean only). -/
namespace Tunnox.C12
open Gen Gen.iocopy.UDP

/-! ### scripted reads -/

/-- Size of a script: every Read removes a chunk or a non-empty piece of one. -/
def meas (p : List Bytes) : Nat := p.flatten.length + p.length

theorem stepsFor_eq (p : List Bytes) : stepsFor p = meas p + 1 := rfl

theorem rdNext_data_rest (p : List Bytes) (f : Bool) (room : Nat) :
    (rdNext p f room).data ++ (rdNext p f room).rest.flatten = p.flatten := by
  cases p with
  | nil => simp [rdNext]
  | cons c cs =>
    simp only [rdNext]
    split
    · simp
    · simp [← List.append_assoc]

theorem rdNext_fin_rest (p : List Bytes) (f : Bool) (room : Nat)
    (h : (rdNext p f room).fin = true) : (rdNext p f room).rest = [] := by
  cases p with
  | nil => simp [rdNext]
  | cons c cs =>
    simp only [rdNext] at h ⊢
    split
    · rename_i hc
      simp only [hc, if_true] at h
      simp at h
      exact h.1
    · rename_i hc
      simp [hc] at h

theorem rdNext_meas (p : List Bytes) (f : Bool) (room : Nat) (hroom : 0 < room) (hp : p ≠ []) :
    meas (rdNext p f room).rest < meas p := by
  cases p with
  | nil => exact absurd rfl hp
  | cons c cs =>
    simp only [rdNext]
    split
    · simp [meas]; omega
    · rename_i hc
      simp [meas]
      omega

theorem rdNext_nil (f : Bool) (room : Nat) : rdNext [] f room = ⟨[], true, []⟩ := rfl

/-! ### one copy goroutine -/

structure DirInv (src : EP) (d : Dir) : Prop where
  pre : d.delivered <+: src.reads.flatten
  full : d.wfEnv = false → d.delivered ++ d.pending.flatten = src.reads.flatten
  fin : d.done = true → d.wfEnv = false → d.pending = []
  wfd : d.wfEnv = true → d.done = true

theorem dirInv_init (src : EP) : DirInv src { pending := src.reads } :=
  ⟨by simp, by simp, by simp, by simp⟩

theorem copyBuf_pos : 0 < cloudconstants.CopyBufferSize := by decide

theorem dirStep_inv (src dst : EP) (b : Bool) (d : Dir) (h : DirInv src d) : DirInv src (dirStep src dst b d) := by
  unfold dirStep
  by_cases hd : d.done = true
  · simp only [hd, if_true]; exact h
  · simp only [hd]
    have hw : d.wfEnv = false := by
      cases hwe : d.wfEnv with
      | false => rfl
      | true => exact absurd (h.wfd hwe) hd
    have hdr := rdNext_data_rest d.pending src.fused cloudconstants.CopyBufferSize
    have hfr := rdNext_fin_rest d.pending src.fused cloudconstants.CopyBufferSize
    generalize rdNext d.pending src.fused cloudconstants.CopyBufferSize = r at hdr hfr
    by_cases he : r.data.isEmpty = true
    · have he' : r.data = [] := List.isEmpty_iff.mp he
      simp only [he, if_true]
      rw [he', List.nil_append] at hdr
      by_cases hf : r.fin = true
      · simp only [hf, if_true, Dir.finishRead]
        exact ⟨h.pre, fun hw => by simpa [hdr] using h.full hw, fun _ _ => hfr hf, fun h' => by simp [hw] at h'⟩
      · simp only [hf]
        exact ⟨h.pre, fun hw => by simpa [hdr] using h.full hw, fun hdone => by simp at hdone,
          fun h' => by simp [hw] at h'⟩
    · simp only [he]
      by_cases hr : sinkRefuses dst b d.nw = true
      · simp only [hr, if_true]
        exact ⟨h.pre, fun hw => by simp at hw, fun _ hw => by simp at hw, fun _ => rfl⟩
      · simp only [hr]
        have hfull := h.full hw
        have hnew : (d.delivered ++ r.data) ++ r.rest.flatten = src.reads.flatten := by
          rw [List.append_assoc, hdr]; exact hfull
        have hpre : (d.delivered ++ r.data) <+: src.reads.flatten := ⟨r.rest.flatten, hnew⟩
        by_cases hf : r.fin = true
        · simp only [hf, if_true, Dir.finishRead]
          exact ⟨hpre, fun _ => hnew, fun _ _ => hfr hf, fun h' => by simp [hw] at h'⟩
        · simp only [hf]
          exact ⟨hpre, fun _ => hnew, fun hdone => by simp at hdone, fun h' => by simp [hw] at h'⟩

/-- Iterations a goroutine still needs at most. -/
def Dir.rem (d : Dir) : Nat := if d.done then 0 else meas d.pending + 1

theorem dirStep_rem (src dst : EP) (b : Bool) (d : Dir) : (dirStep src dst b d).rem ≤ d.rem - 1 := by
  unfold dirStep
  by_cases hd : d.done = true
  · simp [hd, Dir.rem]
  · have hd' : d.done = false := by simpa using hd
    simp only [hd]
    have hm := rdNext_meas d.pending src.fused cloudconstants.CopyBufferSize copyBuf_pos
    have hnil := rdNext_nil src.fused cloudconstants.CopyBufferSize
    have hrem : d.rem = meas d.pending + 1 := by simp [Dir.rem, hd']
    rw [hrem]
    cases hp : d.pending with
    | nil =>
      simp [hnil, Dir.rem, Dir.finishRead]
    | cons c cs =>
      have hm' := hm (by simp [hp])
      rw [hp] at hm'
      generalize rdNext (c :: cs) src.fused cloudconstants.CopyBufferSize = r at hm'
      by_cases he : r.data.isEmpty = true
      · simp only [he, if_true]
        by_cases hf : r.fin = true
        · simp [hf, Dir.rem, Dir.finishRead]
        · simp [hf, Dir.rem]; omega
      · simp only [he]
        by_cases hr : sinkRefuses dst b d.nw = true
        · simp [hr, Dir.rem]
        · simp only [hr]
          by_cases hf : r.fin = true
          · simp [hf, Dir.rem, Dir.finishRead]
          · simp [hf, Dir.rem]; omega

theorem dirStep_done_mono (src dst : EP) (b : Bool) (d : Dir) (h : d.done = true) :
    dirStep src dst b d = d := by
  simp [dirStep, h]

theorem Dir.rem_zero_iff (d : Dir) : d.rem = 0 ↔ d.done = true := by
  unfold Dir.rem; split <;> simp_all

/-! ### both goroutines under a schedule -/

structure TcpInv (A B : EP) (s : TcpSt) : Prop where
  ab : DirInv A s.ab
  ba : DirInv B s.ba

theorem tcpStep_inv (A B : EP) (s : TcpSt) (t : Bool) (h : TcpInv A B s) : TcpInv A B (tcpStep A B s t) := by
  unfold tcpStep
  cases t with
  | true => exact ⟨dirStep_inv A B _ _ h.ab, h.ba⟩
  | false => exact ⟨h.ab, dirStep_inv B A _ _ h.ba⟩

theorem tcpFold_inv (A B : EP) (σ : List Bool) (s : TcpSt) (h : TcpInv A B s) :
    TcpInv A B (σ.foldl (tcpStep A B) s) := by
  induction σ generalizing s with
  | nil => exact h
  | cons t σ ih => exact ih _ (tcpStep_inv A B s t h)

theorem tcpRun_inv (A B : EP) (σ : List Bool) : TcpInv A B (tcpRun A B σ) :=
  tcpFold_inv A B σ _ ⟨dirInv_init A, dirInv_init B⟩

theorem tcpFold_rem_ab (A B : EP) (σ : List Bool) (s : TcpSt) :
    (σ.foldl (tcpStep A B) s).ab.rem ≤ s.ab.rem - σ.count true := by
  induction σ generalizing s with
  | nil => simp
  | cons t σ ih =>
    have := ih (tcpStep A B s t)
    cases t with
    | true =>
      have h1 : (tcpStep A B s true).ab.rem ≤ s.ab.rem - 1 := by
        simp only [tcpStep, if_true]; exact dirStep_rem A B _ _
      simp only [List.foldl_cons, List.count_cons_self]
      omega
    | false =>
      have h1 : (tcpStep A B s false).ab = s.ab := by simp [tcpStep]
      simp only [List.foldl_cons]
      rw [h1] at this
      simpa using this

theorem tcpFold_rem_ba (A B : EP) (σ : List Bool) (s : TcpSt) :
    (σ.foldl (tcpStep A B) s).ba.rem ≤ s.ba.rem - σ.count false := by
  induction σ generalizing s with
  | nil => simp
  | cons t σ ih =>
    have := ih (tcpStep A B s t)
    cases t with
    | false =>
      have h1 : (tcpStep A B s false).ba.rem ≤ s.ba.rem - 1 := by
        simp only [tcpStep]; exact dirStep_rem B A _ _
      simp only [List.foldl_cons, List.count_cons_self]
      omega
    | true =>
      have h1 : (tcpStep A B s true).ba = s.ba := by simp [tcpStep]
      simp only [List.foldl_cons]
      rw [h1] at this
      simpa using this

theorem tcpInit_rem_ab (A B : EP) : (tcpInit A B).ab.rem = stepsFor A.reads := by
  simp [tcpInit, Dir.rem, stepsFor_eq]

theorem tcpInit_rem_ba (A B : EP) : (tcpInit A B).ba.rem = stepsFor B.reads := by
  simp [tcpInit, Dir.rem, stepsFor_eq]

/-- Enough turns for both goroutines: both finish, `wg.Wait()` passes. -/
theorem tcpRun_returned (A B : EP) (σ : List Bool)
    (ha : stepsFor A.reads ≤ σ.count true) (hb : stepsFor B.reads ≤ σ.count false) :
    (tcpRun A B σ).returned = true := by
  have h1 := tcpFold_rem_ab A B σ (tcpInit A B)
  have h2 := tcpFold_rem_ba A B σ (tcpInit A B)
  rw [tcpInit_rem_ab] at h1
  rw [tcpInit_rem_ba] at h2
  have d1 : (tcpRun A B σ).ab.done = true := (Dir.rem_zero_iff _).mp (by unfold tcpRun; omega)
  have d2 : (tcpRun A B σ).ba.done = true := (Dir.rem_zero_iff _).mp (by unfold tcpRun; omega)
  simp [TcpSt.returned, d1, d2]

theorem tcpComplete_counts (A B : EP) (σ : List Bool) :
    stepsFor A.reads ≤ (tcpComplete A B σ).count true ∧ stepsFor B.reads ≤ (tcpComplete A B σ).count false := by
  simp [tcpComplete, List.count_append, List.count_replicate]

theorem dir_final (src : EP) (d : Dir) (h : DirInv src d) (hd : d.done = true) :
    (d.wfEnv || d.delivered == src.reads.flatten) = true := by
  cases hw : d.wfEnv with
  | true => rfl
  | false =>
    have h1 := h.full hw
    rw [h.fin hd hw] at h1
    simp at h1
    simp [h1]

theorem holdsTcp_of (A B : EP) (s : TcpSt) (inv : TcpInv A B s) (ret : s.returned = true) :
    holdsTcp A B (tcpObs s) = true := by
  have hd : s.ab.done = true ∧ s.ba.done = true := by simpa [TcpSt.returned] using ret
  have p1 : s.ab.delivered.isPrefixOf A.reads.flatten = true := List.isPrefixOf_iff_prefix.mpr inv.ab.pre
  have p2 : s.ba.delivered.isPrefixOf B.reads.flatten = true := List.isPrefixOf_iff_prefix.mpr inv.ba.pre
  have f1 := dir_final A s.ab inv.ab hd.1
  have f2 := dir_final B s.ba inv.ba hd.2
  simp only [holdsTcp, tcpObs, ret, p1, p2, f1, f2]
  rfl

/-! ### the record codec -/

theorem drain_fuel (f : Nat) : ∀ (g : Nat) (bs : Bytes), bs.length ≤ f → bs.length ≤ g → drain f bs = drain g bs := by
  induction f with
  | zero =>
    intro g bs hf _
    have : bs = [] := List.eq_nil_of_length_eq_zero (by omega)
    subst this
    cases g <;> rfl
  | succ f ih =>
    intro g bs hf hg
    match bs, hf, hg with
    | [], _, _ => cases g <;> rfl
    | [b], _, _ => cases g <;> rfl
    | hi :: lo :: body, hf, hg =>
      cases g with
      | zero => simp at hg
      | succ g =>
        simp only [List.length_cons] at hf hg
        simp only [drain]
        rw [ih g (body.drop (hi.toNat * 256 + lo.toNat)) (by simp; omega) (by simp; omega)]

theorem drainAll_nil : drainAll [] = ⟨[], [], false⟩ := rfl
theorem drainAll_single (b : Byte) : drainAll [b] = ⟨[], [b], false⟩ := rfl

theorem drainAll_cons2 (hi lo : Byte) (body : Bytes) :
    drainAll (hi :: lo :: body) =
      if hi.toNat * 256 + lo.toNat = 0 ∨ hi.toNat * 256 + lo.toNat > maxPacketLen then ⟨[], hi :: lo :: body, true⟩
      else if body.length < hi.toNat * 256 + lo.toNat then ⟨[], hi :: lo :: body, false⟩
      else ⟨body.take (hi.toNat * 256 + lo.toNat) :: (drainAll (body.drop (hi.toNat * 256 + lo.toNat))).pk,
            (drainAll (body.drop (hi.toNat * 256 + lo.toNat))).rest,
            (drainAll (body.drop (hi.toNat * 256 + lo.toNat))).ill⟩ := by
  unfold drainAll
  simp only [List.length_cons, drain]
  rw [drain_fuel (body.length + 1) (body.drop (hi.toNat * 256 + lo.toNat)).length _ (by simp; omega) (Nat.le_refl _)]

/-- Parsing a window that is extended by more bytes: parse the old window, then continue from its
unprocessed tail — the algebra behind "compaction + next Read". -/
def comb (d : DrainRes) (y : Bytes) : DrainRes :=
  if d.ill then ⟨d.pk, d.rest ++ y, true⟩
  else ⟨d.pk ++ (drainAll (d.rest ++ y)).pk, (drainAll (d.rest ++ y)).rest, (drainAll (d.rest ++ y)).ill⟩

theorem drainAll_append_aux (y : Bytes) (n : Nat) : ∀ x : Bytes, x.length ≤ n → drainAll (x ++ y) = comb (drainAll x) y := by
  induction n with
  | zero =>
    intro x hx
    have : x = [] := List.eq_nil_of_length_eq_zero (by omega)
    subst this
    simp [comb, drainAll_nil]
  | succ n ih =>
    intro x hx
    match x, hx with
    | [], _ => simp [comb, drainAll_nil]
    | [b], _ => simp [comb, drainAll_single]
    | hi :: lo :: body, hx =>
      simp only [List.length_cons] at hx
      rw [List.cons_append, List.cons_append, drainAll_cons2, drainAll_cons2]
      generalize hm : hi.toNat * 256 + lo.toNat = m
      by_cases h1 : m = 0 ∨ m > maxPacketLen
      · rw [if_pos h1, if_pos h1]; simp [comb]
      · rw [if_neg h1, if_neg h1]
        by_cases h2 : body.length < m
        · rw [if_pos h2]
          simp only [comb, Bool.false_eq_true, if_false, List.nil_append, List.cons_append]
          rw [drainAll_cons2, hm, if_neg h1]
        · rw [if_neg h2]
          have hle : m ≤ body.length := Nat.le_of_not_lt h2
          have h3 : ¬ (body ++ y).length < m := by simp; omega
          rw [if_neg h3]
          rw [List.take_append_of_le_length hle, List.drop_append_of_le_length hle]
          rw [ih (body.drop m) (by simp; omega)]
          simp only [comb]
          by_cases h4 : (drainAll (body.drop m)).ill = true
          · simp [h4]
          · simp [h4]

theorem drainAll_append (x y : Bytes) : drainAll (x ++ y) = comb (drainAll x) y :=
  drainAll_append_aux y x.length x (Nat.le_refl _)

/-- A window content from which the unpack loop extracts nothing and which is not illegal:
fewer than two bytes, or an incomplete record. -/
def Stuck (r : Bytes) : Prop := drainAll r = ⟨[], r, false⟩

theorem stuck_nil : Stuck [] := drainAll_nil

theorem drainAll_rest_stuck_aux (n : Nat) : ∀ x : Bytes, x.length ≤ n → (drainAll x).ill = false → Stuck (drainAll x).rest := by
  induction n with
  | zero =>
    intro x hx _
    have : x = [] := List.eq_nil_of_length_eq_zero (by omega)
    subst this
    exact stuck_nil
  | succ n ih =>
    intro x hx
    match x, hx with
    | [], _ => intro _; exact stuck_nil
    | [b], _ => intro _; exact drainAll_single b
    | hi :: lo :: body, hx =>
      simp only [List.length_cons] at hx
      rw [drainAll_cons2]
      generalize hm : hi.toNat * 256 + lo.toNat = m
      by_cases h1 : m = 0 ∨ m > maxPacketLen
      · rw [if_pos h1]; intro h; cases h
      · rw [if_neg h1]
        by_cases h2 : body.length < m
        · rw [if_pos h2]
          intro _
          show Stuck (hi :: lo :: body)
          unfold Stuck
          rw [drainAll_cons2, hm, if_neg h1, if_pos h2]
        · rw [if_neg h2]
          exact ih _ (by simp; omega)

theorem drainAll_rest_stuck (x : Bytes) (h : (drainAll x).ill = false) : Stuck (drainAll x).rest :=
  drainAll_rest_stuck_aux x.length x (Nat.le_refl _) h

theorem stuck_len (r : Bytes) (h : Stuck r) : r.length ≤ maxPacketLen + 1 := by
  match r, h with
  | [], _ => simp
  | [b], _ => simp [maxPacketLen]
  | hi :: lo :: body, h =>
    unfold Stuck at h
    rw [drainAll_cons2] at h
    generalize hi.toNat * 256 + lo.toNat = m at h
    by_cases h1 : m = 0 ∨ m > maxPacketLen
    · rw [if_pos h1] at h; cases h
    · rw [if_neg h1] at h
      by_cases h2 : body.length < m
      · simp only [List.length_cons]
        have : ¬ m > maxPacketLen := fun hh => h1 (Or.inr hh)
        omega
      · rw [if_neg h2] at h; cases h

theorem stuck_drain (r : Bytes) (h : Stuck r) : (drainAll r).pk = [] ∧ (drainAll r).rest = r ∧ (drainAll r).ill = false := by
  rw [h]; exact ⟨rfl, rfl, rfl⟩

/-! ### encoding -/

theorem encodeAll_cons (d : Bytes) (ds : List Bytes) : encodeAll (d :: ds) = encode1 d ++ encodeAll ds := by
  simp [encodeAll]

theorem encodeAll_nil : encodeAll [] = [] := rfl

theorem encodeAll_append (a b : List Bytes) : encodeAll (a ++ b) = encodeAll a ++ encodeAll b := by
  simp [encodeAll]

theorem encode1_length (d : Bytes) : (encode1 d).length = 2 + d.length := by
  simp [encode1]; omega

theorem prefix_val (d : Bytes) (h : d.length ≤ 65535) :
    (UInt8.ofNat (d.length / 256)).toNat * 256 + (UInt8.ofNat d.length).toNat = d.length := by
  simp
  omega

/-- One whole record at the front of the window is extracted. -/
theorem drainAll_encode1 (d rest : Bytes) (hwf : wfDgram d = true) :
    drainAll (encode1 d ++ rest) = ⟨d :: (drainAll rest).pk, (drainAll rest).rest, (drainAll rest).ill⟩ := by
  have hw : 1 ≤ d.length ∧ d.length ≤ 65535 := by simpa [wfDgram] using hwf
  show drainAll (UInt8.ofNat (d.length / 256) :: UInt8.ofNat d.length :: (d ++ rest)) = _
  rw [drainAll_cons2, prefix_val d hw.2]
  have h1 : ¬ (d.length = 0 ∨ d.length > maxPacketLen) := by (have hmx : maxPacketLen = 65535 := rfl); omega
  have h2 : ¬ (d ++ rest).length < d.length := by simp
  rw [if_neg h1, if_neg h2]
  simp

/-- A proper prefix of one record: nothing is extracted, nothing is illegal. -/
theorem drainAll_partial (d : Bytes) (hwf : wfDgram d = true) (k : Nat) (hk : k < 2 + d.length) :
    Stuck ((encode1 d).take k) := by
  have hw : 1 ≤ d.length ∧ d.length ≤ 65535 := by simpa [wfDgram] using hwf
  match k, hk with
  | 0, _ => exact stuck_nil
  | 1, _ => exact drainAll_single _
  | k + 2, hk =>
    show Stuck (UInt8.ofNat (d.length / 256) :: UInt8.ofNat d.length :: d.take k)
    unfold Stuck
    rw [drainAll_cons2, prefix_val d hw.2]
    have h1 : ¬ (d.length = 0 ∨ d.length > maxPacketLen) := by (have hmx : maxPacketLen = 65535 := rfl); omega
    have h2 : (d.take k).length < d.length := by rw [List.length_take]; omega
    rw [if_neg h1, if_pos h2]

theorem completeBefore_all (ds : List Bytes) (cut : Nat) (h : (encodeAll ds).length ≤ cut) : completeBefore ds cut = ds := by
  induction ds generalizing cut with
  | nil => rfl
  | cons d ds ih =>
    rw [encodeAll_cons, List.length_append, encode1_length] at h
    simp only [completeBefore]
    rw [if_pos (by omega), ih _ (by omega)]

/-- **Cut theorem for the parser**: the encoding of well-formed datagrams, ended at ANY byte
offset, parses to exactly the datagrams that were complete before the cut, is never illegal, and
leaves an unfinished record (or nothing). -/
theorem drainAll_cut (ds : List Bytes) (hwf : ds.all wfDgram = true) (cut : Nat) :
    (drainAll ((encodeAll ds).take cut)).pk = completeBefore ds cut ∧
    (drainAll ((encodeAll ds).take cut)).ill = false := by
  induction ds generalizing cut with
  | nil => simp [encodeAll_nil, drainAll_nil, completeBefore]
  | cons d ds ih =>
    have hd : wfDgram d = true := by simp at hwf; exact hwf.1
    have hds : ds.all wfDgram = true := by simp at hwf ⊢; exact hwf.2
    rw [encodeAll_cons]
    simp only [completeBefore]
    by_cases hc : 2 + d.length ≤ cut
    · rw [if_pos hc]
      have : (encode1 d ++ encodeAll ds).take cut = encode1 d ++ (encodeAll ds).take (cut - (2 + d.length)) := by
        rw [List.take_append, encode1_length, List.take_of_length_le (by rw [encode1_length]; exact hc)]
      rw [this, drainAll_encode1 _ _ hd]
      have := ih hds (cut - (2 + d.length))
      exact ⟨by simp [this.1], this.2⟩
    · rw [if_neg hc]
      have hlt : cut < 2 + d.length := Nat.lt_of_not_le hc
      have : (encode1 d ++ encodeAll ds).take cut = (encode1 d).take cut := by
        rw [List.take_append_of_le_length (by rw [encode1_length]; omega)]
      rw [this]
      have := stuck_drain _ (drainAll_partial d hd cut hlt)
      exact ⟨this.1, this.2.2⟩

/-- Complete records followed by anything: the records come out first, in order. -/
theorem drainAll_encodeAll_append (ds : List Bytes) (hwf : ds.all wfDgram = true) (junk : Bytes) :
    (drainAll (encodeAll ds ++ junk)).pk = ds ++ (drainAll junk).pk := by
  induction ds with
  | nil => simp [encodeAll_nil]
  | cons d ds ih =>
    have hd : wfDgram d = true := by simp at hwf; exact hwf.1
    have hds : ds.all wfDgram = true := by simp at hwf ⊢; exact hwf.2
    rw [encodeAll_cons, List.append_assoc, drainAll_encode1 _ _ hd]
    simp [ih hds]

/-! ### tunnel → UDP goroutine -/

structure DecInv (S : Bytes) (s : Dec) : Prop where
  stuck : s.stop = .running → Stuck s.buf
  run : s.stop = .running →
    (drainAll S).pk = s.out ++ (drainAll (s.buf ++ s.pending.flatten)).pk ∧
    (drainAll S).ill = (drainAll (s.buf ++ s.pending.flatten)).ill
  fin : s.stop ≠ .running → (drainAll S).pk = s.out
  ill : s.stop = .illegal → (drainAll S).ill = true
  noill : s.stop = .clean ∨ s.stop = .trunc → (drainAll S).ill = false

theorem decInv_init (chunks : List Bytes) : DecInv chunks.flatten { pending := chunks } :=
  ⟨fun _ => stuck_nil, fun _ => by simp, fun h => by simp at h, fun h => by simp at h, fun h => by simp at h⟩

theorem window_facts : maxPacketLen + 1 < refill ∧ refill < readBuf_1 := by decide

theorem stuck_lt_refill (b : Bytes) (h : Stuck b) : b.length < refill := by
  have := stuck_len b h
  have := window_facts
  omega

def Dec.rem (s : Dec) : Nat := if s.done then 0 else meas s.pending + 1

theorem Dec.done_iff (s : Dec) : s.done = true ↔ s.stop ≠ .running := by
  simp [Dec.done]

theorem Dec.rem_zero_iff (s : Dec) : s.rem = 0 ↔ s.done = true := by
  unfold Dec.rem; split <;> simp_all

/-- One iteration of the repaired loop: invariant, progress, and where it can stop. -/
theorem decIter_step (S : Bytes) (te f : Bool) (s : Dec) (h : DecInv S s) (hr : s.stop = .running) :
    DecInv S (decIter .repaired te f s) ∧
    (decIter .repaired te f s).rem ≤ s.rem - 1 ∧
    ((decIter .repaired te f s).stop = .clean ∨ (decIter .repaired te f s).stop = .trunc →
      (rdNext s.pending f (readBuf_1 - s.buf.length)).fin = true) := by
  have hst := h.stuck hr
  have hlt := stuck_lt_refill _ hst
  have hroom : 0 < readBuf_1 - s.buf.length := by have := window_facts; omega
  have hrun := h.run hr
  have hdr := rdNext_data_rest s.pending f (readBuf_1 - s.buf.length)
  have hfr := rdNext_fin_rest s.pending f (readBuf_1 - s.buf.length)
  have hms : ∀ hp : s.pending ≠ [], _ := rdNext_meas s.pending f (readBuf_1 - s.buf.length) hroom
  have hnil : s.pending = [] → (rdNext s.pending f (readBuf_1 - s.buf.length)).fin = true := by
    intro hp; rw [hp]; rfl
  have hrem : s.rem = meas s.pending + 1 := by simp [Dec.rem, Dec.done, hr]
  unfold decIter
  simp only [hlt, if_true]
  generalize rdNext s.pending f (readBuf_1 - s.buf.length) = r at hdr hfr hms hnil
  have hX : s.buf ++ s.pending.flatten = (s.buf ++ r.data) ++ r.rest.flatten := by
    rw [List.append_assoc, hdr]
  have hcomb := drainAll_append (s.buf ++ r.data) r.rest.flatten
  rw [← hX] at hcomb
  -- progress: either the script got shorter or this Read returned the tail
  have hprog : r.fin = true ∨ meas r.rest + 1 ≤ meas s.pending := by
    by_cases hp : s.pending = []
    · exact Or.inl (hnil hp)
    · exact Or.inr (hms hp)
  by_cases hA : (r.fin && (s.buf ++ r.data).isEmpty) = true
  · simp only [hA, if_true]
    have hA' : r.fin = true ∧ (s.buf ++ r.data) = [] := by
      simp only [Bool.and_eq_true, List.isEmpty_iff] at hA; exact hA
    refine ⟨⟨fun h' => by simp at h', fun h' => by simp at h', fun _ => ?_, fun h' => by simp at h', fun _ => ?_⟩, ?_, fun _ => hA'.1⟩
    · have : s.buf ++ s.pending.flatten = [] := by rw [hX, hA'.2, hfr hA'.1]; rfl
      rw [this, drainAll_nil] at hrun
      simpa using hrun.1
    · have : s.buf ++ s.pending.flatten = [] := by rw [hX, hA'.2, hfr hA'.1]; rfl
      rw [this, drainAll_nil] at hrun
      exact hrun.2
    · simp [Dec.rem, Dec.done]
  · simp only [hA]
    by_cases hB1 : (drainAll (s.buf ++ r.data)).ill = true
    · simp only [hB1, if_true]
      have hc : drainAll (s.buf ++ s.pending.flatten) =
          ⟨(drainAll (s.buf ++ r.data)).pk, (drainAll (s.buf ++ r.data)).rest ++ r.rest.flatten, true⟩ := by
        rw [hcomb, comb, if_pos hB1]
      rw [hc] at hrun
      refine ⟨⟨fun h' => by simp at h', fun h' => by simp at h', fun _ => hrun.1, fun _ => hrun.2, fun h' => by simp at h'⟩, ?_,
        fun h' => by simp at h'⟩
      simp [Dec.rem, Dec.done]
    · have hB1' : (drainAll (s.buf ++ r.data)).ill = false := by simpa using hB1
      simp only [hB1', Bool.false_eq_true, if_false]
      have hc : drainAll (s.buf ++ s.pending.flatten) =
          ⟨(drainAll (s.buf ++ r.data)).pk ++ (drainAll ((drainAll (s.buf ++ r.data)).rest ++ r.rest.flatten)).pk,
           (drainAll ((drainAll (s.buf ++ r.data)).rest ++ r.rest.flatten)).rest,
           (drainAll ((drainAll (s.buf ++ r.data)).rest ++ r.rest.flatten)).ill⟩ := by
        rw [hcomb, comb, if_neg hB1]
      have hstk := drainAll_rest_stuck _ hB1'
      by_cases hf : r.fin = true
      · simp only [hf, if_true]
        have hrest : r.rest = [] := hfr hf
        rw [hrest] at hc
        simp only [List.flatten_nil, List.append_nil] at hc
        have hsd := stuck_drain _ hstk
        rw [hc, hsd.1, hsd.2.2] at hrun
        simp only [List.append_nil] at hrun
        by_cases hE : (drainAll (s.buf ++ r.data)).rest.isEmpty = true
        · simp only [hE, if_true]
          refine ⟨⟨fun h' => by simp at h', fun h' => by simp at h', fun _ => hrun.1, fun h' => by simp at h', fun _ => hrun.2⟩, ?_, fun _ => by first | trivial | exact hf⟩
          simp [Dec.rem, Dec.done]
        · simp only [hE]
          refine ⟨⟨fun h' => by simp at h', fun h' => by simp at h', fun _ => hrun.1, fun h' => by simp at h', fun _ => hrun.2⟩, ?_, fun _ => by first | trivial | exact hf⟩
          simp [Dec.rem, Dec.done]
      · have hf' : r.fin = false := by simpa using hf
        simp only [hf', Bool.false_eq_true, if_false]
        rw [hc] at hrun
        refine ⟨⟨fun _ => hstk, fun _ => ⟨by rw [hrun.1]; simp [List.append_assoc], hrun.2⟩, (fun h' => absurd hr h'),
          (fun h' => by simp [hr] at h'), (fun h' => by simp [hr] at h')⟩, ?_, (fun h' => by simp [hr] at h')⟩
        have : meas r.rest + 1 ≤ meas s.pending := by
          cases hprog with
          | inl h' => exact absurd h' hf
          | inr h' => exact h'
        simp [Dec.rem, Dec.done, hr]
        omega

/-! ### UDP → tunnel goroutine -/

/-- What the read buffer and the `n == 0` test make of the datagrams taken from the socket. -/
def normDs (ds : List Bytes) : List Bytes := (ds.map (fun d => d.take readBuf_0)).filter (fun d => d.length != 0)

theorem normDs_append (a b : List Bytes) : normDs (a ++ b) = normDs a ++ normDs b := by
  simp [normDs]

theorem normDs_wf (ds : List Bytes) (h : ds.all wfDgram = true) : normDs ds = ds := by
  induction ds with
  | nil => rfl
  | cons d ds ih =>
    have hd : wfDgram d = true := by simp at h; exact h.1
    have hds : ds.all wfDgram = true := by simp at h ⊢; exact h.2
    have hw : 1 ≤ d.length ∧ d.length ≤ 65535 := by simpa [wfDgram] using hd
    have ht : d.take readBuf_0 = d := List.take_of_length_le (by have : readBuf_0 = 65536 := rfl; omega)
    have := ih hds
    simp only [normDs, List.map_cons, ht] at this ⊢
    have hne : (d.length != 0) = true := by
      have : d.length ≠ 0 := by omega
      simpa using this
    rw [List.filter_cons, if_pos hne, this]

theorem flush_stream (e : Enc) : e.flush.flushes.flatten ++ e.flush.batch = e.flushes.flatten ++ e.batch := by
  unfold Enc.flush
  split
  · rfl
  · simp

theorem flush_batch (e : Enc) : e.flush.batch = [] := by
  unfold Enc.flush
  split
  · rename_i h; exact List.isEmpty_iff.mp h
  · rfl

theorem flush_fields (e : Enc) : e.flush.pending = e.pending ∧ e.flush.nread = e.nread ∧ e.flush.done = e.done := by
  unfold Enc.flush
  split <;> simp

structure EncInv (uevs : List UEv) (e : Enc) : Prop where
  split : ∃ taken, dgramsOf uevs = taken ++ dgramsOf e.pending ∧ e.nread = taken.length ∧
      e.flushes.flatten ++ e.batch = encodeAll (normDs taken)
  fin : e.done = true → e.batch = []

theorem encInv_init (uevs : List UEv) : EncInv uevs { pending := uevs } :=
  ⟨⟨[], by simp, rfl, by simp [normDs, encodeAll]⟩, fun h => by simp at h⟩

theorem encEv_fields (e : Enc) (ev : UEv) : (encEv e ev).pending = e.pending ∧ (encEv e ev).done = e.done := by
  cases ev with
  | tick => exact ⟨(flush_fields e).1, (flush_fields e).2.2⟩
  | dgram d0 =>
    simp only [encEv]
    split
    · simp
    · split <;> split <;> simp [flush_fields]

theorem encEv_inv (uevs : List UEv) (e : Enc) (ev : UEv) (rest : List UEv) (h : EncInv uevs e)
    (hp : e.pending = ev :: rest) (hd : e.done = false) : EncInv uevs (encEv { e with pending := rest } ev) := by
  obtain ⟨taken, h1, h2, h3⟩ := h.split
  refine ⟨?_, fun hdone => by rw [(encEv_fields _ ev).2] at hdone; simp [hd] at hdone⟩
  cases ev with
  | tick =>
    refine ⟨taken, ?_, ?_, ?_⟩
    · rw [h1, hp]; simp [encEv, flush_fields, dgramsOf]
    · simp [encEv, flush_fields, h2]
    · simp only [encEv]; rw [flush_stream]; exact h3
  | dgram d0 =>
    refine ⟨taken ++ [d0], ?_, ?_, ?_⟩
    · rw [h1, hp, (encEv_fields _ _).1]; simp [dgramsOf]
    · simp only [encEv]
      split
      · simp [h2]
      · split <;> split <;> simp [flush_fields, h2]
    · rw [normDs_append, encodeAll_append, ← h3]
      simp only [encEv]
      by_cases hz : (d0.take readBuf_0).length = 0
      · simp only [hz, if_true]
        have : normDs [d0] = [] := by simp [normDs, hz]
        simp [this, encodeAll]
      · simp only [hz, if_false]
        have : normDs [d0] = [d0.take readBuf_0] := by
          simp only [normDs, List.map_cons, List.map_nil]
          rw [List.filter_cons_of_pos (by simpa using hz)]; rfl
        rw [this]
        have hone : encodeAll [d0.take readBuf_0] = encode1 (d0.take readBuf_0) := by simp [encodeAll]
        rw [hone]
        split
        · split
          · rw [flush_stream]; simp only []; rw [← List.append_assoc, flush_stream]
          · simp only []; rw [← List.append_assoc, flush_stream]
        · split
          · rw [flush_stream]; simp only [List.append_assoc]
          · simp only [List.append_assoc]

theorem finish_inv (uevs : List UEv) (e : Enc) (te : Bool) (h : EncInv uevs e) : EncInv uevs (e.finish te) := by
  obtain ⟨taken, h1, h2, h3⟩ := h.split
  refine ⟨⟨taken, ?_, ?_, ?_⟩, fun _ => ?_⟩
  · simpa [Enc.finish, flush_fields] using h1
  · simpa [Enc.finish, flush_fields] using h2
  · simp only [Enc.finish]; rw [flush_stream]; exact h3
  · simp [Enc.finish, flush_batch]

/-! ### the UDP relay under a schedule (repaired code) -/

theorem rdNext_fin_nofuse (p : List Bytes) (room : Nat) (h : (rdNext p false room).fin = true) : p = [] := by
  cases p with
  | nil => rfl
  | cons c cs =>
    simp only [rdNext] at h
    split at h <;> simp at h

structure UdpInv (c : UdpCase) (s : UdpSt) : Prop where
  dec : DecInv c.tchunks.flatten s.dec
  enc : EncInv c.uevs s.enc
  cw : s.cwT = s.enc.done
  ucl : s.udpClosed = s.dec.done
  hold : c.ttail = .hold → s.dec.done = true → s.dec.stop ≠ .illegal → s.cwT = true
  early : s.enc.done = true → s.enc.pending ≠ [] → s.dec.done = true ∧ (c.ttail = .hold → s.dec.stop = .illegal)
  remb : s.dec.rem ≤ stepsFor c.tchunks
  plen : s.enc.pending.length ≤ c.uevs.length

theorem udpInv_init (c : UdpCase) : UdpInv c (udpInit c) :=
  ⟨decInv_init _, encInv_init _, rfl, rfl, fun _ h => by simp [udpInit, Dec.done] at h, fun h => by simp [udpInit] at h,
   by simp [udpInit, Dec.rem, Dec.done, stepsFor_eq], by simp [udpInit]⟩

theorem finish_fields (e : Enc) (te : Bool) : (e.finish te).done = true ∧ (e.finish te).pending = e.pending := by
  simp [Enc.finish, flush_fields]

theorem udpStep_U_closed (c : UdpCase) (s : UdpSt) (h : UdpInv c s) (hd : s.enc.done = false) (hc : s.udpClosed = true) :
    UdpInv c { s with enc := s.enc.finish false, cwT := true } := by
  have hdd : s.dec.done = true := by rw [← h.ucl]; exact hc
  refine ⟨h.dec, finish_inv _ _ _ h.enc, by simp [finish_fields], h.ucl, fun _ _ _ => rfl, fun _ _ => ⟨hdd, fun hh => ?_⟩, h.remb, by simpa [finish_fields] using h.plen⟩
  by_cases hi : s.dec.stop = .illegal
  · exact hi
  · have := h.hold hh hdd hi
    rw [h.cw, hd] at this
    cases this

theorem udpStep_U_tail (c : UdpCase) (s : UdpSt) (te : Bool) (h : UdpInv c s) (hp : s.enc.pending = []) :
    UdpInv c { s with enc := s.enc.finish te, cwT := true } := by
  refine ⟨h.dec, finish_inv _ _ _ h.enc, by simp [finish_fields], h.ucl, fun _ _ _ => rfl, fun _ hne => ?_, h.remb, by simpa [finish_fields] using h.plen⟩
  simp [finish_fields, hp] at hne

theorem udpStep_inv (c : UdpCase) (s : UdpSt) (t : Bool) (h : UdpInv c s) : UdpInv c (udpStep .repaired c s t) := by
  unfold udpStep
  cases t with
  | true =>
    rw [if_pos rfl]
    by_cases hd : s.enc.done = true
    · rw [if_pos hd]; exact h
    · have hd' : s.enc.done = false := by simpa using hd
      rw [if_neg hd]
      by_cases hc : s.udpClosed = true
      · rw [if_pos hc]; exact udpStep_U_closed c s h hd' hc
      · rw [if_neg hc]
        cases hp : s.enc.pending with
        | nil =>
          simp only []
          cases hu : c.utail with
          | hold => exact h
          | eof => exact udpStep_U_tail c s false h hp
          | err => exact udpStep_U_tail c s true h hp
        | cons ev rest =>
          simp only []
          have hf := encEv_fields { s.enc with pending := rest } ev
          dsimp only at hf
          refine ⟨h.dec, encEv_inv _ _ _ _ h.enc hp hd', ?_, h.ucl, h.hold, fun hdone => ?_, h.remb, ?_⟩
          · dsimp only; rw [hf.2]; exact h.cw
          · dsimp only at hdone; rw [hf.2, hd'] at hdone; cases hdone
          · dsimp only; rw [hf.1]; have := h.plen; rw [hp] at this; simp at this; omega
  | false =>
    rw [if_neg (by simp)]
    by_cases hd : s.dec.done = true
    · rw [if_pos hd]; exact h
    · have hd' : s.dec.done = false := by simpa using hd
      have hr : s.dec.stop = .running := by
        cases hs : s.dec.stop <;> simp [Dec.done, hs] at hd' ; rfl
      rw [if_neg hd]
      by_cases hb : (s.dec.pending.isEmpty && c.ttail == .hold && !s.cwT && decide (s.dec.buf.length < refill)) = true
      · rw [if_pos hb]; exact h
      · rw [if_neg hb]
        have hstep := decIter_step c.tchunks.flatten (c.ttail == .err) (c.tfused && c.ttail != .hold) s.dec h.dec hr
        simp only []
        generalize decIter .repaired (c.ttail == .err) (c.tfused && c.ttail != .hold) s.dec = d at hstep
        have hucl : s.udpClosed = false := by rw [h.ucl]; exact hd'
        refine ⟨hstep.1, h.enc, h.cw, by simp [hucl], fun hh hdn hni => ?_, fun he hne => ?_, ?_, h.plen⟩
        · -- a hold tail is only read after the tunnel was half-closed
          have hstop : d.stop = .clean ∨ d.stop = .trunc := by
            cases hs : d.stop with
            | running => simp [Dec.done, hs] at hdn
            | illegal => exact absurd hs hni
            | clean => exact Or.inl rfl
            | trunc => exact Or.inr rfl
          have hfin := hstep.2.2 hstop
          have hf0 : (c.tfused && c.ttail != .hold) = false := by simp [hh]
          rw [hf0] at hfin
          have hp := rdNext_fin_nofuse _ _ hfin
          have hlt := stuck_lt_refill _ (h.dec.stuck hr)
          cases hcw : s.cwT with
          | true => rfl
          | false => simp [hp, hh, hcw, hlt] at hb
        · have := (h.early he hne).1
          rw [hd'] at this; cases this
        · have h1 := hstep.2.1
          have h2 := h.remb
          show d.rem ≤ stepsFor c.tchunks
          omega

theorem udpFold_inv (c : UdpCase) (σ : List Bool) (s : UdpSt) (h : UdpInv c s) :
    UdpInv c (σ.foldl (udpStep .repaired c) s) := by
  induction σ generalizing s with
  | nil => exact h
  | cons t σ ih => exact ih _ (udpStep_inv c s t h)

/-! ### the UDP relay returns -/

/-- The UDP→tunnel goroutine has finished, or is parked in a Read that only a Close can end. -/
def Parked (c : UdpCase) (s : UdpSt) : Prop := s.enc.done = true ∨ (s.enc.pending = [] ∧ c.utail = .hold)

theorem parked_step (c : UdpCase) (s : UdpSt) (t : Bool) (h : Parked c s) : Parked c (udpStep .repaired c s t) := by
  unfold udpStep
  cases t with
  | false =>
    rw [if_neg (by simp)]
    split
    · exact h
    · split
      · exact h
      · exact h
  | true =>
    rw [if_pos rfl]
    by_cases hd : s.enc.done = true
    · rw [if_pos hd]; exact h
    · rw [if_neg hd]
      have hp : s.enc.pending = [] ∧ c.utail = .hold := by
        cases h with
        | inl h' => exact absurd h' hd
        | inr h' => exact h'
      by_cases hc : s.udpClosed = true
      · rw [if_pos hc]; exact Or.inl (finish_fields _ _).1
      · rw [if_neg hc, hp.1, hp.2]; exact Or.inr hp

theorem parked_fold (c : UdpCase) (σ : List Bool) (s : UdpSt) (h : Parked c s) :
    Parked c (σ.foldl (udpStep .repaired c) s) := by
  induction σ generalizing s with
  | nil => exact h
  | cons t σ ih => exact ih _ (parked_step c s t h)

theorem uphase (c : UdpCase) (m : Nat) : ∀ s : UdpSt, s.enc.pending.length < m →
    Parked c ((List.replicate m true).foldl (udpStep .repaired c) s) := by
  induction m with
  | zero => intro s h; omega
  | succ m ih =>
    intro s hlen
    rw [List.replicate_succ, List.foldl_cons]
    by_cases hpk : Parked c s
    · exact parked_fold c _ _ (parked_step c s true hpk)
    · have hd : ¬ s.enc.done = true := fun h' => hpk (Or.inl h')
      by_cases hc : s.udpClosed = true
      · apply parked_fold
        unfold udpStep
        rw [if_pos rfl, if_neg hd, if_pos hc]
        exact Or.inl (finish_fields _ _).1
      · cases hp : s.enc.pending with
        | nil =>
          apply parked_fold
          unfold udpStep
          rw [if_pos rfl, if_neg hd, if_neg hc, hp]
          cases hu : c.utail with
          | hold => exact absurd (Or.inr ⟨hp, hu⟩) hpk
          | eof => exact Or.inl (finish_fields _ _).1
          | err => exact Or.inl (finish_fields _ _).1
        | cons ev rest =>
          apply ih
          unfold udpStep
          rw [if_pos rfl, if_neg hd, if_neg hc, hp]
          have hf := encEv_fields { s.enc with pending := rest } ev
          dsimp only at hf ⊢
          rw [hf.1]
          rw [hp] at hlen
          simp at hlen
          omega

theorem udpStep_T_rem (c : UdpCase) (s : UdpSt) (h : UdpInv c s) (hpk : Parked c s)
    (hwf : ¬ (c.utail = .hold ∧ c.ttail = .hold)) :
    (udpStep .repaired c s false).dec.rem ≤ s.dec.rem - 1 := by
  unfold udpStep
  rw [if_neg (by simp)]
  by_cases hd : s.dec.done = true
  · rw [if_pos hd]; simp [Dec.rem, hd]
  · rw [if_neg hd]
    have hd' : s.dec.done = false := by simpa using hd
    have hr : s.dec.stop = .running := by
      cases hs : s.dec.stop <;> simp [Dec.done, hs] at hd' ; rfl
    by_cases hb : (s.dec.pending.isEmpty && c.ttail == .hold && !s.cwT && decide (s.dec.buf.length < refill)) = true
    · exfalso
      simp only [Bool.and_eq_true, beq_iff_eq, Bool.not_eq_true'] at hb
      have htt : c.ttail = .hold := hb.1.1.2
      have hcw : s.cwT = false := hb.1.2
      cases hpk with
      | inl h' => rw [h.cw, h'] at hcw; cases hcw
      | inr h' => exact hwf ⟨h'.2, htt⟩
    · rw [if_neg hb]
      exact (decIter_step c.tchunks.flatten _ _ s.dec h.dec hr).2.1

theorem tphase (c : UdpCase) (hwf : ¬ (c.utail = .hold ∧ c.ttail = .hold)) (k : Nat) :
    ∀ s : UdpSt, UdpInv c s → Parked c s → s.dec.rem ≤ k →
      ((List.replicate k false).foldl (udpStep .repaired c) s).dec.done = true := by
  induction k with
  | zero =>
    intro s _ _ hk
    simp only [List.replicate_zero, List.foldl_nil]
    exact (Dec.rem_zero_iff _).mp (by omega)
  | succ k ih =>
    intro s hinv hpk hk
    rw [List.replicate_succ, List.foldl_cons]
    apply ih _ (udpStep_inv c s false hinv) (parked_step c s false hpk)
    have := udpStep_T_rem c s hinv hpk hwf
    omega

theorem lastU (c : UdpCase) (s : UdpSt) (h : UdpInv c s) (hd : s.dec.done = true) :
    (udpStep .repaired c s true).returned = true := by
  unfold udpStep
  rw [if_pos rfl]
  by_cases he : s.enc.done = true
  · rw [if_pos he]; simp [UdpSt.returned, he, hd]
  · rw [if_neg he, if_pos (by rw [h.ucl]; exact hd)]
    simp [UdpSt.returned, finish_fields, hd]

/-- **The repaired relay always returns** — whatever the schedule did before, once each goroutine
gets its turns: no stream content, cut position, ending or interleaving makes it spin or hang
(as long as not both sides stay silent forever). -/
theorem udp_returned (c : UdpCase) (hwf : ¬ (c.utail = .hold ∧ c.ttail = .hold)) (σ : List Bool) :
    (udpRun .repaired c (udpComplete c σ)).returned = true ∧ UdpInv c (udpRun .repaired c (udpComplete c σ)) := by
  unfold udpRun udpComplete
  rw [List.foldl_append, List.foldl_append, List.foldl_append]
  have h0 := udpFold_inv c σ _ (udpInv_init c)
  generalize σ.foldl (udpStep .repaired c) (udpInit c) = s0 at h0
  have h1 := udpFold_inv c (List.replicate (c.uevs.length + 1) true) _ h0
  have p1 := uphase c (c.uevs.length + 1) s0 (by have := h0.plen; omega)
  generalize (List.replicate (c.uevs.length + 1) true).foldl (udpStep .repaired c) s0 = s1 at h1 p1
  have h2 := udpFold_inv c (List.replicate (stepsFor c.tchunks) false) _ h1
  have d2 := tphase c hwf (stepsFor c.tchunks) s1 h1 p1 h1.remb
  generalize (List.replicate (stepsFor c.tchunks) false).foldl (udpStep .repaired c) s1 = s2 at h2 d2
  exact ⟨lastU c s2 h2 d2, udpStep_inv c s2 true h2⟩

/-! ### from the invariants to the property predicate -/

theorem holdsUdp_of (sc : UdpSpecCase) (chunks : List Bytes) (hflat : chunks.flatten = sc.stream) (s : UdpSt)
    (inv : UdpInv ⟨sc.uevs, sc.utail, chunks, sc.ttail, sc.tfused⟩ s) (ret : s.returned = true) :
    holdsUdp sc (udpObs s) = true := by
  have hd : s.enc.done = true ∧ s.dec.done = true := by simpa [UdpSt.returned] using ret
  have hstop : s.dec.stop ≠ .running := (Dec.done_iff _).mp hd.2
  have hout : s.dec.out = (drainAll sc.stream).pk := by
    have := inv.dec.fin hstop
    simp only [hflat] at this
    exact this.symm
  obtain ⟨taken, h1, h2, h3⟩ := inv.enc.split
  dsimp only at h1
  have hbatch := inv.enc.fin hd.1
  rw [hbatch, List.append_nil] at h3
  have htake : (dgramsOf sc.uevs).take s.enc.nread = taken := by
    rw [h1, h2]; exact List.take_left' rfl
  -- tunnel → UDP
  have c2 : (!(sc.tds.all wfDgram) ||
      (if sc.junk.isEmpty then s.dec.out == completeBefore sc.tds sc.cut
       else (!(decide ((encodeAll sc.tds).length ≤ sc.cut)) || sc.tds.isPrefixOf s.dec.out))) = true := by
    cases hw : sc.tds.all wfDgram with
    | false => rfl
    | true =>
      simp only [Bool.not_true, Bool.false_or]
      cases hj : sc.junk.isEmpty with
      | true =>
        have hj' : sc.junk = [] := List.isEmpty_iff.mp hj
        simp only [if_true]
        rw [hout, UdpSpecCase.stream, hj', List.append_nil, (drainAll_cut sc.tds hw sc.cut).1]
        simp
      | false =>
        simp only [Bool.false_eq_true, if_false]
        by_cases hc : (encodeAll sc.tds).length ≤ sc.cut
        · simp only [hc, decide_true, Bool.not_true, Bool.false_or]
          rw [hout, UdpSpecCase.stream, List.take_of_length_le hc, drainAll_encodeAll_append sc.tds hw]
          exact List.isPrefixOf_iff_prefix.mpr (List.prefix_append _ _)
        · simp [hc]
  -- UDP → tunnel
  have c3 : (!(((dgramsOf sc.uevs).take s.enc.nread).all wfDgram) ||
      s.enc.flushes.flatten == encodeAll ((dgramsOf sc.uevs).take s.enc.nread)) = true := by
    rw [htake]
    cases hw : taken.all wfDgram with
    | false => rfl
    | true => rw [h3, normDs_wf taken hw]; simp
  have c4 : (!(sc.ttail == .hold && sc.junk.isEmpty && sc.tds.all wfDgram) ||
      s.enc.nread == (dgramsOf sc.uevs).length) = true := by
    cases hh : (sc.ttail == .hold && sc.junk.isEmpty && sc.tds.all wfDgram) with
    | false => rfl
    | true =>
      simp only [Bool.and_eq_true, beq_iff_eq] at hh
      have hj' : sc.junk = [] := List.isEmpty_iff.mp hh.1.2
      have hp : s.enc.pending = [] := by
        cases hpe : s.enc.pending with
        | nil => rfl
        | cons ev rest =>
          exfalso
          have hill := (inv.early hd.1 (by rw [hpe]; simp)).2 hh.1.1
          have := inv.dec.ill hill
          dsimp only at this
          rw [hflat, UdpSpecCase.stream, hj', List.append_nil, (drainAll_cut sc.tds hh.2 sc.cut).2] at this
          cases this
      rw [hp] at h1
      simp only [dgramsOf, List.append_nil] at h1
      rw [h1, h2]
      simp
  simp only [holdsUdp, udpObs, ret, c2, c3, c4]
  rfl

end Tunnox.C12
