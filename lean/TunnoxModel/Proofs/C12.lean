import TunnoxModel.Spec.C12
import TunnoxModel.Proofs.Src
/-! Helper lemmas for C12 (core Lean only). -/
namespace Tunnox.C12
open Gen Gen.iocopy.UDP

/-! ### running a completion phase cheaply -/

theorem foldl_replicate_stable {σ τ : Type} (f : σ → τ → σ) (t : τ) (s : σ) (h : f s t = s) :
    ∀ k, (List.replicate k t).foldl f s = s := by
  intro k
  induction k with
  | zero => rfl
  | succ k ih => rw [List.replicate_succ, List.foldl_cons, h, ih]

theorem repeatStep_eq {σ τ : Type} [DecidableEq σ] (f : σ → τ → σ) (t : τ) :
    ∀ (n : Nat) (s : σ), repeatStep (fun s => f s t) n s = (List.replicate n t).foldl f s := by
  intro n
  induction n with
  | zero => intro s; rfl
  | succ n ih =>
    intro s
    unfold repeatStep
    by_cases h : f s t = s
    · rw [if_pos h, foldl_replicate_stable f t s h]
    · rw [if_neg h, ih, List.replicate_succ, List.foldl_cons]

/-! ### scripted reads -/

/-- Size of a script: every Read removes a chunk or a non-empty piece of one. -/
def meas (p : List Bytes) : Nat := p.flatten.length + p.length

theorem stepsFor_eq (p : List Bytes) : stepsFor p = meas p + 1 := rfl

theorem rdNext_data_rest (p : List Bytes) (f : Bool) (room : Nat) :
    (rdNext p f room).data ++ (rdNext p f room).rest.flatten = p.flatten := by
  cases p with
  | nil => simp [rdNext]
  | cons c cs =>
    simp only [rdNext]
    split
    · simp
    · simp [← List.append_assoc]

theorem rdNext_fin_rest (p : List Bytes) (f : Bool) (room : Nat)
    (h : (rdNext p f room).fin = true) : (rdNext p f room).rest = [] := by
  cases p with
  | nil => simp [rdNext]
  | cons c cs =>
    simp only [rdNext] at h ⊢
    split
    · rename_i hc
      simp only [hc, if_true] at h
      simp at h
      exact h.1
    · rename_i hc
      simp [hc] at h

theorem rdNext_meas (p : List Bytes) (f : Bool) (room : Nat) (hroom : 0 < room) (hp : p ≠ []) :
    meas (rdNext p f room).rest < meas p := by
  cases p with
  | nil => exact absurd rfl hp
  | cons c cs =>
    simp only [rdNext]
    split
    · simp [meas]; omega
    · rename_i hc
      simp [meas]
      omega

theorem rdNext_nil (f : Bool) (room : Nat) : rdNext [] f room = ⟨[], true, []⟩ := rfl

/-! ### one copy goroutine -/

structure DirInv (src : EP) (d : Dir) : Prop where
  pre : d.delivered <+: src.reads.flatten
  full : d.wfEnv = false → d.delivered ++ d.pending.flatten = src.reads.flatten
  fin : d.done = true → d.wfEnv = false → d.pending = []
  wfd : d.wfEnv = true → d.done = true

theorem dirInv_init (src : EP) : DirInv src { pending := src.reads } :=
  ⟨by simp, by simp, by simp, by simp⟩

theorem copyBuf_pos : 0 < cloudconstants.CopyBufferSize := by decide

theorem dirStep_inv (src dst : EP) (b : Bool) (d : Dir) (h : DirInv src d) : DirInv src (dirStep src dst b d) := by
  unfold dirStep
  by_cases hd : d.done = true
  · simp only [hd, if_true]; exact h
  · simp only [hd]
    have hw : d.wfEnv = false := by
      cases hwe : d.wfEnv with
      | false => rfl
      | true => exact absurd (h.wfd hwe) hd
    have hdr := rdNext_data_rest d.pending src.fusedEff cloudconstants.CopyBufferSize
    have hfr := rdNext_fin_rest d.pending src.fusedEff cloudconstants.CopyBufferSize
    generalize rdNext d.pending src.fusedEff cloudconstants.CopyBufferSize = r at hdr hfr
    by_cases he : r.data.isEmpty = true
    · have he' : r.data = [] := List.isEmpty_iff.mp he
      simp only [he, if_true]
      rw [he', List.nil_append] at hdr
      by_cases hf : r.fin = true
      · simp only [hf, if_true, Dir.finishRead]
        exact ⟨h.pre, fun hw => by simpa [hdr] using h.full hw, fun _ _ => hfr hf, fun h' => by simp [hw] at h'⟩
      · simp only [hf]
        exact ⟨h.pre, fun hw => by simpa [hdr] using h.full hw, fun hdone => by simp at hdone,
          fun h' => by simp [hw] at h'⟩
    · simp only [he]
      by_cases hr : sinkRefuses dst b d.nw = true
      · simp only [hr, if_true]
        exact ⟨h.pre, fun hw => by simp at hw, fun _ hw => by simp at hw, fun _ => rfl⟩
      · simp only [hr]
        have hfull := h.full hw
        have hnew : (d.delivered ++ r.data) ++ r.rest.flatten = src.reads.flatten := by
          rw [List.append_assoc, hdr]; exact hfull
        have hpre : (d.delivered ++ r.data) <+: src.reads.flatten := ⟨r.rest.flatten, hnew⟩
        by_cases hf : r.fin = true
        · simp only [hf, if_true, Dir.finishRead]
          exact ⟨hpre, fun _ => hnew, fun _ _ => hfr hf, fun h' => by simp [hw] at h'⟩
        · simp only [hf]
          exact ⟨hpre, fun _ => hnew, fun hdone => by simp at hdone, fun h' => by simp [hw] at h'⟩

/-- Iterations a goroutine still needs at most. -/
def Dir.rem (d : Dir) : Nat := if d.done then 0 else meas d.pending + 1

theorem dirStep_rem (src dst : EP) (b : Bool) (d : Dir) : (dirStep src dst b d).rem ≤ d.rem - 1 := by
  unfold dirStep
  by_cases hd : d.done = true
  · simp [hd, Dir.rem]
  · have hd' : d.done = false := by simpa using hd
    simp only [hd]
    have hm := rdNext_meas d.pending src.fusedEff cloudconstants.CopyBufferSize copyBuf_pos
    have hnil := rdNext_nil src.fusedEff cloudconstants.CopyBufferSize
    have hrem : d.rem = meas d.pending + 1 := by simp [Dir.rem, hd']
    rw [hrem]
    cases hp : d.pending with
    | nil =>
      simp [hnil, Dir.rem, Dir.finishRead]
    | cons c cs =>
      have hm' := hm (by simp [hp])
      rw [hp] at hm'
      generalize rdNext (c :: cs) src.fusedEff cloudconstants.CopyBufferSize = r at hm'
      by_cases he : r.data.isEmpty = true
      · simp only [he, if_true]
        by_cases hf : r.fin = true
        · simp [hf, Dir.rem, Dir.finishRead]
        · simp [hf, Dir.rem]; omega
      · simp only [he]
        by_cases hr : sinkRefuses dst b d.nw = true
        · simp [hr, Dir.rem]
        · simp only [hr]
          by_cases hf : r.fin = true
          · simp [hf, Dir.rem, Dir.finishRead]
          · simp [hf, Dir.rem]; omega

theorem dirStep_done_mono (src dst : EP) (b : Bool) (d : Dir) (h : d.done = true) :
    dirStep src dst b d = d := by
  simp [dirStep, h]

theorem Dir.rem_zero_iff (d : Dir) : d.rem = 0 ↔ d.done = true := by
  unfold Dir.rem; split <;> simp_all

/-! ### both goroutines under a schedule (with Writes that stay in progress) -/

structure TcpInv (A B : EP) (s : TcpSt) : Prop where
  ab : DirInv A s.ab
  ba : DirInv B s.ba
  abh : ∀ d, s.abHeld = some d → DirInv A d ∧ d.rem ≤ stepsFor A.reads
  bah : ∀ d, s.baHeld = some d → DirInv B d ∧ d.rem ≤ stepsFor B.reads
  abr : s.ab.rem ≤ stepsFor A.reads
  bar : s.ba.rem ≤ stepsFor B.reads

theorem dirStep_rem_le (src dst : EP) (b : Bool) (d : Dir) (n : Nat) (h : d.rem ≤ n) : (dirStep src dst b d).rem ≤ n := by
  have := dirStep_rem src dst b d
  omega

theorem tcpStep_inv (A B : EP) (s : TcpSt) (t : TTok) (h : TcpInv A B s) : TcpInv A B (tcpStep A B s t) := by
  unfold tcpStep
  cases t with
  | a =>
    dsimp only
    split
    · exact h
    · exact ⟨dirStep_inv A B _ _ h.ab, h.ba, h.abh, h.bah, dirStep_rem_le _ _ _ _ _ h.abr, h.bar⟩
  | b =>
    dsimp only
    split
    · exact h
    · exact ⟨h.ab, dirStep_inv B A _ _ h.ba, h.abh, h.bah, h.abr, dirStep_rem_le _ _ _ _ _ h.bar⟩
  | ah =>
    dsimp only
    split
    · exact h
    · split
      · refine ⟨h.ab, h.ba, fun d hd => ?_, h.bah, h.abr, h.bar⟩
        simp only [Option.some.injEq] at hd
        subst hd
        exact ⟨dirStep_inv A B _ _ h.ab, dirStep_rem_le _ _ _ _ _ h.abr⟩
      · exact ⟨dirStep_inv A B _ _ h.ab, h.ba, h.abh, h.bah, dirStep_rem_le _ _ _ _ _ h.abr, h.bar⟩
  | bh =>
    dsimp only
    split
    · exact h
    · split
      · refine ⟨h.ab, h.ba, h.abh, fun d hd => ?_, h.abr, h.bar⟩
        simp only [Option.some.injEq] at hd
        subst hd
        exact ⟨dirStep_inv B A _ _ h.ba, dirStep_rem_le _ _ _ _ _ h.bar⟩
      · exact ⟨h.ab, dirStep_inv B A _ _ h.ba, h.abh, h.bah, h.abr, dirStep_rem_le _ _ _ _ _ h.bar⟩
  | ax =>
    dsimp only
    split
    · rename_i d hd
      exact ⟨(h.abh d hd).1, h.ba, fun _ h' => by simp at h', h.bah, (h.abh d hd).2, h.bar⟩
    · exact h
  | bx =>
    dsimp only
    split
    · rename_i d hd
      exact ⟨h.ab, (h.bah d hd).1, h.abh, fun _ h' => by simp at h', h.abr, (h.bah d hd).2⟩
    · exact h

theorem tcpFold_inv (A B : EP) (σ : List TTok) (s : TcpSt) (h : TcpInv A B s) :
    TcpInv A B (σ.foldl (tcpStep A B) s) := by
  induction σ generalizing s with
  | nil => exact h
  | cons t σ ih => exact ih _ (tcpStep_inv A B s t h)

theorem tcpInit_inv (A B : EP) : TcpInv A B (tcpInit A B) :=
  ⟨dirInv_init A, dirInv_init B, fun _ h => by simp [tcpInit] at h, fun _ h => by simp [tcpInit] at h,
   by simp [tcpInit, Dir.rem, stepsFor_eq], by simp [tcpInit, Dir.rem, stepsFor_eq]⟩

theorem tcpRun_inv (A B : EP) (σ : List TTok) : TcpInv A B (tcpRun A B σ) :=
  tcpFold_inv A B σ _ (tcpInit_inv A B)

/-- No Write is in progress. -/
def TcpSt.quiet (s : TcpSt) : Prop := s.abHeld = none ∧ s.baHeld = none

theorem tcp_release_quiet (A B : EP) (s : TcpSt) : (tcpStep A B (tcpStep A B s .ax) .bx).quiet := by
  unfold tcpStep TcpSt.quiet
  dsimp only
  cases h1 : s.abHeld <;> cases h2 : s.baHeld <;> simp [h1, h2]

/-- Passive peers can be told (their object implements `CloseWrite`) and not both sides are passive —
otherwise nobody ever ends and the relay rightly never returns. -/
def TcpWF (A B : EP) : Prop :=
  ¬ (A.tail = .hold ∧ B.tail = .hold) ∧ (A.tail = .hold → tryCloseWrite A.kind = true) ∧
  (B.tail = .hold → tryCloseWrite B.kind = true)

/-- The A→B goroutine has finished, or waits in a Read on a passive A. -/
def AIdle (A : EP) (s : TcpSt) : Prop := s.ab.done = true ∨ (s.ab.pending = [] ∧ A.tail = .hold)

theorem stepA_quiet (A B : EP) (s : TcpSt) (hq : s.quiet) :
    (tcpStep A B s .a).quiet ∧ (tcpStep A B s .a).ba = s.ba ∧
    (tcpStep A B s .a = s ∨ (blockedRead A s.ab (s.toldA A) = false ∧ (tcpStep A B s .a).ab = dirStep A B s.bSeen s.ab)) := by
  by_cases hb : blockedRead A s.ab (s.toldA A) = true
  · have he : tcpStep A B s .a = s := by simp [tcpStep, hq.1, hb]
    rw [he]; exact ⟨hq, rfl, Or.inl rfl⟩
  · have hb' : blockedRead A s.ab (s.toldA A) = false := by simpa using hb
    have he : tcpStep A B s .a = { s with ab := dirStep A B s.bSeen s.ab } := by simp [tcpStep, hq.1, hb']
    rw [he]; exact ⟨hq, rfl, Or.inr ⟨hb', rfl⟩⟩

theorem stepB_quiet (A B : EP) (s : TcpSt) (hq : s.quiet) :
    (tcpStep A B s .b).quiet ∧ (tcpStep A B s .b).ab = s.ab ∧
    (tcpStep A B s .b = s ∨ (blockedRead B s.ba (s.toldB B) = false ∧ (tcpStep A B s .b).ba = dirStep B A s.aSeen s.ba)) := by
  by_cases hb : blockedRead B s.ba (s.toldB B) = true
  · have he : tcpStep A B s .b = s := by simp [tcpStep, hq.2, hb]
    rw [he]; exact ⟨hq, rfl, Or.inl rfl⟩
  · have hb' : blockedRead B s.ba (s.toldB B) = false := by simpa using hb
    have he : tcpStep A B s .b = { s with ba := dirStep B A s.aSeen s.ba } := by simp [tcpStep, hq.2, hb']
    rw [he]; exact ⟨hq, rfl, Or.inr ⟨hb', rfl⟩⟩

theorem dirStep_keeps_idle (src dst : EP) (b : Bool) (d : Dir) (h : d.done = true ∨ d.pending = []) :
    (dirStep src dst b d).done = true ∨ (dirStep src dst b d).pending = [] := by
  cases h with
  | inl hd => rw [dirStep_done_mono _ _ _ _ hd]; exact Or.inl hd
  | inr hp =>
    by_cases hd : d.done = true
    · rw [dirStep_done_mono _ _ _ _ hd]; exact Or.inl hd
    · left
      simp [dirStep, hd, hp, rdNext, Dir.finishRead]

theorem aidle_stepA (A B : EP) (s : TcpSt) (hq : s.quiet) (h : AIdle A s) : AIdle A (tcpStep A B s .a) := by
  obtain ⟨_, _, h3⟩ := stepA_quiet A B s hq
  cases h3 with
  | inl he => rw [he]; exact h
  | inr he =>
    unfold AIdle
    rw [he.2]
    cases h with
    | inl hd => exact Or.inl (by rw [dirStep_done_mono _ _ _ _ hd]; exact hd)
    | inr hp =>
      have := dirStep_keeps_idle A B s.bSeen s.ab (Or.inr hp.1)
      cases this with
      | inl hd => exact Or.inl hd
      | inr hp' => exact Or.inr ⟨hp', hp.2⟩

theorem phaseA (A B : EP) (n : Nat) : ∀ s : TcpSt, s.quiet → s.ab.rem ≤ n →
    ((List.replicate n TTok.a).foldl (tcpStep A B) s).quiet ∧ AIdle A ((List.replicate n TTok.a).foldl (tcpStep A B) s) ∧
    ((List.replicate n TTok.a).foldl (tcpStep A B) s).ba = s.ba := by
  induction n with
  | zero =>
    intro s hq hr
    simp only [List.replicate_zero, List.foldl_nil]
    exact ⟨hq, Or.inl ((Dir.rem_zero_iff _).mp (by omega)), trivial⟩
  | succ n ih =>
    intro s hq hr
    rw [List.replicate_succ, List.foldl_cons]
    obtain ⟨q1, b1, h3⟩ := stepA_quiet A B s hq
    have idle_fold : ∀ (k : Nat) (s' : TcpSt), s'.quiet → AIdle A s' →
        ((List.replicate k TTok.a).foldl (tcpStep A B) s').quiet ∧ AIdle A ((List.replicate k TTok.a).foldl (tcpStep A B) s') ∧
        ((List.replicate k TTok.a).foldl (tcpStep A B) s').ba = s'.ba := by
      intro k
      induction k with
      | zero => intro s' a b; exact ⟨a, b, rfl⟩
      | succ k ihk =>
        intro s' a b
        rw [List.replicate_succ, List.foldl_cons]
        obtain ⟨q, bb, _⟩ := stepA_quiet A B s' a
        have := ihk _ q (aidle_stepA A B s' a b)
        exact ⟨this.1, this.2.1, by rw [this.2.2, bb]⟩
    cases h3 with
    | inl he =>
      -- blocked: passive A, not told
      have hbl : blockedRead A s.ab (s.toldA A) = true ∨ s.abHeld.isSome = true ∨ AIdle A s := by
        by_cases hi : AIdle A s
        · exact Or.inr (Or.inr hi)
        · left
          -- the step changed nothing although the goroutine was runnable: impossible unless blocked
          by_cases hb : blockedRead A s.ab (s.toldA A) = true
          · exact hb
          · exfalso
            have hb' : blockedRead A s.ab (s.toldA A) = false := by simpa using hb
            have hab : (tcpStep A B s .a).ab = dirStep A B s.bSeen s.ab := by
              simp [tcpStep, hq.1, hb']
            rw [he] at hab
            have hrem := dirStep_rem A B s.bSeen s.ab
            rw [← hab] at hrem
            have hnd : ¬ s.ab.done = true := fun hd => hi (Or.inl hd)
            have : s.ab.rem ≠ 0 := fun h0 => hnd ((Dir.rem_zero_iff _).mp h0)
            omega
      have hidle : AIdle A s := by
        rcases hbl with hb | hb | hb
        · simp only [blockedRead, Bool.and_eq_true, List.isEmpty_iff, beq_iff_eq] at hb
          exact Or.inr ⟨hb.1.1, hb.1.2⟩
        · rw [hq.1] at hb; simp at hb
        · exact hb
      have := idle_fold n _ q1 (aidle_stepA A B s hq hidle)
      exact ⟨this.1, this.2.1, by rw [this.2.2, b1]⟩
    | inr he =>
      have hrem : (tcpStep A B s .a).ab.rem ≤ n := by
        rw [he.2]; have := dirStep_rem A B s.bSeen s.ab; omega
      have := ih _ q1 hrem
      exact ⟨this.1, this.2.1, by rw [this.2.2, b1]⟩

theorem phaseB (A B : EP) (hwf : TcpWF A B) (m : Nat) : ∀ s : TcpSt, s.quiet → AIdle A s → s.ba.rem ≤ m →
    ((List.replicate m TTok.b).foldl (tcpStep A B) s).quiet ∧ AIdle A ((List.replicate m TTok.b).foldl (tcpStep A B) s) ∧
    ((List.replicate m TTok.b).foldl (tcpStep A B) s).ba.done = true := by
  induction m with
  | zero =>
    intro s hq hi hr
    simp only [List.replicate_zero, List.foldl_nil]
    exact ⟨hq, hi, (Dir.rem_zero_iff _).mp (by omega)⟩
  | succ m ih =>
    intro s hq hi hr
    rw [List.replicate_succ, List.foldl_cons]
    obtain ⟨q1, a1, h3⟩ := stepB_quiet A B s hq
    have hi' : AIdle A (tcpStep A B s .b) := by unfold AIdle; rw [a1]; exact hi
    apply ih _ q1 hi'
    by_cases hd : s.ba.done = true
    · cases h3 with
      | inl he => rw [he]; simp [Dir.rem, hd]
      | inr he => rw [he.2, dirStep_done_mono _ _ _ _ hd]; simp [Dir.rem, hd]
    · -- not blocked: a passive B has been told, because A→B is over (A is not passive as well)
      have hnb : blockedRead B s.ba (s.toldB B) = false := by
        cases hb : blockedRead B s.ba (s.toldB B) with
        | false => rfl
        | true =>
          exfalso
          simp only [blockedRead, Bool.and_eq_true, List.isEmpty_iff, beq_iff_eq, Bool.not_eq_true'] at hb
          have hBh : B.tail = .hold := hb.1.2
          have hAd : s.ab.done = true := by
            cases hi with
            | inl h => exact h
            | inr h => exact absurd ⟨h.2, hBh⟩ hwf.1
          have : s.toldB B = true := by simp [TcpSt.toldB, hAd, hwf.2.2 hBh]
          rw [this] at hb; cases hb.2
      have hba : (tcpStep A B s .b).ba = dirStep B A s.aSeen s.ba := by
        simp [tcpStep, hq.2, hnb]
      rw [hba]
      have := dirStep_rem B A s.aSeen s.ba
      omega

theorem lastA (A B : EP) (hwf : TcpWF A B) (s : TcpSt) (hq : s.quiet) (hi : AIdle A s) (hb : s.ba.done = true) :
    (tcpStep A B s .a).returned = true := by
  obtain ⟨_, b1, h3⟩ := stepA_quiet A B s hq
  unfold TcpSt.returned
  rw [b1, hb, Bool.and_true]
  cases hi with
  | inl hd =>
    cases h3 with
    | inl he => rw [he]; exact hd
    | inr he => rw [he.2, dirStep_done_mono _ _ _ _ hd]; exact hd
  | inr hp =>
    have htold : s.toldA A = true := by simp [TcpSt.toldA, hb, hwf.2.1 hp.2]
    have hnb : blockedRead A s.ab (s.toldA A) = false := by simp [blockedRead, htold]
    have hab : (tcpStep A B s .a).ab = dirStep A B s.bSeen s.ab := by simp [tcpStep, hq.1, hnb]
    rw [hab]
    by_cases hd : s.ab.done = true
    · rw [dirStep_done_mono _ _ _ _ hd]; exact hd
    · simp [dirStep, hd, hp.1, rdNext, Dir.finishRead]

/-- Whatever happened before (any interleaving, Writes left in progress, errors on either side): once the
pending Writes complete and the goroutines get their turns, both finish and `wg.Wait()` passes — a
passive peer included, because the end of the other direction is always signalled to it. -/
theorem tcpRun_returned (A B : EP) (hwf : TcpWF A B) (σ : List TTok) :
    (tcpRun A B (tcpComplete A B σ)).returned = true := by
  unfold tcpRun tcpComplete
  rw [List.foldl_append, List.foldl_append, List.foldl_append, List.foldl_append]
  have h0 := tcpFold_inv A B σ _ (tcpInit_inv A B)
  generalize σ.foldl (tcpStep A B) (tcpInit A B) = s0 at h0
  have hq := tcp_release_quiet A B s0
  have h1 := tcpStep_inv A B _ .bx (tcpStep_inv A B s0 .ax h0)
  simp only [List.foldl_cons, List.foldl_nil]
  generalize tcpStep A B (tcpStep A B s0 .ax) .bx = s1 at hq h1
  have pa := phaseA A B (stepsFor A.reads) s1 hq h1.abr
  have hbr : ((List.replicate (stepsFor A.reads) TTok.a).foldl (tcpStep A B) s1).ba.rem ≤ stepsFor B.reads := by
    rw [pa.2.2]; exact h1.bar
  generalize (List.replicate (stepsFor A.reads) TTok.a).foldl (tcpStep A B) s1 = s2 at pa hbr
  have pb := phaseB A B hwf (stepsFor B.reads) s2 pa.1 pa.2.1 hbr
  generalize (List.replicate (stepsFor B.reads) TTok.b).foldl (tcpStep A B) s2 = s3 at pb
  exact lastA A B hwf s3 pb.1 pb.2.1 pb.2.2

theorem dir_final (src : EP) (d : Dir) (h : DirInv src d) (hd : d.done = true) :
    (d.wfEnv || d.delivered == src.reads.flatten) = true := by
  cases hw : d.wfEnv with
  | true => rfl
  | false =>
    have h1 := h.full hw
    rw [h.fin hd hw] at h1
    simp at h1
    simp [h1]

theorem holdsTcp_of (A B : EP) (s : TcpSt) (inv : TcpInv A B s) (ret : s.returned = true) :
    holdsTcp A B (tcpObs A B s) = true := by
  have hd : s.ab.done = true ∧ s.ba.done = true := by simpa [TcpSt.returned] using ret
  have p1 : s.ab.delivered.isPrefixOf A.reads.flatten = true := List.isPrefixOf_iff_prefix.mpr inv.ab.pre
  have p2 : s.ba.delivered.isPrefixOf B.reads.flatten = true := List.isPrefixOf_iff_prefix.mpr inv.ba.pre
  have f1 := dir_final A s.ab inv.ab hd.1
  have f2 := dir_final B s.ba inv.ba hd.2
  simp only [holdsTcp, tcpObs, ret, p1, p2, f1, f2]
  rfl

/-! ### the record codec -/

theorem drain_fuel (f : Nat) : ∀ (g : Nat) (bs : Bytes), bs.length ≤ f → bs.length ≤ g → drain f bs = drain g bs := by
  induction f with
  | zero =>
    intro g bs hf _
    have : bs = [] := List.eq_nil_of_length_eq_zero (by omega)
    subst this
    cases g <;> rfl
  | succ f ih =>
    intro g bs hf hg
    match bs, hf, hg with
    | [], _, _ => cases g <;> rfl
    | [b], _, _ => cases g <;> rfl
    | hi :: lo :: body, hf, hg =>
      cases g with
      | zero => simp at hg
      | succ g =>
        simp only [List.length_cons] at hf hg
        simp only [drain]
        rw [ih g (body.drop (hi.toNat * 256 + lo.toNat)) (by simp; omega) (by simp; omega)]

theorem drainAll_nil : drainAll [] = ⟨[], [], false⟩ := rfl
theorem drainAll_single (b : Byte) : drainAll [b] = ⟨[], [b], false⟩ := rfl

theorem drainAll_cons2 (hi lo : Byte) (body : Bytes) :
    drainAll (hi :: lo :: body) =
      if hi.toNat * 256 + lo.toNat = 0 ∨ hi.toNat * 256 + lo.toNat > maxPacketLen then ⟨[], hi :: lo :: body, true⟩
      else if body.length < hi.toNat * 256 + lo.toNat then ⟨[], hi :: lo :: body, false⟩
      else ⟨body.take (hi.toNat * 256 + lo.toNat) :: (drainAll (body.drop (hi.toNat * 256 + lo.toNat))).pk,
            (drainAll (body.drop (hi.toNat * 256 + lo.toNat))).rest,
            (drainAll (body.drop (hi.toNat * 256 + lo.toNat))).ill⟩ := by
  unfold drainAll
  simp only [List.length_cons, drain]
  rw [drain_fuel (body.length + 1) (body.drop (hi.toNat * 256 + lo.toNat)).length _ (by simp; omega) (Nat.le_refl _)]

/-- Parsing a window that is extended by more bytes: parse the old window, then continue from its
unprocessed tail — the algebra behind "compaction + next Read". -/
def comb (d : DrainRes) (y : Bytes) : DrainRes :=
  if d.ill then ⟨d.pk, d.rest ++ y, true⟩
  else ⟨d.pk ++ (drainAll (d.rest ++ y)).pk, (drainAll (d.rest ++ y)).rest, (drainAll (d.rest ++ y)).ill⟩

theorem drainAll_append_aux (y : Bytes) (n : Nat) : ∀ x : Bytes, x.length ≤ n → drainAll (x ++ y) = comb (drainAll x) y := by
  induction n with
  | zero =>
    intro x hx
    have : x = [] := List.eq_nil_of_length_eq_zero (by omega)
    subst this
    simp [comb, drainAll_nil]
  | succ n ih =>
    intro x hx
    match x, hx with
    | [], _ => simp [comb, drainAll_nil]
    | [b], _ => simp [comb, drainAll_single]
    | hi :: lo :: body, hx =>
      simp only [List.length_cons] at hx
      rw [List.cons_append, List.cons_append, drainAll_cons2, drainAll_cons2]
      generalize hm : hi.toNat * 256 + lo.toNat = m
      by_cases h1 : m = 0 ∨ m > maxPacketLen
      · rw [if_pos h1, if_pos h1]; simp [comb]
      · rw [if_neg h1, if_neg h1]
        by_cases h2 : body.length < m
        · rw [if_pos h2]
          simp only [comb, Bool.false_eq_true, if_false, List.nil_append, List.cons_append]
          rw [drainAll_cons2, hm, if_neg h1]
        · rw [if_neg h2]
          have hle : m ≤ body.length := Nat.le_of_not_lt h2
          have h3 : ¬ (body ++ y).length < m := by simp; omega
          rw [if_neg h3]
          rw [List.take_append_of_le_length hle, List.drop_append_of_le_length hle]
          rw [ih (body.drop m) (by simp; omega)]
          simp only [comb]
          by_cases h4 : (drainAll (body.drop m)).ill = true
          · simp [h4]
          · simp [h4]

theorem drainAll_append (x y : Bytes) : drainAll (x ++ y) = comb (drainAll x) y :=
  drainAll_append_aux y x.length x (Nat.le_refl _)

/-- A window content from which the unpack loop extracts nothing and which is not illegal:
fewer than two bytes, or an incomplete record. -/
def Stuck (r : Bytes) : Prop := drainAll r = ⟨[], r, false⟩

theorem stuck_nil : Stuck [] := drainAll_nil

theorem drainAll_rest_stuck_aux (n : Nat) : ∀ x : Bytes, x.length ≤ n → (drainAll x).ill = false → Stuck (drainAll x).rest := by
  induction n with
  | zero =>
    intro x hx _
    have : x = [] := List.eq_nil_of_length_eq_zero (by omega)
    subst this
    exact stuck_nil
  | succ n ih =>
    intro x hx
    match x, hx with
    | [], _ => intro _; exact stuck_nil
    | [b], _ => intro _; exact drainAll_single b
    | hi :: lo :: body, hx =>
      simp only [List.length_cons] at hx
      rw [drainAll_cons2]
      generalize hm : hi.toNat * 256 + lo.toNat = m
      by_cases h1 : m = 0 ∨ m > maxPacketLen
      · rw [if_pos h1]; intro h; cases h
      · rw [if_neg h1]
        by_cases h2 : body.length < m
        · rw [if_pos h2]
          intro _
          show Stuck (hi :: lo :: body)
          unfold Stuck
          rw [drainAll_cons2, hm, if_neg h1, if_pos h2]
        · rw [if_neg h2]
          exact ih _ (by simp; omega)

theorem drainAll_rest_stuck (x : Bytes) (h : (drainAll x).ill = false) : Stuck (drainAll x).rest :=
  drainAll_rest_stuck_aux x.length x (Nat.le_refl _) h

theorem stuck_len (r : Bytes) (h : Stuck r) : r.length ≤ maxPacketLen + 1 := by
  match r, h with
  | [], _ => simp
  | [b], _ => simp [maxPacketLen]
  | hi :: lo :: body, h =>
    unfold Stuck at h
    rw [drainAll_cons2] at h
    generalize hi.toNat * 256 + lo.toNat = m at h
    by_cases h1 : m = 0 ∨ m > maxPacketLen
    · rw [if_pos h1] at h; cases h
    · rw [if_neg h1] at h
      by_cases h2 : body.length < m
      · simp only [List.length_cons]
        have : ¬ m > maxPacketLen := fun hh => h1 (Or.inr hh)
        omega
      · rw [if_neg h2] at h; cases h

theorem stuck_drain (r : Bytes) (h : Stuck r) : (drainAll r).pk = [] ∧ (drainAll r).rest = r ∧ (drainAll r).ill = false := by
  rw [h]; exact ⟨rfl, rfl, rfl⟩

/-! ### encoding -/

theorem encodeAll_cons (d : Bytes) (ds : List Bytes) : encodeAll (d :: ds) = encode1 d ++ encodeAll ds := by
  simp [encodeAll]

theorem encodeAll_nil : encodeAll [] = [] := rfl

theorem encodeAll_append (a b : List Bytes) : encodeAll (a ++ b) = encodeAll a ++ encodeAll b := by
  simp [encodeAll]

theorem encode1_length (d : Bytes) : (encode1 d).length = 2 + d.length := by
  simp [encode1]; omega

theorem prefix_val (d : Bytes) (h : d.length ≤ 65535) :
    (UInt8.ofNat (d.length / 256)).toNat * 256 + (UInt8.ofNat d.length).toNat = d.length := by
  simp
  omega

/-- One whole record at the front of the window is extracted. -/
theorem drainAll_encode1 (d rest : Bytes) (hwf : wfDgram d = true) :
    drainAll (encode1 d ++ rest) = ⟨d :: (drainAll rest).pk, (drainAll rest).rest, (drainAll rest).ill⟩ := by
  have hw : 1 ≤ d.length ∧ d.length ≤ 65535 := by simpa [wfDgram] using hwf
  show drainAll (UInt8.ofNat (d.length / 256) :: UInt8.ofNat d.length :: (d ++ rest)) = _
  rw [drainAll_cons2, prefix_val d hw.2]
  have h1 : ¬ (d.length = 0 ∨ d.length > maxPacketLen) := by (have hmx : maxPacketLen = 65535 := rfl); omega
  have h2 : ¬ (d ++ rest).length < d.length := by simp
  rw [if_neg h1, if_neg h2]
  simp

/-- A proper prefix of one record: nothing is extracted, nothing is illegal. -/
theorem drainAll_partial (d : Bytes) (hwf : wfDgram d = true) (k : Nat) (hk : k < 2 + d.length) :
    Stuck ((encode1 d).take k) := by
  have hw : 1 ≤ d.length ∧ d.length ≤ 65535 := by simpa [wfDgram] using hwf
  match k, hk with
  | 0, _ => exact stuck_nil
  | 1, _ => exact drainAll_single _
  | k + 2, hk =>
    show Stuck (UInt8.ofNat (d.length / 256) :: UInt8.ofNat d.length :: d.take k)
    unfold Stuck
    rw [drainAll_cons2, prefix_val d hw.2]
    have h1 : ¬ (d.length = 0 ∨ d.length > maxPacketLen) := by (have hmx : maxPacketLen = 65535 := rfl); omega
    have h2 : (d.take k).length < d.length := by rw [List.length_take]; omega
    rw [if_neg h1, if_pos h2]

theorem completeBefore_all (ds : List Bytes) (cut : Nat) (h : (encodeAll ds).length ≤ cut) : completeBefore ds cut = ds := by
  induction ds generalizing cut with
  | nil => rfl
  | cons d ds ih =>
    rw [encodeAll_cons, List.length_append, encode1_length] at h
    simp only [completeBefore]
    rw [if_pos (by omega), ih _ (by omega)]

/-- **Cut theorem for the parser**: the encoding of well-formed datagrams, ended at ANY byte
offset, parses to exactly the datagrams that were complete before the cut, is never illegal, and
leaves an unfinished record (or nothing). -/
theorem drainAll_cut (ds : List Bytes) (hwf : ds.all wfDgram = true) (cut : Nat) :
    (drainAll ((encodeAll ds).take cut)).pk = completeBefore ds cut ∧
    (drainAll ((encodeAll ds).take cut)).ill = false := by
  induction ds generalizing cut with
  | nil => simp [encodeAll_nil, drainAll_nil, completeBefore]
  | cons d ds ih =>
    have hd : wfDgram d = true := by simp at hwf; exact hwf.1
    have hds : ds.all wfDgram = true := by simp at hwf ⊢; exact hwf.2
    rw [encodeAll_cons]
    simp only [completeBefore]
    by_cases hc : 2 + d.length ≤ cut
    · rw [if_pos hc]
      have : (encode1 d ++ encodeAll ds).take cut = encode1 d ++ (encodeAll ds).take (cut - (2 + d.length)) := by
        rw [List.take_append, encode1_length, List.take_of_length_le (by rw [encode1_length]; exact hc)]
      rw [this, drainAll_encode1 _ _ hd]
      have := ih hds (cut - (2 + d.length))
      exact ⟨by simp [this.1], this.2⟩
    · rw [if_neg hc]
      have hlt : cut < 2 + d.length := Nat.lt_of_not_le hc
      have : (encode1 d ++ encodeAll ds).take cut = (encode1 d).take cut := by
        rw [List.take_append_of_le_length (by rw [encode1_length]; omega)]
      rw [this]
      have := stuck_drain _ (drainAll_partial d hd cut hlt)
      exact ⟨this.1, this.2.2⟩

/-- Complete records followed by anything: the records come out first, in order. -/
theorem drainAll_encodeAll_append (ds : List Bytes) (hwf : ds.all wfDgram = true) (junk : Bytes) :
    (drainAll (encodeAll ds ++ junk)).pk = ds ++ (drainAll junk).pk := by
  induction ds with
  | nil => simp [encodeAll_nil]
  | cons d ds ih =>
    have hd : wfDgram d = true := by simp at hwf; exact hwf.1
    have hds : ds.all wfDgram = true := by simp at hwf ⊢; exact hwf.2
    rw [encodeAll_cons, List.append_assoc, drainAll_encode1 _ _ hd]
    simp [ih hds]

/-! ### tunnel → UDP goroutine -/

structure DecInv (S : Bytes) (s : Dec) : Prop where
  stuck : s.stop = .running → Stuck s.buf
  run : s.stop = .running →
    (drainAll S).pk = s.out ++ (drainAll (s.buf ++ s.pending.flatten)).pk ∧
    (drainAll S).ill = (drainAll (s.buf ++ s.pending.flatten)).ill
  fin : s.stop ≠ .running → s.stop ≠ .werr → (drainAll S).pk = s.out
  ill : s.stop = .illegal → (drainAll S).ill = true
  noill : s.stop = .clean ∨ s.stop = .trunc → (drainAll S).ill = false
  werr : s.stop = .werr → s.out <+: (drainAll S).pk

theorem decInv_init (chunks : List Bytes) : DecInv chunks.flatten { pending := chunks } :=
  ⟨fun _ => stuck_nil, fun _ => by simp, fun h => by simp at h, fun h => by simp at h, fun h => by simp at h, fun h => by simp at h⟩

theorem window_facts : maxPacketLen + 1 < refill ∧ refill < readBuf_1 := by decide

theorem stuck_lt_refill (b : Bytes) (h : Stuck b) : b.length < refill := by
  have := stuck_len b h
  have := window_facts
  omega

def Dec.rem (s : Dec) : Nat := if s.done then 0 else meas s.pending + 1

theorem Dec.done_iff (s : Dec) : s.done = true ↔ s.stop ≠ .running := by
  simp [Dec.done]

theorem Dec.rem_zero_iff (s : Dec) : s.rem = 0 ↔ s.done = true := by
  unfold Dec.rem; split <;> simp_all

/-- One iteration of the repaired loop: invariant, progress, and where it can stop. -/
theorem decIter_step (S : Bytes) (te f : Bool) (s : Dec) (h : DecInv S s) (hr : s.stop = .running) :
    DecInv S (decIter .repaired te f s) ∧
    (decIter .repaired te f s).rem ≤ s.rem - 1 ∧
    ((decIter .repaired te f s).stop = .clean ∨ (decIter .repaired te f s).stop = .trunc →
      (rdNext s.pending f (readBuf_1 - s.buf.length)).fin = true) := by
  have hst := h.stuck hr
  have hlt := stuck_lt_refill _ hst
  have hroom : 0 < readBuf_1 - s.buf.length := by have := window_facts; omega
  have hrun := h.run hr
  have hdr := rdNext_data_rest s.pending f (readBuf_1 - s.buf.length)
  have hfr := rdNext_fin_rest s.pending f (readBuf_1 - s.buf.length)
  have hms : ∀ hp : s.pending ≠ [], _ := rdNext_meas s.pending f (readBuf_1 - s.buf.length) hroom
  have hnil : s.pending = [] → (rdNext s.pending f (readBuf_1 - s.buf.length)).fin = true := by
    intro hp; rw [hp]; rfl
  have hrem : s.rem = meas s.pending + 1 := by simp [Dec.rem, Dec.done, hr]
  unfold decIter
  simp only [hlt, if_true]
  generalize rdNext s.pending f (readBuf_1 - s.buf.length) = r at hdr hfr hms hnil
  have hX : s.buf ++ s.pending.flatten = (s.buf ++ r.data) ++ r.rest.flatten := by
    rw [List.append_assoc, hdr]
  have hcomb := drainAll_append (s.buf ++ r.data) r.rest.flatten
  rw [← hX] at hcomb
  -- progress: either the script got shorter or this Read returned the tail
  have hprog : r.fin = true ∨ meas r.rest + 1 ≤ meas s.pending := by
    by_cases hp : s.pending = []
    · exact Or.inl (hnil hp)
    · exact Or.inr (hms hp)
  by_cases hA : (r.fin && (s.buf ++ r.data).isEmpty) = true
  · simp only [hA, if_true]
    have hA' : r.fin = true ∧ (s.buf ++ r.data) = [] := by
      simp only [Bool.and_eq_true, List.isEmpty_iff] at hA; exact hA
    refine ⟨⟨fun h' => by simp at h', fun h' => by simp at h', fun _ _ => ?_, fun h' => by simp at h', fun _ => ?_, fun h' => by simp at h'⟩, ?_, fun _ => hA'.1⟩
    · have : s.buf ++ s.pending.flatten = [] := by rw [hX, hA'.2, hfr hA'.1]; rfl
      rw [this, drainAll_nil] at hrun
      simpa using hrun.1
    · have : s.buf ++ s.pending.flatten = [] := by rw [hX, hA'.2, hfr hA'.1]; rfl
      rw [this, drainAll_nil] at hrun
      exact hrun.2
    · simp [Dec.rem, Dec.done]
  · simp only [hA]
    by_cases hB1 : (drainAll (s.buf ++ r.data)).ill = true
    · simp only [hB1, if_true]
      have hc : drainAll (s.buf ++ s.pending.flatten) =
          ⟨(drainAll (s.buf ++ r.data)).pk, (drainAll (s.buf ++ r.data)).rest ++ r.rest.flatten, true⟩ := by
        rw [hcomb, comb, if_pos hB1]
      rw [hc] at hrun
      refine ⟨⟨fun h' => by simp at h', fun h' => by simp at h', fun _ _ => hrun.1, fun _ => hrun.2, fun h' => by simp at h', fun h' => by simp at h'⟩, ?_,
        fun h' => by simp at h'⟩
      simp [Dec.rem, Dec.done]
    · have hB1' : (drainAll (s.buf ++ r.data)).ill = false := by simpa using hB1
      simp only [hB1', Bool.false_eq_true, if_false]
      have hc : drainAll (s.buf ++ s.pending.flatten) =
          ⟨(drainAll (s.buf ++ r.data)).pk ++ (drainAll ((drainAll (s.buf ++ r.data)).rest ++ r.rest.flatten)).pk,
           (drainAll ((drainAll (s.buf ++ r.data)).rest ++ r.rest.flatten)).rest,
           (drainAll ((drainAll (s.buf ++ r.data)).rest ++ r.rest.flatten)).ill⟩ := by
        rw [hcomb, comb, if_neg hB1]
      have hstk := drainAll_rest_stuck _ hB1'
      by_cases hf : r.fin = true
      · simp only [hf, if_true]
        have hrest : r.rest = [] := hfr hf
        rw [hrest] at hc
        simp only [List.flatten_nil, List.append_nil] at hc
        have hsd := stuck_drain _ hstk
        rw [hc, hsd.1, hsd.2.2] at hrun
        simp only [List.append_nil] at hrun
        by_cases hE : (drainAll (s.buf ++ r.data)).rest.isEmpty = true
        · simp only [hE, if_true]
          refine ⟨⟨fun h' => by simp at h', fun h' => by simp at h', fun _ _ => hrun.1, fun h' => by simp at h', fun _ => hrun.2, fun h' => by simp at h'⟩, ?_, fun _ => by first | trivial | exact hf⟩
          simp [Dec.rem, Dec.done]
        · simp only [hE]
          refine ⟨⟨fun h' => by simp at h', fun h' => by simp at h', fun _ _ => hrun.1, fun h' => by simp at h', fun _ => hrun.2, fun h' => by simp at h'⟩, ?_, fun _ => by first | trivial | exact hf⟩
          simp [Dec.rem, Dec.done]
      · have hf' : r.fin = false := by simpa using hf
        simp only [hf', Bool.false_eq_true, if_false]
        rw [hc] at hrun
        refine ⟨⟨fun _ => hstk, fun _ => ⟨by rw [hrun.1]; simp [List.append_assoc], hrun.2⟩, (fun h' _ => absurd hr h'),
          (fun h' => by simp [hr] at h'), (fun h' => by simp [hr] at h'), (fun h' => by simp [hr] at h')⟩, ?_, (fun h' => by simp [hr] at h')⟩
        have : meas r.rest + 1 ≤ meas s.pending := by
          cases hprog with
          | inl h' => exact absurd h' hf
          | inr h' => exact h'
        simp [Dec.rem, Dec.done, hr]
        omega

theorem decInv_out_prefix (S : Bytes) (d : Dec) (h : DecInv S d) : d.out <+: (drainAll S).pk := by
  cases hs : d.stop with
  | running => rw [(h.run hs).1]; exact List.prefix_append _ _
  | werr => exact h.werr hs
  | clean => rw [h.fin (by simp [hs]) (by simp [hs])]; exact List.prefix_refl _
  | trunc => rw [h.fin (by simp [hs]) (by simp [hs])]; exact List.prefix_refl _
  | illegal => rw [h.fin (by simp [hs]) (by simp [hs])]; exact List.prefix_refl _

/-- A refused Write on the UDP socket cuts the iteration's output and ends the goroutine. -/
theorem cutWrite_spec (S : Bytes) (uw : Option Nat) (s d : Dec) (hd : DecInv S d) :
    DecInv S (d.cutWrite uw s) ∧ (d.cutWrite uw s).rem ≤ d.rem ∧
    ((d.cutWrite uw s) = d ∨ (d.cutWrite uw s).stop = .werr) := by
  unfold Dec.cutWrite
  cases uw with
  | none => exact ⟨hd, Nat.le_refl _, Or.inl rfl⟩
  | some j =>
    dsimp only
    split
    · refine ⟨⟨fun h' => by simp at h', fun h' => by simp at h', fun _ h' => by simp at h', fun h' => by simp at h',
        fun h' => by simp at h', fun _ => ?_⟩, by simp [Dec.rem, Dec.done], Or.inr rfl⟩
      exact List.IsPrefix.trans (List.take_prefix _ _) (decInv_out_prefix S d hd)
    · exact ⟨hd, Nat.le_refl _, Or.inl rfl⟩

/-- Splitting a pass's datagrams into `batchSize` batches loses, duplicates and reorders nothing, and no batch
exceeds the writer's capacity. -/
theorem flushBatches_spec (n : Nat) (hn : 0 < n) : ∀ (k : Nat) (pk : List Bytes), pk.length ≤ k →
    (flushBatches n pk).flatten = pk ∧ ∀ b ∈ flushBatches n pk, b.length ≤ n ∧ b ≠ [] := by
  obtain ⟨m, rfl⟩ : ∃ m, n = m + 1 := ⟨n - 1, by omega⟩
  intro k
  induction k with
  | zero =>
    intro pk hk
    have : pk = [] := List.eq_nil_of_length_eq_zero (by omega)
    subst this
    rw [flushBatches]
    simp
  | succ k ih =>
    intro pk hk
    rw [flushBatches]
    by_cases hle : pk.length ≤ m + 1
    · rw [if_pos hle]
      by_cases he : pk.isEmpty = true
      · rw [if_pos he]; simp [List.isEmpty_iff.mp he]
      · rw [if_neg he]
        have hne : pk ≠ [] := fun h => he (by simp [h])
        simp [hle, hne]
    · rw [if_neg hle]
      have hlt : m + 1 < pk.length := Nat.lt_of_not_le hle
      have := ih (pk.drop (m + 1)) (by simp; omega)
      refine ⟨by simp [this.1], fun b hb => ?_⟩
      simp only [List.mem_cons] at hb
      cases hb with
      | inl h =>
        subst h
        refine ⟨by rw [List.length_take]; omega, fun h0 => ?_⟩
        have : (pk.take (m + 1)).length = 0 := by rw [h0]; rfl
        rw [List.length_take] at this
        omega
      | inr h => exact this.2 b h

/-! ### UDP → tunnel goroutine -/

/-- What the read buffer and the `n == 0` test make of the datagrams taken from the socket. -/
def normDs (ds : List Bytes) : List Bytes := (ds.map (fun d => d.take readBuf_0)).filter (fun d => d.length != 0)

theorem normDs_append (a b : List Bytes) : normDs (a ++ b) = normDs a ++ normDs b := by
  simp [normDs]

theorem normDs_wf (ds : List Bytes) (h : ds.all wfDgram = true) : normDs ds = ds := by
  induction ds with
  | nil => rfl
  | cons d ds ih =>
    have hd : wfDgram d = true := by simp at h; exact h.1
    have hds : ds.all wfDgram = true := by simp at h ⊢; exact h.2
    have hw : 1 ≤ d.length ∧ d.length ≤ 65535 := by simpa [wfDgram] using hd
    have ht : d.take readBuf_0 = d := List.take_of_length_le (by have : readBuf_0 = 65536 := rfl; omega)
    have := ih hds
    simp only [normDs, List.map_cons, ht] at this ⊢
    have hne : (d.length != 0) = true := by
      have : d.length ≠ 0 := by omega
      simpa using this
    rw [List.filter_cons, if_pos hne, this]

theorem flush_stream (e : Enc) : e.flush.flushes.flatten ++ e.flush.batch = e.flushes.flatten ++ e.batch := by
  unfold Enc.flush
  split
  · rfl
  · simp

theorem flush_batch (e : Enc) : e.flush.batch = [] := by
  unfold Enc.flush
  split
  · rename_i h; exact List.isEmpty_iff.mp h
  · rfl

theorem flush_fields (e : Enc) : e.flush.pending = e.pending ∧ e.flush.nread = e.nread ∧ e.flush.done = e.done ∧
    e.flush.wip = e.wip ∧ e.flush.parked = e.parked := by
  unfold Enc.flush
  split <;> simp

def parkedEnc : Option ParkedEv → Bytes
  | some (.dgram d) => encode1 d
  | _ => []

/-- Everything the tunnel has been or will be handed for the datagrams taken so far. -/
def Enc.stream (e : Enc) : Bytes := e.flushes.flatten ++ e.batch ++ parkedEnc e.parked

structure EncInv (uevs : List UEv) (e : Enc) : Prop where
  split : ∃ taken, dgramsOf uevs = taken ++ dgramsOf e.pending ∧ e.nread = taken.length ∧
      e.stream = encodeAll (normDs taken)
  fin : e.done = true → e.batch = [] ∧ e.wip = none ∧ e.parked = none
  /-- the region a Write in progress refers to is the whole batch: nobody appends while it lasts -/
  wipn : ∀ w, e.wip = some w → w.n = e.batch.length ∧ e.done = false
  /-- the main loop waits for `batchMu` only while the flush goroutine writes -/
  park : e.parked ≠ none → ∃ n, e.wip = some ⟨n, .ticker⟩

theorem encInv_init (uevs : List UEv) : EncInv uevs { pending := uevs } :=
  ⟨⟨[], by simp, rfl, by simp [Enc.stream, parkedEnc, normDs, encodeAll]⟩, fun h => by simp at h, fun _ h => by simp at h,
   fun h => by simp at h⟩

theorem encInv_noparked (uevs : List UEv) (e : Enc) (h : EncInv uevs e) (hw : e.wip = none) : e.parked = none := by
  cases hp : e.parked with
  | none => rfl
  | some p =>
    obtain ⟨n, hn⟩ := h.park (by simp [hp])
    rw [hw] at hn; cases hn

/-- The locked part of the loop body: the record is appended behind what is there; a Write it
starts and leaves in progress refers to the whole batch. -/
theorem encode_spec (e : Enc) (d : Bytes) (hold : Bool) (hw : e.wip = none) :
    (e.encode d hold).flushes.flatten ++ (e.encode d hold).batch = e.flushes.flatten ++ e.batch ++ encode1 d ∧
    (e.encode d hold).pending = e.pending ∧ (e.encode d hold).nread = e.nread ∧ (e.encode d hold).done = e.done ∧
    (e.encode d hold).parked = e.parked ∧
    ((e.encode d hold).wip = none ∨ (e.encode d hold).wip = some ⟨(e.encode d hold).batch.length, .mainHalf⟩) ∧
    (hold = false → (e.encode d hold).wip = none) := by
  unfold Enc.encode
  -- room
  have r : (e.room d.length).flushes.flatten ++ (e.room d.length).batch = e.flushes.flatten ++ e.batch ∧
      (e.room d.length).pending = e.pending ∧ (e.room d.length).nread = e.nread ∧ (e.room d.length).done = e.done ∧
      (e.room d.length).parked = e.parked ∧ (e.room d.length).wip = none := by
    unfold Enc.room
    split
    · have hf := flush_fields e
      exact ⟨flush_stream e, hf.1, hf.2.1, hf.2.2.1, hf.2.2.2.2, by rw [hf.2.2.2.1]; exact hw⟩
    · exact ⟨rfl, rfl, rfl, rfl, rfl, hw⟩
  generalize e.room d.length = e1 at r ⊢
  -- put
  have p : (e1.put d).flushes.flatten ++ (e1.put d).batch = e.flushes.flatten ++ e.batch ++ encode1 d ∧
      (e1.put d).pending = e.pending ∧ (e1.put d).nread = e.nread ∧ (e1.put d).done = e.done ∧
      (e1.put d).parked = e.parked ∧ (e1.put d).wip = none := by
    refine ⟨?_, r.2.1, r.2.2.1, r.2.2.2.1, r.2.2.2.2.1, r.2.2.2.2.2⟩
    show e1.flushes.flatten ++ (e1.batch ++ encode1 d) = _
    rw [← List.append_assoc, r.1]
  generalize e1.put d = e2 at p ⊢
  -- half
  unfold Enc.half
  split
  · cases hold with
    | true =>
      rw [if_pos rfl]
      exact ⟨p.1, p.2.1, p.2.2.1, p.2.2.2.1, p.2.2.2.2.1, Or.inr rfl, fun h => by cases h⟩
    | false =>
      rw [if_neg (by simp)]
      have hf := flush_fields e2
      exact ⟨by rw [flush_stream e2]; exact p.1, by rw [hf.1]; exact p.2.1, by rw [hf.2.1]; exact p.2.2.1,
        by rw [hf.2.2.1]; exact p.2.2.2.1, by rw [hf.2.2.2.2]; exact p.2.2.2.2.1,
        Or.inl (by rw [hf.2.2.2.1]; exact p.2.2.2.2.2), fun _ => by rw [hf.2.2.2.1]; exact p.2.2.2.2.2⟩
  · exact ⟨p.1, p.2.1, p.2.2.1, p.2.2.2.1, p.2.2.2.2.1, Or.inl p.2.2.2.2.2, fun _ => p.2.2.2.2.2⟩

/-- Facts about one event of the UDP side taken while no Write is in progress. -/
theorem encEv_spec (uevs : List UEv) (e : Enc) (hold : Bool) (ev : UEv) (rest : List UEv) (h : EncInv uevs e)
    (hp : e.pending = ev :: rest) (hd : e.done = false) (hw : e.wip = none) :
    EncInv uevs (encEv { e with pending := rest } hold ev) ∧
    (encEv { e with pending := rest } hold ev).pending = rest ∧
    (encEv { e with pending := rest } hold ev).done = false ∧
    (encEv { e with pending := rest } hold ev).parked = none ∧
    (∀ n te, (encEv { e with pending := rest } hold ev).wip ≠ some ⟨n, .mainFin te⟩) ∧
    (hold = false → (encEv { e with pending := rest } hold ev).wip = none) := by
  obtain ⟨taken, h1, h2, h3⟩ := h.split
  have hpk := encInv_noparked uevs e h hw
  have h3' : e.flushes.flatten ++ e.batch = encodeAll (normDs taken) := by
    simpa [Enc.stream, hpk, parkedEnc] using h3
  cases ev with
  | tick =>
    have hdg : dgramsOf uevs = taken ++ dgramsOf rest := by rw [h1, hp]; rfl
    dsimp only [encEv]
    by_cases hh : (hold && !e.batch.isEmpty) = true
    · rw [if_pos hh]
      refine ⟨⟨⟨taken, hdg, h2, ?_⟩, fun hdn => ?_, fun w hw' => ?_, fun hne => ?_⟩, rfl, hd, hpk, fun n te hc => ?_, fun hf => ?_⟩
      · show e.flushes.flatten ++ e.batch ++ parkedEnc e.parked = _
        rw [hpk]; simpa [parkedEnc] using h3'
      · exact absurd (hd ▸ hdn : false = true) (by simp)
      · have : w = ⟨e.batch.length, .ticker⟩ := by
          have hw'' : (some (⟨e.batch.length, .ticker⟩ : Wip)) = some w := hw'
          exact (Option.some.inj hw'').symm
        subst this
        exact ⟨rfl, hd⟩
      · exact absurd hpk hne
      · have hc' : (some (⟨e.batch.length, .ticker⟩ : Wip)) = some ⟨n, .mainFin te⟩ := hc
        cases Option.some.inj hc'
      · rw [hf] at hh; simp at hh
    · rw [if_neg hh]
      have hf := flush_fields { e with pending := rest }
      have hs := flush_stream { e with pending := rest }
      dsimp only at hf hs
      refine ⟨⟨⟨taken, by rw [hf.1]; exact hdg, by rw [hf.2.1]; exact h2, ?_⟩, fun hdn => ?_, fun w hw' => ?_, fun hne => ?_⟩,
        hf.1, by rw [hf.2.2.1]; exact hd, by rw [hf.2.2.2.2]; exact hpk, fun n te => by rw [hf.2.2.2.1, hw]; simp,
        fun _ => by rw [hf.2.2.2.1]; exact hw⟩
      · simp only [Enc.stream]; rw [hs, hf.2.2.2.2, hpk]; simpa [parkedEnc] using h3'
      · rw [hf.2.2.1, hd] at hdn; cases hdn
      · rw [hf.2.2.2.1, hw] at hw'; cases hw'
      · rw [hf.2.2.2.2, hpk] at hne; exact absurd rfl hne
  | dgram d0 =>
    have hdg : dgramsOf uevs = (taken ++ [d0]) ++ dgramsOf rest := by rw [h1, hp]; simp [dgramsOf]
    dsimp only [encEv]
    by_cases hz : (d0.take readBuf_0).length = 0
    · rw [if_pos hz]
      have hn : normDs [d0] = [] := by simp [normDs, hz]
      refine ⟨⟨⟨taken ++ [d0], hdg, by show e.nread + 1 = _; simp [h2], ?_⟩, fun hdn => ?_, fun w hw' => ?_, fun hne => ?_⟩,
        rfl, hd, hpk, fun n te hc => ?_, fun _ => hw⟩
      · rw [normDs_append, hn, List.append_nil]
        show e.flushes.flatten ++ e.batch ++ parkedEnc e.parked = _
        rw [hpk]; simpa [parkedEnc] using h3'
      · exact absurd (hd ▸ hdn : false = true) (by simp)
      · have hw'' : e.wip = some w := hw'
        rw [hw] at hw''; cases hw''
      · exact absurd hpk hne
      · have hc' : e.wip = some ⟨n, .mainFin te⟩ := hc
        rw [hw] at hc'; cases hc'
    · rw [if_neg hz]
      have hsp := encode_spec { e with pending := rest, nread := e.nread + 1 } (d0.take readBuf_0) hold hw
      dsimp only at hsp
      generalize ({ e with pending := rest, nread := e.nread + 1 } : Enc).encode (d0.take readBuf_0) hold = e' at hsp
      obtain ⟨s1, s2, s3, s4, s5, s6, s7⟩ := hsp
      have hn : normDs [d0] = [d0.take readBuf_0] := by
        simp only [normDs, List.map_cons, List.map_nil]
        rw [List.filter_cons, if_pos (by simpa using hz)]; rfl
      refine ⟨⟨⟨taken ++ [d0], (by rw [s2]; exact hdg), (by rw [s3]; simp [h2]), ?_⟩,
        (fun hdn => by rw [s4, hd] at hdn; cases hdn), (fun w hw' => ?_), (fun hne => by rw [s5, hpk] at hne; exact absurd rfl hne)⟩,
        s2, (by rw [s4]; exact hd), (by rw [s5]; exact hpk), (fun n te => ?_), s7⟩
      · simp only [Enc.stream]
        rw [s5, hpk, normDs_append, hn, encodeAll_append, ← h3', s1]
        simp [parkedEnc, encodeAll]
      · cases s6 with
        | inl h' => rw [h'] at hw'; cases hw'
        | inr h' =>
          rw [h'] at hw'
          have := Option.some.inj hw'
          subst this
          exact ⟨rfl, by rw [s4]; exact hd⟩
      · cases s6 with
        | inl h' => rw [h']; simp
        | inr h' => rw [h']; simp

theorem finish_spec (uevs : List UEv) (e : Enc) (te hold : Bool) (h : EncInv uevs e) (hd : e.done = false) (hw : e.wip = none) :
    EncInv uevs (e.finish te hold) ∧ (e.finish te hold).pending = e.pending ∧ (e.finish te hold).parked = none ∧
    ((e.finish te hold).done = true ∨ ∃ n, (e.finish te hold).wip = some ⟨n, .mainFin te⟩) ∧
    (hold = false → (e.finish te hold).done = true) := by
  obtain ⟨taken, h1, h2, h3⟩ := h.split
  have hpk := encInv_noparked uevs e h hw
  unfold Enc.finish
  by_cases hh : (hold && !e.batch.isEmpty) = true
  · rw [if_pos hh]
    refine ⟨⟨⟨taken, h1, h2, h3⟩, fun hdn => ?_, fun w hw' => ?_, fun hne => absurd hpk hne⟩, rfl, hpk,
      Or.inr ⟨_, rfl⟩, fun hf => ?_⟩
    · exact absurd (hd ▸ hdn : false = true) (by simp)
    · have hw'' : (some (⟨e.batch.length, .mainFin te⟩ : Wip)) = some w := hw'
      have := Option.some.inj hw''
      subst this
      exact ⟨rfl, hd⟩
    · rw [hf] at hh; simp at hh
  · rw [if_neg hh]
    have hf := flush_fields e
    have hs := flush_stream e
    have hb := flush_batch e
    refine ⟨⟨⟨taken, by show dgramsOf uevs = taken ++ dgramsOf e.flush.pending; rw [hf.1]; exact h1,
        by show e.flush.nread = _; rw [hf.2.1]; exact h2, ?_⟩,
      fun _ => ⟨hb, by show e.flush.wip = none; rw [hf.2.2.2.1]; exact hw, by show e.flush.parked = none; rw [hf.2.2.2.2]; exact hpk⟩,
      fun w hw' => ?_, fun hne => ?_⟩, hf.1, by show e.flush.parked = none; rw [hf.2.2.2.2]; exact hpk, Or.inl rfl, fun _ => rfl⟩
    · show e.flush.flushes.flatten ++ e.flush.batch ++ parkedEnc e.flush.parked = _
      rw [hf.2.2.2.2, hs]; exact h3
    · have hw'' : e.flush.wip = some w := hw'
      rw [hf.2.2.2.1, hw] at hw''; cases hw''
    · have : e.flush.parked ≠ none := hne
      rw [hf.2.2.2.2] at this; exact absurd hpk this

/-- The main loop has left (or is about to leave) its loop. -/
def EncTrig (e : Enc) : Prop :=
  e.done = true ∨ (∃ n te, e.wip = some ⟨n, .mainFin te⟩) ∨ (∃ te, e.parked = some (.tail te))

/-- While somebody's tunnel Write is in progress nothing touches the batch buffer: at most the main
loop takes one more Read and parks its result. -/
theorem stepBlocked_spec (uevs : List UEv) (e : Enc) (w : Wip) (uc : Bool) (ut : Option Bool) (h : EncInv uevs e)
    (hw : e.wip = some w) (hd : e.done = false) :
    EncInv uevs (e.stepBlocked w uc ut) ∧ (e.stepBlocked w uc ut).wip = e.wip ∧ (e.stepBlocked w uc ut).done = false ∧
    (e.stepBlocked w uc ut).batch = e.batch ∧ (e.stepBlocked w uc ut).flushes = e.flushes ∧
    (e.stepBlocked w uc ut).pending.length ≤ e.pending.length ∧
    ((e.stepBlocked w uc ut).pending ≠ [] → e.pending ≠ []) ∧
    (EncTrig (e.stepBlocked w uc ut) → EncTrig e ∨ uc = true ∨ (e.stepBlocked w uc ut).pending = []) := by
  obtain ⟨taken, h1, h2, h3⟩ := h.split
  have hwn := h.wipn w hw
  have keep : ∀ e' : Enc, e'.wip = e.wip → e'.done = e.done → e'.batch = e.batch → e'.flushes = e.flushes →
      e'.nread = e.nread → e'.pending = e.pending → (e'.parked = e.parked ∨ (e.parked = none ∧ w.who = .ticker ∧ ∃ te, e'.parked = some (.tail te))) →
      EncInv uevs e' := by
    intro e' a1 a2 a3 a4 a5 a6 a7
    refine ⟨⟨taken, (by rw [a6]; exact h1), (by rw [a5]; exact h2), ?_⟩, (fun hdn => by rw [a2, hd] at hdn; cases hdn),
      (fun w' hw' => by rw [a1] at hw'; rw [a3, a2]; exact h.wipn w' hw'), (fun hne => ?_)⟩
    · simp only [Enc.stream] at h3 ⊢
      rw [a3, a4]
      cases a7 with
      | inl hp => rw [hp]; exact h3
      | inr hp => obtain ⟨p0, _, te, pt⟩ := hp; rw [pt]; rw [p0] at h3; simpa [parkedEnc] using h3
    · rw [a1]
      cases a7 with
      | inl hp => rw [hp] at hne; exact h.park hne
      | inr hp => exact ⟨w.n, by rw [hw]; obtain ⟨_, hk, _⟩ := hp; cases w; simp at hk ⊢; exact hk⟩
  have trig_keep : ∀ e' : Enc, e'.wip = e.wip → e'.done = e.done → e'.parked = e.parked → EncTrig e' → EncTrig e := by
    intro e' a1 a2 a3 ht
    unfold EncTrig at ht ⊢
    rw [a1, a2, a3] at ht; exact ht
  unfold Enc.stepBlocked
  cases hp : e.pending with
  | nil =>
    dsimp only
    by_cases hc : (w.who == .ticker && e.parked.isNone) = true
    · rw [if_pos hc]
      have hc' : w.who = .ticker ∧ e.parked = none := by
        simp only [Bool.and_eq_true, beq_iff_eq, Option.isNone_iff_eq_none] at hc; exact hc
      cases uc with
      | true =>
        rw [if_pos rfl]
        exact ⟨keep _ rfl rfl rfl rfl rfl hp.symm (Or.inr ⟨hc'.2, hc'.1, false, rfl⟩), rfl, hd, rfl, rfl, (by simp [hp]),
          (fun hne => by simp [hp] at hne), (fun _ => Or.inr (Or.inl rfl))⟩
      | false =>
        rw [if_neg (by simp)]
        cases ut with
        | none =>
          dsimp only
          exact ⟨h, rfl, hd, rfl, rfl, (by simp [hp]), (fun hne => absurd hp hne), (fun ht => Or.inl ht)⟩
        | some te =>
          dsimp only
          exact ⟨keep _ rfl rfl rfl rfl rfl hp.symm (Or.inr ⟨hc'.2, hc'.1, te, rfl⟩), rfl, hd, rfl, rfl, (by simp [hp]),
            (fun hne => by simp [hp] at hne), (fun _ => Or.inr (Or.inr rfl))⟩
    · rw [if_neg hc]
      exact ⟨h, rfl, hd, rfl, rfl, (by simp [hp]), (fun hne => absurd hp hne), (fun ht => Or.inl ht)⟩
  | cons ev rest =>
    cases ev with
    | tick =>
      dsimp only
      refine ⟨⟨⟨taken, (by rw [h1, hp]; rfl), h2, h3⟩, (fun hdn => by simp [hd] at hdn), (fun w' hw' => h.wipn w' hw'), h.park⟩,
        rfl, hd, rfl, rfl, (by simp), (fun _ => by simp), (fun ht => Or.inl (trig_keep _ rfl rfl rfl ht))⟩
    | dgram d0 =>
      dsimp only
      by_cases hc : (w.who == .ticker && e.parked.isNone) = true
      · rw [if_pos hc]
        have hc' : w.who = .ticker ∧ e.parked = none := by
          simp only [Bool.and_eq_true, beq_iff_eq, Option.isNone_iff_eq_none] at hc; exact hc
        cases uc with
        | true =>
          rw [if_pos rfl]
          exact ⟨keep _ rfl rfl rfl rfl rfl hp.symm (Or.inr ⟨hc'.2, hc'.1, false, rfl⟩), rfl, hd, rfl, rfl, (by simp [hp]),
            (fun _ => by simp), (fun _ => Or.inr (Or.inl rfl))⟩
        | false =>
          rw [if_neg (by simp)]
          have hdg : dgramsOf uevs = (taken ++ [d0]) ++ dgramsOf rest := by rw [h1, hp]; simp [dgramsOf]
          have h3' : e.flushes.flatten ++ e.batch = encodeAll (normDs taken) := by
            simpa [Enc.stream, hc'.2, parkedEnc] using h3
          by_cases hz : (d0.take readBuf_0).length = 0
          · rw [if_pos hz]
            have hn : normDs [d0] = [] := by simp [normDs, hz]
            refine ⟨⟨⟨taken ++ [d0], hdg, (by show e.nread + 1 = _; simp [h2]), ?_⟩, (fun hdn => by simp [hd] at hdn),
              (fun w' hw' => h.wipn w' hw'), h.park⟩, rfl, hd, rfl, rfl, (by simp), (fun _ => by simp),
              (fun ht => Or.inl (trig_keep _ rfl rfl rfl ht))⟩
            rw [normDs_append, hn, List.append_nil]; exact h3
          · rw [if_neg hz]
            have hn : normDs [d0] = [d0.take readBuf_0] := by
              simp only [normDs, List.map_cons, List.map_nil]
              rw [List.filter_cons, if_pos (by simpa using hz)]; rfl
            refine ⟨⟨⟨taken ++ [d0], hdg, (by show e.nread + 1 = _; simp [h2]), ?_⟩, (fun hdn => by simp [hd] at hdn),
              (fun w' hw' => h.wipn w' hw'), (fun _ => ⟨w.n, by rw [hw]; cases w; simp at hc' ⊢; exact hc'.1⟩)⟩, rfl, hd, rfl, rfl, (by simp),
              (fun _ => by simp), (fun ht => ?_)⟩
            · rw [normDs_append, hn, encodeAll_append, ← h3']
              simp [Enc.stream, parkedEnc, encodeAll]
            · unfold EncTrig at ht ⊢
              rcases ht with ht | ht | ht
              · exact Or.inl (Or.inl ht)
              · exact Or.inl (Or.inr (Or.inl ht))
              · obtain ⟨te, hte⟩ := ht; simp at hte
      · rw [if_neg hc]
        exact ⟨h, rfl, hd, rfl, rfl, (by simp [hp]), (fun _ => by simp [hp]),
          (fun ht => Or.inl ht)⟩

/-- The Write in progress returns. Its region was the whole batch and nobody could append to it, so
the tunnel receives exactly what was handed to it; then whoever waited for `batchMu` goes on. -/
theorem endWrite_spec (uevs : List UEv) (e : Enc) (h : EncInv uevs e) :
    EncInv uevs e.endWrite ∧ e.endWrite.wip = none ∧ e.endWrite.parked = none ∧ e.endWrite.pending = e.pending ∧
    (e.done = true → e.endWrite = e) ∧ (EncTrig e.endWrite → EncTrig e) := by
  obtain ⟨taken, h1, h2, h3⟩ := h.split
  unfold Enc.endWrite
  cases hw : e.wip with
  | none =>
    dsimp only
    exact ⟨h, hw, encInv_noparked uevs e h hw, rfl, fun _ => rfl, fun ht => ht⟩
  | some w =>
    dsimp only
    have hwn := h.wipn w hw
    have htk : e.batch.take w.n = e.batch := by rw [hwn.1]; exact List.take_length
    rw [htk]
    have hfl : (e.flushes ++ [e.batch]).flatten ++ ([] : Bytes) = e.flushes.flatten ++ e.batch := by simp
    cases hwho : w.who with
    | mainFin te =>
      dsimp only
      have hpk : e.parked = none := by
        cases hp : e.parked with
        | none => rfl
        | some p =>
          obtain ⟨n, hn⟩ := h.park (by simp [hp])
          rw [hw] at hn; have := Option.some.inj hn; rw [this] at hwho; cases hwho
      refine ⟨⟨⟨taken, h1, h2, ?_⟩, (fun _ => ⟨rfl, rfl, hpk⟩), (fun w' hw' => by cases hw'), (fun hne => absurd hpk hne)⟩,
        rfl, hpk, rfl, (fun hd' => by rw [hwn.2] at hd'; cases hd'), (fun _ => ?_)⟩
      · simp only [Enc.stream] at h3 ⊢
        rw [hpk] at h3 ⊢; rw [hfl]; simpa [parkedEnc] using h3
      · exact Or.inr (Or.inl ⟨w.n, te, by rw [hw]; cases w; simp at hwho ⊢; exact hwho⟩)
    | mainHalf =>
      dsimp only
      have hpk : e.parked = none := by
        cases hp : e.parked with
        | none => rfl
        | some p =>
          obtain ⟨n, hn⟩ := h.park (by simp [hp])
          rw [hw] at hn; have := Option.some.inj hn; rw [this] at hwho; cases hwho
      refine ⟨⟨⟨taken, h1, h2, ?_⟩, (fun hd' => by rw [hwn.2] at hd'; cases hd'), (fun w' hw' => by cases hw'), (fun hne => absurd hpk hne)⟩,
        rfl, hpk, rfl, (fun hd' => by rw [hwn.2] at hd'; cases hd'), (fun ht => ?_)⟩
      · simp only [Enc.stream] at h3 ⊢
        rw [hpk] at h3 ⊢; rw [hfl]; simpa [parkedEnc] using h3
      · unfold EncTrig at ht ⊢
        rcases ht with ht | ht | ht
        · rw [hwn.2] at ht; cases ht
        · obtain ⟨n, te, hh⟩ := ht; cases hh
        · obtain ⟨te, hh⟩ := ht; rw [hpk] at hh; cases hh
    | ticker =>
      dsimp only
      cases hp : e.parked with
      | none =>
        dsimp only
        refine ⟨⟨⟨taken, h1, h2, ?_⟩, (fun hd' => by rw [hwn.2] at hd'; cases hd'), (fun w' hw' => by cases hw'), (fun hne => absurd rfl hne)⟩,
          rfl, rfl, rfl, (fun hd' => by rw [hwn.2] at hd'; cases hd'), (fun ht => ?_)⟩
        · simp only [Enc.stream] at h3 ⊢
          rw [hfl]; simpa [parkedEnc, hp] using h3
        · unfold EncTrig at ht ⊢
          rcases ht with ht | ht | ht
          · rw [hwn.2] at ht; cases ht
          · obtain ⟨n, te, hh⟩ := ht; cases hh
          · obtain ⟨te, hh⟩ := ht; cases hh
      | some pe =>
        cases pe with
        | dgram d =>
          dsimp only
          have hsp := encode_spec { e with flushes := e.flushes ++ [e.batch], batch := [], wip := none, parked := none } d false rfl
          dsimp only at hsp
          generalize ({ e with flushes := e.flushes ++ [e.batch], batch := [], wip := none, parked := none } : Enc).encode d false = e' at hsp
          obtain ⟨s1, s2, s3, s4, s5, s6, s7⟩ := hsp
          have hw' := s7 rfl
          refine ⟨⟨⟨taken, (by rw [s2]; exact h1), (by rw [s3]; exact h2), ?_⟩, (fun hd' => by rw [s4, hwn.2] at hd'; cases hd'),
            (fun w' hw'' => by rw [hw'] at hw''; cases hw''), (fun hne => absurd s5 hne)⟩,
            hw', s5, s2, (fun hd' => by rw [hwn.2] at hd'; cases hd'), (fun ht => ?_)⟩
          · simp only [Enc.stream] at h3 ⊢
            rw [hp] at h3
            rw [s5, s1, hfl]; simpa [parkedEnc] using h3
          · unfold EncTrig at ht ⊢
            rcases ht with ht | ht | ht
            · rw [s4, hwn.2] at ht; cases ht
            · obtain ⟨n, te, hh⟩ := ht; rw [hw'] at hh; cases hh
            · obtain ⟨te, hh⟩ := ht; rw [s5] at hh; cases hh
        | tail te =>
          dsimp only
          have hf := flush_fields { e with flushes := e.flushes ++ [e.batch], batch := [], wip := none, parked := none }
          have hs := flush_stream { e with flushes := e.flushes ++ [e.batch], batch := [], wip := none, parked := none }
          have hb := flush_batch { e with flushes := e.flushes ++ [e.batch], batch := [], wip := none, parked := none }
          dsimp only at hf hs hb
          refine ⟨⟨⟨taken, (by show dgramsOf uevs = taken ++ dgramsOf (Enc.flush _).pending; rw [hf.1]; exact h1),
              (by show (Enc.flush _).nread = _; rw [hf.2.1]; exact h2), ?_⟩,
            (fun _ => ⟨hb, (by show (Enc.flush _).wip = none; rw [hf.2.2.2.1]), (by show (Enc.flush _).parked = none; rw [hf.2.2.2.2])⟩),
            (fun w' hw'' => by have hx : (Enc.flush _).wip = some w' := hw''; rw [hf.2.2.2.1] at hx; cases hx),
            (fun hne => by have hx : (Enc.flush _).parked ≠ none := hne; rw [hf.2.2.2.2] at hx; exact absurd rfl hx)⟩,
            (by show (Enc.flush _).wip = none; rw [hf.2.2.2.1]), (by show (Enc.flush _).parked = none; rw [hf.2.2.2.2]), hf.1,
            (fun hd' => by rw [hwn.2] at hd'; cases hd'), (fun _ => Or.inr (Or.inr ⟨te, hp⟩))⟩
          show (Enc.flush _).flushes.flatten ++ (Enc.flush _).batch ++ parkedEnc (Enc.flush _).parked = _
          rw [hs, hf.2.2.2.2]
          simp only [Enc.stream] at h3
          rw [hp] at h3
          rw [hfl]; simpa [parkedEnc] using h3

/-! ### the UDP relay under a schedule (repaired code) -/

theorem rdNext_fin_nofuse (p : List Bytes) (room : Nat) (h : (rdNext p false room).fin = true) : p = [] := by
  cases p with
  | nil => rfl
  | cons c cs =>
    simp only [rdNext] at h
    split at h <;> simp at h

/-- If the UDP side stopped before its script was over, the tunnel side had ended first (and a tunnel
that never ends by itself can only have ended on an illegal record). -/
def EarlyOK (c : UdpCase) (s : UdpSt) : Prop :=
  s.enc.pending ≠ [] → s.dec.done = true ∧ (c.ttail = .hold → s.dec.stop = .illegal ∨ s.dec.stop = .werr)

structure UdpInv (c : UdpCase) (s : UdpSt) : Prop where
  dec : DecInv c.tchunks.flatten s.dec
  enc : EncInv c.uevs s.enc
  cw : s.cwT = s.enc.done
  ucl : s.udpClosed = s.dec.done
  hold : c.ttail = .hold → s.dec.done = true → s.dec.stop ≠ .illegal → s.dec.stop ≠ .werr → s.cwT = true
  early : EncTrig s.enc → EarlyOK c s
  remb : s.dec.rem ≤ stepsFor c.tchunks
  plen : s.enc.pending.length ≤ c.uevs.length
  dh : ∀ d, s.decHeld = some d → s.dec.done = false ∧ DecInv c.tchunks.flatten d ∧ d.rem ≤ stepsFor c.tchunks ∧
      (c.ttail = .hold → d.done = true → d.stop ≠ .illegal → d.stop ≠ .werr → s.cwT = true)

theorem udpInv_init (c : UdpCase) : UdpInv c (udpInit c) := by
  refine ⟨decInv_init _, encInv_init _, rfl, rfl, (fun _ h => by simp [udpInit, Dec.done] at h), (fun ht => ?_),
    (by simp [udpInit, Dec.rem, Dec.done, stepsFor_eq]), (by simp [udpInit]), (fun d h => by simp [udpInit] at h)⟩
  unfold EncTrig at ht
  rcases ht with ht | ht | ht
  · simp [udpInit] at ht
  · obtain ⟨n, te, hh⟩ := ht; simp [udpInit] at hh
  · obtain ⟨te, hh⟩ := ht; simp [udpInit] at hh

theorem closed_early (c : UdpCase) (s : UdpSt) (h : UdpInv c s) (hd : s.enc.done = false) (hc : s.udpClosed = true) :
    s.dec.done = true ∧ (c.ttail = .hold → s.dec.stop = .illegal ∨ s.dec.stop = .werr) := by
  have hdd : s.dec.done = true := by rw [← h.ucl]; exact hc
  refine ⟨hdd, fun hh => ?_⟩
  by_cases hi : s.dec.stop = .illegal
  · exact Or.inl hi
  · by_cases hw : s.dec.stop = .werr
    · exact Or.inr hw
    · have := h.hold hh hdd hi hw
      rw [h.cw, hd] at this
      cases this

/-- The UDP side moves from a state in which it has not finished. -/
theorem withEnc_inv (c : UdpCase) (s : UdpSt) (e' : Enc) (h : UdpInv c s) (hd : s.enc.done = false)
    (he : EncInv c.uevs e') (hl : e'.pending.length ≤ s.enc.pending.length)
    (hearly : EncTrig e' → e'.pending ≠ [] → s.dec.done = true ∧ (c.ttail = .hold → s.dec.stop = .illegal ∨ s.dec.stop = .werr)) :
    UdpInv c (s.withEnc e') := by
  have hcw : s.cwT = false := by rw [h.cw]; exact hd
  unfold UdpSt.withEnc
  refine ⟨h.dec, he, (by simp [hcw]), h.ucl, (fun hh hdn hni hnw => ?_), hearly, h.remb, (by have := h.plen; exact Nat.le_trans hl this),
    (fun d hdh => ?_)⟩
  · have := h.hold hh hdn hni hnw
    rw [hcw] at this; cases this
  · obtain ⟨a, b, cc, dd⟩ := h.dh d hdh
    exact ⟨a, b, cc, fun hh hdn hni hnw => by have := dd hh hdn hni hnw; rw [hcw] at this; cases this⟩

theorem withEnc_self (c : UdpCase) (s : UdpSt) (h : UdpInv c s) : s.withEnc s.enc = s := by
  have := h.cw
  cases s
  simp only [UdpSt.withEnc] at *
  simp [this]

theorem udpStepU_inv (c : UdpCase) (s : UdpSt) (hold : Bool) (h : UdpInv c s) : UdpInv c (udpStepU c s hold) := by
  unfold udpStepU
  by_cases hd : s.enc.done = true
  · rw [if_pos hd]; exact h
  · have hd' : s.enc.done = false := by simpa using hd
    rw [if_neg hd]
    cases hw : s.enc.wip with
    | some w =>
      dsimp only
      have sp := stepBlocked_spec c.uevs s.enc w s.udpClosed (utailEnd c.utail) h.enc hw hd'
      generalize s.enc.stepBlocked w s.udpClosed (utailEnd c.utail) = e' at sp ⊢
      obtain ⟨i1, _, _, _, _, i6, i7, i8⟩ := sp
      refine withEnc_inv c s e' h hd' i1 i6 (fun ht hne => ?_)
      rcases i8 ht with h' | h' | h'
      · exact h.early h' (i7 hne)
      · exact closed_early c s h hd' h'
      · exact absurd h' hne
    | none =>
      dsimp only
      by_cases hc : s.udpClosed = true
      · rw [if_pos hc]
        have sp := finish_spec c.uevs s.enc false false h.enc hd' hw
        exact withEnc_inv c s _ h hd' sp.1 (by rw [sp.2.1]; exact Nat.le_refl _) (fun _ _ => closed_early c s h hd' hc)
      · rw [if_neg hc]
        cases hp : s.enc.pending with
        | cons ev rest =>
          dsimp only
          have sp := encEv_spec c.uevs s.enc hold ev rest h.enc hp hd' hw
          generalize encEv { s.enc with pending := rest } hold ev = e' at sp ⊢
          obtain ⟨i1, i2, i3, i4, i5, _⟩ := sp
          refine withEnc_inv c s e' h hd' i1 (by rw [i2, hp]; simp) (fun ht _ => ?_)
          unfold EncTrig at ht
          rcases ht with ht | ht | ht
          · rw [i3] at ht; cases ht
          · obtain ⟨n, te, hh⟩ := ht; exact absurd hh (i5 n te)
          · obtain ⟨te, hh⟩ := ht; rw [i4] at hh; cases hh
        | nil =>
          dsimp only
          cases hu : utailEnd c.utail with
          | none => exact h
          | some te =>
            dsimp only
            have sp := finish_spec c.uevs s.enc te hold h.enc hd' hw
            exact withEnc_inv c s _ h hd' sp.1 (by rw [sp.2.1]; exact Nat.le_refl _)
              (fun _ hne => by rw [sp.2.1, hp] at hne; exact absurd rfl hne)

theorem commit_inv (c : UdpCase) (s : UdpSt) (d : Dec) (h : UdpInv c s) (hnd : s.dec.done = false)
    (hdi : DecInv c.tchunks.flatten d) (hrem : d.rem ≤ stepsFor c.tchunks)
    (hh : c.ttail = .hold → d.done = true → d.stop ≠ .illegal → d.stop ≠ .werr → s.cwT = true) :
    UdpInv c (s.commitDec .repaired d) := by
  have hucl : s.udpClosed = false := by rw [h.ucl]; exact hnd
  unfold UdpSt.commitDec
  refine ⟨hdi, h.enc, h.cw, (by simp [hucl]), hh, (fun ht hne => ?_), hrem, h.plen, (fun d' hd' => by cases hd')⟩
  have := (h.early ht hne).1
  rw [hnd] at this; cases this

theorem udpStepT_inv (c : UdpCase) (s : UdpSt) (hold : Bool) (h : UdpInv c s) : UdpInv c (udpStepT .repaired c s hold) := by
  unfold udpStepT
  by_cases hd : (s.dec.done || s.decHeld.isSome) = true
  · rw [if_pos hd]; exact h
  · rw [if_neg hd]
    have hd' : s.dec.done = false ∧ s.decHeld = none := by
      simp only [Bool.or_eq_true, not_or, Bool.not_eq_true, Option.isSome_eq_false_iff, Option.isNone_iff_eq_none] at hd
      exact hd
    have hr : s.dec.stop = .running := by
      have := hd'.1
      cases hs : s.dec.stop <;> simp [Dec.done, hs] at this ; rfl
    by_cases hb : (s.dec.pending.isEmpty && c.ttail == .hold && !s.cwT && decide (s.dec.buf.length < refill)) = true
    · rw [if_pos hb]; exact h
    · rw [if_neg hb]
      have hstep0 := decIter_step c.tchunks.flatten (c.ttail == .err) (c.tfused && c.ttail != .hold) s.dec h.dec hr
      dsimp only
      generalize decIter .repaired (c.ttail == .err) (c.tfused && c.ttail != .hold) s.dec = d0 at hstep0 ⊢
      have hcut := cutWrite_spec c.tchunks.flatten c.uwfail s.dec d0 hstep0.1
      generalize d0.cutWrite c.uwfail s.dec = d at hcut ⊢
      have hrem : d.rem ≤ stepsFor c.tchunks := by have := hstep0.2.1; have := hcut.2.1; have := h.remb; omega
      have hhold : c.ttail = .hold → d.done = true → d.stop ≠ .illegal → d.stop ≠ .werr → s.cwT = true := by
        intro hh hdn hni hnw
        have hd0 : d = d0 := by
          cases hcut.2.2 with
          | inl he => exact he
          | inr he => exact absurd he hnw
        subst hd0
        have hstop : d.stop = .clean ∨ d.stop = .trunc := by
          cases hs : d.stop with
          | running => simp [Dec.done, hs] at hdn
          | illegal => exact absurd hs hni
          | werr => exact absurd hs hnw
          | clean => exact Or.inl rfl
          | trunc => exact Or.inr rfl
        have hfin := hstep0.2.2 hstop
        have hf0 : (c.tfused && c.ttail != .hold) = false := by simp [hh]
        rw [hf0] at hfin
        have hp := rdNext_fin_nofuse _ _ hfin
        have hlt := stuck_lt_refill _ (h.dec.stuck hr)
        cases hcw : s.cwT with
        | true => rfl
        | false => simp [hp, hh, hcw, hlt] at hb
      split
      · refine ⟨h.dec, h.enc, h.cw, h.ucl, h.hold, h.early, h.remb, h.plen, (fun d' hd'' => ?_)⟩
        have : d = d' := Option.some.inj hd''
        subst this
        exact ⟨hd'.1, hcut.1, hrem, hhold⟩
      · exact commit_inv c s d h hd'.1 hcut.1 hrem hhold

theorem udpStep_inv (c : UdpCase) (s : UdpSt) (t : UTok) (h : UdpInv c s) : UdpInv c (udpStep .repaired c s t) := by
  unfold udpStep
  cases t with
  | u => exact udpStepU_inv c s false h
  | uh => exact udpStepU_inv c s true h
  | t => exact udpStepT_inv c s false h
  | th => exact udpStepT_inv c s true h
  | w =>
    dsimp only
    have sp := endWrite_spec c.uevs s.enc h.enc
    by_cases hd : s.enc.done = true
    · rw [sp.2.2.2.2.1 hd, withEnc_self c s h]; exact h
    · have hd' : s.enc.done = false := by simpa using hd
      exact withEnc_inv c s _ h hd' sp.1 (by rw [sp.2.2.2.1]; exact Nat.le_refl _)
        (fun ht hne => h.early (sp.2.2.2.2.2 ht) (by rw [sp.2.2.2.1] at hne; exact hne))
  | v =>
    dsimp only
    cases hh : s.decHeld with
    | none => exact h
    | some d =>
      dsimp only
      obtain ⟨a, b, cc, dd⟩ := h.dh d hh
      exact commit_inv c s d h a b cc dd
  | s =>
    dsimp only
    split
    · exact ⟨h.dec, h.enc, h.cw, h.ucl, h.hold, h.early, h.remb, h.plen, h.dh⟩
    · exact h
  | sa => exact ⟨h.dec, h.enc, h.cw, h.ucl, h.hold, h.early, h.remb, h.plen, h.dh⟩

theorem udpFold_inv (c : UdpCase) (σ : List UTok) (s : UdpSt) (h : UdpInv c s) :
    UdpInv c (σ.foldl (udpStep .repaired c) s) := by
  induction σ generalizing s with
  | nil => exact h
  | cons t σ ih => exact ih _ (udpStep_inv c s t h)

/-! ### the UDP relay returns -/

/-- No Write is in progress anywhere. -/
def UdpSt.quiet (s : UdpSt) : Prop := s.enc.wip = none ∧ s.decHeld = none

/-- Invariant + quiet: the states of the completion phase. -/
def Good (c : UdpCase) (s : UdpSt) : Prop := UdpInv c s ∧ s.quiet

theorem release_good (c : UdpCase) (s : UdpSt) (h : UdpInv c s) :
    Good c (udpStep .repaired c (udpStep .repaired c s .w) .v) := by
  have h1 := udpStep_inv c s .w h
  have h2 := udpStep_inv c _ .v h1
  refine ⟨h2, ?_⟩
  have q1 : (udpStep .repaired c s .w).enc.wip = none := by
    simp only [udpStep, UdpSt.withEnc]
    exact (endWrite_spec c.uevs s.enc h.enc).2.1
  generalize udpStep .repaired c s .w = s1 at q1 h1 h2 ⊢
  unfold udpStep UdpSt.quiet
  dsimp only
  cases hh : s1.decHeld with
  | none => exact ⟨q1, hh⟩
  | some d => exact ⟨q1, rfl⟩

theorem good_u (c : UdpCase) (s : UdpSt) (h : Good c s) : Good c (udpStep .repaired c s .u) := by
  refine ⟨udpStep_inv c s .u h.1, ?_⟩
  have hw := h.2.1
  have hdh := h.2.2
  simp only [udpStep]
  unfold udpStepU UdpSt.quiet
  by_cases hd : s.enc.done = true
  · rw [if_pos hd]; exact h.2
  · have hd' : s.enc.done = false := by simpa using hd
    rw [if_neg hd, hw]
    dsimp only
    by_cases hc : s.udpClosed = true
    · rw [if_pos hc]
      have sp := finish_spec c.uevs s.enc false false h.1.enc hd' hw
      exact ⟨(sp.1.fin (sp.2.2.2.2 rfl)).2.1, hdh⟩
    · rw [if_neg hc]
      cases hp : s.enc.pending with
      | cons ev rest =>
        dsimp only
        exact ⟨(encEv_spec c.uevs s.enc false ev rest h.1.enc hp hd' hw).2.2.2.2.2 rfl, hdh⟩
      | nil =>
        dsimp only
        cases hu : utailEnd c.utail with
        | none => exact h.2
        | some te =>
          dsimp only
          have sp := finish_spec c.uevs s.enc te false h.1.enc hd' hw
          exact ⟨(sp.1.fin (sp.2.2.2.2 rfl)).2.1, hdh⟩

theorem good_t (c : UdpCase) (s : UdpSt) (h : Good c s) : Good c (udpStep .repaired c s .t) := by
  refine ⟨udpStep_inv c s .t h.1, ?_⟩
  simp only [udpStep]
  unfold udpStepT UdpSt.quiet
  split
  · exact h.2
  · split
    · exact h.2
    · simp only [Bool.false_and, Bool.false_eq_true, if_false, UdpSt.commitDec]
      exact ⟨h.2.1, trivial⟩

/-- The UDP→tunnel goroutine has finished, or sits in a Read that only a Close can end. -/
def UIdle (c : UdpCase) (s : UdpSt) : Prop := s.enc.done = true ∨ (s.enc.pending = [] ∧ c.utail = .hold)

theorem uidle_t (c : UdpCase) (s : UdpSt) (h : UIdle c s) : UIdle c (udpStep .repaired c s .t) := by
  simp only [udpStep]
  unfold udpStepT
  split
  · exact h
  · split
    · exact h
    · simp only [Bool.false_and, Bool.false_eq_true, if_false, UdpSt.commitDec]
      exact h

theorem uidle_u (c : UdpCase) (s : UdpSt) (hg : Good c s) (h : UIdle c s) : UIdle c (udpStep .repaired c s .u) := by
  simp only [udpStep]
  unfold udpStepU
  by_cases hd : s.enc.done = true
  · rw [if_pos hd]; exact h
  · have hd' : s.enc.done = false := by simpa using hd
    rw [if_neg hd, hg.2.1]
    dsimp only
    have hp : s.enc.pending = [] ∧ c.utail = .hold := by
      cases h with
      | inl h' => exact absurd h' hd
      | inr h' => exact h'
    by_cases hc : s.udpClosed = true
    · rw [if_pos hc]
      exact Or.inl ((finish_spec c.uevs s.enc false false hg.1.enc hd' hg.2.1).2.2.2.2 rfl)
    · rw [if_neg hc, hp.1]
      dsimp only
      rw [hp.2]
      exact Or.inr hp

theorem uphase (c : UdpCase) (m : Nat) : ∀ s : UdpSt, Good c s → s.enc.pending.length < m →
    Good c ((List.replicate m UTok.u).foldl (udpStep .repaired c) s) ∧
    UIdle c ((List.replicate m UTok.u).foldl (udpStep .repaired c) s) := by
  induction m with
  | zero => intro s _ h; omega
  | succ m ih =>
    intro s hg hlen
    rw [List.replicate_succ, List.foldl_cons]
    have hg' := good_u c s hg
    have idle_fold : ∀ (k : Nat) (s' : UdpSt), Good c s' → UIdle c s' →
        Good c ((List.replicate k UTok.u).foldl (udpStep .repaired c) s') ∧
        UIdle c ((List.replicate k UTok.u).foldl (udpStep .repaired c) s') := by
      intro k
      induction k with
      | zero => intro s' a b; exact ⟨a, b⟩
      | succ k ihk =>
        intro s' a b
        rw [List.replicate_succ, List.foldl_cons]
        exact ihk _ (good_u c s' a) (uidle_u c s' a b)
    by_cases hpk : UIdle c s
    · exact idle_fold m _ hg' (uidle_u c s hg hpk)
    · have hd : ¬ s.enc.done = true := fun h' => hpk (Or.inl h')
      have hd' : s.enc.done = false := by simpa using hd
      have hstep : udpStep .repaired c s .u = udpStepU c s false := rfl
      by_cases hc : s.udpClosed = true
      · apply idle_fold m _ hg'
        rw [hstep]; unfold udpStepU
        rw [if_neg hd, hg.2.1]; dsimp only; rw [if_pos hc]
        exact Or.inl ((finish_spec c.uevs s.enc false false hg.1.enc hd' hg.2.1).2.2.2.2 rfl)
      · cases hp : s.enc.pending with
        | nil =>
          apply idle_fold m _ hg'
          rw [hstep]; unfold udpStepU
          rw [if_neg hd, hg.2.1]; dsimp only; rw [if_neg hc, hp]; dsimp only
          cases hu : c.utail with
          | hold => exact absurd (Or.inr ⟨hp, hu⟩) hpk
          | eof => exact Or.inl ((finish_spec c.uevs s.enc false false hg.1.enc hd' hg.2.1).2.2.2.2 rfl)
          | err => exact Or.inl ((finish_spec c.uevs s.enc true false hg.1.enc hd' hg.2.1).2.2.2.2 rfl)
        | cons ev rest =>
          apply ih _ hg'
          rw [hstep]; unfold udpStepU
          rw [if_neg hd, hg.2.1]; dsimp only; rw [if_neg hc, hp]; dsimp only
          have sp := encEv_spec c.uevs s.enc false ev rest hg.1.enc hp hd' hg.2.1
          simp only [UdpSt.withEnc]
          rw [sp.2.1]
          rw [hp] at hlen
          simp at hlen
          omega

theorem udpStep_T_rem (c : UdpCase) (s : UdpSt) (hg : Good c s) (hpk : UIdle c s)
    (hwf : ¬ (c.utail = .hold ∧ c.ttail = .hold)) :
    (udpStep .repaired c s .t).dec.rem ≤ s.dec.rem - 1 := by
  have h := hg.1
  simp only [udpStep]
  unfold udpStepT
  rw [hg.2.2]
  by_cases hd : s.dec.done = true
  · rw [if_pos (by simp [hd])]; simp [Dec.rem, hd]
  · have hd' : s.dec.done = false := by simpa using hd
    rw [if_neg (by simp [hd'])]
    have hr : s.dec.stop = .running := by
      cases hs : s.dec.stop <;> simp [Dec.done, hs] at hd' ; rfl
    by_cases hb : (s.dec.pending.isEmpty && c.ttail == .hold && !s.cwT && decide (s.dec.buf.length < refill)) = true
    · exfalso
      simp only [Bool.and_eq_true, beq_iff_eq, Bool.not_eq_true'] at hb
      have htt : c.ttail = .hold := hb.1.1.2
      have hcw : s.cwT = false := hb.1.2
      cases hpk with
      | inl h' => rw [h.cw, h'] at hcw; cases hcw
      | inr h' => exact hwf ⟨h'.2, htt⟩
    · rw [if_neg hb]
      simp only [Bool.false_and, Bool.false_eq_true, if_false, UdpSt.commitDec]
      have h0 := decIter_step c.tchunks.flatten (c.ttail == .err) (c.tfused && c.ttail != .hold) s.dec h.dec hr
      have h1 := cutWrite_spec c.tchunks.flatten c.uwfail s.dec _ h0.1
      have := h0.2.1
      have := h1.2.1
      omega

theorem tphase (c : UdpCase) (hwf : ¬ (c.utail = .hold ∧ c.ttail = .hold)) (k : Nat) :
    ∀ s : UdpSt, Good c s → UIdle c s → s.dec.rem ≤ k →
      Good c ((List.replicate k UTok.t).foldl (udpStep .repaired c) s) ∧
      ((List.replicate k UTok.t).foldl (udpStep .repaired c) s).dec.done = true := by
  induction k with
  | zero =>
    intro s hg _ hk
    simp only [List.replicate_zero, List.foldl_nil]
    exact ⟨hg, (Dec.rem_zero_iff _).mp (by omega)⟩
  | succ k ih =>
    intro s hg hpk hk
    rw [List.replicate_succ, List.foldl_cons]
    apply ih _ (good_t c s hg) (uidle_t c s hpk)
    have := udpStep_T_rem c s hg hpk hwf
    omega

theorem lastU (c : UdpCase) (s : UdpSt) (hg : Good c s) (hd : s.dec.done = true) :
    (udpStep .repaired c s .u).returned = true := by
  simp only [udpStep]
  unfold udpStepU
  by_cases he : s.enc.done = true
  · rw [if_pos he]; simp [UdpSt.returned, he, hd]
  · have he' : s.enc.done = false := by simpa using he
    rw [if_neg he, hg.2.1]
    dsimp only
    rw [if_pos (by rw [hg.1.ucl]; exact hd)]
    have := (finish_spec c.uevs s.enc false false hg.1.enc he' hg.2.1).2.2.2.2 rfl
    simp [UdpSt.returned, UdpSt.withEnc, this, hd]

/-- **The repaired relay always returns** — whatever the schedule did before (any interleaving,
Writes left in progress on a slow tunnel or socket): once those Writes complete and each goroutine
gets its turns, no stream content, cut position or ending makes it spin or hang (as long as not
both sides stay silent forever). -/
theorem udp_returned (c : UdpCase) (hwf : ¬ (c.utail = .hold ∧ c.ttail = .hold)) (σ : List UTok) :
    (udpRun .repaired c (udpComplete c σ)).returned = true ∧ UdpInv c (udpRun .repaired c (udpComplete c σ)) ∧
    (udpRun .repaired c (udpComplete c σ)).nsent = (udpRun .repaired c (udpComplete c σ)).dec.out.length := by
  unfold udpRun udpComplete
  rw [List.foldl_append, List.foldl_append, List.foldl_append, List.foldl_append, List.foldl_append]
  have h0 := udpFold_inv c σ _ (udpInv_init c)
  generalize σ.foldl (udpStep .repaired c) (udpInit c) = s0 at h0
  have g1 := release_good c s0 h0
  simp only [List.foldl_cons, List.foldl_nil]
  generalize udpStep .repaired c (udpStep .repaired c s0 .w) .v = s1 at g1
  have p1 := uphase c (c.uevs.length + 1) s1 g1 (by have := g1.1.plen; omega)
  generalize (List.replicate (c.uevs.length + 1) UTok.u).foldl (udpStep .repaired c) s1 = s2 at p1
  have d2 := tphase c hwf (stepsFor c.tchunks) s2 p1.1 p1.2 p1.1.1.remb
  generalize (List.replicate (stepsFor c.tchunks) UTok.t).foldl (udpStep .repaired c) s2 = s3 at d2
  have r4 := lastU c s3 d2.1 d2.2
  have i4 := udpStep_inv c s3 .u d2.1.1
  generalize udpStep .repaired c s3 .u = s4 at r4 i4
  exact ⟨by simpa [udpStep, UdpSt.returned] using r4, udpStep_inv c s4 .sa i4, by simp [udpStep]⟩

theorem udpRunFast_eq (v : Variant) (c : UdpCase) (σ : List UTok) :
    udpRunFast v c σ = udpRun v c (udpComplete c σ) := by
  unfold udpRunFast udpRun udpComplete
  simp only [repeatStep_eq (udpStep v c), List.foldl_append, List.foldl_cons, List.foldl_nil]

theorem tcpRunFast_eq (A B : EP) (σ : List TTok) : tcpRunFast A B σ = tcpRun A B (tcpComplete A B σ) := by
  unfold tcpRunFast tcpRun tcpComplete
  simp only [repeatStep_eq (tcpStep A B), List.foldl_append, List.foldl_cons, List.foldl_nil]

/-! ### from the invariants to the property predicate -/

theorem holdsUdp_of (sc : UdpSpecCase) (chunks : List Bytes) (uw : Option Nat) (hflat : chunks.flatten = sc.stream) (s : UdpSt)
    (inv : UdpInv ⟨sc.uevs, sc.utail, chunks, sc.ttail, sc.tfused, uw⟩ s) (ret : s.returned = true) :
    holdsUdp sc (udpObs s) = true := by
  have hd : s.enc.done = true ∧ s.dec.done = true := by simpa [UdpSt.returned] using ret
  have hstop : s.dec.stop ≠ .running := (Dec.done_iff _).mp hd.2
  have hpre : s.dec.out <+: (drainAll sc.stream).pk := by
    have := decInv_out_prefix _ _ inv.dec
    simpa only [hflat] using this
  have hout : s.dec.stop ≠ .werr → s.dec.out = (drainAll sc.stream).pk := by
    intro hnw
    have := inv.dec.fin hstop hnw
    simp only [hflat] at this
    exact this.symm
  obtain ⟨taken, h1, h2, h3⟩ := inv.enc.split
  dsimp only at h1
  have hfin := inv.enc.fin hd.1
  simp only [Enc.stream, hfin.1, hfin.2.2, parkedEnc, List.append_nil] at h3
  have htake : (dgramsOf sc.uevs).take s.enc.nread = taken := by
    rw [h1, h2]; exact List.take_left' rfl
  -- tunnel → UDP
  have c2 : (!(sc.tds.all wfDgram) ||
      (if (s.dec.stop == .werr) then (!sc.junk.isEmpty || s.dec.out.isPrefixOf (completeBefore sc.tds sc.cut))
       else if sc.junk.isEmpty then s.dec.out == completeBefore sc.tds sc.cut
       else (!(decide ((encodeAll sc.tds).length ≤ sc.cut)) || sc.tds.isPrefixOf s.dec.out))) = true := by
    cases hw : sc.tds.all wfDgram with
    | false => rfl
    | true =>
      simp only [Bool.not_true, Bool.false_or]
      cases hwe : (s.dec.stop == DStop.werr) with
      | true =>
        simp only [if_true]
        cases hj : sc.junk.isEmpty with
        | false => rfl
        | true =>
          have hj' : sc.junk = [] := List.isEmpty_iff.mp hj
          simp only [Bool.not_true, Bool.false_or]
          rw [UdpSpecCase.stream, hj', List.append_nil, (drainAll_cut sc.tds hw sc.cut).1] at hpre
          exact List.isPrefixOf_iff_prefix.mpr hpre
      | false =>
        have hnw : s.dec.stop ≠ .werr := by simpa using hwe
        have hout' := hout hnw
        simp only [Bool.false_eq_true, if_false]
        cases hj : sc.junk.isEmpty with
        | true =>
          have hj' : sc.junk = [] := List.isEmpty_iff.mp hj
          simp only [if_true]
          rw [hout', UdpSpecCase.stream, hj', List.append_nil, (drainAll_cut sc.tds hw sc.cut).1]
          simp
        | false =>
          simp only [Bool.false_eq_true, if_false]
          by_cases hc : (encodeAll sc.tds).length ≤ sc.cut
          · simp only [hc, decide_true, Bool.not_true, Bool.false_or]
            rw [hout', UdpSpecCase.stream, List.take_of_length_le hc, drainAll_encodeAll_append sc.tds hw]
            exact List.isPrefixOf_iff_prefix.mpr (List.prefix_append _ _)
          · simp [hc]
  -- UDP → tunnel
  have c3 : (!(((dgramsOf sc.uevs).take s.enc.nread).all wfDgram) ||
      s.enc.flushes.flatten == encodeAll ((dgramsOf sc.uevs).take s.enc.nread)) = true := by
    rw [htake]
    cases hw : taken.all wfDgram with
    | false => rfl
    | true => rw [h3, normDs_wf taken hw]; simp
  have c4 : (!(sc.ttail == .hold && sc.junk.isEmpty && sc.tds.all wfDgram && !(s.dec.stop == .werr)) ||
      s.enc.nread == (dgramsOf sc.uevs).length) = true := by
    cases hh : (sc.ttail == .hold && sc.junk.isEmpty && sc.tds.all wfDgram && !(s.dec.stop == .werr)) with
    | false => rfl
    | true =>
      simp only [Bool.and_eq_true, beq_iff_eq, Bool.not_eq_true', beq_eq_false_iff_ne] at hh
      have hj' : sc.junk = [] := List.isEmpty_iff.mp hh.1.1.2
      have hp : s.enc.pending = [] := by
        cases hpe : s.enc.pending with
        | nil => rfl
        | cons ev rest =>
          exfalso
          have hab := (inv.early (Or.inl hd.1) (by rw [hpe]; simp)).2 hh.1.1.1
          cases hab with
          | inl hill =>
            have := inv.dec.ill hill
            dsimp only at this
            rw [hflat, UdpSpecCase.stream, hj', List.append_nil, (drainAll_cut sc.tds hh.1.2 sc.cut).2] at this
            cases this
          | inr hwe => exact hh.2 hwe
      rw [hp] at h1
      simp only [dgramsOf, List.append_nil] at h1
      rw [h1, h2]
      simp
  simp only [holdsUdp, udpObs, ret, c2, c3, c4]
  rfl

/-- The same when the local side is the asynchronous virtual connection and its queue has been sent. -/
theorem holdsUdpV_of (sc : UdpSpecCase) (chunks : List Bytes) (uw : Option Nat) (hflat : chunks.flatten = sc.stream) (s : UdpSt)
    (inv : UdpInv ⟨sc.uevs, sc.utail, chunks, sc.ttail, sc.tfused, uw⟩ s) (ret : s.returned = true)
    (hs : s.nsent = s.dec.out.length) :
    holdsUdp sc (udpObsV s) = true := by
  have : udpObsV s = udpObs s := by
    simp only [udpObsV, udpObs, hs, List.take_length]
  rw [this]; exact holdsUdp_of sc chunks uw hflat s inv ret

/-! ### SOCKS5 UDP tunnel codec -/

/-- The receive loop on the flat byte string. -/
def parseS5 : Nat → Bytes → S5Obs
  | 0, _ => ⟨[], .fuel⟩
  | f + 1, hi :: lo :: body =>
    if hi.toNat * 256 + lo.toNat > 65535 then ⟨[], .tooLarge⟩
    else if body.length < hi.toNat * 256 + lo.toNat then ⟨[], .data⟩
    else ⟨body.take (hi.toNat * 256 + lo.toNat) :: (parseS5 f (body.drop (hi.toNat * 256 + lo.toNat))).pk,
          (parseS5 f (body.drop (hi.toNat * 256 + lo.toNat))).stop⟩
  | _ + 1, _ => ⟨[], .len⟩

theorem readFull_rest (s : Src) (n : Nat) (h : n ≤ s.flat.length) :
    ∃ r, s.readFull n = .ok (s.flat.take n) r ∧ r.flat = s.flat.drop n ∧ r.tail = s.tail := by
  refine ⟨⟨(readFullChunks s.pending n).2.1, s.tail⟩, ?_, (readFullChunks_spec s.pending n).2.1, rfl⟩
  rw [readFull_flat, if_pos h]

theorem readFull_short (s : Src) (n : Nat) (h : ¬ n ≤ s.flat.length) : s.readFull n = .short s.flat s.tail := by
  rw [readFull_flat, if_neg h]

/-- `ReceivePacket` depends only on the bytes of the stream, not on how they were cut into reads. -/
theorem receivePacket_flat (s : Src) :
    (s.flat.length < 2 → receivePacket s = .fail .len) ∧
    (∀ hi lo body, s.flat = hi :: lo :: body →
      (hi.toNat * 256 + lo.toNat > 65535 → receivePacket s = .fail .tooLarge) ∧
      (¬ hi.toNat * 256 + lo.toNat > 65535 → body.length < hi.toNat * 256 + lo.toNat → receivePacket s = .fail .data) ∧
      (¬ hi.toNat * 256 + lo.toNat > 65535 → ¬ body.length < hi.toNat * 256 + lo.toNat →
        ∃ r, receivePacket s = .pkt (body.take (hi.toNat * 256 + lo.toNat)) r ∧
          r.flat = body.drop (hi.toNat * 256 + lo.toNat) ∧ r.tail = s.tail)) := by
  refine ⟨fun h => ?_, fun hi lo body hf => ?_⟩
  · unfold receivePacket
    rw [readFull_short s 2 (by omega)]
  · obtain ⟨r1, h1, h1f, h1t⟩ := readFull_rest s 2 (by rw [hf]; simp)
    have htk : s.flat.take 2 = [hi, lo] := by rw [hf]; rfl
    have hdr : s.flat.drop 2 = body := by rw [hf]; rfl
    rw [htk] at h1
    rw [hdr] at h1f
    unfold receivePacket
    rw [h1]
    dsimp only
    have e0 : ([hi, lo] : Bytes).getD 0 0 = hi := rfl
    have e1 : ([hi, lo] : Bytes).getD 1 0 = lo := rfl
    rw [e0, e1]
    refine ⟨fun hbig => by rw [if_pos hbig], fun hbig hshort => ?_, fun hbig hfull => ?_⟩
    · rw [if_neg hbig, readFull_short r1 _ (by rw [h1f]; omega)]
    · rw [if_neg hbig]
      obtain ⟨r2, h2, h2f, h2t⟩ := readFull_rest r1 (hi.toNat * 256 + lo.toNat) (by rw [h1f]; omega)
      rw [h2]
      dsimp only
      rw [h1f] at h2f ⊢
      exact ⟨r2, rfl, h2f, by rw [h2t, h1t]⟩

/-- **Chunk independence** of the receive loop: any partition of the stream into reads — one record per
read, records split across reads, SEVERAL RECORDS IN ONE READ — gives the same datagrams. -/
theorem recvAll_flat (f : Nat) : ∀ s : Src, recvAll f s = parseS5 f s.flat := by
  induction f with
  | zero => intro s; rfl
  | succ f ih =>
    intro s
    have hp := receivePacket_flat s
    unfold recvAll
    match hfl : s.flat with
    | [] =>
      rw [hp.1 (by rw [hfl]; simp)]; rfl
    | [b] =>
      rw [hp.1 (by rw [hfl]; simp)]; rfl
    | hi :: lo :: body =>
      obtain ⟨a, b, c⟩ := hp.2 hi lo body hfl
      rw [parseS5]
      by_cases hbig : hi.toNat * 256 + lo.toNat > 65535
      · rw [a hbig, if_pos hbig]
      · rw [if_neg hbig]
        by_cases hshort : body.length < hi.toNat * 256 + lo.toNat
        · rw [b hbig hshort, if_pos hshort]
        · obtain ⟨r, hr, hrf, _⟩ := c hbig hshort
          rw [hr, if_neg hshort]
          dsimp only
          rw [ih r, hrf]

theorem s5_prefix_small (hi lo : Byte) : ¬ hi.toNat * 256 + lo.toNat > 65535 := by
  have := hi.toNat_lt; have := lo.toNat_lt; omega

/-- One whole record at the front comes out as one datagram; the loop goes on behind it. -/
theorem parseS5_encode1 (f : Nat) (d rest : Bytes) (hwf : d.length ≤ 65535) :
    parseS5 (f + 1) (encode1 d ++ rest) = ⟨d :: (parseS5 f rest).pk, (parseS5 f rest).stop⟩ := by
  show parseS5 (f + 1) (UInt8.ofNat (d.length / 256) :: UInt8.ofNat d.length :: (d ++ rest)) = _
  rw [parseS5]
  rw [prefix_val d hwf, if_neg (by omega), if_neg (by simp)]
  simp

/-- **Cut theorem for the receive loop**: the encoding ended at any byte offset gives exactly the
datagrams complete before the cut and then fails in the read the cut falls into; the loop needs no
more iterations than there are bytes. -/
theorem parseS5_cut (ds : List Bytes) (hwf : ds.all wfS5 = true) :
    ∀ (cut f : Nat), ((encodeAll ds).take cut).length < f →
      parseS5 f ((encodeAll ds).take cut) = ⟨completeBefore ds cut, cutStage ds cut⟩ := by
  induction ds with
  | nil =>
    intro cut f hf
    cases f with
    | zero => omega
    | succ f => simp [encodeAll_nil, parseS5, completeBefore, cutStage]
  | cons d ds ih =>
    intro cut f hf
    have hd : d.length ≤ 65535 := by simp [wfS5] at hwf; exact hwf.1
    have hds : ds.all wfS5 = true := by simp at hwf ⊢; exact hwf.2
    cases f with
    | zero => omega
    | succ f =>
      rw [encodeAll_cons] at hf ⊢
      simp only [completeBefore, cutStage]
      by_cases hc : 2 + d.length ≤ cut
      · rw [if_pos hc, if_pos hc]
        have htk : (encode1 d ++ encodeAll ds).take cut = encode1 d ++ (encodeAll ds).take (cut - (2 + d.length)) := by
          rw [List.take_append, encode1_length, List.take_of_length_le (by rw [encode1_length]; exact hc)]
        rw [htk] at hf ⊢
        rw [parseS5_encode1 f d _ hd]
        have hlen : ((encodeAll ds).take (cut - (2 + d.length))).length < f := by
          rw [List.length_append, encode1_length] at hf; omega
        rw [ih hds _ f hlen]
      · rw [if_neg hc, if_neg hc]
        have hlt : cut < 2 + d.length := Nat.lt_of_not_le hc
        have htk : (encode1 d ++ encodeAll ds).take cut = (encode1 d).take cut := by
          rw [List.take_append_of_le_length (by rw [encode1_length]; omega)]
        rw [htk]
        match cut, hlt with
        | 0, _ => rfl
        | 1, _ => rfl
        | k + 2, hk =>
          show parseS5 (f + 1) (UInt8.ofNat (d.length / 256) :: UInt8.ofNat d.length :: d.take k) = _
          rw [parseS5]
          rw [prefix_val d hd, if_neg (by omega), if_pos (by rw [List.length_take]; omega)]
          simp

theorem sendPacket_wire (ds : List Bytes) : ((ds.map sendPacket).flatten).flatten = encodeAll ds := by
  induction ds with
  | nil => rfl
  | cons d ds ih =>
    rw [encodeAll_cons, ← ih]
    simp [sendPacket, encode1]

end Tunnox.C12
