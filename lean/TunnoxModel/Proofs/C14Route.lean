import TunnoxModel.Spec.C14
/-! C14 — routing lemmas: facts about `route` for EVERY key and EVERY prefix table, derived from the
generated translations of `getCategory` / `getCacheForKey` / `cacheTierFor`. -/
namespace Tunnox.C14
open Gen.hybrid

/-- The facade was built by `NewWithSharedCache`: a local cache, optionally a shared cache. -/
def WFStorage (h : Storage) : Prop :=
  h.cache = some .cache ∧ (h.sharedCache = none ∨ h.sharedCache = some .shared)

instance (h : Storage) : Decidable (WFStorage h) := by unfold WFStorage; exact inferInstance

theorem cat_cases (h : Storage) (key : String) :
    Storage.getCategory h key = DataCategorySharedPersistent ∨ Storage.getCategory h key = DataCategoryShared ∨
    Storage.getCategory h key = DataCategoryPersistent ∨ Storage.getCategory h key = DataCategoryRuntime := by
  unfold Storage.getCategory
  split
  · exact Or.inl rfl
  · split
    · exact Or.inr (Or.inl rfl)
    · split
      · exact Or.inr (Or.inr (Or.inl rfl))
      · exact Or.inr (Or.inr (Or.inr rfl))

theorem getCacheForKey_cases (h : Storage) (key : String) (wf : WFStorage h) :
    Storage.getCacheForKey h key = some .cache ∨ Storage.getCacheForKey h key = some .shared := by
  obtain ⟨hc, hs⟩ := wf
  unfold Storage.getCacheForKey
  split
  · rename_i hcond
    rcases hs with hs | hs
    · simp [hs] at hcond
    · exact Or.inr hs
  · exact Or.inl hc

/-- The cache tier of a key is the local or the shared cache, never the persistent tier. -/
theorem route_ck_cases (h : Storage) (key : String) (wf : WFStorage h) :
    (route h key).ck = .cache ∨ (route h key).ck = .shared := by
  have hg := getCacheForKey_cases h key wf
  obtain ⟨hc, hs⟩ := wf
  simp only [route]
  split
  · rcases hg with hg | hg <;> simp [hg]
  · split
    · rcases hs with hs | hs <;> simp [hs, hc]
    · simp [hc]

theorem route_ck_ne_persistent (h : Storage) (key : String) (wf : WFStorage h) :
    (route h key).ck ≠ .persistent := by
  rcases route_ck_cases h key wf with h1 | h1 <;> simp [h1]

/-- `cacheTierFor` (used by Incr/IncrBy, SetHash/GetHash/DeleteHash, SetExpiration) names the same tier
as the per-category branches of Get/Set/Delete/Exists. -/
theorem route_aux_eq_ck (h : Storage) (key : String) (wf : WFStorage h) :
    (route h key).aux = (route h key).ck := by
  obtain ⟨hc, hs⟩ := wf
  simp only [route, Storage.cacheTierFor]
  by_cases h1 : Storage.getCategory h key = DataCategoryShared
  · simp [h1]
  · by_cases h2 : Storage.getCategory h key = DataCategorySharedPersistent
    · have h1' : (DataCategorySharedPersistent == DataCategoryShared) = false := by decide
      rcases hs with hs | hs <;> simp [h2, h1', hs, hc]
    · simp [h1, h2, hc]

/-- Only the two persisted categories ever involve the persistent tier. -/
theorem route_pe_iff (h : Storage) (key : String) :
    (route h key).pe = true ↔
      (Storage.getCategory h key = DataCategoryPersistent ∨ Storage.getCategory h key = DataCategorySharedPersistent)
        ∧ h.config.EnablePersistent = true := by
  simp [route]

/-- Shared (cross-node) keys use the shared cache whenever one is configured. -/
theorem route_shared_uses_shared_cache (h : Storage) (key : String) (wf : WFStorage h)
    (hs : h.sharedCache = some .shared)
    (hcat : Storage.getCategory h key = DataCategoryShared ∨ Storage.getCategory h key = DataCategorySharedPersistent) :
    (route h key).ck = .shared := by
  obtain ⟨hc, _⟩ := wf
  rcases hcat with hcat | hcat
  · have hsh : Storage.isShared h key = true := by
      unfold Storage.getCategory at hcat
      split at hcat
      · exact absurd hcat (by decide)
      · split at hcat
        · assumption
        · split at hcat <;> exact absurd hcat (by decide)
    simp [route, hcat, Storage.getCacheForKey, hsh, hs]
  · have h1' : (DataCategorySharedPersistent == DataCategoryShared) = false := by decide
    simp [route, hcat, h1', hs]

/-- Without a shared cache, and for node-local categories, the local cache is used. -/
theorem route_local (h : Storage) (key : String) (wf : WFStorage h)
    (hcat : h.sharedCache = none ∨ Storage.getCategory h key = DataCategoryPersistent ∨
            Storage.getCategory h key = DataCategoryRuntime) :
    (route h key).ck = .cache := by
  obtain ⟨hc, hs⟩ := wf
  rcases hcat with hn | hcat | hcat
  · simp only [route, Storage.getCacheForKey, hn, hc]
    split <;> simp
  · have a : (DataCategoryPersistent == DataCategoryShared) = false := by decide
    have b : (DataCategoryPersistent == DataCategorySharedPersistent) = false := by decide
    simp [route, hcat, a, b, hc]
  · have a : (DataCategoryRuntime == DataCategoryShared) = false := by decide
    have b : (DataCategoryRuntime == DataCategorySharedPersistent) = false := by decide
    simp [route, hcat, a, b, hc]


/-- Only pure shared data hands cache errors to the caller, and pure shared data is never persisted. -/
theorem route_passErr (h : Storage) (key : String) : (route h key).pe = true → (route h key).passErr = false := by
  simp only [route]
  intro hpe
  by_cases h1 : Storage.getCategory h key = DataCategoryShared
  · have a : (DataCategoryShared == DataCategoryPersistent) = false := by decide
    have b : (DataCategoryShared == DataCategorySharedPersistent) = false := by decide
    simp [h1, a, b] at hpe
  · simpa using h1

end Tunnox.C14
