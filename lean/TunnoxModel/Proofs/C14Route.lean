import TunnoxModel.Spec.C14
/-! C14 — routing lemmas: facts about `route` for EVERY key and EVERY prefix table, derived from the
generated translations of `getCategory` / `getCacheForKey` / `cacheTierFor`. -/
namespace Tunnox.C14
open Gen.hybrid

/-- The facade was built by `NewWithSharedCache`: a local cache, optionally a shared cache. -/
def WFStorage (h : Storage) : Prop :=
  h.cache = some .cache ∧ (h.sharedCache = none ∨ h.sharedCache = some .shared)

instance (h : Storage) : Decidable (WFStorage h) := by unfold WFStorage; exact inferInstance

theorem cat_cases (h : Storage) (key : String) :
    Storage.getCategory h key = DataCategorySharedPersistent ∨ Storage.getCategory h key = DataCategoryShared ∨
    Storage.getCategory h key = DataCategoryPersistent ∨ Storage.getCategory h key = DataCategoryRuntime := by
  unfold Storage.getCategory
  split
  · exact Or.inl rfl
  · split
    · exact Or.inr (Or.inl rfl)
    · split
      · exact Or.inr (Or.inr (Or.inl rfl))
      · exact Or.inr (Or.inr (Or.inr rfl))

theorem getCacheForKey_cases (h : Storage) (key : String) (wf : WFStorage h) :
    Storage.getCacheForKey h key = some .cache ∨ Storage.getCacheForKey h key = some .shared := by
  obtain ⟨hc, hs⟩ := wf
  unfold Storage.getCacheForKey
  split
  · rename_i hcond
    rcases hs with hs | hs
    · simp [hs] at hcond
    · exact Or.inr hs
  · exact Or.inl hc

/-- The cache tier of a key is the local or the shared cache, never the persistent tier. -/
theorem route_ck_cases (h : Storage) (key : String) (wf : WFStorage h) :
    (route h key).ck = .cache ∨ (route h key).ck = .shared := by
  have hg := getCacheForKey_cases h key wf
  obtain ⟨hc, hs⟩ := wf
  simp only [route]
  split
  · rcases hg with hg | hg <;> simp [hg]
  · split
    · rcases hs with hs | hs <;> simp [hs, hc]
    · simp [hc]

theorem route_ck_ne_persistent (h : Storage) (key : String) (wf : WFStorage h) :
    (route h key).ck ≠ .persistent := by
  rcases route_ck_cases h key wf with h1 | h1 <;> simp [h1]

/-- `cacheTierFor` (used by Incr/IncrBy, SetHash/GetHash/DeleteHash, SetExpiration) names the same tier
as the per-category branches of Get/Set/Delete/Exists. -/
theorem route_aux_eq_ck (h : Storage) (key : String) (wf : WFStorage h) :
    (route h key).aux = (route h key).ck := by
  obtain ⟨hc, hs⟩ := wf
  simp only [route, Storage.cacheTierFor]
  by_cases h1 : Storage.getCategory h key = DataCategoryShared
  · simp [h1]
  · by_cases h2 : Storage.getCategory h key = DataCategorySharedPersistent
    · have h1' : (DataCategorySharedPersistent == DataCategoryShared) = false := by decide
      rcases hs with hs | hs <;> simp [h2, h1', hs, hc]
    · simp [h1, h2, hc]

/-- Only the two persisted categories ever involve the persistent tier. -/
theorem route_pe_iff (h : Storage) (key : String) :
    (route h key).pe = true ↔
      (Storage.getCategory h key = DataCategoryPersistent ∨ Storage.getCategory h key = DataCategorySharedPersistent)
        ∧ h.config.EnablePersistent = true := by
  simp [route]

/-- Shared (cross-node) keys use the shared cache whenever one is configured. -/
theorem route_shared_uses_shared_cache (h : Storage) (key : String) (wf : WFStorage h)
    (hs : h.sharedCache = some .shared)
    (hcat : Storage.getCategory h key = DataCategoryShared ∨ Storage.getCategory h key = DataCategorySharedPersistent) :
    (route h key).ck = .shared := by
  obtain ⟨hc, _⟩ := wf
  rcases hcat with hcat | hcat
  · have hsh : Storage.isShared h key = true := by
      unfold Storage.getCategory at hcat
      split at hcat
      · exact absurd hcat (by decide)
      · split at hcat
        · assumption
        · split at hcat <;> exact absurd hcat (by decide)
    simp [route, hcat, Storage.getCacheForKey, hsh, hs]
  · have h1' : (DataCategorySharedPersistent == DataCategoryShared) = false := by decide
    simp [route, hcat, h1', hs]

/-- Without a shared cache, and for node-local categories, the local cache is used. -/
theorem route_local (h : Storage) (key : String) (wf : WFStorage h)
    (hcat : h.sharedCache = none ∨ Storage.getCategory h key = DataCategoryPersistent ∨
            Storage.getCategory h key = DataCategoryRuntime) :
    (route h key).ck = .cache := by
  obtain ⟨hc, hs⟩ := wf
  rcases hcat with hn | hcat | hcat
  · simp only [route, Storage.getCacheForKey, hn, hc]
    split <;> simp
  · have a : (DataCategoryPersistent == DataCategoryShared) = false := by decide
    have b : (DataCategoryPersistent == DataCategorySharedPersistent) = false := by decide
    simp [route, hcat, a, b, hc]
  · have a : (DataCategoryRuntime == DataCategoryShared) = false := by decide
    have b : (DataCategoryRuntime == DataCategorySharedPersistent) = false := by decide
    simp [route, hcat, a, b, hc]


/-- Only pure shared data hands cache errors to the caller, and pure shared data is never persisted. -/
theorem route_passErr (h : Storage) (key : String) : (route h key).pe = true → (route h key).passErr = false := by
  simp only [route]
  intro hpe
  by_cases h1 : Storage.getCategory h key = DataCategoryShared
  · have a : (DataCategoryShared == DataCategoryPersistent) = false := by decide
    have b : (DataCategoryShared == DataCategorySharedPersistent) = false := by decide
    simp [h1, a, b] at hpe
  · simpa using h1


/-- The prefix tables of the facade contain every key family declared cross-node (as a shared or a
shared-and-persisted prefix). -/
def TablesCover (h : Storage) : Prop :=
  ∀ p ∈ declaredCrossNode, p ∈ h.config.SharedPrefixes ∨ p ∈ h.config.SharedPersistentPrefixes

instance (h : Storage) : Decidable (TablesCover h) := by unfold TablesCover; exact inferInstance

/-- EVERY key of a declared cross-node family is served by the shared cache when one is configured. -/
theorem declared_ck_shared (h : Storage) (key : String) (wf : WFStorage h) (hs : h.sharedCache = some .shared)
    (ht : TablesCover h) (hd : isDeclaredCrossNode key = true) : (route h key).ck = .shared := by
  unfold isDeclaredCrossNode at hd
  obtain ⟨p, hp, hpre⟩ := List.any_eq_true.1 hd
  refine route_shared_uses_shared_cache h key wf hs ?_
  by_cases hsp : Storage.isSharedPersistent h key = true
  · right; simp [Storage.getCategory, hsp]
  · have hsh : Storage.isShared h key = true := by
      rcases ht p hp with hin | hin
      · simp only [Storage.isShared]
        have : (h.config.SharedPrefixes.any fun x => Tunnox.PredPrelude.hasPrefix key x) = true :=
          List.any_eq_true.2 ⟨p, hin, hpre⟩
        simp [this]
      · exfalso; apply hsp
        simp only [Storage.isSharedPersistent]
        have : (h.config.SharedPersistentPrefixes.any fun x => Tunnox.PredPrelude.hasPrefix key x) = true :=
          List.any_eq_true.2 ⟨p, hin, hpre⟩
        simp [this]
    left; simp [Storage.getCategory, hsp, hsh]

/-- A trace that respects the route of a key served by the shared cache never touches a node-local cache. -/
theorem no_local_of_holdsRoute (R : Route) (ths : List ThObs) (tr : List Ev) (hck : R.ck = .shared)
    (h : holdsRoute R ths tr = true) : tr.all (fun e => e.tier != .cache) = true := by
  unfold holdsRoute at h
  rw [List.all_eq_true] at h ⊢
  intro e he
  have := h e he
  cases hth : ths[e.tid]? with
  | none => simp [hth] at this
  | some t =>
    simp only [hth] at this
    cases hop : t.op <;> simp [hop, hck] at this <;>
      first
      | (rw [this]; decide)
      | (rcases this with h1 | h1
         · rw [h1]; decide
         · rw [h1.2]; decide)

end Tunnox.C14
