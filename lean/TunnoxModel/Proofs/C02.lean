import TunnoxModel.Spec.C02
/-! Helper lemmas for C02: the copy loop and the bridge invariant. -/
namespace Tunnox.C02
open Gen

/-! ### limiter slices -/

theorem slices_le (burst : Nat) (hb : 0 < burst) (fuel n : Nat) :
    ∀ k ∈ slices burst fuel n, k ≤ burst := by
  induction fuel generalizing n with
  | zero => intro k hk; simp [slices] at hk
  | succ f ih =>
    intro k hk
    cases n with
    | zero => simp [slices] at hk
    | succ n =>
      have hb' : burst ≠ 0 := Nat.pos_iff_ne_zero.mp hb
      simp only [slices, hb', if_false, List.mem_cons] at hk
      rcases hk with hk | hk
      · subst hk; exact Nat.min_le_right _ _
      · exact ih _ k hk

theorem slices_sum (burst : Nat) (hb : 0 < burst) (fuel n : Nat) (hf : n ≤ fuel) :
    (slices burst fuel n).sum = n := by
  induction fuel generalizing n with
  | zero =>
    have : n = 0 := Nat.le_zero.mp hf
    subst this; simp [slices]
  | succ f ih =>
    cases n with
    | zero => simp [slices]
    | succ n =>
      have hb' : burst ≠ 0 := Nat.pos_iff_ne_zero.mp hb
      simp only [slices, hb', if_false, List.sum_cons]
      have hmin : 1 ≤ min (n + 1) burst := by
        rw [Nat.le_min]; exact ⟨by omega, hb⟩
      have hle : min (n + 1) burst ≤ n + 1 := Nat.min_le_left _ _
      rw [ih (n + 1 - min (n + 1) burst) (by omega)]
      omega

theorem limiterOk_iff (l : Limiter) (ev : ReadEv) :
    limiterOk l ev = (l.isNone || !ev.cancelled) := by
  cases l with
  | none => simp [limiterOk]
  | some burst =>
    simp only [limiterOk, Option.isNone_some, Bool.false_or]
    by_cases hb : burst = 0
    · subst hb; simp
    · have hpos : 0 < burst := Nat.pos_of_ne_zero hb
      have hall : (slices burst ev.data.length ev.data.length).all
          (fun k => decide (k ≤ burst) || burst == 0) = true := by
        rw [List.all_eq_true]
        intro k hk
        simp [slices_le burst hpos _ _ k hk]
      rw [hall]; simp

/-! ### accounting -/

theorem account_spec (st : St) (w : Bytes) :
    (account st w).delivered = st.delivered ++ w ∧
    (account st w).total = st.total + w.length ∧
    (account st w).counter + (account st w).batch = st.counter + st.batch + w.length := by
  by_cases h : st.batch + w.length ≥ cloudconst.BatchUpdateThreshold
  · simp only [account, h, if_true]
    exact ⟨trivial, trivial, by omega⟩
  · simp only [account, h, if_false]
    exact ⟨trivial, trivial, by omega⟩

/-- A loop iteration never reports `.eof` (that is reserved for an exhausted script). -/
theorem iter_stop_ne_eof (l : Limiter) (ev : ReadEv) (ws : List WriteEv) (st : St) :
    (iter l ev ws st).stop ≠ some .eof := by
  by_cases he : ev.data.isEmpty
  · cases herr : ev.err with
    | none => simp [iter, he, herr]
    | some e => cases e <;> simp [iter, he, herr]
  · by_cases hlim : limiterOk l ev
    · by_cases hwe : (nextWrite ws ev.data.length).1.err
      · simp [iter, he, hlim, hwe]
      · by_cases hne : min (nextWrite ws ev.data.length).1.accept ev.data.length = ev.data.length
        · cases herr : ev.err with
          | none => simp [iter, he, hlim, hwe, hne, herr]
          | some e => cases e <;> simp [iter, he, hlim, hwe, hne, herr]
        · simp [iter, he, hlim, hwe, hne]
    · simp [iter, he, hlim]

/-- What one loop iteration does to the state. -/
theorem iter_spec (l : Limiter) (ev : ReadEv) (ws : List WriteEv) (st : St) :
    ∃ k, k ≤ ev.data.length ∧
      (iter l ev ws st).st.delivered = st.delivered ++ ev.data.take k ∧
      (iter l ev ws st).st.total = st.total + k ∧
      (iter l ev ws st).st.counter + (iter l ev ws st).st.batch = st.counter + st.batch + k ∧
      ((iter l ev ws st).stop = none → k = ev.data.length) := by
  unfold iter
  by_cases he : ev.data.isEmpty
  · have hl : ev.data.length = 0 := by
      cases hd : ev.data with
      | nil => rfl
      | cons a b => rw [hd] at he; simp at he
    refine ⟨0, by omega, ?_⟩
    simp only [he, if_true]
    split <;> simp [hl]
  · simp only [he, Bool.false_eq_true, if_false]
    by_cases hlim : limiterOk l ev
    · simp only [hlim, Bool.not_true, Bool.false_eq_true, if_false]
      generalize hnw : min (nextWrite ws ev.data.length).1.accept ev.data.length = nw
      have hnwle : nw ≤ ev.data.length := by rw [← hnw]; exact Nat.min_le_right _ _
      -- the state after the write
      have hst : ∃ st', st' = (if nw > 0 then account st (List.take nw ev.data) else st) ∧
          st'.delivered = st.delivered ++ ev.data.take nw ∧ st'.total = st.total + nw ∧
          st'.counter + st'.batch = st.counter + st.batch + nw := by
        by_cases hpos : nw > 0
        · refine ⟨account st (List.take nw ev.data), by simp [hpos], ?_⟩
          have h := account_spec st (List.take nw ev.data)
          have hlen : (List.take nw ev.data).length = nw := by simp [List.length_take]; omega
          rw [hlen] at h
          exact h
        · have : nw = 0 := by omega
          subst this
          exact ⟨st, by simp, by simp, by simp, by simp⟩
      obtain ⟨st', hst'eq, hd, ht, hc⟩ := hst
      rw [← hst'eq]
      refine ⟨nw, hnwle, ?_⟩
      by_cases hwe : (nextWrite ws ev.data.length).1.err
      · simp [hwe, hd, ht, hc]
      · simp only [hwe, Bool.false_eq_true, if_false]
        by_cases hne : nw ≠ ev.data.length
        · simp [hne, hd, ht, hc]
        · simp only [hne, if_false]
          have : nw = ev.data.length := by omega
          split <;> simp [hd, ht, hc, this]
    · refine ⟨0, by omega, ?_⟩
      simp [hlim]

theorem allData_cons (ev : ReadEv) (rs : List ReadEv) : allData (ev :: rs) = ev.data ++ allData rs := by
  simp [allData]

theorem allData_append (a b : List ReadEv) : allData (a ++ b) = allData a ++ allData b := by
  simp [allData]

theorem flush_spec (st : St) :
    (flush st).delivered = st.delivered ∧ (flush st).total = st.total ∧
    (flush st).counter = st.counter + st.batch ∧ (flush st).batch = 0 := by
  simp [flush]

/-- Full specification of `CopyWithControl` on scripts. -/
theorem copyFrom_spec (l : Limiter) (chk : Nat) (canc : Bool) (rs : List ReadEv) (ws : List WriteEv) (st : St) :
    ∃ p, (copyFrom l chk canc rs ws st).1.delivered = st.delivered ++ p ∧
      p <+: allData rs ∧
      (copyFrom l chk canc rs ws st).1.total = st.total + p.length ∧
      (copyFrom l chk canc rs ws st).1.counter = st.counter + st.batch + p.length ∧
      (copyFrom l chk canc rs ws st).1.batch = 0 ∧
      ((copyFrom l chk canc rs ws st).2.1 = .eof → p = allData rs) := by
  induction rs generalizing chk canc ws st with
  | nil =>
    refine ⟨[], ?_⟩
    simp [copyFrom, flush, allData]
  | cons ev rs ih =>
    unfold copyFrom
    by_cases hctx : chk + 1 ≥ cloudconst.ContextCheckInterval ∧ canc = true
    · simp only [hctx, and_self, if_true]
      refine ⟨[], ?_⟩
      simp [flush]
    · simp only [hctx, if_false]
      obtain ⟨k, hk, hd, ht, hc, hfull⟩ := iter_spec l ev ws st
      cases hs : (iter l ev ws st).stop with
      | some s =>
        simp only
        refine ⟨ev.data.take k, ?_, ?_, ?_, ?_, ?_, ?_⟩
        · simp [flush, hd]
        · rw [allData_cons]
          exact List.IsPrefix.trans (List.take_prefix k ev.data) (List.prefix_append _ _)
        · simp [flush, ht, List.length_take]; omega
        · simp only [flush]
          have : (List.take k ev.data).length = k := by simp [List.length_take]; omega
          rw [this]; omega
        · simp [flush]
        · intro h
          subst h
          exact absurd hs (iter_stop_ne_eof l ev ws st)
      | none =>
        simp only
        have hkfull := hfull hs
        obtain ⟨p, hp1, hp2, hp3, hp4, hp5, hp6⟩ := ih
          (if chk + 1 ≥ cloudconst.ContextCheckInterval then 0 else chk + 1) (canc || ev.cancelled)
          (iter l ev ws st).ws (iter l ev ws st).st
        refine ⟨ev.data ++ p, ?_, ?_, ?_, ?_, hp5, ?_⟩
        · rw [hp1, hd, hkfull, List.take_length, List.append_assoc]
        · rw [allData_cons]; exact (List.prefix_append_right_inj _).mpr hp2
        · rw [hp3, ht, hkfull, List.length_append]; omega
        · rw [hp4, List.length_append]; omega
        · intro h; rw [hp6 h, allData_cons]

theorem copy_spec (l : Limiter) (rs : List ReadEv) (ws : List WriteEv) (st : St) :
    ∃ p, (copy l rs ws st).1.delivered = st.delivered ++ p ∧
      p <+: allData rs ∧
      (copy l rs ws st).1.total = st.total + p.length ∧
      (copy l rs ws st).1.counter = st.counter + st.batch + p.length ∧
      (copy l rs ws st).1.batch = 0 ∧
      ((copy l rs ws st).2.1 = .eof → p = allData rs) :=
  copyFrom_spec l 0 false rs ws st

/-! ### clean scripts run to EOF -/

theorem cleanReads_tail {ev : ReadEv} {rs : List ReadEv} (h : CleanReads (ev :: rs)) : CleanReads rs :=
  fun e he => h e (List.mem_cons_of_mem _ he)

theorem cleanWrites_next {ws : List WriteEv} {m n : Nat} (h : CleanWrites ws m) (hn : n ≤ m) :
    (nextWrite ws n).1.err = false ∧ n ≤ (nextWrite ws n).1.accept ∧ CleanWrites (nextWrite ws n).2 m := by
  cases ws with
  | nil => simp [nextWrite, CleanWrites]
  | cons w rest =>
    have hw := h w (List.mem_cons_self ..)
    refine ⟨hw.1, Nat.le_trans hn hw.2, ?_⟩
    intro x hx
    exact h x (List.mem_cons_of_mem _ hx)

theorem copyFrom_clean_eof (l : Limiter) (chk : Nat) (rs : List ReadEv) (ws : List WriteEv) (st : St) (m : Nat)
    (hr : CleanReads rs) (hw : CleanWrites ws m) (hm : ∀ ev ∈ rs, ev.data.length ≤ m) :
    (copyFrom l chk false rs ws st).2.1 = .eof := by
  induction rs generalizing chk ws st with
  | nil => simp [copyFrom]
  | cons ev rs ih =>
    have hev := hr ev (List.mem_cons_self ..)
    have hlen := hm ev (List.mem_cons_self ..)
    have hlim : limiterOk l ev = true := by rw [limiterOk_iff]; simp [hev.1]
    obtain ⟨hwe, hacc, hws'⟩ := cleanWrites_next hw hlen
    have hmin : min (nextWrite ws ev.data.length).1.accept ev.data.length = ev.data.length :=
      Nat.min_eq_right hacc
    have hstop : (iter l ev ws st).stop = none := by
      unfold iter
      by_cases he : ev.data.isEmpty
      · simp only [he, if_true]
        split
        · rename_i h; exact absurd h hev.2
        · rfl
      · simp only [he, Bool.false_eq_true, if_false, hlim, Bool.not_true, hwe, hmin, ne_eq, not_true_eq_false]
        split
        · rename_i h; exact absurd h hev.2
        · rfl
    have hws : CleanWrites (iter l ev ws st).ws m := by
      unfold iter
      by_cases he : ev.data.isEmpty
      · simp only [he, if_true]; split <;> exact hw
      · simp only [he, Bool.false_eq_true, if_false, hlim, Bool.not_true, hwe, hmin, ne_eq, not_true_eq_false]
        split <;> exact hws'
    unfold copyFrom
    simp only [Bool.false_eq_true, and_false, if_false, hstop, hev.1, Bool.or_false]
    exact ih _ _ _ (cleanReads_tail hr) hws (fun e he => hm e (List.mem_cons_of_mem _ he))

theorem copy_clean_eof (l : Limiter) (rs : List ReadEv) (ws : List WriteEv) (st : St) (m : Nat)
    (hr : CleanReads rs) (hw : CleanWrites ws m) (hm : ∀ ev ∈ rs, ev.data.length ≤ m) :
    (copy l rs ws st).2.1 = .eof :=
  copyFrom_clean_eof l 0 rs ws st m hr hw hm

/-- One iteration on clean scripts never ends the loop and leaves a clean write script. -/
theorem iter_clean (l : Limiter) (ev : ReadEv) (ws : List WriteEv) (st : St) (m : Nat)
    (hc : ev.cancelled = false) (he : ev.err ≠ some .fatal) (hw : CleanWrites ws m) (hlen : ev.data.length ≤ m) :
    (iter l ev ws st).stop = none ∧ CleanWrites (iter l ev ws st).ws m ∧
    (∀ w ∈ (iter l ev ws st).ws, w ∈ ws) := by
  have hlim : limiterOk l ev = true := by rw [limiterOk_iff]; simp [hc]
  obtain ⟨hwe, hacc, hws'⟩ := cleanWrites_next hw hlen
  have hmin : min (nextWrite ws ev.data.length).1.accept ev.data.length = ev.data.length :=
    Nat.min_eq_right hacc
  have hsub : ∀ w ∈ (nextWrite ws ev.data.length).2, w ∈ ws := by
    cases ws with
    | nil => simp [nextWrite]
    | cons a b => intro w hw'; exact List.mem_cons_of_mem _ hw'
  unfold iter
  by_cases hemp : ev.data.isEmpty
  · cases herr : ev.err with
    | none => simp only [hemp, if_true, herr]; exact ⟨trivial, hw, fun w h => h⟩
    | some e =>
      cases e with
      | fatal => exact absurd herr he
      | timeout => simp only [hemp, if_true, herr]; exact ⟨trivial, hw, fun w h => h⟩
  · cases herr : ev.err with
    | none =>
      simp only [hemp, Bool.false_eq_true, if_false, hlim, Bool.not_true, hwe, hmin, ne_eq, not_true_eq_false, herr]
      exact ⟨trivial, hws', hsub⟩
    | some e =>
      cases e with
      | fatal => exact absurd herr he
      | timeout =>
        simp only [hemp, Bool.false_eq_true, if_false, hlim, Bool.not_true, hwe, hmin, ne_eq, not_true_eq_false, herr]
        exact ⟨trivial, hws', hsub⟩

/-! ### bridge invariant -/

/-- Invariant of one direction w.r.t. its original read script `rs0`. -/
def DirInv (rs0 : List ReadEv) (d : Dir) : Prop :=
  ∃ consumed, rs0 = consumed ++ d.reads ∧
    d.st.total = d.st.delivered.length ∧
    d.st.counter + d.st.batch = d.st.delivered.length ∧
    (d.stop.isSome → d.st.batch = 0) ∧
    d.st.delivered <+: allData consumed ∧
    (d.stop = none → d.st.delivered = allData consumed) ∧
    (d.stop = some .eof → d.reads = [] ∧ d.st.delivered = allData consumed)

theorem DirInv_init (rs : List ReadEv) (ws : List WriteEv) : DirInv rs ⟨rs, ws, {}, none⟩ := by
  refine ⟨[], by simp, rfl, rfl, by simp, ?_, ?_, by simp⟩ <;> simp [allData]

theorem DirInv_step (rs0 : List ReadEv) (l : Limiter) (closed : Bool) (opp : Nat) (d : Dir)
    (h : DirInv rs0 d) : DirInv rs0 (d.step l closed opp) := by
  obtain ⟨consumed, hsplit, htot, hcnt, hbatch, hpre, hnone, heof⟩ := h
  unfold Dir.step
  cases hs : d.stop with
  | some s => simp only; exact ⟨consumed, hsplit, htot, hcnt, hbatch, hpre, hnone, heof⟩
  | none =>
    simp only
    have hdel := hnone hs
    by_cases hc : closed
    · simp only [hc, if_true]
      refine ⟨consumed, hsplit, ?_, ?_, ?_, ?_, ?_, ?_⟩ <;> simp [flush, htot, hcnt, hpre]
    · simp only [hc, Bool.false_eq_true, if_false]
      cases hr : d.reads with
      | nil =>
        simp only
        rw [hr] at hsplit
        refine ⟨consumed, by simpa using hsplit, ?_, ?_, ?_, ?_, ?_, ?_⟩ <;> simp [flush, htot, hcnt, hpre, hdel]
      | cons ev rs =>
        simp only
        by_cases hblk : opp < ev.after
        · simp only [hblk, if_true]
          exact ⟨consumed, hsplit, htot, hcnt, hbatch, hpre, hnone, heof⟩
        · simp only [hblk, if_false]
          by_cases hbp : (!ev.data.isEmpty && (nextWrite d.writes ev.data.length).1.block) = true
          · simp only [hbp, if_true]
            exact ⟨consumed, hsplit, htot, hcnt, hbatch, hpre, hnone, heof⟩
          · simp only [hbp, Bool.false_eq_true, if_false]
            obtain ⟨k, hk, hd, ht, hcc, hfull⟩ := iter_spec l ev d.writes d.st
            have hsplit' : rs0 = (consumed ++ [ev]) ++ rs := by rw [hsplit, hr]; simp
            have hall : allData (consumed ++ [ev]) = allData consumed ++ ev.data := by
              rw [allData_append]; simp [allData]
            have hlenk : (List.take k ev.data).length = k := by simp [List.length_take]; omega
            cases hst : (iter l ev d.writes d.st).stop with
            | some s =>
              simp only
              refine ⟨consumed ++ [ev], hsplit', ?_, ?_, ?_, ?_, ?_, ?_⟩
              · simp [flush, hd, ht, htot, hlenk]
              · simp only [flush, hd, List.length_append, hlenk]; omega
              · simp [flush]
              · simp only [flush, hd, hall, hdel]
                exact (List.prefix_append_right_inj _).mpr (List.take_prefix k ev.data)
              · intro h; cases h
              · intro h
                injection h with h
                subst h
                exact absurd hst (iter_stop_ne_eof l ev d.writes d.st)
            | none =>
              simp only
              have hkfull := hfull hst
              refine ⟨consumed ++ [ev], hsplit', ?_, ?_, ?_, ?_, ?_, ?_⟩
              · rw [ht, hd, htot, List.length_append, hlenk]
              · rw [hcc, hd, List.length_append, hlenk]; omega
              · intro h; cases h
              · rw [hd, hall, hdel, hkfull, List.take_length]; exact List.prefix_refl _
              · intro _; rw [hd, hall, hdel, hkfull, List.take_length]
              · intro h; cases h

theorem DirInv_prefix {rs0 : List ReadEv} {d : Dir} (h : DirInv rs0 d) : d.st.delivered <+: allData rs0 := by
  obtain ⟨consumed, hsplit, _, _, _, hpre, _, _⟩ := h
  rw [hsplit, allData_append]
  exact List.IsPrefix.trans hpre (List.prefix_append _ _)

theorem DirInv_eof {rs0 : List ReadEv} {d : Dir} (h : DirInv rs0 d) (he : d.stop = some .eof) :
    d.st.delivered = allData rs0 := by
  obtain ⟨consumed, hsplit, _, _, _, _, _, heof⟩ := h
  obtain ⟨hr, hd⟩ := heof he
  rw [hsplit, hr, hd]; simp

/-- Bridge-level invariant. -/
def BInv (sr tr : List ReadEv) (b : Bridge) : Prop :=
  DirInv sr b.s2t ∧ DirInv tr b.t2s ∧ ((b.s2t.stop.isSome ∨ b.t2s.stop.isSome) → b.closed = true)

theorem BInv_step (sr tr : List ReadEv) (b : Bridge) (w : Who) (h : BInv sr tr b) : BInv sr tr (b.step w) := by
  obtain ⟨h1, h2, h3⟩ := h
  cases w with
  | s2t =>
    refine ⟨DirInv_step sr _ _ _ _ h1, h2, ?_⟩
    intro hor
    simp only [Bridge.step] at hor ⊢
    rcases hor with hor | hor
    · simp [hor]
    · simp [h3 (Or.inr hor)]
  | t2s =>
    refine ⟨h1, DirInv_step tr _ _ _ _ h2, ?_⟩
    intro hor
    simp only [Bridge.step] at hor ⊢
    rcases hor with hor | hor
    · simp [h3 (Or.inl hor)]
    · simp [hor]

theorem BInv_run (sr tr : List ReadEv) (b : Bridge) (sched : List Who) (h : BInv sr tr b) :
    BInv sr tr (b.run sched) := by
  induction sched generalizing b with
  | nil => exact h
  | cons w ws ih => exact ih _ (BInv_step sr tr b w h)

/-! ### fault-free scripts: the bridge never ends by itself -/

def NoBlock (ws : List WriteEv) : Prop := ∀ w ∈ ws, w.block = false

def DirClean (m : Nat) (d : Dir) : Prop :=
  CleanReads d.reads ∧ CleanWrites d.writes m ∧ (∀ ev ∈ d.reads, ev.data.length ≤ m) ∧ NoBlock d.writes

def eofSome (b : Bridge) : Prop := b.s2t.stop = some .eof ∨ b.t2s.stop = some .eof

/-- Invariant for fault-free runs: whoever stopped, stopped by end-of-stream or after an end-of-stream. -/
def JInv (m1 m2 : Nat) (b : Bridge) : Prop :=
  DirClean m1 b.s2t ∧ DirClean m2 b.t2s ∧ (b.closed = true → eofSome b) ∧
  (∀ x, b.s2t.stop = some x → x = .eof ∨ eofSome b) ∧ (∀ x, b.t2s.stop = some x → x = .eof ∨ eofSome b)

theorem dirStep_clean (l : Limiter) (closed : Bool) (opp : Nat) (m : Nat) (d : Dir) (hd : DirClean m d) :
    DirClean m (d.step l closed opp) ∧
    ((d.step l closed opp).stop = d.stop ∨
     (d.stop = none ∧ closed = true ∧ (d.step l closed opp).stop = some .readErr) ∨
     (d.stop = none ∧ closed = false ∧ (d.step l closed opp).stop = some .eof)) := by
  obtain ⟨hr, hw, hl, hb⟩ := hd
  unfold Dir.step
  cases hs : d.stop with
  | some s => simp only; exact ⟨⟨hr, hw, hl, hb⟩, Or.inl hs⟩
  | none =>
    simp only
    by_cases hc : closed
    · simp only [hc, if_true]
      exact ⟨⟨hr, hw, hl, hb⟩, Or.inr (Or.inl (by simp))⟩
    · simp only [hc, Bool.false_eq_true, if_false]
      cases hrd : d.reads with
      | nil =>
        simp only
        refine ⟨⟨?_, hw, ?_, hb⟩, Or.inr (Or.inr (by simp [hc]))⟩
        · rw [hrd] at hr; exact hr
        · rw [hrd] at hl; exact hl
      | cons ev rs =>
        simp only
        rw [hrd] at hr hl
        have hev := hr ev (List.mem_cons_self ..)
        have hlen := hl ev (List.mem_cons_self ..)
        by_cases hblk : opp < ev.after
        · simp only [hblk, if_true]
          refine ⟨⟨?_, hw, ?_, hb⟩, Or.inl hs⟩
          · rw [hrd]; exact hr
          · rw [hrd]; exact hl
        · simp only [hblk, if_false]
          have hnb : (nextWrite d.writes ev.data.length).1.block = false := by
            cases hws : d.writes with
            | nil => simp [nextWrite]
            | cons a t => simp only [nextWrite]; exact hb a (by rw [hws]; exact List.mem_cons_self ..)
          simp only [hnb, Bool.and_false, Bool.false_eq_true, if_false]
          obtain ⟨hstop, hws', hsub⟩ := iter_clean l ev d.writes d.st m hev.1 hev.2 hw hlen
          simp only [hstop]
          refine ⟨⟨cleanReads_tail hr, hws', fun e he => hl e (List.mem_cons_of_mem _ he), ?_⟩, Or.inl (by simp)⟩
          intro w hw'
          exact hb w (hsub w hw')

theorem JInv_step (m1 m2 : Nat) (b : Bridge) (w : Who) (h : JInv m1 m2 b) : JInv m1 m2 (b.step w) := by
  obtain ⟨h1, h2, hc, hs1, hs2⟩ := h
  cases w with
  | s2t =>
    obtain ⟨hd, hcase⟩ := dirStep_clean b.lim b.closed b.t2s.st.delivered.length m1 b.s2t h1
    simp only [Bridge.step]
    rcases hcase with heq | ⟨hn, hcl, hre⟩ | ⟨hn, hcl, heof⟩
    · -- stop unchanged
      refine ⟨hd, h2, ?_, ?_, ?_⟩
      · intro hclosed
        simp only [Bool.or_eq_true] at hclosed
        rcases hclosed with hcl | hsome
        · rcases hc hcl with e | e
          · left; show (b.s2t.step _ _ _).stop = _; rw [heq]; exact e
          · right; exact e
        · rw [heq] at hsome
          cases hst : b.s2t.stop with
          | none => rw [hst] at hsome; simp at hsome
          | some x =>
            rcases hs1 x hst with e | e
            · left; show (b.s2t.step _ _ _).stop = _; rw [heq, hst, e]
            · rcases e with e | e
              · left; show (b.s2t.step _ _ _).stop = _; rw [heq]; exact e
              · right; exact e
      · intro x hx
        rw [heq] at hx
        rcases hs1 x hx with e | e
        · exact Or.inl e
        · right
          rcases e with e | e
          · left; show (b.s2t.step _ _ _).stop = _; rw [heq]; exact e
          · right; exact e
      · intro x hx
        rcases hs2 x hx with e | e
        · exact Or.inl e
        · right
          rcases e with e | e
          · left; show (b.s2t.step _ _ _).stop = _; rw [heq]; exact e
          · right; exact e
    · -- stopped because the bridge was already closed: the other direction reached EOF
      have he : eofSome b := hc hcl
      have het : b.t2s.stop = some .eof := by
        rcases he with e | e
        · rw [hn] at e; cases e
        · exact e
      refine ⟨hd, h2, fun _ => Or.inr het, fun x _ => Or.inr (Or.inr het), fun x _ => Or.inr (Or.inr het)⟩
    · -- reached its own end of stream
      refine ⟨hd, h2, fun _ => Or.inl heof, fun x _ => Or.inr (Or.inl heof), fun x _ => Or.inr (Or.inl heof)⟩
  | t2s =>
    obtain ⟨hd, hcase⟩ := dirStep_clean b.lim b.closed b.s2t.st.delivered.length m2 b.t2s h2
    simp only [Bridge.step]
    rcases hcase with heq | ⟨hn, hcl, hre⟩ | ⟨hn, hcl, heof⟩
    · refine ⟨h1, hd, ?_, ?_, ?_⟩
      · intro hclosed
        simp only [Bool.or_eq_true] at hclosed
        rcases hclosed with hcl | hsome
        · rcases hc hcl with e | e
          · left; exact e
          · right; show (b.t2s.step _ _ _).stop = _; rw [heq]; exact e
        · rw [heq] at hsome
          cases hst : b.t2s.stop with
          | none => rw [hst] at hsome; simp at hsome
          | some x =>
            rcases hs2 x hst with e | e
            · right; show (b.t2s.step _ _ _).stop = _; rw [heq, hst, e]
            · rcases e with e | e
              · left; exact e
              · right; show (b.t2s.step _ _ _).stop = _; rw [heq]; exact e
      · intro x hx
        rcases hs1 x hx with e | e
        · exact Or.inl e
        · right
          rcases e with e | e
          · left; exact e
          · right; show (b.t2s.step _ _ _).stop = _; rw [heq]; exact e
      · intro x hx
        rw [heq] at hx
        rcases hs2 x hx with e | e
        · exact Or.inl e
        · right
          rcases e with e | e
          · left; exact e
          · right; show (b.t2s.step _ _ _).stop = _; rw [heq]; exact e
    · have he : eofSome b := hc hcl
      have hes : b.s2t.stop = some .eof := by
        rcases he with e | e
        · exact e
        · rw [hn] at e; cases e
      refine ⟨h1, hd, fun _ => Or.inl hes, fun x _ => Or.inr (Or.inl hes), fun x _ => Or.inr (Or.inl hes)⟩
    · refine ⟨h1, hd, fun _ => Or.inr heof, fun x _ => Or.inr (Or.inr heof), fun x _ => Or.inr (Or.inr heof)⟩

theorem JInv_run (m1 m2 : Nat) (b : Bridge) (sched : List Who) (h : JInv m1 m2 b) : JInv m1 m2 (b.run sched) := by
  induction sched generalizing b with
  | nil => exact h
  | cons w ws ih => exact ih _ (JInv_step m1 m2 b w h)

end Tunnox.C02
