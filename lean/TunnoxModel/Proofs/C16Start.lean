import TunnoxModel.Proofs.C16
/-! C16 — `Tunnel.Start` (current step order) interleaved with any number of `Tunnel.Close`
callers: invariant with a unique owner of the close sequence plus what each program point of
Start knows about the context, and the termination measure. -/
namespace Tunnox.C16
open Tunnox.Sched

def isStart (pc : UPc) : Prop := pc = UPc.sMgr ∨ pc = UPc.sSet ∨ pc = UPc.sCas ∨ pc = UPc.sSpawn

/-- Every close sequence so far ran on a bound context with an open latch. -/
def GoodCtx (sh : UShared) : Prop := 1 ≤ sh.closes → sh.ctxCancelled = true ∧ sh.disposed = true

structure UThreadOk (o : Option Nat) (sh : UShared) (i : Nat) (l : ULocal) : Prop where
  own : (l.pc = UPc.body ∨ l.pc = UPc.fin) ↔ o = some i
  seen : l.pc = UPc.cas → l.seen ≤ sh.state ∧ l.seen ≤ 1
  idx : isStart l.pc → i = 0
  early : (l.pc = UPc.sMgr ∨ l.pc = UPc.sSet) → sh.ctxBound = false
  st0 : isStart l.pc → sh.spawned = false ∧ sh.startRes = 0
  pre : (l.pc = UPc.sMgr ∨ l.pc = UPc.sSet ∨ l.pc = UPc.sCas) → sh.state ≠ 1
  bound : (l.pc = UPc.sCas ∨ l.pc = UPc.sSpawn) → sh.ctxBound = true
  spawnOk : l.pc = UPc.sSpawn → 1 ≤ sh.state ∧ GoodCtx sh
  ret : l.pc = UPc.done → i ≠ 0 → 2 ≤ sh.state

structure UInvO (o : Option Nat) (c : Cfg UShared ULocal) : Prop where
  th : ∀ (i : Nat) (l : ULocal), c.ths[i]? = some l → UThreadOk o c.sh i l
  none_ : o = none → (c.sh.state ≤ 1 ∧ c.sh.closes = 0) ∨ (c.sh.state = 3 ∧ c.sh.closes = 1)
  some_ : ∀ i : Nat, o = some i → c.sh.state = 2 ∧ ∃ l, c.ths[i]? = some l ∧
      ((l.pc = UPc.body ∧ c.sh.closes = 0) ∨ (l.pc = UPc.fin ∧ c.sh.closes = 1))
  fresh : c.sh.closes = 0 → c.sh.disposed = false ∧ c.sh.ctxCancelled = false
  sp : c.sh.spawned = true → GoodCtx c.sh ∧ c.sh.ctxBound = true ∧ c.sh.startRes = 1
  res : c.sh.startRes = 1 → c.sh.spawned = true

def UInv (c : Cfg UShared ULocal) : Prop := ∃ o, UInvO o c

theorem uInv_init (n : Nat) : UInv (uInit .setCtxFirst n) := by
  refine ⟨none, ⟨?_, fun _ => Or.inl ⟨by simp [uInit], rfl⟩, (fun i h => by cases h),
    fun _ => ⟨rfl, rfl⟩, (fun h => by simp [uInit] at h), (fun h => by simp [uInit] at h)⟩⟩
  intro i l h
  cases i with
  | zero =>
    simp [uInit] at h
    subst h
    exact ⟨by simp, by simp, fun _ => rfl, fun _ => rfl, fun _ => ⟨rfl, rfl⟩, (fun _ => by simp [uInit]),
      by simp, by simp, by simp⟩
  | succ k =>
    simp only [uInit, List.getElem?_cons_succ] at h
    have := mem_replicate_getElem? _ _ _ _ h
    subst this
    exact ⟨by simp, by simp, by simp [isStart], by simp, by simp [isStart], by simp, by simp, by simp, by simp⟩

/-- Thread `j ≠ i` keeps its local state; what it knows survives if the shared state only moved
"forward" in the ways listed. -/
theorem uOk_other (o o' : Option Nat) (sh sh' : UShared) (j : Nat) (x : ULocal)
    (h : UThreadOk o sh j x)
    (hown : ((x.pc = UPc.body ∨ x.pc = UPc.fin) ↔ o' = some j))
    (hst : sh.state ≤ sh'.state)
    (hb : sh.ctxBound = true → sh'.ctxBound = true)
    (hearly : isStart x.pc → sh'.ctxBound = sh.ctxBound ∧ sh'.spawned = sh.spawned ∧ sh'.startRes = sh.startRes ∧ sh'.state ≠ 1)
    (hgood : x.pc = UPc.sSpawn → GoodCtx sh → sh.ctxBound = true → GoodCtx sh') :
    UThreadOk o' sh' j x := by
  refine ⟨hown, fun hx => ⟨Nat.le_trans (h.seen hx).1 hst, (h.seen hx).2⟩, h.idx, ?_, ?_, ?_, ?_, ?_, ?_⟩
  · intro hx
    have hs : isStart x.pc := by cases hx with
      | inl e => exact Or.inl e
      | inr e => exact Or.inr (Or.inl e)
    rw [(hearly hs).1]; exact h.early hx
  · intro hs
    obtain ⟨_, e2, e3, _⟩ := hearly hs
    rw [e2, e3]; exact h.st0 hs
  · intro hx
    have hs : isStart x.pc := by
      rcases hx with e | e | e
      · exact Or.inl e
      · exact Or.inr (Or.inl e)
      · exact Or.inr (Or.inr (Or.inl e))
    exact (hearly hs).2.2.2
  · intro hx; exact hb (h.bound hx)
  · intro hx
    exact ⟨Nat.le_trans (h.spawnOk hx).1 hst, hgood hx (h.spawnOk hx).2 (h.bound (Or.inr hx))⟩
  · intro hx hne; exact Nat.le_trans (h.ret hx hne) hst

theorem uInv_step (c : Cfg UShared ULocal) (i : Nat) (hc : UInv c) :
    UInv (stepAt (uProg .setCtxFirst) c i) := by
  apply inv_stepAt_of_local (uProg .setCtxFirst) UInv c i hc
  intro l hl
  obtain ⟨o, hth, hnone, hsome, hfresh, hsp, hres⟩ := hc
  have hme := hth i l hl
  have hi : i < c.ths.length := lt_of_getElem? _ _ _ hl
  obtain ⟨sh, ths⟩ := c
  obtain ⟨state, disposed, ctxBound, ctxCancelled, spawned, startRes, closes⟩ := sh
  obtain ⟨pc, seen⟩ := l
  simp only at hl hi hth hnone hsome hfresh hsp hres hme
  -- state facts from the owner clauses
  have hstate : (o = none ∧ ((state ≤ 1 ∧ closes = 0) ∨ (state = 3 ∧ closes = 1))) ∨ (o.isSome ∧ state = 2) := by
    cases o with
    | none => exact Or.inl ⟨rfl, hnone rfl⟩
    | some k => exact Or.inr ⟨rfl, (hsome k rfl).1⟩
  -- another thread with a Start pc does not exist when thread i has one
  have noStart : isStart pc → ∀ (j : Nat) (x : ULocal), ths[j]? = some x → i ≠ j → ¬ isStart x.pc := by
    intro hs j x hj hne hx
    have a := hme.idx hs
    have b := (hth j x hj).idx hx
    omega
  -- keeping the owner when thread i is not it and does not become it
  have keepSome : ∀ (l' : ULocal), o ≠ some i → ∀ k : Nat, o = some k →
      ∃ x, (ths.set i l')[k]? = some x ∧ ((x.pc = UPc.body ∧ closes = 0) ∨ (x.pc = UPc.fin ∧ closes = 1)) := by
    intro l' hno k hk
    obtain ⟨_, x, hx, hb⟩ := hsome k hk
    have hki : i ≠ k := fun h => hno (h ▸ hk)
    exact ⟨x, by rw [List.getElem?_set_ne hki]; exact hx, hb⟩
  cases pc with
  | sMgr =>
    have hno : o ≠ some i := fun h => by have := hme.own.mpr h; simp at this
    simp only [uProg, uStep]
    refine ⟨o, ⟨?_, hnone, fun k hk => ⟨(hsome k hk).1, keepSome _ hno k hk⟩, hfresh, hsp, hres⟩⟩
    intro j x hj
    cases getElem?_set_cases _ _ _ _ _ hj with
    | inl h =>
      obtain ⟨rfl, rfl⟩ := h
      exact ⟨by simp; exact hno, by simp, fun _ => hme.idx (Or.inl rfl), fun _ => hme.early (Or.inl rfl),
        fun _ => hme.st0 (Or.inl rfl), fun _ => hme.pre (Or.inl rfl), by simp, by simp, by simp⟩
    | inr h => exact hth j x h.2
  | sSet =>
    have hno : o ≠ some i := fun h => by have := hme.own.mpr h; simp at this
    have hnb : ctxBound = false := hme.early (Or.inr rfl)
    have hst0 := hme.st0 (Or.inr (Or.inl rfl))
    have hpre := hme.pre (Or.inr (Or.inl rfl))
    simp only at hnb hst0 hpre
    subst hnb
    obtain ⟨hs1, hs2⟩ := hst0
    subst hs1
    simp only [uProg, uStep, Bool.false_eq_true, if_false]
    refine ⟨o, ⟨?_, hnone, fun k hk => ⟨(hsome k hk).1, keepSome _ hno k hk⟩, fun _ => ⟨rfl, rfl⟩,
      (fun h => by simp at h), hres⟩⟩
    intro j x hj
    cases getElem?_set_cases _ _ _ _ _ hj with
    | inl h =>
      obtain ⟨rfl, rfl⟩ := h
      exact ⟨by simp; exact hno, by simp, fun _ => hme.idx (Or.inr (Or.inl rfl)), by simp,
        fun _ => ⟨rfl, hs2⟩, fun _ => hpre, by simp, by simp, by simp⟩
    | inr h =>
      have hx := hth j x h.2
      have hns := noStart (Or.inr (Or.inl rfl)) j x h.2 h.1
      exact ⟨hx.own, hx.seen, hx.idx, fun e => absurd (e.elim Or.inl (fun e => Or.inr (Or.inl e))) hns,
        fun e => absurd e hns, fun e => absurd (by rcases e with e | e | e
                                                   · exact Or.inl e
                                                   · exact Or.inr (Or.inl e)
                                                   · exact Or.inr (Or.inr (Or.inl e))) hns,
        fun _ => rfl, fun e => absurd (Or.inr (Or.inr (Or.inr e))) hns, hx.ret⟩
  | sCas =>
    have hno : o ≠ some i := fun h => by have := hme.own.mpr h; simp at this
    have hst0 := hme.st0 (Or.inr (Or.inr (Or.inl rfl)))
    have hb := hme.bound (Or.inl rfl)
    have hi0 := hme.idx (Or.inr (Or.inr (Or.inl rfl)))
    simp only at hst0 hb
    obtain ⟨hs1, hs2⟩ := hst0
    subst hs1 hs2 hb
    simp only [uProg, uStep]
    by_cases h0 : state = 0
    · -- the CAS succeeds: nothing has been closed yet
      subst h0
      simp only [if_true]
      have hon : o = none := by
        rcases hstate with h | h
        · exact h.1
        · omega
      have hcl : closes = 0 := by
        rcases hnone hon with h | h
        · exact h.2
        · omega
      subst hon hcl
      refine ⟨none, ⟨?_, fun _ => Or.inl ⟨by simp, rfl⟩, (fun k hk => by cases hk), hfresh,
        (fun h => by simp at h), (fun h => by simp at h)⟩⟩
      intro j x hj
      cases getElem?_set_cases _ _ _ _ _ hj with
      | inl h =>
        obtain ⟨rfl, rfl⟩ := h
        exact ⟨by simp, by simp, fun _ => hi0, by simp, fun _ => ⟨rfl, rfl⟩, by simp, fun _ => rfl,
          fun _ => ⟨by simp, (fun h => by simp at h)⟩, by simp⟩
      | inr h =>
        have hx := hth j x h.2
        have hns := noStart (Or.inr (Or.inr (Or.inl rfl))) j x h.2 h.1
        refine uOk_other none none _ _ j x hx hx.own (by simp) (fun e => e) (fun e => absurd e hns)
          (fun e => absurd (Or.inr (Or.inr (Or.inr e))) hns)
    · -- the CAS fails: Start returns an error, nothing is spawned
      simp only [h0, if_false]
      refine ⟨o, ⟨?_, hnone, fun k hk => ⟨(hsome k hk).1, keepSome _ hno k hk⟩, hfresh,
        (fun h => by simp at h), (fun h => by simp at h)⟩⟩
      intro j x hj
      cases getElem?_set_cases _ _ _ _ _ hj with
      | inl h =>
        obtain ⟨rfl, rfl⟩ := h
        exact ⟨by simp; exact hno, by simp, by simp [isStart], by simp, by simp [isStart], by simp, by simp,
          by simp, fun _ hne => absurd hi0 hne⟩
      | inr h =>
        have hx := hth j x h.2
        have hns := noStart (Or.inr (Or.inr (Or.inl rfl))) j x h.2 h.1
        exact uOk_other o o _ _ j x hx hx.own (Nat.le_refl _) (fun e => e) (fun e => absurd e hns)
          (fun e => absurd (Or.inr (Or.inr (Or.inr e))) hns)
  | sSpawn =>
    have hno : o ≠ some i := fun h => by have := hme.own.mpr h; simp at this
    have hb := hme.bound (Or.inr rfl)
    have hok := hme.spawnOk rfl
    have hi0 := hme.idx (Or.inr (Or.inr (Or.inr rfl)))
    simp only at hb hok
    simp only [uProg, uStep]
    refine ⟨o, ⟨?_, hnone, fun k hk => ⟨(hsome k hk).1, keepSome _ hno k hk⟩, hfresh,
      fun _ => ⟨hok.2, hb, rfl⟩, fun _ => rfl⟩⟩
    intro j x hj
    cases getElem?_set_cases _ _ _ _ _ hj with
    | inl h =>
      obtain ⟨rfl, rfl⟩ := h
      exact ⟨by simp; exact hno, by simp, by simp [isStart], by simp, by simp [isStart], by simp, by simp,
        by simp, fun _ hne => absurd hi0 hne⟩
    | inr h =>
      have hx := hth j x h.2
      have hns := noStart (Or.inr (Or.inr (Or.inr rfl))) j x h.2 h.1
      exact uOk_other o o _ _ j x hx hx.own (Nat.le_refl _) (fun e => e) (fun e => absurd e hns)
        (fun e => absurd (Or.inr (Or.inr (Or.inr e))) hns)
  | load =>
    have hno : o ≠ some i := fun h => by have := hme.own.mpr h; simp at this
    simp only [uProg, uStep]
    have hle3 : state ≤ 3 := by
      rcases hstate with ⟨_, h | h⟩ | h <;> omega
    split
    · rename_i h2
      refine ⟨o, ⟨?_, hnone, fun k hk => ⟨(hsome k hk).1, keepSome _ hno k hk⟩, hfresh, hsp, hres⟩⟩
      intro j x hj
      cases getElem?_set_cases _ _ _ _ _ hj with
      | inl h =>
        obtain ⟨rfl, rfl⟩ := h
        exact ⟨by simp; exact hno, by simp, by simp [isStart], by simp, by simp [isStart], by simp, by simp,
          by simp, fun _ _ => h2⟩
      | inr h => exact hth j x h.2
    · rename_i h2
      refine ⟨o, ⟨?_, hnone, fun k hk => ⟨(hsome k hk).1, keepSome _ hno k hk⟩, hfresh, hsp, hres⟩⟩
      intro j x hj
      cases getElem?_set_cases _ _ _ _ _ hj with
      | inl h =>
        obtain ⟨rfl, rfl⟩ := h
        exact ⟨by simp; exact hno, fun _ => ⟨Nat.le_refl _, by simp only; omega⟩, by simp [isStart], by simp,
          by simp [isStart], by simp, by simp, by simp, by simp⟩
      | inr h => exact hth j x h.2
  | cas =>
    have hno : o ≠ some i := fun h => by have := hme.own.mpr h; simp at this
    obtain ⟨hs1, hs2⟩ := hme.seen rfl
    simp only at hs1 hs2
    simp only [uProg, uStep]
    split
    · -- CAS succeeds: this thread owns the close sequence
      rename_i heq
      subst heq
      have hon : o = none := by
        rcases hstate with h | h
        · exact h.1
        · omega
      have hcl : closes = 0 := by
        rcases hnone hon with h | h
        · exact h.2
        · omega
      subst hon hcl
      refine ⟨some i, ⟨?_, (fun h => by cases h), ?_, hfresh, hsp, hres⟩⟩
      · intro j x hj
        cases getElem?_set_cases _ _ _ _ _ hj with
        | inl h =>
          obtain ⟨rfl, rfl⟩ := h
          exact ⟨by simp, by simp, by simp [isStart], by simp, by simp [isStart], by simp, by simp, by simp,
            by simp⟩
        | inr h =>
          have hx := hth j x h.2
          have hown' : (x.pc = UPc.body ∨ x.pc = UPc.fin) ↔ some i = some j := by
            constructor
            · intro e; have := hx.own.mp e; cases this
            · intro e; exact absurd (Option.some.inj e) h.1
          exact uOk_other none (some i) _ _ j x hx hown' (by simp only; omega) (fun e => e)
            (fun _ => ⟨rfl, rfl, rfl, by simp⟩) (fun _ g _ => g)
      · intro k hk
        cases hk
        exact ⟨rfl, _, List.getElem?_set_self hi, Or.inl ⟨rfl, rfl⟩⟩
    · refine ⟨o, ⟨?_, hnone, fun k hk => ⟨(hsome k hk).1, keepSome _ hno k hk⟩, hfresh, hsp, hres⟩⟩
      intro j x hj
      cases getElem?_set_cases _ _ _ _ _ hj with
      | inl h =>
        obtain ⟨rfl, rfl⟩ := h
        exact ⟨by simp; exact hno, by simp, by simp [isStart], by simp, by simp [isStart], by simp, by simp,
          by simp, by simp⟩
      | inr h => exact hth j x h.2
  | body =>
    have ho : o = some i := hme.own.mp (Or.inl rfl)
    subst ho
    obtain ⟨hs2, l0, hl0, hb⟩ := hsome i rfl
    rw [hl] at hl0
    cases hl0
    have hcl : closes = 0 := by
      rcases hb with h | h
      · exact h.2
      · simp at h
    subst hcl hs2
    obtain ⟨hd, hcc⟩ := hfresh rfl
    subst hd hcc
    simp only [uProg, uStep, Bool.false_eq_true, if_false, Bool.false_or]
    refine ⟨some i, ⟨?_, (fun h => by cases h), ?_, (fun h => by simp at h), ?_, hres⟩⟩
    · intro j x hj
      cases getElem?_set_cases _ _ _ _ _ hj with
      | inl h =>
        obtain ⟨rfl, rfl⟩ := h
        exact ⟨by simp, by simp, by simp [isStart], by simp, by simp [isStart], by simp, by simp, by simp,
          by simp⟩
      | inr h =>
        have hx := hth j x h.2
        exact uOk_other (some i) (some i) _ _ j x hx hx.own (Nat.le_refl _) (fun e => e)
          (fun _ => ⟨rfl, rfl, rfl, by simp⟩)
          (fun _ _ hbnd => fun _ => ⟨hbnd, rfl⟩)
    · intro k hk
      cases hk
      exact ⟨rfl, ⟨UPc.fin, seen⟩, List.getElem?_set_self hi, Or.inr ⟨rfl, rfl⟩⟩
    · intro hs
      obtain ⟨_, hbnd, hr⟩ := hsp hs
      exact ⟨fun _ => ⟨hbnd, rfl⟩, hbnd, hr⟩
  | fin =>
    have ho : o = some i := hme.own.mp (Or.inr rfl)
    subst ho
    obtain ⟨hs2, l0, hl0, hb⟩ := hsome i rfl
    rw [hl] at hl0
    cases hl0
    have hcl : closes = 1 := by
      rcases hb with h | h
      · simp at h
      · exact h.2
    subst hcl hs2
    simp only [uProg, uStep]
    refine ⟨none, ⟨?_, fun _ => Or.inr ⟨rfl, rfl⟩, (fun k hk => by cases hk), hfresh, hsp, hres⟩⟩
    intro j x hj
    cases getElem?_set_cases _ _ _ _ _ hj with
    | inl h =>
      obtain ⟨rfl, rfl⟩ := h
      exact ⟨by simp, by simp, by simp [isStart], by simp, by simp [isStart], by simp, by simp, by simp,
        (fun _ _ => by simp)⟩
    | inr h =>
      have hx := hth j x h.2
      have hown' : (x.pc = UPc.body ∨ x.pc = UPc.fin) ↔ (none : Option Nat) = some j := by
        constructor
        · intro e; exact absurd (Option.some.inj (hx.own.mp e)) h.1
        · intro e; cases e
      exact uOk_other (some i) none _ _ j x hx hown' (by simp) (fun e => e)
        (fun _ => ⟨rfl, rfl, rfl, by simp⟩) (fun _ g _ => g)
  | done =>
    simp only [uProg, uStep]
    rw [set_self_of_getElem? ths i _ hl]
    exact ⟨o, ⟨hth, hnone, hsome, hfresh, hsp, hres⟩⟩

theorem uWeight_mono (sh sh' : UShared) (h : sh.state ≤ sh'.state) (x : ULocal) :
    uWeight sh' x ≤ uWeight sh x := by
  unfold uWeight
  cases x.pc <;> simp only [] <;> (try (repeat' split)) <;> omega

theorem u_dec (c : Cfg UShared ULocal) (i : Nat) (hc : UInv c) :
    stepAt (uProg .setCtxFirst) c i = c ∨ uMu (stepAt (uProg .setCtxFirst) c i) < uMu c := by
  cases hl : c.ths[i]? with
  | none => left; exact stepAt_none _ _ _ hl
  | some l =>
    obtain ⟨o, hinv⟩ := hc
    have hme := hinv.th i l hl
    obtain ⟨pc, seen⟩ := l
    have key : ∀ (sh' : UShared) (l' : ULocal),
        (uProg .setCtxFirst).step i c.sh ⟨pc, seen⟩ = (sh', l') →
        c.sh.state ≤ sh'.state → uWeight sh' l' < uWeight c.sh ⟨pc, seen⟩ →
        uMu (stepAt (uProg .setCtxFirst) c i) < uMu c := by
      intro sh' l' hs hm hw
      rw [stepAt_some _ c i _ hl, hs]
      exact sum_map_set_lt (uWeight c.sh) (uWeight sh') c.ths i _ l' hl (uWeight_mono c.sh sh' hm) hw
    cases pc with
    | done => left; exact stepAt_eq_of_same _ c i _ hl rfl
    | sMgr => right; exact key _ _ rfl (Nat.le_refl _) (by simp [uWeight])
    | sSet =>
      right
      by_cases hb : c.sh.ctxBound = true
      · exact key c.sh ⟨.sCas, seen⟩ (by simp [uProg, uStep, hb]) (Nat.le_refl _) (by simp [uWeight])
      · exact key { c.sh with ctxBound := true, ctxCancelled := false, disposed := false } ⟨.sCas, seen⟩
          (by simp [uProg, uStep, hb]) (Nat.le_refl _) (by simp [uWeight])
    | sCas =>
      right
      by_cases h0 : c.sh.state = 0
      · exact key { c.sh with state := 1 } ⟨.sSpawn, seen⟩ (by simp [uProg, uStep, h0]) (by simp [h0])
          (by simp [uWeight])
      · exact key { c.sh with startRes := 2 } ⟨.done, seen⟩ (by simp [uProg, uStep, h0]) (Nat.le_refl _)
          (by simp [uWeight])
    | sSpawn => right; exact key _ _ rfl (Nat.le_refl _) (by simp [uWeight])
    | load =>
      right
      by_cases h2 : 2 ≤ c.sh.state
      · refine key c.sh ⟨.done, c.sh.state⟩ (by simp [uProg, uStep, h2]) (Nat.le_refl _) ?_
        simp only [uWeight]; split <;> (try split) <;> omega
      · refine key c.sh ⟨.cas, c.sh.state⟩ (by simp [uProg, uStep, h2]) (Nat.le_refl _) ?_
        simp only [uWeight, h2, if_false, if_true]
        split <;> (try split) <;> omega
    | cas =>
      right
      obtain ⟨hs1, hs2⟩ := hme.seen rfl
      simp only at hs1 hs2
      by_cases heq : c.sh.state = seen
      · refine key { c.sh with state := 2 } ⟨.body, seen⟩ (by simp [uProg, uStep, heq]) (by simp only; omega) ?_
        have h2 : ¬ 2 ≤ seen := by omega
        simp only [uWeight, heq, h2, if_false, if_true]
        split <;> omega
      · refine key c.sh ⟨.load, seen⟩ (by simp [uProg, uStep, heq]) (Nat.le_refl _) ?_
        have hne : ¬ seen = c.sh.state := fun h => heq h.symm
        simp only [uWeight, hne, if_false]
        split <;> (try split) <;> (try split) <;> omega
    | body =>
      right
      by_cases hd : c.sh.disposed = true
      · exact key { c.sh with closes := c.sh.closes + 1 } ⟨.fin, seen⟩ (by simp [uProg, uStep, hd])
          (Nat.le_refl _) (by simp [uWeight])
      · exact key { c.sh with closes := c.sh.closes + 1, disposed := true,
                              ctxCancelled := c.sh.ctxCancelled || c.sh.ctxBound } ⟨.fin, seen⟩
          (by simp [uProg, uStep, hd]) (Nat.le_refl _) (by simp [uWeight])
    | fin =>
      right
      have hst : c.sh.state = 2 := by
        have ho := hme.own.mp (Or.inr rfl)
        exact (hinv.some_ i ho).1
      exact key { c.sh with state := 3 } ⟨.done, seen⟩ rfl (by simp [hst]) (by simp [uWeight])

theorem uMu_init (n : Nat) : uMu (uInit .setCtxFirst n) ≤ 8 * n + 5 := by
  simp only [uMu, uInit, List.map_cons, List.sum_cons]
  rw [sum_replicate_weight]
  simp [uWeight]
  omega

/-- **Start ‖ Close, every schedule** (current step order of `Start`, `n ≥ 1` closers): all calls
return; the tunnel is `Closed`, the close sequence ran exactly once; whatever `Start` spawned sees
a cancelled context; if `Start` reported success, the context is bound and cancelled and the
latch is closed. -/
theorem u_final (n : Nat) (hn : 1 ≤ n) (s : Schedule) :
    (uFinal .setCtxFirst n s).sh.state = 3 ∧ (uFinal .setCtxFirst n s).sh.closes = 1 ∧
    ((uFinal .setCtxFirst n s).sh.spawned = true → (uFinal .setCtxFirst n s).sh.ctxCancelled = true) ∧
    ((uFinal .setCtxFirst n s).sh.startRes = 1 →
      (uFinal .setCtxFirst n s).sh.ctxBound = true ∧ (uFinal .setCtxFirst n s).sh.ctxCancelled = true ∧
      (uFinal .setCtxFirst n s).sh.disposed = true) ∧
    (∀ (i : Nat) (l : ULocal), (uFinal .setCtxFirst n s).ths[i]? = some l → l.pc = UPc.done) := by
  have hinv : UInv (uFinal .setCtxFirst n s) := inv_run _ _ uInv_step _ _ (uInv_init n)
  have hq : Quiescent (uProg .setCtxFirst) (uFinal .setCtxFirst n s) := by
    unfold uFinal
    rw [run_append]
    apply rounds_quiescent _ UInv uMu (n + 1) uInv_step u_dec
    · exact inv_run _ _ uInv_step _ _ (uInv_init n)
    · rw [run_length]; simp [uInit]
    · exact Nat.le_trans (mu_run_le _ _ uMu uInv_step u_dec s _ (uInv_init n)) (uMu_init n)
  have hlen : (uFinal .setCtxFirst n s).ths.length = n + 1 := by
    unfold uFinal; rw [run_length]; simp [uInit]
  have hdone : ∀ (i : Nat) (l : ULocal), (uFinal .setCtxFirst n s).ths[i]? = some l → l.pc = UPc.done := by
    intro i l hl
    obtain ⟨pc, seen⟩ := l
    cases pc with
    | done => rfl
    | sMgr => exact absurd (hq i) (stepAt_ne_of_local _ _ i _ hl (by simp [uProg, uStep]))
    | sSet => exact absurd (hq i) (stepAt_ne_of_local _ _ i _ hl (by simp [uProg, uStep]))
    | sSpawn => exact absurd (hq i) (stepAt_ne_of_local _ _ i _ hl (by simp [uProg, uStep]))
    | body => exact absurd (hq i) (stepAt_ne_of_local _ _ i _ hl (by simp [uProg, uStep]))
    | fin => exact absurd (hq i) (stepAt_ne_of_local _ _ i _ hl (by simp [uProg, uStep]))
    | sCas =>
      refine absurd (hq i) (stepAt_ne_of_local _ _ i _ hl ?_)
      simp only [uProg, uStep]; split <;> simp
    | load =>
      refine absurd (hq i) (stepAt_ne_of_local _ _ i _ hl ?_)
      simp only [uProg, uStep]; split <;> simp
    | cas =>
      refine absurd (hq i) (stepAt_ne_of_local _ _ i _ hl ?_)
      simp only [uProg, uStep]; split <;> simp
  obtain ⟨o, hi⟩ := hinv
  -- a closer has returned, so the state is not open any more
  have h1 : (uFinal .setCtxFirst n s).ths[1]? = some ((uFinal .setCtxFirst n s).ths[1]'(by omega)) :=
    List.getElem?_eq_getElem (by omega)
  have hge : 2 ≤ (uFinal .setCtxFirst n s).sh.state := (hi.th 1 _ h1).ret (hdone 1 _ h1) (by decide)
  have hon : o = none := by
    cases o with
    | none => rfl
    | some k =>
      obtain ⟨_, x, hx, hb⟩ := hi.some_ k rfl
      have := hdone k x hx
      rcases hb with h | h <;> rw [h.1] at this <;> cases this
  have hsc : (uFinal .setCtxFirst n s).sh.state = 3 ∧ (uFinal .setCtxFirst n s).sh.closes = 1 := by
    rcases hi.none_ hon with h | h
    · omega
    · exact h
  refine ⟨hsc.1, hsc.2, ?_, ?_, hdone⟩
  · intro hs
    exact ((hi.sp hs).1 (by omega)).1
  · intro hr
    have hs := hi.res hr
    obtain ⟨g, b, _⟩ := hi.sp hs
    exact ⟨b, (g (by omega)).1, (g (by omega)).2⟩

theorem holdsU_final (n : Nat) (hn : 1 ≤ n) (s : Schedule) :
    holdsU (uObs (uFinal .setCtxFirst n s)) = true := by
  obtain ⟨h1, h2, h3, h4, _⟩ := u_final n hn s
  simp only [holdsU, uObs, h1, h2]
  cases hsp : (uFinal .setCtxFirst n s).sh.spawned with
  | false =>
    cases hr : (uFinal .setCtxFirst n s).sh.startRes == 1 with
    | false => simp
    | true =>
      obtain ⟨a, b, c⟩ := h4 (by simpa using hr)
      simp [a, b, c]
  | true =>
    have hc := h3 hsp
    cases hr : (uFinal .setCtxFirst n s).sh.startRes == 1 with
    | false => simp [hc]
    | true =>
      obtain ⟨a, b, c⟩ := h4 (by simpa using hr)
      simp [a, b, c]

end Tunnox.C16
