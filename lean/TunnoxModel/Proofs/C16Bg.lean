import TunnoxModel.Proofs.C16
/-! C16 — Close against the storage cleaner that is in the middle of a tick (current
`StopCleanup`: the stop channel in the field stays the closed one). -/
namespace Tunnox.C16
open Tunnox.Sched

structure GThreadOk (o : Option Nat) (sh : GShared) (i : Nat) (l : GLocal) : Prop where
  hold : l.pc = GPc.rHold → sh.lock = some i
  stop : l.pc = GPc.cStop ↔ o = some i
  g0 : l.g = 0
  closer : 2 ≤ i → (l.pc = GPc.cLatch ∨ l.pc = GPc.cStop ∨ l.pc = GPc.done) ∧ (l.pc = GPc.done → sh.latch = true)

structure GInvO (o : Option Nat) (c : Cfg GShared GLocal) : Prop where
  th : ∀ (i : Nat) (l : GLocal), c.ths[i]? = some l → GThreadOk o c.sh i l
  lk : ∀ j : Nat, c.sh.lock = some j → ∃ l, c.ths[j]? = some l ∧ l.pc = GPc.rHold
  own : ∀ j : Nat, o = some j → ∃ l, c.ths[j]? = some l
  gen : c.sh.gen = 0
  lat : c.sh.latch = true → o.isSome = true ∨ c.sh.closedUpTo = 1
  nol : c.sh.latch = false → o = none

def GInv (c : Cfg GShared GLocal) : Prop := ∃ o, GInvO o c

theorem gInv_init (k n : Nat) : GInv (gInit k n) := by
  refine ⟨none, ⟨?_, ?_, (fun j h => by cases h), rfl, (fun h => by simp [gInit] at h), fun _ => rfl⟩⟩
  · intro i l h
    match i with
    | 0 => simp [gInit] at h; subst h; exact ⟨fun _ => rfl, by simp, rfl, fun h => by omega⟩
    | 1 => simp [gInit] at h; subst h; exact ⟨by simp, by simp, rfl, fun h => by omega⟩
    | i + 2 =>
      simp only [gInit, List.getElem?_cons_succ] at h
      have := mem_replicate_getElem? _ _ _ _ h
      subst this
      exact ⟨by simp, by simp, rfl, fun _ => ⟨Or.inl rfl, by simp⟩⟩
  · intro j h
    simp [gInit] at h
    subst h
    exact ⟨_, rfl, rfl⟩

theorem gInv_step (c : Cfg GShared GLocal) (i : Nat) (hc : GInv c) :
    GInv (stepAt (gProg .keep) c i) := by
  apply inv_stepAt_of_local (gProg .keep) GInv c i hc
  intro l hl
  obtain ⟨o, hth, hlk, hown, hgen, hlat, hnol⟩ := hc
  have hme := hth i l hl
  have hi : i < c.ths.length := lt_of_getElem? _ _ _ hl
  obtain ⟨sh, ths⟩ := c
  obtain ⟨lock, latch, tickerStopped, gen, closedUpTo⟩ := sh
  obtain ⟨pc, k, g⟩ := l
  simp only at hl hi hth hlk hown hgen hlat hnol hme
  subst hgen
  have hg0 : g = 0 := hme.g0
  subst hg0
  -- a step of a thread that is neither the lock holder nor at cStop, leaving the shared state alone
  have local_only : ∀ (l' : GLocal), pc ≠ GPc.rHold → pc ≠ GPc.cStop → l'.pc ≠ GPc.rHold → l'.pc ≠ GPc.cStop →
      l'.g = 0 → (2 ≤ i → (l'.pc = GPc.cLatch ∨ l'.pc = GPc.cStop ∨ l'.pc = GPc.done) ∧ (l'.pc = GPc.done → latch = true)) →
      GInv ⟨⟨lock, latch, tickerStopped, 0, closedUpTo⟩, ths.set i l'⟩ := by
    intro l' h1 h2 h3 h4 h5 h6
    have hno : o ≠ some i := fun h => h2 (hme.stop.mpr h)
    refine ⟨o, ⟨?_, ?_, ?_, rfl, hlat, hnol⟩⟩
    · intro j x hj
      cases getElem?_set_cases _ _ _ _ _ hj with
      | inl h =>
        obtain ⟨rfl, rfl⟩ := h
        exact ⟨fun e => absurd e h3, ⟨fun e => absurd e h4, fun e => absurd e hno⟩, h5, h6⟩
      | inr h => exact hth j x h.2
    · intro j hj
      obtain ⟨x, hx, hp⟩ := hlk j hj
      have hji : i ≠ j := fun e => by subst e; rw [hl] at hx; cases hx; exact h1 hp
      exact ⟨x, by rw [List.getElem?_set_ne hji]; exact hx, hp⟩
    · intro j hj
      obtain ⟨x, hx⟩ := hown j hj
      have hji : i ≠ j := fun e => hno (e ▸ hj)
      exact ⟨x, by rw [List.getElem?_set_ne hji]; exact hx⟩
  cases pc with
  | rHold =>
    have hlock : lock = some i := hme.hold rfl
    have hno : o ≠ some i := fun h => by have := hme.stop.mpr h; cases this
    subst hlock
    simp only [gProg, gStep]
    refine ⟨o, ⟨?_, (fun j h => by cases h), ?_, rfl, hlat, hnol⟩⟩
    · intro j x hj
      cases getElem?_set_cases _ _ _ _ _ hj with
      | inl h =>
        obtain ⟨rfl, rfl⟩ := h
        refine ⟨by simp, ⟨by simp, fun e => absurd e hno⟩, rfl, ?_⟩
        intro h2
        have := (hme.closer h2).1
        simp at this
      | inr h =>
        have hx := hth j x h.2
        refine ⟨?_, hx.stop, hx.g0, hx.closer⟩
        intro e
        have := hx.hold e
        exact absurd (Option.some.inj this) h.1
    · intro j hj
      obtain ⟨x, hx⟩ := hown j hj
      have hji : i ≠ j := fun e => hno (e ▸ hj)
      exact ⟨x, by rw [List.getElem?_set_ne hji]; exact hx⟩
  | cLatch =>
    have hno : o ≠ some i := fun h => by have := hme.stop.mpr h; cases this
    simp only [gProg, gStep]
    cases hlt : latch with
    | true =>
      simp only [if_true]
      subst hlt
      exact local_only ⟨GPc.done, k, 0⟩ (by simp) (by simp) (by simp) (by simp) rfl
        (fun _ => ⟨Or.inr (Or.inr rfl), fun _ => rfl⟩)
    | false =>
      simp only [Bool.false_eq_true, if_false]
      subst hlt
      have hon := hnol rfl
      subst hon
      refine ⟨some i, ⟨?_, ?_, ?_, rfl, (fun _ => Or.inl rfl), (fun h => by cases h)⟩⟩
      · intro j x hj
        cases getElem?_set_cases _ _ _ _ _ hj with
        | inl h =>
          obtain ⟨rfl, rfl⟩ := h
          exact ⟨by simp, by simp, rfl, fun _ => ⟨Or.inr (Or.inl rfl), by simp⟩⟩
        | inr h =>
          have hx := hth j x h.2
          refine ⟨hx.hold, ?_, hx.g0, fun h2 => ⟨(hx.closer h2).1, fun _ => rfl⟩⟩
          constructor
          · intro e; have := hx.stop.mp e; cases this
          · intro e; exact absurd (Option.some.inj e) h.1
      · intro j hj
        obtain ⟨x, hx, hp⟩ := hlk j hj
        have hji : i ≠ j := fun e => by subst e; rw [hl] at hx; cases hx; cases hp
        exact ⟨x, by rw [List.getElem?_set_ne hji]; exact hx, hp⟩
      · intro j hj
        cases hj
        exact ⟨_, List.getElem?_set_self hi⟩
  | cStop =>
    have ho : o = some i := hme.stop.mp rfl
    subst ho
    simp only [gProg, gStep]
    cases hlk' : lock with
    | some j =>
      simp only
      rw [set_self_of_getElem? ths i _ hl]
      subst hlk'
      exact ⟨some i, ⟨hth, hlk, hown, rfl, hlat, hnol⟩⟩
    | none =>
      simp only
      subst hlk'
      have hlatch : latch = true := by
        cases hlt : latch with
        | true => rfl
        | false => have := hnol hlt; cases this
      subst hlatch
      refine ⟨none, ⟨?_, (fun j h => by cases h), (fun j h => by cases h), rfl, (fun _ => Or.inr rfl),
        (fun h => by cases h)⟩⟩
      intro j x hj
      cases getElem?_set_cases _ _ _ _ _ hj with
      | inl h =>
        obtain ⟨rfl, rfl⟩ := h
        exact ⟨by simp, by simp, rfl, fun _ => ⟨Or.inr (Or.inr rfl), fun _ => rfl⟩⟩
      | inr h =>
        have hx := hth j x h.2
        refine ⟨(fun e => by have := hx.hold e; cases this), ?_, hx.g0, hx.closer⟩
        constructor
        · intro e; exact absurd (Option.some.inj (hx.stop.mp e)) h.1
        · intro e; cases e
  | enter =>
    simp only [gProg, gStep]
    exact local_only ⟨GPc.wait, k, 0⟩ (by simp) (by simp) (by simp) (by simp) rfl
      (fun h2 => by have := (hme.closer h2).1; simp at this)
  | wait =>
    have hnc : ¬ 2 ≤ i := fun h2 => by have := (hme.closer h2).1; simp at this
    simp only [gProg, gStep]
    cases k with
    | succ k' =>
      simp only
      exact local_only ⟨GPc.tick, k', 0⟩ (by simp) (by simp) (by simp) (by simp) rfl (fun h2 => absurd h2 hnc)
    | zero =>
      simp only
      split
      · exact local_only ⟨GPc.done, 0, 0⟩ (by simp) (by simp) (by simp) (by simp) rfl (fun h2 => absurd h2 hnc)
      · rw [set_self_of_getElem? ths i _ hl]
        exact ⟨o, ⟨hth, hlk, hown, rfl, hlat, hnol⟩⟩
  | tick =>
    have hnc : ¬ 2 ≤ i := fun h2 => by have := (hme.closer h2).1; simp at this
    simp only [gProg, gStep]
    cases hlk' : lock with
    | some j =>
      simp only
      rw [set_self_of_getElem? ths i _ hl]
      subst hlk'
      exact ⟨o, ⟨hth, hlk, hown, rfl, hlat, hnol⟩⟩
    | none =>
      simp only
      subst hlk'
      exact local_only ⟨GPc.enter, k, 0⟩ (by simp) (by simp) (by simp) (by simp) rfl (fun h2 => absurd h2 hnc)
  | done =>
    simp only [gProg, gStep]
    rw [set_self_of_getElem? ths i _ hl]
    exact ⟨o, ⟨hth, hlk, hown, rfl, hlat, hnol⟩⟩

theorem g_dec (c : Cfg GShared GLocal) (i : Nat) :
    stepAt (gProg .keep) c i = c ∨ gMu (stepAt (gProg .keep) c i) < gMu c := by
  cases hl : c.ths[i]? with
  | none => left; exact stepAt_none _ _ _ hl
  | some l =>
    obtain ⟨pc, k, g⟩ := l
    cases pc with
    | done => left; exact stepAt_eq_of_same _ c i _ hl rfl
    | rHold => right; exact mu_lt_of_weight _ gWeight c i _ hl (by simp [gProg, gStep, gWeight])
    | enter => right; exact mu_lt_of_weight _ gWeight c i _ hl (by simp [gProg, gStep, gWeight])
    | cLatch =>
      right
      apply mu_lt_of_weight _ gWeight c i _ hl
      simp only [gProg, gStep]; split <;> simp [gWeight]
    | cStop =>
      cases hlk : c.sh.lock with
      | some j => left; exact stepAt_eq_of_same _ c i _ hl (by simp [gProg, gStep, hlk])
      | none => right; exact mu_lt_of_weight _ gWeight c i _ hl (by simp [gProg, gStep, hlk, gWeight])
    | tick =>
      cases hlk : c.sh.lock with
      | some j => left; exact stepAt_eq_of_same _ c i _ hl (by simp [gProg, gStep, hlk])
      | none => right; exact mu_lt_of_weight _ gWeight c i _ hl (by simp [gProg, gStep, hlk, gWeight])
    | wait =>
      cases k with
      | succ k' => right; exact mu_lt_of_weight _ gWeight c i _ hl (by simp [gProg, gStep, gWeight]; omega)
      | zero =>
        by_cases hc : g < c.sh.closedUpTo
        · right; exact mu_lt_of_weight _ gWeight c i _ hl (by simp [gProg, gStep, gWeight, hc])
        · left; exact stepAt_eq_of_same _ c i _ hl (by simp [gProg, gStep, hc])

/-- **Close against a cleaner that is mid-tick, every schedule** (`n ≥ 1` closers, any number of
pending ticks, the storage lock held by pending I/O until it is unblocked): every thread ends;
in particular the cleaner's goroutine is gone, and the latch is closed. -/
theorem g_final (k n : Nat) (hn : 1 ≤ n) (s : Schedule) :
    (∀ (i : Nat) (l : GLocal), (gFinal .keep k n s).ths[i]? = some l → l.pc = GPc.done) ∧
    (gFinal .keep k n s).sh.latch = true ∧ (gFinal .keep k n s).ths.length = n + 2 := by
  have hinv : GInv (gFinal .keep k n s) := inv_run _ _ gInv_step _ _ (gInv_init k n)
  have hq : Quiescent (gProg .keep) (gFinal .keep k n s) := by
    unfold gFinal
    rw [run_append]
    apply rounds_quiescent _ (fun _ => True) gMu (n + 2) (fun _ _ _ => trivial) (fun c i _ => g_dec c i)
    · trivial
    · rw [run_length]; simp [gInit]
    · refine Nat.le_trans (mu_run_le _ (fun _ => True) gMu (fun _ _ _ => trivial) (fun c i _ => g_dec c i) _ _ trivial) ?_
      simp only [gMu, gInit, List.map_cons, List.sum_cons]
      rw [sum_replicate_weight]
      simp [gWeight]; omega
  have hlen : (gFinal .keep k n s).ths.length = n + 2 := by
    unfold gFinal; rw [run_length]; simp [gInit]
  obtain ⟨o, hi⟩ := hinv
  generalize gFinal .keep k n s = c at hq hlen hi
  -- nobody holds the storage lock any more
  have hnolock : c.sh.lock = none := by
    cases hlk : c.sh.lock with
    | none => rfl
    | some j =>
      obtain ⟨x, hx, hp⟩ := hi.lk j hlk
      refine absurd (hq j) (stepAt_ne_of_local _ _ j _ hx ?_)
      obtain ⟨pc, k', g⟩ := x
      simp only at hp; subst hp
      simp [gProg, gStep]
  have hnostop : ∀ (j : Nat) (x : GLocal), c.ths[j]? = some x → x.pc ≠ GPc.cStop := by
    intro j x hx hp
    refine absurd (hq j) (stepAt_ne_of_local _ _ j _ hx ?_)
    obtain ⟨pc, k', g⟩ := x
    simp only at hp; subst hp
    simp [gProg, gStep, hnolock]
  have hon : o = none := by
    cases o with
    | none => rfl
    | some j =>
      obtain ⟨x, hx⟩ := hi.own j rfl
      exact absurd ((hi.th j x hx).stop.mpr rfl) (hnostop j x hx)
  -- the first closer is done, so the latch is closed and the stop channel too
  have h2 : c.ths[2]? = some (c.ths[2]'(by omega)) := List.getElem?_eq_getElem (by omega)
  have hlatch : c.sh.latch = true := by
    have hc := (hi.th 2 _ h2).closer (Nat.le_refl _)
    rcases hc.1 with e | e | e
    · refine absurd (hq 2) (stepAt_ne_of_local _ _ 2 _ h2 ?_)
      generalize c.ths[2]'(by omega) = x at e
      obtain ⟨pc, k', g⟩ := x
      simp only at e; subst e
      simp only [gProg, gStep]; split <;> simp
    · exact absurd e (hnostop 2 _ h2)
    · exact hc.2 e
  have hclosed : c.sh.closedUpTo = 1 := by
    rcases hi.lat hlatch with h | h
    · rw [hon] at h; cases h
    · exact h
  refine ⟨?_, hlatch, hlen⟩
  intro j x hx
  have hok := hi.th j x hx
  obtain ⟨pc, k', g⟩ := x
  have hg : g = 0 := hok.g0
  subst hg
  cases pc with
  | done => rfl
  | cStop => exact absurd rfl (hnostop j _ hx)
  | rHold => exact absurd (hq j) (stepAt_ne_of_local _ _ j _ hx (by simp [gProg, gStep]))
  | enter => exact absurd (hq j) (stepAt_ne_of_local _ _ j _ hx (by simp [gProg, gStep]))
  | tick => exact absurd (hq j) (stepAt_ne_of_local _ _ j _ hx (by simp [gProg, gStep, hnolock]))
  | cLatch =>
    refine absurd (hq j) (stepAt_ne_of_local _ _ j _ hx ?_)
    simp only [gProg, gStep]; split <;> simp
  | wait =>
    refine absurd (hq j) (stepAt_ne_of_local _ _ j _ hx ?_)
    cases k' with
    | succ k'' => simp [gProg, gStep]
    | zero => simp [gProg, gStep, hclosed]

theorem holdsG_final (k n : Nat) (hn : 1 ≤ n) (s : Schedule) :
    holdsG (gObs (gFinal .keep k n s)) = true := by
  obtain ⟨hd, hl, hlen⟩ := g_final k n hn s
  have h1 : (gFinal .keep k n s).ths[1]? = some ((gFinal .keep k n s).ths[1]'(by omega)) :=
    List.getElem?_eq_getElem (by omega)
  have := hd 1 _ h1
  simp [holdsG, gObs, h1, this, hl]

/-! ## Late attach -/

def AInv (sh : AShared) : Prop :=
  sh.stc + b2n sh.srcTC + sh.lostS = sh.satt ∧ sh.ttc + b2n sh.tgtTC + sh.lostT = sh.tatt

theorem aInv_step (refuse : Bool) (c : Cfg AShared APc) (i : Nat) (hc : AInv c.sh) :
    AInv (stepAt (aProg false refuse) c i).sh := by
  cases hl : c.ths[i]? with
  | none => rw [stepAt_none _ _ _ hl]; exact hc
  | some l =>
    rw [stepAt_some _ c i l hl]
    obtain ⟨sh, ths⟩ := c
    obtain ⟨srcTC, tgtTC, satt, stc, tatt, ttc, lostS, lostT, closed, tornDown⟩ := sh
    obtain ⟨h1, h2⟩ := hc
    simp only at h1 h2
    cases l <;> simp only [aProg, aStep, AInv, Bool.false_and, Bool.false_eq_true, if_false]
    · exact ⟨h1, h2⟩
    · cases srcTC <;> cases tgtTC <;> simp_all [b2n] <;> omega
    · exact ⟨h1, h2⟩
    · split
      · exact ⟨by simp only; omega, h2⟩
      · cases srcTC <;> simp_all [b2n] <;> omega
    · split
      · exact ⟨h1, by simp only; omega⟩
      · cases tgtTC <;> simp_all [b2n] <;> omega
    · exact ⟨h1, h2⟩

theorem aInv_run (refuse : Bool) (pcs : List APc) (s : Schedule) : AInv (run (aProg false refuse) s (aInit pcs)).sh := by
  have : ∀ (s : Schedule) (c : Cfg AShared APc), AInv c.sh → AInv (run (aProg false refuse) s c).sh := by
    intro s
    induction s with
    | nil => intro c h; exact h
    | cons j s ih => intro c h; exact ih _ (aInv_step refuse c j h)
  exact this s _ (by simp [AInv, aInit, b2n])

theorem holdsA_closeSeq (sh : AShared) (h : AInv sh) : holdsA (aObs (closeSeq false sh)) = true := by
  obtain ⟨srcTC, tgtTC, satt, stc, tatt, ttc, lostS, lostT, closed, tornDown⟩ := sh
  obtain ⟨h1, h2⟩ := h
  simp only at h1 h2
  cases srcTC <;> cases tgtTC <;> simp_all [holdsA, aObs, closeSeq, aStep, b2n] <;> omega

end Tunnox.C16
