import TunnoxModel.Model.C19Fault
import TunnoxModel.Proofs.C19Run
/-! C19 — a failed `CreateMapping` (any single storage failure, or any refusal) rolls everything back. -/
namespace Tunnox.C19
open Gen

theorem upd_upd_none {α β} [DecidableEq α] (f : α → Option β) (k : α) (v : Option β) (h : f k = none) :
    upd (upd f k v) k none = f := by
  funext x
  by_cases e : x = k
  · subst e; simp [h]
  · simp [upd, e]

/-- Field level: whatever the failing call, a create that returns an error leaves index, records and lists as
they were, provided the fresh number's record slot was empty (true in every reachable store). -/
theorem createFault_err_same (cf : Config) (s : Store) (cl : Nat) (sub base th : String) (tp k : Nat) (code : String)
    (hfresh : s.data (s.next + 1) = none)
    (h : (createFault cf s cl sub base th tp k).2 = .err code) :
    (createFault cf s cl sub base th tp k).1.index = s.index ∧ (createFault cf s cl sub base th tp k).1.data = s.data ∧
    (createFault cf s cl sub base th tp k).1.clientList = s.clientList ∧
    (createFault cf s cl sub base th tp k).1.globalList = s.globalList ∧
    (createFault cf s cl sub base th tp k).1.registry = s.registry ∧
    s.next ≤ (createFault cf s cl sub base th tp k).1.next ∧ (createFault cf s cl sub base th tp k).1.next ≤ s.next + 1 := by
  revert h
  unfold createFault
  split
  · intro _; exact ⟨rfl, rfl, rfl, rfl, rfl, Nat.le_refl _, Nat.le_succ _⟩
  · split
    · intro _; exact ⟨rfl, rfl, rfl, rfl, rfl, Nat.le_refl _, Nat.le_succ _⟩
    · split
      · intro _; exact ⟨rfl, rfl, rfl, rfl, rfl, Nat.le_succ _, Nat.le_refl _⟩
      · split
        · intro _; exact ⟨rfl, rfl, rfl, rfl, rfl, Nat.le_succ _, Nat.le_refl _⟩
        · split
          · intro _; exact ⟨rfl, rfl, rfl, rfl, rfl, Nat.le_succ _, Nat.le_refl _⟩
          · rename_i hidx
            split
            · intro _
              exact ⟨upd_upd_none _ _ _ hidx, rfl, rfl, rfl, rfl, Nat.le_succ _, Nat.le_refl _⟩
            · split
              · intro _
                exact ⟨upd_upd_none _ _ _ hidx, upd_upd_none _ _ _ hfresh, rfl, rfl, rfl, Nat.le_succ _, Nat.le_refl _⟩
              · intro h; cases h

theorem seqStore_reachable (i : Input) : ∃ ts, seqStore i = (runSched i.cf (initCfg i) ts).1.st := by
  obtain ⟨ts, hts⟩ := drain_is_sched i.cf i.threads.length (drainFuel i) (runSched i.cf (initCfg i) i.sched).1
  refine ⟨i.sched ++ ts, ?_⟩
  simp only [seqStore, runSched_append, hts]

theorem Inv.of_runSched (i : Input) (ts : List Nat) :
    Inv i.cf (allOps i) (i.reg ++ i.cf.cloud) (runSched i.cf (initCfg i) ts).1 := by
  have key : ∀ (ts : List Nat) c, Inv i.cf (allOps i) (i.reg ++ i.cf.cloud) c →
      Inv i.cf (allOps i) (i.reg ++ i.cf.cloud) (runSched i.cf c ts).1 := by
    intro ts
    induction ts with
    | nil => intro c h; exact h
    | cons t ts ih => intro c h; exact ih _ (h.step t)
  exact key ts _ (Inv.init i)

/-- In a reachable store the record slot of the next number is empty. -/
theorem seqStore_fresh (i : Input) : (seqStore i).data ((seqStore i).next + 1) = none := by
  obtain ⟨ts, hts⟩ := seqStore_reachable i
  have hI := Inv.of_runSched i ts
  rw [hts]
  cases hd : (runSched i.cf (initCfg i) ts).1.st.data ((runSched i.cf (initCfg i) ts).1.st.next + 1) with
  | none => rfl
  | some r =>
    obtain ⟨o, ho, _⟩ := hI.dataOK _ _ hd
    have := (hI.bornRange _ _ ho).2
    omega

theorem filterMap_range_succ {β} (f : Nat → Option β) (n : Nat) (h : f (n + 1) = none) :
    (List.range' 1 (n + 1)).filterMap f = (List.range' 1 n).filterMap f := by
  rw [List.range'_concat]
  simp [List.filterMap_append, Nat.add_comm 1 n, h]

/-- **A failed create leaves no index / record / list entry** — for every history before it, every input and
every position of the single storage failure (also: refusals without any failure). -/
theorem holdsFault_model (i uni : Input) (cl : Nat) (sub base th : String) (tp k : Nat) :
    holdsFault (modelFault i uni cl sub base th tp k) = true := by
  unfold holdsFault modelFault
  simp only
  cases hr : (createFault i.cf (seqStore i) cl sub base th tp k).2 with
  | okId n => rfl
  | ok =>
    exfalso
    revert hr; unfold createFault; repeat' split
    all_goals (intro h; cases h)
  | route a b c d =>
    exfalso
    revert hr; unfold createFault; repeat' split
    all_goals (intro h; cases h)
  | err code =>
    simp only
    obtain ⟨h1, h2, h3, h4, h5, h6, h7⟩ := createFault_err_same i.cf (seqStore i) cl sub base th tp k code (seqStore_fresh i) hr
    unfold Final.sameEntries finalOf
    simp only [h1, h3, h4, Bool.and_eq_true, beq_iff_eq, and_true, true_and]
    rw [h2]
    -- the record enumeration runs up to the counter, which a failed create may have advanced by one
    have hn : (createFault i.cf (seqStore i) cl sub base th tp k).1.next = (seqStore i).next ∨
        (createFault i.cf (seqStore i) cl sub base th tp k).1.next = (seqStore i).next + 1 := by omega
    rcases hn with hn | hn
    · rw [hn]
    · rw [hn, filterMap_range_succ _ _ (by simp [seqStore_fresh i])]

end Tunnox.C19
