import TunnoxModel.Proofs.C16
/-! C16 — client mapping handler `reportStats` (claim by `Swap(0)`): conservation of the traffic
totals under every interleaving of periodic reports with the final report on Close. -/
namespace Tunnox.C16
open Tunnox.Sched

/-- Sent / received bytes a reporter has claimed and not yet reported or given back. -/
def inS (l : PLocal) : Int :=
  match l.pc with
  | .claimR => l.s | .track => l.s | .rollback => l.s | _ => 0

def inR (l : PLocal) : Int :=
  match l.pc with
  | .track => l.r | .rollback => l.r | _ => 0

theorem sum_map_set_int {π} (f : π → Int) :
    ∀ (ths : List π) (i : Nat) (l l' : π), ths[i]? = some l →
      ((ths.set i l').map f).sum = (ths.map f).sum - f l + f l' := by
  intro ths
  induction ths with
  | nil => intro i l l' h; simp at h
  | cons a t ih =>
    intro i l l' h
    cases i with
    | zero =>
      simp only [List.getElem?_cons_zero, Option.some.injEq] at h
      subst h
      simp only [List.set_cons_zero, List.map_cons, List.sum_cons]
      omega
    | succ i =>
      simp only [List.getElem?_cons_succ] at h
      simp only [List.set_cons_succ, List.map_cons, List.sum_cons]
      rw [ih i l l' h]
      omega

theorem sum_zero_of_all {π} (f : π → Int) (ths : List π) (h : ∀ x ∈ ths, f x = 0) : (ths.map f).sum = 0 := by
  induction ths with
  | nil => rfl
  | cons a t ih =>
    simp only [List.map_cons, List.sum_cons]
    rw [h a (List.mem_cons_self ..), ih (fun x hx => h x (List.mem_cons_of_mem _ hx))]
    rfl

structure PThreadOk (fails : List Bool) (sh : PShared) (i : Nat) (l : PLocal) : Prop where
  ns : 0 ≤ l.s
  nr : 0 ≤ l.r
  rb : l.pc = PPc.rollback → l.fail = true
  fl : fails[i]? = some l.fail

structure PInv (a b : Int) (fails : List Bool) (c : Cfg PShared PLocal) : Prop where
  cs : c.sh.repS + c.sh.pendS + (c.ths.map inS).sum = a
  cr : c.sh.repR + c.sh.pendR + (c.ths.map inR).sum = b
  ps : 0 ≤ c.sh.pendS
  pr : 0 ≤ c.sh.pendR
  th : ∀ (i : Nat) (l : PLocal), c.ths[i]? = some l → PThreadOk fails c.sh i l
  nf : fails.any id = false → ∀ (i : Nat) (l : PLocal), c.ths[i]? = some l →
      (l.pc ≠ PPc.claimS → c.sh.pendS = 0) ∧ (l.pc ≠ PPc.claimS → l.pc ≠ PPc.claimR → c.sh.pendR = 0)

theorem pInv_init (a b : Nat) (fails : List Bool) : PInv a b fails (pInit a b fails) := by
  have hall : ∀ (i : Nat) (l : PLocal), (pInit a b fails).ths[i]? = some l →
      l.pc = PPc.claimS ∧ l.s = 0 ∧ l.r = 0 ∧ fails[i]? = some l.fail := by
    intro i l h
    simp only [pInit, List.getElem?_map] at h
    cases hf : fails[i]? with
    | none => simp [hf] at h
    | some f => simp [hf] at h; subst h; exact ⟨rfl, rfl, rfl, rfl⟩
  have hz1 : ((pInit a b fails).ths.map inS).sum = 0 := by
    apply sum_zero_of_all
    intro x hx
    obtain ⟨i, hi⟩ := List.mem_iff_getElem?.mp hx
    simp [inS, (hall i x hi).1]
  have hz2 : ((pInit a b fails).ths.map inR).sum = 0 := by
    apply sum_zero_of_all
    intro x hx
    obtain ⟨i, hi⟩ := List.mem_iff_getElem?.mp hx
    simp [inR, (hall i x hi).1]
  refine ⟨by rw [hz1]; simp [pInit], by rw [hz2]; simp [pInit], by simp [pInit], by simp [pInit], ?_, ?_⟩
  · intro i l h
    obtain ⟨h1, h2, h3, h4⟩ := hall i l h
    exact ⟨by omega, by omega, (fun e => by rw [h1] at e; cases e), h4⟩
  · intro _ i l h
    obtain ⟨h1, _, _, _⟩ := hall i l h
    exact ⟨fun e => absurd h1 e, fun e _ => absurd h1 e⟩

theorem pInv_step (a b : Int) (fails : List Bool) (c : Cfg PShared PLocal) (i : Nat)
    (hc : PInv a b fails c) : PInv a b fails (stepAt (pProg .swap) c i) := by
  apply inv_stepAt_of_local (pProg .swap) (PInv a b fails) c i hc
  intro l hl
  obtain ⟨hcs, hcr, hps, hpr, hth, hnf⟩ := hc
  have hme := hth i l hl
  have hi : i < c.ths.length := lt_of_getElem? _ _ _ hl
  obtain ⟨sh, ths⟩ := c
  obtain ⟨pendS, pendR, repS, repR, calls⟩ := sh
  obtain ⟨pc, s, r, fail⟩ := l
  simp only at hl hi hcs hcr hps hpr hth hnf hme
  obtain ⟨hns, hnr, hrb, hfl⟩ := hme
  simp only at hns hnr hrb hfl
  -- all reporters succeed in the new configuration ⇒ in the old one (fail flags never change)
  have others : ∀ (l' : PLocal) (sh' : PShared), l'.fail = fail → 0 ≤ l'.s → 0 ≤ l'.r →
      (l'.pc = PPc.rollback → l'.fail = true) →
      ∀ (j : Nat) (x : PLocal), (ths.set i l')[j]? = some x → PThreadOk fails sh' j x := by
    intro l' sh' hf h1 h2 h3 j x hj
    cases getElem?_set_cases _ _ _ _ _ hj with
    | inl h =>
      obtain ⟨rfl, rfl⟩ := h
      exact ⟨h1, h2, h3, by rw [hf]; exact hfl⟩
    | inr h =>
      have hx := hth j x h.2
      exact ⟨hx.ns, hx.nr, hx.rb, hx.fl⟩
  cases pc with
  | claimS =>
    simp only [pProg, pStep]
    refine ⟨?_, ?_, Int.le_refl 0, hpr, others _ _ rfl hps hnr (by simp), ?_⟩
    · rw [sum_map_set_int inS ths i _ _ hl]
      simp only [inS]; omega
    · rw [sum_map_set_int inR ths i _ _ hl]
      simp only [inR]; omega
    · intro hf j x hj
      cases getElem?_set_cases _ _ _ _ _ hj with
      | inl h =>
        obtain ⟨rfl, rfl⟩ := h
        refine ⟨fun _ => rfl, fun _ e => absurd rfl e⟩
      | inr h => exact ⟨fun _ => rfl, (hnf hf j x h.2).2⟩
  | claimR =>
    simp only [pProg, pStep]
    have hdone : ¬ (s > 0 ∨ pendR > 0) → s = 0 ∧ pendR = 0 := by intro h; omega
    refine ⟨?_, ?_, hps, Int.le_refl 0, others _ _ rfl hns hpr (by simp; intro h; split at h <;> cases h), ?_⟩
    · rw [sum_map_set_int inS ths i _ _ hl]
      by_cases hp : s > 0 ∨ pendR > 0
      · simp only [inS, hp, if_true]; omega
      · have := hdone hp
        simp only [inS, hp, if_false]; omega
    · rw [sum_map_set_int inR ths i _ _ hl]
      by_cases hp : s > 0 ∨ pendR > 0
      · simp only [inR, hp, if_true]; omega
      · have := hdone hp
        simp only [inR, hp, if_false]; omega
    · intro hf j x hj
      have hold := hnf hf i _ hl
      cases getElem?_set_cases _ _ _ _ _ hj with
      | inl h =>
        obtain ⟨rfl, rfl⟩ := h
        exact ⟨fun _ => hold.1 (by simp), fun _ _ => rfl⟩
      | inr h => exact ⟨(hnf hf j x h.2).1, fun _ _ => rfl⟩
  | track =>
    simp only [pProg, pStep]
    cases fail with
    | true =>
      simp only [if_true]
      refine ⟨?_, ?_, hps, hpr, others _ _ rfl hns hnr (fun _ => rfl), ?_⟩
      · rw [sum_map_set_int inS ths i _ _ hl]; simp only [inS]; omega
      · rw [sum_map_set_int inR ths i _ _ hl]; simp only [inR]; omega
      · intro hf
        -- impossible: this reporter fails
        have : true ∈ fails := List.mem_of_getElem? hfl
        have := List.any_eq_false.mp hf true this
        simp at this
    | false =>
      simp only [Bool.false_eq_true, if_false]
      refine ⟨?_, ?_, hps, hpr, others _ _ rfl hns hnr (by simp), ?_⟩
      · rw [sum_map_set_int inS ths i _ _ hl]; simp only [inS]; omega
      · rw [sum_map_set_int inR ths i _ _ hl]; simp only [inR]; omega
      · intro hf j x hj
        have hold := hnf hf i _ hl
        cases getElem?_set_cases _ _ _ _ _ hj with
        | inl h =>
          obtain ⟨rfl, rfl⟩ := h
          exact ⟨fun _ => hold.1 (by simp), fun _ _ => hold.2 (by simp) (by simp)⟩
        | inr h => exact hnf hf j x h.2
  | rollback =>
    have hfail : fail = true := hrb rfl
    subst hfail
    simp only [pProg, pStep]
    refine ⟨?_, ?_, (by show 0 ≤ pendS + s; omega), (by show 0 ≤ pendR + r; omega), others _ _ rfl hns hnr (by simp), ?_⟩
    · rw [sum_map_set_int inS ths i _ _ hl]; simp only [inS]; omega
    · rw [sum_map_set_int inR ths i _ _ hl]; simp only [inR]; omega
    · intro hf
      have : true ∈ fails := List.mem_of_getElem? hfl
      have := List.any_eq_false.mp hf true this
      simp at this
  | done =>
    simp only [pProg, pStep]
    rw [set_self_of_getElem? ths i _ hl]
    exact ⟨hcs, hcr, hps, hpr, hth, hnf⟩

theorem p_dec (c : Cfg PShared PLocal) (i : Nat) :
    stepAt (pProg .swap) c i = c ∨ pMu (stepAt (pProg .swap) c i) < pMu c := by
  cases hl : c.ths[i]? with
  | none => left; exact stepAt_none _ _ _ hl
  | some l =>
    obtain ⟨pc, s, r, fail⟩ := l
    cases pc with
    | done => left; exact stepAt_eq_of_same _ c i _ hl rfl
    | claimS => right; exact mu_lt_of_weight _ pWeight c i _ hl (by simp [pProg, pStep, pWeight])
    | rollback => right; exact mu_lt_of_weight _ pWeight c i _ hl (by simp [pProg, pStep, pWeight])
    | claimR =>
      right
      apply mu_lt_of_weight _ pWeight c i _ hl
      by_cases hp : s > 0 ∨ c.sh.pendR > 0 <;> simp [pProg, pStep, pWeight, hp]
    | track =>
      right
      apply mu_lt_of_weight _ pWeight c i _ hl
      simp only [pProg, pStep]; split <;> simp [pWeight]

/-- **Every interleaving** of any number of `reportStats` callers (periodic ticks, the final report
on Close; each with a succeeding or failing `TrackTraffic`): when all have returned, reported plus
pending equals what the tunnels accumulated, nothing is negative, and if no call failed and there
was a report, nothing is pending. -/
theorem holdsP_final (a b : Nat) (fails : List Bool) (s : Schedule) :
    holdsP a b fails (pObs (pFinal .swap a b fails s)) = true := by
  have hstep := pInv_step (a : Int) (b : Int) fails
  have hinv : PInv a b fails (pFinal .swap a b fails s) := inv_run _ _ hstep _ _ (pInv_init a b fails)
  have hq : Quiescent (pProg .swap) (pFinal .swap a b fails s) := by
    unfold pFinal
    rw [run_append]
    apply rounds_quiescent _ (fun _ => True) pMu fails.length (fun _ _ _ => trivial) (fun c i _ => p_dec c i)
    · trivial
    · rw [run_length]; simp [pInit]
    · refine Nat.le_trans (mu_run_le _ (fun _ => True) pMu (fun _ _ _ => trivial) (fun c i _ => p_dec c i) _ _ trivial) ?_
      simp only [pMu, pInit, List.map_map]
      clear hinv hstep
      induction fails with
      | nil => simp
      | cons f fs ih => simp only [List.map_cons, List.sum_cons, List.length_cons, Function.comp, pWeight] at ih ⊢; omega
  have hlen : (pFinal .swap a b fails s).ths.length = fails.length := by
    unfold pFinal; rw [run_length]; simp [pInit]
  have hdone : ∀ (i : Nat) (l : PLocal), (pFinal .swap a b fails s).ths[i]? = some l → l.pc = PPc.done := by
    intro i l hl
    obtain ⟨pc, s', r', fail⟩ := l
    cases pc with
    | done => rfl
    | claimS => exact absurd (hq i) (stepAt_ne_of_local _ _ i _ hl (by simp [pProg, pStep]))
    | rollback => exact absurd (hq i) (stepAt_ne_of_local _ _ i _ hl (by simp [pProg, pStep]))
    | claimR =>
      refine absurd (hq i) (stepAt_ne_of_local _ _ i _ hl ?_)
      simp only [pProg, pStep]; split <;> simp
    | track =>
      refine absurd (hq i) (stepAt_ne_of_local _ _ i _ hl ?_)
      simp only [pProg, pStep]; split <;> simp
  generalize pFinal .swap a b fails s = c at hinv hdone hlen
  have z1 : (c.ths.map inS).sum = 0 := by
    apply sum_zero_of_all
    intro x hx
    obtain ⟨i, hi⟩ := List.mem_iff_getElem?.mp hx
    simp [inS, hdone i x hi]
  have z2 : (c.ths.map inR).sum = 0 := by
    apply sum_zero_of_all
    intro x hx
    obtain ⟨i, hi⟩ := List.mem_iff_getElem?.mp hx
    simp [inR, hdone i x hi]
  have h1 := hinv.cs
  have h2 := hinv.cr
  rw [z1] at h1
  rw [z2] at h2
  have hp1 := hinv.ps
  have hp2 := hinv.pr
  have hlast : fails.isEmpty = true ∨ fails.any id = true ∨ (c.sh.pendS = 0 ∧ c.sh.pendR = 0) := by
    cases fails with
    | nil => left; rfl
    | cons f fs =>
      right
      cases hany : (f :: fs).any id with
      | true => left; rfl
      | false =>
        right
        have h0 : c.ths[0]? = some (c.ths[0]'(by rw [hlen]; simp)) := List.getElem?_eq_getElem (by rw [hlen]; simp)
        have := hinv.nf hany 0 _ h0
        have hd := hdone 0 _ h0
        exact ⟨this.1 (by rw [hd]; simp), this.2 (by rw [hd]; simp) (by rw [hd]; simp)⟩
  simp only [holdsP, pObs, Bool.and_eq_true, beq_iff_eq, decide_eq_true_eq, Bool.or_eq_true]
  refine ⟨⟨⟨⟨⟨by omega, by omega⟩, decide_eq_true hp1⟩, decide_eq_true hp2⟩, ?_⟩, trivial⟩
  rcases hlast with h | h | h
  · exact Or.inl (Or.inl h)
  · exact Or.inl (Or.inr h)
  · exact Or.inr ⟨h.1, h.2⟩

/-! ## ResourceManager.DisposeAll -/

theorem sum_map_set_nat {π} (f : π → Nat) :
    ∀ (ths : List π) (i : Nat) (l l' : π), ths[i]? = some l →
      ((ths.set i l').map f).sum + f l = (ths.map f).sum + f l' := by
  intro ths
  induction ths with
  | nil => intro i l l' h; simp at h
  | cons a t ih =>
    intro i l l' h
    cases i with
    | zero =>
      simp only [List.getElem?_cons_zero, Option.some.injEq] at h
      subst h
      simp only [List.set_cons_zero, List.map_cons, List.sum_cons]
      omega
    | succ i =>
      simp only [List.getElem?_cons_succ] at h
      simp only [List.set_cons_succ, List.map_cons, List.sum_cons]
      have := ih i l l' h
      omega

def mTaken (l : MLocal) : Nat := match l.pc with | .d2 => l.taken | _ => 0
def mBusy (l : MLocal) : Nat := match l.pc with | .d2 => 1 | .d3 => 1 | _ => 0

/-- registered = disposed + still in the map + taken by a DisposeAll in progress; `disposing` is
set exactly while some DisposeAll is between its two critical sections. -/
structure MInv (c : Cfg MShared MLocal) : Prop where
  cons : c.sh.disposed + c.sh.pending + (c.ths.map mTaken).sum = c.sh.registered
  busy : (c.ths.map mBusy).sum = (if c.sh.disposing then 1 else 0)

theorem mInv_init (pre : Nat) (pcs : List MPc) (h : ∀ p ∈ pcs, p = MPc.reg ∨ p = MPc.d1) : MInv (mInit pre pcs) := by
  have z : ∀ (f : MLocal → Nat), (∀ p, (p = MPc.reg ∨ p = MPc.d1) → f ⟨p, 0⟩ = 0) →
      ((pcs.map fun p => (⟨p, 0⟩ : MLocal)).map f).sum = 0 := by
    intro f hf
    have : ∀ (l : List MPc), (∀ p ∈ l, p = MPc.reg ∨ p = MPc.d1) → ((l.map fun p => (⟨p, 0⟩ : MLocal)).map f).sum = 0 := by
      intro l
      induction l with
      | nil => intro _; rfl
      | cons a t ih =>
        intro hl
        simp only [List.map_cons, List.sum_cons]
        rw [hf a (hl a (List.mem_cons_self ..)), ih (fun p hp => hl p (List.mem_cons_of_mem _ hp))]
    exact this pcs h
  refine ⟨?_, ?_⟩
  · simp only [mInit]
    rw [z mTaken (by intro p hp; rcases hp with rfl | rfl <;> rfl)]
    omega
  · simp only [mInit]
    rw [z mBusy (by intro p hp; rcases hp with rfl | rfl <;> rfl)]
    rfl

theorem mInv_step (c : Cfg MShared MLocal) (i : Nat) (hc : MInv c) : MInv (stepAt mProg c i) := by
  apply inv_stepAt_of_local mProg MInv c i hc
  intro l hl
  obtain ⟨h1, h2⟩ := hc
  obtain ⟨sh, ths⟩ := c
  obtain ⟨pending, registered, disposed, disposing⟩ := sh
  obtain ⟨pc, taken⟩ := l
  simp only at hl h1 h2
  have e1 := fun l' => sum_map_set_nat mTaken ths i _ l' hl
  have e2 := fun l' => sum_map_set_nat mBusy ths i _ l' hl
  cases pc with
  | reg =>
    simp only [mProg, mStep]
    have a := e1 ⟨MPc.done, taken⟩
    have b := e2 ⟨MPc.done, taken⟩
    simp only [mTaken, mBusy] at a b
    exact ⟨by simp only; omega, by simp only; omega⟩
  | d1 =>
    cases disposing with
    | true =>
      simp only [mProg, mStep, Bool.true_or, if_true]
      have a := e1 ⟨MPc.done, taken⟩
      have b := e2 ⟨MPc.done, taken⟩
      simp only [mTaken, mBusy] at a b
      simp only [if_true] at h2
      exact ⟨by simp only; omega, by simp only [if_true]; omega⟩
    | false =>
      simp only [Bool.false_eq_true, if_false] at h2
      by_cases hp : pending = 0
      · subst hp
        simp only [mProg, mStep, Bool.false_or, beq_self_eq_true, if_true]
        have a := e1 ⟨MPc.done, taken⟩
        have b := e2 ⟨MPc.done, taken⟩
        simp only [mTaken, mBusy] at a b
        exact ⟨by simp only; omega, by simp only [Bool.false_eq_true, if_false]; omega⟩
      · have hb : (pending == 0) = false := by simp [hp]
        simp only [mProg, mStep, Bool.false_or, hb, Bool.false_eq_true, if_false]
        have a := e1 ⟨MPc.d2, pending⟩
        have b := e2 ⟨MPc.d2, pending⟩
        simp only [mTaken, mBusy] at a b
        exact ⟨by simp only; omega, by simp only [if_true]; omega⟩
  | d2 =>
    simp only [mProg, mStep]
    have a := e1 ⟨MPc.d3, 0⟩
    have b := e2 ⟨MPc.d3, 0⟩
    simp only [mTaken, mBusy] at a b
    exact ⟨by simp only; omega, by simp only; omega⟩
  | d3 =>
    simp only [mProg, mStep]
    have a := e1 ⟨MPc.done, taken⟩
    have b := e2 ⟨MPc.done, taken⟩
    simp only [mTaken, mBusy] at a b
    have hd : disposing = true := by
      cases disposing with
      | true => rfl
      | false => simp only [Bool.false_eq_true, if_false] at h2; omega
    subst hd
    simp only [if_true] at h2
    exact ⟨by simp only; omega, by simp only [Bool.false_eq_true, if_false]; omega⟩
  | done =>
    simp only [mProg, mStep]
    rw [set_self_of_getElem? ths i _ hl]
    exact ⟨h1, h2⟩

theorem m_dec (c : Cfg MShared MLocal) (i : Nat) :
    stepAt mProg c i = c ∨ mMu (stepAt mProg c i) < mMu c := by
  cases hl : c.ths[i]? with
  | none => left; exact stepAt_none _ _ _ hl
  | some l =>
    obtain ⟨pc, taken⟩ := l
    cases pc with
    | done => left; exact stepAt_eq_of_same _ c i _ hl rfl
    | reg => right; exact mu_lt_of_weight _ mWeight c i _ hl (by simp [mProg, mStep, mWeight])
    | d2 => right; exact mu_lt_of_weight _ mWeight c i _ hl (by simp [mProg, mStep, mWeight])
    | d3 => right; exact mu_lt_of_weight _ mWeight c i _ hl (by simp [mProg, mStep, mWeight])
    | d1 =>
      right
      apply mu_lt_of_weight _ mWeight c i _ hl
      simp only [mProg, mStep]; split <;> simp [mWeight]

/-- **Any mix of `Register` and `DisposeAll` calls, every interleaving**, followed by the last
`DisposeAll`: every resource ever registered was disposed, exactly once in total, and the map is
empty. -/
theorem holdsM2_final (pre : Nat) (pcs : List MPc) (h : ∀ p ∈ pcs, p = MPc.reg ∨ p = MPc.d1) (s : Schedule) :
    holdsM2 (rmObs (mFinal pre pcs s)) = true := by
  let c := run mProg (s ++ rounds pcs.length (3 * pcs.length)) (mInit pre pcs)
  have hinv : MInv c := inv_run _ _ mInv_step _ _ (mInv_init pre pcs h)
  have hq : Quiescent mProg c := by
    show Quiescent _ (run _ (s ++ rounds pcs.length (3 * pcs.length)) _)
    rw [run_append]
    apply rounds_quiescent _ (fun _ => True) mMu pcs.length (fun _ _ _ => trivial) (fun c i _ => m_dec c i)
    · trivial
    · rw [run_length]; simp [mInit]
    · refine Nat.le_trans (mu_run_le _ (fun _ => True) mMu (fun _ _ _ => trivial) (fun c i _ => m_dec c i) _ _ trivial) ?_
      simp only [mMu, mInit, List.map_map]
      clear hinv
      induction pcs with
      | nil => simp
      | cons p ps ih =>
        have := ih (fun q hq => h q (List.mem_cons_of_mem _ hq))
        simp only [List.map_cons, List.sum_cons, List.length_cons, Function.comp] at this ⊢
        have hw : mWeight ⟨p, 0⟩ ≤ 3 := by cases p <;> simp [mWeight]
        omega
  have hdone : ∀ (i : Nat) (l : MLocal), c.ths[i]? = some l → l.pc = MPc.done := by
    intro i l hl
    obtain ⟨pc, taken⟩ := l
    cases pc with
    | done => rfl
    | reg => exact absurd (hq i) (stepAt_ne_of_local _ _ i _ hl (by simp [mProg, mStep]))
    | d2 => exact absurd (hq i) (stepAt_ne_of_local _ _ i _ hl (by simp [mProg, mStep]))
    | d3 => exact absurd (hq i) (stepAt_ne_of_local _ _ i _ hl (by simp [mProg, mStep]))
    | d1 =>
      refine absurd (hq i) (stepAt_ne_of_local _ _ i _ hl ?_)
      simp only [mProg, mStep]; split <;> simp
  have z1 : (c.ths.map mTaken).sum = 0 := by
    have : ∀ x ∈ c.ths, mTaken x = 0 := by
      intro x hx
      obtain ⟨i, hi⟩ := List.mem_iff_getElem?.mp hx
      simp [mTaken, hdone i x hi]
    clear hinv hq hdone
    generalize c.ths = l at this
    induction l with
    | nil => rfl
    | cons a t ih => simp only [List.map_cons, List.sum_cons]; rw [this a (List.mem_cons_self ..), ih (fun x hx => this x (List.mem_cons_of_mem _ hx))]
  have z2 : (c.ths.map mBusy).sum = 0 := by
    have : ∀ x ∈ c.ths, mBusy x = 0 := by
      intro x hx
      obtain ⟨i, hi⟩ := List.mem_iff_getElem?.mp hx
      simp [mBusy, hdone i x hi]
    clear hinv hq hdone z1
    generalize c.ths = l at this
    induction l with
    | nil => rfl
    | cons a t ih => simp only [List.map_cons, List.sum_cons]; rw [this a (List.mem_cons_self ..), ih (fun x hx => this x (List.mem_cons_of_mem _ hx))]
  have h1 := hinv.cons
  have h2 := hinv.busy
  rw [z1] at h1
  rw [z2] at h2
  have hnd : c.sh.disposing = false := by
    cases hd : c.sh.disposing with
    | false => rfl
    | true => rw [hd] at h2; simp at h2
  show holdsM2 (rmObs (disposeAllSeq c.sh)) = true
  by_cases hp : c.sh.pending = 0
  · simp [disposeAllSeq, hnd, hp, holdsM2, rmObs]; omega
  · simp [disposeAllSeq, hnd, hp, holdsM2, rmObs]; omega

/-! ## ResourceManager.DisposeWithTimeout -/

/-- Which program points each of the four threads can be at, and what a finished thread has left
behind. -/
structure HInv (c : Cfg HShared HPc) : Prop where
  len : c.ths.length = 4
  t0 : ∀ l, c.ths[0]? = some l → (l = HPc.unblock ∨ (l = HPc.done ∧ c.sh.released = true))
  t1 : ∀ l, c.ths[1]? = some l → (l = HPc.timer ∨ (l = HPc.done ∧ c.sh.deadline = true))
  t2 : ∀ l, c.ths[2]? = some l → (l = HPc.callWait ∨ l = HPc.done)
  t3 : ∀ l, c.ths[3]? = some l →
    ((l = HPc.wDispose ∧ c.sh.disposed = 0) ∨ (l = HPc.wSend ∧ c.sh.disposed = 1) ∨ (l = HPc.done ∧ c.sh.disposed = 1))

theorem hInv_init : HInv hInit := by
  refine ⟨rfl, ?_, ?_, ?_, ?_⟩ <;> intro l h <;> simp [hInit] at h <;> subst h <;> simp [hInit]

theorem hInv_step (c : Cfg HShared HPc) (i : Nat) (hc : HInv c) : HInv (stepAt (hProg true) c i) := by
  apply inv_stepAt_of_local (hProg true) HInv c i hc
  intro l hl
  obtain ⟨hlen, h0, h1, h2, h3⟩ := hc
  obtain ⟨sh, ths⟩ := c
  simp only at hlen h0 h1 h2 h3 hl
  match ths, hlen with
  | [a, b, c', d], _ =>
    obtain ⟨released, deadline, disposed, offered, taken, timedOut⟩ := sh
    simp only [List.getElem?_cons_zero, List.getElem?_cons_succ, Option.some.injEq, forall_eq'] at h0 h1 h2 h3
    match i with
    | 0 =>
      simp only [List.getElem?_cons_zero, Option.some.injEq] at hl; subst hl
      rcases h0 with rfl | ⟨rfl, hr⟩
      · refine ⟨rfl, ?_, ?_, ?_, ?_⟩ <;> intro x hx <;> simp [hProg, hStep] at hx ⊢ <;> subst hx <;> simp_all
      · refine ⟨rfl, ?_, ?_, ?_, ?_⟩ <;> intro x hx <;> simp [hProg, hStep] at hx ⊢ <;> subst hx <;> simp_all
    | 1 =>
      simp only [List.getElem?_cons_succ, List.getElem?_cons_zero, Option.some.injEq] at hl; subst hl
      rcases h1 with rfl | ⟨rfl, hr⟩
      · refine ⟨rfl, ?_, ?_, ?_, ?_⟩ <;> intro x hx <;> simp [hProg, hStep] at hx ⊢ <;> subst hx <;> simp_all
      · refine ⟨rfl, ?_, ?_, ?_, ?_⟩ <;> intro x hx <;> simp [hProg, hStep] at hx ⊢ <;> subst hx <;> simp_all
    | 2 =>
      simp only [List.getElem?_cons_succ, List.getElem?_cons_zero, Option.some.injEq] at hl; subst hl
      rcases h2 with rfl | rfl
      · simp only [hProg, hStep]
        split
        · refine ⟨rfl, ?_, ?_, ?_, ?_⟩ <;> intro x hx <;> simp at hx ⊢ <;> subst hx <;> simp_all
        · split
          · refine ⟨rfl, ?_, ?_, ?_, ?_⟩ <;> intro x hx <;> simp at hx ⊢ <;> subst hx <;> simp_all
          · refine ⟨rfl, ?_, ?_, ?_, ?_⟩ <;> intro x hx <;> simp at hx ⊢ <;> subst hx <;> simp_all
      · refine ⟨rfl, ?_, ?_, ?_, ?_⟩ <;> intro x hx <;> simp [hProg, hStep] at hx ⊢ <;> subst hx <;> simp_all
    | 3 =>
      simp only [List.getElem?_cons_succ, List.getElem?_cons_zero, Option.some.injEq] at hl; subst hl
      rcases h3 with ⟨rfl, hd⟩ | ⟨rfl, hd⟩ | ⟨rfl, hd⟩
      · simp only [hProg, hStep]
        split
        · refine ⟨rfl, ?_, ?_, ?_, ?_⟩ <;> intro x hx <;> simp at hx ⊢ <;> subst hx <;> simp_all
        · refine ⟨rfl, ?_, ?_, ?_, ?_⟩ <;> intro x hx <;> simp at hx ⊢ <;> subst hx <;> simp_all
      · refine ⟨rfl, ?_, ?_, ?_, ?_⟩ <;> intro x hx <;> simp [hProg, hStep] at hx ⊢ <;> subst hx <;> simp_all
      · refine ⟨rfl, ?_, ?_, ?_, ?_⟩ <;> intro x hx <;> simp [hProg, hStep] at hx ⊢ <;> subst hx <;> simp_all
    | n + 4 => simp at hl

theorem h_dec (c : Cfg HShared HPc) (i : Nat) :
    stepAt (hProg true) c i = c ∨ hMu (stepAt (hProg true) c i) < hMu c := by
  cases hl : c.ths[i]? with
  | none => left; exact stepAt_none _ _ _ hl
  | some l =>
    cases l with
    | done => left; exact stepAt_eq_of_same _ c i _ hl rfl
    | unblock => right; exact mu_lt_of_weight _ hWeight c i _ hl (by simp [hProg, hStep, hWeight])
    | timer => right; exact mu_lt_of_weight _ hWeight c i _ hl (by simp [hProg, hStep, hWeight])
    | wSend => right; exact mu_lt_of_weight _ hWeight c i _ hl (by simp [hProg, hStep, hWeight])
    | callWait =>
      by_cases h1 : (c.sh.offered && !c.sh.taken) = true
      · right; exact mu_lt_of_weight _ hWeight c i _ hl (by simp [hProg, hStep, hWeight, h1])
      · by_cases h2 : c.sh.deadline = true
        · right; exact mu_lt_of_weight _ hWeight c i _ hl (by simp [hProg, hStep, hWeight, h1, h2])
        · left; exact stepAt_eq_of_same _ c i _ hl (by simp [hProg, hStep, h1, h2])
    | wDispose =>
      by_cases h1 : c.sh.released = true
      · right; exact mu_lt_of_weight _ hWeight c i _ hl (by simp [hProg, hStep, hWeight, h1])
      · left; exact stepAt_eq_of_same _ c i _ hl (by simp [hProg, hStep, h1])
    | wSending =>
      by_cases h1 : c.sh.taken = true
      · right; exact mu_lt_of_weight _ hWeight c i _ hl (by simp [hProg, hStep, hWeight, h1])
      · left; exact stepAt_eq_of_same _ c i _ hl (by simp [hProg, hStep, h1])

/-- **DisposeWithTimeout with the buffered result channel, every schedule** (deadline before or
after the disposal, the slow resource unblocked at any time): every thread ends — in particular
the helper goroutine — and the resource was disposed exactly once. -/
theorem holdsH_final (s : Schedule) : holdsH (hObs (hFinal true s)) = true := by
  have hinv : HInv (hFinal true s) := inv_run _ _ hInv_step _ _ hInv_init
  have hq : Quiescent (hProg true) (hFinal true s) := by
    unfold hFinal
    rw [run_append]
    apply rounds_quiescent _ (fun _ => True) hMu 4 (fun _ _ _ => trivial) (fun c i _ => h_dec c i)
    · trivial
    · rw [run_length]; simp [hInit]
    · refine Nat.le_trans (mu_run_le _ (fun _ => True) hMu (fun _ _ _ => trivial) (fun c i _ => h_dec c i) _ _ trivial) ?_
      simp [hMu, hInit, hWeight]
  generalize hFinal true s = c at hinv hq
  obtain ⟨hlen, h0, h1, h2, h3⟩ := hinv
  obtain ⟨sh, ths⟩ := c
  simp only at hlen h0 h1 h2 h3
  match ths, hlen with
  | [a, b, c', d], _ =>
    simp only [List.getElem?_cons_zero, List.getElem?_cons_succ, Option.some.injEq, forall_eq'] at h0 h1 h2 h3
    -- thread 0 is done (it can always move), hence released; so the worker is past its dispose
    have ha : a = HPc.done ∧ sh.released = true := by
      rcases h0 with rfl | h
      · exact absurd (hq 0) (stepAt_ne_of_local _ _ 0 _ rfl (by simp [hProg, hStep]))
      · exact h
    have hd : d = HPc.done ∧ sh.disposed = 1 := by
      rcases h3 with ⟨rfl, _⟩ | ⟨rfl, _⟩ | h
      · exact absurd (hq 3) (stepAt_ne_of_local _ _ 3 _ rfl (by simp [hProg, hStep, ha.2]))
      · exact absurd (hq 3) (stepAt_ne_of_local _ _ 3 _ rfl (by simp [hProg, hStep]))
      · exact h
    simp [holdsH, hObs, hd.1, hd.2]

end Tunnox.C16
