import TunnoxModel.Proofs.C19Run
/-!
  C19 — what a routed lookup can name, in every reachable configuration (any interleaving, both variants).
-/
namespace Tunnox.C19
open Gen

theorem pmCheck_route {now : Nat} {m : PM} {a : String} {b : Nat} {c : String} {d : Nat}
    (h : pmCheck now m = .route a b c d) :
    pmRoutable now m = true ∧ a = m.ID ∧ b = m.client ∧ c = m.thost ∧ d = m.tport := by
  unfold pmCheck at h
  split at h
  · cases h
  · split at h
    · cases h
    · split at h
      · cases h
      · rename_i h1 h2 h3
        simp only [routeOf, Res.route.injEq] at h
        refine ⟨?_, h.1.symm, h.2.1.symm, h.2.2.1.symm, h.2.2.2.symm⟩
        unfold pmRoutable
        simp only [bne_iff_ne, ne_eq, Decidable.not_not] at h1
        simp only [Bool.not_eq_true] at h2
        simp [h1, h2, h3]

/-- The mapping of the repository a routed answer may name: the one that claimed the looked-up name. -/
def RepoSource (cf : Config) (upds : List (Nat × String × Nat)) (s : Store) (host pid : String) (cl : Nat)
    (th : String) (tp : Nat) : Prop :=
  ∃ n o r, s.born n = some o ∧ s.data n = some r ∧ repos.HTTPDomainMapping.IsActive cf.now r = true ∧
    pid = mappingID n ∧ cl = o.client ∧ o.dom = extractDomain host ∧ th = r.TargetHost ∧ tp = r.TargetPort ∧
    ((th = o.thost ∧ tp = o.tport) ∨ (n, th, tp) ∈ upds)

/-- … or a routable mapping of the old registry / of cloud control registered under the looked-up name. -/
def ForeignSource (cf : Config) (exts : List PM) (host pid : String) (cl : Nat) (th : String) (tp : Nat) : Prop :=
  ∃ m, m ∈ exts ∧ pmRoutable cf.now m = true ∧ m.fullDomain = extractDomain host ∧
    pid = m.ID ∧ cl = m.client ∧ th = m.thost ∧ tp = m.tport

theorem registryStage_route {cf : Config} {ops exts c} (h : Inv cf ops exts c) {host pid cl th tp}
    (hr : (registryStage cf c.st host).2.2 = some (.route pid cl th tp)) : ForeignSource cf exts host pid cl th tp := by
  unfold registryStage at hr
  cases hreg : c.st.registry (extractDomain host) with
  | none => rw [hreg] at hr; cases hr
  | some m =>
    rw [hreg] at hr
    simp only [Option.some.injEq] at hr
    obtain ⟨h1, h2, h3, h4, h5⟩ := pmCheck_route hr
    exact ⟨m, (h.regOK _ _ hreg).1, h1, (h.regOK _ _ hreg).2, h2, h3, h4, h5⟩

/-- **Routing soundness, every reachable state.**  Whatever the interleaving, a lookup that routes names
either the active record of the mapping that claimed exactly the name the Host denotes (its claimant's client;
its created target or one written by an update), or a routable registry / cloud-control mapping for that name. -/
theorem Inv.lookup_route {cf : Config} {ops exts c} (h : Inv cf ops exts c) {t host rest pid cl th tp}
    (hto : (c.th t).todo = .look host :: rest)
    (hr : (stepLookup cf c.st host (c.th t).pc).2.2 = some (.route pid cl th tp)) :
    RepoSource cf (updTargets ops) c.st host pid cl th tp ∨ ForeignSource cf exts host pid cl th tp := by
  have hl := h.linv hto
  cases hpc : (c.th t).pc <;> rw [hpc] at hl hr <;> simp only [LInv] at hl <;> try exact hl.elim
  · simp [stepLookup] at hr
  · -- lIdx
    simp only [stepLookup] at hr
    cases hix : c.st.index (extractDomain host) with
    | none => rw [hix] at hr; exact Or.inr (registryStage_route h hr)
    | some k => rw [hix] at hr; cases hr
  · -- lData n
    rename_i n
    simp only [stepLookup] at hr
    cases hd : c.st.data n with
    | none => rw [hd] at hr; exact Or.inr (registryStage_route h hr)
    | some r =>
      rw [hd] at hr
      simp only at hr
      by_cases ha : repos.HTTPDomainMapping.IsActive cf.now r = true
      · simp only [ha, Bool.not_true, Bool.false_eq_true, if_false, Option.some.injEq, routeOf, toPM,
          Res.route.injEq] at hr
        obtain ⟨o, ho, hod⟩ := hl
        obtain ⟨o', ho', h1, h2, h3, h4⟩ := h.dataOK n r hd
        rw [ho] at ho'; injection ho' with e; subst e
        refine Or.inl ⟨n, o, r, ho, hd, ha, ?_, ?_, hod, hr.2.2.1.symm, hr.2.2.2.symm, ?_⟩
        · rw [← hr.1]; exact h3
        · rw [← hr.2.1]; exact h2
        · rw [← hr.2.2.1, ← hr.2.2.2]; exact h4.1
      · simp only [ha, Bool.not_false, if_true] at hr
        split at hr <;> cases hr
  · -- lCloud
    simp only [stepLookup] at hr
    cases hf : cloudFind cf (extractDomain host) with
    | none => rw [hf] at hr; cases hr
    | some m =>
      rw [hf] at hr
      simp only at hr
      have hmem : m ∈ exts := h.cloudSub m (List.mem_of_find?_eq_some hf)
      have hdom : m.fullDomain = extractDomain host := by
        have := List.find?_some hf
        simp only [Bool.and_eq_true, beq_iff_eq] at this
        exact this.2
      cases hp : pmCheck cf.now m with
      | route a b c' d =>
        rw [hp] at hr
        simp only [Option.some.injEq, Res.route.injEq] at hr
        obtain ⟨h1, h2, h3, h4, h5⟩ := pmCheck_route hp
        exact Or.inr ⟨m, hmem, h1, hdom, by rw [← hr.1]; exact h2, by rw [← hr.2.1]; exact h3,
          by rw [← hr.2.2.1]; exact h4, by rw [← hr.2.2.2]; exact h5⟩
      | okId k => rw [hp] at hr; cases hr
      | ok => rw [hp] at hr; cases hr
      | err code => rw [hp] at hr; cases hr

end Tunnox.C19
namespace Tunnox.C19
open Gen

theorem stepOp_index (cf : Config) (s : Store) (o : Op) (pc : PC) :
    (stepOp cf s o pc).1.index = s.index ∨
      (∃ n d, pc = .cSetNX n ∧ (stepOp cf s o pc).1.index = upd s.index d (some n)) ∨
      (∃ d, (stepOp cf s o pc).1.index = upd s.index d none) := by
  cases o <;> cases pc <;>
    simp only [stepOp, stepCreate, stepDelete, stepUpdate, stepLookup, registryStage] <;>
    (repeat' split) <;>
    first
      | exact Or.inl rfl
      | exact Or.inl trivial
      | exact Or.inr (Or.inl ⟨_, _, rfl, rfl⟩)
      | exact Or.inr (Or.inr ⟨_, rfl⟩)

/-- **Never re-indexed.**  Once a mapping number that has been born is no longer indexed under any name, no step
of any thread indexes it again (numbers are never reused, only the claiming create writes the index). -/
theorem Inv.unindexed_step {cf ops exts c} (h : Inv cf ops exts c) (t n : Nat) (hb : ∃ o, c.st.born n = some o)
    (hu : Unindexed c.st n) : Unindexed (stepThread cf c t).1.st n := by
  cases hto : (c.th t).todo with
  | nil => rw [stepThread_nil cf c t hto]; exact hu
  | cons op rest =>
    rw [stepThread_st cf c t op rest hto]
    rcases stepOp_index cf c.st op (c.th t).pc with e | ⟨k, d, hpc, e⟩ | ⟨d, e⟩
    · unfold Unindexed; rw [e]; exact hu
    · unfold Unindexed; rw [e]
      intro d' hd'
      have hl := h.linv hto
      rw [hpc] at hl
      by_cases e' : d' = d
      · subst e'
        simp only [upd_same, Option.some.injEq] at hd'
        subst hd'
        obtain ⟨o, ho⟩ := hb
        cases op <;> simp only [LInv] at hl
        rw [hl.2.2] at ho; cases ho
      · simp only [upd_other _ _ _ _ e'] at hd'; exact hu d' hd'
    · unfold Unindexed; rw [e]
      intro d' hd'
      by_cases e' : d' = d
      · subst e'; simp at hd'
      · simp only [upd_other _ _ _ _ e'] at hd'; exact hu d' hd'

/-- A delete that has passed the index step (about to remove the record, the list entries, or to release
its claim) has left its mapping unindexed. -/
theorem Inv.delete_unindexes {cf ops exts c} (h : Inv cf ops exts c) {t n cl rest}
    (hto : (c.th t).todo = .del n cl :: rest)
    (hpc : (∃ r, (c.th t).pc = .dData r) ∨ (∃ r, (c.th t).pc = .dRemC r) ∨ (∃ r, (c.th t).pc = .dRemG r) ∨
      (c.th t).pc = .dRelease) :
    Unindexed c.st n ∧ ∃ o, c.st.born n = some o := by
  have hl := h.linv hto
  rcases hpc with ⟨r, e⟩ | ⟨r, e⟩ | ⟨r, e⟩ | e <;> rw [e] at hl <;> simp only [LInv] at hl
  · exact ⟨hl.2.2, _, hl.1.2.2.choose_spec.1⟩
  · exact ⟨hl.2.2, _, hl.1.2.2.choose_spec.1⟩
  · exact ⟨hl.2.2, _, hl.1.2.2.choose_spec.1⟩
  · exact ⟨hl.2.2.2.1, hl.2.2.2.2⟩

end Tunnox.C19
