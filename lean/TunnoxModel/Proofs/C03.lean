import TunnoxModel.Spec.C03
/-!
# C03 — helper lemmas

Layered: `authenticate` / `HandleHandshake` (outcome `AOut`), `registryUpdate` / `respond`, `handleHandshake`
(`HSpec`), `stepCore` (`StepSpec`), then the invariant `Inv` and the simulation of the observer (`Spec.holdsStep`).
-/
namespace Tunnox.C03
open Gen

/-- T1b tie: the predicate translated from `ClientConfig.IsExpired` is the property's notion of "expired" -/
theorem isExpired_eq (now : Nat) (c : ClientConfigT) : models.ClientConfig.IsExpired now c = expiredAt now c := by
  cases h : c.ExpiresAt <;>
    simp [models.ClientConfig.IsExpired, expiredAt, h, PredPrelude.timeAfter, PredPrelude.TimeLike.toTime]

def pairOf : Option Ctl → Bool × Option Nat
  | none => (false, none)
  | some o => (o.auth, o.id)
def pend : Option Ctl → Option Nat
  | none => none
  | some o => o.pending

/-- the fields a handler call never touches -/
def SameFrame (s s' : Srv) : Prop :=
  s'.now = s.now ∧ s'.nConns = s.nConns ∧ s'.ipOf = s.ipOf ∧ s'.nIps = s.nIps ∧ s'.env = s.env ∧
  s'.reg = s.reg ∧ s'.closed = s.closed ∧ (∀ ip, s.banned ip = true → s'.banned ip = true)

theorem recordFailure_frame (s : Srv) (ip : Nat) :
    SameFrame s (recordFailure s ip) ∧ (recordFailure s ip).ctl = s.ctl ∧ (recordFailure s ip).nextNonce = s.nextNonce ∧
    (recordFailure s ip).nClients = s.nClients ∧ (recordFailure s ip).accepted = s.accepted := by
  unfold recordFailure SameFrame
  split
  · refine ⟨⟨rfl, rfl, rfl, rfl, rfl, rfl, rfl, ?_⟩, rfl, rfl, rfl, rfl⟩
    intro j hj; simp only [upd_apply]; split <;> simp_all
  · split
    · refine ⟨⟨rfl, rfl, rfl, rfl, rfl, rfl, rfl, ?_⟩, rfl, rfl, rfl, rfl⟩
      intro j hj; simp only [upd_apply]; split <;> simp_all
    · exact ⟨⟨rfl, rfl, rfl, rfl, rfl, rfl, rfl, fun _ h => h⟩, rfl, rfl, rfl, rfl⟩

/-- outcome of `authenticate` on connection `c` -/
inductive AOut (s : Srv) (c : Nat) (req : Req) (s' : Srv) : HRes → Prop
  | err : s'.nextNonce = s.nextNonce → s'.nClients = s.nClients → s'.accepted = s.accepted →
      (s'.ctl c = s.ctl c ∨ s'.ctl c = some { getCtl s c with pending := none }) → AOut s c req s' .err
  | chal : s'.nextNonce = s.nextNonce + 1 → s'.nClients = s.nClients → s'.accepted = s.accepted → req.first = false →
      s'.ctl c = some { getCtl s c with pending := some s.nextNonce } → AOut s c req s' (.challenge s.nextNonce)
  | issued : s'.nextNonce = s.nextNonce → s'.nClients = s.nClients + 1 → s'.accepted = s.accepted → req.first = true →
      s'.ctl c = some { getCtl s c with id := some s.nClients, auth := true } → AOut s c req s' (.issued s.nClients)
  | ok (x n : Nat) : s'.nextNonce = s.nextNonce → s'.nClients = s.nClients → s'.accepted = n :: s.accepted → req.first = false →
      req.k = .idx x → x < s.nClients → flagsOK s.now (s.env.cl x) = true → req.resp = .hmac (.client x) (some n) →
      (getCtl s c).pending = some n → s'.ctl c = some { auth := true, id := some x, pending := none } → AOut s c req s' .ok

theorem authenticate_spec (s : Srv) (c : Nat) (req : Req) :
    SameFrame s (authenticate s c req).1 ∧ (∀ c', c' ≠ c → (authenticate s c req).1.ctl c' = s.ctl c') ∧
    AOut s c req (authenticate s c req).1 (authenticate s c req).2 := by
  unfold authenticate
  split
  · -- first connection
    rename_i hf
    unfold handleFirstConnection
    split
    · obtain ⟨h1, h2, h3, h4, h5⟩ := recordFailure_frame s (s.ipOf c)
      exact ⟨h1, fun c' _ => by rw [h2], AOut.err h3 h4 h5 (Or.inl (by rw [h2]))⟩
    refine ⟨⟨rfl, rfl, rfl, rfl, rfl, rfl, rfl, fun _ h => h⟩, ?_, ?_⟩
    · intro c' hc; simp [setCtl, recordSuccess, upd_other _ _ _ _ hc]
    · exact AOut.issued rfl rfl rfl hf (by simp [setCtl, recordSuccess, getCtl])
  · rename_i hf
    have hf : req.first = false := by simpa using hf
    split
    · -- client not found
      obtain ⟨h1, h2, h3, h4, h5⟩ := recordFailure_frame s (s.ipOf c)
      exact ⟨h1, fun c' _ => by rw [h2], AOut.err h3 h4 h5 (Or.inl (by rw [h2]))⟩
    · rename_i kc hk
      split
      · exact ⟨⟨rfl, rfl, rfl, rfl, rfl, rfl, rfl, fun _ h => h⟩, fun _ _ => rfl, AOut.err rfl rfl rfl (Or.inl rfl)⟩
      · rename_i hexp
        split
        · -- phase 1
          unfold handleChallengePhase1
          split
          · exact ⟨⟨rfl, rfl, rfl, rfl, rfl, rfl, rfl, fun _ h => h⟩, fun _ _ => rfl, AOut.err rfl rfl rfl (Or.inl rfl)⟩
          · refine ⟨⟨rfl, rfl, rfl, rfl, rfl, rfl, rfl, fun _ h => h⟩, ?_, ?_⟩
            · intro c' hc; simp [setCtl, upd_other _ _ _ _ hc]
            · exact AOut.chal rfl rfl rfl hf (by simp [setCtl, getCtl])
        · -- phase 2
          unfold handleChallengePhase2
          split
          · obtain ⟨h1, h2, h3, h4, h5⟩ := recordFailure_frame s (s.ipOf c)
            exact ⟨h1, fun c' _ => by rw [h2], AOut.err h3 h4 h5 (Or.inl (by rw [h2]))⟩
          · rename_i n hn
            split
            · obtain ⟨h1, h2, h3, h4, h5⟩ := recordFailure_frame (setCtl s c { getCtl s c with pending := none }) (s.ipOf c)
              refine ⟨?_, ?_, ?_⟩
              · exact h1
              · intro c' hc; rw [h2]; simp [setCtl, upd_other _ _ _ _ hc]
              · refine AOut.err (by rw [h3]; rfl) (by rw [h4]; rfl) (by rw [h5]; rfl) (Or.inr ?_)
                rw [h2]; simp [setCtl]
            · rename_i hv
              -- verified
              have hv : verifyResponse kc.2 kc.1 n req.resp = true := by simpa using hv
              unfold verifyResponse at hv
              simp only [Bool.and_eq_true, beq_iff_eq] at hv
              unfold getClientConfig at hk
              split at hk
              · exact absurd hk (by simp)
              · rename_i k hkk
                split at hk
                · rename_i hlt
                  simp only [Option.some.injEq] at hk
                  subst hk
                  simp only [Bool.and_eq_true, decide_eq_true_eq, Bool.not_eq_true'] at hlt
                  refine ⟨⟨rfl, rfl, rfl, rfl, rfl, rfl, rfl, fun _ h => h⟩, ?_, ?_⟩
                  · intro c' hc; simp [setCtl, recordSuccess, upd_other _ _ _ _ hc]
                  · refine AOut.ok k n rfl rfl rfl hf hkk hlt.1 ?_ hv.2 hn (by simp [setCtl, recordSuccess])
                    simp only [flagsOK, Bool.and_eq_true, Bool.not_eq_true']
                    exact ⟨⟨by rw [← isExpired_eq]; simpa using hexp, hlt.2⟩, by simp only [beq_iff_eq]; exact hv.1⟩
                · exact absurd hk (by simp)

theorem SameFrame.trans {s t u : Srv} (h1 : SameFrame s t) (h2 : SameFrame t u) : SameFrame s u := by
  obtain ⟨a1, a2, a3, a4, a5, a6, a7, a8⟩ := h1
  obtain ⟨b1, b2, b3, b4, b5, b6, b7, b8⟩ := h2
  exact ⟨b1.trans a1, b2.trans a2, b3.trans a3, b4.trans a4, b5.trans a5, b6.trans a6, b7.trans a7,
    fun ip h => b8 ip (a8 ip h)⟩

theorem AOut.transfer {s t : Srv} {c : Nat} {req : Req} {s' : Srv} {r : HRes} (h : AOut t c req s' r)
    (h1 : t.nextNonce = s.nextNonce) (h2 : t.nClients = s.nClients) (h3 : t.accepted = s.accepted)
    (h4 : t.ctl = s.ctl) (h5 : t.now = s.now) (h6 : t.env = s.env) : AOut s c req s' r := by
  have hg : getCtl t c = getCtl s c := by simp [getCtl, h4]
  cases h with
  | err a b d e => exact AOut.err (a.trans h1) (b.trans h2) (d.trans h3) (by rw [← h4, ← hg]; exact e)
  | chal a b d e f =>
    rw [h1]
    exact AOut.chal (by rw [a, h1]) (b.trans h2) (d.trans h3) e (by rw [f, hg, h1])
  | issued a b d e f =>
    rw [h2]
    exact AOut.issued (a.trans h1) (by rw [b, h2]) (d.trans h3) e (by rw [f, hg, h2])
  | ok x n a b d e f g i j k l =>
    exact AOut.ok x n (a.trans h1) (b.trans h2) (by rw [d, h3]) e f (h2 ▸ g) (by rw [← h5, ← h6]; exact i) j (hg ▸ k) l

theorem HandleHandshake_spec (s : Srv) (c : Nat) (req : Req) :
    SameFrame s (HandleHandshake s c req).1 ∧ (∀ c', c' ≠ c → (HandleHandshake s c req).1.ctl c' = s.ctl c') ∧
    AOut s c req (HandleHandshake s c req).1 (HandleHandshake s c req).2 ∧
    ((HandleHandshake s c req).2 ≠ .err → s.env.blocked (s.ipOf c) = false ∧ s.banned (s.ipOf c) = false) := by
  have refl : SameFrame s s := ⟨rfl, rfl, rfl, rfl, rfl, rfl, rfl, fun _ h => h⟩
  have herr : AOut s c req s .err := AOut.err rfl rfl rfl (Or.inl rfl)
  unfold HandleHandshake
  split
  · exact ⟨refl, fun _ _ => rfl, herr, fun h => absurd rfl h⟩
  · rename_i hbl
    split
    · exact ⟨refl, fun _ _ => rfl, herr, fun h => absurd rfl h⟩
    · rename_i hban
      have hgate : s.env.blocked (s.ipOf c) = false ∧ s.banned (s.ipOf c) = false := by
        simp only [isAllowed, isBanned, Bool.not_not, Bool.not_eq_true] at hbl hban
        exact ⟨hbl, hban⟩
      split
      · split
        · -- rate limiter granted a token
          have hal : (allowIP s (s.ipOf c)).1 = { s with rlUsed := (allowIP s (s.ipOf c)).1.rlUsed } := by
            unfold allowIP; split <;> rfl
          obtain ⟨f1, f2, f3⟩ := authenticate_spec (allowIP s (s.ipOf c)).1 c req
          have hfr : SameFrame s (allowIP s (s.ipOf c)).1 := by
            rw [hal]; exact ⟨rfl, rfl, rfl, rfl, rfl, rfl, rfl, fun _ h => h⟩
          refine ⟨hfr.trans f1, ?_, ?_, fun _ => hgate⟩
          · intro c' hc; rw [f2 c' hc, hal]
          · exact f3.transfer (by rw [hal]) (by rw [hal]) (by rw [hal]) (by rw [hal]) (by rw [hal]) (by rw [hal])
        · exact ⟨refl, fun _ _ => rfl, herr, fun h => absurd rfl h⟩
      · obtain ⟨f1, f2, f3⟩ := authenticate_spec s c req
        exact ⟨f1, f2, f3, fun _ => hgate⟩

/-! ### registry -/

theorem removeConn_spec (s : Srv) (o : Nat) :
    (removeConn s o).now = s.now ∧ (removeConn s o).nConns = s.nConns ∧ (removeConn s o).ipOf = s.ipOf ∧
    (removeConn s o).nIps = s.nIps ∧ (removeConn s o).env = s.env ∧ (removeConn s o).banned = s.banned ∧
    (removeConn s o).nClients = s.nClients ∧ (removeConn s o).nextNonce = s.nextNonce ∧
    (removeConn s o).accepted = s.accepted ∧
    (∀ c', c' ≠ o → (removeConn s o).ctl c' = s.ctl c') ∧ ((removeConn s o).ctl o = none) ∧
    (∀ y c', (removeConn s o).reg y = some c' → s.reg y = some c') := by
  unfold removeConn
  split
  · rename_i h
    exact ⟨rfl, rfl, rfl, rfl, rfl, rfl, rfl, rfl, rfl, fun _ _ => rfl, h, fun _ _ h => h⟩
  · rename_i obj h
    refine ⟨rfl, rfl, rfl, rfl, rfl, rfl, rfl, rfl, rfl, ?_, by simp, ?_⟩
    · intro c' hc; simp [upd_other _ _ _ _ hc]
    · intro y c' hy
      simp only [unindex] at hy
      split at hy
      · exact absurd hy (by simp)
      · exact hy

theorem registryUpdate_spec (t : Srv) (c x : Nat) (o : Ctl) (hc : t.ctl c = some o) (ha : o.auth = true)
    (hi : o.id = some x) :
    (registryUpdate t c x).now = t.now ∧ (registryUpdate t c x).nConns = t.nConns ∧ (registryUpdate t c x).ipOf = t.ipOf ∧
    (registryUpdate t c x).nIps = t.nIps ∧ (registryUpdate t c x).env = t.env ∧ (registryUpdate t c x).banned = t.banned ∧
    (registryUpdate t c x).nClients = t.nClients ∧ (registryUpdate t c x).nextNonce = t.nextNonce ∧
    (registryUpdate t c x).accepted = t.accepted ∧
    (∀ c', (registryUpdate t c x).ctl c' = t.ctl c' ∨ (registryUpdate t c x).ctl c' = none) ∧
    ((registryUpdate t c x).ctl c = t.ctl c) ∧
    (∀ y c', (registryUpdate t c x).reg y = some c' → t.reg y = some c' ∨ (y = x ∧ c' = c)) := by
  have ho : ({ o with id := some x, auth := true } : Ctl) = o := by
    cases o; simp_all
  unfold registryUpdate updateAuth
  generalize hs1 : evictOld t c x = s1
  have hfacts : s1.now = t.now ∧ s1.nConns = t.nConns ∧ s1.ipOf = t.ipOf ∧ s1.nIps = t.nIps ∧ s1.env = t.env ∧
      s1.banned = t.banned ∧ s1.nClients = t.nClients ∧ s1.nextNonce = t.nextNonce ∧ s1.accepted = t.accepted ∧
      (∀ c', s1.ctl c' = t.ctl c' ∨ s1.ctl c' = none) ∧ s1.ctl c = t.ctl c ∧
      (∀ y c', s1.reg y = some c' → t.reg y = some c') := by
    subst hs1
    unfold evictOld
    split
    · rename_i o' _
      split
      · rename_i hne
        have hne : o' ≠ c := by simpa using hne
        obtain ⟨a1, a2, a3, a4, a5, a6, a7, a8, a9, a10, a11, a12⟩ := removeConn_spec t o'
        refine ⟨a1, a2, a3, a4, a5, a6, a7, a8, a9, ?_, a10 c (Ne.symm hne), a12⟩
        intro c'
        by_cases h : c' = o'
        · subst h; exact Or.inr a11
        · exact Or.inl (a10 c' h)
      · exact ⟨rfl, rfl, rfl, rfl, rfl, rfl, rfl, rfl, rfl, fun _ => Or.inl rfl, rfl, fun _ _ h => h⟩
    · exact ⟨rfl, rfl, rfl, rfl, rfl, rfl, rfl, rfl, rfl, fun _ => Or.inl rfl, rfl, fun _ _ h => h⟩
  obtain ⟨a1, a2, a3, a4, a5, a6, a7, a8, a9, a10, a11, a12⟩ := hfacts
  have hg : getCtl s1 c = o := by simp [getCtl, a11, hc]
  refine ⟨a1, a2, a3, a4, a5, a6, a7, a8, a9, ?_, ?_, ?_⟩
  · intro c'
    by_cases h : c' = c
    · subst h; left; simp [hg, ho, hc]
    · simp only [upd_other _ _ _ _ h]; exact a10 c'
  · simp [hg, ho, hc]
  · intro y c' hy
    simp only [upd_apply] at hy
    split at hy
    · rename_i hyx
      right; exact ⟨hyx, by simpa using hy.symm⟩
    · left
      simp only [unindex] at hy
      split at hy
      · exact absurd hy (by simp)
      · exact a12 y c' hy

theorem respOf_ne_fail (res : HRes) (h : res ≠ .err) : respOf res ≠ .fail := by
  cases res <;> simp_all [respOf]

theorem respOf_ok {res : HRes} (h : RespObs.ok = respOf res) : res = .ok := by
  cases res <;> simp [respOf] at h ⊢
theorem respOf_new {res : HRes} {x : Nat} (h : RespObs.new x = respOf res) : res = .issued x := by
  cases res <;> simp [respOf] at h ⊢
  exact h.symm
theorem respOf_ch {res : HRes} {n : Nat} (h : RespObs.ch n = respOf res) : res = .challenge n := by
  cases res <;> simp [respOf] at h ⊢
  exact h.symm

theorem respOf_ne_na (res : HRes) : respOf res ≠ .na := by
  cases res <;> simp [respOf]

theorem respondOk_spec (t : Srv) (c : Nat) (ty : Ty) (res : HRes) (herr : res ≠ .err) :
    (respondOk t c ty res).1.now = t.now ∧ (respondOk t c ty res).1.nConns = t.nConns ∧
    (respondOk t c ty res).1.ipOf = t.ipOf ∧ (respondOk t c ty res).1.nIps = t.nIps ∧
    (respondOk t c ty res).1.env = t.env ∧ (respondOk t c ty res).1.banned = t.banned ∧
    (respondOk t c ty res).1.nClients = t.nClients ∧ (respondOk t c ty res).1.nextNonce = t.nextNonce ∧
    (respondOk t c ty res).1.accepted = t.accepted ∧
    (∀ c', (respondOk t c ty res).1.ctl c' = t.ctl c' ∨ (respondOk t c ty res).1.ctl c' = none) ∧
    ((respondOk t c ty res).1.ctl c = t.ctl c) ∧
    (∀ y c', (respondOk t c ty res).1.reg y = some c' →
        t.reg y = some c' ∨ (c' = c ∧ pairOf (t.ctl c) = (true, some y) ∧ (respondOk t c ty res).2 ≠ .fail)) ∧
    ((respondOk t c ty res).2 = respOf res ∨ (respondOk t c ty res).2 = .none) ∧
    (respondOk t c ty res).2 ≠ .fail ∧ (respondOk t c ty res).2 ≠ .na := by
  unfold respondOk
  split
  · exact ⟨rfl, rfl, rfl, rfl, rfl, rfl, rfl, rfl, rfl, fun _ => Or.inl rfl, rfl, fun _ _ h => Or.inl h,
      Or.inr rfl, by simp, by simp⟩
  · split
    · rename_i hcond
      simp only [Bool.and_eq_true, bne_iff_ne, ne_eq] at hcond
      obtain ⟨⟨_, hauth⟩, hid⟩ := hcond
      cases hc : t.ctl c with
      | none => simp [getCtl, hc] at hauth
      | some o =>
        have hg : getCtl t c = o := by simp [getCtl, hc]
        rw [hg] at hauth hid
        obtain ⟨x, hx⟩ := Option.isSome_iff_exists.mp hid
        have hx0 : (getCtl t c).id.getD 0 = x := by simp [hg, hx]
        rw [hx0]
        obtain ⟨a1, a2, a3, a4, a5, a6, a7, a8, a9, a10, a11, a12⟩ := registryUpdate_spec t c x o hc hauth hx
        refine ⟨a1, a2, a3, a4, a5, a6, a7, a8, a9, a10, by rw [a11, hc], ?_, Or.inl rfl,
          respOf_ne_fail res herr, respOf_ne_na res⟩
        intro y c' hy
        rcases a12 y c' hy with h | ⟨h1, h2⟩
        · exact Or.inl h
        · right
          refine ⟨h2, ?_, respOf_ne_fail res herr⟩
          simp [pairOf, hauth, hx, h1]
    · exact ⟨rfl, rfl, rfl, rfl, rfl, rfl, rfl, rfl, rfl, fun _ => Or.inl rfl, rfl, fun _ _ h => Or.inl h,
        Or.inl rfl, respOf_ne_fail res herr, respOf_ne_na res⟩

theorem dropStaleIndex_reg (t : Srv) (c y c' : Nat) (h : (dropStaleIndex t c).reg y = some c') : t.reg y = some c' := by
  simp only [dropStaleIndex] at h
  split at h
  · exact absurd h (by simp)
  · exact h

theorem respond_spec (t : Srv) (c : Nat) (ty : Ty) (res : HRes) :
    (respond t c ty res).1.now = t.now ∧ (respond t c ty res).1.nConns = t.nConns ∧
    (respond t c ty res).1.ipOf = t.ipOf ∧ (respond t c ty res).1.nIps = t.nIps ∧
    (respond t c ty res).1.env = t.env ∧ (respond t c ty res).1.banned = t.banned ∧
    (respond t c ty res).1.nClients = t.nClients ∧ (respond t c ty res).1.nextNonce = t.nextNonce ∧
    (respond t c ty res).1.accepted = t.accepted ∧
    (∀ c', (respond t c ty res).1.ctl c' = t.ctl c' ∨ (respond t c ty res).1.ctl c' = none) ∧
    ((respond t c ty res).1.ctl c = t.ctl c) ∧
    (∀ y c', (respond t c ty res).1.reg y = some c' →
        t.reg y = some c' ∨ (c' = c ∧ pairOf (t.ctl c) = (true, some y) ∧ (respond t c ty res).2 ≠ .fail)) ∧
    ((respond t c ty res).2 = respOf res ∨ (respond t c ty res).2 = .none) ∧
    (res = .err → (respond t c ty res).2 = .fail ∨ (respond t c ty res).2 = .none) ∧
    (res ≠ .err → (respond t c ty res).2 ≠ .fail) ∧ (respond t c ty res).2 ≠ .na := by
  unfold respond
  split
  · rename_i herr
    have herr : res = .err := by simpa using herr
    refine ⟨rfl, rfl, rfl, rfl, rfl, rfl, rfl, rfl, rfl, fun _ => Or.inl rfl, rfl, fun _ _ h => Or.inl h, ?_, ?_, ?_, ?_⟩
    · split <;> simp [herr, respOf]
    · intro _; split <;> simp
    · intro h; exact absurd herr h
    · split <;> simp
  · rename_i herr
    have herr : res ≠ .err := by simpa using herr
    obtain ⟨a1, a2, a3, a4, a5, a6, a7, a8, a9, a10, a11, a12, a13, a14, a15⟩ :=
      respondOk_spec (dropStaleIndex t c) c ty res herr
    refine ⟨a1, a2, a3, a4, a5, a6, a7, a8, a9, a10, a11, ?_, a13, fun h => absurd h herr, fun _ => a14, a15⟩
    intro y c' hy
    rcases a12 y c' hy with h | h
    · exact Or.inl (dropStaleIndex_reg t c y c' h)
    · exact Or.inr h

/-! ### the session layer as a whole -/

/-- what the handler's verdict `res` certifies about connection `c` becoming client `x` (`n'` = table size after) -/
def JrCore (s : Srv) (c : Nat) (req : Req) (res : HRes) (n' x : Nat) : Prop :=
  (req.first = true ∧ x = s.nClients ∧ n' = x + 1 ∧ res = .issued x) ∨
  (req.first = false ∧ req.k = .idx x ∧ x < s.nClients ∧ flagsOK s.now (s.env.cl x) = true ∧
    ∃ n, req.resp = .hmac (.client x) (some n) ∧ pend (s.ctl c) = some n ∧ res = .ok)

theorem AOut_mid {s : Srv} {c : Nat} {req : Req} {t : Srv} {res : HRes} (h : AOut s c req t res)
    (hsome : s.ctl c = some (getCtl s c)) :
    (pairOf (t.ctl c) = pairOf (s.ctl c) ∨ ∃ x, pairOf (t.ctl c) = (true, some x) ∧ JrCore s c req res t.nClients x) ∧
    (pend (t.ctl c) = pend (s.ctl c) ∨ pend (t.ctl c) = none ∨
      (pend (t.ctl c) = some s.nextNonce ∧ t.nextNonce = s.nextNonce + 1 ∧ res = .challenge s.nextNonce)) ∧
    (res = .ok → pend (t.ctl c) = none ∧ ∃ x, pairOf (t.ctl c) = (true, some x) ∧ JrCore s c req res t.nClients x) ∧
    (∀ x, res = .issued x → pairOf (t.ctl c) = (true, some x) ∧ JrCore s c req res t.nClients x) ∧
    (∀ n, res = .challenge n → n = s.nextNonce ∧ pend (t.ctl c) = some n ∧ t.nextNonce = n + 1 ∧ req.first = false) ∧
    s.nextNonce ≤ t.nextNonce ∧ s.nClients ≤ t.nClients ∧
    (t.accepted = s.accepted ∨ ∃ n, pend (s.ctl c) = some n ∧ t.accepted = n :: s.accepted ∧ pend (t.ctl c) = none) := by
  cases h with
  | err a b d e =>
    refine ⟨Or.inl ?_, ?_, fun h => (by cases h), fun _ h => (by cases h), fun _ h => (by cases h), (by omega), (by omega), Or.inl d⟩
    · rcases e with e | e
      · rw [e]
      · rw [e, hsome]; rfl
    · rcases e with e | e
      · left; rw [e]
      · right; left; rw [e]; rfl
  | chal a b d e f =>
    refine ⟨Or.inl ?_, Or.inr (Or.inr ⟨?_, a, rfl⟩), fun h => (by cases h), fun _ h => (by cases h), ?_, (by omega), (by omega), Or.inl d⟩
    · rw [f, hsome]; rfl
    · rw [f]; rfl
    · intro n hn
      cases hn
      exact ⟨rfl, by rw [f]; rfl, a, e⟩
  | issued a b d e f =>
    have hj : JrCore s c req (.issued s.nClients) t.nClients s.nClients := Or.inl ⟨e, rfl, b, rfl⟩
    refine ⟨Or.inr ⟨s.nClients, by rw [f]; rfl, hj⟩, Or.inl ?_, fun h => (by cases h), ?_, fun _ h => (by cases h),
      (by omega), (by omega), Or.inl d⟩
    · rw [f, hsome]; rfl
    · intro x hx
      cases hx
      exact ⟨by rw [f]; rfl, hj⟩
  | ok x n a b d e f g i j k l =>
    have hp : pend (s.ctl c) = some n := by rw [hsome]; exact k
    have hj : JrCore s c req .ok t.nClients x := Or.inr ⟨e, f, g, i, n, j, hp, rfl⟩
    refine ⟨Or.inr ⟨x, by rw [l]; rfl, hj⟩, Or.inr (Or.inl (by rw [l]; rfl)), ?_, fun _ h => (by cases h),
      fun _ h => (by cases h), (by omega), (by omega), Or.inr ⟨n, hp, d, by rw [l]; rfl⟩⟩
    intro _
    exact ⟨by rw [l]; rfl, x, by rw [l]; rfl, hj⟩

theorem ensureCtl_spec (s : Srv) (c : Nat) :
    (ensureCtl s c).ctl c = some (getCtl s c) ∧ getCtl (ensureCtl s c) c = getCtl s c ∧
    (∀ c', c' ≠ c → (ensureCtl s c).ctl c' = s.ctl c') ∧
    pairOf ((ensureCtl s c).ctl c) = pairOf (s.ctl c) ∧ pend ((ensureCtl s c).ctl c) = pend (s.ctl c) ∧
    (ensureCtl s c).now = s.now ∧ (ensureCtl s c).nConns = s.nConns ∧ (ensureCtl s c).ipOf = s.ipOf ∧
    (ensureCtl s c).nIps = s.nIps ∧ (ensureCtl s c).env = s.env ∧ (ensureCtl s c).reg = s.reg ∧
    (ensureCtl s c).closed = s.closed ∧ (ensureCtl s c).banned = s.banned ∧ (ensureCtl s c).nClients = s.nClients ∧
    (ensureCtl s c).nextNonce = s.nextNonce ∧ (ensureCtl s c).accepted = s.accepted := by
  unfold ensureCtl
  split
  · rename_i h0
    have h : s.ctl c = none := by simpa using h0
    exact ⟨by simp [getCtl, h], by simp [getCtl, h], fun c' hc => by simp [upd_other _ _ _ _ hc], by simp [pairOf, h],
      by simp [pend, h], rfl, rfl, rfl, rfl, rfl, rfl, rfl, rfl, rfl, rfl, rfl⟩
  · rename_i h0
    obtain ⟨o, h⟩ : ∃ o, s.ctl c = some o := by
      cases h : s.ctl c with
      | none => simp [h] at h0
      | some o => exact ⟨o, rfl⟩
    exact ⟨by simp [getCtl, h], rfl, fun _ _ => rfl, rfl, rfl, rfl, rfl, rfl, rfl, rfl, rfl, rfl, rfl, rfl, rfl, rfl⟩

/-- what entitles `c` to be treated as client `x`, in terms of the request and the response written -/
def Jr (s : Srv) (c : Nat) (req : Req) (r : RespObs) (n' x : Nat) : Prop :=
  s.env.blocked (s.ipOf c) = false ∧ s.banned (s.ipOf c) = false ∧
  ((req.first = true ∧ x = s.nClients ∧ n' = x + 1 ∧ (r = .new x ∨ r = .none)) ∨
   (req.first = false ∧ req.k = .idx x ∧ x < s.nClients ∧ flagsOK s.now (s.env.cl x) = true ∧
      ∃ n, req.resp = .hmac (.client x) (some n) ∧ pend (s.ctl c) = some n ∧ (r = .ok ∨ r = .none)))

structure HSpec (s : Srv) (c : Nat) (req : Req) (s' : Srv) (r : RespObs) : Prop where
  frame : s'.now = s.now ∧ s'.nConns = s.nConns ∧ s'.ipOf = s.ipOf ∧ s'.nIps = s.nIps ∧ s'.env = s.env
  banmono : ∀ ip, s.banned ip = true → s'.banned ip = true
  ncl : s.nClients ≤ s'.nClients
  nonce : s.nextNonce ≤ s'.nextNonce
  auth : ∀ c', pairOf (s'.ctl c') = pairOf (s.ctl c') ∨ s'.ctl c' = none ∨
          (c' = c ∧ ∃ x, pairOf (s'.ctl c) = (true, some x) ∧ Jr s c req r s'.nClients x)
  reg : ∀ y c', s'.reg y = some c' → s.reg y = some c' ∨
          (c' = c ∧ pairOf (s'.ctl c) = (true, some y) ∧ r ≠ .fail ∧ c < s.nConns)
  rok : r = .ok → c < s.nConns ∧ pend (s'.ctl c) = none ∧ ∃ x, pairOf (s'.ctl c) = (true, some x) ∧ Jr s c req r s'.nClients x
  rnew : ∀ x, r = .new x → c < s.nConns ∧ pairOf (s'.ctl c) = (true, some x) ∧ Jr s c req r s'.nClients x
  pending : ∀ c', pend (s'.ctl c') = pend (s.ctl c') ∨ pend (s'.ctl c') = none ∨
          (c' = c ∧ pend (s'.ctl c) = some s.nextNonce ∧ s'.nextNonce = s.nextNonce + 1 ∧ (r = .ch s.nextNonce ∨ r = .none))
  rch : ∀ n, r = .ch n → n = s.nextNonce ∧ pend (s'.ctl c) = some n ∧ s'.nextNonce = n + 1 ∧ req.first = false
  rna : r ≠ .na
  acc : s'.accepted = s.accepted ∨ ∃ n, pend (s.ctl c) = some n ∧ s'.accepted = n :: s.accepted ∧ pend (s'.ctl c) = none

theorem handleHandshake_spec (s : Srv) (c : Nat) (ty : Ty) (req : Req) :
    HSpec s c req (handleHandshake s c ty req).1 (handleHandshake s c ty req).2 := by
  unfold handleHandshake
  split
  · exact ⟨⟨rfl, rfl, rfl, rfl, rfl⟩, fun _ h => h, Nat.le_refl _, Nat.le_refl _, fun _ => Or.inl rfl,
      fun _ _ h => Or.inl h, fun h => (by cases h), fun _ h => (by cases h), fun _ => Or.inl rfl, fun _ h => (by cases h),
      (by simp), Or.inl rfl⟩
  · rename_i hlt
    have hlt : c < s.nConns := by omega
    obtain ⟨e1, e2, e3, e4, e5, e6, e7, e8, e9, e10, e11, e12, e13, e14, e15, e16⟩ := ensureCtl_spec s c
    obtain ⟨f1, f2, f3, f4⟩ := HandleHandshake_spec (ensureCtl s c) c req
    obtain ⟨g1, g2, g3, g4, g5, g6, g7, g8⟩ := f1
    generalize ht : (HandleHandshake (ensureCtl s c) c req).1 = t at *
    generalize hres : (HandleHandshake (ensureCtl s c) c req).2 = res at *
    obtain ⟨m1, m2, m3, m4, m5, m6, m7, m8⟩ := AOut_mid f3 (by rw [e2]; exact e1)
    rw [e4] at m1
    rw [e5] at m2
    obtain ⟨r1, r2, r3, r4, r5, r6, r7, r8, r9, r10, r11, r12, r13, r14, r15, r16⟩ := respond_spec t c ty res
    generalize ht' : (respond t c ty res).1 = t' at *
    generalize hr : (respond t c ty res).2 = r at *
    -- JrCore on the intermediate state ↦ Jr on `s` and the final response
    have hJ : ∀ x, JrCore (ensureCtl s c) c req res t.nClients x → res ≠ .err → Jr s c req r t'.nClients x := by
      intro x hj hne
      obtain ⟨hb1, hb2⟩ := f4 hne
      rw [e10, e8] at hb1
      rw [e13, e8] at hb2
      refine ⟨hb1, hb2, ?_⟩
      rw [r7]
      rcases hj with ⟨a, b, d, e⟩ | ⟨a, b, d, e, n, f, g, h⟩
      · left
        rw [e14] at b
        refine ⟨a, b, d, ?_⟩
        rcases r13 with h | h
        · left; rw [h, e]; rfl
        · right; exact h
      · right
        rw [e14] at d
        rw [e6, e10] at e
        rw [e5] at g
        refine ⟨a, b, d, e, n, f, g, ?_⟩
        rcases r13 with h' | h'
        · left; rw [h', h]; rfl
        · right; exact h'
    have hne_of_J : ∀ x, JrCore (ensureCtl s c) c req res t.nClients x → res ≠ .err := by
      intro x hj
      rcases hj with ⟨_, _, _, e⟩ | ⟨_, _, _, _, _, _, _, h⟩ <;> simp_all
    refine ⟨⟨r1.trans (g1.trans e6), r2.trans (g2.trans e7), r3.trans (g3.trans e8), r4.trans (g4.trans e9),
      r5.trans (g5.trans e10)⟩, ?_, ?_, ?_, ?_, ?_, ?_, ?_, ?_, ?_, r16, ?_⟩
    rotate_right
    · -- accepted
      rw [r9, r11]
      rcases m8 with h | ⟨n, h1, h2, h3⟩
      · left; rw [h, e16]
      · right; exact ⟨n, by rw [← e5]; exact h1, by rw [h2, e16], h3⟩
    · intro ip h; rw [r6]; exact g8 ip (by rw [e13]; exact h)
    · rw [r7, ← e14]; exact m7
    · rw [r8, ← e15]; exact m6
    · -- auth
      intro c'
      by_cases hc : c' = c
      · subst hc
        rw [r11]
        rcases m1 with h | ⟨x, hx, hj⟩
        · exact Or.inl h
        · exact Or.inr (Or.inr ⟨rfl, x, hx, hJ x hj (hne_of_J x hj)⟩)
      · rcases r10 c' with h | h
        · left; rw [h, f2 c' hc, e3 c' hc]
        · exact Or.inr (Or.inl h)
    · -- reg
      intro y c' hy
      rcases r12 y c' hy with h | ⟨h1, h2, h3⟩
      · left; rw [g6, e11] at h; exact h
      · right
        subst h1
        exact ⟨rfl, by rw [r11]; exact h2, h3, hlt⟩
    · -- ok
      intro hok
      have hres' : res = .ok := by
        rcases r13 with h | h
        · rw [hok] at h; exact respOf_ok h
        · rw [hok] at h; cases h
      obtain ⟨p1, x, p2, p3⟩ := m3 hres'
      rw [r11]
      exact ⟨hlt, p1, x, p2, hJ x p3 (by simp [hres'])⟩
    · -- new
      intro x hnew
      have hres' : res = .issued x := by
        rcases r13 with h | h
        · rw [hnew] at h; exact respOf_new h
        · rw [hnew] at h; cases h
      obtain ⟨p2, p3⟩ := m4 x hres'
      rw [r11]
      exact ⟨hlt, p2, hJ x p3 (by simp [hres'])⟩
    · -- pending
      intro c'
      by_cases hc : c' = c
      · subst hc
        rw [r11, r8]
        rcases m2 with h | h | ⟨h1, h2, h3⟩
        · exact Or.inl h
        · exact Or.inr (Or.inl h)
        · refine Or.inr (Or.inr ⟨rfl, by rw [← e15]; exact h1, by rw [← e15]; exact h2, ?_⟩)
          rcases r13 with h | h
          · left; rw [h, h3, e15]; rfl
          · right; exact h
      · rcases r10 c' with h | h
        · left; rw [h, f2 c' hc, e3 c' hc]
        · right; left; rw [h]; rfl
    · -- challenge
      intro n hch
      have hres' : res = .challenge n := by
        rcases r13 with h | h
        · rw [hch] at h; exact respOf_ch h
        · rw [hch] at h; cases h
      obtain ⟨p1, p2, p3, p4⟩ := m5 n hres'
      rw [r11, r8]
      exact ⟨by rw [← e15]; exact p1, p2, p3, p4⟩

/-! ### one event -/

/-- event-level justification (the model-side twin of `Spec.justified`) -/
def Jm (s : Srv) (e : Event) (r : RespObs) (n' c x : Nat) : Prop :=
  s.env.blocked (s.ipOf c) = false ∧ s.banned (s.ipOf c) = false ∧
  ((∃ ty, e = .fc c ty ∧ x = s.nClients ∧ n' = x + 1 ∧ (r = .new x ∨ r = .none)) ∨
   (∃ ty key nr n, e = .hs c ty (.idx x) (.hmac key nr) ∧ x < s.nClients ∧ flagsOK s.now (s.env.cl x) = true ∧
      key = .client x ∧ s.env.resolveN nr = some n ∧ pend (s.ctl c) = some n ∧ (r = .ok ∨ r = .none)))

structure StepSpec (s : Srv) (e : Event) (s' : Srv) (r : RespObs) : Prop where
  frame : s'.now = s.now ∧ s'.nConns = s.nConns ∧ s'.ipOf = s.ipOf ∧ s'.nIps = s.nIps ∧ s'.env = s.env
  ncl : s.nClients ≤ s'.nClients
  nonce : s.nextNonce ≤ s'.nextNonce
  auth : ∀ c', pairOf (s'.ctl c') = pairOf (s.ctl c') ∨ s'.ctl c' = none ∨
          (e.conn? = some c' ∧ ∃ x, pairOf (s'.ctl c') = (true, some x) ∧ Jm s e r s'.nClients c' x)
  reg : ∀ y c', s'.reg y = some c' → s.reg y = some c' ∨
          (e.conn? = some c' ∧ pairOf (s'.ctl c') = (true, some y) ∧ r ≠ .fail ∧ r ≠ .na ∧ c' < s.nConns)
  rok : r = .ok → ∃ c ty k rr, e = .hs c ty (.idx k) rr ∧ c < s.nConns ∧ pend (s'.ctl c) = none ∧
          pairOf (s'.ctl c) = (true, some k) ∧ Jm s e r s'.nClients c k
  rnew : ∀ x, r = .new x → ∃ c ty, e = .fc c ty ∧ c < s.nConns ∧ pairOf (s'.ctl c) = (true, some x) ∧
          Jm s e r s'.nClients c x
  pending : ∀ c', pend (s'.ctl c') = pend (s.ctl c') ∨ pend (s'.ctl c') = none ∨
          (e.conn? = some c' ∧ pend (s'.ctl c') = some s.nextNonce ∧ s'.nextNonce = s.nextNonce + 1 ∧
            (r = .ch s.nextNonce ∨ r = .none))
  rch : ∀ n, r = .ch n → n = s.nextNonce ∧ s'.nextNonce = n + 1 ∧
          ∃ c ty k rr, e = .hs c ty k rr ∧ pend (s'.ctl c) = some n
  ban : ∀ ip, e ≠ .unban ip → e ≠ .bans ip → s.banned ip = true → s'.banned ip = true
  banev : ∀ ip, (e = .ban ip ∨ e = .banp ip) → s'.banned ip = true
  bans : ∀ ip, e = .bans ip → s.perm ip = true → s.banned ip = true → s'.banned ip = true
  perm : ∀ ip, e ≠ .unban ip → s.perm ip = true → s'.perm ip = true
  permev : ∀ ip, e = .banp ip → s'.perm ip = true
  acc : s'.accepted = s.accepted ∨
          ∃ c n, e.conn? = some c ∧ pend (s.ctl c) = some n ∧ s'.accepted = n :: s.accepted ∧ pend (s'.ctl c) = none

theorem StepSpec.of_same {s : Srv} {e : Event} {s' : Srv} {r : RespObs}
    (hf : s'.now = s.now ∧ s'.nConns = s.nConns ∧ s'.ipOf = s.ipOf ∧ s'.nIps = s.nIps ∧ s'.env = s.env)
    (hc : s'.ctl = s.ctl) (hr : s'.reg = s.reg) (hn : s'.nClients = s.nClients) (hx : s'.nextNonce = s.nextNonce)
    (hr' : r = .na ∨ r = .none)
    (hb : ∀ ip, e ≠ .unban ip → e ≠ .bans ip → s.banned ip = true → s'.banned ip = true)
    (hbe : ∀ ip, (e = .ban ip ∨ e = .banp ip) → s'.banned ip = true)
    (hbs : ∀ ip, e = .bans ip → s.perm ip = true → s.banned ip = true → s'.banned ip = true)
    (hp : ∀ ip, e ≠ .unban ip → s.perm ip = true → s'.perm ip = true)
    (hpe : ∀ ip, e = .banp ip → s'.perm ip = true)
    (hacc : s'.accepted = s.accepted) : StepSpec s e s' r := by
  refine ⟨hf, by omega, by omega, fun c' => Or.inl (by rw [hc]), fun y c' h => Or.inl (by rw [hr] at h; exact h), ?_, ?_,
    fun c' => Or.inl (by rw [hc]), ?_, hb, hbe, hbs, hp, hpe, Or.inl hacc⟩
  · intro h; rcases hr' with h' | h' <;> rw [h'] at h <;> cases h
  · intro x h; rcases hr' with h' | h' <;> rw [h'] at h <;> cases h
  · intro n h; rcases hr' with h' | h' <;> rw [h'] at h <;> cases h

/-- events that leave the ban records alone -/
theorem StepSpec.of_same_nb {s : Srv} {e : Event} {s' : Srv} {r : RespObs}
    (hf : s'.now = s.now ∧ s'.nConns = s.nConns ∧ s'.ipOf = s.ipOf ∧ s'.nIps = s.nIps ∧ s'.env = s.env)
    (hc : s'.ctl = s.ctl) (hr : s'.reg = s.reg) (hn : s'.nClients = s.nClients) (hx : s'.nextNonce = s.nextNonce)
    (hr' : r = .na ∨ r = .none) (hban : s'.banned = s.banned) (hperm : s'.perm = s.perm)
    (hne : ∀ ip, e ≠ .ban ip ∧ e ≠ .banp ip) (hacc : s'.accepted = s.accepted) : StepSpec s e s' r :=
  StepSpec.of_same hf hc hr hn hx hr' (fun ip _ _ h => by rw [hban]; exact h)
    (fun ip h => by rcases h with h | h; exact absurd h (hne ip).1; exact absurd h (hne ip).2)
    (fun ip _ _ h => by rw [hban]; exact h) (fun ip _ h => by rw [hperm]; exact h)
    (fun ip h => absurd h (hne ip).2) hacc

theorem StepSpec.of_HSpec {s : Srv} {e : Event} {c : Nat} {req : Req} {s' : Srv} {r : RespObs}
    (h : HSpec s c req s' r) (hconn : e.conn? = some c) (hperm : ∀ ip, s.perm ip = true → s'.perm ip = true)
    (hnb : ∀ ip, e ≠ .ban ip ∧ e ≠ .banp ip ∧ e ≠ .bans ip)
    (hJ : ∀ n' x, Jr s c req r n' x → Jm s e r n' c x)
    (hok : r = .ok → ∀ x, req.k = .idx x → ∃ ty rr, e = .hs c ty (.idx x) rr)
    (hnew : ∀ x, r = .new x → req.first = true → ∃ ty, e = .fc c ty)
    (hch : ∀ n, r = .ch n → req.first = false → ∃ ty k rr, e = .hs c ty k rr) : StepSpec s e s' r := by
  refine ⟨h.frame, h.ncl, h.nonce, ?_, ?_, ?_, ?_, ?_, ?_, fun ip _ _ hb => h.banmono ip hb,
    fun ip he => by rcases he with he | he; exact absurd he (hnb ip).1; exact absurd he (hnb ip).2.1,
    fun ip he => absurd he (hnb ip).2.2, fun ip _ hp => hperm ip hp, fun ip he => absurd he (hnb ip).2.1, ?_⟩
  rotate_right
  · rcases h.acc with a | ⟨n, a, b, d⟩
    · exact Or.inl a
    · exact Or.inr ⟨c, n, hconn, a, b, d⟩
  · intro c'
    rcases h.auth c' with a | a | ⟨a, x, b, d⟩
    · exact Or.inl a
    · exact Or.inr (Or.inl a)
    · subst a; exact Or.inr (Or.inr ⟨hconn, x, b, hJ _ _ d⟩)
  · intro y c' hy
    rcases h.reg y c' hy with a | ⟨a, b, d, f⟩
    · exact Or.inl a
    · subst a; exact Or.inr ⟨hconn, b, d, h.rna, f⟩
  · intro hr
    obtain ⟨a, b, x, d, f⟩ := h.rok hr
    have f' := f
    obtain ⟨_, _, f1 | f2⟩ := f
    · obtain ⟨_, _, _, g⟩ := f1
      rcases g with g | g <;> rw [hr] at g <;> cases g
    · obtain ⟨_, hk, _⟩ := f2
      obtain ⟨ty, rr, he⟩ := hok hr x hk
      exact ⟨c, ty, x, rr, he, a, b, d, hJ _ _ f'⟩
  · intro x hr
    obtain ⟨a, b, d⟩ := h.rnew x hr
    have d' := d
    obtain ⟨_, _, f1 | f2⟩ := d
    · obtain ⟨ty, he⟩ := hnew x hr f1.1
      exact ⟨c, ty, he, a, b, hJ _ _ d'⟩
    · obtain ⟨_, _, _, _, n, _, _, g⟩ := f2
      rcases g with g | g <;> rw [hr] at g <;> cases g
  · intro c'
    rcases h.pending c' with a | a | ⟨a, b⟩
    · exact Or.inl a
    · exact Or.inr (Or.inl a)
    · subst a; exact Or.inr (Or.inr ⟨hconn, b⟩)
  · intro n hr
    obtain ⟨a, b, d, f⟩ := h.rch n hr
    obtain ⟨ty, k, rr, he⟩ := hch n hr f
    exact ⟨a, d, c, ty, k, rr, he, b⟩

theorem resolve_hmac {g : Env} {rr : RespRef} {x : Key} {n : Nat} (h : g.resolve rr = .hmac x (some n)) :
    ∃ nr, rr = .hmac x nr ∧ g.resolveN nr = some n := by
  cases rr with
  | none => simp [Env.resolve] at h
  | junk => simp [Env.resolve] at h
  | hmac key nr =>
    simp only [Env.resolve, Resp.hmac.injEq] at h
    exact ⟨nr, by rw [h.1], h.2⟩

/-! permanent-ban flags only ever get set by a handshake -/
theorem recordFailure_perm (s : Srv) (ip j : Nat) (h : s.perm j = true) : (recordFailure s ip).perm j = true := by
  unfold recordFailure
  split
  · simp only [upd_apply]; split <;> simp_all
  · split <;> exact h

theorem authenticate_perm (s : Srv) (c : Nat) (req : Req) (j : Nat) (h : s.perm j = true) :
    (authenticate s c req).1.perm j = true := by
  unfold authenticate handleFirstConnection
  split
  · split
    · exact recordFailure_perm _ _ _ h
    · exact h
  · split
    · exact recordFailure_perm _ _ _ h
    · split
      · exact h
      · split
        · unfold handleChallengePhase1; split <;> exact h
        · unfold handleChallengePhase2
          split
          · exact recordFailure_perm _ _ _ h
          · split
            · exact recordFailure_perm _ _ _ h
            · exact h

theorem HandleHandshake_perm (s : Srv) (c : Nat) (req : Req) (j : Nat) (h : s.perm j = true) :
    (HandleHandshake s c req).1.perm j = true := by
  unfold HandleHandshake
  split
  · exact h
  · split
    · exact h
    · split
      · split
        · apply authenticate_perm
          unfold allowIP; split <;> exact h
        · exact h
      · exact authenticate_perm _ _ _ _ h

theorem respond_perm (t : Srv) (c : Nat) (ty : Ty) (res : HRes) : (respond t c ty res).1.perm = t.perm := by
  unfold respond respondOk
  split
  · rfl
  · split
    · rfl
    · split
      · unfold registryUpdate updateAuth evictOld
        simp only [dropStaleIndex]
        split
        · split
          · unfold removeConn; split <;> rfl
          · rfl
        · rfl
      · rfl

theorem handleHandshake_perm (s : Srv) (c : Nat) (ty : Ty) (req : Req) (j : Nat) (h : s.perm j = true) :
    (handleHandshake s c ty req).1.perm j = true := by
  unfold handleHandshake
  split
  · exact h
  · rw [respond_perm]
    apply HandleHandshake_perm
    unfold ensureCtl; split <;> exact h

theorem stepCore_spec (s : Srv) (e : Event) : StepSpec s e (stepCore s e).1 (stepCore s e).2 := by
  have fr : s.now = s.now ∧ s.nConns = s.nConns ∧ s.ipOf = s.ipOf ∧ s.nIps = s.nIps ∧ s.env = s.env :=
    ⟨rfl, rfl, rfl, rfl, rfl⟩
  cases e with
  | fc c ty =>
    refine StepSpec.of_HSpec (handleHandshake_spec s c ty _) rfl (fun ip => handleHandshake_perm s c ty _ ip) (fun _ => by simp) ?_ ?_ ?_ ?_
    · intro n' x hj
      obtain ⟨a, b, d | d⟩ := hj
      · exact ⟨a, b, Or.inl ⟨ty, rfl, d.2⟩⟩
      · exact absurd d.1 (by simp)
    · intro _ x hk; simp at hk
    · intro x _ _; exact ⟨ty, rfl⟩
    · intro n _ hf; simp at hf
  | hs c ty k rr =>
    refine StepSpec.of_HSpec (handleHandshake_spec s c ty _) rfl (fun ip => handleHandshake_perm s c ty _ ip) (fun _ => by simp) ?_ ?_ ?_ ?_
    · intro n' x hj
      obtain ⟨a, b, d | d⟩ := hj
      · exact absurd d.1 (by simp)
      · obtain ⟨_, hk, hlt, hfl, n, hresp, hp, hr⟩ := d
        simp only at hk hresp
        obtain ⟨nr, hrr, hres⟩ := resolve_hmac hresp
        subst hk hrr
        exact ⟨a, b, Or.inr ⟨ty, .client x, nr, n, rfl, hlt, hfl, rfl, hres, hp, hr⟩⟩
    · intro _ x hk
      simp only at hk
      subst hk
      exact ⟨ty, rr, rfl⟩
    · intro x _ hf; simp at hf
    · intro n _ _; exact ⟨ty, k, rr, rfl⟩
  | mal c => exact StepSpec.of_same_nb fr rfl rfl rfl rfl (Or.inr rfl) rfl rfl (fun _ => by simp) rfl
  | ban ip =>
    refine StepSpec.of_same fr rfl rfl rfl rfl (Or.inl rfl) ?_ ?_ (fun _ h => by cases h) (fun _ _ h => h)
      (fun _ h => by cases h) rfl
    · intro ip' _ _ h; simp only [stepCore, upd_apply]; split <;> simp_all
    · intro ip' h
      rcases h with h | h
      · cases h; simp [stepCore]
      · cases h
  | banp ip =>
    refine StepSpec.of_same fr rfl rfl rfl rfl (Or.inl rfl) ?_ ?_ (fun _ h => by cases h) ?_ ?_ rfl
    · intro ip' _ _ h; simp only [stepCore, upd_apply]; split <;> simp_all
    · intro ip' h
      rcases h with h | h
      · cases h
      · cases h; simp [stepCore]
    · intro ip' _ h; simp only [stepCore, upd_apply]; split <;> simp_all
    · intro ip' h; cases h; simp [stepCore]
  | bans ip =>
    refine StepSpec.of_same ?_ ?_ ?_ ?_ ?_ (Or.inl rfl) ?_ ?_ ?_ ?_ (fun _ h => by cases h) ?_
    · simp only [stepCore]; split <;> exact fr
    · simp only [stepCore]; split <;> rfl
    · simp only [stepCore]; split <;> rfl
    · simp only [stepCore]; split <;> rfl
    · simp only [stepCore]; split <;> rfl
    · intro ip' _ hne h
      have : ip' ≠ ip := fun h' => hne (by rw [h'])
      simp only [stepCore]; split
      · exact h
      · simp [upd_other _ _ _ _ this, h]
    · intro ip' h; rcases h with h | h <;> cases h
    · intro ip' he hp hb
      cases he
      simp only [stepCore, hp, if_true]; exact hb
    · intro ip' _ h; simp only [stepCore]; split <;> exact h
    · simp only [stepCore]; split <;> rfl
  | unban ip =>
    refine StepSpec.of_same fr rfl rfl rfl rfl (Or.inl rfl) ?_ (fun _ h => by rcases h with h | h <;> cases h)
      (fun _ h => by cases h) ?_ (fun _ h => by cases h) rfl
    · intro ip' hne _ h
      have : ip' ≠ ip := fun h' => hne (by rw [h'])
      simp [stepCore, upd_other _ _ _ _ this, h]
    · intro ip' hne h
      have : ip' ≠ ip := fun h' => hne (by rw [h'])
      simp [stepCore, upd_other _ _ _ _ this, h]
  | bl ip => exact StepSpec.of_same_nb fr rfl rfl rfl rfl (Or.inl rfl) rfl rfl (fun _ => by simp) rfl
  | unbl ip => exact StepSpec.of_same_nb fr rfl rfl rfl rfl (Or.inl rfl) rfl rfl (fun _ => by simp) rfl
  | blr g => exact StepSpec.of_same_nb fr rfl rfl rfl rfl (Or.inl rfl) rfl rfl (fun _ => by simp) rfl
  | unblr g => exact StepSpec.of_same_nb fr rfl rfl rfl rfl (Or.inl rfl) rfl rfl (fun _ => by simp) rfl
  | restart => exact StepSpec.of_same_nb fr rfl rfl rfl rfl (Or.inl rfl) rfl rfl (fun _ => by simp) rfl
  | refill ip => exact StepSpec.of_same_nb fr rfl rfl rfl rfl (Or.inl rfl) rfl rfl (fun _ => by simp) rfl
  | exp k => exact StepSpec.of_same_nb fr rfl rfl rfl rfl (Or.inl rfl) rfl rfl (fun _ => by simp) rfl
  | wl ip => exact StepSpec.of_same_nb fr rfl rfl rfl rfl (Or.inl rfl) rfl rfl (fun _ => by simp) rfl
  | unwl ip => exact StepSpec.of_same_nb fr rfl rfl rfl rfl (Or.inl rfl) rfl rfl (fun _ => by simp) rfl
  | unexp k => exact StepSpec.of_same_nb fr rfl rfl rfl rfl (Or.inl rfl) rfl rfl (fun _ => by simp) rfl
  | claim k => exact StepSpec.of_same_nb fr rfl rfl rfl rfl (Or.inl rfl) rfl rfl (fun _ => by simp) rfl
  | bind k => exact StepSpec.of_same_nb fr rfl rfl rfl rfl (Or.inl rfl) rfl rfl (fun _ => by simp) rfl
  | ext k => exact StepSpec.of_same_nb fr rfl rfl rfl rfl (Or.inl rfl) rfl rfl (fun _ => by simp) rfl
  | issue b => exact StepSpec.of_same_nb fr rfl rfl rfl rfl (Or.inl rfl) rfl rfl (fun _ => by simp) rfl
  | del k => exact StepSpec.of_same_nb fr rfl rfl rfl rfl (Or.inl rfl) rfl rfl (fun _ => by simp) rfl
  | strip k st => exact StepSpec.of_same_nb fr rfl rfl rfl rfl (Or.inl rfl) rfl rfl (fun _ => by simp) rfl

/-! ### the invariant -/

structure Inv (s : Srv) : Prop where
  /-- a pending challenge was issued -/
  i1 : ∀ c n, pend (s.ctl c) = some n → n < s.nextNonce
  /-- so was every challenge a client received -/
  i2 : ∀ d n, (s.env.lastCh d = some n ∨ s.env.prevCh d = some n) → n < s.nextNonce
  /-- a pending challenge of `c`, if any client received it at all, is the latest one received on `c` -/
  i3 : ∀ c n, pend (s.ctl c) = some n → (∀ d, s.env.lastCh d = some n → d = c) ∧ (∀ d, s.env.prevCh d ≠ some n)
  /-- a pending challenge was never accepted before -/
  i4 : ∀ c n, pend (s.ctl c) = some n → n ∉ s.env.usedSeen
  /-- no nonce is pending on two connections -/
  i5 : ∀ c c' n, pend (s.ctl c) = some n → pend (s.ctl c') = some n → c = c'
  /-- an explicitly banned address is banned -/
  i6 : ∀ ip, s.env.xban ip = true → s.banned ip = true
  /-- an explicitly permanently banned address has a permanent record -/
  i6p : ∀ ip, s.env.xperm ip = true → s.perm ip = true
  /-- accepted nonces were issued -/
  i8 : ∀ n, n ∈ s.env.usedSeen → n < s.nextNonce
  /-- every challenge a client received was issued -/
  i8s : ∀ n, n ∈ s.env.seen → n < s.nextNonce
  /-- the client index only has entries for clients of the table -/
  i9 : ∀ x c, s.reg x = some c → x < s.nClients
  /-- a connection's client id is a client of the table -/
  i10 : ∀ c x, (pairOf (s.ctl c)).2 = some x → x < s.nClients

theorem track_cases (g : Env) (now nc : Nat) (e : Event) (r : RespObs) :
    (∃ c ty k rr n, e = .hs c ty k rr ∧ r = .ch n ∧ (g.track now nc e r).lastCh = upd g.lastCh c (some n) ∧
      (g.track now nc e r).prevCh = upd g.prevCh c (g.lastCh c) ∧ (g.track now nc e r).usedSeen = g.usedSeen ∧
      (g.track now nc e r).seen = n :: g.seen) ∨
    (∃ c ty k key nr n, e = .hs c ty k (.hmac key nr) ∧ r = .ok ∧ g.resolveN nr = some n ∧
      (g.track now nc e r).lastCh = g.lastCh ∧ (g.track now nc e r).prevCh = g.prevCh ∧
      (g.track now nc e r).usedSeen = n :: g.usedSeen ∧ (g.track now nc e r).seen = g.seen) ∨
    ((g.track now nc e r).lastCh = g.lastCh ∧ (g.track now nc e r).prevCh = g.prevCh ∧
      (g.track now nc e r).usedSeen = g.usedSeen ∧ (g.track now nc e r).seen = g.seen) := by
  cases e with
  | hs c ty k rr =>
    cases r with
    | ch n => exact Or.inl ⟨c, ty, k, rr, n, rfl, rfl, rfl, rfl, rfl, rfl⟩
    | ok =>
      cases rr with
      | none => exact Or.inr (Or.inr ⟨rfl, rfl, rfl, rfl⟩)
      | junk => exact Or.inr (Or.inr ⟨rfl, rfl, rfl, rfl⟩)
      | hmac key nr =>
        cases h : g.resolveN nr with
        | none => right; right; simp [Env.track, Env.resolve, h]
        | some n =>
          right; left
          exact ⟨c, ty, k, key, nr, n, rfl, rfl, h, by simp [Env.track, Env.resolve, h], by simp [Env.track, Env.resolve, h],
            by simp [Env.track, Env.resolve, h], by simp [Env.track, Env.resolve, h]⟩
    | new x => exact Or.inr (Or.inr ⟨rfl, rfl, rfl, rfl⟩)
    | fail => exact Or.inr (Or.inr ⟨rfl, rfl, rfl, rfl⟩)
    | none => exact Or.inr (Or.inr ⟨rfl, rfl, rfl, rfl⟩)
    | na => exact Or.inr (Or.inr ⟨rfl, rfl, rfl, rfl⟩)
  | fc c ty => exact Or.inr (Or.inr ⟨rfl, rfl, rfl, rfl⟩)
  | mal c => exact Or.inr (Or.inr ⟨rfl, rfl, rfl, rfl⟩)
  | ban ip => exact Or.inr (Or.inr ⟨rfl, rfl, rfl, rfl⟩)
  | unban ip => exact Or.inr (Or.inr ⟨rfl, rfl, rfl, rfl⟩)
  | banp ip => exact Or.inr (Or.inr ⟨rfl, rfl, rfl, rfl⟩)
  | bans ip => right; right; simp only [Env.track]; split <;> exact ⟨rfl, rfl, rfl, rfl⟩
  | bl ip => exact Or.inr (Or.inr ⟨rfl, rfl, rfl, rfl⟩)
  | unbl ip => exact Or.inr (Or.inr ⟨rfl, rfl, rfl, rfl⟩)
  | blr g => exact Or.inr (Or.inr ⟨rfl, rfl, rfl, rfl⟩)
  | unblr g => exact Or.inr (Or.inr ⟨rfl, rfl, rfl, rfl⟩)
  | restart => exact Or.inr (Or.inr ⟨rfl, rfl, rfl, rfl⟩)
  | refill ip => exact Or.inr (Or.inr ⟨rfl, rfl, rfl, rfl⟩)
  | exp k => right; right; simp only [Env.track]; split <;> exact ⟨rfl, rfl, rfl, rfl⟩
  | unexp k => right; right; simp only [Env.track]; split <;> exact ⟨rfl, rfl, rfl, rfl⟩
  | claim k => right; right; simp only [Env.track]; split <;> exact ⟨rfl, rfl, rfl, rfl⟩
  | bind k => right; right; simp only [Env.track]; split <;> exact ⟨rfl, rfl, rfl, rfl⟩
  | ext k => right; right; simp only [Env.track]; split <;> exact ⟨rfl, rfl, rfl, rfl⟩
  | wl ip => exact Or.inr (Or.inr ⟨rfl, rfl, rfl, rfl⟩)
  | unwl ip => exact Or.inr (Or.inr ⟨rfl, rfl, rfl, rfl⟩)
  | issue b => exact Or.inr (Or.inr ⟨rfl, rfl, rfl, rfl⟩)
  | del k => right; right; simp only [Env.track]; split <;> exact ⟨rfl, rfl, rfl, rfl⟩
  | strip k st => right; right; simp only [Env.track]; split <;> exact ⟨rfl, rfl, rfl, rfl⟩

theorem track_hs_bans (g : Env) (now nc : Nat) (c : Nat) (ty : Ty) (k : CRef) (rr : RespRef) (r : RespObs) :
    (g.track now nc (.hs c ty k rr) r).xban = g.xban ∧ (g.track now nc (.hs c ty k rr) r).xperm = g.xperm := by
  cases r <;> try exact ⟨rfl, rfl⟩
  cases rr <;> try exact ⟨rfl, rfl⟩
  rename_i key nr
  cases hn : g.resolveN nr <;> simp [Env.track, Env.resolve, hn]

theorem track_xban (g : Env) (now nc : Nat) (e : Event) (r : RespObs) (ip : Nat)
    (h : (g.track now nc e r).xban ip = true) :
    (e = .ban ip ∨ e = .banp ip) ∨ (g.xban ip = true ∧ e ≠ .unban ip ∧ (e = .bans ip → g.xperm ip = true)) := by
  cases e with
  | hs c ty k rr => rw [(track_hs_bans g now nc c ty k rr r).1] at h; exact Or.inr ⟨h, by simp, by simp⟩
  | fc c ty => exact Or.inr ⟨h, by simp, by simp⟩
  | mal c => exact Or.inr ⟨h, by simp, by simp⟩
  | ban ip' =>
    simp only [Env.track, upd_apply] at h
    split at h
    · rename_i hh; left; left; rw [hh]
    · exact Or.inr ⟨h, by simp, by simp⟩
  | banp ip' =>
    simp only [Env.track, upd_apply] at h
    split at h
    · rename_i hh; left; right; rw [hh]
    · exact Or.inr ⟨h, by simp, by simp⟩
  | bans ip' =>
    simp only [Env.track] at h
    split at h
    · rename_i hx
      refine Or.inr ⟨h, by simp, ?_⟩
      intro he; cases he; exact hx
    · simp only [upd_apply] at h
      split at h
      · cases h
      · rename_i hh
        refine Or.inr ⟨h, by simp, ?_⟩
        intro he; cases he; exact absurd rfl hh
  | unban ip' =>
    simp only [Env.track, upd_apply] at h
    split at h
    · cases h
    · rename_i hh; exact Or.inr ⟨h, by simpa using fun h' => hh h'.symm, by simp⟩
  | bl ip' => exact Or.inr ⟨h, by simp, by simp⟩
  | unbl ip' => exact Or.inr ⟨h, by simp, by simp⟩
  | blr g' => exact Or.inr ⟨h, by simp, by simp⟩
  | unblr g' => exact Or.inr ⟨h, by simp, by simp⟩
  | restart => exact Or.inr ⟨h, by simp, by simp⟩
  | refill ip' => exact Or.inr ⟨h, by simp, by simp⟩
  | wl ip' => exact Or.inr ⟨h, by simp, by simp⟩
  | unwl ip' => exact Or.inr ⟨h, by simp, by simp⟩
  | issue b => exact Or.inr ⟨h, by simp, by simp⟩
  | exp k => right; refine ⟨?_, by simp, by simp⟩; simp only [Env.track] at h; split at h <;> exact h
  | unexp k => right; refine ⟨?_, by simp, by simp⟩; simp only [Env.track] at h; split at h <;> exact h
  | claim k => right; refine ⟨?_, by simp, by simp⟩; simp only [Env.track] at h; split at h <;> exact h
  | bind k => right; refine ⟨?_, by simp, by simp⟩; simp only [Env.track] at h; split at h <;> exact h
  | ext k => right; refine ⟨?_, by simp, by simp⟩; simp only [Env.track] at h; split at h <;> exact h
  | del k => right; refine ⟨?_, by simp, by simp⟩; simp only [Env.track] at h; split at h <;> exact h
  | strip k st => right; refine ⟨?_, by simp, by simp⟩; simp only [Env.track] at h; split at h <;> exact h

theorem track_xperm (g : Env) (now nc : Nat) (e : Event) (r : RespObs) (ip : Nat)
    (h : (g.track now nc e r).xperm ip = true) : e = .banp ip ∨ (g.xperm ip = true ∧ e ≠ .unban ip) := by
  cases e with
  | hs c ty k rr => rw [(track_hs_bans g now nc c ty k rr r).2] at h; exact Or.inr ⟨h, by simp⟩
  | fc c ty => exact Or.inr ⟨h, by simp⟩
  | mal c => exact Or.inr ⟨h, by simp⟩
  | ban ip' => exact Or.inr ⟨h, by simp⟩
  | banp ip' =>
    simp only [Env.track, upd_apply] at h
    split at h
    · rename_i hh; left; rw [hh]
    · exact Or.inr ⟨h, by simp⟩
  | bans ip' =>
    simp only [Env.track] at h
    split at h <;> exact Or.inr ⟨h, by simp⟩
  | unban ip' =>
    simp only [Env.track, upd_apply] at h
    split at h
    · cases h
    · rename_i hh; exact Or.inr ⟨h, by simpa using fun h' => hh h'.symm⟩
  | bl ip' => exact Or.inr ⟨h, by simp⟩
  | unbl ip' => exact Or.inr ⟨h, by simp⟩
  | blr g' => exact Or.inr ⟨h, by simp⟩
  | unblr g' => exact Or.inr ⟨h, by simp⟩
  | restart => exact Or.inr ⟨h, by simp⟩
  | refill ip' => exact Or.inr ⟨h, by simp⟩
  | wl ip' => exact Or.inr ⟨h, by simp⟩
  | unwl ip' => exact Or.inr ⟨h, by simp⟩
  | issue b => exact Or.inr ⟨h, by simp⟩
  | exp k => right; refine ⟨?_, by simp⟩; simp only [Env.track] at h; split at h <;> exact h
  | unexp k => right; refine ⟨?_, by simp⟩; simp only [Env.track] at h; split at h <;> exact h
  | claim k => right; refine ⟨?_, by simp⟩; simp only [Env.track] at h; split at h <;> exact h
  | bind k => right; refine ⟨?_, by simp⟩; simp only [Env.track] at h; split at h <;> exact h
  | ext k => right; refine ⟨?_, by simp⟩; simp only [Env.track] at h; split at h <;> exact h
  | del k => right; refine ⟨?_, by simp⟩; simp only [Env.track] at h; split at h <;> exact h
  | strip k st => right; refine ⟨?_, by simp⟩; simp only [Env.track] at h; split at h <;> exact h

theorem step_fields (s : Srv) (e : Event) :
    (step s e).1.ctl = (stepCore s e).1.ctl ∧ (step s e).1.nextNonce = (stepCore s e).1.nextNonce ∧
    (step s e).1.banned = (stepCore s e).1.banned ∧ (step s e).1.reg = (stepCore s e).1.reg ∧
    (step s e).1.nClients = (stepCore s e).1.nClients ∧ (step s e).1.nConns = (stepCore s e).1.nConns ∧
    (step s e).1.nIps = (stepCore s e).1.nIps ∧ (step s e).1.now = (stepCore s e).1.now ∧
    (step s e).1.ipOf = (stepCore s e).1.ipOf ∧
    (step s e).1.env = s.env.track s.now s.nClients e (stepCore s e).2 ∧ (step s e).2 = (stepCore s e).2 :=
  ⟨rfl, rfl, rfl, rfl, rfl, rfl, rfl, rfl, rfl, rfl, rfl⟩

theorem Inv.preserved {s : Srv} (I : Inv s) (e : Event) : Inv (Tunnox.C03.step s e).1 := by
  obtain ⟨q1, q2, q3, q4, q5, _, _, _, _, q10, _⟩ := step_fields s e
  have qp : (Tunnox.C03.step s e).1.perm = (stepCore s e).1.perm := rfl
  have sp := stepCore_spec s e
  generalize (stepCore s e).1 = s' at *
  generalize (stepCore s e).2 = r at *
  generalize hs'' : (Tunnox.C03.step s e).1 = s'' at *
  -- pendings: old, gone, or the fresh nonce on the event's connection
  have hp : ∀ c m, pend (s''.ctl c) = some m →
      (pend (s.ctl c) = some m) ∨ (e.conn? = some c ∧ m = s.nextNonce ∧ s'.nextNonce = s.nextNonce + 1 ∧
        (r = .ch s.nextNonce ∨ r = .none)) := by
    intro c m h
    rw [q1] at h
    rcases sp.pending c with a | a | ⟨a, b, d, f⟩
    · left; rw [← a]; exact h
    · rw [a] at h; cases h
    · right; rw [b] at h; exact ⟨a, by simpa using h.symm, d, f⟩
  have hn := sp.nonce
  have g1 : ∀ c n, pend (s''.ctl c) = some n → n < s''.nextNonce := by
    intro c n h
    rw [q2]
    rcases hp c n h with a | ⟨_, b, d, _⟩
    · have := I.i1 c n a; omega
    · omega
  have g5 : ∀ c c' n, pend (s''.ctl c) = some n → pend (s''.ctl c') = some n → c = c' := by
    intro c c' n h h'
    rcases hp c n h with a | ⟨a1, a2, _, _⟩ <;> rcases hp c' n h' with b | ⟨b1, b2, _, _⟩
    · exact I.i5 c c' n a b
    · have := I.i1 c n a; omega
    · have := I.i1 c' n b; omega
    · rw [a1] at b1; exact Option.some.inj b1
  have g6 : ∀ ip, s''.env.xban ip = true → s''.banned ip = true := by
    intro ip h
    rw [q10] at h
    rw [q3]
    rcases track_xban _ _ _ _ _ _ h with a | ⟨a, b, d⟩
    · exact sp.banev ip a
    · by_cases hb : e = .bans ip
      · exact sp.bans ip hb (I.i6p ip (d hb)) (I.i6 ip a)
      · exact sp.ban ip b hb (I.i6 ip a)
  have g6p : ∀ ip, s''.env.xperm ip = true → s''.perm ip = true := by
    intro ip h
    rw [q10] at h
    rcases track_xperm _ _ _ _ _ _ h with a | ⟨a, b⟩
    · rw [qp]; exact sp.permev ip a
    · rw [qp]; exact sp.perm ip b (I.i6p ip a)
  have g10 : ∀ c x, (pairOf (s''.ctl c)).2 = some x → x < s''.nClients := by
    intro c x h
    rw [q1] at h
    rw [q5]
    rcases sp.auth c with a | a | ⟨_, y, b, d⟩
    · rw [a] at h; have := I.i10 c x h; have := sp.ncl; omega
    · rw [a] at h; simp [pairOf] at h
    · rw [b] at h
      have hxy : y = x := by simpa using h
      subst hxy
      obtain ⟨_, _, d | d⟩ := d
      · obtain ⟨_, _, d1, d2, _⟩ := d; omega
      · obtain ⟨_, _, _, _, _, d1, _⟩ := d; have := sp.ncl; omega
  have g9 : ∀ x c, s''.reg x = some c → x < s''.nClients := by
    intro x c h
    rw [q4] at h
    rcases sp.reg x c h with a | ⟨_, b, _⟩
    · rw [q5]; have := I.i9 x c a; have := sp.ncl; omega
    · exact g10 c x (by rw [q1, b])
  rcases track_cases s.env s.now s.nClients e r with ⟨c, ty, k, rr, n, he, hr, t1, t2, t3, t4⟩ |
      ⟨c, ty, k, key, nr, n, he, hr, hres, t1, t2, t3, t4⟩ | ⟨t1, t2, t3, t4⟩
  · -- a challenge was delivered on `c`
    obtain ⟨hn0, hn1, c0, ty0, k0, rr0, he0, hpc⟩ := sp.rch n hr
    rw [he] at he0
    simp only [Event.hs.injEq] at he0
    obtain ⟨hc0, _, _, _⟩ := he0
    subst hc0
    have hconn : ∀ c1, e.conn? = some c1 → c1 = c := by
      intro c1 h; rw [he] at h; simp only [Event.conn?, Option.some.injEq] at h; exact h.symm
    have hl : ∀ d, s''.env.lastCh d = if d = c then some n else s.env.lastCh d := by
      intro d; rw [q10, t1]; rfl
    have hv : ∀ d, s''.env.prevCh d = if d = c then s.env.lastCh c else s.env.prevCh d := by
      intro d; rw [q10, t2]; rfl
    have g8s : ∀ m, m ∈ s''.env.seen → m < s''.nextNonce := by
      intro m hm
      rw [q10, t4] at hm
      rw [q2, hn1]
      rcases List.mem_cons.mp hm with hm | hm
      · omega
      · have := I.i8s m hm; omega
    refine ⟨g1, ?_, ?_, ?_, g5, g6, g6p, ?_, g8s, g9, g10⟩
    · intro d m h
      rw [q2, hn1]
      rw [hl, hv] at h
      by_cases hd : d = c
      · simp only [hd, if_true] at h
        rcases h with h | h
        · have : n = m := by simpa using h
          omega
        · have := I.i2 c m (Or.inl h); omega
      · simp only [hd, if_false] at h
        have := I.i2 d m h; omega
    · intro c1 m h
      rcases hp c1 m h with a | ⟨a1, a2, _, _⟩
      · have hm := I.i1 c1 m a
        obtain ⟨i3a, i3b⟩ := I.i3 c1 m a
        constructor
        · intro d hd
          rw [hl] at hd
          by_cases hdc : d = c
          · simp only [hdc, if_true] at hd
            have : n = m := by simpa using hd
            omega
          · simp only [hdc, if_false] at hd
            exact i3a d hd
        · intro d hd
          rw [hv] at hd
          by_cases hdc : d = c
          · simp only [hdc, if_true] at hd
            have hcc := i3a c hd
            -- then c1 = c, but the pending of c is now the fresh nonce
            subst hcc
            rw [q1, hpc] at h
            have : n = m := by simpa using h
            omega
          · simp only [hdc, if_false] at hd
            exact i3b d hd
      · have hc1 := hconn c1 a1
        subst hc1
        subst a2
        constructor
        · intro d hd
          rw [hl] at hd
          by_cases hdc : d = c1
          · exact hdc
          · simp only [hdc, if_false] at hd
            have := I.i2 d _ (Or.inl hd); omega
        · intro d hd
          rw [hv] at hd
          by_cases hdc : d = c1
          · simp only [hdc, if_true] at hd
            have := I.i2 c1 _ (Or.inl hd); omega
          · simp only [hdc, if_false] at hd
            have := I.i2 d _ (Or.inr hd); omega
    · intro c1 m h hmem
      rw [q10, t3] at hmem
      rcases hp c1 m h with a | ⟨_, a2, _, _⟩
      · exact I.i4 c1 m a hmem
      · have := I.i8 m hmem; omega
    · intro m hmem
      rw [q10, t3] at hmem
      rw [q2]
      have := I.i8 m hmem; omega
  · -- a phase 2 was accepted and acknowledged on `c`
    obtain ⟨c0, ty0, k0, rr0, he0, _, hpc, _, hj⟩ := sp.rok hr
    rw [he] at he0
    simp only [Event.hs.injEq] at he0
    obtain ⟨hc0, _, _, hrr0⟩ := he0
    subst hc0
    obtain ⟨_, _, hj | hj⟩ := hj
    · obtain ⟨_, hh, _⟩ := hj; rw [he] at hh; cases hh
    obtain ⟨ty1, key1, nr1, n1, he1, _, _, _, hres1, hp1, _⟩ := hj
    rw [he] at he1
    simp only [Event.hs.injEq, RespRef.hmac.injEq] at he1
    obtain ⟨_, _, _, _, hnr⟩ := he1
    subst hnr
    rw [hres] at hres1
    have hnn : n = n1 := by simpa using hres1
    subst hnn
    have hnot : ∀ c1 m, pend (s''.ctl c1) = some m → pend (s.ctl c1) = some m := by
      intro c1 m h
      rcases hp c1 m h with a | ⟨_, _, _, a4⟩
      · exact a
      · rcases a4 with a4 | a4 <;> rw [hr] at a4 <;> cases a4
    have g8s : ∀ m, m ∈ s''.env.seen → m < s''.nextNonce := by
      intro m hm
      rw [q10, t4] at hm
      rw [q2]
      have := I.i8s m hm; omega
    refine ⟨g1, ?_, ?_, ?_, g5, g6, g6p, ?_, g8s, g9, g10⟩
    · intro d m h
      rw [q10, t1, t2] at h
      rw [q2]
      have := I.i2 d m h; omega
    · intro c1 m h
      rw [q10, t1, t2]
      exact I.i3 c1 m (hnot c1 m h)
    · intro c1 m h hmem
      rw [q10, t3] at hmem
      have hold := hnot c1 m h
      rcases List.mem_cons.mp hmem with hm | hm
      · subst hm
        have := I.i5 c1 c m hold hp1
        subst this
        rw [q1, hpc] at h
        cases h
      · exact I.i4 c1 m hold hm
    · intro m hmem
      rw [q10, t3] at hmem
      rw [q2]
      rcases List.mem_cons.mp hmem with hm | hm
      · subst hm; have := I.i1 c m hp1; omega
      · have := I.i8 m hm; omega
  · -- the clients learned nothing new
    have g8s : ∀ m, m ∈ s''.env.seen → m < s''.nextNonce := by
      intro m hm
      rw [q10, t4] at hm
      rw [q2]
      have := I.i8s m hm; omega
    refine ⟨g1, ?_, ?_, ?_, g5, g6, g6p, ?_, g8s, g9, g10⟩
    · intro d m h
      rw [q10, t1, t2] at h
      rw [q2]
      have := I.i2 d m h; omega
    · intro c1 m h
      rw [q10, t1, t2]
      rcases hp c1 m h with a | ⟨_, a2, _, _⟩
      · exact I.i3 c1 m a
      · subst a2
        constructor
        · intro d hd; have := I.i2 d _ (Or.inl hd); omega
        · intro d hd; have := I.i2 d _ (Or.inr hd); omega
    · intro c1 m h hmem
      rw [q10, t3] at hmem
      rcases hp c1 m h with a | ⟨_, a2, _, _⟩
      · exact I.i4 c1 m a hmem
      · have := I.i8 m hmem; omega
    · intro m hmem
      rw [q10, t3] at hmem
      rw [q2]
      have := I.i8 m hmem; omega

theorem Inv.initial (now : Nat) (ips : List Nat) (nc burst : Nat) (secs : List SecState := []) : Inv (Srv.init now ips nc burst secs) := by
  refine ⟨?_, ?_, ?_, ?_, ?_, ?_, ?_, ?_, ?_, ?_, ?_⟩ <;> simp [Srv.init, pend, pairOf]

/-! ### the observer's predicate on the model's own observations -/

theorem getD_map_range {α} (f : Nat → α) (n c : Nat) (d : α) :
    ((List.range n).map f).getD c d = if c < n then f c else d := by
  simp only [List.getD_eq_getElem?_getD, List.getElem?_map]
  split <;> simp_all

theorem obs_conn (s : Srv) (c : Nat) :
    (obsState s).conn c = if c < s.nConns then (s.ctl c).map connObs else none := by
  simp only [ObsState.conn, obsState, getD_map_range]

theorem obs_lookup (s : Srv) (x : Nat) :
    (obsState s).lookups.getD x none = if x < s.nClients then s.reg x else none := by
  simp only [obsState, getD_map_range]

theorem obs_ban (s : Srv) (ip : Nat) :
    (obsState s).bans.getD ip false = if ip < s.nIps then s.banned ip else false := by
  simp only [obsState, getD_map_range]

theorem obs_bl (s : Srv) (ip : Nat) :
    (obsState s).bls.getD ip false = if ip < s.nIps then s.env.blocked ip else false := by
  simp only [obsState, getD_map_range]

theorem obs_lens (s : Srv) : (obsState s).conns.length = s.nConns ∧ (obsState s).lookups.length = s.nClients := by
  simp [obsState]

theorem authPair_map (o : Option Ctl) : authPair (o.map connObs) = pairOf o := by
  cases o <;> rfl

theorem justified_of_Jm {s : Srv} (I : Inv s) {e : Event} {o : StepObs} {c x : Nat}
    (h : Jm s e o.resp o.st.lookups.length c x) :
    justified s.now s.ipOf (proj s) e o c x = true := by
  obtain ⟨hbl, hban, h⟩ := h
  have hx : s.env.xban (s.ipOf c) = false := by
    cases hh : s.env.xban (s.ipOf c) with
    | false => rfl
    | true => have := I.i6 _ hh; rw [hban] at this; cases this
  have hgate : gateOpen (proj s) (s.ipOf c) = true := by
    simp only [gateOpen, proj, obs_ban, obs_bl, hx, hbl, hban]
    simp
  unfold justified
  rw [hgate]
  rcases h with ⟨ty, he, h1, h2, h3⟩ | ⟨ty, key, nr, n, he, h1, h2, h3, h4, h5, h6⟩
  · subst he
    simp only [proj, (obs_lens s).2, Bool.true_and, beq_self_eq_true, Bool.and_eq_true, beq_iff_eq, Bool.or_eq_true]
    exact ⟨⟨h1, h2⟩, h3⟩
  · subst he
    subst h3
    obtain ⟨i3a, i3b⟩ := I.i3 c n h5
    have hlast : s.env.lastCh c = some n := by
      cases nr with
      | last d =>
        simp only [Env.resolveN] at h4
        have := i3a d h4
        subst this
        exact h4
      | prev d =>
        simp only [Env.resolveN] at h4
        exact absurd h4 (i3b d)
    have hused : s.env.usedSeen.contains n = false := by
      cases hh : s.env.usedSeen.contains n with
      | false => rfl
      | true => exact absurd (List.contains_iff_mem.mp hh) (I.i4 c n h5)
    simp only [proj, (obs_lens s).2, h4, hlast, hused, h2, Bool.true_and, beq_self_eq_true, Bool.and_eq_true, beq_iff_eq,
      Bool.or_eq_true, decide_eq_true_eq, Bool.not_false, Bool.and_true]
    refine ⟨h1, ?_⟩
    rcases h6 with h6 | h6
    · left; exact h6
    · right; exact h6

theorem holdsStep_model {s : Srv} (I : Inv s) (e : Event) :
    holdsStep s.now s.ipOf (proj s) e ⟨(step s e).2, obsState (step s e).1⟩ = true := by
  obtain ⟨q1, _, _, q4, q5, q6, _, _, _, _, q11⟩ := step_fields s e
  have sp := stepCore_spec s e
  generalize (stepCore s e).1 = s' at *
  generalize (stepCore s e).2 = r at *
  generalize hs'' : (step s e).1 = s'' at *
  rw [q11]
  have hnc : s''.nConns = s.nConns := by rw [q6]; exact sp.frame.2.1
  have hJ : ∀ c x, Jm s e r s'.nClients c x → justified s.now s.ipOf (proj s) e ⟨r, obsState s''⟩ c x = true := by
    intro c x h
    apply justified_of_Jm I
    simp only [(obs_lens s'').2, q5]
    exact h
  unfold holdsStep
  simp only [Bool.and_eq_true]
  refine ⟨⟨⟨?_, ?_⟩, ?_⟩, ?_⟩
  rotate_right
  · -- H4
    unfold h4
    cases hr : r with
    | ch n =>
      obtain ⟨hn0, _⟩ := sp.rch n hr
      simp only [proj, Bool.not_eq_true']
      cases hc : s.env.seen.contains n with
      | false => rfl
      | true => have := I.i8s n (List.contains_iff_mem.mp hc); omega
    | ok => rfl
    | new x => rfl
    | fail => rfl
    | none => rfl
    | na => rfl
  · -- H1
    unfold h1
    rw [List.all_eq_true]
    intro c hc
    simp only [List.mem_range, (obs_lens s'').1] at hc
    have hc' : c < s.nConns := by omega
    simp only [obs_conn, hc, hc', if_true, proj, authPair_map, q1]
    split
    · rename_i hcond
      simp only [Bool.and_eq_true, bne_iff_ne, ne_eq] at hcond
      rcases sp.auth c with a | a | ⟨a, x, b, d⟩
      · exact absurd a hcond.2
      · rw [a] at hcond; simp [pairOf] at hcond
      · rw [b]
        simp only [a, beq_self_eq_true, Bool.true_and]
        exact hJ c x d
    · rfl
  · -- H3
    unfold h3
    rw [List.all_eq_true]
    intro x hx
    simp only [List.mem_range, (obs_lens s'').2] at hx
    simp only [obs_lookup, hx, if_true, proj, q4]
    cases hreg : s'.reg x with
    | none => rfl
    | some c =>
      simp only []
      rcases sp.reg x c hreg with a | ⟨a, b, d, f, g⟩
      · have hxs := I.i9 x c a
        simp [hxs, a]
      · have hcc : c < s''.nConns := by omega
        have : (e.conn? == some c && authAs ((obsState s'').conn c) x && r != .fail && r != .na) = true := by
          simp only [a, beq_self_eq_true, Bool.true_and, authAs, obs_conn, hcc, if_true, authPair_map, q1, b,
            Bool.and_eq_true, bne_iff_ne, ne_eq]
          exact ⟨d, f⟩
        simp [this]
  · -- H5
    unfold h5
    cases hr : r with
    | ok =>
      obtain ⟨c, ty, k, rr, he, hlt, _, hpair, hj⟩ := sp.rok hr
      subst he
      have hcc : c < s''.nConns := by omega
      simp only [Bool.and_eq_true, authAs, obs_conn, hcc, if_true, authPair_map, q1, hpair, beq_self_eq_true, and_true]
      rw [← hr]; exact hJ c k hj
    | new x =>
      obtain ⟨c, ty, he, hlt, hpair, hj⟩ := sp.rnew x hr
      subst he
      have hcc : c < s''.nConns := by omega
      simp only [Bool.and_eq_true, authAs, obs_conn, hcc, if_true, authPair_map, q1, hpair, beq_self_eq_true, and_true]
      rw [← hr]; exact hJ c x hj
    | ch n => rfl
    | fail => rfl
    | none => rfl
    | na => rfl

theorem proj_step (s : Srv) (e : Event) :
    (proj s).next s.now e ⟨(step s e).2, obsState (step s e).1⟩ = proj (step s e).1 := by
  simp only [Track.next, proj, (obs_lens s).2]
  rfl

theorem step_now_ipOf (s : Srv) (e : Event) : (step s e).1.now = s.now ∧ (step s e).1.ipOf = s.ipOf := by
  have sp := stepCore_spec s e
  exact ⟨sp.frame.1, sp.frame.2.2.1⟩

theorem holdsFrom_run {s : Srv} (I : Inv s) (es : List Event) :
    holdsFrom s.now s.ipOf (proj s) es (run s es) = true := by
  induction es generalizing s with
  | nil => rfl
  | cons e es ih =>
    simp only [run, holdsFrom, Bool.and_eq_true]
    refine ⟨holdsStep_model I e, ?_⟩
    rw [proj_step]
    have := ih (I.preserved e)
    rw [(step_now_ipOf s e).1, (step_now_ipOf s e).2] at this
    exact this

/-! ### every challenge is accepted at most once (ghost list `accepted` of ALL accepted phase-2 nonces) -/

theorem pend_step (s : Srv) (e : Event) (c m : Nat) (h : pend ((step s e).1.ctl c) = some m) :
    pend (s.ctl c) = some m ∨ (e.conn? = some c ∧ m = s.nextNonce ∧ (step s e).1.nextNonce = s.nextNonce + 1) := by
  have sp := stepCore_spec s e
  have q1 : (step s e).1.ctl = (stepCore s e).1.ctl := rfl
  have q2 : (step s e).1.nextNonce = (stepCore s e).1.nextNonce := rfl
  rw [q1] at h
  rcases sp.pending c with a | a | ⟨a, b, d, _⟩
  · left; rw [← a]; exact h
  · rw [a] at h; cases h
  · right; rw [b] at h; exact ⟨a, by simpa using h.symm, by rw [q2]; exact d⟩

structure AccInv (s : Srv) : Prop where
  /-- a pending challenge was never accepted -/
  a1 : ∀ c n, pend (s.ctl c) = some n → n ∉ s.accepted
  /-- no nonce was accepted twice -/
  a2 : s.accepted.Nodup
  /-- accepted nonces were issued -/
  a3 : ∀ n, n ∈ s.accepted → n < s.nextNonce

theorem AccInv.preserved {s : Srv} (I : Inv s) (A : AccInv s) (e : Event) : AccInv (Tunnox.C03.step s e).1 := by
  have sp := stepCore_spec s e
  have q1 : (Tunnox.C03.step s e).1.ctl = (stepCore s e).1.ctl := rfl
  have q2 : (Tunnox.C03.step s e).1.nextNonce = (stepCore s e).1.nextNonce := rfl
  have q3 : (Tunnox.C03.step s e).1.accepted = (stepCore s e).1.accepted := rfl
  have hn := sp.nonce
  rcases sp.acc with hacc | ⟨c, n, hc, hp, hacc, hnone⟩
  · refine ⟨?_, by rw [q3, hacc]; exact A.a2, ?_⟩
    · intro c1 m h hm
      rw [q3, hacc] at hm
      rcases pend_step s e c1 m h with a | ⟨_, a, _⟩
      · exact A.a1 c1 m a hm
      · have := A.a3 m hm; omega
    · intro m hm
      rw [q3, hacc] at hm
      rw [q2]
      have := A.a3 m hm; omega
  · refine ⟨?_, ?_, ?_⟩
    · intro c1 m h hm
      rw [q3, hacc] at hm
      rcases pend_step s e c1 m h with a | ⟨a1, a2, _⟩
      · rcases List.mem_cons.mp hm with hm | hm
        · subst hm
          have := I.i5 c1 c m a hp
          subst this
          rw [q1, hnone] at h
          cases h
        · exact A.a1 c1 m a hm
      · rw [hc] at a1
        have : c = c1 := by simpa using a1
        subst this
        rw [q1, hnone] at h
        cases h
    · rw [q3, hacc]
      exact List.nodup_cons.mpr ⟨A.a1 c n hp, A.a2⟩
    · intro m hm
      rw [q3, hacc] at hm
      rw [q2]
      rcases List.mem_cons.mp hm with hm | hm
      · subst hm; have := I.i1 c m hp; omega
      · have := A.a3 m hm; omega

theorem AccInv.initial (now : Nat) (ips : List Nat) (nc burst : Nat) (secs : List SecState := []) : AccInv (Srv.init now ips nc burst secs) := by
  refine ⟨?_, ?_, ?_⟩ <;> simp [Srv.init, pend]

theorem reachable_invs (s : Srv) (I : Inv s) (A : AccInv s) (es : List Event) :
    Inv (runState s es) ∧ AccInv (runState s es) := by
  induction es generalizing s with
  | nil => exact ⟨I, A⟩
  | cons e es ih => exact ih _ (I.preserved e) (A.preserved I e)

/-! ### the client index is sound (since the registry drops index entries by identity) -/

/-- `GetControlConnectionByClientID(y) = c` implies `c` is authenticated as `y` -/
def RegSound (s : Srv) : Prop := ∀ y c, s.reg y = some c → pairOf (s.ctl c) = (true, some y)

theorem unindex_some {reg : Nat → Option Nat} {o y c : Nat} (h : unindex reg o y = some c) : reg y = some c ∧ c ≠ o := by
  simp only [unindex] at h
  split at h
  · exact absurd h (by simp)
  · rename_i hne
    refine ⟨h, ?_⟩
    intro hc; subst hc
    exact hne (by simp [h])

theorem removeConn_sound {s : Srv} (R : RegSound s) (o : Nat) : RegSound (removeConn s o) := by
  unfold removeConn
  split
  · exact R
  · intro y c h
    obtain ⟨h1, h2⟩ := unindex_some h
    simp only [upd_other _ _ _ _ h2]
    exact R y c h1

theorem evictOld_sound {s : Srv} (R : RegSound s) (c x : Nat) :
    RegSound (evictOld s c x) ∧ (evictOld s c x).ctl c = s.ctl c := by
  unfold evictOld
  split
  · rename_i o _
    split
    · rename_i hne
      have hne : o ≠ c := by simpa using hne
      refine ⟨removeConn_sound R o, ?_⟩
      exact (removeConn_spec s o).2.2.2.2.2.2.2.2.2.1 c (Ne.symm hne)
    · exact ⟨R, rfl⟩
  · exact ⟨R, rfl⟩

theorem updateAuth_sound {s : Srv} (R : RegSound s) (c x : Nat) : RegSound (updateAuth s c x) := by
  intro y c' h
  simp only [updateAuth, upd_apply] at h
  split at h
  · rename_i hyx
    have : c' = c := by simpa using h.symm
    subst this; subst hyx
    simp [updateAuth, pairOf]
  · obtain ⟨h1, h2⟩ := unindex_some h
    simp only [updateAuth, upd_other _ _ _ _ h2]
    exact R y c' h1

theorem respondOk_sound {t : Srv} (R : RegSound t) (c : Nat) (ty : Ty) (res : HRes) :
    RegSound (respondOk t c ty res).1 := by
  unfold respondOk
  split
  · exact R
  · split
    · exact updateAuth_sound (evictOld_sound R c _).1 c _
    · exact R

theorem respond_sound {t : Srv} (c : Nat) (ty : Ty) (res : HRes) (h1 : res = .err → RegSound t)
    (h2 : res ≠ .err → ∀ y c', t.reg y = some c' → (c' ≠ c ∨ (getCtl t c).id = some y) →
      pairOf (t.ctl c') = (true, some y)) : RegSound (respond t c ty res).1 := by
  unfold respond
  split
  · rename_i herr; exact h1 (by simpa using herr)
  · rename_i herr
    have herr : res ≠ .err := by simpa using herr
    apply respondOk_sound
    intro y c' h
    simp only [dropStaleIndex] at h ⊢
    split at h
    · exact absurd h (by simp)
    · rename_i hk
      refine h2 herr y c' h ?_
      by_cases hc : c' = c
      · right
        subst hc
        simp only [h, beq_self_eq_true, Bool.true_and, bne_iff_ne, ne_eq, Decidable.not_not] at hk
        exact hk
      · exact Or.inl hc

theorem handleHandshake_sound {s : Srv} (R : RegSound s) (c : Nat) (ty : Ty) (req : Req) :
    RegSound (handleHandshake s c ty req).1 := by
  unfold handleHandshake
  split
  · exact R
  · obtain ⟨e1, e2, e3, e4, _, _, _, _, _, _, e11, _⟩ := ensureCtl_spec s c
    obtain ⟨f1, f2, f3, _⟩ := HandleHandshake_spec (ensureCtl s c) c req
    obtain ⟨_, _, _, _, _, g6, _, _⟩ := f1
    generalize (HandleHandshake (ensureCtl s c) c req).1 = t at *
    generalize (HandleHandshake (ensureCtl s c) c req).2 = res at *
    obtain ⟨m1, _⟩ := AOut_mid f3 (by rw [e2]; exact e1)
    rw [e4] at m1
    have hother : ∀ y c', c' ≠ c → t.reg y = some c' → pairOf (t.ctl c') = (true, some y) := by
      intro y c' hc h
      rw [g6, e11] at h
      rw [f2 c' hc, e3 c' hc]
      exact R y c' h
    apply respond_sound
    · intro herr y c' h
      by_cases hc : c' = c
      · subst hc
        rcases m1 with m | ⟨x, _, hj⟩
        · rw [m]; rw [g6, e11] at h; exact R y c' h
        · rcases hj with ⟨_, _, _, hh⟩ | ⟨_, _, _, _, _, _, _, hh⟩ <;> rw [herr] at hh <;> cases hh
      · exact hother y c' hc h
    · intro _ y c' h hor
      by_cases hc : c' = c
      · subst hc
        have hid : (getCtl t c').id = some y := by
          rcases hor with hor | hor
          · exact absurd rfl hor
          · exact hor
        have hold : pairOf (s.ctl c') = (true, some y) := by rw [g6, e11] at h; exact R y c' h
        rcases m1 with m | ⟨x, hx, _⟩
        · rw [m]; exact hold
        · cases ht : t.ctl c' with
          | none => rw [ht] at hx; simp [pairOf] at hx
          | some o =>
            rw [ht] at hx
            simp only [getCtl, ht, Option.getD_some] at hid
            simp only [pairOf, Prod.mk.injEq] at hx ⊢
            exact ⟨hx.1, hid⟩
      · exact hother y c' hc h

theorem step_sound {s : Srv} (R : RegSound s) (e : Event) : RegSound (Tunnox.C03.step s e).1 := by
  have h : RegSound (stepCore s e).1 := by
    cases e with
    | fc c ty => exact handleHandshake_sound R c ty _
    | hs c ty k rr => exact handleHandshake_sound R c ty _
    | mal c => exact R
    | ban ip => exact R
    | unban ip => exact R
    | banp ip => exact R
    | bans ip => simp only [stepCore]; split <;> exact R
    | bl ip => exact R
    | unbl ip => exact R
    | blr g => exact R
    | unblr g => exact R
    | restart => exact R
    | refill ip => exact R
    | exp k => exact R
    | wl ip => exact R
    | unwl ip => exact R
    | unexp k => exact R
    | claim k => exact R
    | bind k => exact R
    | ext k => exact R
    | issue b => exact R
    | del k => exact R
    | strip k st => exact R
  exact h

theorem reachable_sound (s : Srv) (R : RegSound s) (es : List Event) : RegSound (runState s es) := by
  induction es generalizing s with
  | nil => exact R
  | cons e es ih => exact ih _ (step_sound R e)
