import TunnoxModel.Proofs.C14Base
/-! C14 — the local half of "read-modify-write calls are exclusive": in the repaired code every tier write
of a lock-guarded call is performed at a program point that takes or already holds the per-key lock. -/
namespace Tunnox.C14

/-- Program points inside a critical section of the key lock. -/
def inCSpc (pc : PC) : Bool :=
  match pc with
  | .readP | .wb _ _ | .write _ _ | .writeC _ _ _ | .delP _ | .expW _ _ _ => true
  | _ => false

theorem writeStep_guard (R : Route) (tid : Nat) (ft : Option Tier) (σ : St) (th : Thread) (v : Val) (ttl : Nat) :
    ∀ e ∈ (writeStep R tid ft σ th v ttl).evs, e.tid = tid := by
  unfold writeStep
  intro e he
  split at he <;> split at he <;> simp at he <;> rw [he]

set_option maxHeartbeats 1000000 in
/-- Every tier write (`Set`/`Delete` of a tier) that a Get/GetList/Set/Delete/AppendToList/RemoveFromList/
SetExpiration call performs happens at a step that needs the key lock to be free (and takes it) or inside
the critical section: `enabled` lets such a step run only when nobody else holds the lock. -/
theorem write_needs_lock (R : Route) (tid : Nat) (ft : Option Tier) (σ : St) (th : Thread) :
    ∀ e ∈ (stepThread true R tid ft σ th).evs, isGuardedOp th.op = true → isWriteAct e.act = true →
      needsLock th.op th.pc = true ∨ inCSpc th.pc = true := by
  obtain ⟨op, pc, inv, ret, res, cver, rver, node⟩ := th
  cases op <;> cases pc <;> intro e he hg hw <;>
    first
    | (simp [isGuardedOp] at hg; done)
    | (simp [needsLock, inCSpc]; done)
    | (simp only [stepThread] at he
       repeat' split at he
       all_goals simp at he
       all_goals (try subst he)
       all_goals simp_all [isWriteAct, needsLock, inCSpc])

end Tunnox.C14
