import TunnoxModel.Spec.C01
import TunnoxModel.Proofs.C01
/-! A packet the reader rejects by its flag bits is consumed exactly: the stream stays aligned. -/
namespace Tunnox
namespace C01
open Gen

/-- The wire form of a non-heartbeat packet with type byte `t` and wire body `body`. -/
def frame (t : Nat) (body : Bytes) : Bytes := UInt8.ofNat t :: (be32 body.length ++ body)

theorem encrypted_false_of_lt : ∀ t, t < 128 → packet.Type.IsEncrypted t = false := by decide

theorem parse_rejected (c : Codec) (t : Nat) (ht : t < 256) (hr : rejected t = true) (body : Bytes)
    (hb : body.length ≤ constants.MaxPacketBodySize) (rest : Bytes) :
    parseFlat c (frame t body ++ rest) = (.fail .encrypted, rest) := by
  have htb : (UInt8.ofNat t).toNat = t := by simp; omega
  simp only [rejected, Bool.and_eq_true, Bool.not_eq_true'] at hr
  obtain ⟨he, hh⟩ := hr
  simp only [frame, List.cons_append, parseFlat, htb, hh, Bool.false_eq_true, if_false]
  have h4 : ¬ (be32 body.length ++ body ++ rest).length < constants.PacketBodySizeBytes := by
    simp [be32_length, constants.PacketBodySizeBytes]
  have htake : List.take constants.PacketBodySizeBytes (be32 body.length ++ body ++ rest) = be32 body.length := by
    rw [List.append_assoc, List.take_append_of_le_length (by simp [be32_length, constants.PacketBodySizeBytes])]
    exact List.take_of_length_le (by simp [be32_length, constants.PacketBodySizeBytes])
  have hdrop : List.drop constants.PacketBodySizeBytes (be32 body.length ++ body ++ rest) = body ++ rest := by
    rw [List.append_assoc, List.drop_append_of_le_length (by simp [be32_length, constants.PacketBodySizeBytes])]
    rw [List.drop_of_length_le (by simp [be32_length, constants.PacketBodySizeBytes])]
    rfl
  have hun : unbe32 (be32 body.length) = body.length := unbe32_be32 _ (Nat.lt_of_le_of_lt hb max_lt)
  simp only [h4, if_false, htake, hdrop, hun]
  have hnb : ¬ body.length > constants.MaxPacketBodySize := Nat.not_lt.mpr hb
  simp only [hnb, if_false]
  have hnl : ¬ (body ++ rest).length < body.length := by simp
  simp only [hnl, if_false, List.take_left', List.drop_left']
  simp [finish, he]

/-- Decoding a well-formed prefix and then whatever follows. -/
theorem parseAll_encodeAll_append (c : Codec) (hrt : c.RT) (ps : List Pkt) (hwf : ∀ p ∈ ps, WF c p) (f : Nat)
    (x : Bytes) :
    parseAll c (ps.length + f) (encodeAll c ps ++ x) =
      ⟨ps.map norm ++ (parseAll c f x).pkts, (parseAll c f x).stop, (parseAll c f x).leftover⟩ := by
  induction ps with
  | nil => simp [encodeAll]
  | cons p ps ih =>
    have hp := hwf p (List.mem_cons_self ..)
    have hps : ∀ q ∈ ps, WF c q := fun q hq => hwf q (List.mem_cons_of_mem _ hq)
    have e : encodeAll c (p :: ps) ++ x = encode c p ++ (encodeAll c ps ++ x) := by simp [encodeAll]
    have hf : (p :: ps).length + f = (ps.length + f) + 1 := by simp; omega
    rw [e, hf, parseAll, parse_encode c hrt p hp]
    simp [ih hps, norm]

theorem not_rejected_of_WF (c : Codec) (p : Pkt) (h : WF c p) : rejected (wireType p) = false := by
  simp [rejected, encrypted_false_of_lt _ (wireType_lt p h.1)]

theorem wireType_lt_256 (p : Pkt) (h : p.ty < 256) : wireType p < 256 := by
  unfold wireType
  cases p.comp
  · simpa using h
  · simp only [if_true]
    exact Nat.or_lt_two_pow (n := 8) h (by decide)

theorem encode_eq_frame (c : Codec) (p : Pkt) (hh : packet.Type.IsHeartbeat (wireType p) = false) :
    encode c p = frame (wireType p) (wireBody c p) := by
  simp [encode, frame, hh]

theorem split_at_rejected (c : Codec) (pre : List Pkt) (hwf : ∀ q ∈ pre, WF c q) (p : Pkt)
    (hr : rejected (wireType p) = true) (post : List Pkt) :
    (pre ++ p :: post).dropWhile (fun q => !rejected (wireType q)) = p :: post ∧
    (pre ++ p :: post).takeWhile (fun q => !rejected (wireType q)) = pre := by
  induction pre with
  | nil => simp [List.dropWhile, List.takeWhile, hr]
  | cons a t ih =>
    have ha := not_rejected_of_WF c a (hwf a (List.mem_cons_self ..))
    have ht := ih (fun q hq => hwf q (List.mem_cons_of_mem _ hq))
    simp [List.dropWhile, List.takeWhile, ha, ht.1, ht.2]

end C01
end Tunnox
