import TunnoxModel.Proofs.C19SimF
/-!
  C19 — simulation for the status knowledge of the monitor (`updFly`, `tainted`, `lastQuiet`, `lookBad`):
  a mapping the monitor knows to be inactive / expired (`lastQuiet = false`, no update in flight) has a
  stored record that does not route.
-/
namespace Tunnox.C19
open Gen

/-! ### association lists keyed by thread id -/

theorem assocD_cons_filter (l : List (Nat × List Nat)) (t t' : Nat) (x : List Nat) :
    assocD ((t, x) :: l.filter (·.1 != t)) t' = if t' = t then x else assocD l t' := by
  unfold assocD
  by_cases e : t' = t
  · subst e; simp
  · have e' : (t == t') = false := by simp; exact fun h => e h.symm
    simp only [List.find?_cons, e', e, if_false]
    induction l with
    | nil => rfl
    | cons p l ih =>
      by_cases hp : p.1 = t
      · have : (p.1 != t) = false := by simp [hp]
        have hp' : (p.1 == t') = false := by simp [hp]; exact fun h => e h.symm
        simp only [List.filter_cons, this, Bool.false_eq_true, if_false, List.find?_cons, hp']
        exact ih
      · have : (p.1 != t) = true := by simp [hp]
        simp only [List.filter_cons, this, if_true, List.find?_cons]
        cases hq : (p.1 == t')
        · simp only; exact ih
        · rfl

theorem assocD_filter (l : List (Nat × List Nat)) (t t' : Nat) :
    assocD (l.filter (·.1 != t)) t' = if t' = t then [] else assocD l t' := by
  unfold assocD
  induction l with
  | nil => simp
  | cons p l ih =>
    by_cases hp : p.1 = t
    · have : (p.1 != t) = false := by simp [hp]
      simp only [List.filter_cons, this, Bool.false_eq_true, if_false, List.find?_cons]
      by_cases e : t' = t
      · simp only [e, if_true] at ih ⊢; exact ih
      · have hp' : (p.1 == t') = false := by simp [hp]; exact fun h => e h.symm
        simp only [hp', e, if_false] at ih ⊢; exact ih
    · have : (p.1 != t) = true := by simp [hp]
      simp only [List.filter_cons, this, if_true, List.find?_cons]
      cases hq : (p.1 == t')
      · simp only; exact ih
      · have : t' ≠ t := by
          intro e; subst e
          simp only [beq_iff_eq] at hq; exact hp hq
        simp [this]

theorem assocD_dropId (l : List (Nat × List Nat)) (n t' : Nat) :
    assocD (dropId n l) t' = (assocD l t').filter (· != n) := by
  unfold assocD dropId
  induction l with
  | nil => simp
  | cons p l ih =>
    simp only [List.map_cons, List.find?_cons]
    cases hq : (p.1 == t')
    · simp only; exact ih
    · rfl

end Tunnox.C19
namespace Tunnox.C19
open Gen

structure SimU (now : Nat) (c : Cfg) (m : Mon) : Prop where
  fly1 : ∀ t n, (t, n) ∈ m.updFly → ∃ st e th tp, InFlight (c.th t) (.upd n st e th tp)
  fly2 : ∀ t n st e th tp, InFlight (c.th t) (.upd n st e th tp) → (t, n) ∈ m.updFly
  taint : ∀ t n, (t, n) ∈ m.updFly → t ∉ m.tainted → ∀ t', (t', n) ∈ m.updFly → t' = t
  quiet : ∀ n b, (n, b) ∈ m.lastQuiet → (∀ t, (t, n) ∉ m.updFly) ∧ c.st.written n = true ∧
    ∀ r, c.st.data n = some r → routableSt now r.Status r.ExpiresAt = b
  uniq : ∀ n b b', (n, b) ∈ m.lastQuiet → (n, b') ∈ m.lastQuiet → b = b'
  bad : ∀ t n, n ∈ assocD m.lookBad t → (n, false) ∈ m.lastQuiet

theorem SimU.init (now : Nat) (i : Input) : SimU now (initCfg i) {} := by
  refine ⟨?_, ?_, ?_, ?_, ?_, ?_⟩
  · intro t n h; simp at h
  · intro t n st e th tp h; obtain ⟨_, _, h2⟩ := h; exact absurd rfl h2
  · intro t n h; simp at h
  · intro n b h; simp at h
  · intro n b b' h; simp at h
  · intro t n h; simp [assocD] at h

section
variable {cf : Config} {ops : List Op} {exts : List PM} {c : Cfg} {m : Mon} {now : Nat}

/-- The record of a written mapping is changed only by its creator's store (excluded once written), by an
update of that very mapping at its write step, or removed. -/
theorem Inv.data_step (hI : Inv cf ops exts c) (t n : Nat) (hw : c.st.written n = true)
    (hnot : ∀ st e th tp rest r, (c.th t).todo = .upd n st e th tp :: rest → (c.th t).pc ≠ .uSet r) :
    ∀ r, (stepThread cf c t).1.st.data n = some r → c.st.data n = some r := by
  intro r hd
  cases hto : (c.th t).todo with
  | nil => rw [stepThread_nil cf c t hto] at hd; exact hd
  | cons op rest =>
    rw [stepThread_st cf c t op rest hto] at hd
    rcases stepOp_data cf c.st op (c.th t).pc with e | ⟨k, r', hpc, e⟩ | ⟨k, st, e', th, tp, r', hop, hpc, e⟩ | ⟨k, cl, r', hop, hpc, e⟩
    · rw [e] at hd; exact hd
    · rw [e] at hd
      have hne : n ≠ k := by
        intro e''; subst e''
        have hl := hI.linv hto
        rw [hpc] at hl
        cases op <;> simp only [LInv] at hl
        rw [hl.2] at hw; cases hw
      simp only [upd_other _ _ _ _ hne] at hd; exact hd
    · rw [e] at hd
      have hne : n ≠ k := by
        intro e''; subst e''
        subst hop
        exact hnot st e' th tp rest r' hto hpc
      simp only [upd_other _ _ _ _ hne] at hd; exact hd
    · rw [e] at hd
      by_cases hne : n = k
      · subst hne; simp at hd
      · simp only [upd_other _ _ _ _ hne] at hd; exact hd

/-- A step of a thread whose current operation is not an update, with the status fields of the monitor
unchanged except (possibly) `lookBad`. -/
theorem SimU.step_nonupd (hI : Inv cf ops exts c) (hS : SimU now c m) (t : Nat) {o rest}
    (hto : (c.th t).todo = o :: rest) (hnu : ∀ n st e th tp, o ≠ .upd n st e th tp) (m' : Mon)
    (e1 : m'.updFly = m.updFly) (e2 : m'.tainted = m.tainted) (e3 : m'.lastQuiet = m.lastQuiet)
    (hbad : ∀ t' n, n ∈ assocD m'.lookBad t' → (n, false) ∈ m.lastQuiet) :
    SimU now (stepThread cf c t).1 m' := by
  have hne : ∀ t' n, (t', n) ∈ m.updFly → t' ≠ t := by
    intro t' n h e; subst e
    obtain ⟨st, e', th, tp, hf⟩ := hS.fly1 t' n h
    exact hnu _ _ _ _ _ (inflight_head hto hf).1.symm
  refine ⟨?_, ?_, by rw [e1, e2]; exact hS.taint, ?_, by rw [e3]; exact hS.uniq, by rw [e3]; exact hbad⟩
  · intro t' n h
    rw [e1] at h
    rw [stepThread_others cf c t t' (hne t' n h)]
    exact hS.fly1 t' n h
  · intro t' n st e th tp h
    rw [e1]
    by_cases e' : t' = t
    · subst e'
      exact absurd ((inflight_actor cf c t' o rest hto _).mp h).2.symm (hnu _ _ _ _ _)
    · rw [stepThread_others cf c t t' e'] at h; exact hS.fly2 t' n st e th tp h
  · intro n b h
    rw [e3] at h; rw [e1]
    obtain ⟨h1, h2, h3⟩ := hS.quiet n b h
    refine ⟨h1, hI.written_mono t n h2, ?_⟩
    intro r hr
    refine h3 r (hI.data_step t n h2 ?_ r hr)
    intro st e th tp rest' r' hto'
    rw [hto] at hto'; injection hto' with hto' _
    exact absurd hto' (hnu _ _ _ _ _)

theorem stepUpdate_uSet {s n st e th tp r} : (stepUpdate s n st e th tp (.uSet r)).2.2 = some .ok := rfl
theorem stepUpdate_idle {s n st e th tp} : (stepUpdate s n st e th tp .idle).2.2 = none := rfl

theorem SimU.step_update (i : Input) (hI : Inv cf ops exts c) (hnow : now = i.cf.now) (hS : SimU now c m)
    (t : Nat) {n st e th tp rest} (hto : (c.th t).todo = .upd n st e th tp :: rest) :
    SimU now (stepThread cf c t).1 (monSlot i m (stepThread cf c t).2) := by
  have hoth : ∀ t', t' ≠ t → (stepThread cf c t).1.th t' = c.th t' := fun t' h => stepThread_others cf c t t' h
  have hafter := inflight_actor cf c t _ rest hto
  rw [stepThread_slot cf c t _ rest hto, monSlot_eq]
  simp only [stepOp]
  by_cases hidle : (c.th t).pc = .idle
  · -- invocation
    have hb : (c.th t).pc.isIdle = true := by rw [hidle]; rfl
    have hres : (stepUpdate c.st n st e th tp (c.th t).pc).2.2 = none := by rw [hidle]; rfl
    rw [hb, preMon_true, hres]
    simp only [Option.map_none, monInv]
    have hold : ∀ t' n', (t', n') ∈ m.updFly → t' ≠ t := by
      intro t' n' h e'; subst e'
      obtain ⟨_, _, _, _, hf⟩ := hS.fly1 t' n' h
      exact (inflight_head hto hf).2 hidle
    have hfl : InFlight ((stepThread cf c t).1.th t) (.upd n st e th tp) :=
      (hafter _).mpr ⟨by simp only [stepOp]; exact hres, rfl⟩
    unfold invUpdate
    refine ⟨?_, ?_, ?_, ?_, ?_, ?_⟩
    · intro t' n' h
      simp only [List.mem_cons] at h
      rcases h with e' | h
      · injection e' with e1 e2; subst e1; subst e2; exact ⟨st, e, th, tp, hfl⟩
      · rw [hoth _ (hold t' n' h)]; exact hS.fly1 t' n' h
    · intro t' n' st' e' th' tp' h
      simp only [List.mem_cons]
      by_cases et : t' = t
      · subst et
        have := ((hafter _).mp h).2
        injection this with q1 _ _ _ _
        left; rw [q1]
      · rw [hoth _ et] at h; exact Or.inr (hS.fly2 t' n' st' e' th' tp' h)
    · intro t1 n1 h1 hnt t2 h2
      simp only [List.mem_cons] at h1 h2
      simp only [List.mem_append, List.mem_map, List.mem_filter, beq_iff_eq, not_or] at hnt
      by_cases en : n1 = n
      · subst en
        rcases h1 with e1 | h1
        · injection e1 with e1 _; subst e1
          rcases h2 with e2 | h2
          · injection e2 with e2 _
          · exfalso
            have : m.updFly.any (fun x => x.2 == n1) = true := List.any_eq_true.mpr ⟨(t2, n1), h2, by simp⟩
            simp [this] at hnt
        · exfalso
          exact hnt.1.2 ⟨(t1, n1), ⟨h1, rfl⟩, rfl⟩
      · rcases h1 with e1 | h1
        · injection e1 with _ e1; exact absurd e1 en
        rcases h2 with e2 | h2
        · injection e2 with _ e2; exact absurd e2 en
        exact hS.taint t1 n1 h1 hnt.2 t2 h2
    · intro n' b h
      simp only [List.mem_filter, bne_iff_ne, ne_eq, decide_not, Bool.not_eq_true', decide_eq_false_iff_not] at h
      obtain ⟨h1, h2, h3⟩ := hS.quiet n' b h.1
      refine ⟨?_, hI.written_mono t n' h2, ?_⟩
      · intro t' hm
        simp only [List.mem_cons] at hm
        rcases hm with e' | hm
        · injection e' with _ e'; exact h.2 e'
        · exact h1 t' hm
      · intro r hr
        refine h3 r (hI.data_step t n' h2 ?_ r hr)
        intro _ _ _ _ _ r' _ hp; rw [hidle] at hp; cases hp
    · intro n' b b' h1 h2
      exact hS.uniq n' b b' (List.mem_filter.mp h1).1 (List.mem_filter.mp h2).1
    · intro t' n' h
      rw [assocD_dropId] at h
      simp only [List.mem_filter, bne_iff_ne, ne_eq, decide_not, Bool.not_eq_true', decide_eq_false_iff_not] at h
      simp only [List.mem_filter, bne_iff_ne, ne_eq, decide_not, Bool.not_eq_true', decide_eq_false_iff_not]
      exact ⟨hS.bad t' n' h.1, h.2⟩
  · have hb : (c.th t).pc.isIdle = false := by
      cases hpc : (c.th t).pc <;> first | rfl | exact absurd hpc hidle
    rw [hb, preMon_false]
    have hflt : InFlight (c.th t) (.upd n st e th tp) := ⟨rest, hto, hidle⟩
    have hmem : (t, n) ∈ m.updFly := hS.fly2 t n st e th tp hflt
    cases hr : (stepUpdate c.st n st e th tp (c.th t).pc).2.2 with
    | none =>
      simp only [Option.map_none]
      have hfl : InFlight ((stepThread cf c t).1.th t) (.upd n st e th tp) :=
        (hafter _).mpr ⟨by simp only [stepOp]; exact hr, rfl⟩
      refine ⟨?_, ?_, hS.taint, ?_, hS.uniq, hS.bad⟩
      · intro t' n' h
        by_cases et : t' = t
        · subst et
          obtain ⟨st', e', th', tp', hf⟩ := hS.fly1 t' n' h
          have := (inflight_head hto hf).1
          injection this with q1 _ _ _ _
          rw [q1]; exact ⟨st, e, th, tp, hfl⟩
        · rw [hoth _ et]; exact hS.fly1 t' n' h
      · intro t' n' st' e' th' tp' h
        by_cases et : t' = t
        · subst et
          have := ((hafter _).mp h).2
          injection this with q1 _ _ _ _
          rw [q1]; exact hmem
        · rw [hoth _ et] at h; exact hS.fly2 t' n' st' e' th' tp' h
      · intro n' b h
        obtain ⟨h1, h2, h3⟩ := hS.quiet n' b h
        refine ⟨h1, hI.written_mono t n' h2, ?_⟩
        intro r hr'
        refine h3 r (hI.data_step t n' h2 ?_ r hr')
        intro _ _ _ _ _ r' _ hp
        rw [hp, stepUpdate_uSet] at hr; cases hr
    | some r =>
      simp only [Option.map_some, monRet]
      have hnf : ∀ o', ¬ InFlight ((stepThread cf c t).1.th t) o' := by
        intro o' h
        have := ((hafter _).mp h).1
        simp only [stepOp] at this; rw [hr] at this; cases this
      -- entries of lastQuiet other than n keep their meaning
      have htail : ∀ n' b, (n', b) ∈ m.lastQuiet.filter (·.1 != n) →
          (∀ t', (t', n') ∉ m.updFly.filter (·.1 != t)) ∧ (stepThread cf c t).1.st.written n' = true ∧
          ∀ r', (stepThread cf c t).1.st.data n' = some r' → routableSt now r'.Status r'.ExpiresAt = b := by
        intro n' b h
        simp only [List.mem_filter, bne_iff_ne, ne_eq, decide_not, Bool.not_eq_true', decide_eq_false_iff_not] at h
        obtain ⟨h1, h2, h3⟩ := hS.quiet n' b h.1
        refine ⟨fun t' hm => h1 t' (List.mem_filter.mp hm).1, hI.written_mono t n' h2, ?_⟩
        intro r' hr'
        refine h3 r' (hI.data_step t n' h2 ?_ r' hr')
        intro _ _ _ _ rest' _ hto' _
        rw [hto] at hto'; injection hto' with hto' _; injection hto' with q _ _ _ _
        exact h.2 q.symm
      have hbadn : ∀ t' n', n' ∈ assocD m.lookBad t' → (n', false) ∈ m.lastQuiet.filter (·.1 != n) := by
        intro t' n' h
        have hq := hS.bad t' n' h
        simp only [List.mem_filter, bne_iff_ne, ne_eq, decide_not, Bool.not_eq_true', decide_eq_false_iff_not]
        refine ⟨hq, ?_⟩
        intro en; subst en
        exact (hS.quiet _ _ hq).1 t hmem
      unfold retUpdate
      refine ⟨?_, ?_, ?_, ?_, ?_, ?_⟩
      · intro t' n' h
        simp only [List.mem_filter, bne_iff_ne, ne_eq, decide_not, Bool.not_eq_true', decide_eq_false_iff_not] at h
        rw [hoth _ h.2]; exact hS.fly1 t' n' h.1
      · intro t' n' st' e' th' tp' h
        by_cases et : t' = t
        · subst et; exact absurd h (hnf _)
        · rw [hoth _ et] at h
          simp only [List.mem_filter, bne_iff_ne, ne_eq, decide_not, Bool.not_eq_true', decide_eq_false_iff_not]
          exact ⟨hS.fly2 t' n' st' e' th' tp' h, et⟩
      · intro t1 n1 h1 hnt t2 h2
        simp only [List.mem_filter, bne_iff_ne, ne_eq, decide_not, Bool.not_eq_true', decide_eq_false_iff_not] at h1 h2 hnt
        exact hS.taint t1 n1 h1.1 (fun hmm => hnt ⟨hmm, h1.2⟩) t2 h2.1
      · intro n' b h
        simp only at h
        split at h
        · rename_i hq
          simp only [Bool.and_eq_true, beq_iff_eq, Bool.not_eq_true'] at hq
          obtain ⟨hrok, hunt⟩ := hq
          subst hrok
          simp only [List.mem_cons] at h
          rcases h with e' | h
          · injection e' with e1 e2; subst e1; subst e2
            obtain ⟨r0, hpc⟩ := stepUpdate_ok hr
            have hl := hI.linv hto
            rw [hpc] at hl; simp only [LInv] at hl
            have hunt' : t ∉ m.tainted := by
              intro hm; rw [List.contains_iff_mem.mpr hm] at hunt; cases hunt
            refine ⟨?_, hI.written_mono t _ hl.1.choose_spec.2.2.2.2.2, ?_⟩
            · intro t' hm
              simp only [List.mem_filter, bne_iff_ne, ne_eq, decide_not, Bool.not_eq_true', decide_eq_false_iff_not] at hm
              exact hm.2 (hS.taint t n' hmem hunt' t' hm.1)
            · intro r' hr'
              rw [stepThread_st cf c t _ rest hto] at hr'
              simp only [stepOp, hpc, stepUpdate, upd_same, Option.some.injEq] at hr'
              subst hr'
              rw [hl.2.1, hl.2.2, hnow]
          · exact htail n' b h
        · exact htail n' b h
      · intro n' b b' h1 h2
        simp only at h1 h2
        have hf : ∀ x, x ∈ m.lastQuiet.filter (·.1 != n) → x.1 ≠ n := by
          intro x hx
          simpa using (List.mem_filter.mp hx).2
        split at h1
        · rename_i hq
          simp only [hq, if_true] at h2
          simp only [List.mem_cons] at h1 h2
          rcases h1 with e1 | h1 <;> rcases h2 with e2 | h2
          · injection e1 with _ e1; injection e2 with _ e2; rw [e1, e2]
          · injection e1 with e1 _; exact absurd e1 (hf _ h2)
          · injection e2 with e2 _; exact absurd e2 (hf _ h1)
          · exact hS.uniq n' b b' (List.mem_filter.mp h1).1 (List.mem_filter.mp h2).1
        · rename_i hq
          simp only [hq, if_false] at h2
          exact hS.uniq n' b b' (List.mem_filter.mp h1).1 (List.mem_filter.mp h2).1
      · intro t' n' h
        simp only at h ⊢
        have := hbadn t' n' h
        split
        · exact List.mem_cons_of_mem _ this
        · exact this

end
end Tunnox.C19
namespace Tunnox.C19
open Gen

section
variable {cf : Config} {ops : List Op} {exts : List PM} {c : Cfg} {m : Mon} {now : Nat}

theorem SimU.step_create (i : Input) (hI : Inv cf ops exts c) (hS : SimU now c m)
    (t : Nat) {cl sub base th tp rest} (hto : (c.th t).todo = .create cl sub base th tp :: rest) :
    SimU now (stepThread cf c t).1 (monSlot i m (stepThread cf c t).2) := by
  rw [stepThread_slot cf c t _ rest hto, monSlot_eq]
  have hp : ∀ b, (preMon m t b (.create cl sub base th tp)).updFly = m.updFly ∧
      (preMon m t b (.create cl sub base th tp)).tainted = m.tainted ∧
      (preMon m t b (.create cl sub base th tp)).lastQuiet = m.lastQuiet ∧
      (preMon m t b (.create cl sub base th tp)).lookBad = m.lookBad := by
    intro b; cases b <;> exact ⟨rfl, rfl, rfl, rfl⟩
  obtain ⟨p1, p2, p3, p4⟩ := hp (c.th t).pc.isIdle
  have hnu : ∀ n st e th' tp', Op.create cl sub base th tp ≠ .upd n st e th' tp' := by intro _ _ _ _ _ h; cases h
  cases (stepOp cf c.st (.create cl sub base th tp) (c.th t).pc).2.2 with
  | none =>
    simp only [Option.map_none]
    exact hS.step_nonupd hI t hto hnu _ p1 p2 p3 (by rw [p4]; exact hS.bad)
  | some r =>
    simp only [Option.map_some, monRet]
    have hq : ∀ (m0 : Mon), (retCreate m0 t cl (sub ++ "." ++ base) th tp r).updFly = m0.updFly ∧
        (retCreate m0 t cl (sub ++ "." ++ base) th tp r).tainted = m0.tainted ∧
        (retCreate m0 t cl (sub ++ "." ++ base) th tp r).lastQuiet = m0.lastQuiet ∧
        (retCreate m0 t cl (sub ++ "." ++ base) th tp r).lookBad = m0.lookBad := by
      intro m0; unfold retCreate; simp only
      cases r with
      | okId n => simp only; split <;> exact ⟨rfl, rfl, rfl, rfl⟩
      | err code => simp only; split <;> exact ⟨rfl, rfl, rfl, rfl⟩
      | ok => exact ⟨rfl, rfl, rfl, rfl⟩
      | route _ _ _ _ => exact ⟨rfl, rfl, rfl, rfl⟩
    obtain ⟨q1, q2, q3, q4⟩ := hq (preMon m t (c.th t).pc.isIdle (.create cl sub base th tp))
    exact hS.step_nonupd hI t hto hnu _ (by rw [q1, p1]) (by rw [q2, p2]) (by rw [q3, p3]) (by rw [q4, p4]; exact hS.bad)

theorem SimU.step_delete (i : Input) (hI : Inv cf ops exts c) (hS : SimU now c m)
    (t : Nat) {n cl rest} (hto : (c.th t).todo = .del n cl :: rest) :
    SimU now (stepThread cf c t).1 (monSlot i m (stepThread cf c t).2) := by
  rw [stepThread_slot cf c t _ rest hto, monSlot_eq]
  have hp : ∀ b, (preMon m t b (.del n cl)).updFly = m.updFly ∧ (preMon m t b (.del n cl)).tainted = m.tainted ∧
      (preMon m t b (.del n cl)).lastQuiet = m.lastQuiet ∧ (preMon m t b (.del n cl)).lookBad = m.lookBad := by
    intro b; cases b <;> exact ⟨rfl, rfl, rfl, rfl⟩
  obtain ⟨p1, p2, p3, p4⟩ := hp (c.th t).pc.isIdle
  have hnu : ∀ n' st e th' tp', Op.del n cl ≠ .upd n' st e th' tp' := by intro _ _ _ _ _ h; cases h
  cases (stepOp cf c.st (.del n cl) (c.th t).pc).2.2 with
  | none =>
    simp only [Option.map_none]
    exact hS.step_nonupd hI t hto hnu _ p1 p2 p3 (by rw [p4]; exact hS.bad)
  | some r =>
    simp only [Option.map_some, monRet, retDelete]
    exact hS.step_nonupd hI t hto hnu _ p1 p2 p3 (by simp only; rw [p4]; exact hS.bad)

theorem SimU.step_lookup (i : Input) (hI : Inv cf ops exts c) (hS : SimU now c m)
    (t : Nat) {host rest} (hto : (c.th t).todo = .look host :: rest) :
    SimU now (stepThread cf c t).1 (monSlot i m (stepThread cf c t).2) := by
  rw [stepThread_slot cf c t _ rest hto, monSlot_eq]
  have hnu : ∀ n' st e th' tp', Op.look host ≠ .upd n' st e th' tp' := by intro _ _ _ _ _ h; cases h
  have hp : ∀ b, (preMon m t b (.look host)).updFly = m.updFly ∧ (preMon m t b (.look host)).tainted = m.tainted ∧
      (preMon m t b (.look host)).lastQuiet = m.lastQuiet ∧
      (∀ t' n, n ∈ assocD (preMon m t b (.look host)).lookBad t' → (n, false) ∈ m.lastQuiet) := by
    intro b
    cases b
    · exact ⟨rfl, rfl, rfl, hS.bad⟩
    · refine ⟨rfl, rfl, rfl, ?_⟩
      intro t' n h
      simp only [preMon_true, monInv, invLookup] at h
      rw [assocD_cons_filter] at h
      split at h
      · simp only [List.mem_map, List.mem_filter, Bool.not_eq_true'] at h
        obtain ⟨p, ⟨hp1, hp2⟩, hp3⟩ := h
        cases p with
        | mk a b => simp only at hp2 hp3; subst hp2; subst hp3; exact hp1
      · exact hS.bad t' n h
  obtain ⟨p1, p2, p3, p4⟩ := hp (c.th t).pc.isIdle
  cases (stepOp cf c.st (.look host) (c.th t).pc).2.2 with
  | none =>
    simp only [Option.map_none]
    exact hS.step_nonupd hI t hto hnu _ p1 p2 p3 p4
  | some r =>
    simp only [Option.map_some, monRet]
    have hq : ∀ (m0 : Mon), (retLookup i.cf.now (updTargets (allOps i)) (i.reg ++ i.cf.cloud) m0 t host r).updFly = m0.updFly ∧
        (retLookup i.cf.now (updTargets (allOps i)) (i.reg ++ i.cf.cloud) m0 t host r).tainted = m0.tainted ∧
        (retLookup i.cf.now (updTargets (allOps i)) (i.reg ++ i.cf.cloud) m0 t host r).lastQuiet = m0.lastQuiet ∧
        (retLookup i.cf.now (updTargets (allOps i)) (i.reg ++ i.cf.cloud) m0 t host r).lookBad = m0.lookBad.filter (·.1 != t) := by
      intro m0; unfold retLookup; simp only; split <;> exact ⟨rfl, rfl, rfl, rfl⟩
    obtain ⟨q1, q2, q3, q4⟩ := hq (preMon m t (c.th t).pc.isIdle (.look host))
    refine hS.step_nonupd hI t hto hnu _ (by rw [q1, p1]) (by rw [q2, p2]) (by rw [q3, p3]) ?_
    intro t' n h
    rw [q4, assocD_filter] at h
    split at h
    · cases h
    · exact p4 t' n h

/-- **One joint slot keeps the status-knowledge simulation** (both variants). -/
theorem SimU.step (i : Input) (hI : Inv cf ops exts c) (hnow : now = i.cf.now) (hS : SimU now c m) (t : Nat) :
    SimU now (stepThread cf c t).1 (monSlot i m (stepThread cf c t).2) := by
  cases hto : (c.th t).todo with
  | nil => rw [stepThread_nil cf c t hto]; exact hS
  | cons o rest =>
    cases o with
    | create cl sub base th tp => exact hS.step_create i hI t hto
    | del n cl => exact hS.step_delete i hI t hto
    | upd n st e th tp => exact hS.step_update i hI hnow t hto
    | look host => exact hS.step_lookup i hI t hto

end
end Tunnox.C19
