import TunnoxModel.Proofs.C19Inv
/-!
  C19 — every step of every thread preserves `Inv` (both variants of `DeleteMapping`; the facts that
  need the repair are guarded by `cf.variant = .repaired` inside `Inv`).
-/
namespace Tunnox.C19
open Gen

theorem LInv_idle (cf : Config) (upds) (s : Store) (o : Op) : LInv cf upds s o .idle := by
  cases o <;> simp [LInv]

theorem TInv_idle (cf : Config) (upds) (s : Store) (l : List Op) : TInv cf upds s ⟨l, .idle⟩ := by
  unfold TInv
  cases l with
  | nil => rfl
  | cons o r => exact LInv_idle cf upds s o

theorem updTargets_mem {ops : List Op} {n st e th tp} (h : Op.upd n st e th tp ∈ ops) :
    (n, th, tp) ∈ updTargets ops := by
  induction ops with
  | nil => cases h
  | cons o r ih =>
    cases h with
    | head => simp [updTargets]
    | tail _ h' => cases o <;> simp [updTargets, ih h']

/-- A thread whose todo list is known: its thread-local facts. -/
theorem Inv.linv {cf ops exts c} (h : Inv cf ops exts c) {t o rest} (hto : (c.th t).todo = o :: rest) :
    LInv cf (updTargets ops) c.st o (c.th t).pc := by
  have := h.thr t
  unfold TInv at this
  rw [hto] at this
  exact this

theorem Inv.createId_facts {cf ops exts c} (h : Inv cf ops exts c) {t n} (hid : (c.th t).pc.createId = some n) :
    1 ≤ n ∧ n ≤ c.st.next := by
  have ht := h.thr t
  unfold TInv at ht
  cases hto : (c.th t).todo with
  | nil => rw [hto] at ht; rw [ht] at hid; simp [PC.createId] at hid
  | cons o rest =>
    rw [hto] at ht
    cases o <;> cases hpc : (c.th t).pc <;> rw [hpc] at ht hid <;> simp [PC.createId, LInv] at hid ht
    · subst hid; exact ⟨ht.1, ht.2.1⟩
    · subst hid; exact h.bornRange _ _ ht.1
    · subst hid; exact h.bornRange _ _ ht.1
    · subst hid; exact h.bornRange _ _ ht.1

theorem Inv.claimed_flag {cf ops exts c} (h : Inv cf ops exts c) (hv : cf.variant = .repaired) {t n}
    (hc : InClaimed (c.th t) n) : c.st.claims n = true := by
  obtain ⟨cl, rest, hto, hcl⟩ := hc
  have hl := h.linv hto
  cases hpc : (c.th t).pc <;> rw [hpc] at hl hcl <;> simp [PC.claimed, LInv] at hcl hl
  · exact hl.2.2
  · exact (hl.2 hv).1
  · exact hl.2.1 hv
  · exact hl.2.1 hv
  · exact hl.2.1 hv
  · exact hl.2.2.1

/-- Putting a post-state together from its parts. -/
theorem Inv.assemble {cf ops exts c} (h : Inv cf ops exts c) (t : Nat) (o : Op) (rest : List Op)
    (hto : (c.th t).todo = o :: rest) (s' : Store) (nt : Thread)
    (hnt : (nt.todo = rest ∧ nt.pc = .idle) ∨ (nt.todo = o :: rest ∧ LInv cf (updTargets ops) s' o nt.pc))
    (hoth : ∀ t', t' ≠ t → TInv cf (updTargets ops) s' (c.th t'))
    (hbr : ∀ n o, s'.born n = some o → 1 ≤ n ∧ n ≤ s'.next)
    (hdo : ∀ n r, s'.data n = some r → RecOK (updTargets ops) s' n r)
    (hg1 : cf.variant = .repaired → ∀ n o, s'.born n = some o → (n, o.client) ∉ s'.delReq → s'.index o.dom = some n)
    (hc6 : ∀ d n, s'.index d = some n → ∃ o, s'.born n = some o ∧ o.dom = d)
    (hreg : ∀ k m, s'.registry k = some m → m ∈ exts ∧ m.fullDomain = k)
    (huid : ∀ n, nt.pc.createId = some n → ∀ t', t' ≠ t → (c.th t').pc.createId ≠ some n)
    (hucl : cf.variant = .repaired → ∀ n, InClaimed nt n → ∀ t', t' ≠ t → ¬ InClaimed (c.th t') n)
    (hset : ∀ n o, s'.born n = some o → (n, o.client) ∉ s'.delReq → nt.pc.createId ≠ some n →
      (∀ t', t' ≠ t → (c.th t').pc.createId ≠ some n) → (s'.data n).isSome = true)
    (hbd : ∀ n o, s'.born n = some o → o.dom ∈ createDomains ops)
    (hwb : ∀ n, s'.written n = true → ∃ o, s'.born n = some o)
    (hg2 : ∀ n o, s'.born n = some o → s'.written n = false ∨ (s'.data n).isSome = true ∨ Unindexed s' n) :
    Inv cf ops exts ⟨s', upd c.th t nt⟩ := by
  refine ⟨?_, ?_, hbr, hdo, hg1, hc6, hreg, ?_, ?_, h.cloudSub, hwb, hg2, ?_, hbd⟩
  rotate_right
  · intro n o hb hnd hall
    refine hset n o hb hnd ?_ ?_
    · have := hall t; simpa only [upd_same] using this
    · intro t' ht'; have := hall t'; simpa only [upd_other _ _ _ _ ht'] using this
  · intro t'
    by_cases ht : t' = t
    · subst ht
      simp only [upd_same]
      rcases hnt with ⟨h1, h2⟩ | ⟨h1, h2⟩
      · have : nt = ⟨rest, .idle⟩ := by cases nt; simp_all
        rw [this]; exact TInv_idle _ _ _ _
      · unfold TInv; rw [h1]; exact h2
    · simp only [upd_other _ _ _ _ ht]; exact hoth t' ht
  · intro t' o' ho'
    by_cases ht : t' = t
    · subst ht
      simp only [upd_same] at ho'
      apply h.mem t'
      rw [hto]
      rcases hnt with ⟨h1, _⟩ | ⟨h1, _⟩ <;> rw [h1] at ho'
      · exact List.mem_cons_of_mem _ ho'
      · exact ho'
    · simp only [upd_other _ _ _ _ ht] at ho'; exact h.mem t' o' ho'
  · intro t1 t2 n hne h1
    by_cases e1 : t1 = t
    · subst e1
      simp only [upd_same] at h1
      have : t2 ≠ t1 := fun e => hne e.symm
      simp only [upd_other _ _ _ _ this]
      exact huid n h1 t2 this
    · simp only [upd_other _ _ _ _ e1] at h1
      by_cases e2 : t2 = t
      · subst e2
        simp only [upd_same]
        intro h2
        exact huid n h2 t1 e1 h1
      · simp only [upd_other _ _ _ _ e2]
        exact h.uniqId t1 t2 n hne h1
  · intro hv t1 t2 n hne h1
    by_cases e1 : t1 = t
    · subst e1
      simp only [upd_same] at h1
      have : t2 ≠ t1 := fun e => hne e.symm
      simp only [upd_other _ _ _ _ this]
      exact hucl hv n h1 t2 this
    · simp only [upd_other _ _ _ _ e1] at h1
      by_cases e2 : t2 = t
      · subst e2
        simp only [upd_same]
        intro h2
        exact hucl hv n h2 t1 e1 h1
      · simp only [upd_other _ _ _ _ e2]
        exact h.uniqClaim hv t1 t2 n hne h1

/-- The part of the store the invariant looks at. -/
structure SameCore (s s' : Store) : Prop where
  next : s'.next = s.next
  index : s'.index = s.index
  data : s'.data = s.data
  claims : s'.claims = s.claims
  born : s'.born = s.born
  delReq : s'.delReq = s.delReq
  written : s'.written = s.written

theorem SameCore.refl (s : Store) : SameCore s s := ⟨rfl, rfl, rfl, rfl, rfl, rfl, rfl⟩

theorem SameCore.mono {s s'} (e : SameCore s s') : Mono s s' :=
  ⟨by rw [e.next]; exact Nat.le_refl _, by intro n o h; rw [e.born]; exact h, by intro x h; rw [e.delReq]; exact h,
   by intro n h; rw [e.written]; exact h⟩

theorem LInv.sameCore {cf upds s s'} (e : SameCore s s') {o pc} (h : LInv cf upds s o pc) : LInv cf upds s' o pc := by
  refine LInv.frame e.mono o pc ?_ ?_ ?_ ?_ ?_ ?_ h
  · intro n _ hb; rw [e.born]; exact hb
  · intro n o' _ _ _ hd; rw [e.data]; exact hd
  · intro _ n _ _ hc; rw [e.claims]; exact hc
  · intro _ n r _ _ hi; rw [e.index]; exact hi
  · intro n _ _ hu d; rw [e.index]; exact hu d
  · intro n _ hw; rw [e.written]; exact hw

theorem TInv.sameCore {cf upds s s'} (e : SameCore s s') {th} (h : TInv cf upds s th) : TInv cf upds s' th := by
  unfold TInv at h ⊢
  cases hto : th.todo with
  | nil => rw [hto] at h; exact h
  | cons o r => rw [hto] at h; exact h.sameCore e

/-- A step that leaves the core of the store alone (pure reads, list and registry writes). -/
theorem Inv.stepSame {cf ops exts c} (h : Inv cf ops exts c) (t : Nat) (o : Op) (rest : List Op)
    (hto : (c.th t).todo = o :: rest) (s' : Store) (e : SameCore c.st s')
    (hreg : ∀ k m, s'.registry k = some m → m ∈ exts ∧ m.fullDomain = k) (nt : Thread)
    (hnt : (nt.todo = rest ∧ nt.pc = .idle) ∨ (nt.todo = o :: rest ∧ LInv cf (updTargets ops) c.st o nt.pc))
    (hid : ∀ n, nt.pc.createId = some n → (c.th t).pc.createId = some n)
    (hcl : cf.variant = .repaired → nt.pc.claimed = true → (c.th t).pc.claimed = true)
    (hret : ∀ k, (c.th t).pc.createId = some k → nt.pc.createId ≠ some k → ∀ o', c.st.born k = some o' →
      (k, o'.client) ∉ c.st.delReq → (c.st.data k).isSome = true) :
    Inv cf ops exts ⟨s', upd c.th t nt⟩ := by
  refine h.assemble t o rest hto s' nt ?_ ?_ ?_ ?_ ?_ ?_ hreg ?_ ?_ ?_ ?_ ?_ ?_
  rotate_right 2
  · intro n; rw [e.written, e.born]; exact h.wBorn n
  · intro n o'; unfold Unindexed; rw [e.born, e.written, e.data, e.index]; exact h.g2 n o'
  rotate_right 2
  · intro n o' hb hnd hnt' hoth
    rw [e.born] at hb; rw [e.delReq] at hnd; rw [e.data]
    by_cases hk : (c.th t).pc.createId = some n
    · exact hret n hk hnt' o' hb hnd
    · refine h.settled n o' hb hnd ?_
      intro t'
      by_cases ht' : t' = t
      · subst ht'; exact hk
      · exact hoth t' ht'
  · intro n o'; rw [e.born]; exact h.bornDom n o'
  · rcases hnt with h1 | ⟨h1, h2⟩
    · exact Or.inl h1
    · exact Or.inr ⟨h1, h2.sameCore e⟩
  · intro t' _; exact (h.thr t').sameCore e
  · intro n o; rw [e.born, e.next]; exact h.bornRange n o
  · intro n r hd; rw [e.data] at hd; exact (h.dataOK n r hd).mono e.mono
  · intro hv n o; rw [e.born, e.delReq, e.index]; exact h.g1 hv n o
  · intro d n; rw [e.index, e.born]; exact h.c6 d n
  · intro n hn t' ht'; exact h.uniqId t t' n (fun e => ht' e.symm) (hid n hn)
  · intro hv n hin t' ht'
    obtain ⟨cl, r, h1, h2⟩ := hin
    apply h.uniqClaim hv t t' n (fun e => ht' e.symm)
    rcases hnt with ⟨_, h4⟩ | ⟨h3, _⟩
    · rw [h4] at h2; simp [PC.claimed] at h2
    · rw [h3] at h1
      injection h1 with h5 h6
      exact ⟨cl, rest, by rw [hto, h5], hcl hv h2⟩

end Tunnox.C19

namespace Tunnox.C19
open Gen

theorem stepThread_cons (cf : Config) (c : Cfg) (t : Nat) (o : Op) (rest : List Op) (hto : (c.th t).todo = o :: rest) :
    (stepThread cf c t).1 =
      ⟨(stepOp cf c.st o (c.th t).pc).1,
       upd c.th t (match (stepOp cf c.st o (c.th t).pc).2.2 with
                   | some _ => ⟨rest, .idle⟩
                   | none => ⟨o :: rest, (stepOp cf c.st o (c.th t).pc).2.1⟩)⟩ := by
  unfold stepThread
  simp only [hto]
  rfl

/-- After `cIncr` the fresh id is above every id in use. -/
theorem Inv.fresh_unborn {cf ops exts c} (h : Inv cf ops exts c) : c.st.born (c.st.next + 1) = none := by
  cases hb : c.st.born (c.st.next + 1) with
  | none => rfl
  | some o => have := (h.bornRange _ _ hb).2; omega

/-- The threads that do not move keep their facts, given how the acting thread changed the store. -/
theorem Inv.others {cf ops exts c} (h : Inv cf ops exts c) (t : Nat) (s' : Store) (m : Mono c.st s')
    (hwr : ∀ t', t' ≠ t → ∀ n, (c.th t').pc.createId = some n → c.st.written n = false → s'.written n = false)
    (hborn : ∀ t', t' ≠ t → ∀ n, (c.th t').pc.createId = some n → c.st.born n = none → s'.born n = none)
    (hdata : ∀ n o', c.st.born n = some o' → (n, o'.client) ∉ s'.delReq → (c.st.data n).isSome = true →
      (s'.data n).isSome = true)
    (hclaims : cf.variant = .repaired → ∀ t', t' ≠ t → ∀ n, InClaimed (c.th t') n → c.st.claims n = true →
      s'.claims n = true)
    (hindex : cf.variant = .repaired → ∀ t', t' ≠ t → ∀ n r cl rest, (c.th t').todo = .del n cl :: rest →
      (c.th t').pc = .dIdxDel r → c.st.index r.FullDomain = some n → s'.index r.FullDomain = some n)
    (hunidx : ∀ n, (∃ o', c.st.born n = some o') → Unindexed c.st n → Unindexed s' n) :
    ∀ t', t' ≠ t → TInv cf (updTargets ops) s' (c.th t') := by
  intro t' ht'
  have := h.thr t'
  unfold TInv at this ⊢
  cases hto' : (c.th t').todo with
  | nil => rw [hto'] at this; exact this
  | cons o' r' =>
    rw [hto'] at this
    refine LInv.frame m o' _ (hborn t' ht') (fun n o'' hb hn _ hd => hdata n o'' hb hn hd) ?_ ?_ ?_ (hwr t' ht') this
    · intro hv n hex hcl hc
      obtain ⟨cl, hcl'⟩ := hex
      exact hclaims hv t' ht' n ⟨cl, r', by rw [hto', hcl'], hcl⟩ hc
    · intro hv n r hex hpc hi
      obtain ⟨cl, hcl'⟩ := hex
      exact hindex hv t' ht' n r cl r' (by rw [hto', hcl']) hpc hi
    · intro n _ hb hu; exact hunidx n hb hu

theorem RecOK.origin_eq {upds s n r o} (h : RecOK upds s n r) (hb : s.born n = some o) :
    r.FullDomain = o.dom ∧ r.ClientID = o.client := by
  obtain ⟨o', ho', h1, h2, _⟩ := h
  rw [hb] at ho'; injection ho' with ho'; subst ho'
  exact ⟨h1, h2⟩

theorem Inv.step_create {cf ops exts c} (h : Inv cf ops exts c) (t : Nat) {cl sub base th tp rest}
    (hto : (c.th t).todo = .create cl sub base th tp :: rest) : Inv cf ops exts (stepThread cf c t).1 := by
  rw [stepThread_cons cf c t _ rest hto]
  have hl := h.linv hto
  have hopmem : Op.create cl sub base th tp ∈ ops := h.mem t _ (by rw [hto]; exact List.mem_cons_self)
  have hdomm : ∀ {l : List Op}, Op.create cl sub base th tp ∈ l → (sub ++ "." ++ base) ∈ createDomains l := by
    intro l hm
    induction l with
    | nil => cases hm
    | cons o r ih =>
      cases hm with
      | head => simp [createDomains]
      | tail _ h' => cases o <;> simp [createDomains, ih h']
  simp only [stepOp]
  cases hpc : (c.th t).pc <;> rw [hpc] at hl <;> simp only [LInv] at hl <;> try exact hl.elim
  · -- idle
    simp only [stepCreate]
    split
    · refine h.stepSame t _ rest hto _ ?_ ?_ _ ?_ ?_ ?_ ?_
      · exact .refl _
      · exact h.regOK
      · exact Or.inr ⟨rfl, by simp [LInv]⟩
      · simp [PC.createId]
      · simp [PC.claimed]
      · intro k hk; rw [hpc] at hk; simp [PC.createId] at hk
    · refine h.stepSame t _ rest hto _ ?_ ?_ _ ?_ ?_ ?_ ?_
      · exact .refl _
      · exact h.regOK
      · exact Or.inl ⟨rfl, rfl⟩
      · simp [PC.createId]
      · simp [PC.claimed]
      · intro k hk; rw [hpc] at hk; simp [PC.createId] at hk
  · -- cIncr
    simp only [stepCreate]
    have hm : Mono c.st { c.st with next := c.st.next + 1 } := ⟨Nat.le_succ _, fun _ _ h => h, fun _ h => h, fun _ h => h⟩
    have hoth := h.others t _ hm (fun _ _ _ _ hw => hw) (fun _ _ _ _ hb => hb) (fun _ _ _ _ hd => hd) (fun _ _ _ _ _ hc => hc)
      (fun _ _ _ _ _ _ _ _ _ hi => hi) (fun _ _ hu => hu)
    have hbr : ∀ n o, c.st.born n = some o → 1 ≤ n ∧ n ≤ c.st.next + 1 := fun n o hb =>
      ⟨(h.bornRange n o hb).1, Nat.le_succ_of_le (h.bornRange n o hb).2⟩
    have hset : ∀ n o, c.st.born n = some o → (n, o.client) ∉ c.st.delReq →
        (∀ t', t' ≠ t → (c.th t').pc.createId ≠ some n) → (c.st.data n).isSome = true := by
      intro n o hb hnd hoth'
      refine h.settled n o hb hnd ?_
      intro t'
      by_cases e : t' = t
      · subst e; rw [hpc]; simp [PC.createId]
      · exact hoth' t' e
    split
    · refine h.assemble t _ rest hto _ _ ?_ hoth hbr (fun n r hd => (h.dataOK n r hd).mono hm)
        h.g1 h.c6 h.regOK ?_ ?_ ?_ h.bornDom h.wBorn h.g2
      · refine Or.inr ⟨rfl, ?_⟩
        simp only [LInv]; exact ⟨Nat.succ_le_succ (Nat.zero_le _), Nat.le_refl _, h.fresh_unborn⟩
      · intro n hn t' ht' hn'
        simp only [PC.createId, Option.some.injEq] at hn
        subst hn
        have := (h.createId_facts hn').2
        omega
      · intro _ n hin; obtain ⟨_, _, _, h2⟩ := hin; simp [PC.claimed] at h2
      · intro n o hb hnd _ hoth'; exact hset n o hb hnd hoth'
    · refine h.assemble t _ rest hto _ _ ?_ hoth hbr (fun n r hd => (h.dataOK n r hd).mono hm)
        h.g1 h.c6 h.regOK ?_ ?_ ?_ h.bornDom h.wBorn h.g2
      · exact Or.inl ⟨rfl, rfl⟩
      · intro n hn; simp [PC.createId] at hn
      · intro _ n hin; obtain ⟨_, _, _, h2⟩ := hin; simp [PC.claimed] at h2
      · intro n o hb hnd _ hoth'; exact hset n o hb hnd hoth'
  · -- cSetNX n
    rename_i n
    simp only [stepCreate]
    cases hidx : c.st.index (sub ++ "." ++ base) with
    | some k =>
      simp only
      refine h.stepSame t _ rest hto _ ?_ ?_ _ ?_ ?_ ?_ ?_
      · exact .refl _
      · exact h.regOK
      · exact Or.inl ⟨rfl, rfl⟩
      · simp [PC.createId]
      · simp [PC.claimed]
      · intro k hk _ o' hb
        rw [hpc] at hk; simp only [PC.createId, Option.some.injEq] at hk; subst hk
        rw [hl.2.2] at hb; cases hb
    | none =>
      simp only
      have hbn := hl.2.2
      have hm : Mono c.st { c.st with index := upd c.st.index (sub ++ "." ++ base) (some n), born := upd c.st.born n (some ⟨sub ++ "." ++ base, cl, th, tp⟩) } := by
        refine ⟨Nat.le_refl _, ?_, fun _ h => h, fun _ h => h⟩
        intro k o hk
        have : k ≠ n := by intro e; rw [e, hbn] at hk; cases hk
        simp only [upd_other _ _ _ _ this]; exact hk
      have hwn : c.st.written n = false := by
        cases hw : c.st.written n with
        | false => rfl
        | true => obtain ⟨o', ho'⟩ := h.wBorn n hw; rw [hbn] at ho'; cases ho'
      refine h.assemble t _ rest hto _ _ ?_ ?_ ?_ ?_ ?_ ?_ h.regOK ?_ ?_ ?_ ?_ ?WB ?G2
      · exact Or.inr ⟨rfl, by simp [LInv, hwn]⟩
      · refine h.others t _ hm (fun _ _ _ _ hw => hw) ?_ (fun _ _ _ _ hd => hd) (fun _ _ _ _ _ hc => hc) ?_ ?_
        · intro t' ht' k hk hb
          have : k ≠ n := by
            intro e; subst e
            exact h.uniqId t' t k ht' hk (by rw [hpc]; rfl)
          simp only [upd_other _ _ _ _ this]; exact hb
        · intro _ t' _ k r _ _ _ _ hi
          have : r.FullDomain ≠ sub ++ "." ++ base := by intro e; rw [e, hidx] at hi; cases hi
          simp only [upd_other _ _ _ _ this]; exact hi
        · intro k hbk hu d
          by_cases hd : d = sub ++ "." ++ base
          · subst hd
            simp only [upd_same]
            intro e; injection e with e; subst e
            obtain ⟨_, hb⟩ := hbk; rw [hbn] at hb; cases hb
          · simp only [upd_other _ _ _ _ hd]; exact hu d
      · intro k o hk
        by_cases e : k = n
        · subst e; exact ⟨hl.1, hl.2.1⟩
        · simp only [upd_other _ _ _ _ e] at hk; exact h.bornRange k o hk
      · intro k r hd; exact (h.dataOK k r hd).mono hm
      · intro hv k o hk hnd
        by_cases e : k = n
        · subst e; simp only [upd_same, Option.some.injEq] at hk; subst hk; simp
        · simp only [upd_other _ _ _ _ e] at hk
          have hi := h.g1 hv k o hk hnd
          have : o.dom ≠ sub ++ "." ++ base := by intro e'; rw [e', hidx] at hi; cases hi
          simp only [upd_other _ _ _ _ this]; exact hi
      · intro d k hi
        by_cases hd : d = sub ++ "." ++ base
        · subst hd; simp only [upd_same, Option.some.injEq] at hi; subst hi
          exact ⟨⟨sub ++ "." ++ base, cl, th, tp⟩, by simp, rfl⟩
        · simp only [upd_other _ _ _ _ hd] at hi
          obtain ⟨o, ho, hod⟩ := h.c6 d k hi
          have : k ≠ n := by intro e; rw [e, hbn] at ho; cases ho
          exact ⟨o, by simp only [upd_other _ _ _ _ this]; exact ho, hod⟩
      · intro k hk t' ht'
        simp only [PC.createId, Option.some.injEq] at hk; subst hk
        exact h.uniqId t t' _ (fun e => ht' e.symm) (by rw [hpc]; rfl)
      · intro _ k hin; obtain ⟨_, _, _, h2⟩ := hin; simp [PC.claimed] at h2
      · intro k o hb hnd hnt hoth'
        have e : k ≠ n := by intro e; subst e; exact hnt (by simp [PC.createId])
        simp only [upd_other _ _ _ _ e] at hb
        refine h.settled k o hb hnd ?_
        intro t'
        by_cases e' : t' = t
        · subst e'; rw [hpc]; simp only [PC.createId]; intro e''; injection e'' with e''; exact e e''.symm
        · exact hoth' t' e'
      · intro k o hb
        by_cases e : k = n
        · subst e; simp only [upd_same, Option.some.injEq] at hb; subst hb; exact hdomm hopmem
        · simp only [upd_other _ _ _ _ e] at hb; exact h.bornDom k o hb
      case WB =>
        intro k hk
        obtain ⟨o, ho⟩ := h.wBorn k hk
        exact ⟨o, hm.born k o ho⟩
      case G2 =>
        intro k o hb
        by_cases e : k = n
        · subst e
          left
          cases hw : c.st.written k with
          | false => rfl
          | true => obtain ⟨o', ho'⟩ := h.wBorn k hw; rw [hbn] at ho'; cases ho'
        · simp only [upd_other _ _ _ _ e] at hb
          rcases h.g2 k o hb with h1 | h1 | h1
          · exact Or.inl h1
          · exact Or.inr (Or.inl h1)
          · refine Or.inr (Or.inr ?_)
            intro d hd
            by_cases e' : d = sub ++ "." ++ base
            · subst e'; simp only [upd_same, Option.some.injEq] at hd; exact e hd.symm
            · simp only [upd_other _ _ _ _ e'] at hd; exact h1 d hd
  · -- cSetData n
    rename_i n
    simp only [stepCreate]
    have hm : Mono c.st { c.st with data := upd c.st.data n (some (mkRec n cl sub base th tp)), written := upd c.st.written n true } := by
      refine ⟨Nat.le_refl _, fun _ _ h => h, fun _ h => h, ?_⟩
      intro k hk
      by_cases e : k = n
      · subst e; simp
      · simp only [upd_other _ _ _ _ e]; exact hk
    refine h.assemble t _ rest hto _ _ ?_ ?_ h.bornRange ?_ h.g1 h.c6 h.regOK ?_ ?_ ?_ h.bornDom ?WB ?G2
    · exact Or.inr ⟨rfl, by simp [LInv, hl.1]⟩
    · refine h.others t _ hm ?_ (fun _ _ _ _ hb => hb) ?_ (fun _ _ _ _ _ hc => hc)
        (fun _ _ _ _ _ _ _ _ _ hi => hi) (fun _ _ hu => hu)
      · intro t' ht' k hk hw
        have : k ≠ n := by
          intro e; subst e
          exact h.uniqId t' t k ht' hk (by rw [hpc]; rfl)
        simp only [upd_other _ _ _ _ this]; exact hw
      · intro k o'' _ _ hd
        by_cases e : k = n
        · subst e; simp
        · simp only [upd_other _ _ _ _ e]; exact hd
    · intro k r hd
      by_cases e : k = n
      · subst e
        simp only [upd_same, Option.some.injEq] at hd
        subst hd
        exact ⟨_, hl.1, rfl, rfl, rfl, Or.inl ⟨rfl, rfl⟩, by simp⟩
      · simp only [upd_other _ _ _ _ e] at hd; exact (h.dataOK k r hd).mono hm
    · intro k hk t' ht'
      simp only [PC.createId, Option.some.injEq] at hk; subst hk
      exact h.uniqId t t' _ (fun e => ht' e.symm) (by rw [hpc]; rfl)
    · intro _ k hin; obtain ⟨_, _, _, h2⟩ := hin; simp [PC.claimed] at h2
    · intro k o hb hnd hnt hoth'
      by_cases e : k = n
      · subst e; simp
      · simp only [upd_other _ _ _ _ e]
        refine h.settled k o hb hnd ?_
        intro t'
        by_cases e' : t' = t
        · subst e'; rw [hpc]; simp only [PC.createId]; intro e''; injection e'' with e''; exact e e''.symm
        · exact hoth' t' e'
    case WB =>
      intro k hk
      by_cases e : k = n
      · subst e; exact ⟨_, hl.1⟩
      · simp only [upd_other _ _ _ _ e] at hk; exact h.wBorn k hk
    case G2 =>
      intro k o hb
      by_cases e : k = n
      · subst e; right; left; simp
      · simp only [upd_other _ _ _ _ e]; exact h.g2 k o hb
  · -- cAppC n
    rename_i n
    simp only [stepCreate]
    refine h.stepSame t _ rest hto _ ?_ ?_ _ ?_ ?_ ?_ ?_
    · exact ⟨rfl, rfl, rfl, rfl, rfl, rfl, rfl⟩
    · exact h.regOK
    · exact Or.inr ⟨rfl, by simpa [LInv] using hl⟩
    · intro k hk; rw [hpc]; exact hk
    · simp [PC.claimed]
    · intro k hk hne; rw [hpc] at hk; exact absurd hk hne
  · -- cAppG n
    rename_i n
    simp only [stepCreate]
    refine h.stepSame t _ rest hto _ ?_ ?_ _ ?_ ?_ ?_ ?_
    · exact ⟨rfl, rfl, rfl, rfl, rfl, rfl, rfl⟩
    · exact h.regOK
    · exact Or.inl ⟨rfl, rfl⟩
    · simp [PC.createId]
    · simp [PC.claimed]
    · intro k hk _ o' hb hnd
      rw [hpc] at hk; simp only [PC.createId, Option.some.injEq] at hk; subst hk
      rw [hl.1] at hb; injection hb with hb; subst hb
      exact hl.2.1 hnd

end Tunnox.C19
namespace Tunnox.C19
open Gen

theorem Inv.settled_old {cf ops exts c} (h : Inv cf ops exts c) (t : Nat) (hnone : (c.th t).pc.createId = none) :
    ∀ n o, c.st.born n = some o → (n, o.client) ∉ c.st.delReq →
      (∀ t', t' ≠ t → (c.th t').pc.createId ≠ some n) → (c.st.data n).isSome = true := by
  intro n o hb hnd hoth
  refine h.settled n o hb hnd ?_
  intro t'
  by_cases e : t' = t
  · subst e; rw [hnone]; simp
  · exact hoth t' e

theorem Inv.step_delete {cf ops exts c} (h : Inv cf ops exts c) (t : Nat) {n cl rest}
    (hto : (c.th t).todo = .del n cl :: rest) : Inv cf ops exts (stepThread cf c t).1 := by
  rw [stepThread_cons cf c t _ rest hto]
  have hl := h.linv hto
  simp only [stepOp]
  cases hpc : (c.th t).pc <;> rw [hpc] at hl <;> simp only [LInv] at hl <;> try exact hl.elim
  · -- idle: the request is recorded
    simp only [stepDelete]
    have hm : Mono c.st { c.st with delReq := (n, cl) :: c.st.delReq } :=
      ⟨Nat.le_refl _, fun _ _ h => h, fun _ h => List.mem_cons_of_mem _ h, fun _ h => h⟩
    refine h.assemble t _ rest hto _ _ ?_ ?_ h.bornRange ?_ ?_ h.c6 h.regOK ?_ ?_ ?SET h.bornDom h.wBorn h.g2
    · exact Or.inr ⟨rfl, by simp [LInv]⟩
    · exact h.others t _ hm (fun _ _ _ _ hw => hw) (fun _ _ _ _ hb => hb) (fun _ _ _ _ hd => hd) (fun _ _ _ _ _ hc => hc)
        (fun _ _ _ _ _ _ _ _ _ hi => hi) (fun _ _ hu => hu)
    · intro k r hd; exact (h.dataOK k r hd).mono hm
    · intro hv k o hk hnd
      exact h.g1 hv k o hk (fun hm' => hnd (List.mem_cons_of_mem _ hm'))
    · intro k hk; simp [PC.createId] at hk
    · intro _ k hin; obtain ⟨_, _, _, h2⟩ := hin; simp [PC.claimed] at h2
    case SET =>
      intro k o hb hnd _ hoth
      exact h.settled_old t (by rw [hpc]; rfl) k o hb (fun hm' => hnd (List.mem_cons_of_mem _ hm')) hoth
  · -- dGet
    simp only [stepDelete]
    cases hd : c.st.data n with
    | none =>
      simp only
      refine h.stepSame t _ rest hto _ ?_ ?_ _ ?_ ?_ ?_ ?_
      · exact .refl _
      · exact h.regOK
      · exact Or.inl ⟨rfl, rfl⟩
      · simp [PC.createId]
      · simp [PC.claimed]
      · intro k hk; rw [hpc] at hk; simp [PC.createId] at hk
    | some r =>
      simp only
      by_cases hcl : r.ClientID = cl
      · have hne : (r.ClientID != cl) = false := by simp [hcl]
        simp only [hne, Bool.false_eq_true, if_false]
        have hdl : DelL (updTargets ops) c.st n cl r := ⟨hl, hcl, h.dataOK n r hd⟩
        cases hv : cf.variant with
        | repaired =>
          simp only
          refine h.stepSame t _ rest hto _ ?_ ?_ _ ?_ ?_ ?_ ?_
          · exact .refl _
          · exact h.regOK
          · exact Or.inr ⟨rfl, by simp only [LInv]; exact ⟨hdl, hv⟩⟩
          · simp [PC.createId]
          · simp [PC.claimed]
          · intro k hk; rw [hpc] at hk; simp [PC.createId] at hk
        | asFound =>
          simp only
          refine h.stepSame t _ rest hto _ ?_ ?_ _ ?_ ?_ ?_ ?_
          · exact .refl _
          · exact h.regOK
          · exact Or.inr ⟨rfl, by simp only [LInv]; exact ⟨hdl, fun hv' => by rw [hv] at hv'; cases hv'⟩⟩
          · simp [PC.createId]
          · intro hv'; rw [hv] at hv'; cases hv'
          · intro k hk; rw [hpc] at hk; simp [PC.createId] at hk
      · have hne : (r.ClientID != cl) = true := by simp [hcl]
        simp only [hne, if_true]
        refine h.stepSame t _ rest hto _ ?_ ?_ _ ?_ ?_ ?_ ?_
        · exact .refl _
        · exact h.regOK
        · exact Or.inl ⟨rfl, rfl⟩
        · simp [PC.createId]
        · simp [PC.claimed]
        · intro k hk; rw [hpc] at hk; simp [PC.createId] at hk
  · -- dClaim r
    rename_i r
    simp only [stepDelete]
    cases hc : c.st.claims n with
    | true =>
      simp only [if_true]
      refine h.stepSame t _ rest hto _ ?_ ?_ _ ?_ ?_ ?_ ?_
      · exact .refl _
      · exact h.regOK
      · exact Or.inl ⟨rfl, rfl⟩
      · simp [PC.createId]
      · simp [PC.claimed]
      · intro k hk; rw [hpc] at hk; simp [PC.createId] at hk
    | false =>
      simp only [Bool.false_eq_true, if_false]
      have hm : Mono c.st { c.st with claims := upd c.st.claims n true } := ⟨Nat.le_refl _, fun _ _ h => h, fun _ h => h, fun _ h => h⟩
      refine h.assemble t _ rest hto _ _ ?_ ?_ h.bornRange ?_ h.g1 h.c6 h.regOK ?_ ?_ ?SET h.bornDom h.wBorn h.g2
      · exact Or.inr ⟨rfl, by simp only [LInv]; exact ⟨hl.1.mono hm, hl.2, by simp⟩⟩
      · refine h.others t _ hm (fun _ _ _ _ hw => hw) (fun _ _ _ _ hb => hb) (fun _ _ _ _ hd => hd) ?_
          (fun _ _ _ _ _ _ _ _ _ hi => hi) (fun _ _ hu => hu)
        intro _ t' _ k _ hk
        by_cases e : k = n
        · subst e; simp
        · simp only [upd_other _ _ _ _ e]; exact hk
      · intro k r' hd; exact (h.dataOK k r' hd).mono hm
      · intro k hk; simp [PC.createId] at hk
      · intro hv k hin t' ht' hin'
        obtain ⟨cl', r', h1, _⟩ := hin
        injection h1 with h1 _; injection h1 with h1 _; subst h1
        have := h.claimed_flag hv hin'
        rw [hc] at this; cases this
      case SET =>
        intro k o hb hnd _ hoth
        exact h.settled_old t (by rw [hpc]; rfl) k o hb hnd hoth
  · -- dIdxGet r
    rename_i r
    simp only [stepDelete]
    by_cases hi : c.st.index r.FullDomain = some n
    · have : (c.st.index r.FullDomain == some n) = true := by simp [hi]
      simp only [this, if_true]
      refine h.stepSame t _ rest hto _ ?_ ?_ _ ?_ ?_ ?_ ?_
      · exact .refl _
      · exact h.regOK
      · exact Or.inr ⟨rfl, by simp only [LInv]; exact ⟨hl.1, fun _ => ⟨hl.2.2, hi⟩⟩⟩
      · simp [PC.createId]
      · intro _ _; rw [hpc]; rfl
      · intro k hk; rw [hpc] at hk; simp [PC.createId] at hk
    · have : (c.st.index r.FullDomain == some n) = false := by simp [hi]
      simp only [this, Bool.false_eq_true, if_false]
      refine h.stepSame t _ rest hto _ ?_ ?_ _ ?_ ?_ ?_ ?_
      · exact .refl _
      · exact h.regOK
      · refine Or.inr ⟨rfl, ?_⟩
        simp only [LInv]
        refine ⟨hl.1, fun _ => hl.2.2, ?_⟩
        intro d hd
        obtain ⟨o, ho, hod⟩ := h.c6 d n hd
        have := (hl.1.2.2.origin_eq ho).1
        rw [this, hod] at hi
        exact hi hd
      · simp [PC.createId]
      · intro _ _; rw [hpc]; rfl
      · intro k hk; rw [hpc] at hk; simp [PC.createId] at hk
  · -- dIdxDel r
    rename_i r
    simp only [stepDelete]
    have hm : Mono c.st { c.st with index := upd c.st.index r.FullDomain none } := ⟨Nat.le_refl _, fun _ _ h => h, fun _ h => h, fun _ h => h⟩
    have hun : ∀ k, Unindexed c.st k → Unindexed { c.st with index := upd c.st.index r.FullDomain none } k := by
      intro k hu d
      by_cases e : d = r.FullDomain
      · subst e; simp
      · simp only [upd_other _ _ _ _ e]; exact hu d
    refine h.assemble t _ rest hto _ _ ?_ ?_ h.bornRange ?_ ?_ ?_ h.regOK ?_ ?_ ?SET h.bornDom h.wBorn ?G2
    · refine Or.inr ⟨rfl, ?_⟩
      simp only [LInv]
      refine ⟨hl.1.mono hm, fun hv => (hl.2 hv).1, ?_⟩
      intro d hd
      by_cases e : d = r.FullDomain
      · subst e; simp at hd
      · simp only [upd_other _ _ _ _ e] at hd
        obtain ⟨o, ho, hod⟩ := h.c6 d n hd
        exact e (by rw [← hod]; exact ((hl.1.2.2.origin_eq ho).1).symm)
    · refine h.others t _ hm (fun _ _ _ _ hw => hw) (fun _ _ _ _ hb => hb) (fun _ _ _ _ hd => hd) (fun _ _ _ _ _ hc => hc) ?_ (fun k _ hu => hun k hu)
      intro hv t' ht' k r' cl' rest' hto' hpc' hi'
      have : r'.FullDomain ≠ r.FullDomain := by
        intro e
        rw [e, (hl.2 hv).2] at hi'
        injection hi' with hi'; subst hi'
        exact h.uniqClaim hv t t' n (fun e => ht' e.symm) ⟨cl, rest, hto, by rw [hpc]; rfl⟩
          ⟨cl', rest', hto', by rw [hpc']; rfl⟩
      simp only [upd_other _ _ _ _ this]; exact hi'
    · intro k r' hd; exact (h.dataOK k r' hd).mono hm
    · intro hv k o hk hnd
      have hi := h.g1 hv k o hk hnd
      have : o.dom ≠ r.FullDomain := by
        intro e
        rw [e, (hl.2 hv).2] at hi
        injection hi with hi; subst hi
        have := (hl.1.2.2.origin_eq hk).2
        exact hnd (by rw [← this, hl.1.2.1]; exact hl.1.1)
      simp only [upd_other _ _ _ _ this]; exact hi
    · intro d k hd
      by_cases e : d = r.FullDomain
      · subst e; simp at hd
      · simp only [upd_other _ _ _ _ e] at hd; exact h.c6 d k hd
    · intro k hk; simp [PC.createId] at hk
    · intro hv k hin t' ht'
      obtain ⟨cl', r', h1, _⟩ := hin
      injection h1 with h1 _; injection h1 with h1 _; subst h1
      exact h.uniqClaim hv t t' n (fun e => ht' e.symm) ⟨cl, rest, hto, by rw [hpc]; rfl⟩
    case SET =>
      intro k o hb hnd _ hoth
      exact h.settled_old t (by rw [hpc]; rfl) k o hb hnd hoth
    case G2 =>
      intro k o hb
      rcases h.g2 k o hb with h1 | h1 | h1
      · exact Or.inl h1
      · exact Or.inr (Or.inl h1)
      · exact Or.inr (Or.inr (hun k h1))
  · -- dData r
    rename_i r
    simp only [stepDelete]
    have hm : Mono c.st { c.st with data := upd c.st.data n none } := ⟨Nat.le_refl _, fun _ _ h => h, fun _ h => h, fun _ h => h⟩
    refine h.assemble t _ rest hto _ _ ?_ ?_ h.bornRange ?_ h.g1 h.c6 h.regOK ?_ ?_ ?SET h.bornDom h.wBorn ?G2
    · exact Or.inr ⟨rfl, by simp only [LInv]; exact ⟨hl.1.mono hm, hl.2.1, hl.2.2⟩⟩
    · refine h.others t _ hm (fun _ _ _ _ hw => hw) (fun _ _ _ _ hb => hb) ?_ (fun _ _ _ _ _ hc => hc)
        (fun _ _ _ _ _ _ _ _ _ hi => hi) (fun _ _ hu => hu)
      intro k o' hb hnd hd
      by_cases e : k = n
      · subst e
        exfalso
        have := (hl.1.2.2.origin_eq hb).2
        exact hnd (by rw [← this, hl.1.2.1]; exact hl.1.1)
      · simp only [upd_other _ _ _ _ e]; exact hd
    · intro k r' hd
      by_cases e : k = n
      · subst e; simp at hd
      · simp only [upd_other _ _ _ _ e] at hd; exact h.dataOK k r' hd
    · intro k hk; simp [PC.createId] at hk
    · intro hv k hin t' ht'
      obtain ⟨cl', r', h1, _⟩ := hin
      injection h1 with h1 _; injection h1 with h1 _; subst h1
      exact h.uniqClaim hv t t' n (fun e => ht' e.symm) ⟨cl, rest, hto, by rw [hpc]; rfl⟩
    case SET =>
      intro k o hb hnd _ hoth
      by_cases e : k = n
      · subst e
        exfalso
        have := (hl.1.2.2.origin_eq hb).2
        exact hnd (by rw [← this, hl.1.2.1]; exact hl.1.1)
      · simp only [upd_other _ _ _ _ e]
        exact h.settled_old t (by rw [hpc]; rfl) k o hb hnd hoth
    case G2 =>
      intro k o hb
      by_cases e : k = n
      · subst e; exact Or.inr (Or.inr hl.2.2)
      · simp only [upd_other _ _ _ _ e]; exact h.g2 k o hb
  · -- dRemC r
    simp only [stepDelete]
    refine h.stepSame t _ rest hto _ ?_ ?_ _ ?_ ?_ ?_ ?_
    · exact ⟨rfl, rfl, rfl, rfl, rfl, rfl, rfl⟩
    · exact h.regOK
    · exact Or.inr ⟨rfl, by simpa only [LInv] using hl⟩
    · simp [PC.createId]
    · intro _ _; rw [hpc]; rfl
    · intro k hk; rw [hpc] at hk; simp [PC.createId] at hk
  · -- dRemG r
    simp only [stepDelete]
    cases hv : cf.variant with
    | repaired =>
      simp only
      refine h.stepSame t _ rest hto _ ?_ ?_ _ ?_ ?_ ?_ ?_
      · exact ⟨rfl, rfl, rfl, rfl, rfl, rfl, rfl⟩
      · exact h.regOK
      · refine Or.inr ⟨rfl, ?_⟩
        simp only [LInv]
        exact ⟨hl.1.1, hv, hl.2.1 hv, hl.2.2, ⟨_, hl.1.2.2.choose_spec.1⟩⟩
      · simp [PC.createId]
      · intro _ _; rw [hpc]; rfl
      · intro k hk; rw [hpc] at hk; simp [PC.createId] at hk
    | asFound =>
      simp only
      refine h.stepSame t _ rest hto _ ?_ ?_ _ ?_ ?_ ?_ ?_
      · exact ⟨rfl, rfl, rfl, rfl, rfl, rfl, rfl⟩
      · exact h.regOK
      · exact Or.inl ⟨rfl, rfl⟩
      · simp [PC.createId]
      · simp [PC.claimed]
      · intro k hk; rw [hpc] at hk; simp [PC.createId] at hk
  · -- dRelease
    simp only [stepDelete]
    have hm : Mono c.st { c.st with claims := upd c.st.claims n false } := ⟨Nat.le_refl _, fun _ _ h => h, fun _ h => h, fun _ h => h⟩
    refine h.assemble t _ rest hto _ _ ?_ ?_ h.bornRange ?_ h.g1 h.c6 h.regOK ?_ ?_ ?SET h.bornDom h.wBorn h.g2
    · exact Or.inl ⟨rfl, rfl⟩
    · refine h.others t _ hm (fun _ _ _ _ hw => hw) (fun _ _ _ _ hb => hb) (fun _ _ _ _ hd => hd) ?_
        (fun _ _ _ _ _ _ _ _ _ hi => hi) (fun _ _ hu => hu)
      intro hv t' ht' k hin hk
      have : k ≠ n := by
        intro e; subst e
        exact h.uniqClaim hv t t' k (fun e => ht' e.symm) ⟨cl, rest, hto, by rw [hpc]; rfl⟩ hin
      simp only [upd_other _ _ _ _ this]; exact hk
    · intro k r' hd; exact (h.dataOK k r' hd).mono hm
    · intro k hk; simp [PC.createId] at hk
    · intro _ k hin; obtain ⟨_, _, _, h2⟩ := hin; simp [PC.claimed] at h2
    case SET =>
      intro k o hb hnd _ hoth
      exact h.settled_old t (by rw [hpc]; rfl) k o hb hnd hoth

end Tunnox.C19
namespace Tunnox.C19
open Gen

theorem Inv.step_update {cf ops exts c} (h : Inv cf ops exts c) (t : Nat) {n st e th tp rest}
    (hto : (c.th t).todo = .upd n st e th tp :: rest) : Inv cf ops exts (stepThread cf c t).1 := by
  rw [stepThread_cons cf c t _ rest hto]
  have hl := h.linv hto
  have hmem : (n, th, tp) ∈ updTargets ops := updTargets_mem (h.mem t _ (by rw [hto]; exact List.mem_cons_self))
  simp only [stepOp]
  cases hpc : (c.th t).pc <;> rw [hpc] at hl <;> simp only [LInv] at hl <;> try exact hl.elim
  · -- idle
    simp only [stepUpdate]
    refine h.stepSame t _ rest hto _ ?_ ?_ _ ?_ ?_ ?_ ?_
    · exact .refl _
    · exact h.regOK
    · exact Or.inr ⟨rfl, by simp [LInv]⟩
    · simp [PC.createId]
    · simp [PC.claimed]
    · intro k hk; rw [hpc] at hk; simp [PC.createId] at hk
  · -- uGet0
    simp only [stepUpdate]
    cases hd : c.st.data n with
    | none =>
      simp only
      refine h.stepSame t _ rest hto _ ?_ ?_ _ ?_ ?_ ?_ ?_
      · exact .refl _
      · exact h.regOK
      · exact Or.inl ⟨rfl, rfl⟩
      · simp [PC.createId]
      · simp [PC.claimed]
      · intro k hk; rw [hpc] at hk; simp [PC.createId] at hk
    | some r =>
      simp only
      refine h.stepSame t _ rest hto _ ?_ ?_ _ ?_ ?_ ?_ ?_
      · exact .refl _
      · exact h.regOK
      · refine Or.inr ⟨rfl, ?_⟩
        simp only [LInv]
        obtain ⟨o, ho, h1, h2, h3, _, h5⟩ := h.dataOK n r hd
        refine ⟨⟨o, ho, h1, h2, h3, Or.inr hmem, h5⟩, ?_⟩
        simp
      · simp [PC.createId]
      · simp [PC.claimed]
      · intro k hk; rw [hpc] at hk; simp [PC.createId] at hk
  · -- uGet1 r
    rename_i r
    simp only [stepUpdate]
    cases hd : c.st.data n with
    | none =>
      simp only
      refine h.stepSame t _ rest hto _ ?_ ?_ _ ?_ ?_ ?_ ?_
      · exact .refl _
      · exact h.regOK
      · exact Or.inl ⟨rfl, rfl⟩
      · simp [PC.createId]
      · simp [PC.claimed]
      · intro k hk; rw [hpc] at hk; simp [PC.createId] at hk
    | some ex =>
      simp only
      split
      · refine h.stepSame t _ rest hto _ ?_ ?_ _ ?_ ?_ ?_ ?_
        · exact .refl _
        · exact h.regOK
        · exact Or.inl ⟨rfl, rfl⟩
        · simp [PC.createId]
        · simp [PC.claimed]
        · intro k hk; rw [hpc] at hk; simp [PC.createId] at hk
      · split
        · refine h.stepSame t _ rest hto _ ?_ ?_ _ ?_ ?_ ?_ ?_
          · exact .refl _
          · exact h.regOK
          · exact Or.inl ⟨rfl, rfl⟩
          · simp [PC.createId]
          · simp [PC.claimed]
          · intro k hk; rw [hpc] at hk; simp [PC.createId] at hk
        · refine h.stepSame t _ rest hto _ ?_ ?_ _ ?_ ?_ ?_ ?_
          · exact .refl _
          · exact h.regOK
          · exact Or.inr ⟨rfl, by simpa only [LInv] using hl⟩
          · simp [PC.createId]
          · simp [PC.claimed]
          · intro k hk; rw [hpc] at hk; simp [PC.createId] at hk
  · -- uSet r
    rename_i r
    simp only [stepUpdate]
    have hm : Mono c.st { c.st with data := upd c.st.data n (some r) } := ⟨Nat.le_refl _, fun _ _ h => h, fun _ h => h, fun _ h => h⟩
    refine h.assemble t _ rest hto _ _ ?_ ?_ h.bornRange ?_ h.g1 h.c6 h.regOK ?_ ?_ ?SET h.bornDom h.wBorn ?G2
    · exact Or.inl ⟨rfl, rfl⟩
    · refine h.others t _ hm (fun _ _ _ _ hw => hw) (fun _ _ _ _ hb => hb) ?_ (fun _ _ _ _ _ hc => hc)
        (fun _ _ _ _ _ _ _ _ _ hi => hi) (fun _ _ hu => hu)
      intro k o' _ _ hd
      by_cases e : k = n
      · subst e; simp
      · simp only [upd_other _ _ _ _ e]; exact hd
    · intro k r' hd
      by_cases e : k = n
      · subst e
        simp only [upd_same, Option.some.injEq] at hd
        subst hd
        exact hl.1.mono hm
      · simp only [upd_other _ _ _ _ e] at hd; exact h.dataOK k r' hd
    · intro k hk; simp [PC.createId] at hk
    · intro _ k hin; obtain ⟨_, _, _, h2⟩ := hin; simp [PC.claimed] at h2
    case SET =>
      intro k o hb hnd _ hoth
      by_cases e : k = n
      · subst e; simp
      · simp only [upd_other _ _ _ _ e]
        exact h.settled_old t (by rw [hpc]; rfl) k o hb hnd hoth
    case G2 =>
      intro k o hb
      by_cases e : k = n
      · subst e; right; left; simp
      · simp only [upd_other _ _ _ _ e]; exact h.g2 k o hb

theorem registerPM_ok {cf : Config} {exts : List PM} {reg : String → Option PM} {m : PM}
    (hreg : ∀ k m', reg k = some m' → m' ∈ exts ∧ m'.fullDomain = k) (hm : m ∈ exts) :
    ∀ k m', registerPM cf reg m k = some m' → m' ∈ exts ∧ m'.fullDomain = k := by
  have hupd : ∀ k m', upd reg m.fullDomain (some m) k = some m' → m' ∈ exts ∧ m'.fullDomain = k := by
    intro k m' hk
    by_cases e : k = m.fullDomain
    · subst e
      simp only [upd_same, Option.some.injEq] at hk
      subst hk
      exact ⟨hm, rfl⟩
    · simp only [upd_other _ _ _ _ e] at hk; exact hreg k m' hk
  unfold registerPM
  split
  · exact hreg
  · split
    · exact hreg
    · cases reg m.fullDomain with
      | none => exact hupd
      | some ex =>
        simp only
        split
        · exact hreg
        · exact hupd

theorem Inv.step_registryStage {cf ops exts c} (h : Inv cf ops exts c) (t : Nat) {host rest}
    (hto : (c.th t).todo = .look host :: rest) (hnc : (c.th t).pc.createId = none) :
    Inv cf ops exts ⟨(registryStage cf c.st host).1,
      upd c.th t (match (registryStage cf c.st host).2.2 with
                  | some _ => ⟨rest, .idle⟩
                  | none => ⟨.look host :: rest, (registryStage cf c.st host).2.1⟩)⟩ := by
  unfold registryStage
  cases c.st.registry (extractDomain host) with
  | some m =>
    simp only
    refine h.stepSame t _ rest hto _ ?_ ?_ _ ?_ ?_ ?_ ?_
    · exact .refl _
    · exact h.regOK
    · exact Or.inl ⟨rfl, rfl⟩
    · simp [PC.createId]
    · simp [PC.claimed]
    · intro k hk; rw [hnc] at hk; cases hk
  | none =>
    simp only
    refine h.stepSame t _ rest hto _ ?_ ?_ _ ?_ ?_ ?_ ?_
    · exact .refl _
    · exact h.regOK
    · exact Or.inr ⟨rfl, by simp [LInv]⟩
    · simp [PC.createId]
    · simp [PC.claimed]
    · intro k hk; rw [hnc] at hk; cases hk

theorem Inv.step_lookup {cf ops exts c} (h : Inv cf ops exts c) (t : Nat) {host rest}
    (hto : (c.th t).todo = .look host :: rest) : Inv cf ops exts (stepThread cf c t).1 := by
  rw [stepThread_cons cf c t _ rest hto]
  have hl := h.linv hto
  simp only [stepOp]
  cases hpc : (c.th t).pc <;> rw [hpc] at hl <;> simp only [LInv] at hl <;> try exact hl.elim
  · -- idle
    simp only [stepLookup]
    refine h.stepSame t _ rest hto _ ?_ ?_ _ ?_ ?_ ?_ ?_
    · exact .refl _
    · exact h.regOK
    · exact Or.inr ⟨rfl, by simp [LInv]⟩
    · simp [PC.createId]
    · simp [PC.claimed]
    · intro k hk; rw [hpc] at hk; simp [PC.createId] at hk
  · -- lIdx
    simp only [stepLookup]
    cases hix : c.st.index (extractDomain host) with
    | none => exact h.step_registryStage t hto (by rw [hpc]; rfl)
    | some k =>
      simp only
      refine h.stepSame t _ rest hto _ ?_ ?_ _ ?_ ?_ ?_ ?_
      · exact .refl _
      · exact h.regOK
      · exact Or.inr ⟨rfl, by simp only [LInv]; exact h.c6 _ _ hix⟩
      · simp [PC.createId]
      · simp [PC.claimed]
      · intro k hk; rw [hpc] at hk; simp [PC.createId] at hk
  · -- lData k
    rename_i k
    simp only [stepLookup]
    cases c.st.data k with
    | none => exact h.step_registryStage t hto (by rw [hpc]; rfl)
    | some r =>
      simp only
      split
      · split
        · refine h.stepSame t _ rest hto _ ?_ ?_ _ ?_ ?_ ?_ ?_
          · exact .refl _
          · exact h.regOK
          · exact Or.inl ⟨rfl, rfl⟩
          · simp [PC.createId]
          · simp [PC.claimed]
          · intro k hk; rw [hpc] at hk; simp [PC.createId] at hk
        · refine h.stepSame t _ rest hto _ ?_ ?_ _ ?_ ?_ ?_ ?_
          · exact .refl _
          · exact h.regOK
          · exact Or.inl ⟨rfl, rfl⟩
          · simp [PC.createId]
          · simp [PC.claimed]
          · intro k hk; rw [hpc] at hk; simp [PC.createId] at hk
      · refine h.stepSame t _ rest hto _ ?_ ?_ _ ?_ ?_ ?_ ?_
        · exact .refl _
        · exact h.regOK
        · exact Or.inl ⟨rfl, rfl⟩
        · simp [PC.createId]
        · simp [PC.claimed]
        · intro k hk; rw [hpc] at hk; simp [PC.createId] at hk
  · -- lCloud
    simp only [stepLookup]
    cases hf : cloudFind cf (extractDomain host) with
    | none =>
      simp only
      refine h.stepSame t _ rest hto _ ?_ ?_ _ ?_ ?_ ?_ ?_
      · exact .refl _
      · exact h.regOK
      · exact Or.inl ⟨rfl, rfl⟩
      · simp [PC.createId]
      · simp [PC.claimed]
      · intro k hk; rw [hpc] at hk; simp [PC.createId] at hk
    | some m =>
      simp only
      have hmem : m ∈ exts := h.cloudSub m (List.mem_of_find?_eq_some hf)
      cases pmCheck cf.now m with
      | route a b c' d =>
        simp only
        refine h.stepSame t _ rest hto _ ?_ ?_ _ ?_ ?_ ?_ ?_
        · exact ⟨rfl, rfl, rfl, rfl, rfl, rfl, rfl⟩
        · exact registerPM_ok h.regOK hmem
        · exact Or.inl ⟨rfl, rfl⟩
        · simp [PC.createId]
        · simp [PC.claimed]
        · intro k hk; rw [hpc] at hk; simp [PC.createId] at hk
      | okId k =>
        simp only
        refine h.stepSame t _ rest hto _ ?_ ?_ _ ?_ ?_ ?_ ?_
        · exact .refl _
        · exact h.regOK
        · exact Or.inl ⟨rfl, rfl⟩
        · simp [PC.createId]
        · simp [PC.claimed]
        · intro k hk; rw [hpc] at hk; simp [PC.createId] at hk
      | ok =>
        simp only
        refine h.stepSame t _ rest hto _ ?_ ?_ _ ?_ ?_ ?_ ?_
        · exact .refl _
        · exact h.regOK
        · exact Or.inl ⟨rfl, rfl⟩
        · simp [PC.createId]
        · simp [PC.claimed]
        · intro k hk; rw [hpc] at hk; simp [PC.createId] at hk
      | err code =>
        simp only
        refine h.stepSame t _ rest hto _ ?_ ?_ _ ?_ ?_ ?_ ?_
        · exact .refl _
        · exact h.regOK
        · exact Or.inl ⟨rfl, rfl⟩
        · simp [PC.createId]
        · simp [PC.claimed]
        · intro k hk; rw [hpc] at hk; simp [PC.createId] at hk

/-- **Every step of every thread preserves the invariant.** -/
theorem Inv.step {cf ops exts c} (h : Inv cf ops exts c) (t : Nat) : Inv cf ops exts (stepThread cf c t).1 := by
  cases hto : (c.th t).todo with
  | nil => unfold stepThread; simp only [hto]; exact h
  | cons o rest =>
    cases o with
    | create cl sub base th tp => exact h.step_create t hto
    | del n cl => exact h.step_delete t hto
    | upd n st e th tp => exact h.step_update t hto
    | look host => exact h.step_lookup t hto

end Tunnox.C19
