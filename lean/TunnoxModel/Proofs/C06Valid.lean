import TunnoxModel.Proofs.C06
/-! C06: "only while valid" — an invariant over event prefixes. -/
namespace Tunnox.C06
open Gen

/-- The period has run out somewhere in `pre` (after the code was generated). -/
def expiredIn (pre : List Ev) : Bool := (pre.dropWhile (· != .create)).contains .expire

theorem validAt_eq (evs : List Ev) (k : Nat) :
    validAt evs k = ((evs.take k).contains .create && !expiredIn (evs.take k)) := rfl

theorem validAt_append (pre : List Ev) (e : Ev) (k : Nat) (hk : k ≤ pre.length) :
    validAt (pre ++ [e]) k = validAt pre k := by
  simp only [validAt, List.take_append_of_le_length hk]

theorem validAt_last (pre : List Ev) (e : Ev) :
    validAt (pre ++ [e]) pre.length = (pre.contains .create && !expiredIn pre) := by
  simp [validAt, expiredIn]

theorem dropWhile_nil_of_not_contains (pre : List Ev) (h : pre.contains .create = false) :
    pre.dropWhile (· != .create) = [] := by
  induction pre with
  | nil => rfl
  | cons x xs ih =>
    simp only [List.contains_cons, Bool.or_eq_false_iff] at h
    have hx : (x != Ev.create) = true := by
      have := h.1; simp only [bne_iff_ne, ne_eq]; intro hh; subst hh; simp at this
    rw [List.dropWhile_cons, if_pos hx]; exact ih h.2

theorem dropWhile_ne_nil_of_contains (pre : List Ev) (h : pre.contains .create = true) :
    pre.dropWhile (· != .create) ≠ [] := by
  induction pre with
  | nil => simp at h
  | cons x xs ih =>
    rw [List.dropWhile_cons]
    split
    · rename_i hx
      simp only [List.contains_cons, Bool.or_eq_true] at h
      rcases h with h | h
      · simp only [bne_iff_ne, ne_eq] at hx; simp at h; exact absurd h.symm hx
      · exact ih h
    · simp

theorem expiredIn_append (pre : List Ev) (e : Ev) :
    expiredIn (pre ++ [e]) = if pre.contains .create then (expiredIn pre || e == .expire) else false := by
  unfold expiredIn
  cases hc : pre.contains .create with
  | false =>
    have h0 := dropWhile_nil_of_not_contains pre hc
    rw [List.dropWhile_append, h0]
    simp only [List.isEmpty_nil, if_true]
    cases e <;> simp [List.dropWhile_cons]
  | true =>
    have h0 := dropWhile_ne_nil_of_contains pre hc
    rw [List.dropWhile_append]
    have : (List.dropWhile (fun x => x != Ev.create) pre).isEmpty = false := by
      cases hd : List.dropWhile (fun x => x != Ev.create) pre with
      | nil => exact absurd hd h0
      | cons _ _ => rfl
    rw [this]
    cases e <;> simp [List.contains_append]

/-- step number `n` of call `i` lies in `pre`, and before it the code was valid -/
def W (pre : List Ev) (i n : Nat) : Prop :=
  ∃ k, pre[k]? = some (.th i) ∧ validAt pre k = true ∧ (pre.take k).count (.th i) = n

theorem getElem?_lt {α} {l : List α} {k : Nat} {a : α} (h : l[k]? = some a) : k < l.length := by
  rcases List.getElem?_eq_some_iff.mp h with ⟨hl, _⟩; exact hl

theorem W.mono {pre i n} (e : Ev) (h : W pre i n) : W (pre ++ [e]) i n := by
  obtain ⟨k, h1, h2, h3⟩ := h
  have hk := getElem?_lt h1
  exact ⟨k, by rw [List.getElem?_append_left hk]; exact h1, by rw [validAt_append _ _ _ (Nat.le_of_lt hk)]; exact h2,
    by rw [List.take_append_of_le_length (Nat.le_of_lt hk)]; exact h3⟩

theorem W.new {pre i n} (hv : (pre.contains .create && !expiredIn pre) = true) (hc : pre.count (.th i) = n) :
    W (pre ++ [.th i]) i n :=
  ⟨pre.length, by simp, by rw [validAt_last]; exact hv, by simpa using hc⟩

theorem W.contains {pre i n} (h : W pre i n) : pre.contains .create = true := by
  obtain ⟨k, _, h2, _⟩ := h
  simp only [validAt, Bool.and_eq_true] at h2
  have := h2.1
  rw [List.contains_iff_mem] at this ⊢
  exact List.mem_of_mem_take this

/-- Thread-local part of the prefix invariant. -/
structure VT (p : Params) (pre : List Ev) (i : Nat) (t : Thread) : Prop where
  c0 : t.pc = .start → pre.count (.th i) = 0
  c1 : t.pc = .claimed → pre.count (.th i) = 1
  chk : t.pc = .checked → t.loc.ActivationExpiresAt = p.expAt ∧ W pre i 1 ∧ pre.count (.th i) = 2
  dec : (t.pc = .decided ∨ t.pc = .created ∨ t.pc = .rollback) → t.loc.ActivationExpiresAt = p.expAt ∧ W pre i 1 ∧ W pre i 2
  rev : t.pc = .revUpd → t.loc.ActivationExpiresAt = p.expAt
  ok : ∀ m, t.res = some (.ok m) → W pre i 1 ∧ W pre i 2

theorem count_append_other (pre : List Ev) (e : Ev) (i : Nat) (h : e ≠ .th i) :
    (pre ++ [e]).count (.th i) = pre.count (.th i) := by
  simp [List.count_append, List.count_singleton, h]

theorem VT.mono {p pre i t} (e : Ev) (he : e ≠ .th i) (h : VT p pre i t) : VT p (pre ++ [e]) i t :=
  ⟨fun hc => by rw [count_append_other _ _ _ he]; exact h.c0 hc,
   fun hc => by rw [count_append_other _ _ _ he]; exact h.c1 hc,
   fun hc => ⟨(h.chk hc).1, (h.chk hc).2.1.mono e, by rw [count_append_other _ _ _ he]; exact (h.chk hc).2.2⟩,
   fun hc => ⟨(h.dec hc).1, (h.dec hc).2.1.mono e, (h.dec hc).2.2.mono e⟩, h.rev,
   fun m hm => ⟨(h.ok m hm).1.mono e, (h.ok m hm).2.mono e⟩⟩

structure VInv (p : Params) (pre : List Ev) (c : Config) : Prop where
  created : c.st.created = pre.contains .create
  clock : decide (p.expAt < c.st.now) = expiredIn pre
  code : c.st.created = true → c.st.code.ActivationExpiresAt = p.expAt
  th : ∀ (i : Nat) (t : Thread), c.ths[i]? = some t → VT p pre i t

/-- What one phase of a thread does to the facts the prefix invariant talks about. -/
structure VStep (p : Params) (st : Store) (t : Thread) (st' : Store) (t' : Thread) : Prop where
  now : st'.now = st.now
  created : st'.created = st.created
  code : st'.created = true → st'.code.ActivationExpiresAt = p.expAt
  s0 : t'.pc = .start → False
  s1 : t'.pc = .claimed → t.pc = .start
  chk : t'.pc = .checked → t'.loc.ActivationExpiresAt = p.expAt ∧
          (t.pc = .claimed ∧ st.created = true ∧ ¬ (p.expAt < st.now))
  dec : (t'.pc = .decided ∨ t'.pc = .created ∨ t'.pc = .rollback) → t'.loc.ActivationExpiresAt = p.expAt ∧
          ((t.pc = .decided ∨ t.pc = .created ∨ t.pc = .rollback) ∨ (t.pc = .checked ∧ ¬ (p.expAt < st.now)))
  rev : t'.pc = .revUpd → t'.loc.ActivationExpiresAt = p.expAt
  ok : ∀ m, t'.res = some (.ok m) → t.res = some (.ok m) ∨ t.pc = .created

theorem updateRec_code (st : Store) (t : Thread) :
    (updateRec st t).1.code = st.code ∨ (updateRec st t).1.code = t.loc := by
  unfold updateRec; (repeat' split) <;> simp

theorem updateRec_now (st : Store) (t : Thread) : (updateRec st t).1.now = st.now := by
  unfold updateRec; (repeat' split) <;> simp

/-- the call ends (or only releases) and the store is untouched -/
theorem vstep_same {p : Params} {st : Store} {t t' : Thread}
    (hcode : st.created = true → st.code.ActivationExpiresAt = p.expAt)
    (hpc : t'.pc = .releasing ∨ t'.pc = .done)
    (hres : ∀ m, t'.res = some (.ok m) → t.res = some (.ok m)) : VStep p st t st t' := by
  refine ⟨rfl, rfl, hcode, ?_, ?_, ?_, ?_, ?_, fun m hm => .inl (hres m hm)⟩ <;>
    (intro h; rcases hpc with h' | h' <;> simp [h'] at h)

theorem vstep_fail {p : Params} {st : Store} {t : Thread} (r : Res)
    (hcode : st.created = true → st.code.ActivationExpiresAt = p.expAt) (hr : ∀ m, r ≠ .ok m) :
    VStep p st t st (fin .repaired t r) :=
  vstep_same hcode (.inl rfl) (fun m hm => by simp [fin] at hm; exact absurd hm (hr m))

theorem vstep_claim {p : Params} {st : Store} {i : Nat} {t : Thread}
    (hcode : st.created = true → st.code.ActivationExpiresAt = p.expAt) (hpc : t.pc = .start) :
    VStep p st t (claimStep st i t).1 (claimStep st i t).2 := by
  unfold claimStep
  split
  · exact vstep_same hcode (.inr rfl) (fun m hm => by simp at hm)
  · split
    · exact vstep_same hcode (.inr rfl) (fun m hm => by simp at hm)
    · exact ⟨rfl, rfl, hcode, by intro h; simp at h, fun _ => hpc, by intro h; simp at h, by intro h; simp at h,
        by intro h; simp at h, fun m hm => .inl hm⟩

theorem tstep_vstep {p : Params} {st : Store} {i : Nat} {t : Thread}
    (hcode : st.created = true → st.code.ActivationExpiresAt = p.expAt)
    (hpres : st.present = true → st.created = true)
    (h1 : t.pc = .checked → t.loc.ActivationExpiresAt = p.expAt)
    (h2 : (t.pc = .decided ∨ t.pc = .created ∨ t.pc = .rollback) → t.loc.ActivationExpiresAt = p.expAt)
    (h3 : t.pc = .revUpd → t.loc.ActivationExpiresAt = p.expAt) :
    VStep p st t (tstepMain .repaired p st i t).1 (tstepMain .repaired p st i t).2 := by
  have hf := updateRec_fields st t
  have hc := updateRec_code st t
  have hn := updateRec_now st t
  have hexp : ∀ (now : Nat) (c : TunnelConnectionCode), TunnelConnectionCode.IsExpired now c = false →
      ¬ (c.ActivationExpiresAt < now) := by
    intro now c h
    simpa [TunnelConnectionCode.IsExpired, Tunnox.PredPrelude.timeAfter, Tunnox.PredPrelude.TimeLike.toTime] using h
  cases hpc : t.pc
  · -- start
    cases hk : t.kind <;> simp only [tstepMain, hk, hpc]
    · split
      · exact vstep_same hcode (.inr rfl) (fun m hm => by simp at hm)
      · simpa using vstep_claim hcode hpc
    · simpa using vstep_claim hcode hpc
  · -- claimed
    cases hk : t.kind <;> simp only [tstepMain, hk, hpc]
    · unfold getStepA
      split
      · exact vstep_fail _ hcode (by simp)
      · split
        · exact vstep_fail _ hcode (by simp)
        · split
          · refine vstep_fail _ hcode ?_
            intro m; (repeat' split) <;> simp
          · split
            · exact vstep_fail _ hcode (by simp)
            · rename_i hp hv _
              have hcr := hpres (by simpa using hp)
              have hvv := valid_unfold (by simpa using hv)
              have hne := hexp _ _ hvv.2.2
              rw [hcode hcr] at hne
              refine ⟨rfl, rfl, hcode, (by intro h; simp [fin] at h), (by intro h; simp [fin] at h), ?_, ?_, ?_, fun m hm => .inl hm⟩
              · intro _; exact ⟨hcode hcr, hpc, hcr, hne⟩
              · intro h; simp at h
              · intro h; simp at h
    · unfold getStepR
      split
      · exact vstep_fail _ hcode (by simp)
      · split
        · exact vstep_fail _ hcode (by simp)
        · split
          · exact vstep_fail _ hcode (by simp)
          · rename_i hp _
            have hcr := hpres (by simpa using hp)
            refine ⟨rfl, rfl, hcode, (by intro h; simp [fin] at h), (by intro h; simp [fin] at h), ?_, ?_, ?_, fun m hm => .inl hm⟩
            · intro h; simp at h
            · intro h; simp at h
            · intro _; exact hcode hcr
  · -- checked
    have hl := h1 hpc
    cases hk : t.kind <;> simp only [tstepMain, hk, hpc] <;>
    · split
      · exact vstep_fail _ hcode (by simp)
      · split
        · exact vstep_fail _ hcode (by simp)
        · rename_i hv
          have hvv := valid_unfold (by simpa using hv)
          have hne := hexp _ _ hvv.2.2
          rw [hl] at hne
          refine ⟨rfl, rfl, hcode, (by intro h; simp [fin] at h), (by intro h; simp [fin] at h), ?_, ?_, ?_, fun m hm => .inl hm⟩
          · intro h; simp at h
          · intro _; exact ⟨hl, .inr ⟨hpc, hne⟩⟩
          · intro h; simp at h
  · -- decided
    have hl := h2 (.inl hpc)
    cases hk : t.kind <;> simp only [tstepMain, hk, hpc] <;>
    · split
      · exact vstep_fail _ hcode (by simp)
      · refine ⟨rfl, rfl, hcode, (by intro h; simp [fin] at h), (by intro h; simp [fin] at h), ?_, ?_, ?_, fun m hm => .inl hm⟩
        · intro h; simp at h
        · intro _; exact ⟨hl, .inl (.inl hpc)⟩
        · intro h; simp at h
  · -- created
    have hl := h2 (.inr (.inl hpc))
    have hcode' : (updateRec st t).1.created = true → (updateRec st t).1.code.ActivationExpiresAt = p.expAt := by
      intro hcr
      rcases hc with h | h
      · rw [h]; exact hcode (by rw [← hf.2.2.2.2.1]; exact hcr)
      · rw [h]; exact hl
    cases hk : t.kind <;> simp only [tstepMain, hk, hpc] <;>
    · split
      · exact ⟨rfl, rfl, hcode, by intro h; simp [hpc] at h, by intro h; simp [hpc] at h, by intro h; simp [hpc] at h, fun h => ⟨h2 h, .inl h⟩, h3, fun m hm => .inl hm⟩
      · split
        · refine ⟨by simp [hn], by simp [hf], by simpa using hcode', (by intro h; simp [fin] at h), (by intro h; simp [fin] at h), ?_, ?_, ?_, fun m _ => .inr hpc⟩ <;>
            (intro h; simp [fin] at h)
        · refine ⟨hn, hf.2.2.2.2.1, hcode', (by intro h; simp [fin] at h), (by intro h; simp [fin] at h), ?_, ?_, ?_, fun m hm => by simp at hm⟩
          · intro h; simp at h
          · intro _; exact ⟨hl, .inl (.inr (.inl hpc))⟩
          · intro h; simp at h
  · -- rollback
    cases hk : t.kind <;> simp only [tstepMain, hk, hpc] <;>
    · split
      · exact ⟨rfl, rfl, hcode, by intro h; simp [hpc] at h, by intro h; simp [hpc] at h, by intro h; simp [hpc] at h, fun h => ⟨h2 h, .inl h⟩, h3, fun m hm => .inl hm⟩
      · refine ⟨rfl, rfl, hcode, (by intro h; simp [fin] at h), (by intro h; simp [fin] at h), ?_, ?_, ?_, fun m hm => .inl hm⟩ <;> (intro h; simp at h)
  · -- revUpd
    have hl := h3 hpc
    have hcode' : (updateRec st t).1.created = true → (updateRec st t).1.code.ActivationExpiresAt = p.expAt := by
      intro hcr
      rcases hc with h | h
      · rw [h]; exact hcode (by rw [← hf.2.2.2.2.1]; exact hcr)
      · rw [h]; exact hl
    cases hk : t.kind <;> simp only [tstepMain, hk, hpc] <;>
    · split
      · refine ⟨by simp [hn], by simp [hf], by simpa using hcode', (by intro h; simp [fin] at h), (by intro h; simp [fin] at h), ?_, ?_, ?_, fun m hm => by simp [fin] at hm⟩ <;>
          (intro h; simp [fin] at h)
      · refine ⟨hn, hf.2.2.2.2.1, hcode', (by intro h; simp [fin] at h), (by intro h; simp [fin] at h), ?_, ?_, ?_, fun m hm => by simp [fin] at hm⟩ <;>
          (intro h; simp [fin] at h)
  · -- releasing
    cases hk : t.kind <;> simp only [tstepMain, hk, hpc] <;>
    · split
      · exact vstep_same hcode (.inr rfl) (fun m hm => hm)
      · refine ⟨rfl, rfl, hcode, (by intro h; simp [fin] at h), (by intro h; simp [fin] at h), ?_, ?_, ?_, fun m hm => .inl hm⟩ <;> (intro h; simp at h)
  · -- done
    cases hk : t.kind <;> simp only [tstepMain, hk, hpc] <;>
    exact vstep_same hcode (.inr hpc) (fun m hm => hm)

/-- a request with another spelling: claim, look-up, release; nothing the prefix invariant talks about moves -/
theorem tstepO_vstep {p : Params} {st : Store} {t : Thread}
    (hcode : st.created = true → st.code.ActivationExpiresAt = p.expAt) (ho : OInv t) :
    VStep p st t (tstepO .repaired st t).1 (tstepO .repaired st t).2 := by
  have h1 := ho.noOk
  have hno : ∀ (t' : Thread), (t'.res = t.res ∨ ∃ r, t'.res = some r ∧ ∀ m, r ≠ .ok m) →
      ∀ m, t'.res = some (.ok m) → t.res = some (.ok m) ∨ t.pc = .created := by
    intro t' h m hm
    rcases h with h | ⟨r, h, hr⟩
    · left; rw [← h]; exact hm
    · rw [h] at hm; simp at hm; exact absurd hm (hr m)
  unfold tstepO
  split
  · rename_i hpc
    split
    · exact ⟨rfl, rfl, hcode, by simp, by simp, by simp, by simp, by simp, hno _ (.inr ⟨_, rfl, by simp⟩)⟩
    · simp only [↓reduceIte]
      split
      · exact ⟨rfl, rfl, hcode, by simp, by simp, by simp, by simp, by simp, hno _ (.inr ⟨_, rfl, by simp⟩)⟩
      · split
        · exact ⟨rfl, rfl, hcode, by simp, by simp, by simp, by simp, by simp, hno _ (.inr ⟨_, rfl, by simp⟩)⟩
        · exact ⟨rfl, rfl, hcode, by simp, fun _ => hpc, by simp, by simp, by simp, hno _ (.inl rfl)⟩
  · refine ⟨rfl, rfl, hcode, by simp [fin], by simp [fin], by simp [fin], by simp [fin], by simp [fin], ?_⟩
    apply hno; right; refine ⟨_, rfl, ?_⟩; intro m; split <;> simp
  · split
    · exact ⟨rfl, rfl, hcode, by simp, by simp, by simp, by simp, by simp, hno _ (.inl rfl)⟩
    · exact ⟨rfl, rfl, hcode, by simp, by simp, by simp, by simp, by simp, hno _ (.inl rfl)⟩
  · exact ⟨rfl, rfl, hcode, by simp, by simp, by simp, by simp, by simp, hno _ (.inl rfl)⟩

theorem tstepP_vstep {p : Params} {st : Store} {t : Thread}
    (hcode : st.created = true → st.code.ActivationExpiresAt = p.expAt) (ho : OInv t) :
    VStep p st t (tstepP st t).1 (tstepP st t).2 := by
  unfold tstepP
  split
  · rename_i hpc
    refine ⟨rfl, rfl, hcode, by simp, fun _ => hpc, by simp, by simp, by simp, ?_⟩
    intro m hm; exfalso
    simp only [Option.some.injEq] at hm; split at hm <;> simp at hm
  · exact ⟨rfl, rfl, hcode, by simp, by simp, by simp, by simp, by simp, fun m hm => .inl hm⟩

theorem expiredIn_of_not_contains (pre : List Ev) (h : pre.contains .create = false) : expiredIn pre = false := by
  simp [expiredIn, dropWhile_nil_of_not_contains pre h]

theorem contains_append_th (pre : List Ev) (i : Nat) : (pre ++ [Ev.th i]).contains .create = pre.contains .create := by
  simp [List.contains_append]

theorem expiredIn_append_th (pre : List Ev) (i : Nat) : expiredIn (pre ++ [Ev.th i]) = expiredIn pre := by
  rw [expiredIn_append]
  cases hc : pre.contains .create with
  | true => simp
  | false => simp [expiredIn_of_not_contains pre hc]

theorem vinv_step {p : Params} {pre : List Ev} {c : Config} (e : Ev) (h : VInv p pre c) (hi : Inv p c) :
    VInv p (pre ++ [e]) (step .repaired p c e) := by
  have hmono : ∀ (i : Nat) (t : Thread), e ≠ .th i → c.ths[i]? = some t → VT p (pre ++ [e]) i t :=
    fun i t he ht => (h.th i t ht).mono e he
  cases e with
  | create =>
    have hm := fun i t => hmono i t (by simp)
    simp only [step]
    split
    · rename_i hc
      refine ⟨?_, ?_, h.code, hm⟩
      · simp [hc, List.contains_append]
      · rw [expiredIn_append, ← h.created, hc]; simp [h.clock]
    · rename_i hc
      have hc' : c.st.created = false := by simpa using hc
      have hnc : pre.contains .create = false := by rw [← h.created]; exact hc'
      refine ⟨?_, ?_, ?_, hm⟩
      · simp [List.contains_append]
      · rw [expiredIn_append, hnc]; simp only [Bool.false_eq_true, if_false]
        rw [h.clock]; exact expiredIn_of_not_contains pre hnc
      · intro _; rfl
  | expire =>
    have hm := fun i t => hmono i t (by simp)
    simp only [step]
    split
    · rename_i hc
      refine ⟨?_, ?_, h.code, hm⟩
      · have hcc : pre.contains .create = true := by rw [← h.created]; exact hc
        simp only [List.contains_append, hcc, hc, Bool.true_or]
      · rw [expiredIn_append, ← h.created, hc]; simp
    · rename_i hc
      have hc' : c.st.created = false := by simpa using hc
      have hnc : pre.contains .create = false := by rw [← h.created]; exact hc'
      refine ⟨?_, ?_, h.code, hm⟩
      · simp only [List.contains_append, hnc, hc', Bool.false_or]; rfl
      · rw [expiredIn_append, hnc]; simp only [Bool.false_eq_true, if_false]
        rw [h.clock]; exact expiredIn_of_not_contains pre hnc
  | stall =>
    have hm := fun i t => hmono i t (by simp)
    have hst : (step .repaired p c .stall).st.created = c.st.created ∧ (step .repaired p c .stall).st.now = c.st.now ∧
        (step .repaired p c .stall).st.code = c.st.code ∧ (step .repaired p c .stall).ths = c.ths := by
      simp only [step]; (repeat' split) <;> simp
    refine ⟨?_, ?_, ?_, ?_⟩
    · rw [hst.1, List.contains_append, h.created]; simp
    · rw [hst.2.1, expiredIn_append, h.clock]
      cases hc : pre.contains .create with
      | true => simp
      | false => simp [expiredIn_of_not_contains pre hc]
    · rw [hst.1, hst.2.2.1]; exact h.code
    · rw [hst.2.2.2]; exact hm
  | th i =>
    have hm : ∀ (j : Nat) (t : Thread), i ≠ j → c.ths[j]? = some t → VT p (pre ++ [.th i]) j t :=
      fun j t hij => hmono j t (by simp [hij])
    have hcnt : (pre ++ [Ev.th i]).count (.th i) = pre.count (.th i) + 1 := by
      simp [List.count_append, List.count_singleton]
    simp only [step]
    cases hti : c.ths[i]? with
    | none =>
      refine ⟨by rw [contains_append_th]; exact h.created, by rw [expiredIn_append_th]; exact h.clock, h.code, ?_⟩
      intro j tj hj
      by_cases hij : i = j
      · subst hij; rw [hti] at hj; simp at hj
      · exact hm j tj hij hj
    | some t =>
      simp only
      have hv := h.th i t hti
      have vs : VStep p c.st t (tstep .repaired p c.st i t).1 (tstep .repaired p c.st i t).2 := by
        by_cases hs : t.isMain = true
        · have htm : tstep .repaired p c.st i t = tstepMain .repaired p c.st i t := by simp [tstep, hs]
          rw [htm]
          exact tstep_vstep (p := p) (st := c.st) (i := i) (t := t) h.code hi.g.pres
            (fun hh => (hv.chk hh).1) (fun hh => (hv.dec hh).1) hv.rev
        · by_cases hpl : t.poll = true
          · have htm : tstep .repaired p c.st i t = tstepP c.st t := by simp [tstep, hs, hpl]
            rw [htm]
            exact tstepP_vstep h.code (hi.o i t hti hs)
          · have htm : tstep .repaired p c.st i t = tstepO .repaired c.st t := by simp [tstep, hs, hpl]
            rw [htm]
            exact tstepO_vstep h.code (hi.o i t hti hs)
      have hlt := getElem?_lt hti
      refine ⟨?_, ?_, vs.code, ?_⟩
      · rw [contains_append_th, vs.created]; exact h.created
      · rw [expiredIn_append_th, vs.now]; exact h.clock
      · intro j tj hj
        by_cases hij : i = j
        · subst hij
          rw [List.getElem?_set_self hlt] at hj
          simp at hj; subst hj
          have hexp : ∀ (hne : ¬ (p.expAt < c.st.now)), expiredIn pre = false := by
            intro hne; rw [← h.clock]; simpa using hne
          refine ⟨fun hc => (vs.s0 hc).elim, ?_, ?_, ?_, vs.rev, ?_⟩
          · intro hc; rw [hcnt, hv.c0 (vs.s1 hc)]
          · intro hc
            obtain ⟨hl, hold, hcr, hne⟩ := vs.chk hc
            refine ⟨hl, ?_, by rw [hcnt, hv.c1 hold]⟩
            apply W.new _ (hv.c1 hold)
            rw [← h.created, hcr, hexp hne]; rfl
          · intro hc
            obtain ⟨hl, hcase⟩ := vs.dec hc
            refine ⟨hl, ?_⟩
            rcases hcase with hold | ⟨hold, hne⟩
            · exact ⟨(hv.dec hold).2.1.mono _, (hv.dec hold).2.2.mono _⟩
            · have hw := (hv.chk hold).2.1
              refine ⟨hw.mono _, W.new ?_ (hv.chk hold).2.2⟩
              rw [hw.contains, hexp hne]; rfl
          · intro m hm'
            rcases vs.ok m hm' with hold | hold
            · exact ⟨(hv.ok m hold).1.mono _, (hv.ok m hold).2.mono _⟩
            · exact ⟨(hv.dec (.inr (.inl hold))).2.1.mono _, (hv.dec (.inr (.inl hold))).2.2.mono _⟩
        · rw [List.getElem?_set_ne hij] at hj
          exact hm j tj hij hj

theorem vinv_run {p : Params} (evs : List Ev) {pre : List Ev} {c : Config} (h : VInv p pre c) (hi : Inv p c)
    (hl : leaseOk p c evs = true) :
    VInv p (pre ++ evs) (run .repaired p c evs) := by
  induction evs generalizing pre c with
  | nil => simpa [run] using h
  | cons e es ih =>
    have := ih (vinv_step e h hi) (inv_step e hi (lease_next hl).1) (lease_next hl).2
    simpa [run, List.append_assoc] using this

theorem vinv_init {p : Params} (preC preN : Nat) (ths : List Thread) (hf : freshThreads ths = true) :
    VInv p [] (init preC preN ths) := by
  refine ⟨rfl, ?_, ?_, ?_⟩
  · simp [init, initStore, expiredIn]
  · intro h; simp [init, initStore] at h
  · intro i t hi
    have ht := List.mem_of_getElem? hi
    simp only [freshThreads, List.all_eq_true, Bool.and_eq_true, beq_iff_eq] at hf
    have := hf t ht
    constructor <;> simp_all

theorem holdsValid_of_vinv {p : Params} {evs : List Ev} {c : Config} (h : VInv p evs c) :
    holdsValid evs (obs c) = true := by
  unfold holdsValid
  rw [List.all_eq_true]
  intro i _
  cases hr : (obs c).results[i]? with
  | none => rfl
  | some r =>
    cases r with
    | ok tp b =>
      simp only
      simp only [obs, List.getElem?_map, Option.map_eq_some_iff] at hr
      obtain ⟨t, ht, ho⟩ := hr
      obtain ⟨m, hm, _⟩ := oresOf_ok ho
      obtain ⟨⟨k1, h1, h2, h3⟩, ⟨k2, h4, h5, h6⟩⟩ := (h.th i t ht).ok m hm
      rw [Bool.and_eq_true, List.any_eq_true, List.any_eq_true]
      exact ⟨⟨k1, List.mem_range.mpr (getElem?_lt h1), by simp [stepValid, h1, h2, h3]⟩,
        ⟨k2, List.mem_range.mpr (getElem?_lt h4), by simp [stepValid, h4, h5, h6]⟩⟩
    | rok => rfl
    | err _ => rfl
    | running => rfl

theorem holdsValid_run {p : Params} (preC preN : Nat) (ths : List Thread) (evs : List Ev) (hf : freshThreads ths = true)
    (hl : leaseOk p (init preC preN ths) evs = true) :
    holdsValid evs (obs (run .repaired p (init preC preN ths) evs)) = true := by
  have := vinv_run (p := p) evs (vinv_init preC preN ths hf) (inv_init preC preN ths hf) hl
  exact holdsValid_of_vinv (by simpa using this)

end Tunnox.C06
