import TunnoxModel.Spec.C02
import TunnoxModel.Proofs.C02
/-! Helper lemmas for the two-hop (cross-node) relay. -/
namespace Tunnox.C02

theorem allData_writesAsReads (cs : List Bytes) : allData (writesAsReads cs) = cs.flatten := by
  unfold allData writesAsReads
  rw [List.map_map]
  congr 1
  induction cs with
  | nil => rfl
  | cons a t ih => simp only [List.map_cons, Function.comp]; rw [ih]

theorem cleanReads_writesAsReads (cs : List Bytes) : CleanReads (writesAsReads cs) := by
  intro ev hev
  unfold writesAsReads at hev
  obtain ⟨d, _, rfl⟩ := List.mem_map.mp hev
  exact ⟨rfl, by simp⟩

def sumLen : List ReadEv → Nat
  | [] => 0
  | e :: r => e.data.length + sumLen r

theorem le_sumLen : ∀ (rs : List ReadEv) (ev : ReadEv), ev ∈ rs → ev.data.length ≤ sumLen rs
  | [], _, h => by cases h
  | e :: r, ev, h => by
    rcases List.mem_cons.mp h with rfl | h'
    · simp only [sumLen]; omega
    · have := le_sumLen r ev h'
      simp only [sumLen]; omega

/-- A relay whose reading end never fails and whose writing end accepts everything forwards all of it and
reaches the end of the stream. -/
theorem copy_writesAsReads (cs : List Bytes) :
    (copy none (writesAsReads cs) [] {}).1.delivered = cs.flatten ∧ (copy none (writesAsReads cs) [] {}).2.1 = .eof := by
  have heof := copy_clean_eof none (writesAsReads cs) [] {} (sumLen (writesAsReads cs))
    (cleanReads_writesAsReads cs) (by intro w hw; cases hw) (le_sumLen _)
  obtain ⟨p, hd, _, _, _, _, hfull⟩ := copy_spec none (writesAsReads cs) [] {}
  refine ⟨?_, heof⟩
  rw [hd, hfull heof, allData_writesAsReads]; rfl

end Tunnox.C02
