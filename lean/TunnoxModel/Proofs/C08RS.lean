import TunnoxModel.Proofs.C08
/-!
# C08 — the cloud runtime state (`client.Service`): invariant and the whole-history induction

`RSInv` (on top of `Inv`):
* `sound` — a visible runtime state of client `x` names a connection of `x` with its own node; unless the server
  ended a connection of `x` on its own since the last handshake (`loose`), that connection is an authenticated
  control connection its node's registry holds (so every closing path will run `DisconnectClientIfMatch` for it);
* `live`  — the connection of the latest completed handshake is such a registered connection, and while the
  reference deadline has not passed the state names it (with a deadline at least as late).
-/
namespace Tunnox.C08

structure RSInv (rsTtl : Nat) (S : SpecSt) (M : St) : Prop where
  sound : ∀ x v, FMap.lookup M.rstore x = some v → M.now ≤ v.2.2 →
      v.1 = v.2.1.node ∧ v.2.1.client = x ∧ 0 < x ∧
      (S.loose x = true ∨ (v.2.1 ∈ (M.nodes v.2.1.node).ctrl ∧ v.2.1 ∈ (M.nodes v.2.1.node).authed))
  live : ∀ x c u, LMap.lookup S.latestRS x = some (c, u) →
      c.client = x ∧ 0 < x ∧ c ∈ (M.nodes c.node).ctrl ∧ c ∈ (M.nodes c.node).authed ∧ u ≤ S.now + rsTtl ∧
      (S.now ≤ u → ∃ u', u ≤ u' ∧ FMap.lookup M.rstore x = some (c.node, c, u'))

theorem RSInv.init (rsTtl : Nat) : RSInv rsTtl SpecSt.init St.init :=
  ⟨fun x v h => by simp [St.init] at h, fun x c u h => by simp [SpecSt.init, LMap.lookup, LMap.empty] at h⟩

/-- `Inv` reads neither the runtime-state fields of the reference nor `rstore`. -/
theorem Inv.ofCore {S : SpecSt} {M : St} (h : Inv S M) (a : LMap) (b : Nat → Bool) (r : RStore) :
    Inv { S with latestRS := a, loose := b } { M with rstore := r } :=
  ⟨h.now_eq, h.nodeOk, h.conns_opened, h.store, h.live, h.down_eq⟩

theorem Inv.step {P : Params} (hv : P.v = repaired) (httl : 0 < P.ttl) {S : SpecSt} {M : St} (h : Inv S M) (e : Ev) :
    Inv (specStep P.ttl P.rsTtl S (stepOk M e) e) (step P M e) :=
  (h.stepCore hv httl e).ofCore _ _ _

/-! ## what the invariants say about the runtime-state observation -/

theorem rsOk_of_inv {rsTtl : Nat} {S : SpecSt} {M : St} (h : Inv S M) (hr : RSInv rsTtl S M) (x : Nat) :
    rsOk S x (rsGet M.now M.rstore x) = true := by
  unfold rsOk
  rw [Bool.and_eq_true]
  constructor
  · cases hl : LMap.lookup S.latestRS x with
    | none => rfl
    | some p =>
      obtain ⟨c, u⟩ := p
      simp only
      split
      · rename_i hu
        obtain ⟨_, _, _, _, _, hlive⟩ := hr.live x c u hl
        obtain ⟨u', hu', hlk⟩ := hlive hu
        have : M.now ≤ u' := by rw [← h.now_eq]; omega
        simp [rsGet, hlk, this]
      · rfl
  · unfold rsGet
    cases hl : FMap.lookup M.rstore x with
    | none => rfl
    | some v =>
      simp only
      by_cases hvis : M.now ≤ v.2.2
      · obtain ⟨h1, h2, _, h4⟩ := hr.sound x v hl hvis
        simp only [hvis, if_true, h2, h1, decide_true, Bool.true_and]
        rcases h4 with h4 | ⟨h4, _⟩
        · simp [h4]
        · have hc := (h.nodeOk _).ctrl_conns _ h4
          simp [h.conns_opened _ _ hc]
      · simp [hvis]

/-! ## registry membership across one event -/

/-- `d` is an authenticated control connection its node's registry holds. -/
def Reg (M : St) (d : Conn) : Prop := d ∈ (M.nodes d.node).ctrl ∧ d ∈ (M.nodes d.node).authed

/-- The events that can take `d` out of its node's registry. -/
def drops : Ev → Conn → Prop
  | .hs c _, d => d.client = c.client ∧ d.node = c.node ∧ d ≠ c
  | .close c _, d => d = c
  | .kick c, d => d.client = c.client ∧ d.node = c.node ∧ d ≠ c
  | .shutdown n, d => d.node = n
  | _, _ => False

theorem reg_upd_other {M : St} {d : Conn} {j : Nat} {n' : NodeSt} (hj : d.node ≠ j) (h : Reg M d)
    (M' : St) (hn : M'.nodes = upd M.nodes j n') : Reg M' d := by
  unfold Reg at *
  rw [hn, upd_other _ _ hj]; exact h

theorem reg_handshake {P : Params} {S : SpecSt} {M : St} (h : Inv S M) (c : Conn) (control ok : Bool) {d : Conn}
    (hd : Reg M d)
    (hnd : control = true → stepOk M (.hs c ok) = true → 0 < c.client → ¬ (d.client = c.client ∧ d.node = c.node ∧ d ≠ c)) :
    Reg (handleHandshake P M c control ok) d := by
  unfold handleHandshake
  by_cases hj : d.node = c.node
  · have hd' : d ∈ (M.nodes c.node).ctrl ∧ d ∈ (M.nodes c.node).authed := hj ▸ hd
    have keepCtrl : Reg { M with nodes := upd M.nodes c.node ((M.nodes c.node).addCtrl c) } d := by
      unfold Reg; simp only [hj, upd_same, NodeSt.addCtrl, mem_add]; exact ⟨Or.inr hd'.1, hd'.2⟩
    have keepAuth : Reg { M with nodes := upd M.nodes c.node ((M.nodes c.node).addAuth c) } d := by
      unfold Reg; simp only [hj, upd_same, NodeSt.addAuth, mem_add]; exact ⟨Or.inr hd'.1, Or.inr hd'.2⟩
    split
    · exact hd
    · split
      · exact keepCtrl
      · split
        · exact keepAuth
        · split
          · exact keepAuth
          · -- the registering branch: only the client's other connection on this node is removed
            rename_i hnf hok hdead hctl
            have hcontrol : control = true := by
              cases control with
              | true => rfl
              | false => simp at hctl
            have hx : 0 < c.client := by
              cases control with
              | true => simp at hctl; omega
              | false => simp at hctl
            have hokk : ok = true := by
              cases ok with
              | true => rfl
              | false => simp at hok
            have hfound : c ∈ (M.nodes c.node).ctrl ∨ c ∈ (M.nodes c.node).conns := by
              by_cases h1 : c ∈ (M.nodes c.node).ctrl
              · exact Or.inl h1
              · by_cases h2 : c ∈ (M.nodes c.node).conns
                · exact Or.inr h2
                · exact absurd ⟨h1, h2⟩ hnf
            have hso : stepOk M (.hs c ok) = true := by
              subst hokk
              simp only [stepOk, Bool.true_and, Bool.and_eq_true, Bool.or_eq_true, decide_eq_true_eq]
              refine ⟨hfound, ?_⟩
              simpa using hdead
            have hnd := hnd hcontrol hso hx
            unfold Reg
            simp only [hj, upd_same]
            have hne : FMap.lookup ((M.nodes c.node).addAuth c).byClient c.client ≠ some d ∨ d = c := by
              by_cases hdc : d = c
              · exact Or.inr hdc
              · left
                intro hl
                have : d.client = c.client := ((h.nodeOk c.node).byClient _ _ hl).2.2.1
                exact hnd ⟨this, hj, hdc⟩
            have h1 : d ∈ ((M.nodes c.node).addAuth c).ctrl := by simp only [NodeSt.addAuth, mem_add]; exact Or.inr hd'.1
            have h2 : d ∈ ((M.nodes c.node).addAuth c).authed := by simp only [NodeSt.addAuth, mem_add]; exact Or.inr hd'.2
            exact ⟨mem_ctrl_hsNode h1 hne, mem_authed_hsNode h2 hne⟩
  · split
    · exact hd
    · split
      · exact reg_upd_other hj hd _ rfl
      · split
        · exact reg_upd_other hj hd _ rfl
        · split
          · exact reg_upd_other hj hd _ rfl
          · exact reg_upd_other hj hd _ rfl

theorem reg_closeConnection {P : Params} {M : St} (c : Conn) {d : Conn} (hd : Reg M d) (hne : d ≠ c) :
    Reg (closeConnection P M c) d := by
  unfold closeConnection
  by_cases hj : d.node = c.node
  · unfold Reg
    simp only [hj, upd_same]
    have hd' : d ∈ (M.nodes c.node).ctrl ∧ d ∈ (M.nodes c.node).authed := hj ▸ hd
    rw [regRemove_dropConn_ctrl, regRemove_dropConn_authed]
    exact ⟨mem_ctrl_regRemove.mpr ⟨hd'.1, hne⟩, mem_authed_regRemove hd'.2 hne⟩
  · exact reg_upd_other hj hd _ rfl

theorem reg_stepCore {P : Params} {S : SpecSt} {M : St} (h : Inv S M) (e : Ev) {d : Conn}
    (hd : Reg M d) (hnd : ¬ drops e d) : Reg (stepCore P M e) d := by
  cases e with
  | «open» c =>
    show Reg (createConnection M c) d
    unfold createConnection
    split
    · exact hd
    · by_cases hj : d.node = c.node
      · unfold Reg; simp only [hj, upd_same, NodeSt.addConn]; exact hj ▸ hd
      · exact reg_upd_other hj hd _ rfl
  | hs c ok => exact reg_handshake h c true ok hd (fun _ _ _ => hnd)
  | hsTunnel c ok => exact reg_handshake h c false ok hd (fun e => by cases e)
  | hb c =>
    show Reg (handleHeartbeat P M c) d
    unfold handleHeartbeat
    split <;> exact hd
  | close c k =>
    have hne : d ≠ c := hnd
    cases k with
    | direct => exact reg_closeConnection c hd hne
    | eof => exact reg_closeConnection c hd hne
    | disconnect =>
      show Reg (handleDisconnect P M c) d
      unfold handleDisconnect
      split
      · exact reg_closeConnection c hd hne
      · exact hd
    | sweep =>
      show Reg (sweepStale P M c) d
      by_cases hc : c ∈ (M.nodes c.node).ctrl
      · rw [sweepStale_eq P M c hc]; exact reg_closeConnection c hd hne
      · simp only [sweepStale, hc, if_false]; exact hd
  | kick c =>
    show Reg (kickOld M c) d
    unfold kickOld
    cases hb : FMap.lookup (M.nodes c.node).byClient c.client with
    | none => exact hd
    | some o =>
      simp only
      split
      · by_cases hj : d.node = c.node
        · unfold Reg
          simp only [hj, upd_same]
          have hd' : d ∈ (M.nodes c.node).ctrl ∧ d ∈ (M.nodes c.node).authed := hj ▸ hd
          have hdo : d ≠ o := by
            intro e; subst e
            have hcl : d.client = c.client := ((h.nodeOk c.node).byClient _ _ hb).2.2.1
            rename_i hoc
            exact hnd ⟨hcl, hj, hoc⟩
          exact ⟨mem_ctrl_regRemove.mpr ⟨hd'.1, hdo⟩, mem_authed_regRemove hd'.2 hdo⟩
        · exact reg_upd_other hj hd _ rfl
      · exact hd
  | shutdown n =>
    have hj : d.node ≠ n := hnd
    show Reg (shutdownNode M n) d
    unfold shutdownNode
    split
    · exact hd
    · exact reg_upd_other hj hd _ rfl
  | lookBegin j x => exact hd
  | lookEnd j x => exact hd
  | reqBegin k j x => exact hd
  | reqEnd k j x => exact hd
  | tick dt => exact hd

theorem stepOk_hs {M : St} {c : Conn} {ok : Bool} (h : stepOk M (.hs c ok) = true) :
    ok = true ∧ (c ∈ (M.nodes c.node).ctrl ∨ c ∈ (M.nodes c.node).conns) ∧ c ∉ (M.nodes c.node).dead := by
  simp only [stepOk, Bool.and_eq_true, Bool.or_eq_true, decide_eq_true_eq] at h
  exact ⟨h.1.1, h.1.2, h.2⟩

/-- A completed control handshake of a known client leaves the connection registered and authenticated. -/
theorem reg_handshake_self {P : Params} {M : St} {c : Conn} (hso : stepOk M (.hs c true) = true)
    (hx : 0 < c.client) : Reg (handleHandshake P M c true true) c := by
  obtain ⟨_, hfound, hdead⟩ := stepOk_hs hso
  unfold handleHandshake
  have hnf : ¬ (c ∉ (M.nodes c.node).ctrl ∧ c ∉ (M.nodes c.node).conns) := by
    rintro ⟨h1, h2⟩; rcases hfound with hf | hf
    · exact h1 hf
    · exact h2 hf
  have hx0 : ¬ c.client = 0 := by omega
  simp only [hnf, if_false, Bool.not_true, Bool.false_eq_true, hdead, decide_false, hx0, Bool.or_self]
  unfold Reg
  simp only [upd_same]
  have h1 : c ∈ ((M.nodes c.node).addAuth c).ctrl := by simp [NodeSt.addAuth, mem_add]
  have h2 : c ∈ ((M.nodes c.node).addAuth c).authed := by simp [NodeSt.addAuth, mem_add]
  exact ⟨mem_ctrl_hsNode h1 (Or.inr rfl), mem_authed_hsNode h2 (Or.inr rfl)⟩

theorem now_stepCore_le (P : Params) (M : St) (e : Ev) : M.now ≤ (stepCore P M e).now := by
  cases e with
  | «open» c => show M.now ≤ (createConnection M c).now; unfold createConnection; split <;> exact Nat.le_refl _
  | hs c ok =>
    show M.now ≤ (handleHandshake P M c true ok).now
    unfold handleHandshake; split; · exact Nat.le_refl _
    split; · exact Nat.le_refl _
    split; · exact Nat.le_refl _
    split <;> exact Nat.le_refl _
  | hsTunnel c ok =>
    show M.now ≤ (handleHandshake P M c false ok).now
    unfold handleHandshake; split; · exact Nat.le_refl _
    split; · exact Nat.le_refl _
    split; · exact Nat.le_refl _
    split <;> exact Nat.le_refl _
  | hb c => show M.now ≤ (handleHeartbeat P M c).now; unfold handleHeartbeat; split <;> exact Nat.le_refl _
  | close c k =>
    cases k with
    | direct => exact Nat.le_refl _
    | eof => exact Nat.le_refl _
    | disconnect => show M.now ≤ (handleDisconnect P M c).now; unfold handleDisconnect; split <;> exact Nat.le_refl _
    | sweep => show M.now ≤ (sweepStale P M c).now; unfold sweepStale; split <;> exact Nat.le_refl _
  | kick c =>
    show M.now ≤ (kickOld M c).now; unfold kickOld
    split
    · split <;> exact Nat.le_refl _
    · exact Nat.le_refl _
  | shutdown n => show M.now ≤ (shutdownNode M n).now; unfold shutdownNode; split <;> exact Nat.le_refl _
  | lookBegin j x => exact Nat.le_refl _
  | lookEnd j x => exact Nat.le_refl _
  | reqBegin k j x => exact Nat.le_refl _
  | reqEnd k j x => exact Nat.le_refl _
  | tick dt => exact Nat.le_add_right _ _

/-- Only a tick moves the clock. -/
theorem now_stepCore_eq (P : Params) (M : St) (e : Ev) (he : ∀ dt, e ≠ .tick dt) : (stepCore P M e).now = M.now := by
  cases e with
  | «open» c => show (createConnection M c).now = _; unfold createConnection; split <;> rfl
  | hs c ok =>
    show (handleHandshake P M c true ok).now = _
    unfold handleHandshake; split; · rfl
    split; · rfl
    split; · rfl
    split <;> rfl
  | hsTunnel c ok =>
    show (handleHandshake P M c false ok).now = _
    unfold handleHandshake; split; · rfl
    split; · rfl
    split; · rfl
    split <;> rfl
  | hb c => show (handleHeartbeat P M c).now = _; unfold handleHeartbeat; split <;> rfl
  | close c k =>
    cases k with
    | direct => rfl
    | eof => rfl
    | disconnect => show (handleDisconnect P M c).now = _; unfold handleDisconnect; split <;> rfl
    | sweep => show (sweepStale P M c).now = _; unfold sweepStale; split <;> rfl
  | kick c =>
    show (kickOld M c).now = _; unfold kickOld
    split
    · split <;> rfl
    · rfl
  | shutdown n => show (shutdownNode M n).now = _; unfold shutdownNode; split <;> rfl
  | lookBegin j x => rfl
  | lookEnd j x => rfl
  | reqBegin k j x => rfl
  | reqEnd k j x => rfl
  | tick dt => exact absurd rfl (he dt)

/-! ## `RSInv.sound` across one event -/

theorem rsGet_some {now : Nat} {rs : RStore} {x : Nat} {w : Nat × Conn} (h : rsGet now rs x = some w) :
    ∃ v, FMap.lookup rs x = some v ∧ now ≤ v.2.2 ∧ w = (v.1, v.2.1) := by
  unfold rsGet at h
  cases hl : FMap.lookup rs x with
  | none => simp [hl] at h
  | some v =>
    simp only [hl] at h
    split at h
    · rename_i hv; injection h with h; exact ⟨v, rfl, hv, h.symm⟩
    · cases h

theorem rsGet_of_lookup {now : Nat} {rs : RStore} {x : Nat} {v : Nat × Conn × Nat}
    (h : FMap.lookup rs x = some v) (hv : now ≤ v.2.2) : rsGet now rs x = some (v.1, v.2.1) := by
  unfold rsGet; simp [h, hv]

/-- Frame rule: the runtime state is untouched, nothing is un-loosened, registered connections stay registered or
their client becomes loose. -/
theorem sound_frame {S S' : SpecSt} {M M' : St} (hr : ∀ x v, FMap.lookup M.rstore x = some v → M.now ≤ v.2.2 →
      v.1 = v.2.1.node ∧ v.2.1.client = x ∧ 0 < x ∧ (S.loose x = true ∨ Reg M v.2.1))
    (hrs : M'.rstore = M.rstore) (hnow : M.now ≤ M'.now) (hl : ∀ x, S.loose x = true → S'.loose x = true)
    (hreg : ∀ d, Reg M d → S'.loose d.client = true ∨ Reg M' d) :
    ∀ x v, FMap.lookup M'.rstore x = some v → M'.now ≤ v.2.2 →
      v.1 = v.2.1.node ∧ v.2.1.client = x ∧ 0 < x ∧ (S'.loose x = true ∨ Reg M' v.2.1) := by
  intro x v hlk hvis
  rw [hrs] at hlk
  obtain ⟨h1, h2, h3, h4⟩ := hr x v hlk (Nat.le_trans hnow hvis)
  refine ⟨h1, h2, h3, ?_⟩
  rcases h4 with h4 | h4
  · exact Or.inl (hl x h4)
  · rcases hreg _ h4 with h5 | h5
    · left; rw [← h2]; exact h5
    · exact Or.inr h5

theorem RSInv.sound_step {P : Params} {S : SpecSt} {M : St} (h : Inv S M) (hr : RSInv P.rsTtl S M) (e : Ev) :
    ∀ x v, FMap.lookup (step P M e).rstore x = some v → (step P M e).now ≤ v.2.2 →
      v.1 = v.2.1.node ∧ v.2.1.client = x ∧ 0 < x ∧
      ((specStep P.ttl P.rsTtl S (stepOk M e) e).loose x = true ∨ Reg (step P M e) v.2.1) := by
  have hold := hr.sound
  have hnow : M.now ≤ (step P M e).now := now_stepCore_le P M e
  -- the generic frame for events that do not write the runtime state
  have frame : (step P M e).rstore = M.rstore →
      (∀ x, S.loose x = true → (specStep P.ttl P.rsTtl S (stepOk M e) e).loose x = true) →
      (∀ d, Reg M d → drops e d → (specStep P.ttl P.rsTtl S (stepOk M e) e).loose d.client = true) →
      ∀ x v, FMap.lookup (step P M e).rstore x = some v → (step P M e).now ≤ v.2.2 →
        v.1 = v.2.1.node ∧ v.2.1.client = x ∧ 0 < x ∧
        ((specStep P.ttl P.rsTtl S (stepOk M e) e).loose x = true ∨ Reg (step P M e) v.2.1) := by
    intro hrs hl hdrop
    refine sound_frame (M' := step P M e) hold hrs hnow hl ?_
    intro d hd
    by_cases hdr : drops e d
    · exact Or.inl (hdrop d hd hdr)
    · exact Or.inr (reg_stepCore (P := P) h e hd hdr)
  cases e with
  | «open» c => exact frame rfl (fun x hx => hx) (fun d _ hdr => absurd hdr (by simp [drops]))
  | hsTunnel c ok => exact frame rfl (fun x hx => hx) (fun d _ hdr => absurd hdr (by simp [drops]))
  | lookBegin j x => exact frame rfl (fun x hx => hx) (fun d _ hdr => absurd hdr (by simp [drops]))
  | lookEnd j x => exact frame rfl (fun x hx => hx) (fun d _ hdr => absurd hdr (by simp [drops]))
  | reqBegin k j x => exact frame rfl (fun x hx => hx) (fun d _ hdr => absurd hdr (by simp [drops]))
  | reqEnd k j x => exact frame rfl (fun x hx => hx) (fun d _ hdr => absurd hdr (by simp [drops]))
  | tick dt => exact frame rfl (fun x hx => hx) (fun d _ hdr => absurd hdr (by simp [drops]))
  | shutdown n =>
    by_cases hdn : n ∈ M.down
    · -- already down: nothing happens
      have hdn' : n ∈ S.down := h.down_eq ▸ hdn
      refine sound_frame (M' := step P M (.shutdown n)) hold rfl hnow ?_ ?_
      · intro x hx
        show specLoose S (stepOk M (.shutdown n)) (.shutdown n) x = true
        simp only [specLoose, hdn', if_true]; exact hx
      · intro d hd
        right
        show Reg (shutdownNode M n) d
        simp only [shutdownNode, hdn, if_true]; exact hd
    · have hdn' : n ∉ S.down := h.down_eq ▸ hdn
      have hl : ∀ x, (specStep P.ttl P.rsTtl S (stepOk M (.shutdown n)) (.shutdown n)).loose x = true := by
        intro x
        show specLoose S (stepOk M (.shutdown n)) (.shutdown n) x = true
        simp only [specLoose, hdn', if_false]
      exact frame rfl (fun x _ => hl x) (fun d _ _ => hl _)
  | kick c =>
    refine frame rfl ?_ ?_
    · intro x hx
      show setLoose S.loose c.client true x = true
      unfold setLoose; split <;> simp [hx]
    · intro d _ hdr
      show setLoose S.loose c.client true d.client = true
      have : d.client = c.client := hdr.1
      simp [setLoose, this]
  | hb c =>
    intro x v hlk hvis
    have hnodes : Reg (step P M (.hb c)) v.2.1 ↔ Reg M v.2.1 := by
      show Reg (handleHeartbeat P M c) v.2.1 ↔ _
      unfold handleHeartbeat; split <;> exact Iff.rfl
    have hnow' : (step P M (.hb c)).now = M.now := now_stepCore_eq P M _ (fun dt => by simp)
    rw [hnow'] at hvis
    show _ ∧ _ ∧ _ ∧ (S.loose x = true ∨ _)
    rw [hnodes]
    have hrs : (step P M (.hb c)).rstore = rsStep P M (.hb c) := rfl
    rw [hrs] at hlk
    simp only [rsStep] at hlk
    split at hlk
    · rename_i hg
      simp only [Bool.and_eq_true, decide_eq_true_eq] at hg
      unfold ensureClientOnline at hlk
      cases hget : rsGet M.now M.rstore c.client with
      | some w =>
        simp only [hget] at hlk
        obtain ⟨vo, hlo, hviso, hw⟩ := rsGet_some hget
        by_cases hx : c.client = x
        · subst hx
          rw [FMap.lookup_insert_eq] at hlk
          injection hlk with hlk; subst hlk
          have := hold _ vo hlo hviso
          simp only [hw]
          exact this
        · rw [FMap.lookup_insert_ne _ _ hx] at hlk
          exact hold x v hlk hvis
      | none =>
        simp only [hget] at hlk
        by_cases hx : c.client = x
        · subst hx
          rw [FMap.lookup_insert_eq] at hlk
          injection hlk with hlk; subst hlk
          exact ⟨rfl, rfl, hg.2, Or.inr ⟨hg.1.1, hg.1.2⟩⟩
        · rw [FMap.lookup_insert_ne _ _ hx] at hlk
          exact hold x v hlk hvis
    · exact hold x v hlk hvis
  | close c k =>
    intro x v hlk hvis
    have hnow' : (step P M (.close c k)).now = M.now := now_stepCore_eq P M _ (fun dt => by simp)
    rw [hnow'] at hvis
    show _ ∧ _ ∧ _ ∧ (S.loose x = true ∨ _)
    have hrs : (step P M (.close c k)).rstore = rsStep P M (.close c k) := rfl
    rw [hrs] at hlk
    -- the entry was there before, and if it named `c` it would have been deleted
    have hlo : FMap.lookup M.rstore x = some v ∧ (v.2.1 = c → False ∨ S.loose x = true ∨ ¬ Reg M c) := by
      simp only [rsStep] at hlk
      split at hlk
      · rename_i hg
        simp only [Bool.and_eq_true, decide_eq_true_eq] at hg
        unfold disconnectIfMatch at hlk
        split at hlk
        · rename_i hm
          by_cases hx : c.client = x
          · subst hx; rw [FMap.lookup_erase_eq] at hlk; cases hlk
          · rw [FMap.lookup_erase_ne _ hx] at hlk
            refine ⟨hlk, fun hvc => ?_⟩
            have := (hold x v hlk hvis).2.1
            rw [hvc] at this; exact Or.inl (hx this)
        · rename_i hm
          refine ⟨hlk, fun hvc => ?_⟩
          left
          obtain ⟨h1, h2, _, _⟩ := hold x v hlk hvis
          apply hm
          have hx : x = c.client := by rw [← h2, hvc]
          subst hx
          rw [rsGet_of_lookup hlk hvis, h1, hvc]
      · rename_i hg
        refine ⟨hlk, fun hvc => ?_⟩
        right
        by_cases hlx : S.loose x = true
        · exact Or.inl hlx
        · right
          intro hreg
          obtain ⟨_, h2, h3, _⟩ := hold x v hlk hvis
          apply hg
          simp only [Bool.and_eq_true, decide_eq_true_eq]
          have hx : x = c.client := by rw [← h2, hvc]
          exact ⟨⟨hreg.1, hreg.2⟩, hx ▸ h3⟩
    obtain ⟨hlk0, hc⟩ := hlo
    obtain ⟨h1, h2, h3, h4⟩ := hold x v hlk0 hvis
    refine ⟨h1, h2, h3, ?_⟩
    rcases h4 with h4 | h4
    · exact Or.inl h4
    · by_cases hvc : v.2.1 = c
      · rcases hc hvc with hf | hl | hn
        · exact absurd hf (by simp)
        · exact Or.inl hl
        · exact absurd (hvc ▸ h4) hn
      · exact Or.inr (reg_stepCore (P := P) h _ h4 (by simpa [drops] using hvc))
  | hs c ok =>
    intro x v hlk hvis
    have hnow' : (step P M (.hs c ok)).now = M.now := now_stepCore_eq P M _ (fun dt => by simp)
    rw [hnow'] at hvis
    have hrs : (step P M (.hs c ok)).rstore = rsStep P M (.hs c ok) := rfl
    rw [hrs] at hlk
    have hloose : (specStep P.ttl P.rsTtl S (stepOk M (.hs c ok)) (.hs c ok)).loose =
        (if ok && decide (c.client > 0) then setLoose S.loose c.client (!stepOk M (.hs c ok)) else S.loose) := rfl
    rw [hloose]
    -- registered connections of OTHER clients stay registered
    have hother : ∀ d, Reg M d → d.client ≠ c.client → Reg (step P M (.hs c ok)) d := by
      intro d hd hne
      exact reg_handshake h c true ok hd (fun _ _ _ hdr => hne hdr.1)
    simp only [rsStep] at hlk
    split at hlk
    · rename_i hg
      simp only [Bool.and_eq_true, Bool.or_eq_true, decide_eq_true_eq] at hg
      obtain ⟨⟨hok, hfound⟩, hx0⟩ := hg
      subst hok
      simp only [Bool.true_and, hx0, decide_true, if_true]
      unfold connectClient at hlk
      by_cases hx : c.client = x
      · subst hx
        rw [FMap.lookup_insert_eq] at hlk
        injection hlk with hlk; subst hlk
        refine ⟨rfl, rfl, hx0, ?_⟩
        cases hso : stepOk M (.hs c true) with
        | false => left; simp [setLoose]
        | true => right; exact reg_handshake_self hso hx0
      · rw [FMap.lookup_insert_ne _ _ hx] at hlk
        obtain ⟨h1, h2, h3, h4⟩ := hold x v hlk hvis
        refine ⟨h1, h2, h3, ?_⟩
        have hxx : ¬ x = c.client := fun e => hx e.symm
        simp only [setLoose, hxx, if_false]
        rcases h4 with h4 | h4
        · exact Or.inl h4
        · exact Or.inr (hother _ h4 (by rw [h2]; exact hxx))
    · rename_i hg
      obtain ⟨h1, h2, h3, h4⟩ := hold x v hlk hvis
      refine ⟨h1, h2, h3, ?_⟩
      -- no `ConnectClient`: the handshake did not complete either, nothing is removed from the registry
      have hnso : ok = true → 0 < c.client → stepOk M (.hs c ok) = false := by
        intro hok hx0
        cases hso : stepOk M (.hs c ok) with
        | false => rfl
        | true =>
          exfalso; apply hg
          obtain ⟨_, hfound, _⟩ := stepOk_hs hso
          simp only [Bool.and_eq_true, Bool.or_eq_true, decide_eq_true_eq]
          exact ⟨⟨hok, hfound⟩, hx0⟩
      rcases h4 with h4 | h4
      · left
        split
        · simp only [setLoose]; split
          · rename_i hcond _
            simp only [Bool.and_eq_true, decide_eq_true_eq] at hcond
            simp [hnso hcond.1 hcond.2]
          · exact h4
        · exact h4
      · right
        refine reg_handshake h c true ok h4 (fun _ hso hx0 _ => ?_)
        have hok := (stepOk_hs hso).1
        rw [hnso hok hx0] at hso; cases hso

/-! ## `RSInv.live` across one event -/

theorem RSInv.live_step {P : Params} {S : SpecSt} {M : St} (h : Inv S M) (hr : RSInv P.rsTtl S M) (e : Ev) :
    ∀ x c u, LMap.lookup (specStep P.ttl P.rsTtl S (stepOk M e) e).latestRS x = some (c, u) →
      c.client = x ∧ 0 < x ∧ Reg (step P M e) c ∧ u ≤ (specStep P.ttl P.rsTtl S (stepOk M e) e).now + P.rsTtl ∧
      ((specStep P.ttl P.rsTtl S (stepOk M e) e).now ≤ u →
        ∃ u', u ≤ u' ∧ FMap.lookup (step P M e).rstore x = some (c.node, c, u')) := by
  have hold := hr.live
  have hL : (specStep P.ttl P.rsTtl S (stepOk M e) e).latestRS = specLatestRS P.rsTtl S (stepOk M e) e := rfl
  have hR : (step P M e).rstore = rsStep P M e := rfl
  have hSnow : (specStep P.ttl P.rsTtl S (stepOk M e) e).now = (specStepCore P.ttl S (stepOk M e) e).now := rfl
  -- events that touch neither the reference obligations nor the runtime state nor the clock
  have frame : specLatestRS P.rsTtl S (stepOk M e) e = S.latestRS → rsStep P M e = M.rstore →
      (specStepCore P.ttl S (stepOk M e) e).now = S.now → (∀ d, ¬ drops e d) →
      ∀ x c u, LMap.lookup (specStep P.ttl P.rsTtl S (stepOk M e) e).latestRS x = some (c, u) →
        c.client = x ∧ 0 < x ∧ Reg (step P M e) c ∧ u ≤ (specStep P.ttl P.rsTtl S (stepOk M e) e).now + P.rsTtl ∧
        ((specStep P.ttl P.rsTtl S (stepOk M e) e).now ≤ u →
          ∃ u', u ≤ u' ∧ FMap.lookup (step P M e).rstore x = some (c.node, c, u')) := by
    intro h1 h2 h3 h4 x c u hl
    rw [hL, h1] at hl
    obtain ⟨g1, g2, g3, g4, g5, g6⟩ := hold x c u hl
    rw [hSnow, h3, hR, h2]
    exact ⟨g1, g2, reg_stepCore (P := P) h e ⟨g3, g4⟩ (h4 c), g5, g6⟩
  cases e with
  | «open» c =>
    refine frame rfl rfl ?_ (fun d => by simp [drops])
    simp only [specStepCore]; split <;> rfl
  | hsTunnel c ok => exact frame rfl rfl rfl (fun d => by simp [drops])
  | lookBegin j x => exact frame rfl rfl rfl (fun d => by simp [drops])
  | lookEnd j x => exact frame rfl rfl rfl (fun d => by simp [drops])
  | reqBegin k j x => exact frame rfl rfl rfl (fun d => by simp [drops])
  | reqEnd k j x => exact frame rfl rfl rfl (fun d => by simp [drops])
  | tick dt =>
    intro x c u hl
    rw [hL] at hl
    obtain ⟨g1, g2, g3, g4, g5, g6⟩ := hold x c u hl
    refine ⟨g1, g2, ⟨g3, g4⟩, ?_, ?_⟩
    · show u ≤ S.now + dt + P.rsTtl; omega
    · intro hu
      have : S.now ≤ u := by
        have : S.now + dt ≤ u := hu
        omega
      exact g6 this
  | shutdown n =>
    by_cases hdn : n ∈ M.down
    · have hdn' : n ∈ S.down := h.down_eq ▸ hdn
      intro x c u hl
      rw [hL] at hl
      simp only [specLatestRS, hdn', if_true] at hl
      obtain ⟨g1, g2, g3, g4, g5, g6⟩ := hold x c u hl
      have hnowS : (specStep P.ttl P.rsTtl S (stepOk M (.shutdown n)) (.shutdown n)).now = S.now := by
        show (specStepCore P.ttl S _ _).now = _
        simp only [specStepCore, hdn', if_true]
      rw [hnowS]
      have hreg : Reg (stepCore P M (.shutdown n)) c := by
        show Reg (shutdownNode M n) c
        simp only [shutdownNode, hdn, if_true]; exact ⟨g3, g4⟩
      exact ⟨g1, g2, hreg, g5, g6⟩
    have hdn' : n ∉ S.down := h.down_eq ▸ hdn
    intro x c u hl
    rw [hL] at hl
    simp only [specLatestRS, hdn', if_false] at hl
    have hnowS : (specStep P.ttl P.rsTtl S (stepOk M (.shutdown n)) (.shutdown n)).now = S.now := by
      show (specStepCore P.ttl S _ _).now = _
      simp only [specStepCore, hdn', if_false]
    rw [hnowS]
    obtain ⟨hl', hne⟩ := LMap.lookup_dropNode hl
    obtain ⟨g1, g2, g3, g4, g5, g6⟩ := hold x c u hl'
    have hreg : Reg (stepCore P M (.shutdown n)) c :=
      reg_stepCore (P := P) h (.shutdown n) ⟨g3, g4⟩ (show ¬ drops (.shutdown n) c from hne)
    exact ⟨g1, g2, hreg, g5, g6⟩
  | kick c0 =>
    intro x c u hl
    rw [hL] at hl
    simp only [specLatestRS] at hl
    have hsub : LMap.lookup S.latestRS x = some (c, u) ∧ ¬ (x = c0.client ∧ c.node = c0.node ∧ c ≠ c0) := by
      cases hl0 : LMap.lookup S.latestRS c0.client with
      | none =>
        simp only [hl0] at hl
        refine ⟨hl, ?_⟩
        rintro ⟨e, _, _⟩; subst e; rw [hl0] at hl; cases hl
      | some p =>
        simp only [hl0] at hl
        by_cases hp : p.1.node = c0.node ∧ p.1 ≠ c0
        · rw [if_pos hp] at hl
          by_cases hy : c0.client = x
          · subst hy; rw [LMap.lookup_erase_eq] at hl; cases hl
          · rw [LMap.lookup_erase_ne _ hy] at hl
            exact ⟨hl, fun e => hy e.1.symm⟩
        · rw [if_neg hp] at hl
          refine ⟨hl, ?_⟩
          rintro ⟨e, h2, h3⟩; subst e
          rw [hl0] at hl; injection hl with hl; subst hl
          exact hp ⟨h2, h3⟩
    obtain ⟨g1, g2, g3, g4, g5, g6⟩ := hold x c u hsub.1
    have hnowS : (specStep P.ttl P.rsTtl S (stepOk M (.kick c0)) (.kick c0)).now = S.now := by
      show (specStepCore P.ttl S _ _).now = _
      simp only [specStepCore]
      split
      · split <;> rfl
      · rfl
    rw [hnowS]
    have hreg : Reg (stepCore P M (.kick c0)) c := by
      refine reg_stepCore (P := P) h (.kick c0) ⟨g3, g4⟩ ?_
      show ¬ (c.client = c0.client ∧ c.node = c0.node ∧ c ≠ c0)
      rintro ⟨d1, d2, d3⟩
      exact hsub.2 ⟨g1 ▸ d1, d2, d3⟩
    exact ⟨g1, g2, hreg, g5, g6⟩
  | close c0 k =>
    intro x c u hl
    rw [hL] at hl
    simp only [specLatestRS] at hl
    have hsub : LMap.lookup S.latestRS x = some (c, u) ∧ c ≠ c0 := by
      have hreg_ne : LMap.lookup S.latestRS x = some (c, u) → stepOk M (.close c0 k) = false → c ≠ c0 := by
        intro hl' hso e; subst e
        have hc := (hold x c u hl').2.2.1
        cases k <;> simp [stepOk] at hso
        · exact hso hc
        · exact hso hc
      cases hso : stepOk M (.close c0 k) with
      | false =>
        simp only [hso, Bool.false_eq_true, if_false] at hl
        exact ⟨hl, hreg_ne hl hso⟩
      | true =>
        simp only [hso, if_true] at hl
        cases hl0 : LMap.lookup S.latestRS c0.client with
        | none =>
          simp only [hl0] at hl
          refine ⟨hl, ?_⟩
          intro e; subst e
          rw [(hold x c u hl).1] at hl0; rw [hl0] at hl; cases hl
        | some p =>
          obtain ⟨cp, up⟩ := p
          simp only [hl0] at hl
          by_cases hcp : cp = c0
          · subst hcp
            simp only [if_true] at hl
            by_cases hy : cp.client = x
            · subst hy; rw [LMap.lookup_erase_eq] at hl; cases hl
            · rw [LMap.lookup_erase_ne _ hy] at hl
              refine ⟨hl, ?_⟩
              intro e; subst e
              exact hy (hold x c u hl).1
          · simp only [hcp, if_false] at hl
            refine ⟨hl, ?_⟩
            intro e; subst e
            rw [(hold x c u hl).1] at hl0; rw [hl0] at hl
            injection hl with hl; injection hl with e1 _; exact hcp e1
    obtain ⟨g1, g2, g3, g4, g5, g6⟩ := hold x c u hsub.1
    have hnowS : (specStep P.ttl P.rsTtl S (stepOk M (.close c0 k)) (.close c0 k)).now = S.now := by
      show (specStepCore P.ttl S _ _).now = _
      simp only [specStepCore]; split <;> rfl
    rw [hnowS]
    have hreg : Reg (stepCore P M (.close c0 k)) c :=
      reg_stepCore (P := P) h (.close c0 k) ⟨g3, g4⟩ (show ¬ (c = c0) from hsub.2)
    refine ⟨g1, g2, hreg, g5, ?_⟩
    intro hu
    obtain ⟨u', hu', hlk⟩ := g6 hu
    refine ⟨u', hu', ?_⟩
    rw [hR]
    simp only [rsStep]
    split
    · unfold disconnectIfMatch
      split
      · rename_i hm
        have hvis : M.now ≤ u' := by rw [← h.now_eq]; omega
        by_cases hy : c0.client = x
        · exfalso
          subst hy
          rw [rsGet_of_lookup hlk hvis] at hm
          injection hm with hm; injection hm with _ hm2
          exact hsub.2 hm2
        · rw [FMap.lookup_erase_ne _ hy]; exact hlk
      · exact hlk
    · exact hlk
  | hb c0 =>
    intro x c u hl
    rw [hL] at hl
    have hnodes : ∀ d, Reg (step P M (.hb c0)) d ↔ Reg M d := by
      intro d
      show Reg (handleHeartbeat P M c0) d ↔ _
      unfold handleHeartbeat; split <;> exact Iff.rfl
    have hnowS : (specStep P.ttl P.rsTtl S (stepOk M (.hb c0)) (.hb c0)).now = S.now := by
      show (specStepCore P.ttl S _ _).now = _
      simp only [specStepCore]
      split
      · split
        · split <;> rfl
        · rfl
      · rfl
    rw [hnowS, hnodes, hR]
    simp only [specLatestRS] at hl
    cases hl0 : LMap.lookup S.latestRS c0.client with
    | none =>
      simp only [hl0] at hl
      obtain ⟨g1, g2, g3, g4, g5, g6⟩ := hold x c u hl
      have hxne : x ≠ c0.client := by intro e; subst e; rw [hl0] at hl; cases hl
      refine ⟨g1, g2, ⟨g3, g4⟩, g5, ?_⟩
      intro hu
      obtain ⟨u', hu', hlk⟩ := g6 hu
      refine ⟨u', hu', ?_⟩
      simp only [rsStep]
      split
      · unfold ensureClientOnline
        split <;> (rw [FMap.lookup_insert_ne _ _ (fun e => hxne e.symm)]; exact hlk)
      · exact hlk
    | some p =>
      obtain ⟨cp, up⟩ := p
      simp only [hl0] at hl
      obtain ⟨p1, p2, p3, p4, p5, p6⟩ := hold c0.client cp up hl0
      by_cases hcp : cp = c0
      · subst hcp
        simp only [if_true] at hl
        by_cases hup : S.now ≤ up
        · simp only [hup, if_true] at hl
          by_cases hy : cp.client = x
          · subst hy
            rw [LMap.lookup_insert_eq] at hl
            injection hl with hl; injection hl with e1 e2; subst e1; subst e2
            refine ⟨rfl, p2, ⟨p3, p4⟩, Nat.le_refl _, ?_⟩
            intro _
            obtain ⟨u', hu', hlk⟩ := p6 hup
            have hvis : M.now ≤ u' := by rw [← h.now_eq]; omega
            refine ⟨S.now + P.rsTtl, Nat.le_refl _, ?_⟩
            simp only [rsStep, p3, p4, p2, decide_true, Bool.and_self, if_true, gt_iff_lt]
            unfold ensureClientOnline
            rw [rsGet_of_lookup hlk hvis]
            simp only [FMap.lookup_insert_eq, h.now_eq]
          · rw [LMap.lookup_insert_ne _ _ hy] at hl
            obtain ⟨g1, g2, g3, g4, g5, g6⟩ := hold x c u hl
            refine ⟨g1, g2, ⟨g3, g4⟩, g5, ?_⟩
            intro hu
            obtain ⟨u', hu', hlk⟩ := g6 hu
            refine ⟨u', hu', ?_⟩
            simp only [rsStep]
            split
            · unfold ensureClientOnline
              split <;> (rw [FMap.lookup_insert_ne _ _ hy]; exact hlk)
            · exact hlk
        · simp only [hup, if_false] at hl
          by_cases hy : cp.client = x
          · subst hy; rw [LMap.lookup_erase_eq] at hl; cases hl
          · rw [LMap.lookup_erase_ne _ hy] at hl
            obtain ⟨g1, g2, g3, g4, g5, g6⟩ := hold x c u hl
            refine ⟨g1, g2, ⟨g3, g4⟩, g5, ?_⟩
            intro hu
            obtain ⟨u', hu', hlk⟩ := g6 hu
            refine ⟨u', hu', ?_⟩
            simp only [rsStep]
            split
            · unfold ensureClientOnline
              split <;> (rw [FMap.lookup_insert_ne _ _ hy]; exact hlk)
            · exact hlk
      · simp only [hcp, if_false] at hl
        obtain ⟨g1, g2, g3, g4, g5, g6⟩ := hold x c u hl
        refine ⟨g1, g2, ⟨g3, g4⟩, g5, ?_⟩
        intro hu
        obtain ⟨u', hu', hlk⟩ := g6 hu
        simp only [rsStep]
        split
        · unfold ensureClientOnline
          by_cases hy : c0.client = x
          · -- another connection of the same client heartbeats: the state keeps naming `c`, its deadline moves on
            subst hy
            have hvis : M.now ≤ u' := by rw [← h.now_eq]; omega
            rw [rsGet_of_lookup hlk hvis]
            refine ⟨M.now + P.rsTtl, ?_, ?_⟩
            · rw [← h.now_eq]; exact g5
            · simp only [FMap.lookup_insert_eq]
          · refine ⟨u', hu', ?_⟩
            split <;> (rw [FMap.lookup_insert_ne _ _ hy]; exact hlk)
        · exact ⟨u', hu', hlk⟩
  | hs c0 ok =>
    intro x c u hl
    rw [hL] at hl
    have hnowS : (specStep P.ttl P.rsTtl S (stepOk M (.hs c0 ok)) (.hs c0 ok)).now = S.now := by
      show (specStepCore P.ttl S _ _).now = _
      simp only [specStepCore]; split <;> rfl
    rw [hnowS, hR]
    have hother : ∀ d, Reg M d → d.client ≠ c0.client → Reg (step P M (.hs c0 ok)) d := by
      intro d hd hne
      exact reg_handshake h c0 true ok hd (fun _ _ _ hdr => hne hdr.1)
    -- the runtime state of another client is not written
    have hrs_other : ∀ y, y ≠ c0.client → FMap.lookup (rsStep P M (.hs c0 ok)) y = FMap.lookup M.rstore y := by
      intro y hy
      simp only [rsStep]
      split
      · unfold connectClient; rw [FMap.lookup_insert_ne _ _ (fun e => hy e.symm)]
      · rfl
    simp only [specLatestRS] at hl
    by_cases hcond : (ok && decide (c0.client > 0)) = true
    · simp only [hcond, if_true] at hl
      simp only [Bool.and_eq_true, decide_eq_true_eq] at hcond
      obtain ⟨hok, hx0⟩ := hcond
      subst hok
      cases hso : stepOk M (.hs c0 true) with
      | true =>
        simp only [hso, if_true] at hl
        by_cases hy : c0.client = x
        · subst hy
          rw [LMap.lookup_insert_eq] at hl
          injection hl with hl; injection hl with e1 e2; subst e1; subst e2
          refine ⟨rfl, hx0, reg_handshake_self hso hx0, Nat.le_refl _, ?_⟩
          intro _
          refine ⟨S.now + P.rsTtl, Nat.le_refl _, ?_⟩
          obtain ⟨_, hfound, _⟩ := stepOk_hs hso
          have hg : (true && (decide (c0 ∈ (M.nodes c0.node).ctrl) || decide (c0 ∈ (M.nodes c0.node).conns)) &&
              decide (c0.client > 0)) = true := by
            simp only [Bool.true_and, Bool.and_eq_true, Bool.or_eq_true, decide_eq_true_eq]
            exact ⟨hfound, hx0⟩
          simp only [rsStep, hg, if_true]
          unfold connectClient
          rw [FMap.lookup_insert_eq, h.now_eq]
        · rw [LMap.lookup_insert_ne _ _ hy] at hl
          obtain ⟨g1, g2, g3, g4, g5, g6⟩ := hold x c u hl
          refine ⟨g1, g2, hother c ⟨g3, g4⟩ (by rw [g1]; exact fun e => hy e.symm), g5, ?_⟩
          intro hu
          rw [hrs_other x (fun e => hy e.symm)]; exact g6 hu
      | false =>
        simp only [hso, Bool.false_eq_true, if_false] at hl
        by_cases hy : c0.client = x
        · subst hy; rw [LMap.lookup_erase_eq] at hl; cases hl
        · rw [LMap.lookup_erase_ne _ hy] at hl
          obtain ⟨g1, g2, g3, g4, g5, g6⟩ := hold x c u hl
          refine ⟨g1, g2, hother c ⟨g3, g4⟩ (by rw [g1]; exact fun e => hy e.symm), g5, ?_⟩
          intro hu
          rw [hrs_other x (fun e => hy e.symm)]; exact g6 hu
    · simp only [hcond, Bool.false_eq_true, if_false] at hl
      obtain ⟨g1, g2, g3, g4, g5, g6⟩ := hold x c u hl
      have hnotboth : ¬ (ok = true ∧ 0 < c0.client) := by
        intro hb; apply hcond; simp [hb.1, hb.2]
      refine ⟨g1, g2, ?_, g5, ?_⟩
      · refine reg_handshake h c0 true ok ⟨g3, g4⟩ (fun _ hso hx0 _ => ?_)
        exact hnotboth ⟨(stepOk_hs hso).1, hx0⟩
      · intro hu
        have : rsStep P M (.hs c0 ok) = M.rstore := by
          simp only [rsStep]
          split
          · rename_i hg
            simp only [Bool.and_eq_true, Bool.or_eq_true, decide_eq_true_eq] at hg
            exact absurd ⟨hg.1.1, hg.2⟩ hnotboth
          · rfl
        rw [this]; exact g6 hu

theorem RSInv.step {P : Params} {S : SpecSt} {M : St} (h : Inv S M) (hr : RSInv P.rsTtl S M) (e : Ev) :
    RSInv P.rsTtl (specStep P.ttl P.rsTtl S (stepOk M e) e) (step P M e) :=
  ⟨hr.sound_step h e, fun x c u hl => by
    obtain ⟨g1, g2, g3, g4, g5⟩ := hr.live_step h e x c u hl
    exact ⟨g1, g2, g3.1, g3.2, g4, g5⟩⟩

/-! ## the whole history -/

theorem nodeViewOk_range {P : Params} (hv : P.v = repaired) {S : SpecSt} {M : St} (h : Inv S M)
    (hr : RSInv P.rsTtl S M) (x : Nat) :
    ∀ n j, nodeViewOk S x j ((List.range' j n).map
      (fun i => (findClientNode P M.now M.store x, route P M i x, rsGet M.now M.rstore x))) = true := by
  intro n
  induction n with
  | zero => intro j; simp [nodeViewOk]
  | succ n ih =>
    intro j
    simp only [List.range'_succ, List.map_cons, nodeViewOk, Bool.and_eq_true]
    exact ⟨⟨⟨lookOk_of_inv hv h x, routeOk_of_inv hv h x j⟩, rsOk_of_inv h hr x⟩, ih (j + 1)⟩

theorem obsOk_of_inv {P : Params} (hv : P.v = repaired) {S : SpecSt} {M : St} (h : Inv S M)
    (hr : RSInv P.rsTtl S M) (nn : Nat) (clients : List Nat) :
    obsOk S nn clients (observe P nn clients M) = true := by
  unfold obsOk observe
  rw [Bool.and_eq_true]
  constructor
  · have : (List.map (fun p : Nat × List (Look × Route × Option (Nat × Conn)) => p.1)
        (List.map (fun x => (x, view P nn M x)) clients)) = clients := by
      induction clients with
      | nil => rfl
      | cons a r ih => simp only [List.map_cons, ih]
    rw [this]; simp
  · simp only [List.all_map, List.all_eq_true]
    intro x _
    simp only [Function.comp, view, List.length_map, List.length_range, beq_self_eq_true, Bool.true_and]
    rw [List.range_eq_range']
    exact nodeViewOk_range hv h hr x nn 0

theorem holdsFrom_run {P : Params} (hv : P.v = repaired) (httl : 0 < P.ttl) (nn : Nat) (clients : List Nat) :
    ∀ (evs : List Ev) (S : SpecSt) (M : St), Inv S M → RSInv P.rsTtl S M →
      holdsFrom P.ttl P.rsTtl nn clients S evs (runFrom P nn clients M evs) = true := by
  intro evs
  induction evs with
  | nil => intro S M _ _; rfl
  | cons e es ih =>
    intro S M h hr
    simp only [runFrom, holdsFrom, Bool.and_eq_true]
    have h' := h.step hv httl e
    have hr' := hr.step h e
    exact ⟨obsOk_of_inv hv h' hr' nn clients, ih _ _ h' hr'⟩

end Tunnox.C08
