import TunnoxModel.Proofs.C19Run
/-!
  C19 — the ownership part of the monitor (`own`, `auth`, `final`) never raises a flag on a run of the
  repaired model: simulation between configurations and monitor states.
-/
namespace Tunnox.C19
open Gen

theorem stepCreate_okId {cf s cl sub base th tp pc n}
    (h : (stepCreate cf s cl sub base th tp pc).2.2 = some (.okId n)) : pc = .cAppG n := by
  revert h
  cases pc <;> simp only [stepCreate] <;> (repeat' split) <;> simp

theorem stepDelete_forbidden {cf s n cl r} (hd : s.data n = some r) (hne : r.ClientID ≠ cl) :
    stepDelete cf s n cl .dGet = (s, .idle, some (.err coreerrors.CodeForbidden)) := by
  simp [stepDelete, hd, hne]

theorem stepDelete_idle {cf s n cl} : (stepDelete cf s n cl .idle).2.2 = none := rfl

structure Sim (c : Cfg) (m : Mon) : Prop where
  delReq : m.delReq = c.st.delReq
  certain : ∀ n d cl, (n, d, cl) ∈ m.certain → Settled c n d cl
  own : m.own = true
  auth : m.auth = true
  forbid : ∀ t n, (t, n) ∈ m.mustForbid → ∃ cl rest, (c.th t).todo = .del n cl :: rest ∧ (c.th t).pc = .dGet ∧
      ∃ d cl', (n, d, cl') ∈ m.certain ∧ cl' ≠ cl

theorem Sim.init (i : Input) : Sim (initCfg i) {} := by
  refine ⟨rfl, ?_, rfl, rfl, ?_⟩
  · intro n d cl h; simp at h
  · intro t n h; simp at h

/-- Two settled entries for the same mapping number have the same client. -/
theorem Settled.client_eq {c n d d' cl cl'} (h1 : Settled c n d cl) (h2 : Settled c n d' cl') : cl = cl' := by
  obtain ⟨⟨o, ho, _, hc⟩, _⟩ := h1
  obtain ⟨⟨o', ho', _, hc'⟩, _⟩ := h2
  rw [ho] at ho'; injection ho' with e; subst e; rw [← hc, ← hc']

/-- Monitor fields the ownership simulation talks about are untouched by the events of other clauses. -/
theorem Sim.congr {c : Cfg} {m m' : Mon} (h : Sim c m) (e1 : m'.delReq = m.delReq) (e2 : m'.certain = m.certain)
    (e3 : m'.own = m.own) (e4 : m'.auth = m.auth) (e5 : m'.mustForbid = m.mustForbid) : Sim c m' :=
  ⟨by rw [e1]; exact h.delReq, by rw [e2]; exact h.certain, by rw [e3]; exact h.own, by rw [e4]; exact h.auth,
   by rw [e5, e2]; exact h.forbid⟩

end Tunnox.C19
namespace Tunnox.C19
open Gen

/-- The monitor after the (possible) invocation event of a slot. -/
def preMon (m : Mon) (t : Nat) (b : Bool) (o : Op) : Mon :=
  match (if b then some o else none) with
  | some o => monInv m t o
  | none => m

theorem preMon_false (m : Mon) (t : Nat) (o : Op) : preMon m t false o = m := rfl
theorem preMon_true (m : Mon) (t : Nat) (o : Op) : preMon m t true o = monInv m t o := rfl

theorem monSlot_eq (i : Input) (m : Mon) (t : Nat) (b : Bool) (o : Op) (ret : Option (Op × Res)) :
    monSlot i m ⟨t, true, if b then some o else none, ret⟩ =
      (match ret with
       | some (o', r) => monRet i (preMon m t b o) t o' r
       | none => preMon m t b o) := by
  unfold monSlot preMon
  cases ret with
  | none => rfl
  | some p => rfl

/-- Invocation events other than a delete leave the ownership fields alone. -/
theorem preMon_core (m : Mon) (t : Nat) (b : Bool) (o : Op) (hnd : ∀ n cl, o ≠ .del n cl) :
    (preMon m t b o).delReq = m.delReq ∧ (preMon m t b o).certain = m.certain ∧ (preMon m t b o).own = m.own ∧
    (preMon m t b o).auth = m.auth ∧ (preMon m t b o).mustForbid = m.mustForbid := by
  cases b
  · exact ⟨rfl, rfl, rfl, rfl, rfl⟩
  · cases o with
    | del n cl => exact absurd rfl (hnd n cl)
    | create _ _ _ _ _ => exact ⟨rfl, rfl, rfl, rfl, rfl⟩
    | upd _ _ _ _ _ => exact ⟨rfl, rfl, rfl, rfl, rfl⟩
    | look _ => exact ⟨rfl, rfl, rfl, rfl, rfl⟩

section
variable {cf : Config} {ops : List Op} {exts : List PM} {c : Cfg} {m : Mon}

/-- A slot that records no delete request and whose monitor events leave the ownership fields alone. -/
theorem Sim.step_core_same (hI : Inv cf ops exts c) (hS : Sim c m) (t : Nat)
    (hdr : (stepThread cf c t).1.st.delReq = c.st.delReq)
    (hnot : ∀ t2 n, (t2, n) ∈ m.mustForbid → t2 ≠ t) (m' : Mon)
    (e1 : m'.delReq = m.delReq) (e2 : m'.certain = m.certain) (e3 : m'.own = m.own) (e4 : m'.auth = m.auth)
    (e5 : m'.mustForbid = m.mustForbid) : Sim (stepThread cf c t).1 m' := by
  refine ⟨by rw [e1, hS.delReq, hdr], ?_, by rw [e3]; exact hS.own, by rw [e4]; exact hS.auth, ?_⟩
  · intro n d cl hm
    rw [e2] at hm
    have hs := hS.certain n d cl hm
    exact hs.step hI t (by rw [hdr]; exact hs.2.1)
  · intro t2 n hm
    rw [e5] at hm
    obtain ⟨cl, rest, h1, h2, d, cl', h3, h4⟩ := hS.forbid t2 n hm
    rw [stepThread_others cf c t t2 (hnot t2 n hm)]
    exact ⟨cl, rest, h1, h2, d, cl', by rw [e2]; exact h3, h4⟩

/-- A thread with a pending "must be refused" entry is refused at its next step. -/
theorem Sim.refused (hI : Inv cf ops exts c) (hv : cf.variant = .repaired) (hS : Sim c m) {t n0 cl0 rest}
    (hto : (c.th t).todo = .del n0 cl0 :: rest) (hm : (t, n0) ∈ m.mustForbid) :
    (c.th t).pc = .dGet ∧ stepDelete cf c.st n0 cl0 .dGet = (c.st, .idle, some (.err coreerrors.CodeForbidden)) := by
  obtain ⟨cl, rest', h1, h2, d, cl', h3, h4⟩ := hS.forbid t n0 hm
  rw [hto] at h1
  injection h1 with h1 _; injection h1 with _ h1; subst h1
  obtain ⟨_, r, hr, _, hrc⟩ := (hS.certain _ _ _ h3).stored hI hv
  exact ⟨h2, stepDelete_forbidden hr (by rw [hrc]; exact h4)⟩

theorem retCreate_core_other (m0 : Mon) (t cl : Nat) (d th : String) (tp : Nat) (r : Res) (hr : ∀ n, r ≠ .okId n) :
    (retCreate m0 t cl d th tp r).delReq = m0.delReq ∧ (retCreate m0 t cl d th tp r).certain = m0.certain ∧
    (retCreate m0 t cl d th tp r).own = m0.own ∧ (retCreate m0 t cl d th tp r).auth = m0.auth ∧
    (retCreate m0 t cl d th tp r).mustForbid = m0.mustForbid := by
  cases r with
  | okId n => exact absurd rfl (hr n)
  | ok => exact ⟨rfl, rfl, rfl, rfl, rfl⟩
  | route _ _ _ _ => exact ⟨rfl, rfl, rfl, rfl, rfl⟩
  | err code => unfold retCreate; simp only; split <;> exact ⟨rfl, rfl, rfl, rfl, rfl⟩

theorem Sim.step_create (i : Input) (hI : Inv cf ops exts c) (hv : cf.variant = .repaired) (hS : Sim c m)
    (t : Nat) {cl sub base th tp rest} (hto : (c.th t).todo = .create cl sub base th tp :: rest) :
    Sim (stepThread cf c t).1 (monSlot i m (stepThread cf c t).2) := by
  have hdr : (stepThread cf c t).1.st.delReq = c.st.delReq := by
    rw [stepThread_delReq, hto]
  have hnot : ∀ t2 n, (t2, n) ∈ m.mustForbid → t2 ≠ t := by
    intro t2 n hm e; subst e
    obtain ⟨_, _, h1, _⟩ := hS.forbid t2 n hm
    rw [hto] at h1; injection h1 with h1 _; cases h1
  rw [stepThread_slot cf c t _ rest hto, monSlot_eq]
  simp only [stepOp]
  obtain ⟨p1, p2, p3, p4, p5⟩ := preMon_core m t (c.th t).pc.isIdle (.create cl sub base th tp) (by intro n cl h; cases h)
  cases hr : (stepCreate cf c.st cl sub base th tp (c.th t).pc).2.2 with
  | none =>
    simp only [Option.map_none]
    exact hS.step_core_same hI t hdr hnot _ p1 p2 p3 p4 p5
  | some r =>
    simp only [Option.map_some, monRet]
    by_cases hok : ∃ n0, r = .okId n0
    · obtain ⟨n0, hn0⟩ := hok
      subst hn0
      have hpc := stepCreate_okId hr
      have hidle : (c.th t).pc.isIdle = false := by rw [hpc]; rfl
      rw [hidle, preMon_false]
      have hl := hI.linv hto
      rw [hpc] at hl; simp only [LInv] at hl
      have hkeep : ∀ n d cl, (n, d, cl) ∈ m.certain → Settled (stepThread cf c t).1 n d cl := by
        intro n d cl hm
        have hs := hS.certain n d cl hm
        exact hs.step hI t (by rw [hdr]; exact hs.2.1)
      have hfk : ∀ (cert' : List (Nat × String × Nat)), (∀ x, x ∈ m.certain → x ∈ cert') →
          ∀ t2 n, (t2, n) ∈ m.mustForbid → ∃ cl rest, ((stepThread cf c t).1.th t2).todo = .del n cl :: rest ∧
            ((stepThread cf c t).1.th t2).pc = .dGet ∧ ∃ d cl', (n, d, cl') ∈ cert' ∧ cl' ≠ cl := by
        intro cert' hsub t2 n hm
        obtain ⟨cl, rest, h1, h2, d, cl', h3, h4⟩ := hS.forbid t2 n hm
        rw [stepThread_others cf c t t2 (hnot t2 n hm)]
        exact ⟨cl, rest, h1, h2, d, cl', hsub _ h3, h4⟩
      unfold retCreate
      simp only
      by_cases hdq : m.delReq.contains (n0, cl) = true
      · simp only [hdq, if_true]
        exact ⟨by rw [hS.delReq, hdr], hkeep, hS.own, hS.auth, hfk _ (fun _ h => h)⟩
      · simp only [hdq, Bool.false_eq_true, if_false]
        have hnd : (n0, cl) ∉ c.st.delReq := by
          rw [← hS.delReq]; intro hmem; exact hdq (List.contains_iff_mem.mpr hmem)
        have hnew : Settled (stepThread cf c t).1 n0 (sub ++ "." ++ base) cl := by
          refine ⟨⟨_, hI.born_mono t n0 _ hl.1, rfl, rfl⟩, by rw [hdr]; exact hnd, ?_⟩
          intro t' hid
          by_cases e : t' = t
          · subst e
            rw [stepThread_self cf c t' _ rest hto] at hid
            simp only [stepOp, hr] at hid
            simp [PC.createId] at hid
          · rw [stepThread_others cf c t t' e] at hid
            exact hI.uniqId t t' n0 (fun e' => e e'.symm) (by rw [hpc]; rfl) hid
        refine ⟨by rw [hS.delReq, hdr], ?_, ?_, hS.auth, hfk _ (fun x hx => List.mem_cons_of_mem _ hx)⟩
        · intro n d cl' hm
          simp only [List.mem_cons] at hm
          rcases hm with e | hm
          · injection e with e1 e2; injection e2 with e2 e3; subst e1; subst e2; subst e3; exact hnew
          · exact hkeep n d cl' hm
        · rw [hS.own, Bool.true_and]
          simp only [Bool.not_eq_true', List.any_eq_false]
          intro x hx hxd
          have hxd' : x.2.1 = sub ++ "." ++ base := by simpa using hxd
          have hs := hS.certain x.1 x.2.1 x.2.2 hx
          have hi1 := (hs.stored hI hv).1
          have hi2 := hI.g1 hv n0 _ hl.1 hnd
          rw [hxd'] at hi1
          simp only at hi2
          rw [hi1] at hi2
          injection hi2 with hi2
          exact hs.2.2 t (by rw [hpc, hi2]; rfl)
    · have hne : ∀ n, r ≠ .okId n := fun n e => hok ⟨n, e⟩
      obtain ⟨q1, q2, q3, q4, q5⟩ := retCreate_core_other (preMon m t (c.th t).pc.isIdle (.create cl sub base th tp)) t cl
        (sub ++ "." ++ base) th tp r hne
      exact hS.step_core_same hI t hdr hnot _ (by rw [q1, p1]) (by rw [q2, p2]) (by rw [q3, p3]) (by rw [q4, p4])
        (by rw [q5, p5])

end
end Tunnox.C19
namespace Tunnox.C19
open Gen

section
variable {cf : Config} {ops : List Op} {exts : List PM} {c : Cfg} {m : Mon}

theorem Sim.step_update (i : Input) (hI : Inv cf ops exts c) (hS : Sim c m)
    (t : Nat) {n st e th tp rest} (hto : (c.th t).todo = .upd n st e th tp :: rest) :
    Sim (stepThread cf c t).1 (monSlot i m (stepThread cf c t).2) := by
  have hdr : (stepThread cf c t).1.st.delReq = c.st.delReq := by
    rw [stepThread_delReq, hto]
  have hnot : ∀ t2 n, (t2, n) ∈ m.mustForbid → t2 ≠ t := by
    intro t2 n hm e; subst e
    obtain ⟨_, _, h1, _⟩ := hS.forbid t2 n hm
    rw [hto] at h1; injection h1 with h1 _; cases h1
  rw [stepThread_slot cf c t _ rest hto, monSlot_eq]
  obtain ⟨p1, p2, p3, p4, p5⟩ := preMon_core m t (c.th t).pc.isIdle (.upd n st e th tp) (by intro n cl h; cases h)
  cases (stepOp cf c.st (.upd n st e th tp) (c.th t).pc).2.2 with
  | none => exact hS.step_core_same hI t hdr hnot _ p1 p2 p3 p4 p5
  | some r => exact hS.step_core_same hI t hdr hnot _ p1 p2 p3 p4 p5

theorem Sim.step_lookup (i : Input) (hI : Inv cf ops exts c) (hS : Sim c m)
    (t : Nat) {host rest} (hto : (c.th t).todo = .look host :: rest) :
    Sim (stepThread cf c t).1 (monSlot i m (stepThread cf c t).2) := by
  have hdr : (stepThread cf c t).1.st.delReq = c.st.delReq := by
    rw [stepThread_delReq, hto]
  have hnot : ∀ t2 n, (t2, n) ∈ m.mustForbid → t2 ≠ t := by
    intro t2 n hm e; subst e
    obtain ⟨_, _, h1, _⟩ := hS.forbid t2 n hm
    rw [hto] at h1; injection h1 with h1 _; cases h1
  rw [stepThread_slot cf c t _ rest hto, monSlot_eq]
  obtain ⟨p1, p2, p3, p4, p5⟩ := preMon_core m t (c.th t).pc.isIdle (.look host) (by intro n cl h; cases h)
  cases (stepOp cf c.st (.look host) (c.th t).pc).2.2 with
  | none => exact hS.step_core_same hI t hdr hnot _ p1 p2 p3 p4 p5
  | some r =>
    simp only [Option.map_some, monRet]
    refine hS.step_core_same hI t hdr hnot _ ?_ ?_ ?_ ?_ ?_ <;> (unfold retLookup; simp only; split) <;>
      first | exact p1 | exact p2 | exact p3 | exact p4 | exact p5

theorem mem_filter_certain {l : List (Nat × String × Nat)} {n0 cl0 : Nat} {x : Nat × String × Nat} :
    x ∈ l.filter (fun x => !(x.1 == n0 && x.2.2 == cl0)) ↔ x ∈ l ∧ ¬ (x.1 = n0 ∧ x.2.2 = cl0) := by
  simp only [List.mem_filter, Bool.not_eq_true', Bool.and_eq_false_iff, beq_eq_false_iff_ne, ne_eq]
  constructor
  · rintro ⟨h1, h2⟩; exact ⟨h1, fun ⟨a, b⟩ => h2.elim (fun h => h a) (fun h => h b)⟩
  · rintro ⟨h1, h2⟩
    refine ⟨h1, ?_⟩
    by_cases a : x.1 = n0
    · exact Or.inr (fun b => h2 ⟨a, b⟩)
    · exact Or.inl a

theorem Sim.step_delete (i : Input) (hI : Inv cf ops exts c) (hv : cf.variant = .repaired) (hS : Sim c m)
    (t : Nat) {n0 cl0 rest} (hto : (c.th t).todo = .del n0 cl0 :: rest) :
    Sim (stepThread cf c t).1 (monSlot i m (stepThread cf c t).2) := by
  rw [stepThread_slot cf c t _ rest hto, monSlot_eq]
  by_cases hidle : (c.th t).pc = .idle
  · -- invocation: the request is recorded, ownership (if it was the owner's) ends
    have hres : (stepOp cf c.st (.del n0 cl0) (c.th t).pc).2.2 = none := by rw [hidle]; rfl
    have hb : (c.th t).pc.isIdle = true := by rw [hidle]; rfl
    rw [hres, hb, preMon_true]
    simp only [Option.map_none, monInv]
    have hdr : (stepThread cf c t).1.st.delReq = (n0, cl0) :: c.st.delReq := by
      rw [stepThread_delReq, hto, hidle]
    have hself : (stepThread cf c t).1.th t = ⟨.del n0 cl0 :: rest, .dGet⟩ := by
      rw [stepThread_self cf c t _ rest hto, hidle]; rfl
    have hnot : ∀ t2 n, (t2, n) ∈ m.mustForbid → t2 ≠ t := by
      intro t2 n hm e; subst e
      obtain ⟨_, _, _, h2, _⟩ := hS.forbid t2 n hm
      rw [hidle] at h2; cases h2
    have hcert : ∀ n d cl, (n, d, cl) ∈ m.certain → ¬ (n = n0 ∧ cl = cl0) → Settled (stepThread cf c t).1 n d cl := by
      intro n d cl hm hne
      have hs := hS.certain n d cl hm
      refine hs.step hI t ?_
      rw [hdr]
      intro hmem
      simp only [List.mem_cons] at hmem
      rcases hmem with e | hmem
      · injection e with e1 e2; exact hne ⟨e1, e2⟩
      · exact hs.2.1 hmem
    -- witnesses of pending refusals survive unless this is the owner's own request
    have hwit : ∀ t2 n, (t2, n) ∈ m.mustForbid → (isOwner m n0 cl0 = true → n ≠ n0) →
        ∃ cl rest, ((stepThread cf c t).1.th t2).todo = .del n cl :: rest ∧ ((stepThread cf c t).1.th t2).pc = .dGet ∧
          ∃ d cl', (n, d, cl') ∈ m.certain.filter (fun x => !(x.1 == n0 && x.2.2 == cl0)) ∧ cl' ≠ cl := by
      intro t2 n hm hown
      obtain ⟨cl, rest', h1, h2, d, cl', h3, h4⟩ := hS.forbid t2 n hm
      rw [stepThread_others cf c t t2 (hnot t2 n hm)]
      refine ⟨cl, rest', h1, h2, d, cl', ?_, h4⟩
      rw [mem_filter_certain]
      refine ⟨h3, ?_⟩
      rintro ⟨e1, e2⟩
      simp only at e1 e2
      subst e1; subst e2
      exact hown (by unfold isOwner; exact List.any_eq_true.mpr ⟨_, h3, by simp⟩) rfl
    unfold invDelete
    refine ⟨by simp only; rw [hS.delReq, hdr], ?_, hS.own, hS.auth, ?_⟩
    · intro n d cl hm
      simp only at hm
      rw [mem_filter_certain] at hm
      exact hcert n d cl hm.1 hm.2
    · intro t2 n hm
      simp only at hm ⊢
      by_cases hoo : ownedByOther m n0 cl0 = true
      · simp only [hoo, if_true, List.mem_cons] at hm
        -- an entry of another client for n0 exists: then cl0 is not the owner
        have hnotown : isOwner m n0 cl0 = true → False := by
          intro ho
          obtain ⟨x, hx, hx'⟩ := List.any_eq_true.mp hoo
          obtain ⟨y, hy, hy'⟩ := List.any_eq_true.mp ho
          simp only [Bool.and_eq_true, beq_iff_eq, bne_iff_ne] at hx' hy'
          have h1 := hS.certain x.1 x.2.1 x.2.2 hx
          have h2 := hS.certain y.1 y.2.1 y.2.2 hy
          rw [hx'.1] at h1; rw [hy'.1] at h2
          exact hx'.2 ((h1.client_eq h2).trans hy'.2)
        rcases hm with e | hm
        · injection e with e1 e2; subst e1; subst e2
          obtain ⟨x, hx, hx'⟩ := List.any_eq_true.mp hoo
          simp only [Bool.and_eq_true, beq_iff_eq, bne_iff_ne] at hx'
          refine ⟨cl0, rest, by rw [hself], by rw [hself], x.2.1, x.2.2, ?_, hx'.2⟩
          rw [mem_filter_certain]
          refine ⟨by rw [← hx'.1]; exact hx, ?_⟩
          rintro ⟨_, e2⟩; exact hx'.2 e2
        · exact hwit t2 n hm (fun ho => (hnotown ho).elim)
      · simp only [hoo, Bool.false_eq_true, if_false] at hm
        by_cases hio : isOwner m n0 cl0 = true
        · simp only [hio, if_true, List.mem_filter, bne_iff_ne, ne_eq, decide_not, Bool.not_eq_true',
            decide_eq_false_iff_not] at hm
          exact hwit t2 n hm.1 (fun _ => hm.2)
        · simp only [hio, Bool.false_eq_true, if_false] at hm
          exact hwit t2 n hm (fun ho => absurd ho hio)
  · -- a later step of the delete
    have hb : (c.th t).pc.isIdle = false := by
      cases hpc : (c.th t).pc <;> first | rfl | exact absurd hpc hidle
    rw [hb, preMon_false]
    have hdr : (stepThread cf c t).1.st.delReq = c.st.delReq := by
      rw [stepThread_delReq, hto]
      cases hpc : (c.th t).pc <;> first | rfl | exact absurd hpc hidle
    simp only [stepOp]
    cases hr : (stepDelete cf c.st n0 cl0 (c.th t).pc).2.2 with
    | none =>
      simp only [Option.map_none]
      refine hS.step_core_same hI t hdr ?_ _ rfl rfl rfl rfl rfl
      intro t2 n hm e; subst e
      have hn : n = n0 := by
        obtain ⟨_, _, h1, _⟩ := hS.forbid t2 n hm
        rw [hto] at h1; injection h1 with h1 _; injection h1 with h1 _; exact h1.symm
      subst hn
      obtain ⟨hpc, hstep⟩ := hS.refused hI hv hto hm
      rw [hpc, hstep] at hr; cases hr
    | some r =>
      simp only [Option.map_some, monRet]
      unfold retDelete
      have hfor : (t, n0) ∈ m.mustForbid → r = .err coreerrors.CodeForbidden := by
        intro hm
        obtain ⟨hpc, hstep⟩ := hS.refused hI hv hto hm
        rw [hpc, hstep] at hr; injection hr with hr; exact hr.symm
      refine ⟨by simp only; rw [hS.delReq, hdr], ?_, hS.own, ?_, ?_⟩
      · intro n d cl hm
        have hs := hS.certain n d cl hm
        exact hs.step hI t (by rw [hdr]; exact hs.2.1)
      · simp only
        rw [hS.auth, Bool.true_and]
        by_cases hmem : (t, n0) ∈ m.mustForbid
        · rw [hfor hmem]; simp
        · have : m.mustForbid.contains (t, n0) = false := by
            rw [Bool.eq_false_iff]; intro h; exact hmem (List.contains_iff_mem.mp h)
          simp [this]; exact Or.inl hmem
      · intro t2 n hm
        simp only [List.mem_filter, bne_iff_ne, ne_eq, decide_not, Bool.not_eq_true', decide_eq_false_iff_not] at hm
        obtain ⟨cl, rest', h1, h2, d, cl', h3, h4⟩ := hS.forbid t2 n hm.1
        rw [stepThread_others cf c t t2 hm.2]
        exact ⟨cl, rest', h1, h2, d, cl', h3, h4⟩

/-- **One joint slot keeps the ownership simulation** (repaired tree). -/
theorem Sim.step (i : Input) (hI : Inv cf ops exts c) (hv : cf.variant = .repaired) (hS : Sim c m) (t : Nat) :
    Sim (stepThread cf c t).1 (monSlot i m (stepThread cf c t).2) := by
  cases hto : (c.th t).todo with
  | nil => rw [stepThread_nil cf c t hto]; exact hS
  | cons o rest =>
    cases o with
    | create cl sub base th tp => exact hS.step_create i hI hv t hto
    | del n cl => exact hS.step_delete i hI hv t hto
    | upd n st e th tp => exact hS.step_update i hI t hto
    | look host => exact hS.step_lookup i hI t hto

end
end Tunnox.C19
