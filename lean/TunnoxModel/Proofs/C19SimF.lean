import TunnoxModel.Proofs.C19Shape
/-!
  C19 — simulation for the `claim` clause (and the bookkeeping of born / in-flight / held / dead mappings
  that the `look` clause reuses).
-/
namespace Tunnox.C19
open Gen

structure SimF (c : Cfg) (m : Mon) : Prop where
  claim : m.claim = true
  fly1 : ∀ f, f ∈ m.flying → ∃ sub base, f.dom = sub ++ "." ++ base ∧
    InFlight (c.th f.tid) (.create f.client sub base f.thost f.tport)
  fly2 : ∀ t cl sub base th tp, InFlight (c.th t) (.create cl sub base th tp) →
    (⟨t, sub ++ "." ++ base, cl, th, tp⟩ : Fly) ∈ m.flying
  born1 : ∀ b, b ∈ m.born → c.st.born b.id = some ⟨b.dom, b.client, b.thost, b.tport⟩ ∧ c.st.written b.id = true ∧
    ∀ t, (c.th t).pc.createId ≠ some b.id
  born2 : ∀ n o, c.st.born n = some o →
    (⟨n, o.dom, o.client, o.thost, o.tport⟩ : Born) ∈ m.born ∨ ∃ t, (c.th t).pc.createId = some n
  held : ∀ n o, c.st.born n = some o →
    (∃ t, (c.th t).pc.createId = some n) ∨ (n, o.dom) ∈ m.held ∨ Unindexed c.st n
  saw1 : ∀ f1, f1 ∈ m.flying → ∀ f2, f2 ∈ m.flying → f1.tid ≠ f2.tid → f1.dom = f2.dom → f1.tid ∈ m.sawHolder
  saw2 : ∀ f, f ∈ m.flying → ∀ n, (n, f.dom) ∈ m.held → f.tid ∈ m.sawHolder
  delv : ∀ t n, (t, n) ∈ m.delValid → (∃ cl, InFlight (c.th t) (.del n cl)) ∧ ∃ b, b ∈ m.born ∧ b.id = n
  dead : ∀ n, n ∈ m.dead → Unindexed c.st n ∧ ∃ o, c.st.born n = some o

theorem SimF.init (i : Input) : SimF (initCfg i) {} := by
  refine ⟨rfl, ?_, ?_, ?_, ?_, ?_, ?_, ?_, ?_, ?_⟩
  · intro f h; simp at h
  · intro t cl sub base th tp h
    obtain ⟨_, _, h2⟩ := h
    exact absurd rfl h2
  · intro b h; simp at h
  · intro n o h; simp [initCfg, initStore] at h
  · intro n o h; simp [initCfg, initStore] at h
  · intro f h; simp at h
  · intro f h; simp at h
  · intro t n h; simp at h
  · intro n h; simp at h

section
variable {cf : Config} {ops : List Op} {exts : List PM} {c : Cfg} {m : Mon}

/-- The thread that holds the number of a born mapping is its creator, in flight, and the monitor knows it. -/
theorem SimF.creator_fly (hI : Inv cf ops exts c) (hS : SimF c m) {t n o} (hid : (c.th t).pc.createId = some n)
    (hb : c.st.born n = some o) : (⟨t, o.dom, o.client, o.thost, o.tport⟩ : Fly) ∈ m.flying := by
  have ht := hI.thr t
  unfold TInv at ht
  cases hto : (c.th t).todo with
  | nil => rw [hto] at ht; rw [ht] at hid; simp [PC.createId] at hid
  | cons op rest =>
    rw [hto] at ht
    cases op <;> cases hpc : (c.th t).pc <;> rw [hpc] at ht hid <;> simp [PC.createId, LInv] at hid ht
    · subst hid; rw [ht.2.2] at hb; cases hb
    all_goals
      subst hid
      rw [ht.1] at hb; injection hb with hb; subst hb
      exact hS.fly2 t _ _ _ _ _ ⟨rest, hto, by rw [hpc]; simp⟩

/-- A step whose monitor events leave the `claim` bookkeeping alone and that keeps the acting thread's
create / delete flight status. -/
theorem SimF.keep (hI : Inv cf ops exts c) (hS : SimF c m) (t : Nat) (m' : Mon)
    (e1 : m'.claim = m.claim) (e2 : m'.flying = m.flying) (e3 : m'.born = m.born) (e4 : m'.held = m.held)
    (e5 : m'.sawHolder = m.sawHolder) (e6 : m'.delValid = m.delValid) (e7 : m'.dead = m.dead)
    (hfc : ∀ cl sub base th tp, InFlight (c.th t) (.create cl sub base th tp) ↔
      InFlight ((stepThread cf c t).1.th t) (.create cl sub base th tp))
    (hfd : ∀ n cl, (t, n) ∈ m.delValid → InFlight (c.th t) (.del n cl) → InFlight ((stepThread cf c t).1.th t) (.del n cl))
    (hcid : ∀ n, (c.th t).pc.createId = some n → ((stepThread cf c t).1.th t).pc.createId = some n)
    (hnew : ∀ n o, (stepThread cf c t).1.st.born n = some o → c.st.born n = none →
      ((stepThread cf c t).1.th t).pc.createId = some n) :
    SimF (stepThread cf c t).1 m' := by
  have hoth : ∀ t', t' ≠ t → (stepThread cf c t).1.th t' = c.th t' := fun t' h => stepThread_others cf c t t' h
  have hcid' : ∀ t' n, (c.th t').pc.createId = some n → ((stepThread cf c t).1.th t').pc.createId = some n := by
    intro t' n h
    by_cases e : t' = t
    · subst e; exact hcid n h
    · rw [hoth t' e]; exact h
  refine ⟨by rw [e1]; exact hS.claim, ?_, ?_, ?_, ?_, ?_, ?_, ?_, ?_, ?_⟩
  · intro f hf
    rw [e2] at hf
    obtain ⟨sub, base, h1, h2⟩ := hS.fly1 f hf
    refine ⟨sub, base, h1, ?_⟩
    by_cases e : f.tid = t
    · rw [e] at h2 ⊢; exact (hfc _ _ _ _ _).mp h2
    · rw [hoth _ e]; exact h2
  · intro t' cl sub base th tp h
    rw [e2]
    by_cases e : t' = t
    · subst e; exact hS.fly2 t' cl sub base th tp ((hfc _ _ _ _ _).mpr h)
    · rw [hoth _ e] at h; exact hS.fly2 t' cl sub base th tp h
  · intro b hb
    rw [e3] at hb
    obtain ⟨h1, h2, h3⟩ := hS.born1 b hb
    refine ⟨hI.born_mono t _ _ h1, hI.written_mono t _ h2, ?_⟩
    intro t' hid
    rcases hI.createId_step t t' b.id hid with h | h
    · exact h3 t' h
    · have := (hI.bornRange _ _ h1).2; omega
  · intro n o hb
    rw [e3]
    cases hbo : c.st.born n with
    | none => exact Or.inr ⟨t, hnew n o hb hbo⟩
    | some o' =>
      have := hI.born_mono t n o' hbo
      rw [hb] at this; injection this with this; subst this
      rcases hS.born2 n o hbo with h | ⟨t', h⟩
      · exact Or.inl h
      · exact Or.inr ⟨t', hcid' t' n h⟩
  · intro n o hb
    rw [e4]
    cases hbo : c.st.born n with
    | none => exact Or.inl ⟨t, hnew n o hb hbo⟩
    | some o' =>
      have := hI.born_mono t n o' hbo
      rw [hb] at this; injection this with this; subst this
      rcases hS.held n o hbo with ⟨t', h⟩ | h | h
      · exact Or.inl ⟨t', hcid' t' n h⟩
      · exact Or.inr (Or.inl h)
      · exact Or.inr (Or.inr (hI.unindexed_step t n ⟨o, hbo⟩ h))
  · intro f1 h1 f2 h2; rw [e2] at h1 h2; rw [e5]; exact hS.saw1 f1 h1 f2 h2
  · intro f h1 n h2; rw [e2] at h1; rw [e4] at h2; rw [e5]; exact hS.saw2 f h1 n h2
  · intro t' n h
    rw [e6] at h; rw [e3]
    obtain ⟨⟨cl, h1⟩, h2⟩ := hS.delv t' n h
    refine ⟨⟨cl, ?_⟩, h2⟩
    by_cases e : t' = t
    · subst e; exact hfd n cl h h1
    · rw [hoth _ e]; exact h1
  · intro n h
    rw [e7] at h
    obtain ⟨h1, o, h2⟩ := hS.dead n h
    exact ⟨hI.unindexed_step t n ⟨o, h2⟩ h1, o, hI.born_mono t n o h2⟩

end
end Tunnox.C19
namespace Tunnox.C19
open Gen

section
variable {cf : Config} {ops : List Op} {exts : List PM} {c : Cfg} {m : Mon}

/-- `keep` for an acting thread whose operation is not a create and either continues or is an update / lookup. -/
theorem SimF.keep_noncreate (hI : Inv cf ops exts c) (hS : SimF c m) (t : Nat) (m' : Mon) {o rest}
    (hto : (c.th t).todo = o :: rest) (hnc : ∀ cl sub base th tp, o ≠ .create cl sub base th tp)
    (hdel : (∃ n cl, o = .del n cl) → (c.th t).pc ≠ .idle → (stepOp cf c.st o (c.th t).pc).2.2 = none)
    (e1 : m'.claim = m.claim) (e2 : m'.flying = m.flying) (e3 : m'.born = m.born) (e4 : m'.held = m.held)
    (e5 : m'.sawHolder = m.sawHolder) (e6 : m'.delValid = m.delValid) (e7 : m'.dead = m.dead) :
    SimF (stepThread cf c t).1 m' := by
  refine hS.keep hI t m' e1 e2 e3 e4 e5 e6 e7 ?_ ?_ ?_ ?_
  · intro cl sub base th tp
    constructor
    · intro h; exact absurd (inflight_head hto h).1.symm (hnc _ _ _ _ _)
    · intro h
      have := (inflight_actor cf c t o rest hto _).mp h
      exact absurd this.2.symm (hnc _ _ _ _ _)
  · intro n cl _ h
    obtain ⟨e, hp⟩ := inflight_head hto h
    rw [inflight_actor cf c t o rest hto]
    exact ⟨hdel ⟨n, cl, e.symm⟩ hp, e⟩
  · intro n hid
    obtain ⟨cl, sub, base, th, tp, r', h⟩ := hI.createId_is_create hid
    rw [hto] at h; injection h with h _
    exact absurd h (hnc _ _ _ _ _)
  · intro n o' hb hbo; exact hI.newborn t n hb hbo

theorem SimF.step_update (i : Input) (hI : Inv cf ops exts c) (hS : SimF c m)
    (t : Nat) {n st e th tp rest} (hto : (c.th t).todo = .upd n st e th tp :: rest) :
    SimF (stepThread cf c t).1 (monSlot i m (stepThread cf c t).2) := by
  rw [stepThread_slot cf c t _ rest hto, monSlot_eq]
  have hp : ∀ b, (preMon m t b (.upd n st e th tp)).claim = m.claim ∧ (preMon m t b (.upd n st e th tp)).flying = m.flying ∧
      (preMon m t b (.upd n st e th tp)).born = m.born ∧ (preMon m t b (.upd n st e th tp)).held = m.held ∧
      (preMon m t b (.upd n st e th tp)).sawHolder = m.sawHolder ∧ (preMon m t b (.upd n st e th tp)).delValid = m.delValid ∧
      (preMon m t b (.upd n st e th tp)).dead = m.dead := by
    intro b; cases b <;> exact ⟨rfl, rfl, rfl, rfl, rfl, rfl, rfl⟩
  obtain ⟨p1, p2, p3, p4, p5, p6, p7⟩ := hp (c.th t).pc.isIdle
  cases (stepOp cf c.st (.upd n st e th tp) (c.th t).pc).2.2 with
  | none =>
    exact hS.keep_noncreate hI t _ hto (by intro _ _ _ _ _ h; cases h) (by rintro ⟨_, _, h⟩; cases h) p1 p2 p3 p4 p5 p6 p7
  | some r =>
    exact hS.keep_noncreate hI t _ hto (by intro _ _ _ _ _ h; cases h) (by rintro ⟨_, _, h⟩; cases h) p1 p2 p3 p4 p5 p6 p7

theorem SimF.step_lookup (i : Input) (hI : Inv cf ops exts c) (hS : SimF c m)
    (t : Nat) {host rest} (hto : (c.th t).todo = .look host :: rest) :
    SimF (stepThread cf c t).1 (monSlot i m (stepThread cf c t).2) := by
  rw [stepThread_slot cf c t _ rest hto, monSlot_eq]
  have hp : ∀ b, (preMon m t b (.look host)).claim = m.claim ∧ (preMon m t b (.look host)).flying = m.flying ∧
      (preMon m t b (.look host)).born = m.born ∧ (preMon m t b (.look host)).held = m.held ∧
      (preMon m t b (.look host)).sawHolder = m.sawHolder ∧ (preMon m t b (.look host)).delValid = m.delValid ∧
      (preMon m t b (.look host)).dead = m.dead := by
    intro b; cases b <;> exact ⟨rfl, rfl, rfl, rfl, rfl, rfl, rfl⟩
  obtain ⟨p1, p2, p3, p4, p5, p6, p7⟩ := hp (c.th t).pc.isIdle
  cases (stepOp cf c.st (.look host) (c.th t).pc).2.2 with
  | none =>
    exact hS.keep_noncreate hI t _ hto (by intro _ _ _ _ _ h; cases h) (by rintro ⟨_, _, h⟩; cases h) p1 p2 p3 p4 p5 p6 p7
  | some r =>
    simp only [Option.map_some, monRet]
    refine hS.keep_noncreate hI t _ hto (by intro _ _ _ _ _ h; cases h) (by rintro ⟨_, _, h⟩; cases h) ?_ ?_ ?_ ?_ ?_ ?_ ?_ <;>
      (unfold retLookup; simp only; split) <;>
      first | exact p1 | exact p2 | exact p3 | exact p4 | exact p5 | exact p6 | exact p7

end
end Tunnox.C19
namespace Tunnox.C19
open Gen

section
variable {cf : Config} {ops : List Op} {exts : List PM} {c : Cfg} {m : Mon}

/-- A delete of a mapping whose create has returned, answered ok, leaves the mapping unindexed. -/
theorem Inv.delete_ok_unindexed (hI : Inv cf ops exts c) {t n cl rest o}
    (hto : (c.th t).todo = .del n cl :: rest) (hr : (stepDelete cf c.st n cl (c.th t).pc).2.2 = some .ok)
    (hb : c.st.born n = some o) (hw : c.st.written n = true) : Unindexed (stepThread cf c t).1.st n := by
  refine hI.unindexed_step t n ⟨o, hb⟩ ?_
  have hl := hI.linv hto
  rcases stepDelete_ok hr with ⟨hpc, hd⟩ | hpc | ⟨r, hpc⟩
  · rcases hI.g2 n o hb with h | h | h
    · rw [hw] at h; cases h
    · rw [hd] at h; cases h
    · exact h
  · rw [hpc] at hl; simp only [LInv] at hl; exact hl.2.2.2.1
  · rw [hpc] at hl; simp only [LInv] at hl; exact hl.2.2

theorem SimF.step_delete (i : Input) (hI : Inv cf ops exts c) (hS : SimF c m)
    (t : Nat) {n cl rest} (hto : (c.th t).todo = .del n cl :: rest) :
    SimF (stepThread cf c t).1 (monSlot i m (stepThread cf c t).2) := by
  rw [stepThread_slot cf c t _ rest hto, monSlot_eq]
  have hnc : ∀ cl' sub base th tp, Op.del n cl ≠ .create cl' sub base th tp := by intro _ _ _ _ _ h; cases h
  by_cases hidle : (c.th t).pc = .idle
  · have hres : (stepOp cf c.st (.del n cl) (c.th t).pc).2.2 = none := by rw [hidle]; rfl
    have hb : (c.th t).pc.isIdle = true := by rw [hidle]; rfl
    rw [hres, hb, preMon_true]
    simp only [Option.map_none, monInv]
    have h0 : SimF (stepThread cf c t).1 m :=
      hS.keep_noncreate hI t m hto hnc (fun _ hp => absurd hidle hp) rfl rfl rfl rfl rfl rfl rfl
    have hfl : InFlight ((stepThread cf c t).1.th t) (.del n cl) :=
      (inflight_actor cf c t _ rest hto _).mpr ⟨hres, rfl⟩
    refine ⟨h0.claim, h0.fly1, h0.fly2, h0.born1, h0.born2, h0.held, h0.saw1, h0.saw2, ?_, h0.dead⟩
    intro t' n' hm
    unfold invDelete at hm
    simp only at hm
    split at hm
    · rename_i hany
      simp only [List.mem_cons] at hm
      rcases hm with e | hm
      · injection e with e1 e2; subst e1; subst e2
        obtain ⟨b, hb1, hb2⟩ := List.any_eq_true.mp hany
        simp only [Bool.and_eq_true, beq_iff_eq] at hb2
        exact ⟨⟨cl, hfl⟩, b, hb1, hb2.1⟩
      · exact h0.delv t' n' hm
    · exact h0.delv t' n' hm
  · have hb : (c.th t).pc.isIdle = false := by
      cases hpc : (c.th t).pc <;> first | rfl | exact absurd hpc hidle
    rw [hb, preMon_false]
    simp only [stepOp]
    cases hr : (stepDelete cf c.st n cl (c.th t).pc).2.2 with
    | none =>
      simp only [Option.map_none]
      exact hS.keep_noncreate hI t m hto hnc (fun _ _ => by simp only [stepOp]; exact hr) rfl rfl rfl rfl rfl rfl rfl
    | some r =>
      simp only [Option.map_some, monRet]
      -- first forget the finished thread's pending entries, then step, then account for a release
      have hS0 : SimF c { m with delValid := m.delValid.filter (·.1 != t) } :=
        ⟨hS.claim, hS.fly1, hS.fly2, hS.born1, hS.born2, hS.held, hS.saw1, hS.saw2,
         fun t' n' hm => hS.delv t' n' (List.mem_filter.mp hm).1, hS.dead⟩
      have h0 : SimF (stepThread cf c t).1 { m with delValid := m.delValid.filter (·.1 != t) } := by
        refine hS0.keep hI t _ rfl rfl rfl rfl rfl rfl rfl ?_ ?_ ?_ ?_
        · intro cl' sub base th tp
          constructor
          · intro h; exact absurd (inflight_head hto h).1.symm (hnc _ _ _ _ _)
          · intro h
            have := (inflight_actor cf c t _ rest hto _).mp h
            exact absurd this.2.symm (hnc _ _ _ _ _)
        · intro n' cl' hm _
          simp at hm
        · intro n' hid
          obtain ⟨cl', sub, base, th, tp, r', h⟩ := hI.createId_is_create hid
          rw [hto] at h; injection h with h _; cases h
        · intro n' o' hb' hbo; exact hI.newborn t n' hb' hbo
      unfold retDelete
      by_cases hrel : (r == Res.ok && m.delValid.contains (t, n)) = true
      · simp only [hrel, if_true]
        simp only [Bool.and_eq_true, beq_iff_eq] at hrel
        obtain ⟨hrok, hdv⟩ := hrel
        subst hrok
        obtain ⟨_, b, hb1, hb2⟩ := hS.delv t n (List.contains_iff_mem.mp hdv)
        obtain ⟨hbb, hbw, _⟩ := hS.born1 b hb1
        rw [hb2] at hbb hbw
        have hun : Unindexed (stepThread cf c t).1.st n := hI.delete_ok_unindexed hto hr hbb hbw
        refine ⟨h0.claim, h0.fly1, h0.fly2, h0.born1, h0.born2, ?_, h0.saw1, ?_, h0.delv, ?_⟩
        · intro n' o' hb'
          rcases h0.held n' o' hb' with h | h | h
          · exact Or.inl h
          · by_cases e : n' = n
            · subst e; exact Or.inr (Or.inr hun)
            · exact Or.inr (Or.inl (List.mem_filter.mpr ⟨h, by simpa using e⟩))
          · exact Or.inr (Or.inr h)
        · intro f hf n' hh
          exact h0.saw2 f hf n' (List.mem_filter.mp hh).1
        · intro n' hn'
          simp only [List.mem_cons] at hn'
          rcases hn' with e | hn'
          · subst e; exact ⟨hun, _, hI.born_mono t _ _ hbb⟩
          · exact h0.dead n' hn'
      · simp only [hrel, Bool.false_eq_true, if_false]
        exact ⟨h0.claim, h0.fly1, h0.fly2, h0.born1, h0.born2, h0.held, h0.saw1, h0.saw2, h0.delv, h0.dead⟩

end
end Tunnox.C19
namespace Tunnox.C19
open Gen

section
variable {cf : Config} {ops : List Op} {exts : List PM} {c : Cfg} {m : Mon}

theorem SimF.born1_step (hI : Inv cf ops exts c) (hS : SimF c m) (t : Nat) :
    ∀ b, b ∈ m.born → (stepThread cf c t).1.st.born b.id = some ⟨b.dom, b.client, b.thost, b.tport⟩ ∧
      (stepThread cf c t).1.st.written b.id = true ∧ ∀ t', ((stepThread cf c t).1.th t').pc.createId ≠ some b.id := by
  intro b hb
  obtain ⟨h1, h2, h3⟩ := hS.born1 b hb
  refine ⟨hI.born_mono t _ _ h1, hI.written_mono t _ h2, ?_⟩
  intro t' hid
  rcases hI.createId_step t t' b.id hid with h | h
  · exact h3 t' h
  · have := (hI.bornRange _ _ h1).2; omega

theorem SimF.dead_step (hI : Inv cf ops exts c) (hS : SimF c m) (t : Nat) :
    ∀ n, n ∈ m.dead → Unindexed (stepThread cf c t).1.st n ∧ ∃ o, (stepThread cf c t).1.st.born n = some o := by
  intro n h
  obtain ⟨h1, o, h2⟩ := hS.dead n h
  exact ⟨hI.unindexed_step t n ⟨o, h2⟩ h1, o, hI.born_mono t n o h2⟩

theorem SimF.born2_step (hI : Inv cf ops exts c) (hS : SimF c m) (t : Nat) :
    ∀ n o, (stepThread cf c t).1.st.born n = some o →
      (⟨n, o.dom, o.client, o.thost, o.tport⟩ : Born) ∈ m.born ∨
      (∃ t', ((stepThread cf c t).1.th t').pc.createId = some n) ∨
      ((c.th t).pc.createId = some n ∧ c.st.born n = some o) := by
  intro n o hb
  cases hbo : c.st.born n with
  | none => exact Or.inr (Or.inl ⟨t, hI.newborn t n hb hbo⟩)
  | some o' =>
    have := hI.born_mono t n o' hbo
    rw [hb] at this; injection this with this; subst this
    rcases hS.born2 n o hbo with h | ⟨t', h⟩
    · exact Or.inl h
    · by_cases e : t' = t
      · subst e; exact Or.inr (Or.inr ⟨h, rfl⟩)
      · exact Or.inr (Or.inl ⟨t', by rw [stepThread_others cf c t t' e]; exact h⟩)

theorem SimF.held_step (hI : Inv cf ops exts c) (hS : SimF c m) (t : Nat) :
    ∀ n o, (stepThread cf c t).1.st.born n = some o →
      (∃ t', ((stepThread cf c t).1.th t').pc.createId = some n) ∨ (n, o.dom) ∈ m.held ∨
      Unindexed (stepThread cf c t).1.st n ∨ ((c.th t).pc.createId = some n ∧ c.st.born n = some o) := by
  intro n o hb
  cases hbo : c.st.born n with
  | none => exact Or.inl ⟨t, hI.newborn t n hb hbo⟩
  | some o' =>
    have := hI.born_mono t n o' hbo
    rw [hb] at this; injection this with this; subst this
    rcases hS.held n o hbo with ⟨t', h⟩ | h | h
    · by_cases e : t' = t
      · subst e; exact Or.inr (Or.inr (Or.inr ⟨h, rfl⟩))
      · exact Or.inl ⟨t', by rw [stepThread_others cf c t t' e]; exact h⟩
    · exact Or.inr (Or.inl h)
    · exact Or.inr (Or.inr (Or.inl (hI.unindexed_step t n ⟨o, hbo⟩ h)))

/-- Pending valid deletes of threads other than the acting one. -/
theorem SimF.delv_other (hS : SimF c m) (t : Nat) :
    ∀ t' n, t' ≠ t → (t', n) ∈ m.delValid →
      (∃ cl, InFlight ((stepThread cf c t).1.th t') (.del n cl)) ∧ ∃ b, b ∈ m.born ∧ b.id = n := by
  intro t' n hne h
  rw [stepThread_others cf c t t' hne]
  exact hS.delv t' n h

theorem SimF.step_create (i : Input) (hI : Inv cf ops exts c) (hS : SimF c m)
    (t : Nat) {cl sub base th tp rest} (hto : (c.th t).todo = .create cl sub base th tp :: rest) :
    SimF (stepThread cf c t).1 (monSlot i m (stepThread cf c t).2) := by
  have hoth : ∀ t', t' ≠ t → (stepThread cf c t).1.th t' = c.th t' := fun t' h => stepThread_others cf c t t' h
  -- pending deletes never belong to the acting (creating) thread
  have hdv : ∀ t' n, (t', n) ∈ m.delValid →
      (∃ cl, InFlight ((stepThread cf c t).1.th t') (.del n cl)) ∧ ∃ b, b ∈ m.born ∧ b.id = n := by
    intro t' n h
    by_cases e : t' = t
    · subst e
      obtain ⟨⟨cl', hf⟩, _⟩ := hS.delv t' n h
      have := (inflight_head hto hf).1; cases this
    · exact hS.delv_other t t' n e h
  -- flight status of the acting thread before and after
  have hbefore : ∀ o', InFlight (c.th t) o' → o' = .create cl sub base th tp ∧ (c.th t).pc ≠ .idle :=
    fun o' h => inflight_head hto h
  have hafter := inflight_actor cf c t _ rest hto
  -- entries of the flying list that are not the acting thread's keep their thread
  have hfly_other : ∀ f, f ∈ m.flying → f.tid ≠ t → ∃ sub' base', f.dom = sub' ++ "." ++ base' ∧
      InFlight ((stepThread cf c t).1.th f.tid) (.create f.client sub' base' f.thost f.tport) := by
    intro f hf hne
    obtain ⟨s1, b1, h1, h2⟩ := hS.fly1 f hf
    exact ⟨s1, b1, h1, by rw [hoth _ hne]; exact h2⟩
  have hfly_self : ∀ f, f ∈ m.flying → f.tid = t → (c.th t).pc ≠ .idle ∧
      f = ⟨t, sub ++ "." ++ base, cl, th, tp⟩ := by
    intro f hf he
    obtain ⟨s1, b1, h1, h2⟩ := hS.fly1 f hf
    rw [he] at h2
    obtain ⟨e, hp⟩ := hbefore _ h2
    injection e with e1 e2 e3 e4 e5
    refine ⟨hp, ?_⟩
    cases f; simp only at he h1 e1 e2 e3 e4 e5 ⊢
    subst he; subst e1; subst e2; subst e3; subst e4; subst e5; rw [h1]
  rw [stepThread_slot cf c t _ rest hto, monSlot_eq]
  simp only [stepOp]
  by_cases hidle : (c.th t).pc = .idle
  · -- invocation (and possibly an immediate refusal of the base domain)
    have hb : (c.th t).pc.isIdle = true := by rw [hidle]; rfl
    rw [hb, preMon_true]
    have hnofly : ∀ f, f ∈ m.flying → f.tid ≠ t := fun f hf he => (hfly_self f hf he).1 hidle
    have hcidnone : (c.th t).pc.createId = none := by rw [hidle]; rfl
    have hb2 : ∀ n o, (stepThread cf c t).1.st.born n = some o →
        (⟨n, o.dom, o.client, o.thost, o.tport⟩ : Born) ∈ m.born ∨
        ∃ t', ((stepThread cf c t).1.th t').pc.createId = some n := by
      intro n o hbn
      rcases hS.born2_step hI t n o hbn with h | h | ⟨h, _⟩
      · exact Or.inl h
      · exact Or.inr h
      · rw [hcidnone] at h; cases h
    have hhd : ∀ n o, (stepThread cf c t).1.st.born n = some o →
        (∃ t', ((stepThread cf c t).1.th t').pc.createId = some n) ∨ (n, o.dom) ∈ m.held ∨
        Unindexed (stepThread cf c t).1.st n := by
      intro n o hbn
      rcases hS.held_step hI t n o hbn with h | h | h | ⟨h, _⟩
      · exact Or.inl h
      · exact Or.inr (Or.inl h)
      · exact Or.inr (Or.inr h)
      · rw [hcidnone] at h; cases h
    cases hr : (stepCreate cf c.st cl sub base th tp (c.th t).pc).2.2 with
    | none =>
      simp only [Option.map_none, monInv]
      have hfl : InFlight ((stepThread cf c t).1.th t) (.create cl sub base th tp) :=
        (hafter _).mpr ⟨by simp only [stepOp]; exact hr, rfl⟩
      unfold invCreate
      refine ⟨hS.claim, ?_, ?_, hS.born1_step hI t, hb2, hhd, ?_, ?_, hdv, hS.dead_step hI t⟩
      · intro f hf
        simp only [List.mem_cons] at hf
        rcases hf with e | hf
        · subst e; exact ⟨sub, base, rfl, hfl⟩
        · exact hfly_other f hf (hnofly f hf)
      · intro t' cl' sub' base' th' tp' hf
        simp only [List.mem_cons]
        by_cases e : t' = t
        · subst e
          have := ((hafter _).mp hf).2
          injection this with e1 e2 e3 e4 e5
          subst e1; subst e2; subst e3; subst e4; subst e5
          exact Or.inl rfl
        · rw [hoth _ e] at hf; exact Or.inr (hS.fly2 t' cl' sub' base' th' tp' hf)
      · intro f1 h1 f2 h2 hne hdom
        simp only [List.mem_cons] at h1 h2
        simp only [List.mem_append, List.mem_map, List.mem_filter, beq_iff_eq]
        rcases h1 with e1 | h1
        · subst e1
          rcases h2 with e2 | h2
          · subst e2; exact absurd rfl hne
          · left; left
            have : (m.held.any (fun x => x.2 == sub ++ "." ++ base) || m.flying.any (fun x => x.dom == sub ++ "." ++ base)) = true := by
              rw [Bool.or_eq_true]; right
              exact List.any_eq_true.mpr ⟨f2, h2, by simp only at hdom; simp [hdom]⟩
            simp [this]
        · rcases h2 with e2 | h2
          · subst e2
            left; right
            exact ⟨f1, ⟨h1, by simpa using hdom⟩, rfl⟩
          · right; exact hS.saw1 f1 h1 f2 h2 hne hdom
      · intro f hf n hh
        simp only [List.mem_cons] at hf
        simp only [List.mem_append, List.mem_map, List.mem_filter, beq_iff_eq]
        rcases hf with e | hf
        · subst e
          left; left
          have : (m.held.any (fun x => x.2 == sub ++ "." ++ base) || m.flying.any (fun x => x.dom == sub ++ "." ++ base)) = true := by
            rw [Bool.or_eq_true]; left
            exact List.any_eq_true.mpr ⟨(n, sub ++ "." ++ base), hh, by simp⟩
          simp [this]
        · right; exact hS.saw2 f hf n hh
    | some r =>
      -- only the base-domain refusal returns in the invocation slot
      have hrr : r = .err coreerrors.CodeInvalidParam := by
        rw [hidle] at hr
        simp only [stepCreate] at hr
        split at hr
        · cases hr
        · injection hr with hr; exact hr.symm
      subst hrr
      simp only [Option.map_some, monRet, monInv]
      have hnf : ∀ o', ¬ InFlight ((stepThread cf c t).1.th t) o' := by
        intro o' h
        have := ((hafter _).mp h).1
        simp only [stepOp] at this; rw [hr] at this; cases this
      unfold retCreate invCreate
      simp only [code_ne_1, beq_iff_eq, if_false]
      refine ⟨hS.claim, ?_, ?_, hS.born1_step hI t, hb2, hhd, ?_, ?_, hdv, hS.dead_step hI t⟩
      · intro f hf
        simp only [List.mem_filter, List.mem_cons, bne_iff_ne, ne_eq, decide_not, Bool.not_eq_true',
          decide_eq_false_iff_not] at hf
        rcases hf.1 with e | hf'
        · subst e; exact absurd rfl hf.2
        · exact hfly_other f hf' hf.2
      · intro t' cl' sub' base' th' tp' hf
        by_cases e : t' = t
        · subst e; exact absurd hf (hnf _)
        · rw [hoth _ e] at hf
          simp only [List.mem_filter, List.mem_cons, bne_iff_ne, ne_eq, decide_not, Bool.not_eq_true',
            decide_eq_false_iff_not]
          exact ⟨Or.inr (hS.fly2 t' cl' sub' base' th' tp' hf), e⟩
      · intro f1 h1 f2 h2 hne hdom
        simp only [List.mem_filter, List.mem_cons, bne_iff_ne, ne_eq, decide_not, Bool.not_eq_true',
          decide_eq_false_iff_not] at h1 h2
        rcases h1.1 with e | h1'
        · subst e; exact absurd rfl h1.2
        rcases h2.1 with e | h2'
        · subst e; exact absurd rfl h2.2
        simp only [List.mem_filter, List.mem_append, bne_iff_ne, ne_eq, decide_not, Bool.not_eq_true',
          decide_eq_false_iff_not]
        exact ⟨Or.inr (hS.saw1 f1 h1' f2 h2' hne hdom), h1.2⟩
      · intro f hf n hh
        simp only [List.mem_filter, List.mem_cons, bne_iff_ne, ne_eq, decide_not, Bool.not_eq_true',
          decide_eq_false_iff_not] at hf
        rcases hf.1 with e | hf'
        · subst e; exact absurd rfl hf.2
        simp only [List.mem_filter, List.mem_append, bne_iff_ne, ne_eq, decide_not, Bool.not_eq_true',
          decide_eq_false_iff_not]
        exact ⟨Or.inr (hS.saw2 f hf' n hh), hf.2⟩
  · -- a later step of the create
    have hb : (c.th t).pc.isIdle = false := by
      cases hpc : (c.th t).pc <;> first | rfl | exact absurd hpc hidle
    rw [hb, preMon_false]
    have hflt : InFlight (c.th t) (.create cl sub base th tp) := ⟨rest, hto, hidle⟩
    have hft : (⟨t, sub ++ "." ++ base, cl, th, tp⟩ : Fly) ∈ m.flying := hS.fly2 t cl sub base th tp hflt
    cases hr : (stepCreate cf c.st cl sub base th tp (c.th t).pc).2.2 with
    | none =>
      simp only [Option.map_none]
      have hfl : InFlight ((stepThread cf c t).1.th t) (.create cl sub base th tp) :=
        (hafter _).mpr ⟨by simp only [stepOp]; exact hr, rfl⟩
      have hkeep : ∀ n, (c.th t).pc.createId = some n → ((stepThread cf c t).1.th t).pc.createId = some n :=
        fun n h => createId_actor_keep cf c t _ rest hto n h (by simp only [stepOp]; exact hr)
      refine ⟨hS.claim, ?_, ?_, hS.born1_step hI t, ?_, ?_, hS.saw1, hS.saw2, hdv, hS.dead_step hI t⟩
      · intro f hf
        by_cases e : f.tid = t
        · obtain ⟨_, e'⟩ := hfly_self f hf e
          subst e'; exact ⟨sub, base, rfl, hfl⟩
        · exact hfly_other f hf e
      · intro t' cl' sub' base' th' tp' hf
        by_cases e : t' = t
        · subst e
          have := ((hafter _).mp hf).2
          injection this with e1 e2 e3 e4 e5
          subst e1; subst e2; subst e3; subst e4; subst e5
          exact hft
        · rw [hoth _ e] at hf; exact hS.fly2 t' cl' sub' base' th' tp' hf
      · intro n o hbn
        rcases hS.born2_step hI t n o hbn with h | h | ⟨h, _⟩
        · exact Or.inl h
        · exact Or.inr h
        · exact Or.inr ⟨t, hkeep n h⟩
      · intro n o hbn
        rcases hS.held_step hI t n o hbn with h | h | h | ⟨h, _⟩
        · exact Or.inl h
        · exact Or.inr (Or.inl h)
        · exact Or.inr (Or.inr h)
        · exact Or.inl ⟨t, hkeep n h⟩
    | some r =>
      simp only [Option.map_some, monRet]
      have hnf : ∀ o', ¬ InFlight ((stepThread cf c t).1.th t) o' := by
        intro o' h
        have := ((hafter _).mp h).1
        simp only [stepOp] at this; rw [hr] at this; cases this
      have hself : (stepThread cf c t).1.th t = ⟨rest, .idle⟩ := by
        rw [stepThread_self cf c t _ rest hto]; simp only [stepOp, hr]
      -- the filtered flying list and sawHolder
      have hfl1 : ∀ f, f ∈ m.flying.filter (·.tid != t) → ∃ sub' base', f.dom = sub' ++ "." ++ base' ∧
          InFlight ((stepThread cf c t).1.th f.tid) (.create f.client sub' base' f.thost f.tport) := by
        intro f hf
        simp only [List.mem_filter, bne_iff_ne, ne_eq, decide_not, Bool.not_eq_true', decide_eq_false_iff_not] at hf
        exact hfly_other f hf.1 hf.2
      have hfl2 : ∀ t' cl' sub' base' th' tp', InFlight ((stepThread cf c t).1.th t') (.create cl' sub' base' th' tp') →
          (⟨t', sub' ++ "." ++ base', cl', th', tp'⟩ : Fly) ∈ m.flying.filter (·.tid != t) := by
        intro t' cl' sub' base' th' tp' hf
        by_cases e : t' = t
        · subst e; exact absurd hf (hnf _)
        · rw [hoth _ e] at hf
          simp only [List.mem_filter, bne_iff_ne, ne_eq, decide_not, Bool.not_eq_true', decide_eq_false_iff_not]
          exact ⟨hS.fly2 t' cl' sub' base' th' tp' hf, e⟩
      have hsw1 : ∀ f1, f1 ∈ m.flying.filter (·.tid != t) → ∀ f2, f2 ∈ m.flying.filter (·.tid != t) →
          f1.tid ≠ f2.tid → f1.dom = f2.dom → f1.tid ∈ m.sawHolder.filter (· != t) := by
        intro f1 h1 f2 h2 hne hdom
        simp only [List.mem_filter, bne_iff_ne, ne_eq, decide_not, Bool.not_eq_true', decide_eq_false_iff_not] at h1 h2 ⊢
        exact ⟨hS.saw1 f1 h1.1 f2 h2.1 hne hdom, h1.2⟩
      have hsw2 : ∀ f, f ∈ m.flying.filter (·.tid != t) → ∀ n, (n, f.dom) ∈ m.held →
          f.tid ∈ m.sawHolder.filter (· != t) := by
        intro f hf n hh
        simp only [List.mem_filter, bne_iff_ne, ne_eq, decide_not, Bool.not_eq_true', decide_eq_false_iff_not] at hf ⊢
        exact ⟨hS.saw2 f hf.1 n hh, hf.2⟩
      rcases stepCreate_res hr with ⟨n0, e⟩ | ⟨code, e⟩
      · -- ok: the mapping is born for the monitor, and held
        subst e
        have hpc := stepCreate_okId hr
        have hl := hI.linv hto
        rw [hpc] at hl; simp only [LInv] at hl
        have hcid : (c.th t).pc.createId = some n0 := by rw [hpc]; rfl
        have hFields : ∀ (mm : Mon), mm.claim = m.claim → mm.flying = m.flying.filter (·.tid != t) →
            mm.born = ⟨n0, sub ++ "." ++ base, cl, th, tp⟩ :: m.born → mm.held = (n0, sub ++ "." ++ base) :: m.held →
            mm.sawHolder = m.sawHolder.filter (· != t) → mm.delValid = m.delValid → mm.dead = m.dead →
            SimF (stepThread cf c t).1 mm := by
          intro mm q1 q2 q3 q4 q5 q6 q7
          refine ⟨by rw [q1]; exact hS.claim, by rw [q2]; exact hfl1, by rw [q2]; exact hfl2, ?_, ?_, ?_,
            by rw [q2, q5]; exact hsw1, ?_, ?_, by rw [q7]; exact hS.dead_step hI t⟩
          · intro b hbm
            rw [q3] at hbm
            simp only [List.mem_cons] at hbm
            rcases hbm with e | hbm
            · subst e
              refine ⟨hI.born_mono t _ _ hl.1, hI.written_mono t _ hl.2.2, ?_⟩
              intro t' hid
              by_cases e : t' = t
              · subst e; rw [hself] at hid; simp [PC.createId] at hid
              · rw [hoth _ e] at hid
                exact hI.uniqId t t' n0 (fun e' => e e'.symm) hcid hid
            · exact hS.born1_step hI t b hbm
          · intro n o hbn
            rw [q3]
            rcases hS.born2_step hI t n o hbn with h | h | ⟨h, hbo⟩
            · exact Or.inl (List.mem_cons_of_mem _ h)
            · exact Or.inr h
            · rw [hcid] at h; injection h with h; subst h
              rw [hl.1] at hbo; injection hbo with hbo; subst hbo
              exact Or.inl List.mem_cons_self
          · intro n o hbn
            rw [q4]
            rcases hS.held_step hI t n o hbn with h | h | h | ⟨h, hbo⟩
            · exact Or.inl h
            · exact Or.inr (Or.inl (List.mem_cons_of_mem _ h))
            · exact Or.inr (Or.inr h)
            · rw [hcid] at h; injection h with h; subst h
              rw [hl.1] at hbo; injection hbo with hbo; subst hbo
              exact Or.inr (Or.inl List.mem_cons_self)
          · intro f hf n hh
            rw [q2] at hf; rw [q4] at hh; rw [q5]
            simp only [List.mem_cons] at hh
            rcases hh with e | hh
            · injection e with e1 e2
              have hf' := hf
              simp only [List.mem_filter, bne_iff_ne, ne_eq, decide_not, Bool.not_eq_true', decide_eq_false_iff_not] at hf' ⊢
              exact ⟨hS.saw1 f hf'.1 _ hft hf'.2 e2, hf'.2⟩
            · exact hsw2 f hf n hh
          · intro t' n hm
            rw [q6] at hm; rw [q3]
            obtain ⟨h1, b, h2, h3⟩ := hdv t' n hm
            exact ⟨h1, b, List.mem_cons_of_mem _ h2, h3⟩
        unfold retCreate
        simp only
        split <;> exact hFields _ rfl rfl rfl rfl rfl rfl rfl
      · -- refused
        subst e
        have hnocid : ∀ n o, (c.th t).pc.createId = some n → c.st.born n = some o → False := by
          intro n o h1 h2
          rcases stepCreate_err_pc hr with h | ⟨k, h⟩
          · rw [h] at h1; cases h1
          · have hl := hI.linv hto
            rw [h] at hl h1; simp only [LInv] at hl
            simp only [PC.createId, Option.some.injEq] at h1; subst h1
            rw [hl.2.2] at h2; cases h2
        have hFields : ∀ (mm : Mon), mm.claim = true → mm.flying = m.flying.filter (·.tid != t) →
            mm.born = m.born → mm.held = m.held →
            mm.sawHolder = m.sawHolder.filter (· != t) → mm.delValid = m.delValid → mm.dead = m.dead →
            SimF (stepThread cf c t).1 mm := by
          intro mm q1 q2 q3 q4 q5 q6 q7
          refine ⟨q1, by rw [q2]; exact hfl1, by rw [q2]; exact hfl2, by rw [q3]; exact hS.born1_step hI t, ?_, ?_,
            by rw [q2, q5]; exact hsw1, by rw [q2, q4, q5]; exact hsw2, by rw [q6, q3]; exact hdv,
            by rw [q7]; exact hS.dead_step hI t⟩
          · intro n o hbn
            rw [q3]
            rcases hS.born2_step hI t n o hbn with h | h | ⟨h, hbo⟩
            · exact Or.inl h
            · exact Or.inr h
            · exact (hnocid n o h hbo).elim
          · intro n o hbn
            rw [q4]
            rcases hS.held_step hI t n o hbn with h | h | h | ⟨h, hbo⟩
            · exact Or.inl h
            · exact Or.inr (Or.inl h)
            · exact Or.inr (Or.inr h)
            · exact (hnocid n o h hbo).elim
        unfold retCreate
        simp only
        by_cases hcode : code = coreerrors.CodeAlreadyExists
        · subst hcode
          simp only [beq_self_eq_true, if_true]
          refine hFields _ ?_ rfl rfl rfl rfl rfl rfl
          simp only
          rw [hS.claim, Bool.true_and, List.contains_iff_mem]
          -- the index entry that refused the claim belongs to a possible holder
          obtain ⟨n, k, hpc, hidx⟩ := stepCreate_exists hr
          obtain ⟨o, ho, hod⟩ := hI.c6 _ _ hidx
          rcases hS.held k o ho with ⟨t', h⟩ | h | h
          · have hne : t ≠ t' := by
              intro e; subst e
              exact hnocid k o h ho
            have := hS.creator_fly hI h ho
            exact hS.saw1 _ hft _ this hne (by simp only; exact hod.symm)
          · rw [hod] at h; exact hS.saw2 _ hft k h
          · exact absurd hidx (h _)
        · have : (code == coreerrors.CodeAlreadyExists) = false := by simp [hcode]
          simp only [this, Bool.false_eq_true, if_false]
          exact hFields _ hS.claim rfl rfl rfl rfl rfl rfl

end
end Tunnox.C19
namespace Tunnox.C19

/-- **One joint slot keeps the `claim` simulation** (both variants). -/
theorem SimF.step {cf : Config} {ops : List Op} {exts : List PM} {c : Cfg} {m : Mon} (i : Input)
    (hI : Inv cf ops exts c) (hS : SimF c m) (t : Nat) :
    SimF (stepThread cf c t).1 (monSlot i m (stepThread cf c t).2) := by
  cases hto : (c.th t).todo with
  | nil => rw [stepThread_nil cf c t hto]; exact hS
  | cons o rest =>
    cases o with
    | create cl sub base th tp => exact hS.step_create i hI t hto
    | del n cl => exact hS.step_delete i hI t hto
    | upd n st e th tp => exact hS.step_update i hI t hto
    | look host => exact hS.step_lookup i hI t hto

end Tunnox.C19
