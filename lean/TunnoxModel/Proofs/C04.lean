import TunnoxModel.Spec.C04
/-! Helper lemmas for C04: what a successful credential check establishes. -/
namespace Tunnox.C04
open Gen Tunnox.PredPrelude

theorem getPortMapping_id {w : World} {i : String} {m : PortMapping}
    (h : w.getPortMapping i = some m) : m.ID = i := by
  unfold World.getPortMapping at h
  have := List.find?_some h
  simpa using this

/-- The translated `IsValid` implies the property's own "not revoked, not expired, active". -/
theorem isValid_usable {now : Nat} {m : PortMapping}
    (h : models.PortMapping.IsValid now m = true) : mappingUsable now m = true := by
  unfold models.PortMapping.IsValid models.PortMapping.IsExpired at h
  unfold mappingUsable
  cases hr : m.IsRevoked <;> simp [hr] at h ⊢
  cases he : m.ExpiresAt with
  | none => simp [he] at h ⊢; exact h
  | some t =>
    simp [he, timeAfter, TimeLike.toTime] at h ⊢
    exact ⟨by omega, h.2⟩

/-- The property's "usable" implies the translated `IsValid` (the two say the same). -/
theorem usable_isValid {now : Nat} {m : PortMapping}
    (h : mappingUsable now m = true) : models.PortMapping.IsValid now m = true := by
  unfold mappingUsable at h
  unfold models.PortMapping.IsValid models.PortMapping.IsExpired
  cases hr : m.IsRevoked <;> simp [hr] at h ⊢
  cases he : m.ExpiresAt with
  | none => simp [he] at h ⊢; exact h
  | some t =>
    simp [he, timeAfter, TimeLike.toTime] at h ⊢
    exact ⟨by omega, h.2⟩

/-- What the caller of `HandleTunnelOpen` may rely on after it returned nil. -/
structure Authorised (w : World) (cid : Nat) (req : Req) (m : PortMapping) : Prop where
  found : w.getPortMapping req.MappingID = some m
  cid_ne : cid ≠ 0
  usable : mappingUsable w.now m = true
  cred : (req.SecretKey = "" ∧ cid = m.ListenClientID) ∨
         (req.SecretKey ≠ "" ∧ req.SecretKey = m.SecretKey ∧ (cid = m.ListenClientID ∨ cid = m.TargetClientID))

theorem auth_sound {w : World} {cid : Nat} {req : Req}
    (h : handleTunnelOpenAuth w cid req = true) : ∃ m, Authorised w cid req m := by
  unfold handleTunnelOpenAuth at h
  by_cases ht : req.ResumeToken = ""
  · by_cases hc : cid = 0
    · simp [ht, hc] at h
    · by_cases hs : req.SecretKey = ""
      · by_cases hm : req.MappingID = ""
        · simp [ht, hc, hs, hm] at h
        · simp [ht, hc, hs, hm, validateMapping] at h
          cases hg : w.getPortMapping req.MappingID with
          | none => simp [hg] at h
          | some m =>
            simp [hg, models.PortMapping.CanBeAccessedBy] at h
            exact ⟨m, hg, hc, isValid_usable h.1, Or.inl ⟨hs, h.2.symm⟩⟩
      · simp [ht, hc, hs] at h
        cases hg : w.getPortMapping req.MappingID with
        | none => simp [hg] at h
        | some m =>
          simp [hg, validateWithSecretKey] at h
          exact ⟨m, hg, hc, isValid_usable h.1, Or.inr ⟨hs, h.2.1.symm, h.2.2.imp Eq.symm Eq.symm⟩⟩
  · simp [ht, resumeTunnel] at h

/-- A request that is not refused passed every check of the dispatcher, and the tunnel it addressed at arrival
belongs to the mapping it presented credentials for. -/
theorem passed_of_not_refused_dyn {w : World} {id : ConnIdent} {req : Req} {ts : TunnelState} {late : Late}
    (h : openTunnelDyn w id req ts late ≠ refuse) :
    ∃ cc, findControlConnection id = some cc ∧ handleTunnelOpenAuth w cc.clientID req = true ∧
      tunnelMappingID req ts = req.MappingID := by
  unfold openTunnelDyn at h
  by_cases hw : req.wellFormed = true
  · cases hf : findControlConnection id with
    | none => simp [hw, hf] at h
    | some cc =>
      by_cases ha : handleTunnelOpenAuth w cc.clientID req = true
      · refine ⟨cc, rfl, ha, ?_⟩
        cases ts with
        | none => rfl
        | bridge m sv =>
          by_cases hm : m = req.MappingID
          · simpa [tunnelMappingID] using hm
          · simp [hw, hf, ha, hm] at h
        | remote m n =>
          by_cases hm : m = req.MappingID
          · simpa [tunnelMappingID] using hm
          · simp [hw, hf, ha, hm] at h
      · simp [hw, hf, ha] at h
  · simp [hw] at h

theorem passed_of_not_refused {w : World} {id : ConnIdent} {req : Req} {ts : TunnelState}
    (h : openTunnel w id req ts ≠ refuse) :
    ∃ cc, findControlConnection id = some cc ∧ handleTunnelOpenAuth w cc.clientID req = true ∧
      tunnelMappingID req ts = req.MappingID :=
  passed_of_not_refused_dyn (late := .none) h

/-- The client id of the control connection the dispatcher works with, when not 0, is the client the connection
is authenticated as. -/
theorem proven_of_control {id : ConnIdent} {cc : ClientConn} (hwf : identWF id = true)
    (hf : findControlConnection id = some cc) (hne : cc.clientID ≠ 0) : provenClient id = cc.clientID := by
  unfold findControlConnection at hf
  unfold provenClient
  by_cases hc : id.hasControl = true
  · simp [hc] at hf
    subst hf
    unfold identWF at hwf
    simp at hne
    simp [hne] at hwf
    simp [hc, hwf]
  · by_cases ht : id.tempOK = true
    · simp [hc, ht] at hf
      subst hf
      simp [hc, ht]
    · simp [hc, ht] at hf

/-- On the polling branch an attachment (or traffic) presupposes that the tunnel that appeared belongs to the
mapping of the request. -/
theorem late_attach_mapping {w : World} {req : Req} {m n : String} {b : Bool}
    (h : (handleTargetBridge w req (.route m n b)).attach ≠ .none) : m = req.MappingID := by
  unfold handleTargetBridge processCrossNodeForwardLate at h
  by_cases hm : m = req.MappingID
  · exact hm
  · simp [hm] at h

/-- Same for a bridge registered in the window before `handleTargetBridge`'s own look-up. -/
theorem window_attach_mapping {w : World} {req : Req} {m : String}
    (h : (handleTargetBridge w req (.window m)).attach ≠ .none) : m = req.MappingID := by
  unfold handleTargetBridge at h
  by_cases hm : m = req.MappingID
  · exact hm
  · simp [hm] at h

theorem window_attach_not_source (w : World) (req : Req) (m : String) :
    (handleTargetBridge w req (.window m)).attach ≠ .source := by
  simp only [handleTargetBridge]
  by_cases hm : m = req.MappingID <;> simp [hm]

theorem handleSourceBridge_attach (late : Late) :
    (handleSourceBridge late).attach = .source ∨ (handleSourceBridge late).attach = .none := by
  cases late <;> simp [handleSourceBridge]

/-- With nothing at arrival the dispatcher yields: a refusal, the source-side outcome, the target-side one, or —
`.early` — the target of the bridge registered between its two look-ups. -/
theorem dyn_none_cases (w : World) (id : ConnIdent) (req : Req) (late : Late) :
    openTunnelDyn w id req .none late = refuse ∨
    openTunnelDyn w id req .none late = handleSourceBridge late ∨
    openTunnelDyn w id req .none late = handleTargetBridge w req late ∨
    (∃ m, late = .early m ∧ m = req.MappingID ∧ openTunnelDyn w id req .none late = ⟨.ok, .target, .switch⟩) := by
  unfold openTunnelDyn
  by_cases hw : req.wellFormed = true
  · cases hf : findControlConnection id with
    | none => left; simp [hw]
    | some cc =>
      by_cases ha : handleTunnelOpenAuth w cc.clientID req = true
      · cases late with
        | early m =>
          by_cases hm : m = req.MappingID
          · right; right; right; exact ⟨m, rfl, hm, by simp [hw, ha, hm]⟩
          · left; simp [hw, ha, hm]
        | none =>
          by_cases hs : isSourceClient w id cc req = true
          · right; left; simp [hw, ha, hs]
          · right; right; left; simp [hw, ha, hs]
        | noRouting =>
          by_cases hs : isSourceClient w id cc req = true
          · right; left; simp [hw, ha, hs]
          · right; right; left; simp [hw, ha, hs]
        | route m n b =>
          by_cases hs : isSourceClient w id cc req = true
          · right; left; simp [hw, ha, hs]
          · right; right; left; simp [hw, ha, hs]
        | window m =>
          by_cases hs : isSourceClient w id cc req = true
          · right; left; simp [hw, ha, hs]
          · right; right; left; simp [hw, ha, hs]
      · left; simp [hw, ha]
  · left; simp [hw]

theorem handleTargetBridge_acked (w : World) (req : Req) (late : Late)
    (h : (handleTargetBridge w req late).attach ≠ .none) : (handleTargetBridge w req late).ack = .ok := by
  cases late with
  | none => simp [handleTargetBridge]
  | noRouting => simp [handleTargetBridge]
  | early m => simp [handleTargetBridge]
  | window m => simp only [handleTargetBridge]; split <;> rfl
  | route m n b =>
    simp only [handleTargetBridge, processCrossNodeForwardLate, handleLocalBridgeWait]
    split
    · rfl
    · split
      · split <;> rfl
      · split <;> rfl

theorem handleSourceBridge_acked (late : Late) : (handleSourceBridge late).ack = .ok := by
  cases late <;> rfl

theorem handleExistingBridge_acked (w : World) (id : ConnIdent) (req : Req) (sv : Bool) : (handleExistingBridge w id req sv).ack = .ok := rfl

theorem processCrossNodeForward_acked (w : World) (node : String)
    (h : (processCrossNodeForward w node).attach ≠ .none) : (processCrossNodeForward w node).ack = .ok := by
  unfold processCrossNodeForward at h ⊢
  split
  · simp_all
  · split <;> simp_all

theorem dyn_bridge_cases (w : World) (id : ConnIdent) (req : Req) (m : String) (sv : Bool) (late : Late) :
    openTunnelDyn w id req (.bridge m sv) late = refuse ∨
    openTunnelDyn w id req (.bridge m sv) late = handleExistingBridge w id req sv := by
  unfold openTunnelDyn
  by_cases hw : req.wellFormed = true
  · cases hf : findControlConnection id with
    | none => left; simp [hw]
    | some cc =>
      by_cases ha : handleTunnelOpenAuth w cc.clientID req = true
      · by_cases hm : m = req.MappingID
        · right; simp [hw, ha, hm]
        · left; simp [hw, ha, hm]
      · left; simp [hw, ha]
  · left; simp [hw]

theorem dyn_remote_cases (w : World) (id : ConnIdent) (req : Req) (m n : String) (late : Late) :
    openTunnelDyn w id req (.remote m n) late = refuse ∨
    openTunnelDyn w id req (.remote m n) late = processCrossNodeForward w n := by
  unfold openTunnelDyn
  by_cases hw : req.wellFormed = true
  · cases hf : findControlConnection id with
    | none => left; simp [hw]
    | some cc =>
      by_cases ha : handleTunnelOpenAuth w cc.clientID req = true
      · by_cases hm : m = req.MappingID
        · right; simp [hw, ha, hm]
        · left; simp [hw, ha, hm]
      · left; simp [hw, ha]
  · left; simp [hw]

/-- Whatever the dispatcher attaches, it has acknowledged with success. -/
theorem attach_acked (w : World) (id : ConnIdent) (req : Req) (ts : TunnelState) (late : Late)
    (h : (openTunnelDyn w id req ts late).attach ≠ .none) : (openTunnelDyn w id req ts late).ack = .ok := by
  cases ts with
  | none =>
    rcases dyn_none_cases w id req late with e | e | e | ⟨m, _, _, e⟩
    · rw [e] at h; exact absurd rfl h
    · rw [e]; exact handleSourceBridge_acked late
    · rw [e] at h ⊢; exact handleTargetBridge_acked w req late h
    · rw [e]
  | bridge m sv =>
    rcases dyn_bridge_cases w id req m sv late with e | e
    · rw [e] at h; exact absurd rfl h
    · rw [e]; rfl
  | remote m n =>
    rcases dyn_remote_cases w id req m n late with e | e
    · rw [e] at h; exact absurd rfl h
    · rw [e] at h ⊢; exact processCrossNodeForward_acked w n h

/-- Passing the checks means being entitled in the sense of the property. -/
theorem entitled_of_passed {w : World} {id : ConnIdent} {req : Req} {ts : TunnelState} {cc : ClientConn}
    (hwf : identWF id = true) (hf : findControlConnection id = some cc)
    (ha : handleTunnelOpenAuth w cc.clientID req = true)
    (hm : tunnelMappingID req ts = req.MappingID) : entitledB w id req ts = true := by
  obtain ⟨m, hfound, hne, husable, hcred⟩ := auth_sound ha
  have hp : provenClient id = cc.clientID := proven_of_control hwf hf hne
  have hid : m.ID = req.MappingID := getPortMapping_id hfound
  unfold entitledB
  rw [hm, hfound, hp]
  have hne' : (cc.clientID != 0) = true := by simp [hne]
  simp only [husable, hne', Bool.true_and]
  rcases hcred with ⟨_, hl⟩ | ⟨hs, hk, hlt⟩
  · have h1 : (req.MappingID == m.ID) = true := by simp [hid]
    have h2 : (cc.clientID == m.ListenClientID) = true := by simp [hl]
    rw [h1, h2]; rfl
  · have h1 : (req.SecretKey != "") = true := by simp [hs]
    have h2 : (req.SecretKey == m.SecretKey) = true := by simp [hk]
    have h3 : (cc.clientID == m.ListenClientID || cc.clientID == m.TargetClientID) = true := by
      rcases hlt with hl | htg
      · simp [hl]
      · simp [htg]
    rw [h1, h2, h3]; simp

/-- No update un-revokes: it writes back the revocation flag it read, or sets it. -/
theorem Update.apply_revoked (u : Update) (m : PortMapping) (h : m.IsRevoked = true) :
    (u.apply m).IsRevoked = true := by
  cases u <;> simp [Update.apply, h]

theorem Update.apply_id (u : Update) (m : PortMapping) : (u.apply m).ID = m.ID := by
  cases u <;> simp [Update.apply]

theorem runSerial_revoked (us : List Update) (m : PortMapping) (h : m.IsRevoked = true) :
    (runSerial us m).IsRevoked = true := by
  induction us generalizing m with
  | nil => simpa [runSerial] using h
  | cons u us ih => simpa [runSerial, List.foldl] using ih (u.apply m) (u.apply_revoked m h)

theorem runSerial_id (us : List Update) (m : PortMapping) : (runSerial us m).ID = m.ID := by
  induction us generalizing m with
  | nil => rfl
  | cons u us ih => simpa [runSerial, List.foldl, Update.apply_id] using ih (u.apply m)

theorem runSerial_append (a b : List Update) (m : PortMapping) :
    runSerial (a ++ b) m = runSerial b (runSerial a m) := by
  simp [runSerial, List.foldl_append]

theorem revoked_unusable {now : Nat} {m : PortMapping} (h : m.IsRevoked = true) : mappingUsable now m = false := by
  simp [mappingUsable, h]

theorem decodeTargetReady_noBar (n : List Char) (h : ∀ c ∈ n, c ≠ '|') : decodeTargetReady n = none := by
  induction n with
  | nil => rfl
  | cons c cs ih =>
    have hc : c ≠ '|' := h c (by simp)
    have := ih (fun x hx => h x (by simp [hx]))
    simp [decodeTargetReady, this, hc]

/-- The wire carries the tunnel id verbatim: whatever characters it is made of (blanks, line breaks, `|`). -/
theorem decode_encode_targetReady (t n : List Char) (h : ∀ c ∈ n, c ≠ '|') :
    decodeTargetReady (encodeTargetReady t n) = some (t, n) := by
  unfold encodeTargetReady
  induction t with
  | nil => simp [decodeTargetReady, decodeTargetReady_noBar n h]
  | cons c cs ih => simp [decodeTargetReady, ih]

end Tunnox.C04
