import TunnoxModel.Model.C19Reg
import TunnoxModel.Proofs.C19Inv
/-! C19 — the registry never has two owners of one name, in any interleaving of Register / Unregister /
UnregisterByMappingID / Rebuild / LookupByHost / IsSubdomainAvailable. -/
namespace Tunnox.C19
open Gen

/-- the lock step at which a removal acts -/
def removalPC : ROp → RPC
  | .unregister _ => .uLock
  | .unregId _ => .iLock
  | .rebuild _ => .bLock
  | _ => .idle

structure RSim (c : RCfg) (m : RMon) : Prop where
  ok : m.ok = true
  /-- every certain owner is what the registry holds under its name -/
  own : ∀ d x, (d, x) ∈ m.owners → ∃ pm, c.reg d = some pm ∧ pm.ID = x
  /-- a removal that is about to act is known to the monitor … -/
  fly : ∀ t o b rest, (c.th t).todo = o :: rest → blockerOf o = some b → (c.th t).pc = removalPC o → (t, b) ∈ m.blockers
  /-- … and while it is in flight nothing it may take away is certainly owned -/
  noOwn : ∀ t b, (t, b) ∈ m.blockers → ∀ x, x ∈ m.owners → b.blocks x = false
  /-- the split-variant program counters are never reached -/
  pcs : ∀ t, (c.th t).pc ≠ .rCheck ∧ (c.th t).pc ≠ .rStore

theorem rstep_nil (cf : RConfig) (c : RCfg) (t : Nat) (h : (c.th t).todo = []) :
    stepRThread cf c t = (c, ⟨t, false, none, none⟩) := by
  unfold stepRThread; simp only [h]

theorem rstep_cons (cf : RConfig) (c : RCfg) (t : Nat) (o : ROp) (rest : List ROp) (h : (c.th t).todo = o :: rest) :
    stepRThread cf c t =
      ( ⟨(stepROp cf c.reg o (c.th t).pc).1,
         upd c.th t (match (stepROp cf c.reg o (c.th t).pc).2.2 with
                     | some _ => ⟨rest, .idle⟩
                     | none => ⟨o :: rest, (stepROp cf c.reg o (c.th t).pc).2.1⟩)⟩,
        ⟨t, true, if (c.th t).pc.isIdle then some o else none, ((stepROp cf c.reg o (c.th t).pc).2.2).map (fun r => (o, r))⟩ ) := by
  unfold stepRThread; simp only [h]; rfl

/-- Assembling the post-state when registry, acting thread and monitor are given explicitly. -/
theorem RSim.mk' {c : RCfg} {m : RMon} (hS : RSim c m) (t : Nat) (reg' : String → Option PM) (nt : RThread) (m' : RMon)
    (hok : m'.ok = true)
    (hown : ∀ d x, (d, x) ∈ m'.owners → ∃ pm, reg' d = some pm ∧ pm.ID = x)
    (hflyT : ∀ o b rest, nt.todo = o :: rest → blockerOf o = some b → nt.pc = removalPC o → (t, b) ∈ m'.blockers)
    (hflyO : ∀ t' b, t' ≠ t → (t', b) ∈ m.blockers → (t', b) ∈ m'.blockers)
    (hno : ∀ t' b, (t', b) ∈ m'.blockers → ∀ x, x ∈ m'.owners → b.blocks x = false)
    (hpc : nt.pc ≠ .rCheck ∧ nt.pc ≠ .rStore) :
    RSim ⟨reg', upd c.th t nt⟩ m' := by
  refine ⟨hok, hown, ?_, hno, ?_⟩
  · intro t' o b rest h1 h2 h3
    by_cases e : t' = t
    · subst e; simp only [upd_same] at h1 h3; exact hflyT o b rest h1 h2 h3
    · simp only [upd_other _ _ _ _ e] at h1 h3
      exact hflyO t' b e (hS.fly t' o b rest h1 h2 h3)
  · intro t'
    by_cases e : t' = t
    · subst e; simp only [upd_same]; exact hpc
    · simp only [upd_other _ _ _ _ e]; exact hS.pcs t'

/-- A slot that changes neither the registry nor the monitor and leaves the thread at no removal step. -/
theorem RSim.same {c : RCfg} {m : RMon} (hS : RSim c m) (t : Nat) (nt : RThread)
    (hnu : ∀ o b rest, nt.todo = o :: rest → blockerOf o = some b → nt.pc = removalPC o → (t, b) ∈ m.blockers)
    (hpc : nt.pc ≠ .rCheck ∧ nt.pc ≠ .rStore) : RSim ⟨c.reg, upd c.th t nt⟩ m :=
  hS.mk' t c.reg nt m hS.ok hS.own hnu (fun _ _ _ h => h) hS.noOwn hpc

/-- After a step the acting thread is idle (returned) or in a non-removal position: no `fly` obligation. -/
theorem no_removal_idle (rest : List ROp) (m : RMon) (t : Nat) :
    ∀ o b rest', (⟨rest, .idle⟩ : RThread).todo = o :: rest' → blockerOf o = some b → (⟨rest, .idle⟩ : RThread).pc = removalPC o →
      (t, b) ∈ m.blockers := by
  intro o b rest' _ hb hp
  cases o <;> simp [blockerOf, removalPC] at hb hp

/-- Invocation and return of a removal (Unregister / UnregisterByMappingID / Rebuild), given what its lock step does. -/
theorem RSim.removal {c : RCfg} {m : RMon} (hS : RSim c m) (cf : RConfig) (t : Nat) (o : ROp) (b : Blocker) (rest : List ROp)
    (hto : (c.th t).todo = o :: rest) (hb : blockerOf o = some b)
    (hidle : stepROp cf c.reg o .idle = (c.reg, removalPC o, none))
    (hne : removalPC o ≠ .idle ∧ removalPC o ≠ .rCheck ∧ removalPC o ≠ .rStore)
    (hlock : ∃ reg', stepROp cf c.reg o (removalPC o) = (reg', .idle, some .ok) ∧
      ∀ d pm, b.blocks (d, pm.ID) = false → c.reg d = some pm → reg' d = some pm)
    (hother : ∀ pc, pc ≠ .idle → pc ≠ removalPC o → stepROp cf c.reg o pc = (c.reg, .idle, some (.err "BADPC")))
    (hret : ∀ (m0 : RMon) r, rMonRet m0 t o r = { m0 with blockers := m0.blockers.filter (·.1 != t) }) :
    RSim (stepRThread cf c t).1 (rMonSlot m (stepRThread cf c t).2) := by
  rw [rstep_cons cf c t o rest hto]
  simp only [rMonSlot]
  by_cases hpc : (c.th t).pc = .idle
  · rw [hpc, hidle]
    simp only [RPC.isIdle, if_true, Option.map_none, rMonInv, hb]
    refine hS.mk' t _ _ _ hS.ok ?_ ?_ (fun _ _ _ h => List.mem_cons_of_mem _ h) ?_ ⟨hne.2.1, hne.2.2⟩
    · intro d x hx; exact hS.own d x (List.mem_filter.mp hx).1
    · intro o' b' rest' h1 h2 _
      injection h1 with h1 _; subst h1; rw [hb] at h2; injection h2 with h2; subst h2
      exact List.mem_cons_self
    · intro t' b' hm x hx
      simp only [List.mem_filter, Bool.not_eq_true'] at hx
      simp only [List.mem_cons] at hm
      rcases hm with e | hm
      · injection e with _ e2; subst e2; exact hx.2
      · exact hS.noOwn t' b' hm x hx.1
  · have hisidle : (c.th t).pc.isIdle = false := by
      cases h : (c.th t).pc <;> first | rfl | exact absurd h hpc
    by_cases hlk : (c.th t).pc = removalPC o
    · obtain ⟨reg', hstep, hkeep⟩ := hlock
      rw [hlk] at hisidle ⊢
      rw [hstep]
      simp only [hisidle, Bool.false_eq_true, if_false, Option.map_some, hret]
      have hin := hS.fly t o b rest hto hb hlk
      refine hS.mk' t _ _ _ hS.ok ?_ (no_removal_idle rest _ t)
        (fun t' b' hne' h => List.mem_filter.mpr ⟨h, by simpa using hne'⟩)
        (fun t' b' hm => hS.noOwn t' b' (List.mem_filter.mp hm).1) (by simp)
      intro d x hx
      obtain ⟨pm, hpm, hid⟩ := hS.own d x hx
      have := hS.noOwn t b hin (d, x) hx
      exact ⟨pm, hkeep d pm (by rw [hid]; exact this) hpm, hid⟩
    · rw [hother _ hpc hlk]
      simp only [hisidle, Bool.false_eq_true, if_false, Option.map_some, hret]
      refine hS.mk' t _ _ _ hS.ok hS.own (no_removal_idle rest _ t)
        (fun t' b' hne' h => List.mem_filter.mpr ⟨h, by simpa using hne'⟩)
        (fun t' b' hm => hS.noOwn t' b' (List.mem_filter.mp hm).1) (by simp)

theorem RSim.step (cf : RConfig) (hns : cf.split = false) (c : RCfg) (m : RMon) (hS : RSim c m) (t : Nat) :
    RSim (stepRThread cf c t).1 (rMonSlot m (stepRThread cf c t).2) := by
  cases hto : (c.th t).todo with
  | nil => rw [rstep_nil cf c t hto]; exact hS
  | cons o rest =>
    have hpcs := hS.pcs t
    have hidleT : ∀ (m0 : RMon), ∀ o' b' rest', (⟨rest, .idle⟩ : RThread).todo = o' :: rest' → blockerOf o' = some b' →
        (⟨rest, .idle⟩ : RThread).pc = removalPC o' → (t, b') ∈ m0.blockers := fun m0 => no_removal_idle rest m0 t
    cases o with
    | register pm =>
      rw [rstep_cons cf c t _ rest hto]
      simp only [stepROp, rMonSlot]
      have hnr : ∀ (pc : RPC) (m0 : RMon), ∀ o' b' rest', (⟨.register pm :: rest, pc⟩ : RThread).todo = o' :: rest' →
          blockerOf o' = some b' → (⟨.register pm :: rest, pc⟩ : RThread).pc = removalPC o' → (t, b') ∈ m0.blockers := by
        intro pc m0 o' b' rest' h1 h2 _
        injection h1 with h1 _; subst h1; simp [blockerOf] at h2
      cases hpc : (c.th t).pc
      · -- idle
        simp only [stepRegister, hns, RPC.isIdle, if_true, Bool.false_eq_true, if_false, rMonInv, blockerOf]
        split
        · exact hS.same t _ (hidleT m) (by simp)
        · exact hS.same t _ (hnr _ m) (by simp)
      · exact absurd hpc hpcs.1
      · -- rBase
        simp only [stepRegister, hns, RPC.isIdle, Bool.false_eq_true, if_false]
        split
        · exact hS.same t _ (hnr _ m) (by simp)
        · exact hS.same t _ (hidleT m) (by simp)
      · -- rLock: check and store in one section
        simp only [stepRegister, RPC.isIdle, Bool.false_eq_true, if_false]
        by_cases hob : ownedByOtherId c.reg pm = true
        · simp only [hob, if_true, Option.map_some, rMonRet]
          exact hS.same t _ (hidleT m) (by simp)
        · simp only [hob, Bool.false_eq_true, if_false, Option.map_some, rMonRet]
          have hok : (m.ok && !(m.owners.any (fun x => x.1 == pm.fullDomain && x.2 != pm.ID))) = true := by
            rw [hS.ok, Bool.true_and, Bool.not_eq_true', List.any_eq_false]
            intro x hx hx'
            simp only [Bool.and_eq_true, beq_iff_eq, bne_iff_ne] at hx'
            obtain ⟨ex, hex, hid⟩ := hS.own x.1 x.2 hx
            apply hob
            unfold ownedByOtherId
            rw [← hx'.1, hex]
            simp only [bne_iff_ne, ne_eq, hid]
            exact hx'.2
          by_cases hfl : m.blockers.any (fun b => b.2.blocks (pm.fullDomain, pm.ID)) = true
          · simp only [hfl, if_true]
            refine hS.mk' t _ _ _ hok ?_ (hidleT _) (fun _ _ _ h => h) hS.noOwn (by simp)
            intro d x hx
            obtain ⟨ex, hex, hid⟩ := hS.own d x hx
            by_cases hne : d = pm.fullDomain
            · subst hne
              -- the stored mapping has the same ID as the certain owner (else the check would have refused)
              have : ex.ID = pm.ID := by
                by_cases hc : ex.ID = pm.ID
                · exact hc
                · exfalso
                  apply hob
                  unfold ownedByOtherId
                  rw [hex]; simp [hc]
              exact ⟨pm, by simp, by rw [← this, hid]⟩
            · simp only [upd_other _ _ _ _ hne]; exact ⟨ex, hex, hid⟩
          · simp only [hfl, Bool.false_eq_true, if_false]
            refine hS.mk' t _ _ _ hok ?_ (hidleT _) (fun _ _ _ h => h) ?_ (by simp)
            · intro d x hx
              simp only [List.mem_cons, List.mem_filter, bne_iff_ne] at hx
              rcases hx with e | ⟨hx, hne⟩
              · injection e with e1 e2; subst e1; subst e2; exact ⟨pm, by simp, rfl⟩
              · simp only [ne_eq] at hne
                simp only [upd_other _ _ _ _ hne]; exact hS.own d x hx
            · intro t' b' hm x hx
              simp only [List.mem_cons, List.mem_filter, bne_iff_ne] at hx
              rcases hx with e | ⟨hx, _⟩
              · subst e
                rw [Bool.eq_false_iff]; intro hbk
                apply hfl
                exact List.any_eq_true.mpr ⟨(t', b'), hm, hbk⟩
              · exact hS.noOwn t' b' hm x hx
      · exact absurd hpc hpcs.2
      all_goals
        simp only [stepRegister, RPC.isIdle, Bool.false_eq_true, if_false, Option.map_some, rMonRet]
        exact hS.same t _ (hidleT m) (by simp)
    | unregister d =>
      refine hS.removal cf t _ (.dom d) rest hto rfl rfl (by simp [removalPC]) ?_ ?_ (fun _ _ => rfl)
      · refine ⟨upd c.reg d none, rfl, ?_⟩
        intro d' pm hb' hr
        have : d' ≠ d := by intro e; subst e; simp [Blocker.blocks] at hb'
        simp only [upd_other _ _ _ _ this]; exact hr
      · intro pc h1 h2; cases pc <;> first | rfl | exact absurd rfl h1 | exact absurd rfl h2
    | unregId x =>
      refine hS.removal cf t _ (.id x) rest hto rfl rfl (by simp [removalPC]) ?_ ?_ (fun _ _ => rfl)
      · refine ⟨dropById c.reg x, rfl, ?_⟩
        intro d' pm hb' hr
        simp only [Blocker.blocks, beq_eq_false_iff_ne, ne_eq] at hb'
        simp [dropById, hr, hb']
      · intro pc h1 h2; cases pc <;> first | rfl | exact absurd rfl h1 | exact absurd rfl h2
    | rebuild l =>
      refine hS.removal cf t _ .all rest hto rfl rfl (by simp [removalPC]) ?_ ?_ (fun _ _ => rfl)
      · refine ⟨rebuildReg l, rfl, ?_⟩
        intro d' pm hb' _; simp [Blocker.blocks] at hb'
      · intro pc h1 h2; cases pc <;> first | rfl | exact absurd rfl h1 | exact absurd rfl h2
    | lookup host =>
      rw [rstep_cons cf c t _ rest hto]
      simp only [stepROp, rMonSlot]
      have hnr : ∀ (pc : RPC) (m0 : RMon), ∀ o' b' rest', (⟨.lookup host :: rest, pc⟩ : RThread).todo = o' :: rest' →
          blockerOf o' = some b' → (⟨.lookup host :: rest, pc⟩ : RThread).pc = removalPC o' → (t, b') ∈ m0.blockers := by
        intro pc m0 o' b' rest' h1 h2 _
        injection h1 with h1 _; subst h1; simp [blockerOf] at h2
      cases hpc : (c.th t).pc
      · simp only [RPC.isIdle, if_true, Option.map_none, rMonInv, blockerOf]
        exact hS.same t _ (hnr _ m) (by simp)
      case lLock =>
        simp only [RPC.isIdle, Bool.false_eq_true, if_false]
        cases hr : c.reg (extractDomain host) with
        | none =>
          simp only [Option.map_some, rMonRet]
          refine hS.mk' t _ _ _ ?_ hS.own (hidleT _) (fun _ _ _ h => h) hS.noOwn (by simp)
          simp only
          rw [hS.ok, Bool.true_and, Bool.not_eq_true', List.any_eq_false]
          intro x hx hx'
          simp only [beq_iff_eq] at hx'
          obtain ⟨ex, hex, _⟩ := hS.own x.1 x.2 hx
          rw [hx', hr] at hex; cases hex
        | some mm =>
          simp only [Option.map_some, rMonRet]
          refine hS.mk' t _ _ _ ?_ hS.own (hidleT _) (fun _ _ _ h => h) hS.noOwn (by simp)
          simp only
          rw [hS.ok, Bool.true_and, List.all_eq_true]
          intro x hx
          by_cases e : x.1 = extractDomain host
          · obtain ⟨ex, hex, hid⟩ := hS.own x.1 x.2 hx
            rw [e, hr] at hex; injection hex with hex; subst hex
            simp [e, hid]
          · simp [e]
      all_goals
        simp only [RPC.isIdle, Bool.false_eq_true, if_false, Option.map_some, rMonRet]
        exact hS.same t _ (hidleT m) (by simp)
    | avail sub base =>
      rw [rstep_cons cf c t _ rest hto]
      simp only [stepROp, rMonSlot]
      have hnr : ∀ (pc : RPC) (m0 : RMon), ∀ o' b' rest', (⟨.avail sub base :: rest, pc⟩ : RThread).todo = o' :: rest' →
          blockerOf o' = some b' → (⟨.avail sub base :: rest, pc⟩ : RThread).pc = removalPC o' → (t, b') ∈ m0.blockers := by
        intro pc m0 o' b' rest' h1 h2 _
        injection h1 with h1 _; subst h1; simp [blockerOf] at h2
      cases hpc : (c.th t).pc
      · simp only [RPC.isIdle, if_true, Option.map_none, rMonInv, blockerOf]
        exact hS.same t _ (hnr _ m) (by simp)
      case aLock =>
        simp only [RPC.isIdle, Bool.false_eq_true, if_false, Option.map_some]
        cases hr : c.reg (sub ++ "." ++ base) with
        | some mm =>
          simp only [Option.isNone_some, rMonRet]
          exact hS.same t _ (hidleT m) (by simp)
        | none =>
          simp only [Option.isNone_none, rMonRet]
          refine hS.mk' t _ _ _ ?_ hS.own (hidleT _) (fun _ _ _ h => h) hS.noOwn (by simp)
          simp only
          rw [hS.ok, Bool.true_and, Bool.not_eq_true', List.any_eq_false]
          intro x hx hx'
          simp only [beq_iff_eq] at hx'
          obtain ⟨ex, hex, _⟩ := hS.own x.1 x.2 hx
          rw [hx', hr] at hex; cases hex
      all_goals
        simp only [RPC.isIdle, Bool.false_eq_true, if_false, Option.map_some, rMonRet]
        exact hS.same t _ (hidleT m) (by simp)

theorem RSim.init (i : RInput) : RSim (initRCfg i) {} := by
  refine ⟨rfl, ?_, ?_, ?_, ?_⟩
  · intro d x h; simp at h
  · intro t o b rest _ hb h
    cases o <;> simp [blockerOf, removalPC, initRCfg] at hb h
  · intro t b h; simp at h
  · intro t; simp [initRCfg]

theorem runRSched_sim (cf : RConfig) (hns : cf.split = false) :
    ∀ (ts : List Nat) c m, RSim c m → RSim (runRSched cf c ts).1 ((runRSched cf c ts).2.foldl rMonSlot m) := by
  intro ts
  induction ts with
  | nil => intro c m h; exact h
  | cons t ts ih =>
    intro c m h
    simp only [runRSched, List.foldl_cons]
    exact ih _ _ (h.step cf hns c m t)

theorem holdsReg_model (i : RInput) (hns : i.cf.split = false) : holdsReg (modelReg i) = true :=
  (runRSched_sim i.cf hns _ (initRCfg i) {} (RSim.init i)).ok

end Tunnox.C19
