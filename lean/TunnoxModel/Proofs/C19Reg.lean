import TunnoxModel.Model.C19Reg
import TunnoxModel.Proofs.C19Inv
/-! C19 — the registry never has two owners of one name, in any interleaving of Register / Unregister / LookupByHost. -/
namespace Tunnox.C19
open Gen

structure RSim (c : RCfg) (m : RMon) : Prop where
  ok : m.ok = true
  /-- every certain owner is what the registry holds under its name -/
  own : ∀ d x, (d, x) ∈ m.owners → ∃ pm, c.reg d = some pm ∧ pm.ID = x
  /-- an unregister that is about to delete is known to the monitor … -/
  fly : ∀ t d rest, (c.th t).todo = .unregister d :: rest → (c.th t).pc = .uLock → (t, d) ∈ m.unregFly
  /-- … and while it is in flight nobody certainly owns that name -/
  noOwn : ∀ t d, (t, d) ∈ m.unregFly → ∀ x, (d, x) ∉ m.owners
  /-- the split-variant program counters are never reached -/
  pcs : ∀ t, (c.th t).pc ≠ .rCheck ∧ (c.th t).pc ≠ .rStore

theorem rstep_nil (cf : RConfig) (c : RCfg) (t : Nat) (h : (c.th t).todo = []) :
    stepRThread cf c t = (c, ⟨t, false, none, none⟩) := by
  unfold stepRThread; simp only [h]

theorem rstep_cons (cf : RConfig) (c : RCfg) (t : Nat) (o : ROp) (rest : List ROp) (h : (c.th t).todo = o :: rest) :
    stepRThread cf c t =
      ( ⟨(stepROp cf c.reg o (c.th t).pc).1,
         upd c.th t (match (stepROp cf c.reg o (c.th t).pc).2.2 with
                     | some _ => ⟨rest, .idle⟩
                     | none => ⟨o :: rest, (stepROp cf c.reg o (c.th t).pc).2.1⟩)⟩,
        ⟨t, true, if (c.th t).pc.isIdle then some o else none, ((stepROp cf c.reg o (c.th t).pc).2.2).map (fun r => (o, r))⟩ ) := by
  unfold stepRThread; simp only [h]; rfl

/-- Assembling the post-state when registry, acting thread and monitor are given explicitly. -/
theorem RSim.mk' {c : RCfg} {m : RMon} (hS : RSim c m) (t : Nat) (reg' : String → Option PM) (nt : RThread) (m' : RMon)
    (hok : m'.ok = true)
    (hown : ∀ d x, (d, x) ∈ m'.owners → ∃ pm, reg' d = some pm ∧ pm.ID = x)
    (hflyT : ∀ d rest, nt.todo = .unregister d :: rest → nt.pc = .uLock → (t, d) ∈ m'.unregFly)
    (hflyO : ∀ t' d, t' ≠ t → (t', d) ∈ m.unregFly → (t', d) ∈ m'.unregFly)
    (hno : ∀ t' d, (t', d) ∈ m'.unregFly → ∀ x, (d, x) ∉ m'.owners)
    (hpc : nt.pc ≠ .rCheck ∧ nt.pc ≠ .rStore) :
    RSim ⟨reg', upd c.th t nt⟩ m' := by
  refine ⟨hok, hown, ?_, hno, ?_⟩
  · intro t' d rest h1 h2
    by_cases e : t' = t
    · subst e; simp only [upd_same] at h1 h2; exact hflyT d rest h1 h2
    · simp only [upd_other _ _ _ _ e] at h1 h2
      exact hflyO t' d e (hS.fly t' d rest h1 h2)
  · intro t'
    by_cases e : t' = t
    · subst e; simp only [upd_same]; exact hpc
    · simp only [upd_other _ _ _ _ e]; exact hS.pcs t'

/-- A slot that changes neither the registry nor the monitor. -/
theorem RSim.same {c : RCfg} {m : RMon} (hS : RSim c m) (t : Nat) (nt : RThread)
    (hnu : ∀ d rest, nt.todo = .unregister d :: rest → nt.pc = .uLock → (t, d) ∈ m.unregFly)
    (hpc : nt.pc ≠ .rCheck ∧ nt.pc ≠ .rStore) : RSim ⟨c.reg, upd c.th t nt⟩ m :=
  hS.mk' t c.reg nt m hS.ok hS.own hnu (fun _ _ _ h => h) hS.noOwn hpc

theorem RSim.step (cf : RConfig) (hns : cf.split = false) (c : RCfg) (m : RMon) (hS : RSim c m) (t : Nat) :
    RSim (stepRThread cf c t).1 (rMonSlot m (stepRThread cf c t).2) := by
  cases hto : (c.th t).todo with
  | nil => rw [rstep_nil cf c t hto]; exact hS
  | cons o rest =>
    rw [rstep_cons cf c t o rest hto]
    have hpcs := hS.pcs t
    cases o with
    | register pm =>
      simp only [stepROp, rMonSlot]
      cases hpc : (c.th t).pc
      · -- idle
        simp only [stepRegister, hns, RPC.isIdle, if_true, Bool.false_eq_true, if_false, rMonInv]
        split
        · exact hS.same t _ (by intro d r _ hp; simp at hp) (by simp)
        · exact hS.same t _ (by intro d r _ hp; simp at hp) (by simp)
      · exact absurd hpc hpcs.1
      · -- rBase
        simp only [stepRegister, hns, RPC.isIdle, Bool.false_eq_true, if_false]
        split
        · exact hS.same t _ (by intro d r _ hp; simp at hp) (by simp)
        · exact hS.same t _ (by intro d r _ hp; simp at hp) (by simp)
      · -- rLock: check and store in one section
        simp only [stepRegister, RPC.isIdle, Bool.false_eq_true, if_false]
        by_cases hob : ownedByOtherId c.reg pm = true
        · simp only [hob, if_true, Option.map_some, rMonRet]
          exact hS.same t _ (by intro d r _ hp; simp at hp) (by simp)
        · simp only [hob, Bool.false_eq_true, if_false, Option.map_some, rMonRet]
          have hok : (m.ok && !(m.owners.any (fun x => x.1 == pm.fullDomain && x.2 != pm.ID))) = true := by
            rw [hS.ok, Bool.true_and, Bool.not_eq_true', List.any_eq_false]
            intro x hx hx'
            simp only [Bool.and_eq_true, beq_iff_eq, bne_iff_ne] at hx'
            obtain ⟨ex, hex, hid⟩ := hS.own x.1 x.2 hx
            apply hob
            unfold ownedByOtherId
            rw [← hx'.1, hex]
            simp only [bne_iff_ne, ne_eq, hid]
            exact hx'.2
          by_cases hfl : m.unregFly.any (fun x => x.2 == pm.fullDomain) = true
          · simp only [hfl, if_true]
            refine hS.mk' t _ _ _ hok ?_ (by intro d r _ hp; simp at hp) (fun _ _ _ h => h) hS.noOwn (by simp)
            intro d x hx
            have hne : d ≠ pm.fullDomain := by
              intro e; subst e
              obtain ⟨y, hy, hy'⟩ := List.any_eq_true.mp hfl
              simp only [beq_iff_eq] at hy'
              exact hS.noOwn y.1 y.2 hy x (by rw [hy']; exact hx)
            simp only [upd_other _ _ _ _ hne]; exact hS.own d x hx
          · simp only [hfl, Bool.false_eq_true, if_false]
            refine hS.mk' t _ _ _ hok ?_ (by intro d r _ hp; simp at hp) (fun _ _ _ h => h) ?_ (by simp)
            · intro d x hx
              simp only [List.mem_cons, List.mem_filter, bne_iff_ne] at hx
              rcases hx with e | ⟨hx, hne⟩
              · injection e with e1 e2; subst e1; subst e2; exact ⟨pm, by simp, rfl⟩
              · simp only [ne_eq] at hne
                simp only [upd_other _ _ _ _ hne]; exact hS.own d x hx
            · intro t' d hm x hx
              simp only [List.mem_cons, List.mem_filter, bne_iff_ne] at hx
              rcases hx with e | ⟨hx, _⟩
              · injection e with e1 _; subst e1
                apply hfl
                exact List.any_eq_true.mpr ⟨(t', pm.fullDomain), hm, by simp⟩
              · exact hS.noOwn t' d hm x hx
      · exact absurd hpc hpcs.2
      · simp only [stepRegister, RPC.isIdle, Bool.false_eq_true, if_false, Option.map_some, rMonRet]
        exact hS.same t _ (by intro d r _ hp; simp at hp) (by simp)
      · simp only [stepRegister, RPC.isIdle, Bool.false_eq_true, if_false, Option.map_some, rMonRet]
        exact hS.same t _ (by intro d r _ hp; simp at hp) (by simp)
    | unregister d =>
      simp only [stepROp, rMonSlot]
      cases hpc : (c.th t).pc
      · -- idle: invocation
        simp only [RPC.isIdle, if_true, Option.map_none, rMonInv]
        refine hS.mk' t _ _ _ hS.ok ?_ ?_ (fun _ _ _ h => List.mem_cons_of_mem _ h) ?_ (by simp)
        · intro d' x hx; exact hS.own d' x (List.mem_filter.mp hx).1
        · intro d' r h _; injection h with h _; injection h with h; subst h; exact List.mem_cons_self
        · intro t' d' hm x hx
          simp only [List.mem_filter, bne_iff_ne, ne_eq] at hx
          simp only [List.mem_cons] at hm
          rcases hm with e | hm
          · injection e with _ e2; exact hx.2 e2
          · exact hS.noOwn t' d' hm x hx.1
      all_goals
        first
        | (simp only [RPC.isIdle, Bool.false_eq_true, if_false, Option.map_some, rMonRet]
           refine hS.mk' t _ _ _ hS.ok hS.own (by intro d' r _ hp; simp at hp)
             (fun t' d' hne h => List.mem_filter.mpr ⟨h, by simpa using hne⟩)
             (fun t' d' hm => hS.noOwn t' d' (List.mem_filter.mp hm).1) (by simp))
        | skip
      · -- uLock: the delete
        simp only [RPC.isIdle, Bool.false_eq_true, if_false, Option.map_some, rMonRet]
        have hin := hS.fly t d rest hto hpc
        refine hS.mk' t _ _ _ hS.ok ?_ (by intro d' r _ hp; simp at hp)
          (fun t' d' hne h => List.mem_filter.mpr ⟨h, by simpa using hne⟩)
          (fun t' d' hm => hS.noOwn t' d' (List.mem_filter.mp hm).1) (by simp)
        intro d' x hx
        have hne : d' ≠ d := by intro e; subst e; exact hS.noOwn t d' hin x hx
        simp only [upd_other _ _ _ _ hne]; exact hS.own d' x hx
    | lookup host =>
      simp only [stepROp, rMonSlot]
      cases hpc : (c.th t).pc
      · simp only [RPC.isIdle, if_true, Option.map_none, rMonInv]
        exact hS.same t _ (by intro d r _ hp; simp at hp) (by simp)
      all_goals
        first
        | (simp only [RPC.isIdle, Bool.false_eq_true, if_false, Option.map_some, rMonRet]
           exact hS.same t _ (by intro d r _ hp; simp at hp) (by simp))
        | skip
      · -- lLock: the read
        simp only [RPC.isIdle, Bool.false_eq_true, if_false]
        cases hr : c.reg (extractDomain host) with
        | none =>
          simp only [Option.map_some, rMonRet]
          refine hS.mk' t _ _ _ ?_ hS.own (by intro d r _ hp; simp at hp) (fun _ _ _ h => h) hS.noOwn (by simp)
          simp only
          rw [hS.ok, Bool.true_and, Bool.not_eq_true', List.any_eq_false]
          intro x hx hx'
          simp only [beq_iff_eq] at hx'
          obtain ⟨ex, hex, _⟩ := hS.own x.1 x.2 hx
          rw [hx', hr] at hex; cases hex
        | some mm =>
          simp only [Option.map_some, rMonRet]
          refine hS.mk' t _ _ _ ?_ hS.own (by intro d r _ hp; simp at hp) (fun _ _ _ h => h) hS.noOwn (by simp)
          simp only
          rw [hS.ok, Bool.true_and, List.all_eq_true]
          intro x hx
          by_cases e : x.1 = extractDomain host
          · obtain ⟨ex, hex, hid⟩ := hS.own x.1 x.2 hx
            rw [e, hr] at hex; injection hex with hex; subst hex
            simp [e, hid]
          · simp [e]

theorem RSim.init (i : RInput) : RSim (initRCfg i) {} := by
  refine ⟨rfl, ?_, ?_, ?_, ?_⟩
  · intro d x h; simp at h
  · intro t d rest _ h; simp [initRCfg] at h
  · intro t d h; simp at h
  · intro t; simp [initRCfg]

theorem runRSched_sim (cf : RConfig) (hns : cf.split = false) :
    ∀ (ts : List Nat) c m, RSim c m → RSim (runRSched cf c ts).1 ((runRSched cf c ts).2.foldl rMonSlot m) := by
  intro ts
  induction ts with
  | nil => intro c m h; exact h
  | cons t ts ih =>
    intro c m h
    simp only [runRSched, List.foldl_cons]
    exact ih _ _ (h.step cf hns c m t)

theorem holdsReg_model (i : RInput) (hns : i.cf.split = false) : holdsReg (modelReg i) = true :=
  (runRSched_sim i.cf hns _ (initRCfg i) {} (RSim.init i)).ok

end Tunnox.C19
