import TunnoxModel.Proofs.C13
/-!
  C13 — concurrent callers.  Every call is one atomic step in lock order (`runSched`); the
  answers each thread sees are explained by the reference run in that same order, which the
  search `Spec.lin` finds.
-/
set_option linter.unusedSimpArgs false
namespace Tunnox.C13
open Tunnox Tunnox.TTLStore Tunnox.C13.Spec

/-- Callers `j, j+1, …` paired with what they saw in the trace. -/
def pairFrom (j : Nat) : List (List Op) → List (Nat × Op × Res) → List Pending
  | [], _ => []
  | p :: ps, tr => (p, (project j tr).map render) :: pairFrom (j + 1) ps tr

theorem project_cons_eq (i : Nat) (op : Op) (r : Res) (tr : List (Nat × Op × Res)) :
    project i ((i, op, r) :: tr) = r :: project i tr := by
  simp [project]

theorem project_cons_ne {i j : Nat} (h : i ≠ j) (op : Op) (r : Res) (tr : List (Nat × Op × Res)) :
    project j ((i, op, r) :: tr) = project j tr := by
  simp [project, h]

theorem pairFrom_skip (ps : List (List Op)) : ∀ (j i : Nat) (op : Op) (r : Res) (tr : List (Nat × Op × Res)),
    i < j → pairFrom j ps ((i, op, r) :: tr) = pairFrom j ps tr := by
  induction ps with
  | nil => intros; rfl
  | cons p ps ih =>
    intro j i op r tr h
    have hne : i ≠ j := by omega
    simp only [pairFrom, project_cons_ne hne]
    rw [ih (j + 1) i op r tr (by omega)]

theorem picks_cons_mem {x : Op × String} {ts ts' : List Pending} (t : Pending)
    (h : (x, ts') ∈ picks ts) : (x, t :: ts') ∈ picks (t :: ts) := by
  simp only [picks]
  apply List.mem_append_right
  exact List.mem_map.mpr ⟨(x, ts'), h, rfl⟩

theorem picks_head_mem (op : Op) (ops : List Op) (r : String) (rs : List String) (ts : List Pending) :
    ((op, r), (ops, rs) :: ts) ∈ picks ((op :: ops, r :: rs) :: ts) := by
  simp only [picks, headPick]
  apply List.mem_append_left
  simp

/-- The step the scheduler took is one of the choices of the search. -/
theorem picks_sched (ps : List (List Op)) : ∀ (j i : Nat) (op : Op) (rest : List Op) (r : Res)
    (tr : List (Nat × Op × Res)), j ≤ i → ps[i - j]? = some (op :: rest) →
    ((op, render r), pairFrom j (ps.set (i - j) rest) tr) ∈ picks (pairFrom j ps ((i, op, r) :: tr)) := by
  induction ps with
  | nil => intro j i op rest r tr _ h; simp at h
  | cons p ps ih =>
    intro j i op rest r tr hji h
    by_cases hij : i = j
    · subst hij
      simp only [Nat.sub_self, List.getElem?_cons_zero, Option.some.injEq] at h
      subst h
      simp only [Nat.sub_self, List.set_cons_zero, pairFrom, project_cons_eq, List.map_cons]
      rw [pairFrom_skip ps (i + 1) i op r tr (by omega)]
      exact picks_head_mem _ _ _ _ _
    · have hlt : j < i := by omega
      have hsub : i - j = (i - (j + 1)) + 1 := by omega
      rw [hsub] at h ⊢
      simp only [List.getElem?_cons_succ] at h
      have hne : i ≠ j := hij
      simp only [List.set_cons_succ, pairFrom, project_cons_ne hne]
      exact picks_cons_mem _ (ih (j + 1) i op rest r tr (by omega) h)

theorem popThread_some {progs : List (List Op)} {i : Nat} {x : Op × List (List Op)}
    (h : popThread progs i = some x) :
    ∃ rest, progs[i]? = some (x.1 :: rest) ∧ x.2 = progs.set i rest := by
  unfold popThread at h
  cases hp : progs[i]? with
  | none => simp [hp] at h
  | some l =>
    cases l with
    | nil => simp [hp] at h
    | cons op rest =>
      simp [hp] at h
      exact ⟨rest, by rw [← h], by rw [← h]⟩

theorem totalLen_set (progs : List (List Op)) : ∀ (i : Nat) (op : Op) (rest : List Op),
    progs[i]? = some (op :: rest) → totalLen (progs.set i rest) + 1 = totalLen progs := by
  induction progs with
  | nil => intro i op rest h; simp at h
  | cons p ps ih =>
    intro i op rest h
    cases i with
    | zero =>
      simp only [List.getElem?_cons_zero, Option.some.injEq] at h
      subst h
      simp [totalLen]; omega
    | succ i =>
      simp only [List.getElem?_cons_succ] at h
      have := ih i op rest h
      simp [totalLen] at this ⊢; omega

theorem allDone_pairFrom_nil (ps : List (List Op)) : ∀ j, ps.all List.isEmpty = true →
    allDone (pairFrom j ps []) = true := by
  induction ps with
  | nil => intros; rfl
  | cons p ps ih =>
    intro j h
    simp only [List.all_cons, Bool.and_eq_true] at h
    have := ih (j + 1) h.2
    simp only [allDone] at this ⊢
    simp [pairFrom, project, h.1, this]

theorem linK_of_allDone (now fuel : Nat) (post : Store → Bool) (s : Store) (ts : List Pending)
    (h : allDone ts = true) (hp : post s = true) : linK now post fuel s ts = true := by
  cases fuel <;> simp [linK, h, hp]

/-- For every schedule that runs all callers to completion, from related stores, the search
explains the per-thread answers of the model and ends in a store related to the model's. -/
theorem linK_sched (now : Nat) (post : Store → Bool) (sched : List Nat) :
    ∀ (m s : Store) (progs : List (List Op)) (fuel : Nat),
    R now m s → completes sched progs = true → totalLen progs ≤ fuel →
    (∀ s', R now (execSched now sched m progs) s' → post s' = true) →
    linK now post fuel s (pairFrom 0 progs (runSched now sched m progs)) = true := by
  induction sched with
  | nil =>
    intro m s progs fuel hR hc _ hpost
    simp only [runSched]
    exact linK_of_allDone _ _ _ _ _
      (allDone_pairFrom_nil progs 0 (by simpa [completes, remaining] using hc))
      (hpost s (by simpa [execSched] using hR))
  | cons i is ih =>
    intro m s progs fuel hR hc hfuel hpost
    cases hp : popThread progs i with
    | none =>
      have hc' : completes is progs = true := by simpa [completes, remaining, hp] using hc
      simp only [runSched, hp]
      exact ih m s progs fuel hR hc' hfuel (by simpa [execSched, hp] using hpost)
    | some x =>
      obtain ⟨rest, hget, hset⟩ := popThread_some hp
      have hc' : completes is x.2 = true := by simpa [completes, remaining, hp] using hc
      have hlen := totalLen_set progs i x.1 rest hget
      have hst := step_ref (now := now) hR x.1
      cases fuel with
      | zero => omega
      | succ f =>
        simp only [runSched, hp, linK]
        apply Bool.or_eq_true_iff.mpr
        right
        apply List.any_eq_true.mpr
        refine ⟨((x.1, render (step now x.1 m).2), pairFrom 0 x.2 (runSched now is (step now x.1 m).1 x.2)), ?_, ?_⟩
        · have := picks_sched progs 0 i x.1 rest (step now x.1 m).2
            (runSched now is (step now x.1 m).1 x.2) (Nat.zero_le _) (by simpa using hget)
          rw [hset] at this ⊢
          simpa using this
        · simp only [Bool.and_eq_true, beq_iff_eq]
          refine ⟨?_, ?_⟩
          · show render (TTLStore.step Spec.dflt now x.1 s).2 = render (step now x.1 m).2
            rw [hst.1]; rfl
          · have hR' : R now (step now x.1 m).1 (TTLStore.step Spec.dflt now x.1 s).1 := hst.2
            exact ih _ _ x.2 f hR' hc' (by rw [hset]; omega) (by simpa [execSched, hp] using hpost)

theorem lin_sched (now : Nat) (sched : List Nat) (m s : Store) (progs : List (List Op)) (fuel : Nat)
    (hR : R now m s) (hc : completes sched progs = true) (hf : totalLen progs ≤ fuel) :
    lin now fuel s (pairFrom 0 progs (runSched now sched m progs)) = true :=
  linK_sched now (fun _ => true) sched m s progs fuel hR hc hf (fun _ _ => rfl)

/-- A sequential history keeps the stores related, at any later clock reading. -/
theorem exec_ref (h : History) : ∀ (m s : Store) (t0 now : Nat), R t0 m s →
    (∀ e ∈ h, t0 ≤ e.1) → TTLStore.Monotone h = true → (∀ e ∈ h, e.1 ≤ now) → t0 ≤ now →
    R now (exec h m) (TTLStore.exec defaultTTL h s) := by
  induction h with
  | nil => intro m s t0 now hR _ _ _ hle; exact R_mono hle hR
  | cons e h ih =>
    intro m s t0 now hR hge hmono hle _
    obtain ⟨t, op⟩ := e
    have ht : t0 ≤ t := hge (t, op) List.mem_cons_self
    have hst := step_ref (R_mono ht hR) op
    simp only [exec, TTLStore.exec]
    have htail : (∀ e ∈ h, t ≤ e.1) ∧ TTLStore.Monotone h = true := by
      cases h with
      | nil => exact ⟨(fun _ he => nomatch he), rfl⟩
      | cons b h2 =>
        simp only [TTLStore.Monotone, Bool.and_eq_true, decide_eq_true_eq] at hmono
        exact ⟨mono_ge (b :: h2) t ⟨hmono.1, hmono.2⟩, hmono.2⟩
    exact ih _ _ t now hst.2 htail.1 htail.2 (fun e he => hle e (List.mem_cons_of_mem _ he))
      (hle (t, op) List.mem_cons_self)

/-- `zip` with the per-thread projections is `pairFrom`. -/
theorem zip_range (ps : List (List Op)) (tr : List (Nat × Op × Res)) : ∀ j,
    ps.zip ((List.range' j ps.length).map (fun i => (project i tr).map render)) = pairFrom j ps tr := by
  induction ps with
  | nil => intro j; rfl
  | cons p ps ih =>
    intro j
    simp only [List.length_cons, List.range'_succ, List.map_cons, List.zip_cons_cons, pairFrom]
    rw [ih (j + 1)]

end Tunnox.C13
