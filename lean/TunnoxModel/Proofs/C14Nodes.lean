import TunnoxModel.Proofs.C14Fresh
/-!
C14 — two facade instances (cluster nodes) on one shared cache: for pure shared data (the key's cache tier is
the shared cache, no persistent tier) a run whose calls are spread over two nodes is, observation for
observation, the run of the same calls on one node.  Hence every theorem about one facade carries over:
what one node wrote and returned, every later read on ANY node sees.
-/
namespace Tunnox.C14

/-- Forget on which node a call was issued. -/
def er (t : Thread) : Thread := { t with node := 0 }

def erC (cfg : Cfg) : Cfg := { cfg with threads := cfg.threads.map er }

theorem swapN_swapN (σ : St) : swapN (swapN σ) = σ := rfl

/-- Pure shared data: cache tier = shared cache (also for `cacheTierFor`), no persistent tier. -/
structure PureShared (R : Route) : Prop where
  ck : R.ck = .shared
  aux : R.aux = .shared
  pe : R.pe = false

/-- Invariant of such runs: no key lock is ever held between steps, every call is a single step. -/
structure NInv (cfg : Cfg) : Prop where
  l0 : cfg.st.lock = none
  l1 : cfg.st.lock1 = none
  kinds : ∀ t ∈ cfg.threads, isKVop t.op
  pcs : ∀ t ∈ cfg.threads, t.pc = .start ∨ t.pc = .done

/-- One step of a get/exists/set/delete call on pure shared data: the same on either node's view and
whatever node the call is issued on; it returns at once and leaves both key locks free. -/
theorem step_pure_shared {R : Route} (hR : PureShared R) (i : Nat) (ft : Option Tier) (σ : St) (th : Thread)
    (hk : isKVop th.op) (hpc : th.pc = .start) (hl0 : σ.lock = none) (hl1 : σ.lock1 = none) :
    er (stepThread true R i ft (swapN σ) th).th = (stepThread true R i ft σ (er th)).th ∧
    (stepThread true R i ft (swapN σ) th).evs = (stepThread true R i ft σ (er th)).evs ∧
    (stepThread true R i ft (swapN σ) th).st = swapN (stepThread true R i ft σ (er th)).st ∧
    er (stepThread true R i ft σ th).th = (stepThread true R i ft σ (er th)).th ∧
    (stepThread true R i ft σ th).evs = (stepThread true R i ft σ (er th)).evs ∧
    (stepThread true R i ft σ th).st = (stepThread true R i ft σ (er th)).st ∧
    (stepThread true R i ft σ (er th)).th.pc = .done ∧
    (stepThread true R i ft σ (er th)).st.lock = none ∧ (stepThread true R i ft σ (er th)).st.lock1 = none := by
  obtain ⟨hck, haux, hpe⟩ := hR
  obtain ⟨op, pc, inv, ret, res, cver, rver, node⟩ := th
  simp only at hpc hk
  subst hpc
  obtain ⟨c, s, p, lock, nver, c1, lock1⟩ := σ
  simp only at hl0 hl1
  subst hl0; subst hl1
  rcases hk with rfl | rfl | ⟨v, tt, rfl⟩ | rfl
  · simp only [stepThread, hck, hpe, swapN, St.cell, er]
    by_cases hf : fails ft .shared = true
    · by_cases hp : R.passErr = true <;> simp [hf, hp, finish]
    · cases hs : s.val <;> simp [hf, hs, finish]
  · simp only [stepThread, hck, hpe, swapN, St.cell, er]
    by_cases hf : fails ft .shared = true
    · by_cases hp : R.passErr = true <;> simp [hf, hp, finish]
    · cases hs : s.val <;> simp [hf, hs, finish]
  · simp only [stepThread, writeStep, hck, hpe, swapN, St.cell, St.setCell, unlock, er]
    by_cases hf : fails ft .shared = true
    · by_cases hsw : R.swallow = true <;> simp [hf, hsw, finish, unlock]
    · simp [hf, finish, unlock, St.setCell]
  · simp only [stepThread, hck, hpe, swapN, St.cell, St.setCell, unlock, er]
    by_cases hf : fails ft .shared = true
    · simp [hf, finish, unlock]
    · simp [hf, finish, unlock, St.setCell]


theorem view_lock_none {σ : St} (n : Nat) (h0 : σ.lock = none) (h1 : σ.lock1 = none) : (view n σ).lock = none := by
  unfold view; split
  · exact h0
  · exact h1

theorem view_cases (n : Nat) (σ : St) : view n σ = σ ∨ view n σ = swapN σ := by
  unfold view; split
  · exact Or.inl rfl
  · exact Or.inr rfl

theorem view_view (n : Nat) (σ : St) : view n (view n σ) = σ := by
  unfold view; split <;> rfl

/-- One schedule entry commutes with forgetting the nodes, and keeps the invariant. -/
theorem stepCfg_erase {R : Route} (hR : PureShared R) (cfg : Cfg) (e : Entry) (hev : e.evict = none)
    (h : NInv cfg) :
    erC (stepCfg .repaired R cfg e) = stepCfg .repaired R (erC cfg) e ∧ NInv (stepCfg .repaired R cfg e) := by
  unfold stepCfg
  simp only [hev]
  have hget : (erC cfg).threads[e.tid]? = (cfg.threads[e.tid]?).map er := by simp [erC]
  rw [hget]
  cases hth : cfg.threads[e.tid]? with
  | none => exact ⟨rfl, ⟨h.l0, h.l1, h.kinds, h.pcs⟩⟩
  | some th =>
    have hmem : th ∈ cfg.threads := List.mem_of_getElem? hth
    have hlt := lt_of_getElem? hth
    simp only [Option.map_some]
    have hernode : (er th).node = 0 := rfl
    rcases h.pcs th hmem with hpc | hpc
    · -- the call takes its only step
      have hen1 : enabled Variant.repaired.lk (view th.node cfg.st) e.tid th = true := by
        unfold enabled
        simp [hpc, view_lock_none th.node h.l0 h.l1]
      have hen2 : enabled Variant.repaired.lk (view (er th).node (erC cfg).st) e.tid (er th) = true := by
        unfold enabled
        have : (er th).pc = .start := hpc
        simp [this, hernode, erC, h.l0]
      rw [if_pos hen1, if_pos hen2]
      have hk := h.kinds th hmem
      have hs := step_pure_shared hR e.tid e.fault cfg.st
        { th with inv := some (th.inv.getD cfg.now), ret := some cfg.now } hk hpc h.l0 h.l1
      obtain ⟨a1, a2, a3, b1, b2, b3, hdone, hl0', hl1'⟩ := hs
      have hsp1 := stepThread_spawn_repaired R e.tid e.fault (view th.node cfg.st)
        { th with inv := some (th.inv.getD cfg.now), ret := some cfg.now }
      have hsp2 := stepThread_spawn_repaired R e.tid e.fault (view (er th).node (erC cfg).st)
        { er th with inv := some ((er th).inv.getD (erC cfg).now), ret := some (erC cfg).now }
      simp only [Variant.lk] at hsp1 hsp2 ⊢
      rw [hsp1, hsp2]
      simp only [Option.map_none, Option.toList, List.append_nil]
      have hview0 : view (er th).node (erC cfg).st = cfg.st := rfl
      rw [hview0]
      have hthe : ({ er th with inv := some ((er th).inv.getD (erC cfg).now), ret := some (erC cfg).now } : Thread) =
          er { th with inv := some (th.inv.getD cfg.now), ret := some cfg.now } := rfl
      rw [hthe]
      -- the state and thread after the step, seen from the node of the call
      have hres : view th.node (stepThread true R e.tid e.fault (view th.node cfg.st)
            { th with inv := some (th.inv.getD cfg.now), ret := some cfg.now }).st =
          (stepThread true R e.tid e.fault cfg.st
            (er { th with inv := some (th.inv.getD cfg.now), ret := some cfg.now })).st ∧
          er (stepThread true R e.tid e.fault (view th.node cfg.st)
            { th with inv := some (th.inv.getD cfg.now), ret := some cfg.now }).th =
          (stepThread true R e.tid e.fault cfg.st
            (er { th with inv := some (th.inv.getD cfg.now), ret := some cfg.now })).th ∧
          (stepThread true R e.tid e.fault (view th.node cfg.st)
            { th with inv := some (th.inv.getD cfg.now), ret := some cfg.now }).evs =
          (stepThread true R e.tid e.fault cfg.st
            (er { th with inv := some (th.inv.getD cfg.now), ret := some cfg.now })).evs := by
        unfold view
        split
        · exact ⟨b3, b1, b2⟩
        · exact ⟨by rw [a3]; rfl, a1, a2⟩
      obtain ⟨r1, r2, r3⟩ := hres
      refine ⟨?_, ?_⟩
      · simp only [erC]
        rw [r1, r3, List.map_set, r2]
        rfl
      · have hview_er : (view (er th).node cfg.st) = cfg.st := rfl
        refine ⟨by rw [r1]; exact hl0', by rw [r1]; exact hl1', ?_, ?_⟩
        · intro t ht
          rcases List.mem_or_eq_of_mem_set ht with ht | ht
          · exact h.kinds t ht
          · subst ht
            rw [stepThread_op]; exact hk
        · intro t ht
          rcases List.mem_or_eq_of_mem_set ht with ht | ht
          · exact h.pcs t ht
          · subst ht
            right
            have : (er (stepThread true R e.tid e.fault (view th.node cfg.st)
              { th with inv := some (th.inv.getD cfg.now), ret := some cfg.now }).th).pc = .done := by
              rw [r2]; exact hdone
            exact this
    · -- the call has returned: nothing moves
      have hen1 : enabled Variant.repaired.lk (view th.node cfg.st) e.tid th = false := by
        unfold enabled; simp [hpc]
      have hen2 : enabled Variant.repaired.lk (view (er th).node (erC cfg).st) e.tid (er th) = false := by
        unfold enabled
        have : (er th).pc = .done := hpc
        simp [this]
      simp only [hen1, hen2, Bool.false_eq_true, if_false]
      exact ⟨rfl, ⟨h.l0, h.l1, h.kinds, h.pcs⟩⟩

theorem run_erase {R : Route} (hR : PureShared R) (sch : List Entry) (hev : ∀ e ∈ sch, e.evict = none)
    (cfg : Cfg) (h : NInv cfg) :
    erC (run .repaired R cfg sch) = run .repaired R (erC cfg) sch := by
  induction sch generalizing cfg with
  | nil => rfl
  | cons e rest ih =>
    have hs := stepCfg_erase hR cfg e (hev e (List.mem_cons_self ..)) h
    show erC (run .repaired R (stepCfg .repaired R cfg e) rest) = run .repaired R (stepCfg .repaired R (erC cfg) e) rest
    rw [ih (fun e' he' => hev e' (List.mem_cons_of_mem _ he')) _ hs.2, hs.1]


theorem mkThreads_er (ops : List Op) (ns : List Nat) :
    (mkThreads ops ns).map er = ops.map (fun o => ({ op := o } : Thread)) := by
  induction ops generalizing ns with
  | nil => rfl
  | cons o os ih => simp [mkThreads, ih, er]

theorem mkThreads_mem (ops : List Op) (ns : List Nat) :
    ∀ t ∈ mkThreads ops ns, t.op ∈ ops ∧ t.pc = .start := by
  induction ops generalizing ns with
  | nil => intro t ht; cases ht
  | cons o os ih =>
    intro t ht
    simp only [mkThreads, List.mem_cons] at ht
    rcases ht with rfl | ht
    · exact ⟨List.mem_cons_self .., rfl⟩
    · exact ⟨List.mem_cons_of_mem _ (ih _ t ht).1, (ih _ t ht).2⟩

theorem obsOf_erC (R : Route) (cfg : Cfg) :
    (obsOf R (erC cfg)).ths = (obsOf R cfg).ths ∧ (obsOf R (erC cfg)).fget = (obsOf R cfg).fget ∧
    (obsOf R (erC cfg)).trace = (obsOf R cfg).trace ∧ (obsOf R (erC cfg)).fin = (obsOf R cfg).fin ∧
    (obsOf R (erC cfg)).fget1 = (obsOf R cfg).fget1 := by
  refine ⟨?_, rfl, rfl, rfl, rfl⟩
  simp only [obsOf, erC, List.map_map]
  rfl

theorem finalGet_swap {R : Route} (hR : PureShared R) (σ : St) : finalGet R (swapN σ) = finalGet R σ := by
  unfold finalGet
  rw [hR.ck]
  simp [St.cell, swapN, hR.pe]

/-- Pure shared data, calls spread over two nodes: observation for observation the run on one node; the
final sequential `Get` of the other node sees the same as the first node's. -/
theorem modelN_pure_shared {R : Route} (hR : PureShared R) (c s p : Option Val) (ops : List Op)
    (nodes : List Nat) (sch : List Entry) (hops : ∀ o ∈ ops, isKVop o) (hev : ∀ e ∈ sch, e.evict = none) :
    (modelN .repaired R c s p ops nodes sch).ths = (model .repaired R c s p ops sch).ths ∧
    (modelN .repaired R c s p ops nodes sch).fget = (model .repaired R c s p ops sch).fget ∧
    (modelN .repaired R c s p ops nodes sch).fget1 = (model .repaired R c s p ops sch).fget ∧
    (modelN .repaired R c s p ops nodes sch).trace = (model .repaired R c s p ops sch).trace ∧
    (modelN .repaired R c s p ops nodes sch).fin = (model .repaired R c s p ops sch).fin := by
  have hinit : NInv (initCfgN c s p ops nodes) :=
    ⟨rfl, rfl, fun t ht => hops _ (mkThreads_mem ops nodes t ht).1, fun t ht => Or.inl (mkThreads_mem ops nodes t ht).2⟩
  have herase : erC (initCfgN c s p ops nodes) = initCfg c s p ops := by
    simp only [erC, initCfgN, initCfg, mkThreads_er]
  have hrun := run_erase hR sch hev _ hinit
  rw [herase] at hrun
  have ho := obsOf_erC R (run .repaired R (initCfgN c s p ops nodes) sch)
  rw [hrun] at ho
  obtain ⟨h1, h2, h3, h4, h5⟩ := ho
  refine ⟨h1.symm, h2.symm, ?_, h3.symm, h4.symm⟩
  show (obsOf R (run .repaired R (initCfgN c s p ops nodes) sch)).fget1 = _
  rw [← h5]
  show finalGet R (swapN _) = finalGet R _
  exact finalGet_swap hR _

end Tunnox.C14
