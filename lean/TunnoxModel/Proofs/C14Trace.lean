import TunnoxModel.Proofs.C14Route
/-! C14 — every tier call of every facade method, in every run, addresses the tier class of the key. -/
namespace Tunnox.C14

/-- The tier a call of `op` may address. -/
def tierOK (R : Route) (op : Op) (t : Tier) : Prop :=
  match op with
  | .incr | .exp _ | .setnx _ _ | .hset _ | .hget | .hdel => t = R.ck
  | _ => t = R.ck ∨ (R.pe = true ∧ t = .persistent)

/-- Program points that talk to the persistent tier are only reached when it takes part. -/
def pcOK (R : Route) (th : Thread) : Prop :=
  match th.pc with
  | .readP | .delP _ | .exP => R.pe = true
  | _ => True

structure StepOK (R : Route) (tid : Nat) (th : Thread) (o : Out) : Prop where
  op : o.th.op = th.op
  pc : pcOK R o.th
  evs : ∀ e ∈ o.evs, e.tid = tid ∧ tierOK R th.op e.tier
  spawn : ∀ t, o.spawn = some t → pcOK R t

theorem writeStep_ok (R : Route) (tid : Nat) (ft : Option Tier) (σ : St) (th : Thread) (v : Val) (ttl : Nat)
    (hop : ∀ t, tierOK R th.op t ↔ (t = R.ck ∨ (R.pe = true ∧ t = .persistent))) :
    StepOK R tid th (writeStep R tid ft σ th v ttl) := by
  unfold writeStep
  by_cases hpe : R.pe = true
  · by_cases hf : fails ft .persistent = true
    · simp only [hpe, hf, if_true]
      exact ⟨rfl, by simp [pcOK, finish], by intro e he; simp at he; subst he; exact ⟨rfl, (hop _).2 (Or.inr ⟨hpe, rfl⟩)⟩,
        by intro t ht; simp at ht⟩
    · simp only [hpe, hf, if_true]
      exact ⟨rfl, by simp [pcOK], by intro e he; simp at he; subst he; exact ⟨rfl, (hop _).2 (Or.inr ⟨hpe, rfl⟩)⟩,
        by intro t ht; simp at ht⟩
  · by_cases hf : fails ft R.ck = true
    · simp only [hpe, hf, if_true]
      exact ⟨rfl, by simp [pcOK, finish], by intro e he; simp at he; subst he; exact ⟨rfl, (hop _).2 (Or.inl rfl)⟩,
        by intro t ht; simp at ht⟩
    · simp only [hpe, hf]
      exact ⟨rfl, by simp [pcOK, finish], by intro e he; simp at he; subst he; exact ⟨rfl, (hop _).2 (Or.inl rfl)⟩,
        by intro t ht; simp at ht⟩

theorem listCont_ok (R : Route) (op : Op) (σ : St) (th : Thread) (cur : Option Val) :
    (listCont op σ th R cur).2.op = th.op ∧ pcOK R (listCont op σ th R cur).2 := by
  unfold listCont
  cases cur with
  | none => cases op <;> simp [finish, pcOK]
  | some v =>
    simp only
    cases decodeList v <;> simp [finish, pcOK]



theorem StepOK.of_parts {R : Route} {tid : Nat} {th : Thread} {o : Out}
    (h1 : o.th.op = th.op) (h2 : pcOK R o.th) (h3 : ∀ e ∈ o.evs, e.tid = tid ∧ tierOK R th.op e.tier)
    (h4 : ∀ t, o.spawn = some t → pcOK R t) : StepOK R tid th o := ⟨h1, h2, h3, h4⟩

set_option maxHeartbeats 1000000 in
theorem stepThread_ok (lk : Bool) (R : Route) (haux : R.aux = R.ck) (tid : Nat) (ft : Option Tier) (σ : St)
    (th : Thread) (hpc : pcOK R th) : StepOK R tid th (stepThread lk R tid ft σ th) := by
  obtain ⟨op, pc, inv, ret, res, cver, rver, node⟩ := th
  cases op <;> cases pc <;>
    first
    | (exact writeStep_ok R tid ft _ _ _ _ (by intro t; simp [tierOK]))
    | (simp only [stepThread]
       repeat' split
       all_goals
         first
         | (exact writeStep_ok R tid ft _ _ _ _ (by intro t; simp [tierOK]))
         | (refine StepOK.of_parts ?_ ?_ ?_ ?_ <;>
              first
              | exact (listCont_ok R _ _ _ _).1
              | exact (listCont_ok R _ _ _ _).2
              | simp_all [pcOK, tierOK, finish, haux]))

/-- The event belongs to a call that may address that tier. -/
def evOK (R : Route) (ths : List Thread) (e : Ev) : Prop :=
  ∃ t, ths[e.tid]? = some t ∧ tierOK R t.op e.tier

structure RouteInv (R : Route) (cfg : Cfg) : Prop where
  pcs : ∀ t ∈ cfg.threads, pcOK R t
  evs : ∀ e ∈ cfg.trace, evOK R cfg.threads e

theorem evOK_mono {R : Route} {ths ths' : List Thread} {e : Ev}
    (h : ∀ (j : Nat) (t : Thread), ths[j]? = some t → ∃ t' : Thread, ths'[j]? = some t' ∧ t'.op = t.op) (he : evOK R ths e) :
    evOK R ths' e := by
  obtain ⟨t, ht, hok⟩ := he
  obtain ⟨t', ht', hop⟩ := h _ _ ht
  exact ⟨t', ht', by rw [hop]; exact hok⟩

/-- A schedule entry changes nothing but the clock, evicts a cache entry, or lets an enabled thread take
one step on the state as its node sees it. -/
theorem stepCfg_cases (V : Variant) (R : Route) (cfg : Cfg) (e : Entry) :
    stepCfg V R cfg e = { cfg with now := cfg.now + 1 } ∨
    (∃ t, e.evict = some t ∧
      stepCfg V R cfg e = { cfg with st := evictCell e.tid t cfg.st, now := cfg.now + 1 }) ∨
    ∃ th, e.evict = none ∧ cfg.threads[e.tid]? = some th ∧ enabled V.lk (view th.node cfg.st) e.tid th = true ∧
      stepCfg V R cfg e =
        { st := view th.node (stepThread V.lk R e.tid e.fault (view th.node cfg.st)
                  { th with inv := some (th.inv.getD cfg.now), ret := some cfg.now }).st
          threads := (cfg.threads.set e.tid (stepThread V.lk R e.tid e.fault (view th.node cfg.st)
                  { th with inv := some (th.inv.getD cfg.now), ret := some cfg.now }).th) ++
                  ((stepThread V.lk R e.tid e.fault (view th.node cfg.st)
                  { th with inv := some (th.inv.getD cfg.now), ret := some cfg.now }).spawn.map
                    (fun t => { t with node := th.node })).toList
          now := cfg.now + 1
          trace := (stepThread V.lk R e.tid e.fault (view th.node cfg.st)
                  { th with inv := some (th.inv.getD cfg.now), ret := some cfg.now }).evs.reverse ++ cfg.trace } := by
  unfold stepCfg
  cases hev : e.evict with
  | some t => exact Or.inr (Or.inl ⟨t, rfl, rfl⟩)
  | none =>
    simp only
    cases hth : cfg.threads[e.tid]? with
    | none => exact Or.inl rfl
    | some th =>
      simp only
      split
      · exact Or.inr (Or.inr ⟨th, trivial, rfl, by assumption, rfl⟩)
      · exact Or.inl rfl

theorem routeInv_step (V : Variant) (R : Route) (haux : R.aux = R.ck) (cfg : Cfg) (e : Entry)
    (h : RouteInv R cfg) : RouteInv R (stepCfg V R cfg e) := by
  rcases stepCfg_cases V R cfg e with heq | ⟨t, _, heq⟩ | ⟨th, _, hth, _, heq⟩
  · rw [heq]; exact ⟨h.pcs, h.evs⟩
  · rw [heq]; exact ⟨h.pcs, h.evs⟩
  · rw [heq]
    have hlt : e.tid < cfg.threads.length := by
      rcases Nat.lt_or_ge e.tid cfg.threads.length with h1 | h1
      · exact h1
      · rw [List.getElem?_eq_none h1] at hth; cases hth
    have hmem : th ∈ cfg.threads := List.mem_of_getElem? hth
    have hpc0 : pcOK R { th with inv := some (th.inv.getD cfg.now), ret := some cfg.now } := by
      have := h.pcs th hmem
      simpa [pcOK] using this
    have ok := stepThread_ok V.lk R haux e.tid e.fault (view th.node cfg.st) _ hpc0
    have hkeep : ∀ (j : Nat) (t : Thread), cfg.threads[j]? = some t →
        ∃ t' : Thread, ((cfg.threads.set e.tid
          (stepThread V.lk R e.tid e.fault (view th.node cfg.st)
            { th with inv := some (th.inv.getD cfg.now), ret := some cfg.now }).th) ++
          ((stepThread V.lk R e.tid e.fault (view th.node cfg.st)
            { th with inv := some (th.inv.getD cfg.now), ret := some cfg.now }).spawn.map
              (fun t => { t with node := th.node })).toList)[j]? = some t'
          ∧ t'.op = t.op := by
      intro j t hj
      have hjlt : j < cfg.threads.length := by
        rcases Nat.lt_or_ge j cfg.threads.length with h1 | h1
        · exact h1
        · rw [List.getElem?_eq_none h1] at hj; cases hj
      rw [List.getElem?_append_left (by simpa using hjlt)]
      by_cases hji : e.tid = j
      · subst hji
        refine ⟨_, by rw [List.getElem?_set_self hjlt], ?_⟩
        rw [ok.op]
        rw [hth] at hj
        cases hj
        rfl
      · exact ⟨t, by simp [List.getElem?_set, hji, hj], rfl⟩
    constructor
    · intro t ht
      simp only [List.mem_append] at ht
      rcases ht with ht | ht
      · rcases List.mem_or_eq_of_mem_set ht with ht | ht
        · exact h.pcs t ht
        · subst ht; exact ok.pc
      · simp only [Option.mem_toList, Option.mem_def, Option.map_eq_some_iff] at ht
        obtain ⟨t0, ht0, rfl⟩ := ht
        have := ok.spawn t0 ht0
        simpa [pcOK] using this
    · intro ev hev
      simp only [List.mem_append, List.mem_reverse] at hev
      rcases hev with hev | hev
      · obtain ⟨htid, htier⟩ := ok.evs ev hev
        obtain ⟨t', ht', hop⟩ := hkeep e.tid th hth
        exact ⟨t', by rw [htid]; exact ht', by rw [hop]; exact htier⟩
      · exact evOK_mono hkeep (h.evs ev hev)

theorem routeInv_run (V : Variant) (R : Route) (haux : R.aux = R.ck) (sch : List Entry) (cfg : Cfg)
    (h : RouteInv R cfg) : RouteInv R (run V R cfg sch) := by
  induction sch generalizing cfg with
  | nil => exact h
  | cons e rest ih => exact ih _ (routeInv_step V R haux cfg e h)

theorem routeInv_init (R : Route) (c s p : Option Val) (ops : List Op) : RouteInv R (initCfg c s p ops) := by
  constructor
  · intro t ht
    simp only [initCfg, List.mem_map] at ht
    obtain ⟨o, _, rfl⟩ := ht
    simp [pcOK]
  · intro e he
    simp [initCfg] at he

/-- `holdsRoute` on the observation of any configuration satisfying the invariant. -/
theorem holdsRoute_of_inv (R : Route) (cfg : Cfg) (h : RouteInv R cfg) :
    holdsRoute R (obsOf R cfg).ths (obsOf R cfg).trace = true := by
  simp only [holdsRoute, obsOf, List.all_eq_true, List.mem_reverse]
  intro e he
  obtain ⟨t, ht, hok⟩ := h.evs e he
  simp only [List.getElem?_map, ht, Option.map_some]
  cases hop : t.op <;> simp_all [tierOK]

end Tunnox.C14
