import TunnoxModel.Spec.C08
/-!
# C08 — invariants of the model (helper lemmas for `Props/C08.lean`)

Layers
* store algebra: what `set`/`del`/`registerConnection`/`unregisterConnection`/`refreshConnection` do to `lookup`;
* `NodeInv`  — registry facts of every node (`ctrl ⊆ conns`, `clientIDMap` entries are authenticated control
  connections of that client, open connections are exactly the reference's `opened`);
* `StoreInv` — every record names an open connection with its own node/client, every index entry names a
  connection of that client (safety: clauses B and D of `holds`);
* `LiveInv`  — for the connection of the latest successful handshake both records are present with the
  deadline the reference computes (liveness: clauses A and C).
-/
namespace Tunnox.C08

/-! ## store algebra -/

theorem lookup_set (now ttl : Nat) (s : Store) (k : Key) (v : Val) (k' : Key) :
    FMap.lookup (set now ttl s k v) k' = if k = k' then some ⟨v, expiry now ttl⟩ else FMap.lookup s k' := by
  unfold set
  by_cases h : k = k'
  · subst h; simp [FMap.lookup_insert_eq]
  · simp [h, FMap.lookup_insert_ne s _ h]

theorem lookup_del (s : Store) (k k' : Key) :
    FMap.lookup (del s k) k' = if k = k' then none else FMap.lookup s k' := by
  unfold del
  by_cases h : k = k'
  · subst h; simp [FMap.lookup_erase_eq]
  · simp [h, FMap.lookup_erase_ne s h]

theorem expiry_pos {now ttl : Nat} (h : 0 < ttl) : expiry now ttl = now + ttl := by
  unfold expiry; have : ttl ≠ 0 := by omega
  simp [this]

theorem find_some {now : Nat} {s : Store} {k : Key} {e : Entry} (h : find now s k = some e) :
    FMap.lookup s k = some e := by
  unfold find at h
  cases hl : FMap.lookup s k with
  | none => simp [hl] at h
  | some e' =>
    simp only [hl, Option.filter] at h
    split at h
    · simpa using h
    · simp at h

theorem find_of_lookup {now : Nat} {s : Store} {k : Key} {e : Entry}
    (h : FMap.lookup s k = some e) (hl : now ≤ e.exp) : find now s k = some e := by
  unfold find
  simp [h, Option.filter, live, hl]

theorem find_none_of_lookup {now : Nat} {s : Store} {k : Key} (h : FMap.lookup s k = none) :
    find now s k = none := by
  unfold find; simp [h]

/-! ## `StoreInv` -/

/-- The record `RegisterConnection` / `RefreshConnection` write for connection `c` with `ExpiresAt = u`. -/
def infoOf (c : Conn) (u : Nat) : Info := ⟨c, c.client, c.node, true, u⟩

structure StoreInv (opened : List Conn) (s : Store) : Prop where
  conn : ∀ c e, FMap.lookup s (.conn c) = some e →
    e.val = .info (infoOf c e.exp) ∧ c ∈ opened ∧ 0 < c.client ∧ 0 < e.exp
  client : ∀ x e, FMap.lookup s (.client x) = some e → ∃ c, e.val = .id c ∧ c.client = x

theorem StoreInv.empty (o : List Conn) : StoreInv o (FMap.empty : Store) :=
  ⟨fun c e h => by simp at h, fun x e h => by simp at h⟩

theorem StoreInv.del {o : List Conn} {s : Store} (h : StoreInv o s) (k : Key) : StoreInv o (del s k) := by
  constructor
  · intro c e hl
    rw [lookup_del] at hl
    split at hl
    · simp at hl
    · exact h.conn c e hl
  · intro x e hl
    rw [lookup_del] at hl
    split at hl
    · simp at hl
    · exact h.client x e hl

theorem StoreInv.mono {o o' : List Conn} {s : Store} (h : StoreInv o s) (hsub : ∀ c, c ∈ o → c ∈ o') :
    StoreInv o' s :=
  ⟨fun c e hl => ⟨(h.conn c e hl).1, hsub c (h.conn c e hl).2.1, (h.conn c e hl).2.2⟩, h.client⟩

theorem StoreInv.setConn {o : List Conn} {s : Store} (h : StoreInv o s) (now : Nat) {ttl : Nat} (httl : 0 < ttl)
    {c : Conn} (hc : c ∈ o) (hx : 0 < c.client) :
    StoreInv o (set now ttl s (.conn c) (.info (infoOf c (now + ttl)))) := by
  constructor
  · intro c' e hl
    rw [lookup_set] at hl
    split at hl
    · rename_i heq
      injection heq with heq; subst heq
      injection hl with hl; subst hl
      rw [expiry_pos httl]
      exact ⟨rfl, hc, hx, by show 0 < now + ttl; omega⟩
    · exact h.conn c' e hl
  · intro x e hl
    rw [lookup_set] at hl
    split at hl
    · rename_i heq; cases heq
    · exact h.client x e hl

theorem StoreInv.setClient {o : List Conn} {s : Store} (h : StoreInv o s) (now ttl : Nat) (c : Conn) :
    StoreInv o (set now ttl s (.client c.client) (.id c)) := by
  constructor
  · intro c' e hl
    rw [lookup_set] at hl
    split at hl
    · rename_i heq; cases heq
    · exact h.conn c' e hl
  · intro x e hl
    rw [lookup_set] at hl
    split at hl
    · rename_i heq
      injection heq with heq; subst heq
      injection hl with hl; subst hl
      exact ⟨c, rfl, rfl⟩
    · exact h.client x e hl

theorem mem_rm {c d : Conn} {xs : List Conn} : d ∈ rm c xs ↔ d ∈ xs ∧ d ≠ c := by
  simp [rm]

theorem mem_add {c d : Conn} {xs : List Conn} : d ∈ add c xs ↔ d = c ∨ d ∈ xs := by
  unfold add
  by_cases h : c ∈ xs
  · simp only [h, if_true]
    constructor
    · exact Or.inr
    · rintro (rfl | h') <;> assumption
  · simp [h]

theorem StoreInv.rmOpened {o : List Conn} {s : Store} (h : StoreInv o s) {c : Conn}
    (hn : FMap.lookup s (.conn c) = none) : StoreInv (rm c o) s := by
  constructor
  · intro c' e hl
    refine ⟨(h.conn c' e hl).1, ?_, (h.conn c' e hl).2.2⟩
    rw [mem_rm]
    refine ⟨(h.conn c' e hl).2.1, ?_⟩
    intro heq; subst heq; rw [hn] at hl; cases hl
  · exact h.client

/-! ## the `connstate.Store` operations under `StoreInv` (repaired code) -/

theorem decodable_repaired {P : Params} (hv : P.v = repaired) : decodable P = true := by
  unfold decodable; cases P.shape <;> simp [hv, repaired]

theorem gcs_cases {P : Params} (hv : P.v = repaired) {o : List Conn} {s : Store} (h : StoreInv o s)
    (now : Nat) (c : Conn) :
    (∃ e, find now s (.conn c) = some e ∧ getConnectionState P now s c = .ok (infoOf c e.exp)) ∨
    (getConnectionState P now s c = .notFound ∧ find now s (.conn c) = none) := by
  unfold getConnectionState
  cases hf : find now s (.conn c) with
  | none => right; simp
  | some e =>
    left
    obtain ⟨hv', _, _, hpos⟩ := h.conn c e (find_some hf)
    have hlive : now ≤ e.exp := by
      unfold find at hf
      cases hl : FMap.lookup s (.conn c) with
      | none => simp [hl] at hf
      | some e' =>
        simp only [hl, Option.filter] at hf
        split at hf
        · rename_i hlv
          injection hf with hf; subst hf
          simp only [live, Bool.or_eq_true, beq_iff_eq, decide_eq_true_eq] at hlv
          omega
        · cases hf
    exact ⟨e, rfl, by simp [hv', decodable_repaired hv, infoOf, hlive]⟩

theorem pointsTo_true {now : Nat} {s : Store} {x : Nat} {c : Conn}
    (h : clientIndexPointsTo now s x c = true) :
    ∃ e, find now s (.client x) = some e ∧ e.val = .id c := by
  unfold clientIndexPointsTo at h
  cases hf : find now s (.client x) with
  | none => simp [hf] at h
  | some e =>
    simp only [hf] at h
    cases hv : e.val with
    | info i => simp [hv] at h
    | id c' =>
      simp only [hv, beq_iff_eq] at h
      subst h
      exact ⟨e, rfl, hv⟩

theorem pointsTo_of_lookup {now : Nat} {s : Store} {x : Nat} {c : Conn} {u : Nat}
    (h : FMap.lookup s (.client x) = some ⟨.id c, u⟩) (hu : now ≤ u) :
    clientIndexPointsTo now s x c = true := by
  unfold clientIndexPointsTo
  rw [find_of_lookup h hu]
  simp

/-- `UnregisterConnection` removes the record, and the index only if the index names this connection. -/
theorem unregisterIndex_cases {P : Params} (hv : P.v = repaired) {o : List Conn} {s : Store}
    (h : StoreInv o s) (now : Nat) (c : Conn) :
    unregisterIndex P now s c = s ∨
    (unregisterIndex P now s c = del s (.client c.client) ∧
      ∃ e, FMap.lookup s (.client c.client) = some e ∧ e.val = .id c) := by
  unfold unregisterIndex
  rcases gcs_cases hv h now c with ⟨_, _, hg⟩ | ⟨hg, _⟩
  · rw [hg]
    simp only [infoOf, hv, repaired, Bool.true_and, if_true]
    by_cases hx : 0 < c.client
    · simp only [hx, decide_true, if_true]
      by_cases hp : clientIndexPointsTo now s c.client c = true
      · right
        obtain ⟨e, hf, hval⟩ := pointsTo_true hp
        exact ⟨by simp [hp], e, find_some hf, hval⟩
      · left; simp [hp]
    · left; simp [hx]
  · left; rw [hg]

theorem StoreInv.unregister {P : Params} (hv : P.v = repaired) {o : List Conn} {s : Store}
    (h : StoreInv o s) (now : Nat) (c : Conn) : StoreInv o (unregisterConnection P now s c) := by
  unfold unregisterConnection
  rcases unregisterIndex_cases hv h now c with he | ⟨he, _⟩ <;> rw [he]
  · exact h.del _
  · exact (h.del _).del _

theorem lookup_unregister_conn {P : Params} (hv : P.v = repaired) {o : List Conn} {s : Store}
    (h : StoreInv o s) (now : Nat) (c c' : Conn) :
    FMap.lookup (unregisterConnection P now s c) (.conn c') =
      if c = c' then none else FMap.lookup s (.conn c') := by
  unfold unregisterConnection
  rw [lookup_del]
  by_cases hc : c = c'
  · simp [hc]
  · have hk : ¬ (Key.conn c = Key.conn c') := by intro hk; injection hk with hk; exact hc hk
    simp only [hk, hc, if_false]
    rcases unregisterIndex_cases hv h now c with he | ⟨he, _⟩ <;> rw [he]
    rw [lookup_del]; simp

theorem lookup_unregister_client {P : Params} (hv : P.v = repaired) {o : List Conn} {s : Store}
    (h : StoreInv o s) (now : Nat) (c : Conn) (x : Nat) :
    FMap.lookup (unregisterConnection P now s c) (.client x) = FMap.lookup s (.client x) ∨
    (FMap.lookup (unregisterConnection P now s c) (.client x) = none ∧ x = c.client ∧
      ∃ e, FMap.lookup s (.client x) = some e ∧ e.val = .id c) := by
  unfold unregisterConnection
  rw [lookup_del]
  simp only [reduceCtorEq, if_false]
  rcases unregisterIndex_cases hv h now c with he | ⟨he, e, hl, hval⟩ <;> rw [he]
  · left; rfl
  · rw [lookup_del]
    by_cases hx : c.client = x
    · subst hx; right; simp; exact ⟨e, hl, hval⟩
    · left
      have : ¬ (Key.client c.client = Key.client x) := by intro hk; injection hk with hk; exact hx hk
      simp [this]

/-- `RegisterConnection` for the record of `c` (a control connection of a known client). -/
theorem register_eq (P : Params) (now : Nat) (s : Store) {c : Conn} (hx : 0 < c.client) (a : Nat) :
    registerConnection P c.node now s ⟨c, c.client, c.node, true, a⟩ =
      set now P.ttl (set now P.ttl s (.conn c) (.info (infoOf c (now + P.ttl)))) (.client c.client) (.id c) := by
  unfold registerConnection infoOf
  simp [hx]

theorem refresh_cases {P : Params} (hv : P.v = repaired) {o : List Conn} {s : Store}
    (h : StoreInv o s) (now : Nat) (c : Conn) :
    refreshConnection P now s c = s ∨
    ((∃ e, FMap.lookup s (.conn c) = some e) ∧ 0 < c.client ∧
      ((refreshConnection P now s c = set now P.ttl s (.conn c) (.info (infoOf c (now + P.ttl))) ∧
          clientIndexPointsTo now s c.client c = false) ∨
       (refreshConnection P now s c =
          set now P.ttl (set now P.ttl s (.conn c) (.info (infoOf c (now + P.ttl)))) (.client c.client) (.id c) ∧
          clientIndexPointsTo now s c.client c = true))) := by
  unfold refreshConnection
  rcases gcs_cases hv h now c with ⟨e, hf, hg⟩ | ⟨hg, _⟩
  · right
    have hx := (h.conn c e (find_some hf)).2.2.1
    refine ⟨⟨e, find_some hf⟩, hx, ?_⟩
    rw [hg]
    by_cases hp : clientIndexPointsTo now s c.client c = true
    · right; simp [infoOf, hp, hx]
    · left; simp [infoOf, hp]
  · left; rw [hg]

theorem StoreInv.refresh {P : Params} (hv : P.v = repaired) (httl : 0 < P.ttl) {o : List Conn} {s : Store}
    (h : StoreInv o s) (now : Nat) (c : Conn) : StoreInv o (refreshConnection P now s c) := by
  rcases refresh_cases hv h now c with he | ⟨⟨e, hl⟩, hx, ⟨he, _⟩ | ⟨he, _⟩⟩ <;> rw [he]
  · exact h
  · exact h.setConn now httl (h.conn c e hl).2.1 hx
  · exact (h.setConn now httl (h.conn c e hl).2.1 hx).setClient now P.ttl c

/-! ## `NodeOk` / `NodeInv`: registry facts -/

structure NodeOk (j : Nat) (n : NodeSt) : Prop where
  ctrl_conns : ∀ c, c ∈ n.ctrl → c ∈ n.conns
  node_eq : ∀ c, c ∈ n.conns → c.node = j
  byClient : ∀ x c, FMap.lookup n.byClient x = some c → c ∈ n.ctrl ∧ c ∈ n.authed ∧ c.client = x ∧ 0 < x

theorem NodeOk.empty (j : Nat) : NodeOk j NodeSt.empty :=
  ⟨fun c h => by simp [NodeSt.empty] at h, fun c h => by simp [NodeSt.empty] at h,
   fun x c h => by simp [NodeSt.empty] at h⟩

theorem NodeOk.of_addConn {j : Nat} {n : NodeSt} (h : NodeOk j n) {c : Conn} (hc : c.node = j) :
    NodeOk j (n.addConn c) := by
  constructor
  · intro d hd
    simp only [NodeSt.addConn, mem_add] at hd ⊢
    exact Or.inr (h.ctrl_conns d hd)
  · intro d hd
    simp only [NodeSt.addConn, mem_add] at hd
    rcases hd with rfl | hd
    · exact hc
    · exact h.node_eq d hd
  · intro x d hl
    exact h.byClient x d hl

theorem NodeOk.of_addCtrl {j : Nat} {n : NodeSt} (h : NodeOk j n) {c : Conn} (hc : c ∈ n.ctrl ∨ c ∈ n.conns) :
    NodeOk j (n.addCtrl c) := by
  constructor
  · intro d hd
    simp only [NodeSt.addCtrl, mem_add] at hd ⊢
    rcases hd with rfl | hd
    · rcases hc with hc | hc
      · exact h.ctrl_conns _ hc
      · exact hc
    · exact h.ctrl_conns d hd
  · exact h.node_eq
  · intro x d hl
    obtain ⟨h1, h2, h3, h4⟩ := h.byClient x d hl
    refine ⟨?_, h2, h3, h4⟩
    simp only [NodeSt.addCtrl, mem_add]; exact Or.inr h1

theorem NodeOk.of_addAuth {j : Nat} {n : NodeSt} (h : NodeOk j n) {c : Conn} (hc : c ∈ n.ctrl ∨ c ∈ n.conns) :
    NodeOk j (n.addAuth c) := by
  constructor
  · intro d hd
    simp only [NodeSt.addAuth, mem_add] at hd ⊢
    rcases hd with rfl | hd
    · rcases hc with hc | hc
      · exact h.ctrl_conns _ hc
      · exact hc
    · exact h.ctrl_conns d hd
  · exact h.node_eq
  · intro x d hl
    obtain ⟨h1, h2, h3, h4⟩ := h.byClient x d hl
    refine ⟨?_, ?_, h3, h4⟩
    · simp only [NodeSt.addAuth, mem_add]; exact Or.inr h1
    · simp only [NodeSt.addAuth, mem_add]; exact Or.inr h2

@[simp] theorem conns_regRemove (n : NodeSt) (c : Conn) : (regRemove n c).conns = n.conns := by
  unfold regRemove; split <;> rfl

theorem mem_ctrl_regRemove {n : NodeSt} {c d : Conn} : d ∈ (regRemove n c).ctrl ↔ d ∈ n.ctrl ∧ d ≠ c := by
  unfold regRemove
  by_cases hc : c ∈ n.ctrl
  · simp only [hc, if_true, mem_rm]
  · simp only [hc, if_false]
    constructor
    · intro hd; exact ⟨hd, fun e => hc (e ▸ hd)⟩
    · exact fun hd => hd.1

theorem mem_authed_regRemove {n : NodeSt} {c d : Conn} (hd : d ∈ n.authed) (hne : d ≠ c) :
    d ∈ (regRemove n c).authed := by
  unfold regRemove
  by_cases hc : c ∈ n.ctrl
  · simp only [hc, if_true, mem_rm]; exact ⟨hd, hne⟩
  · simp only [hc, if_false]; exact hd

/-- `clientIDMap` after `Remove(c)`: the entry of `c` (if it is `c`'s) is gone, nothing else changes. -/
theorem lookup_byClient_regRemove {j : Nat} {n : NodeSt} (h : NodeOk j n) (c : Conn) (x : Nat) :
    FMap.lookup (regRemove n c).byClient x =
      if FMap.lookup n.byClient x = some c then none else FMap.lookup n.byClient x := by
  unfold regRemove
  by_cases hc : c ∈ n.ctrl
  · simp only [hc, if_true]
    by_cases hl : FMap.lookup n.byClient x = some c
    · obtain ⟨_, _, h3, _⟩ := h.byClient x c hl
      subst h3
      simp [hl, FMap.lookup_erase_eq]
    · simp only [hl, if_false]
      split
      · rename_i hcond
        have hne : c.client ≠ x := by
          intro e; subst e; exact hl hcond
        exact FMap.lookup_erase_ne _ hne
      · rfl
  · simp only [hc, if_false]
    by_cases hl : FMap.lookup n.byClient x = some c
    · exact absurd (h.byClient x c hl).1 hc
    · simp [hl]

theorem NodeOk.of_regRemove {j : Nat} {n : NodeSt} (h : NodeOk j n) (c : Conn) : NodeOk j (regRemove n c) := by
  constructor
  · intro d hd
    rw [conns_regRemove]
    exact h.ctrl_conns d (mem_ctrl_regRemove.mp hd).1
  · intro d hd
    rw [conns_regRemove] at hd
    exact h.node_eq d hd
  · intro x d hl
    rw [lookup_byClient_regRemove h] at hl
    split at hl
    · cases hl
    · rename_i hne
      obtain ⟨h1, h2, h3, h4⟩ := h.byClient x d hl
      have hdc : d ≠ c := by intro e; subst e; exact hne hl
      exact ⟨mem_ctrl_regRemove.mpr ⟨h1, hdc⟩, mem_authed_regRemove h2 hdc, h3, h4⟩

theorem regRemove_dropConn_ctrl (n : NodeSt) (c : Conn) :
    (regRemove (n.dropConn c) c).ctrl = (regRemove n c).ctrl := by
  unfold regRemove NodeSt.dropConn
  by_cases h : c ∈ n.ctrl <;> simp [h]

theorem regRemove_dropConn_authed (n : NodeSt) (c : Conn) :
    (regRemove (n.dropConn c) c).authed = (regRemove n c).authed := by
  unfold regRemove NodeSt.dropConn
  by_cases h : c ∈ n.ctrl <;> simp [h]

theorem regRemove_dropConn_byClient (n : NodeSt) (c : Conn) :
    (regRemove (n.dropConn c) c).byClient = (regRemove n c).byClient := by
  unfold regRemove NodeSt.dropConn
  by_cases h : c ∈ n.ctrl <;> simp [h]

/-- `CloseConnection`: drop from `connMap`, then from the registry. -/
theorem NodeOk.close {j : Nat} {n : NodeSt} (h : NodeOk j n) (c : Conn) :
    NodeOk j (regRemove (n.dropConn c) c) := by
  have hd : NodeOk j (regRemove n c) := h.of_regRemove c
  constructor
  · intro d hd'
    have hm : d ∈ n.ctrl ∧ d ≠ c := by
      rw [regRemove_dropConn_ctrl] at hd'
      exact mem_ctrl_regRemove.mp hd'
    rw [conns_regRemove]
    simp only [NodeSt.dropConn, mem_rm]
    exact ⟨h.ctrl_conns d hm.1, hm.2⟩
  · intro d hd'
    rw [conns_regRemove] at hd'
    simp only [NodeSt.dropConn, mem_rm] at hd'
    exact h.node_eq d hd'.1
  · intro x d hl
    have hl' : FMap.lookup (regRemove n c).byClient x = some d := by
      rw [regRemove_dropConn_byClient] at hl; exact hl
    obtain ⟨h1, h2, h3, h4⟩ := hd.byClient x d hl'
    refine ⟨?_, ?_, h3, h4⟩
    · rw [regRemove_dropConn_ctrl]; exact h1
    · rw [regRemove_dropConn_authed]; exact h2

@[simp] theorem conns_hsNode (n : NodeSt) (c : Conn) : (hsNode n c).conns = n.conns := by
  unfold hsNode
  split
  · split <;> simp
  · rfl

theorem lookup_byClient_hsNode {j : Nat} {n : NodeSt} (h : NodeOk j n) (c : Conn) (x : Nat) :
    FMap.lookup (hsNode n c).byClient x =
      if c.client = x then some c else FMap.lookup n.byClient x := by
  unfold hsNode
  by_cases hx : c.client = x
  · subst hx
    split
    · split <;> simp [FMap.lookup_insert_eq]
    · simp [FMap.lookup_insert_eq]
  · simp only [hx, if_false]
    split
    · rename_i o ho
      split
      · simp only [FMap.lookup_insert_ne _ _ hx]
        rw [lookup_byClient_regRemove h]
        split
        · rename_i hlo
          have := (h.byClient x o hlo).2.2.1
          have h2 := (h.byClient c.client o ho).2.2.1
          exact absurd (h2.symm.trans this) hx
        · rfl
      · simp [FMap.lookup_insert_ne _ _ hx]
    · simp [FMap.lookup_insert_ne _ _ hx]

theorem mem_ctrl_hsNode {n : NodeSt} {c d : Conn} (hd : d ∈ n.ctrl)
    (hne : FMap.lookup n.byClient c.client ≠ some d ∨ d = c) : d ∈ (hsNode n c).ctrl := by
  unfold hsNode
  split
  · rename_i o ho
    split
    · rename_i hoc
      simp only
      refine mem_ctrl_regRemove.mpr ⟨hd, ?_⟩
      intro e; subst e
      rcases hne with hne | hne
      · exact hne ho
      · exact hoc hne
    · exact hd
  · exact hd

theorem mem_authed_hsNode {n : NodeSt} {c d : Conn} (hd : d ∈ n.authed)
    (hne : FMap.lookup n.byClient c.client ≠ some d ∨ d = c) : d ∈ (hsNode n c).authed := by
  unfold hsNode
  split
  · rename_i o ho
    split
    · rename_i hoc
      simp only
      refine mem_authed_regRemove hd ?_
      intro e; subst e
      rcases hne with hne | hne
      · exact hne ho
      · exact hoc hne
    · exact hd
  · exact hd

theorem mem_ctrl_hsNode_sub {n : NodeSt} {c d : Conn} (hd : d ∈ (hsNode n c).ctrl) : d ∈ n.ctrl := by
  unfold hsNode at hd
  split at hd
  · split at hd
    · exact (mem_ctrl_regRemove.mp hd).1
    · exact hd
  · exact hd

theorem NodeOk.of_hsNode {j : Nat} {n : NodeSt} (h : NodeOk j n) {c : Conn} (hc : c ∈ n.ctrl)
    (ha : c ∈ n.authed) (hx : 0 < c.client) : NodeOk j (hsNode n c) := by
  constructor
  · intro d hd
    rw [conns_hsNode]
    exact h.ctrl_conns d (mem_ctrl_hsNode_sub hd)
  · intro d hd
    rw [conns_hsNode] at hd
    exact h.node_eq d hd
  · intro x d hl
    rw [lookup_byClient_hsNode h] at hl
    split at hl
    · rename_i hcx
      injection hl with hl; subst hl
      exact ⟨mem_ctrl_hsNode hc (Or.inr rfl), mem_authed_hsNode ha (Or.inr rfl), hcx, hcx ▸ hx⟩
    · rename_i hcx
      obtain ⟨h1, h2, h3, h4⟩ := h.byClient x d hl
      have hne : FMap.lookup n.byClient c.client ≠ some d := by
        intro e
        exact hcx ((h.byClient c.client d e).2.2.1.symm.trans h3)
      exact ⟨mem_ctrl_hsNode h1 (Or.inl hne), mem_authed_hsNode h2 (Or.inl hne), h3, h4⟩

/-! ## the global invariant -/

theorem upd_same (f : Nat → NodeSt) (j : Nat) (n : NodeSt) : upd f j n j = n := by simp [upd]
theorem upd_other (f : Nat → NodeSt) {i j : Nat} (n : NodeSt) (h : i ≠ j) : upd f j n i = f i := by simp [upd, h]

/-- For the connection of the latest successful handshake of a client both records exist, with the deadline
the reference computes, and the node's registry maps the client to it. -/
def LiveInv (latest : LMap) (opened : List Conn) (nodes : Nat → NodeSt) (s : Store) : Prop :=
  ∀ x c u, LMap.lookup latest x = some (c, u) →
    c.client = x ∧ 0 < x ∧ c ∈ opened ∧
    FMap.lookup (nodes c.node).byClient x = some c ∧
    FMap.lookup s (.conn c) = some ⟨.info (infoOf c u), u⟩ ∧
    FMap.lookup s (.client x) = some ⟨.id c, u⟩

theorem LiveInv.frame {latest : LMap} {o o' : List Conn} {nodes nodes' : Nat → NodeSt} {s : Store}
    (h : LiveInv latest o nodes s) (ho : ∀ c, c ∈ o → c ∈ o')
    (hb : ∀ j, (nodes' j).byClient = (nodes j).byClient) : LiveInv latest o' nodes' s := by
  intro x c u hl
  obtain ⟨h1, h2, h3, h4, h5, h6⟩ := h x c u hl
  exact ⟨h1, h2, ho c h3, by rw [hb]; exact h4, h5, h6⟩

structure Inv (S : SpecSt) (M : St) : Prop where
  now_eq : S.now = M.now
  nodeOk : ∀ j, NodeOk j (M.nodes j)
  conns_opened : ∀ j c, c ∈ (M.nodes j).conns → c ∈ S.opened
  store : StoreInv S.opened M.store
  live : LiveInv S.latest S.opened M.nodes M.store
  down_eq : S.down = M.down

theorem Inv.init : Inv SpecSt.init St.init :=
  ⟨rfl, fun j => NodeOk.empty j, fun j c h => by simp [St.init, NodeSt.empty] at h,
   StoreInv.empty _, fun x c u h => by simp [SpecSt.init, LMap.lookup, LMap.empty] at h, rfl⟩

/-- A node update at `j` that keeps `connMap` and `clientIDMap` (registry bookkeeping only). -/
theorem Inv.nodeOnly {S : SpecSt} {M : St} (h : Inv S M) (j : Nat) (n' : NodeSt)
    (hok : NodeOk j n') (hconns : n'.conns = (M.nodes j).conns) (hbc : n'.byClient = (M.nodes j).byClient) :
    Inv S { M with nodes := upd M.nodes j n' } := by
  refine ⟨h.now_eq, ?_, ?_, h.store, ?_, h.down_eq⟩
  · intro i
    by_cases hi : i = j
    · subst hi; simp only [upd_same]; exact hok
    · simp only [upd_other _ _ hi]; exact h.nodeOk i
  · intro i c
    by_cases hi : i = j
    · subst hi; simp only [upd_same, hconns]; exact h.conns_opened i c
    · simp only [upd_other _ _ hi]; exact h.conns_opened i c
  · refine h.live.frame (fun c hc => hc) ?_
    intro i
    by_cases hi : i = j
    · subst hi; simp only [upd_same]; exact hbc
    · simp only [upd_other _ _ hi]

theorem Inv.open {S : SpecSt} {M : St} (h : Inv S M) (c : Conn) :
    Inv (specStepCore ttl S (stepOk M (.open c)) (.open c)) (createConnection M c) := by
  unfold createConnection
  by_cases hs : c ∈ (M.nodes c.node).streams
  · simp only [hs, if_true, specStepCore, stepOk]
    simpa using h
  · simp only [hs, if_false, specStepCore, stepOk, not_false_eq_true, decide_true, if_true]
    refine ⟨h.now_eq, ?_, ?_, ?_, ?_, h.down_eq⟩
    · intro i
      by_cases hi : i = c.node
      · subst hi; simp only [upd_same]; exact (h.nodeOk _).of_addConn rfl
      · simp only [upd_other _ _ hi]; exact h.nodeOk i
    · intro i d
      simp only [mem_add]
      by_cases hi : i = c.node
      · subst hi
        simp only [upd_same, NodeSt.addConn, mem_add]
        rintro (hd | hd)
        · exact Or.inl hd
        · exact Or.inr (h.conns_opened _ d hd)
      · simp only [upd_other _ _ hi]
        exact fun hd => Or.inr (h.conns_opened i d hd)
    · exact h.store.mono (fun d hd => mem_add.mpr (Or.inr hd))
    · refine h.live.frame (fun d hd => mem_add.mpr (Or.inr hd)) ?_
      intro i
      by_cases hi : i = c.node
      · subst hi; simp [upd_same, NodeSt.addConn]
      · simp only [upd_other _ _ hi]

theorem Inv.tick {S : SpecSt} {M : St} (h : Inv S M) (dt : Nat) :
    Inv { S with now := S.now + dt } { M with now := M.now + dt } :=
  ⟨by simp [h.now_eq], h.nodeOk, h.conns_opened, h.store, h.live, h.down_eq⟩

/-! ## handshake -/

theorem hsStore_eq (P : Params) (now : Nat) (s : Store) (n : NodeSt) {c : Conn} (hx : 0 < c.client) :
    ∃ s', hsStore P now s n c =
        set now P.ttl (set now P.ttl s' (.conn c) (.info (infoOf c (now + P.ttl)))) (.client c.client) (.id c) ∧
      (s' = s ∨ ∃ o, FMap.lookup n.byClient c.client = some o ∧ o ≠ c ∧ s' = unregisterConnection P now s o) := by
  unfold hsStore
  cases hl : FMap.lookup n.byClient c.client with
  | none => exact ⟨s, by simp [register_eq P now s hx 0], Or.inl rfl⟩
  | some o =>
    by_cases hoc : o = c
    · exact ⟨s, by simp [hoc, register_eq P now s hx 0], Or.inl rfl⟩
    · exact ⟨unregisterConnection P now s o, by simp [hoc, register_eq P now _ hx 0], Or.inr ⟨o, rfl, hoc, rfl⟩⟩

theorem StoreInv.hsStore {P : Params} (hv : P.v = repaired) (httl : 0 < P.ttl) {o : List Conn} {s : Store} (h : StoreInv o s)
    (now : Nat) (n : NodeSt) {c : Conn} (hc : c ∈ o) (hx : 0 < c.client) : StoreInv o (hsStore P now s n c) := by
  obtain ⟨s', he, hs'⟩ := hsStore_eq P now s n hx
  rw [he]
  rcases hs' with rfl | ⟨o', _, _, rfl⟩
  · exact (h.setConn now httl hc hx).setClient now P.ttl c
  · exact ((h.unregister hv now o').setConn now httl hc hx).setClient now P.ttl c

theorem hsStore_conn_self (P : Params) (now : Nat) (s : Store) (n : NodeSt) {c : Conn} (hx : 0 < c.client) :
    FMap.lookup (hsStore P now s n c) (.conn c) = some ⟨.info (infoOf c (now + P.ttl)), expiry now P.ttl⟩ := by
  obtain ⟨s', he, _⟩ := hsStore_eq P now s n hx
  rw [he, lookup_set, lookup_set]; simp

theorem hsStore_client_self (P : Params) (now : Nat) (s : Store) (n : NodeSt) {c : Conn} (hx : 0 < c.client) :
    FMap.lookup (hsStore P now s n c) (.client c.client) = some ⟨.id c, expiry now P.ttl⟩ := by
  obtain ⟨s', he, _⟩ := hsStore_eq P now s n hx
  rw [he, lookup_set]; simp

theorem hsStore_conn_other {P : Params} (hv : P.v = repaired) {o : List Conn} {s : Store} (h : StoreInv o s)
    (now : Nat) {j : Nat} {n : NodeSt} (hn : NodeOk j n) {c c2 : Conn} (hx : 0 < c.client)
    (hne : c2.client ≠ c.client) :
    FMap.lookup (hsStore P now s n c) (.conn c2) = FMap.lookup s (.conn c2) := by
  obtain ⟨s', he, hs'⟩ := hsStore_eq P now s n hx
  have hcc : c ≠ c2 := fun e => hne (e ▸ rfl)
  have hk : ¬ (Key.conn c = Key.conn c2) := by intro hk; injection hk with hk; exact hcc hk
  rw [he, lookup_set, lookup_set]
  simp only [reduceCtorEq, if_false, hk]
  rcases hs' with rfl | ⟨o', ho', _, rfl⟩
  · rfl
  · rw [lookup_unregister_conn hv h]
    have : o' ≠ c2 := by
      intro e; subst e
      exact hne (hn.byClient _ _ ho').2.2.1
    simp [this]

theorem hsStore_client_other {P : Params} (hv : P.v = repaired) {o : List Conn} {s : Store} (h : StoreInv o s)
    (now : Nat) {j : Nat} {n : NodeSt} (hn : NodeOk j n) {c : Conn} {y : Nat} (hx : 0 < c.client)
    (hne : y ≠ c.client) :
    FMap.lookup (hsStore P now s n c) (.client y) = FMap.lookup s (.client y) := by
  obtain ⟨s', he, hs'⟩ := hsStore_eq P now s n hx
  have hk : ¬ (Key.client c.client = Key.client y) := by intro hk; injection hk with hk; exact hne hk.symm
  rw [he, lookup_set, lookup_set]
  simp only [reduceCtorEq, if_false, hk]
  rcases hs' with rfl | ⟨o', ho', _, rfl⟩
  · rfl
  · rcases lookup_unregister_client hv h now o' y with he' | ⟨_, hy, _⟩
    · exact he'
    · exact absurd (hy.trans (hn.byClient _ _ ho').2.2.1) hne

theorem Inv.handshake {P : Params} (hv : P.v = repaired) (httl : 0 < P.ttl) {S : SpecSt} {M : St} (h : Inv S M)
    (c : Conn) (ok : Bool) :
    Inv (specStepCore P.ttl S (stepOk M (.hs c ok)) (.hs c ok)) (handleHandshake P M c true ok) := by
  unfold handleHandshake
  by_cases hnf : c ∉ (M.nodes c.node).ctrl ∧ c ∉ (M.nodes c.node).conns
  · simp only [hnf, and_self, specStepCore, stepOk]
    simp; exact h
  · simp only [hnf, if_false]
    have hfound : c ∈ (M.nodes c.node).ctrl ∨ c ∈ (M.nodes c.node).conns := by
      by_cases h1 : c ∈ (M.nodes c.node).ctrl
      · exact Or.inl h1
      · by_cases h2 : c ∈ (M.nodes c.node).conns
        · exact Or.inr h2
        · exact absurd ⟨h1, h2⟩ hnf
    cases ok with
    | false =>
      simp only [Bool.not_false, if_true, specStepCore, Bool.false_and, Bool.false_eq_true, if_false]
      exact h.nodeOnly c.node _ ((h.nodeOk _).of_addCtrl hfound) rfl rfl
    | true =>
      simp only [Bool.not_true, Bool.false_eq_true, if_false]
      by_cases hdead : c ∈ (M.nodes c.node).dead
      · simp only [hdead, decide_true, if_true, specStepCore, stepOk, not_true_eq_false, decide_false,
          Bool.and_false, Bool.false_and, Bool.false_eq_true, if_false]
        exact h.nodeOnly c.node _ ((h.nodeOk _).of_addAuth hfound) rfl rfl
      · simp only [hdead, decide_false, Bool.false_eq_true, if_false]
        by_cases hx0 : c.client = 0
        · simp only [hx0, decide_true, Bool.or_true, if_true, specStepCore, Nat.lt_irrefl, gt_iff_lt, decide_false,
            Bool.and_false, Bool.false_eq_true, if_false]
          exact h.nodeOnly c.node _ ((h.nodeOk _).of_addAuth hfound) rfl rfl
        · have hx : 0 < c.client := Nat.pos_of_ne_zero hx0
          have hr : stepOk M (.hs c true) = true := by
            simp only [stepOk, Bool.true_and, hdead, not_false_eq_true, decide_true, Bool.and_true,
              Bool.or_eq_true, decide_eq_true_eq]
            exact hfound
          simp only [hx0, decide_false, Bool.or_false, Bool.false_eq_true, if_false, specStepCore, hr,
            Bool.true_and, gt_iff_lt, hx, decide_true, if_true]
          -- the registering branch
          have hn := h.nodeOk c.node
          have hn1 : NodeOk c.node ((M.nodes c.node).addAuth c) := hn.of_addAuth hfound
          have hc1 : c ∈ ((M.nodes c.node).addAuth c).ctrl := by simp [NodeSt.addAuth, mem_add]
          have ha1 : c ∈ ((M.nodes c.node).addAuth c).authed := by simp [NodeSt.addAuth, mem_add]
          have hconn : c ∈ (M.nodes c.node).conns := by
            rcases hfound with hf | hf
            · exact hn.ctrl_conns c hf
            · exact hf
          have hopen : c ∈ S.opened := h.conns_opened _ c hconn
          refine ⟨h.now_eq, ?_, ?_, ?_, ?_, h.down_eq⟩
          · intro i
            by_cases hi : i = c.node
            · subst hi; simp only [upd_same]; exact hn1.of_hsNode hc1 ha1 hx
            · simp only [upd_other _ _ hi]; exact h.nodeOk i
          · intro i d
            by_cases hi : i = c.node
            · subst hi; simp only [upd_same, conns_hsNode, NodeSt.addAuth]; exact h.conns_opened _ d
            · simp only [upd_other _ _ hi]; exact h.conns_opened i d
          · exact h.store.hsStore hv httl M.now _ hopen hx
          · intro y c2 u2 hl
            by_cases hy : c.client = y
            · subst hy
              rw [LMap.lookup_insert_eq] at hl
              injection hl with hl; injection hl with hl1 hl2; subst hl1; subst hl2
              refine ⟨rfl, hx, hopen, ?_, ?_, ?_⟩
              · simp only [upd_same, lookup_byClient_hsNode hn1, if_true]
              · rw [hsStore_conn_self P M.now M.store _ hx, expiry_pos httl, h.now_eq]
              · rw [hsStore_client_self P M.now M.store _ hx, expiry_pos httl, h.now_eq]
            · rw [LMap.lookup_insert_ne _ _ hy] at hl
              obtain ⟨h1, h2, h3, h4, h5, h6⟩ := h.live y c2 u2 hl
              have hne2 : c2.client ≠ c.client := by rw [h1]; exact fun e => hy e.symm
              refine ⟨h1, h2, h3, ?_, ?_, ?_⟩
              · by_cases hi : c2.node = c.node
                · have hu : (upd M.nodes c.node (hsNode ((M.nodes c.node).addAuth c) c)) c2.node =
                      hsNode ((M.nodes c.node).addAuth c) c := by rw [hi]; exact upd_same _ _ _
                  show FMap.lookup ((upd M.nodes c.node (hsNode ((M.nodes c.node).addAuth c) c)) c2.node).byClient y = some c2
                  rw [hu, lookup_byClient_hsNode hn1]
                  simp only [hy, if_false]
                  have hb : ((M.nodes c.node).addAuth c).byClient = (M.nodes c.node).byClient := rfl
                  rw [hb, ← hi]; exact h4
                · simp only [upd_other _ _ hi]; exact h4
              · rw [hsStore_conn_other hv h.store M.now hn hx hne2]; exact h5
              · rw [hsStore_client_other hv h.store M.now hn hx (fun e => hy e.symm)]; exact h6

theorem Inv.handshakeTunnel {P : Params} {S : SpecSt} {M : St} (h : Inv S M) (c : Conn) (ok : Bool) :
    Inv (specStepCore P.ttl S (stepOk M (.hsTunnel c ok)) (.hsTunnel c ok)) (handleHandshake P M c false ok) := by
  unfold handleHandshake
  simp only [specStepCore]
  by_cases hnf : c ∉ (M.nodes c.node).ctrl ∧ c ∉ (M.nodes c.node).conns
  · simp only [hnf, and_self]; exact h
  · simp only [hnf, if_false]
    have hfound : c ∈ (M.nodes c.node).ctrl ∨ c ∈ (M.nodes c.node).conns := by
      by_cases h1 : c ∈ (M.nodes c.node).ctrl
      · exact Or.inl h1
      · by_cases h2 : c ∈ (M.nodes c.node).conns
        · exact Or.inr h2
        · exact absurd ⟨h1, h2⟩ hnf
    cases ok with
    | false =>
      simp only [Bool.not_false, if_true]
      exact h.nodeOnly c.node _ ((h.nodeOk _).of_addCtrl hfound) rfl rfl
    | true =>
      simp only [Bool.not_true, Bool.false_eq_true, if_false, Bool.not_false, Bool.true_or, if_true]
      split <;> exact h.nodeOnly c.node _ ((h.nodeOk _).of_addAuth hfound) rfl rfl

/-! ## heartbeat -/

theorem refresh_live {P : Params} (hv : P.v = repaired) {s : Store} {now u u' : Nat} {c : Conn}
    (hx : 0 < c.client)
    (h1 : FMap.lookup s (.conn c) = some ⟨.info (infoOf c u), u⟩) (hu : now ≤ u)
    (h2 : FMap.lookup s (.client c.client) = some ⟨.id c, u'⟩) (hu' : now ≤ u') :
    refreshConnection P now s c =
      set now P.ttl (set now P.ttl s (.conn c) (.info (infoOf c (now + P.ttl)))) (.client c.client) (.id c) := by
  unfold refreshConnection getConnectionState
  rw [find_of_lookup h1 hu]
  simp [decodable_repaired hv, infoOf, hx, hu, pointsTo_of_lookup h2 hu']

theorem refresh_conn_other {P : Params} (hv : P.v = repaired) {o : List Conn} {s : Store} (h : StoreInv o s)
    (now : Nat) {c c2 : Conn} (hne : c2 ≠ c) :
    FMap.lookup (refreshConnection P now s c) (.conn c2) = FMap.lookup s (.conn c2) := by
  have hk : ¬ (Key.conn c = Key.conn c2) := by intro hk; injection hk with hk; exact hne hk.symm
  rcases refresh_cases hv h now c with he | ⟨_, _, ⟨he, _⟩ | ⟨he, _⟩⟩ <;> rw [he]
  · rw [lookup_set]; simp [hk]
  · rw [lookup_set, lookup_set]; simp [hk]

theorem refresh_client_other {P : Params} (hv : P.v = repaired) {o : List Conn} {s : Store} (h : StoreInv o s)
    (now : Nat) {c : Conn} {y : Nat} (hne : y ≠ c.client ∨ clientIndexPointsTo now s c.client c = false) :
    FMap.lookup (refreshConnection P now s c) (.client y) = FMap.lookup s (.client y) := by
  rcases refresh_cases hv h now c with he | ⟨_, _, ⟨he, _⟩ | ⟨he, hp⟩⟩ <;> rw [he]
  · rw [lookup_set]; simp
  · rw [lookup_set, lookup_set]
    rcases hne with hne | hne
    · have hk : ¬ (Key.client c.client = Key.client y) := by intro hk; injection hk with hk; exact hne hk.symm
      simp [hk]
    · rw [hp] at hne; cases hne

theorem Inv.heartbeat {P : Params} (hv : P.v = repaired) (httl : 0 < P.ttl) {S : SpecSt} {M : St} (h : Inv S M)
    (c : Conn) :
    Inv (specStepCore P.ttl S (stepOk M (.hb c)) (.hb c)) (handleHeartbeat P M c) := by
  unfold handleHeartbeat
  have hrb : P.v.refreshHb = true := by simp [hv, repaired]
  by_cases hg : c ∈ (M.nodes c.node).ctrl ∧ c ∈ (M.nodes c.node).authed ∧ 0 < c.client
  · -- the records are refreshed
    have hcond : (P.v.refreshHb && decide (c ∈ (M.nodes c.node).ctrl) && decide (c ∈ (M.nodes c.node).authed)
        && decide (c.client > 0)) = true := by simp [hrb, hg.1, hg.2.1, hg.2.2]
    simp only [hcond, if_true, specStepCore]
    -- every reference obligation of a connection other than `c` survives the refresh
    have hother : ∀ y c2 u2, LMap.lookup S.latest y = some (c2, u2) → c2 ≠ c →
        c2.client = y ∧ 0 < y ∧ c2 ∈ S.opened ∧ FMap.lookup (M.nodes c2.node).byClient y = some c2 ∧
        FMap.lookup (refreshConnection P M.now M.store c) (.conn c2) = some ⟨.info (infoOf c2 u2), u2⟩ ∧
        FMap.lookup (refreshConnection P M.now M.store c) (.client y) = some ⟨.id c2, u2⟩ := by
      intro y c2 u2 hl hne
      obtain ⟨h1, h2, h3, h4, h5, h6⟩ := h.live y c2 u2 hl
      refine ⟨h1, h2, h3, h4, ?_, ?_⟩
      · rw [refresh_conn_other hv h.store M.now hne]; exact h5
      · rw [refresh_client_other hv h.store M.now]
        · exact h6
        · by_cases hy : y = c.client
          · right
            cases hp : clientIndexPointsTo M.now M.store c.client c with
            | false => rfl
            | true =>
              obtain ⟨e, hf, hval⟩ := pointsTo_true hp
              have := find_some hf
              rw [← hy, h6] at this
              injection this with this; subst this
              simp at hval; exact absurd hval hne
          · exact Or.inl hy
    cases hl : LMap.lookup S.latest c.client with
    | none =>
      simp only
      refine ⟨h.now_eq, h.nodeOk, h.conns_opened, h.store.refresh hv httl M.now c, ?_, h.down_eq⟩
      intro y c2 u2 hl2
      refine hother y c2 u2 hl2 ?_
      intro e; subst e
      rw [(h.live y c2 u2 hl2).1] at hl; rw [hl] at hl2; cases hl2
    | some p =>
      obtain ⟨c0, u0⟩ := p
      simp only
      by_cases hc0 : c0 = c
      · subst hc0
        simp only [if_true]
        obtain ⟨h1, h2, h3, h4, h5, h6⟩ := h.live c0.client c0 u0 hl
        by_cases hu : S.now ≤ u0
        · simp only [hu, if_true]
          have hu' : M.now ≤ u0 := h.now_eq ▸ hu
          have hre := refresh_live hv h2 h5 hu' h6 hu'
          refine ⟨h.now_eq, h.nodeOk, h.conns_opened, h.store.refresh hv httl M.now c0, ?_, h.down_eq⟩
          intro y c2 u2 hl2
          by_cases hy : c0.client = y
          · subst hy
            rw [LMap.lookup_insert_eq] at hl2
            injection hl2 with hl2; injection hl2 with e1 e2; subst e1; subst e2
            refine ⟨rfl, h2, h3, h4, ?_, ?_⟩
            · show FMap.lookup (refreshConnection P M.now M.store c0) _ = _
              rw [hre, lookup_set, lookup_set, expiry_pos httl, h.now_eq]; simp
            · show FMap.lookup (refreshConnection P M.now M.store c0) _ = _
              rw [hre, lookup_set, expiry_pos httl, h.now_eq]; simp
          · rw [LMap.lookup_insert_ne _ _ hy] at hl2
            refine hother y c2 u2 hl2 ?_
            intro e; subst e
            exact hy (h.live y c2 u2 hl2).1
        · simp only [hu, if_false]
          refine ⟨h.now_eq, h.nodeOk, h.conns_opened, h.store.refresh hv httl M.now c0, ?_, h.down_eq⟩
          intro y c2 u2 hl2
          by_cases hy : c0.client = y
          · subst hy; rw [LMap.lookup_erase_eq] at hl2; cases hl2
          · rw [LMap.lookup_erase_ne _ hy] at hl2
            refine hother y c2 u2 hl2 ?_
            intro e; subst e
            exact hy (h.live y c2 u2 hl2).1
      · simp only [hc0, if_false]
        refine ⟨h.now_eq, h.nodeOk, h.conns_opened, h.store.refresh hv httl M.now c, ?_, h.down_eq⟩
        intro y c2 u2 hl2
        refine hother y c2 u2 hl2 ?_
        intro e; subst e
        rw [(h.live y c2 u2 hl2).1] at hl; rw [hl] at hl2
        injection hl2 with hl2; injection hl2 with e1 _; exact hc0 e1
  · -- no refresh: the reference has no obligation for `c` either
    have hcond : (P.v.refreshHb && decide (c ∈ (M.nodes c.node).ctrl) && decide (c ∈ (M.nodes c.node).authed)
        && decide (c.client > 0)) = false := by
      by_cases h1 : c ∈ (M.nodes c.node).ctrl
      · by_cases h2 : c ∈ (M.nodes c.node).authed
        · by_cases h3 : 0 < c.client
          · exact absurd ⟨h1, h2, h3⟩ hg
          · simp [h3]
        · simp [h2]
      · simp [h1]
    simp only [hcond, Bool.false_eq_true, if_false, specStepCore]
    cases hl : LMap.lookup S.latest c.client with
    | none => exact h
    | some p =>
      obtain ⟨c0, u0⟩ := p
      simp only
      by_cases hc0 : c0 = c
      · subst hc0
        obtain ⟨h1, h2, h3, h4, h5, h6⟩ := h.live c0.client c0 u0 hl
        obtain ⟨g1, g2, _, _⟩ := (h.nodeOk c0.node).byClient _ _ h4
        exact absurd ⟨g1, g2, h2⟩ hg
      · simp only [hc0, if_false]; exact h

/-! ## close (every path ends in `CloseConnection`) -/

theorem Inv.closeConn {P : Params} (hv : P.v = repaired) {S : SpecSt} {M : St} (h : Inv S M) (c : Conn) :
    Inv (specClose S c) (closeConnection P M c) := by
  unfold closeConnection specClose
  have hlat : ∀ y c2 u2,
      LMap.lookup (match LMap.lookup S.latest c.client with
        | some p => if p.1 = c then LMap.erase S.latest c.client else S.latest
        | none => S.latest) y = some (c2, u2) →
      LMap.lookup S.latest y = some (c2, u2) ∧ c2 ≠ c := by
    intro y c2 u2 hl
    cases hl0 : LMap.lookup S.latest c.client with
    | none =>
      simp only [hl0] at hl
      refine ⟨hl, ?_⟩
      intro e; subst e
      rw [(h.live y c2 u2 hl).1] at hl0; rw [hl0] at hl; cases hl
    | some p =>
      obtain ⟨c0, u0⟩ := p
      simp only [hl0] at hl
      by_cases hc0 : c0 = c
      · subst hc0
        simp only [if_true] at hl
        by_cases hy : c0.client = y
        · subst hy; rw [LMap.lookup_erase_eq] at hl; cases hl
        · rw [LMap.lookup_erase_ne _ hy] at hl
          refine ⟨hl, ?_⟩
          intro e; subst e
          exact hy (h.live y c2 u2 hl).1
      · simp only [hc0, if_false] at hl
        refine ⟨hl, ?_⟩
        intro e; subst e
        rw [(h.live y c2 u2 hl).1] at hl0; rw [hl0] at hl
        injection hl with hl; injection hl with e1 _; exact hc0 e1
  refine ⟨h.now_eq, ?_, ?_, ?_, ?_, h.down_eq⟩
  · intro i
    by_cases hi : i = c.node
    · subst hi; simp only [upd_same]; exact (h.nodeOk _).close c
    · simp only [upd_other _ _ hi]; exact h.nodeOk i
  · intro i d
    simp only [mem_rm]
    by_cases hi : i = c.node
    · subst hi
      simp only [upd_same, conns_regRemove, NodeSt.dropConn, mem_rm]
      exact fun hd => ⟨h.conns_opened _ d hd.1, hd.2⟩
    · simp only [upd_other _ _ hi]
      intro hd
      refine ⟨h.conns_opened i d hd, ?_⟩
      intro e; subst e
      exact hi ((h.nodeOk i).node_eq _ hd).symm
  · refine (h.store.unregister hv M.now c).rmOpened ?_
    rw [lookup_unregister_conn hv h.store]; simp
  · intro y c2 u2 hl
    obtain ⟨hl', hne⟩ := hlat y c2 u2 hl
    obtain ⟨h1, h2, h3, h4, h5, h6⟩ := h.live y c2 u2 hl'
    refine ⟨h1, h2, mem_rm.mpr ⟨h3, hne⟩, ?_, ?_, ?_⟩
    · by_cases hi : c2.node = c.node
      · have hu : (upd M.nodes c.node (regRemove ((M.nodes c.node).dropConn c) c)) c2.node =
            regRemove ((M.nodes c.node).dropConn c) c := by rw [hi]; exact upd_same _ _ _
        show FMap.lookup ((upd M.nodes c.node (regRemove ((M.nodes c.node).dropConn c) c)) c2.node).byClient y = some c2
        rw [hu, regRemove_dropConn_byClient, lookup_byClient_regRemove (h.nodeOk c.node)]
        rw [hi] at h4
        have : FMap.lookup (M.nodes c.node).byClient y ≠ some c := by
          rw [h4]; intro e; injection e with e; exact hne e
        simp only [this, if_false]; exact h4
      · simp only [upd_other _ _ hi]; exact h4
    · rw [lookup_unregister_conn hv h.store]
      have : c ≠ c2 := fun e => hne e.symm
      simp only [this, if_false]; exact h5
    · rcases lookup_unregister_client hv h.store M.now c y with he | ⟨_, _, e, hle, hval⟩
      · rw [he]; exact h6
      · rw [h6] at hle; injection hle with hle; subst hle
        simp at hval; exact absurd hval hne

theorem upd_upd (f : Nat → NodeSt) (j : Nat) (a b : NodeSt) : upd (upd f j a) j b = upd f j b := by
  funext i; simp only [upd]; split <;> rfl

/-- The sweep drops the connection from the registry first and calls `CloseConnection` afterwards: same result. -/
theorem sweepStale_eq (P : Params) (M : St) (c : Conn) (hc : c ∈ (M.nodes c.node).ctrl) :
    sweepStale P M c = closeConnection P M c := by
  unfold sweepStale closeConnection
  simp only [hc, if_true, upd_same, upd_upd]
  have hn : regRemove ((regRemove (M.nodes c.node) c).dropConn c) c = regRemove ((M.nodes c.node).dropConn c) c := by
    have h1 : c ∉ rm c (M.nodes c.node).ctrl := by simp [mem_rm]
    simp only [regRemove, hc, if_true, NodeSt.dropConn, h1, if_false]
    rfl
  rw [hn]

/-! ## duplicate-login eviction, shutdown -/

theorem Inv.kick {S : SpecSt} {M : St} (h : Inv S M) (c : Conn) :
    Inv (specStepCore ttl S (stepOk M (.kick c)) (.kick c)) (kickOld M c) := by
  -- whatever the reference forgets, the remaining obligations are among the old ones
  have hsub : ∀ y c2 u2, LMap.lookup (specStepCore ttl S (stepOk M (.kick c)) (.kick c)).latest y = some (c2, u2) →
      LMap.lookup S.latest y = some (c2, u2) ∧ ¬ (y = c.client ∧ c2.node = c.node ∧ c2 ≠ c) := by
    intro y c2 u2 hl
    simp only [specStepCore] at hl
    cases hl0 : LMap.lookup S.latest c.client with
    | none =>
      simp only [hl0] at hl
      refine ⟨hl, ?_⟩
      rintro ⟨e, _, _⟩; subst e; rw [hl0] at hl; cases hl
    | some p =>
      simp only [hl0] at hl
      by_cases hp : p.1.node = c.node ∧ p.1 ≠ c
      · rw [if_pos hp] at hl
        by_cases hy : c.client = y
        · subst hy; rw [LMap.lookup_erase_eq] at hl; cases hl
        · rw [LMap.lookup_erase_ne _ hy] at hl
          exact ⟨hl, fun e => hy e.1.symm⟩
      · rw [if_neg hp] at hl
        refine ⟨hl, ?_⟩
        rintro ⟨e, h2, h3⟩; subst e
        rw [hl0] at hl; injection hl with hl; subst hl
        exact hp ⟨h2, h3⟩
  have hS : (specStepCore ttl S (stepOk M (.kick c)) (.kick c)).opened = S.opened ∧
      (specStepCore ttl S (stepOk M (.kick c)) (.kick c)).now = S.now ∧
      (specStepCore ttl S (stepOk M (.kick c)) (.kick c)).down = S.down := by
    simp only [specStepCore]
    cases LMap.lookup S.latest c.client with
    | none => exact ⟨rfl, rfl, rfl⟩
    | some p => simp only; split <;> exact ⟨rfl, rfl, rfl⟩
  unfold kickOld
  cases hb : FMap.lookup (M.nodes c.node).byClient c.client with
  | none =>
    simp only
    refine ⟨hS.2.1 ▸ h.now_eq, h.nodeOk, ?_, hS.1 ▸ h.store, ?_, hS.2.2 ▸ h.down_eq⟩
    · rw [hS.1]; exact h.conns_opened
    · intro y c2 u2 hl
      rw [hS.1]; exact h.live y c2 u2 (hsub y c2 u2 hl).1
  | some o =>
    simp only
    by_cases hoc : o = c
    · simp only [hoc, ne_eq, not_true_eq_false, if_false]
      refine ⟨hS.2.1 ▸ h.now_eq, h.nodeOk, ?_, hS.1 ▸ h.store, ?_, hS.2.2 ▸ h.down_eq⟩
      · rw [hS.1]; exact h.conns_opened
      · intro y c2 u2 hl
        rw [hS.1]; exact h.live y c2 u2 (hsub y c2 u2 hl).1
    · simp only [ne_eq, hoc, not_false_eq_true, if_true]
      refine ⟨hS.2.1 ▸ h.now_eq, ?_, ?_, hS.1 ▸ h.store, ?_, hS.2.2 ▸ h.down_eq⟩
      · intro i
        by_cases hi : i = c.node
        · subst hi; simp only [upd_same]; exact (h.nodeOk _).of_regRemove o
        · simp only [upd_other _ _ hi]; exact h.nodeOk i
      · intro i d
        rw [hS.1]
        by_cases hi : i = c.node
        · subst hi; simp only [upd_same, conns_regRemove]; exact h.conns_opened _ d
        · simp only [upd_other _ _ hi]; exact h.conns_opened i d
      · intro y c2 u2 hl
        obtain ⟨hl', hnot⟩ := hsub y c2 u2 hl
        obtain ⟨h1, h2, h3, h4, h5, h6⟩ := h.live y c2 u2 hl'
        rw [hS.1]
        refine ⟨h1, h2, h3, ?_, h5, h6⟩
        by_cases hi : c2.node = c.node
        · have hu : (upd M.nodes c.node (regRemove (M.nodes c.node) o)) c2.node = regRemove (M.nodes c.node) o := by
            rw [hi]; exact upd_same _ _ _
          show FMap.lookup ((upd M.nodes c.node (regRemove (M.nodes c.node) o)) c2.node).byClient y = some c2
          rw [hu, lookup_byClient_regRemove (h.nodeOk c.node)]
          rw [hi] at h4
          have : FMap.lookup (M.nodes c.node).byClient y ≠ some o := by
            rw [h4]; intro e; injection e with e; subst e
            -- the evicted connection would be the obligation's connection: the reference forgot it
            have hy : y = c.client := by rw [← h1]; exact (((h.nodeOk c.node).byClient _ _ hb).2.2.1)
            exact hnot ⟨hy, hi, hoc⟩
          simp only [this, if_false]; exact h4
        · simp only [upd_other _ _ hi]; exact h4

theorem NodeOk.closed (j : Nat) (n : NodeSt) : NodeOk j n.closed :=
  ⟨fun c h => by simp [NodeSt.closed] at h, fun c h => by simp [NodeSt.closed] at h,
   fun x c h => by simp [NodeSt.closed] at h⟩

theorem Inv.shutdown {S : SpecSt} {M : St} (h : Inv S M) (n : Nat) (hd : n ∉ M.down) :
    Inv { S with latest := LMap.dropNode S.latest n, down := n :: S.down } (shutdownNode M n) := by
  unfold shutdownNode
  simp only [hd, if_false]
  refine ⟨h.now_eq, ?_, ?_, h.store, ?_, by simp [h.down_eq]⟩
  · intro i
    by_cases hi : i = n
    · subst hi; simp only [upd_same]; exact NodeOk.closed _ _
    · simp only [upd_other _ _ hi]; exact h.nodeOk i
  · intro i d
    by_cases hi : i = n
    · subst hi; simp [upd_same, NodeSt.closed]
    · simp only [upd_other _ _ hi]; exact h.conns_opened i d
  · intro y c2 u2 hl
    obtain ⟨hl', hne⟩ := LMap.lookup_dropNode hl
    obtain ⟨h1, h2, h3, h4, h5, h6⟩ := h.live y c2 u2 hl'
    refine ⟨h1, h2, h3, ?_, h5, h6⟩
    have : c2.node ≠ n := hne
    simp only [upd_other _ _ this]; exact h4

/-- Lookups in flight are bookkeeping of the observer: no invariant mentions them. -/
theorem Inv.setPending {S : SpecSt} {M : St} (h : Inv S M) (p : FMap (Nat × Nat) (Option Conn)) :
    Inv S { M with pending := p } :=
  ⟨h.now_eq, h.nodeOk, h.conns_opened, h.store, h.live, h.down_eq⟩

/-! ## one step -/

theorem Inv.stepCore {P : Params} (hv : P.v = repaired) (httl : 0 < P.ttl) {S : SpecSt} {M : St} (h : Inv S M)
    (e : Ev) : Inv (specStepCore P.ttl S (stepOk M e) e) (stepCore P M e) := by
  cases e with
  | «open» c => exact h.open c
  | hs c ok => exact h.handshake hv httl c ok
  | hsTunnel c ok => exact h.handshakeTunnel c ok
  | hb c => exact h.heartbeat hv httl c
  | close c k =>
    cases k with
    | direct => simpa [specStepCore, stepOk, Tunnox.C08.stepCore] using h.closeConn hv c
    | eof => simpa [specStepCore, stepOk, Tunnox.C08.stepCore] using h.closeConn hv c
    | disconnect =>
      by_cases hc : c ∈ (M.nodes c.node).ctrl
      · simpa [specStepCore, stepOk, Tunnox.C08.stepCore, handleDisconnect, hc] using h.closeConn hv c
      · simpa [specStepCore, stepOk, Tunnox.C08.stepCore, handleDisconnect, hc] using h
    | sweep =>
      by_cases hc : c ∈ (M.nodes c.node).ctrl
      · have := h.closeConn hv c
        rw [← sweepStale_eq P M c hc] at this
        simpa [specStepCore, stepOk, Tunnox.C08.stepCore, hc] using this
      · simpa [specStepCore, stepOk, Tunnox.C08.stepCore, sweepStale, hc] using h
  | kick c => exact h.kick c
  | shutdown n =>
    by_cases hd : n ∈ M.down
    · have hd' : n ∈ S.down := h.down_eq ▸ hd
      simpa [specStepCore, stepOk, Tunnox.C08.stepCore, shutdownNode, hd, hd'] using h
    · have hd' : n ∉ S.down := h.down_eq ▸ hd
      simpa [specStepCore, stepOk, Tunnox.C08.stepCore, hd'] using h.shutdown n hd
  | lookBegin j x => exact h.setPending _
  | lookEnd j x => exact h.setPending _
  | reqBegin k j x => exact ⟨h.now_eq, h.nodeOk, h.conns_opened, h.store, h.live, h.down_eq⟩
  | reqEnd k j x => exact ⟨h.now_eq, h.nodeOk, h.conns_opened, h.store, h.live, h.down_eq⟩
  | tick dt => exact h.tick dt

/-! ## what the invariant says about an observation -/

theorem find_cases {P : Params} (hv : P.v = repaired) {S : SpecSt} {M : St} (h : Inv S M) {x : Nat} (hx : x ≠ 0) :
    findClientNode P M.now M.store x = .notFound ∨
    ∃ c, findClientNode P M.now M.store x = .found c.node c ∧ c.client = x ∧ c ∈ S.opened := by
  unfold findClientNode
  simp only [hx, if_false]
  cases hf : find M.now M.store (.client x) with
  | none => left; rfl
  | some e =>
    obtain ⟨c, hval, hcx⟩ := h.store.client x e (find_some hf)
    simp only [hval]
    rcases gcs_cases hv h.store M.now c with ⟨e', hf', hg⟩ | ⟨hg, _⟩
    · right
      refine ⟨c, ?_, hcx, (h.store.conn c e' (find_some hf')).2.1⟩
      rw [hg]; rfl
    · left; rw [hg]

theorem find_live {P : Params} (hv : P.v = repaired) {S : SpecSt} {M : St} (h : Inv S M) {x : Nat} {c : Conn}
    {u : Nat} (hl : LMap.lookup S.latest x = some (c, u)) (hu : S.now ≤ u) :
    findClientNode P M.now M.store x = .found c.node c := by
  obtain ⟨h1, h2, h3, h4, h5, h6⟩ := h.live x c u hl
  have hu' : M.now ≤ u := h.now_eq ▸ hu
  unfold findClientNode getConnectionState
  have hx : x ≠ 0 := by omega
  simp only [hx, if_false]
  rw [find_of_lookup h6 hu']
  simp only
  rw [find_of_lookup h5 hu']
  simp [decodable_repaired hv, infoOf, hu']

theorem lookOk_of_inv {P : Params} (hv : P.v = repaired) {S : SpecSt} {M : St} (h : Inv S M) (x : Nat) :
    lookOk S x (findClientNode P M.now M.store x) = true := by
  unfold lookOk
  rw [Bool.and_eq_true]
  constructor
  · cases hl : LMap.lookup S.latest x with
    | none => rfl
    | some p =>
      obtain ⟨c, u⟩ := p
      simp only
      split
      · rename_i hu
        rw [find_live hv h hl hu]; simp
      · rfl
  · by_cases hx : x = 0
    · subst hx
      simp [findClientNode, notConnected]
    · rcases find_cases hv h hx with he | ⟨c, he, hcx, hco⟩
      · rw [he]; simp [notConnected]
      · rw [he]; simp [hcx, hco]

theorem byClient_open {S : SpecSt} {M : St} (h : Inv S M) {j x : Nat} {d : Conn}
    (hl : FMap.lookup (M.nodes j).byClient x = some d) : d ∈ S.opened ∧ d.node = j ∧ d.client = x := by
  obtain ⟨g1, _, g3, _⟩ := (h.nodeOk j).byClient x d hl
  have hc := (h.nodeOk j).ctrl_conns d g1
  have hn := (h.nodeOk j).node_eq d hc
  refine ⟨?_, hn, g3⟩
  exact h.conns_opened j d hc

theorem routeOk_of_inv {P : Params} (hv : P.v = repaired) {S : SpecSt} {M : St} (h : Inv S M) (x j : Nat) :
    routeOk S x j (route P M j x) = true := by
  unfold routeOk
  by_cases hd : j ∈ S.down
  · have hd' : j ∈ M.down := h.down_eq ▸ hd
    simp [hd, route, hd']
  have hd' : j ∉ M.down := h.down_eq ▸ hd
  have hru : route P M j x = routeUp P M j x := by simp [route, hd']
  simp only [hd, if_false]
  rw [hru, Bool.and_eq_true]
  constructor
  · cases hl : LMap.lookup S.latest x with
    | none => rfl
    | some p =>
      obtain ⟨c, u⟩ := p
      simp only
      split
      · rename_i hu
        obtain ⟨h1, h2, h3, h4, _, _⟩ := h.live x c u hl
        by_cases hj : j = c.node
        · subst hj
          simp only [if_true]
          unfold routeUp; rw [h4]; rfl
        · simp only [hj, if_false]
          split
          · rfl
          · rename_i hho
            have hnone : FMap.lookup (M.nodes j).byClient x = none := by
              cases hb : FMap.lookup (M.nodes j).byClient x with
              | none => rfl
              | some d =>
                obtain ⟨g1, g2, g3⟩ := byClient_open h hb
                exfalso; apply hho
                simp only [holdsOpen, List.any_eq_true, Bool.and_eq_true, beq_iff_eq]
                exact ⟨d, g1, g2, g3⟩
            unfold routeUp
            rw [hnone, find_live hv h hl hu]
            have : ¬ c.node = j := fun e => hj e.symm
            simp [this]
      · rfl
  · by_cases hany : S.opened.any (fun c => c.client == x) = true
    · simp [hany]
    · have hnone : FMap.lookup (M.nodes j).byClient x = none := by
        cases hb : FMap.lookup (M.nodes j).byClient x with
        | none => rfl
        | some d =>
          obtain ⟨g1, _, g3⟩ := byClient_open h hb
          exfalso; apply hany
          simp only [List.any_eq_true, beq_iff_eq]
          exact ⟨d, g1, g3⟩
      have hr : routeUp P M j x = .none_ := by
        unfold routeUp
        rw [hnone]
        by_cases hx : x = 0
        · subst hx; simp [findClientNode]
        · rcases find_cases hv h hx with he | ⟨c, he, hcx, hco⟩
          · rw [he]
          · exfalso; apply hany
            simp only [List.any_eq_true, beq_iff_eq]
            exact ⟨c, hco, hcx⟩
      rw [hr]; simp

end Tunnox.C08
