import TunnoxModel.Proofs.C14Base
/-!
C14 — list atomicity of the repaired facade: for every set of concurrent AppendToList/RemoveFromList
calls, every schedule and every placement of persistent-tier failures, no update is lost.

Invariant (`LInv`): a call that is past its first step and has not returned holds the key lock; while the
lock is free the cache tier is empty or agrees with the persistent tier; the list a call is about to
write is `modify op (current list)`; per element, membership in the current list reflects the committed
appends/removes.
-/
namespace Tunnox.C14

/-- append/remove calls (the two cases every lemma about a mutator splits on). -/
def isLM (o : Op) : Prop := (∃ x, o = .app x) ∨ (∃ x, o = .rem x)

/-- … and plain `GetList` readers beside them. -/
def isLMR (o : Op) : Prop := isLM o ∨ o = .getl

/-- The content the facade shows: the persistent tier if it takes part, else the cache tier. -/
def curVal (R : Route) (σ : St) : Option Val := if R.pe then σ.p.val else (σ.cell R.ck).val

def lst : Option Val → List Nat
  | some (.list xs) => xs
  | some (.jl xs) => xs
  | _ => []

def listy : Option Val → Prop
  | none => True
  | some (.list _) => True
  | some (.jl _) => True
  | _ => False

def mid (pc : PC) : Prop := pc ≠ .start ∧ pc ≠ .done

/-- The call holds the key lock between steps: an append/remove from its first step to its return, a
`GetList` only while its cache write-back is pending (it takes the lock when it reads the persistent tier). -/
def lkd (t : Thread) : Prop := mid t.pc ∧ ¬ (t.op = .getl ∧ t.pc = .readP)

theorem lkd_of_LM {t : Thread} (h : isLM t.op) : lkd t ↔ mid t.pc := by
  unfold lkd
  rcases h with ⟨x, hx⟩ | ⟨x, hx⟩ <;> simp [hx]

def pcFacts (R : Route) (σ : St) (t : Thread) : Prop :=
  match t.pc with
  | .start => t.cver = none ∧ t.res = none
  | .readP => R.pe = true ∧ (t.op ≠ .getl → (σ.cell R.ck).val = none) ∧ t.cver = none ∧ t.res = none
  | .wb v _ => R.pe = true ∧ ((σ.cell R.ck).val = none ∨ (σ.cell R.ck).val = σ.p.val) ∧ σ.p.val = some v ∧
      t.cver = none ∧ t.res = none
  | .write v _ => t.op ≠ .getl ∧ v = .list (modify t.op (lst (curVal R σ))) ∧ t.cver = none ∧ t.res = none
                  ∧ (R.pe = true → (σ.cell R.ck).val = none ∨ (σ.cell R.ck).val = σ.p.val)
  | .writeC v _ _ => t.op ≠ .getl ∧ R.pe = true ∧ σ.p.val = some v ∧ t.cver.isSome = true ∧ t.res = none
  | .done => t.res.isSome = true ∧ (t.res = some .ok → t.cver.isSome = true) ∧
      (t.cver.isSome = true → t.res = some .ok)
  | _ => False

structure LInv (R : Route) (l0 : List Nat) (cfg : Cfg) : Prop where
  kinds : ∀ (i : Nat) (t : Thread), cfg.threads[i]? = some t → isLMR t.op
  listy : listy (curVal R cfg.st)
  holder : ∀ (i : Nat) (t : Thread), cfg.threads[i]? = some t → lkd t → cfg.st.lock = some i
  owned : ∀ i, cfg.st.lock = some i → ∃ t, cfg.threads[i]? = some t ∧ lkd t
  coh : R.pe = true → cfg.st.lock = none →
    (cfg.st.cell R.ck).val = none ∨ (cfg.st.cell R.ck).val = cfg.st.p.val
  facts : ∀ (i : Nat) (t : Thread), cfg.threads[i]? = some t → pcFacts R cfg.st t
  memA : ∀ (x i : Nat) (t : Thread), cfg.threads[i]? = some t → t.op = .app x → t.cver.isSome = true →
    (∀ (j : Nat) (u : Thread), cfg.threads[j]? = some u → u.op = .rem x → u.cver = none) → x ∈ lst (curVal R cfg.st)
  memB : ∀ (x i : Nat) (t : Thread), cfg.threads[i]? = some t → t.op = .rem x → t.cver.isSome = true →
    (∀ (j : Nat) (u : Thread), cfg.threads[j]? = some u → u.op = .app x → u.cver = none) → x ∉ lst (curVal R cfg.st)
  memC : ∀ y ∈ lst (curVal R cfg.st), y ∈ l0 ∨
    ∃ (j : Nat) (u : Thread), cfg.threads[j]? = some u ∧ u.op = .app y ∧ u.cver.isSome = true
  memD : ∀ y ∈ l0, (∀ (j : Nat) (u : Thread), cfg.threads[j]? = some u → u.op = .rem y → u.cver = none) →
    y ∈ lst (curVal R cfg.st)

theorem pcFacts_nonmid {R : Route} {σ σ' : St} {t : Thread} (h : pcFacts R σ t) (hm : ¬ lkd t) :
    pcFacts R σ' t := by
  unfold pcFacts at *
  unfold lkd mid at hm
  cases hpc : t.pc <;> simp_all

/-- When the thread that moves holds the key lock or needs it, nobody else holds it. -/
theorem others_nonmid {R : Route} {l0 : List Nat} {cfg : Cfg} (h : LInv R l0 cfg) {i : Nat} {th : Thread}
    (hth : cfg.threads[i]? = some th) (hen : enabled true cfg.st i th = true)
    (hneed : ¬ lkd th → needsLock th.op th.pc = true) :
    ∀ (j : Nat) (t : Thread), j ≠ i → cfg.threads[j]? = some t → ¬ lkd t := by
  intro j t hji hj hm
  have hl := h.holder j t hj hm
  by_cases hmi : lkd th
  · have := h.holder i th hth hmi
    rw [hl] at this
    exact hji (Option.some.inj this)
  · have hn := hneed hmi
    unfold enabled at hen
    simp [hn, hl] at hen
    exact hji hen.2

/-- The lock state seen by a thread that holds the key lock or needs it. -/
theorem lock_of_enabled {R : Route} {l0 : List Nat} {cfg : Cfg} (h : LInv R l0 cfg) {i : Nat} {th : Thread}
    (hth : cfg.threads[i]? = some th) (hen : enabled true cfg.st i th = true)
    (hneed : ¬ lkd th → needsLock th.op th.pc = true) :
    (lkd th ∧ cfg.st.lock = some i) ∨ (¬ lkd th ∧ cfg.st.lock = none) := by
  by_cases hm : lkd th
  · exact Or.inl ⟨hm, h.holder i th hth hm⟩
  · right
    refine ⟨hm, ?_⟩
    cases hl : cfg.st.lock with
    | none => rfl
    | some k =>
      obtain ⟨t, ht, hmt⟩ := h.owned k hl
      by_cases hki : k = i
      · subst hki
        rw [hth] at ht
        cases ht
        exact absurd hmt hm
      · exact absurd hmt (others_nonmid h hth hen hneed k t hki ht)

/-- Update of the thread that moves, without a commit: the visible content and the commit marks are unchanged. -/
theorem linv_nocommit {R : Route} {l0 : List Nat} {cfg : Cfg} (h : LInv R l0 cfg) {i : Nat} {th th' : Thread}
    {σ' : St} {now' : Nat} {tr' : List Ev}
    (hth : cfg.threads[i]? = some th)
    (hoth : ∀ (j : Nat) (t : Thread), j ≠ i → cfg.threads[j]? = some t → ¬ lkd t)
    (hop : th'.op = th.op) (hcv : th'.cver = th.cver)
    (hcur : curVal R σ' = curVal R cfg.st)
    (hlock : (lkd th' ∧ σ'.lock = some i) ∨ (¬ lkd th' ∧ σ'.lock = none))
    (hcoh : R.pe = true → σ'.lock = none → (σ'.cell R.ck).val = none ∨ (σ'.cell R.ck).val = σ'.p.val)
    (hf : pcFacts R σ' th') :
    LInv R l0 { st := σ', threads := cfg.threads.set i th' ++ [], now := now', trace := tr' } := by
  have hlt := lt_of_getElem? hth
  have hget : ∀ (j : Nat), (cfg.threads.set i th' ++ ([] : List Thread))[j]? =
      if i = j then some th' else cfg.threads[j]? := by
    intro j; exact getElem?_set_nil' _ _ _ _ hlt
  have hops : ∀ (j : Nat) (u : Thread), (cfg.threads.set i th' ++ ([] : List Thread))[j]? = some u →
      ∃ u0, cfg.threads[j]? = some u0 ∧ u0.op = u.op ∧ u0.cver = u.cver := by
    intro j u hu
    rw [hget] at hu
    by_cases hij : i = j
    · subst hij; simp at hu; subst hu; exact ⟨th, hth, hop.symm, hcv.symm⟩
    · simp [hij] at hu; exact ⟨u, hu, rfl, rfl⟩
  have hops' : ∀ (j : Nat) (u0 : Thread), cfg.threads[j]? = some u0 →
      ∃ u, (cfg.threads.set i th' ++ ([] : List Thread))[j]? = some u ∧ u0.op = u.op ∧ u0.cver = u.cver := by
    intro j u0 hu0
    by_cases hij : i = j
    · subst hij; rw [hth] at hu0; cases hu0; exact ⟨th', by rw [hget]; simp, hop.symm, hcv.symm⟩
    · exact ⟨u0, by rw [hget]; simp [hij, hu0], rfl, rfl⟩
  constructor
  · intro j u hu
    obtain ⟨u0, hu0, ho, _⟩ := hops j u hu
    rw [← ho]; exact h.kinds j u0 hu0
  · show listy (curVal R σ'); rw [hcur]; exact h.listy
  · intro j u hu hm
    show σ'.lock = some j
    rw [hget] at hu
    by_cases hij : i = j
    · subst hij; simp at hu; subst hu
      rcases hlock with ⟨_, hl⟩ | ⟨hn, _⟩
      · exact hl
      · exact absurd hm hn
    · simp [hij] at hu
      exact absurd hm (hoth j u (Ne.symm hij) hu)
  · intro k hk
    have hk' : σ'.lock = some k := hk
    rcases hlock with ⟨hm, hl⟩ | ⟨_, hl⟩
    · rw [hl] at hk'; cases hk'
      exact ⟨th', by rw [hget]; simp, hm⟩
    · rw [hl] at hk'; cases hk'
  · exact hcoh
  · intro j u hu
    show pcFacts R σ' u
    rw [hget] at hu
    by_cases hij : i = j
    · subst hij; simp at hu; subst hu; exact hf
    · simp [hij] at hu
      exact pcFacts_nonmid (h.facts j u hu) (hoth j u (Ne.symm hij) hu)
  · intro x j u hu hux hc hno
    show x ∈ lst (curVal R σ')
    rw [hcur]
    obtain ⟨u0, hu0, ho, hc0⟩ := hops j u hu
    refine h.memA x j u0 hu0 (by rw [ho]; exact hux) (by rw [hc0]; exact hc) ?_
    intro k w hw hwop
    obtain ⟨w', hw', hwo, hwc⟩ := hops' k w hw
    rw [hwc]; exact hno k w' hw' (by rw [← hwo]; exact hwop)
  · intro x j u hu hux hc hno
    show x ∉ lst (curVal R σ')
    rw [hcur]
    obtain ⟨u0, hu0, ho, hc0⟩ := hops j u hu
    refine h.memB x j u0 hu0 (by rw [ho]; exact hux) (by rw [hc0]; exact hc) ?_
    intro k w hw hwop
    obtain ⟨w', hw', hwo, hwc⟩ := hops' k w hw
    rw [hwc]; exact hno k w' hw' (by rw [← hwo]; exact hwop)
  · intro y hy
    have hy' : y ∈ lst (curVal R cfg.st) := by rw [← hcur]; exact hy
    rcases h.memC y hy' with h1 | ⟨j, u0, hu0, ho, hc⟩
    · exact Or.inl h1
    · obtain ⟨u, hu, hou, hcu⟩ := hops' j u0 hu0
      exact Or.inr ⟨j, u, hu, by rw [← hou]; exact ho, by rw [← hcu]; exact hc⟩
  · intro y hy hno
    show y ∈ lst (curVal R σ')
    rw [hcur]
    refine h.memD y hy ?_
    intro k w hw hwop
    obtain ⟨w', hw', hwo, hwc⟩ := hops' k w hw
    rw [hwc]; exact hno k w' hw' (by rw [← hwo]; exact hwop)

theorem mem_modify_app (x y : Nat) (xs : List Nat) : y ∈ modify (.app x) xs ↔ y ∈ xs ∨ y = x := by
  simp [modify]

theorem mem_modify_rem (x y : Nat) (xs : List Nat) : y ∈ modify (.rem x) xs ↔ y ∈ xs ∧ y ≠ x := by
  simp [modify]

/-- Update of the thread that moves by its commit: the visible list becomes `modify op (old list)`. -/
theorem linv_commit {R : Route} {l0 : List Nat} {cfg : Cfg} (h : LInv R l0 cfg) {i : Nat} {th th' : Thread}
    {σ' : St} {now' : Nat} {tr' : List Ev}
    (hth : cfg.threads[i]? = some th)
    (hoth : ∀ (j : Nat) (t : Thread), j ≠ i → cfg.threads[j]? = some t → ¬ lkd t)
    (hLM : isLM th.op)
    (hop : th'.op = th.op) (hcv0 : th.cver = none) (hcv : th'.cver.isSome = true)
    (hcur : curVal R σ' = some (.list (modify th.op (lst (curVal R cfg.st)))))
    (hlock : (lkd th' ∧ σ'.lock = some i) ∨ (¬ lkd th' ∧ σ'.lock = none))
    (hcoh : R.pe = true → σ'.lock = none → (σ'.cell R.ck).val = none ∨ (σ'.cell R.ck).val = σ'.p.val)
    (hf : pcFacts R σ' th') :
    LInv R l0 { st := σ', threads := cfg.threads.set i th' ++ [], now := now', trace := tr' } := by
  have hlt := lt_of_getElem? hth
  have hget : ∀ (j : Nat), (cfg.threads.set i th' ++ ([] : List Thread))[j]? =
      if i = j then some th' else cfg.threads[j]? := by
    intro j; exact getElem?_set_nil' _ _ _ _ hlt
  have hops : ∀ (j : Nat) (u : Thread), (cfg.threads.set i th' ++ ([] : List Thread))[j]? = some u →
      ∃ u0, cfg.threads[j]? = some u0 ∧ u0.op = u.op ∧ (j ≠ i → u0.cver = u.cver) := by
    intro j u hu
    rw [hget] at hu
    by_cases hij : i = j
    · subst hij; simp at hu; subst hu; exact ⟨th, hth, hop.symm, fun hne => absurd rfl hne⟩
    · simp [hij] at hu; exact ⟨u, hu, rfl, fun _ => rfl⟩
  have hops' : ∀ (j : Nat) (u0 : Thread), cfg.threads[j]? = some u0 →
      ∃ u, (cfg.threads.set i th' ++ ([] : List Thread))[j]? = some u ∧ u0.op = u.op ∧
        (u0.cver.isSome = true → u.cver.isSome = true) ∧ (u.cver = none → u0.cver = none) := by
    intro j u0 hu0
    by_cases hij : i = j
    · subst hij; rw [hth] at hu0; cases hu0
      exact ⟨th', by rw [hget]; simp, hop.symm, fun _ => hcv, fun _ => hcv0⟩
    · exact ⟨u0, by rw [hget]; simp [hij, hu0], rfl, id, id⟩
  have hthi : (cfg.threads.set i th' ++ ([] : List Thread))[i]? = some th' := by rw [hget]; simp
  have hnew : lst (curVal R σ') = modify th.op (lst (curVal R cfg.st)) := by rw [hcur]; rfl
  have hkind := hLM
  constructor
  · intro j u hu
    obtain ⟨u0, hu0, ho, _⟩ := hops j u hu
    rw [← ho]; exact h.kinds j u0 hu0
  · show listy (curVal R σ'); rw [hcur]; trivial
  · intro j u hu hm
    show σ'.lock = some j
    rw [hget] at hu
    by_cases hij : i = j
    · subst hij; simp at hu; subst hu
      rcases hlock with ⟨_, hl⟩ | ⟨hn, _⟩
      · exact hl
      · exact absurd hm hn
    · simp [hij] at hu
      exact absurd hm (hoth j u (Ne.symm hij) hu)
  · intro k hk
    have hk' : σ'.lock = some k := hk
    rcases hlock with ⟨hm, hl⟩ | ⟨_, hl⟩
    · rw [hl] at hk'; cases hk'
      exact ⟨th', by rw [hget]; simp, hm⟩
    · rw [hl] at hk'; cases hk'
  · exact hcoh
  · intro j u hu
    show pcFacts R σ' u
    rw [hget] at hu
    by_cases hij : i = j
    · subst hij; simp at hu; subst hu; exact hf
    · simp [hij] at hu
      exact pcFacts_nonmid (h.facts j u hu) (hoth j u (Ne.symm hij) hu)
  · -- appended elements stay / arrive
    intro x j u hu hux hc hno
    show x ∈ lst (curVal R σ')
    rw [hnew]
    obtain ⟨u0, hu0, ho, hc0⟩ := hops j u hu
    have hno0 : ∀ (k : Nat) (w : Thread), cfg.threads[k]? = some w → w.op = .rem x → w.cver = none := by
      intro k w hw hwop
      obtain ⟨w', hw', hwo, _, hwc⟩ := hops' k w hw
      exact hwc (hno k w' hw' (by rw [← hwo]; exact hwop))
    by_cases hji : j = i
    · subst hji
      rw [hth] at hu0; cases hu0
      rw [← ho] at hux
      rw [hux, mem_modify_app]; exact Or.inr rfl
    · have hold : x ∈ lst (curVal R cfg.st) :=
        h.memA x j u0 hu0 (by rw [ho]; exact hux) (by rw [hc0 hji]; exact hc) hno0
      rcases hkind with ⟨z, hz⟩ | ⟨z, hz⟩
      · rw [hz, mem_modify_app]; exact Or.inl hold
      · rw [hz, mem_modify_rem]
        refine ⟨hold, ?_⟩
        intro hxz; subst hxz
        have := hno i th' hthi (by rw [hop]; exact hz)
        rw [this] at hcv; cases hcv
  · -- removed elements stay away / leave
    intro x j u hu hux hc hno
    show x ∉ lst (curVal R σ')
    rw [hnew]
    obtain ⟨u0, hu0, ho, hc0⟩ := hops j u hu
    have hno0 : ∀ (k : Nat) (w : Thread), cfg.threads[k]? = some w → w.op = .app x → w.cver = none := by
      intro k w hw hwop
      obtain ⟨w', hw', hwo, _, hwc⟩ := hops' k w hw
      exact hwc (hno k w' hw' (by rw [← hwo]; exact hwop))
    by_cases hji : j = i
    · subst hji
      rw [hth] at hu0; cases hu0
      rw [← ho] at hux
      rw [hux, mem_modify_rem]; exact fun hh => hh.2 rfl
    · have hold : x ∉ lst (curVal R cfg.st) :=
        h.memB x j u0 hu0 (by rw [ho]; exact hux) (by rw [hc0 hji]; exact hc) hno0
      rcases hkind with ⟨z, hz⟩ | ⟨z, hz⟩
      · rw [hz, mem_modify_app]
        intro hh
        rcases hh with hh | hh
        · exact hold hh
        · subst hh
          have := hno i th' hthi (by rw [hop]; exact hz)
          rw [this] at hcv; cases hcv
      · rw [hz, mem_modify_rem]; exact fun hh => hold hh.1
  · intro y hy
    have hy' : y ∈ modify th.op (lst (curVal R cfg.st)) := by rw [← hnew]; exact hy
    have : y ∈ lst (curVal R cfg.st) ∨ th.op = .app y := by
      rcases hkind with ⟨z, hz⟩ | ⟨z, hz⟩
      · rw [hz, mem_modify_app] at hy'
        rcases hy' with h1 | h1
        · exact Or.inl h1
        · subst h1; exact Or.inr hz
      · rw [hz, mem_modify_rem] at hy'; exact Or.inl hy'.1
    rcases this with h1 | h1
    · rcases h.memC y h1 with h2 | ⟨j, u0, hu0, ho, hc⟩
      · exact Or.inl h2
      · obtain ⟨u, hu, hou, hcu, _⟩ := hops' j u0 hu0
        exact Or.inr ⟨j, u, hu, by rw [← hou]; exact ho, hcu hc⟩
    · exact Or.inr ⟨i, th', hthi, by rw [hop]; exact h1, hcv⟩
  · intro y hy hno
    show y ∈ lst (curVal R σ')
    rw [hnew]
    have hno0 : ∀ (k : Nat) (w : Thread), cfg.threads[k]? = some w → w.op = .rem y → w.cver = none := by
      intro k w hw hwop
      obtain ⟨w', hw', hwo, _, hwc⟩ := hops' k w hw
      exact hwc (hno k w' hw' (by rw [← hwo]; exact hwop))
    have hold := h.memD y hy hno0
    rcases hkind with ⟨z, hz⟩ | ⟨z, hz⟩
    · rw [hz, mem_modify_app]; exact Or.inl hold
    · rw [hz, mem_modify_rem]
      refine ⟨hold, ?_⟩
      intro hyz; subst hyz
      have := hno i th' hthi (by rw [hop]; exact hz)
      rw [this] at hcv; cases hcv


/-- What a step that does not commit establishes (the hypotheses of `linv_nocommit`). -/
structure NoCommit (R : Route) (i : Nat) (σ : St) (th : Thread) (σ' : St) (th' : Thread) : Prop where
  op : th'.op = th.op
  cv : th'.cver = th.cver
  cur : curVal R σ' = curVal R σ
  lock : (mid th'.pc ∧ σ'.lock = some i) ∨ (¬ mid th'.pc ∧ σ'.lock = none)
  coh : R.pe = true → σ'.lock = none → (σ'.cell R.ck).val = none ∨ (σ'.cell R.ck).val = σ'.p.val
  facts : pcFacts R σ' th'

/-- What the committing step establishes (the hypotheses of `linv_commit`). -/
structure Commit (R : Route) (i : Nat) (σ : St) (th : Thread) (σ' : St) (th' : Thread) : Prop where
  op : th'.op = th.op
  cv0 : th.cver = none
  cv : th'.cver.isSome = true
  cur : curVal R σ' = some (.list (modify th.op (lst (curVal R σ))))
  lock : (mid th'.pc ∧ σ'.lock = some i) ∨ (¬ mid th'.pc ∧ σ'.lock = none)
  coh : R.pe = true → σ'.lock = none → (σ'.cell R.ck).val = none ∨ (σ'.cell R.ck).val = σ'.p.val
  facts : pcFacts R σ' th'

theorem listy_decode {v : Val} (h : listy (some v)) : ∃ xs, decodeList v = some xs ∧ lst (some v) = xs := by
  cases v <;> simp [listy] at h
  · exact ⟨_, rfl, rfl⟩
  · exact ⟨_, rfl, rfl⟩



theorem curVal_lock (R : Route) (σ : St) (l : Option Nat) : curVal R { σ with lock := l } = curVal R σ := by
  unfold curVal; cases R.ck <;> rfl

theorem curVal_unlock (R : Route) (σ : St) : curVal R (unlock σ) = curVal R σ := curVal_lock R σ none

/-- The projections of the list-operation steps (events dropped). -/
theorem step_list_start (R : Route) (i : Nat) (ft : Option Tier) (σ : St) (th : Thread)
    (hk : isLM th.op) (hpc : th.pc = .start) (hfc : fails ft R.ck = false) :
    ((stepThread true R i ft σ th).st, (stepThread true R i ft σ th).th) =
      match (σ.cell R.ck).val with
      | some v => listCont th.op { σ with lock := some i } th R (some v)
      | none =>
        if (R.pe && !R.passErr) = true then ({ σ with lock := some i }, { th with pc := .readP })
        else listCont th.op { σ with lock := some i } th R none := by
  obtain ⟨op, pc, inv, ret, res, cver, rver, node⟩ := th
  simp only at hpc hk
  subst hpc
  rcases hk with ⟨x, rfl⟩ | ⟨x, rfl⟩ <;>
  · simp only [stepThread, hfc, Bool.false_eq_true, ↓reduceIte]
    cases (σ.cell R.ck).val with
    | some v => simp
    | none => by_cases hc : (R.pe && !R.passErr) = true <;> simp [hc]

theorem step_list_readP (R : Route) (i : Nat) (ft : Option Tier) (σ : St) (th : Thread)
    (hk : isLM th.op) (hpc : th.pc = .readP) :
    ((stepThread true R i ft σ th).st, (stepThread true R i ft σ th).th) =
      if fails ft .persistent = true then (unlock σ, finish th .err)
      else match σ.p.val with
        | none => listCont th.op σ th R none
        | some v => (σ, { th with pc := .wb v σ.p.ver }) := by
  obtain ⟨op, pc, inv, ret, res, cver, rver, node⟩ := th
  simp only at hpc hk
  subst hpc
  rcases hk with ⟨x, rfl⟩ | ⟨x, rfl⟩ <;>
  · simp only [stepThread]
    split
    · rfl
    · cases σ.p.val <;> simp

theorem step_list_wb (R : Route) (i : Nat) (ft : Option Tier) (σ : St) (th : Thread) (v : Val) (ver : Nat)
    (hk : isLM th.op) (hpc : th.pc = .wb v ver) (hfc : fails ft R.ck = false) :
    ((stepThread true R i ft σ th).st, (stepThread true R i ft σ th).th) =
      listCont th.op (σ.setCell R.ck ⟨some v, R.wbTTL, ver⟩) th R (some v) := by
  obtain ⟨op, pc, inv, ret, res, cver, rver, node⟩ := th
  simp only at hpc hk
  subst hpc
  rcases hk with ⟨x, rfl⟩ | ⟨x, rfl⟩ <;> simp [stepThread, hfc]

theorem step_list_write (R : Route) (i : Nat) (ft : Option Tier) (σ : St) (th : Thread) (v : Val) (ttl : Nat)
    (hk : isLM th.op) (hpc : th.pc = .write v ttl) :
    stepThread true R i ft σ th = writeStep R i ft σ th v ttl := by
  obtain ⟨op, pc, inv, ret, res, cver, rver, node⟩ := th
  simp only at hpc hk
  subst hpc
  rcases hk with ⟨x, rfl⟩ | ⟨x, rfl⟩ <;> simp [stepThread]

theorem step_list_writeC (R : Route) (i : Nat) (ft : Option Tier) (σ : St) (th : Thread) (v : Val) (ttl ver : Nat)
    (hk : isLM th.op) (hpc : th.pc = .writeC v ttl ver) (hfc : fails ft R.ck = false) :
    ((stepThread true R i ft σ th).st, (stepThread true R i ft σ th).th) =
      (unlock (σ.setCell R.ck ⟨some v, ttl, ver⟩), finish th .ok) := by
  obtain ⟨op, pc, inv, ret, res, cver, rver, node⟩ := th
  simp only at hpc hk
  subst hpc
  rcases hk with ⟨x, rfl⟩ | ⟨x, rfl⟩ <;> simp [stepThread, hfc]


theorem listCont_nocommit (R : Route) (i : Nat) (σ0 σ : St) (th : Thread) (cur : Option Val)
    (hk : isLM th.op) (hcv : th.cver = none) (hres : th.res = none)
    (hlock : σ.lock = some i) (hcur : curVal R σ = cur) (hlisty : listy cur)
    (hsame : curVal R σ = curVal R σ0)
    (hcohW : R.pe = true → (σ.cell R.ck).val = none ∨ (σ.cell R.ck).val = σ.p.val) :
    NoCommit R i σ0 th (listCont th.op σ th R cur).1 (listCont th.op σ th R cur).2 := by
  cases cur with
  | none =>
    rcases hk with ⟨x, hx⟩ | ⟨x, hx⟩
    · simp only [listCont, hx]
      refine ⟨hx.symm, rfl, hsame, Or.inl ⟨by simp [mid], hlock⟩, ?_, ?_⟩
      · intro _ h; rw [hlock] at h; cases h
      · simp only [pcFacts, hcur, lst, modify, List.nil_append]
        exact ⟨by simp, trivial, hcv, hres, hcohW⟩
    · simp only [listCont, hx]
      refine ⟨rfl, rfl, by rw [curVal_unlock]; exact hsame, Or.inr ⟨by simp [mid, finish], rfl⟩, ?_, ?_⟩
      · intro hpe _; simpa using hcohW hpe
      · simp [pcFacts, finish, hcv]
  | some v =>
    obtain ⟨xs, hdec, hlst⟩ := listy_decode hlisty
    simp only [listCont, hdec]
    refine ⟨rfl, rfl, hsame, Or.inl ⟨by simp [mid], hlock⟩, ?_, ?_⟩
    · intro _ h; rw [hlock] at h; cases h
    · simp only [pcFacts, hcur, hlst]
      exact ⟨by rcases hk with ⟨x, hx⟩ | ⟨x, hx⟩ <;> rw [hx] <;> simp, trivial, hcv, hres, hcohW⟩

theorem mid_of_pc {pc : PC} (h1 : pc ≠ .start) (h2 : pc ≠ .done) : mid pc := ⟨h1, h2⟩

set_option maxHeartbeats 1000000 in
/-- One step of an append/remove call: it either commits or leaves the visible content alone. -/
theorem list_step (R : Route) (hck : R.ck ≠ .persistent) (hpp : R.pe = true → R.passErr = false)
    (i : Nat) (ft : Option Tier) (hpf : PFault ft) (σ : St) (th : Thread)
    (hk : isLM th.op) (hf : pcFacts R σ th)
    (hl : (mid th.pc ∧ σ.lock = some i) ∨ (th.pc = .start ∧ σ.lock = none))
    (hcoh : R.pe = true → σ.lock = none → (σ.cell R.ck).val = none ∨ (σ.cell R.ck).val = σ.p.val)
    (hlisty : listy (curVal R σ)) :
    NoCommit R i σ th (stepThread true R i ft σ th).st (stepThread true R i ft σ th).th ∨
    Commit R i σ th (stepThread true R i ft σ th).st (stepThread true R i ft σ th).th := by
  have hfc : fails ft R.ck = false := fails_ck_false hpf hck
  cases hpc : th.pc with
  | start =>
    left
    have hlk : σ.lock = none := by
      rcases hl with ⟨hm, _⟩ | ⟨_, h⟩
      · exact absurd hpc hm.1
      · exact h
    simp only [pcFacts, hpc] at hf
    obtain ⟨hcv, hres⟩ := hf
    have heq := step_list_start R i ft σ th hk hpc hfc
    have h1 := congrArg Prod.fst heq
    have h2 := congrArg Prod.snd heq
    simp only at h1 h2
    rw [h1, h2]
    cases hcc : (σ.cell R.ck).val with
    | some v =>
      simp only
      have hcur : curVal R { σ with lock := some i } = some v := by
        rw [curVal_lock]
        unfold curVal
        by_cases hpe : R.pe = true
        · rcases hcoh hpe hlk with h | h
          · rw [hcc] at h; cases h
          · simp [hpe, ← h, hcc]
        · simp [hpe, hcc]
      exact listCont_nocommit R i σ _ th (some v) hk hcv hres rfl hcur
        (by rw [← hcur, curVal_lock]; exact hlisty) (curVal_lock R σ _)
        (by intro hpe; simpa using hcoh hpe hlk)
    | none =>
      simp only
      by_cases hc : (R.pe && !R.passErr) = true
      · simp only [hc, if_true]
        have hpe : R.pe = true := by simp at hc; exact hc.1
        refine ⟨rfl, rfl, curVal_lock R σ _, Or.inl ⟨by simp [mid], rfl⟩, ?_, ?_⟩
        · intro _ h; cases h
        · simp only [pcFacts]
          exact ⟨hpe, fun _ => by simpa using hcc, hcv, hres⟩
      · simp only [hc]
        have hpe : R.pe = false := by
          cases hq : R.pe with
          | false => rfl
          | true => simp [hq, hpp hq] at hc
        have hcur : curVal R { σ with lock := some i } = none := by
          rw [curVal_lock]; simp [curVal, hpe, hcc]
        exact listCont_nocommit R i σ _ th none hk hcv hres rfl hcur trivial (curVal_lock R σ _)
          (by intro h; rw [hpe] at h; cases h)
  | readP =>
    have hlk : σ.lock = some i := by
      rcases hl with ⟨_, h⟩ | ⟨h, _⟩
      · exact h
      · rw [hpc] at h; cases h
    simp only [pcFacts, hpc] at hf
    obtain ⟨hpe, hcc', hcv, hres⟩ := hf
    have hcc : (σ.cell R.ck).val = none := hcc' (by
      rcases hk with ⟨x, hx⟩ | ⟨x, hx⟩ <;> rw [hx] <;> intro h <;> cases h)
    have heq := step_list_readP R i ft σ th hk hpc
    have h1 := congrArg Prod.fst heq
    have h2 := congrArg Prod.snd heq
    simp only at h1 h2
    rw [h1, h2]
    left
    by_cases hfp : fails ft .persistent = true
    · simp only [hfp, if_true]
      refine ⟨rfl, rfl, curVal_unlock R σ, Or.inr ⟨by simp [mid, finish], rfl⟩, ?_, ?_⟩
      · intro _ _; left; simpa using hcc
      · simp [pcFacts, finish, hcv]
    · have hfp' : fails ft .persistent = false := by simpa using hfp
      simp only [hfp', Bool.false_eq_true, ↓reduceIte]
      cases hp : σ.p.val with
      | none =>
        simp only
        exact listCont_nocommit R i σ σ th none hk hcv hres hlk (by simp [curVal, hpe, hp]) trivial rfl
          (fun _ => Or.inl hcc)
      | some v =>
        simp only
        refine ⟨rfl, rfl, rfl, Or.inl ⟨by simp [mid], hlk⟩, ?_, ?_⟩
        · intro _ h; rw [hlk] at h; cases h
        · simp only [pcFacts]; exact ⟨hpe, Or.inl hcc, hp, hcv, hres⟩
  | wb v ver =>
    have hlk : σ.lock = some i := by
      rcases hl with ⟨_, h⟩ | ⟨h, _⟩
      · exact h
      · rw [hpc] at h; cases h
    simp only [pcFacts, hpc] at hf
    obtain ⟨hpe, hcc, hp, hcv, hres⟩ := hf
    have heq := step_list_wb R i ft σ th v ver hk hpc hfc
    have h1 := congrArg Prod.fst heq
    have h2 := congrArg Prod.snd heq
    simp only at h1 h2
    rw [h1, h2]
    left
    have hcur0 : curVal R σ = some v := by simp [curVal, hpe, hp]
    have hcur : curVal R (σ.setCell R.ck ⟨some v, R.wbTTL, ver⟩) = some v := by
      simp [curVal, hpe, p_setCell _ _ _ hck, hp]
    exact listCont_nocommit R i σ _ th (some v) hk hcv hres (by simpa using hlk) hcur
      (by rw [← hcur0]; exact hlisty) (by rw [hcur, hcur0])
      (by intro _; right; simp [p_setCell _ _ _ hck, hp])
  | write v ttl =>
    have hlk : σ.lock = some i := by
      rcases hl with ⟨_, h⟩ | ⟨h, _⟩
      · exact h
      · rw [hpc] at h; cases h
    simp only [pcFacts, hpc] at hf
    obtain ⟨hng, hv, hcv, hres, hcw⟩ := hf
    rw [step_list_write R i ft σ th v ttl hk hpc]
    unfold writeStep
    by_cases hpe : R.pe = true
    · simp only [hpe, if_true]
      by_cases hfp : fails ft .persistent = true
      · simp only [hfp, if_true]
        left
        refine ⟨rfl, rfl, curVal_unlock R σ, Or.inr ⟨by simp [mid, finish], rfl⟩, ?_, ?_⟩
        · intro _ _; simpa using hcw hpe
        · simp [pcFacts, finish, hcv]
      · have hfp' : fails ft .persistent = false := by simpa using hfp
        simp only [hfp', Bool.false_eq_true, ↓reduceIte]
        right
        refine ⟨rfl, hcv, rfl, ?_, Or.inl ⟨by simp [mid], hlk⟩, ?_, ?_⟩
        · simp [curVal, hpe, hv]
        · intro _ h
          have : σ.lock = none := h
          rw [hlk] at this; cases this
        · simp only [pcFacts]; exact ⟨hng, hpe, trivial, rfl, hres⟩
    · have hpe' : R.pe = false := by cases hq : R.pe <;> simp_all
      simp only [hpe', hfc, Bool.false_eq_true, ↓reduceIte]
      right
      refine ⟨rfl, hcv, rfl, ?_, Or.inr ⟨by simp [mid, finish], by simp⟩, ?_, ?_⟩
      · simp [curVal, hpe', hv]
      · intro h; rw [hpe'] at h; cases h
      · simp [pcFacts, finish]
  | writeC v ttl ver =>
    have hlk : σ.lock = some i := by
      rcases hl with ⟨_, h⟩ | ⟨h, _⟩
      · exact h
      · rw [hpc] at h; cases h
    simp only [pcFacts, hpc] at hf
    obtain ⟨_, hpe, hp, hcv, hres⟩ := hf
    have heq := step_list_writeC R i ft σ th v ttl ver hk hpc hfc
    have h1 := congrArg Prod.fst heq
    have h2 := congrArg Prod.snd heq
    simp only at h1 h2
    rw [h1, h2]
    left
    refine ⟨rfl, rfl, ?_, Or.inr ⟨by simp [mid, finish], rfl⟩, ?_, ?_⟩
    · simp [curVal, hpe, p_setCell _ _ _ hck]
    · intro _ _; right; simp [p_setCell _ _ _ hck, hp]
    · simp only [pcFacts, finish]; exact ⟨rfl, fun _ => hcv, fun _ => trivial⟩
  | delP c => simp [pcFacts, hpc] at hf
  | exP => simp [pcFacts, hpc] at hf
  | expW a b c => simp [pcFacts, hpc] at hf
  | done =>
    rcases hl with ⟨h, _⟩ | ⟨h, _⟩
    · exact absurd hpc h.2
    · rw [hpc] at h; cases h


theorem linv_now {R : Route} {l0 : List Nat} {cfg : Cfg} (h : LInv R l0 cfg) (n : Nat) :
    LInv R l0 { cfg with now := n } :=
  ⟨h.kinds, h.listy, h.holder, h.owned, h.coh, h.facts, h.memA, h.memB, h.memC, h.memD⟩

theorem pcFacts_evict {R : Route} {σ : St} {t : Tier} {th : Thread} (ht : t ≠ .persistent) (hpe : R.pe = true)
    (h : pcFacts R σ th) : pcFacts R (σ.setCell t ⟨none, 0, (σ.cell t).ver⟩) th := by
  have hp : (σ.setCell t ⟨none, 0, (σ.cell t).ver⟩).p = σ.p := p_setCell _ _ _ ht
  have hcur : curVal R (σ.setCell t ⟨none, 0, (σ.cell t).ver⟩) = curVal R σ := by simp [curVal, hpe, hp]
  have hck : ((σ.setCell t ⟨none, 0, (σ.cell t).ver⟩).cell R.ck).val = none ∨
      (σ.setCell t ⟨none, 0, (σ.cell t).ver⟩).cell R.ck = σ.cell R.ck := by
    by_cases htc : t = R.ck
    · subst htc; left; simp
    · right; exact cell_setCell_ne _ _ _ _ htc
  unfold pcFacts at *
  cases hpc : th.pc <;> simp only [hpc] at h ⊢ <;> try exact h
  · obtain ⟨h1, h2, h3, h4⟩ := h
    refine ⟨h1, ?_, h3, h4⟩
    intro hne
    rcases hck with h | h
    · exact h
    · rw [h]; exact h2 hne
  · obtain ⟨h1, h2, h3, h4, h5⟩ := h
    refine ⟨h1, ?_, by rw [hp]; exact h3, h4, h5⟩
    rcases hck with h | h
    · exact Or.inl h
    · rw [h, hp]; exact h2
  · obtain ⟨h0, h1, h2, h3, h4⟩ := h
    refine ⟨h0, by rw [hcur]; exact h1, h2, h3, ?_⟩
    intro hp'
    rcases hck with h | h
    · exact Or.inl h
    · rw [h, hp]; exact h4 hp'
  · obtain ⟨h0, h1, h2, h3, h4⟩ := h
    exact ⟨h0, h1, by rw [hp]; exact h2, h3, h4⟩

theorem linv_evict {R : Route} {l0 : List Nat} {cfg : Cfg} (h : LInv R l0 cfg) {t : Tier}
    (ht : t ≠ .persistent) (hpe : R.pe = true) (n : Nat) :
    LInv R l0 { cfg with st := cfg.st.setCell t ⟨none, 0, (cfg.st.cell t).ver⟩, now := n } := by
  have hp : (cfg.st.setCell t ⟨none, 0, (cfg.st.cell t).ver⟩).p = cfg.st.p := p_setCell _ _ _ ht
  have hcur : curVal R (cfg.st.setCell t ⟨none, 0, (cfg.st.cell t).ver⟩) = curVal R cfg.st := by
    simp [curVal, hpe, hp]
  refine ⟨h.kinds, by show listy (curVal R _); rw [hcur]; exact h.listy,
    fun i th hth hm => by show (St.setCell _ _ _).lock = some i; rw [lock_setCell]; exact h.holder i th hth hm,
    fun i hi => h.owned i (by simpa using hi), ?_, fun i th hth => pcFacts_evict ht hpe (h.facts i th hth),
    ?_, ?_, ?_, ?_⟩
  · intro _ hl
    show ((St.setCell _ _ _).cell R.ck).val = none ∨ ((St.setCell _ _ _).cell R.ck).val = (St.setCell _ _ _).p.val
    by_cases htc : t = R.ck
    · subst htc; left; simp
    · rw [cell_setCell_ne _ _ _ _ htc, hp]
      exact h.coh hpe (by simpa using hl)
  · intro x i th hth hop hc hno
    show x ∈ lst (curVal R _); rw [hcur]; exact h.memA x i th hth hop hc hno
  · intro x i th hth hop hc hno
    show x ∉ lst (curVal R _); rw [hcur]; exact h.memB x i th hth hop hc hno
  · intro y hy
    exact h.memC y (by rw [← hcur]; exact hy)
  · intro y hy hno
    show y ∈ lst (curVal R _); rw [hcur]; exact h.memD y hy hno

/-- A step that changes nothing shared (a reader outside the key lock). -/
theorem linv_quiet {R : Route} {l0 : List Nat} {cfg : Cfg} (h : LInv R l0 cfg) {i : Nat} {th th' : Thread}
    {now' : Nat} {tr' : List Ev}
    (hth : cfg.threads[i]? = some th) (hop : th'.op = th.op) (hcv : th'.cver = th.cver)
    (hl : ¬ lkd th) (hl' : ¬ lkd th') (hf : pcFacts R cfg.st th') :
    LInv R l0 { st := cfg.st, threads := cfg.threads.set i th' ++ [], now := now', trace := tr' } := by
  have hlt := lt_of_getElem? hth
  have hget : ∀ (j : Nat), (cfg.threads.set i th' ++ ([] : List Thread))[j]? =
      if i = j then some th' else cfg.threads[j]? := by
    intro j; exact getElem?_set_nil' _ _ _ _ hlt
  have hops : ∀ (j : Nat) (u : Thread), (cfg.threads.set i th' ++ ([] : List Thread))[j]? = some u →
      ∃ u0, cfg.threads[j]? = some u0 ∧ u0.op = u.op ∧ u0.cver = u.cver ∧ (lkd u → lkd u0) ∧
        (pcFacts R cfg.st u0 → pcFacts R cfg.st u) := by
    intro j u hu
    rw [hget] at hu
    by_cases hij : i = j
    · subst hij; simp at hu; subst hu
      exact ⟨th, hth, hop.symm, hcv.symm, fun hh => absurd hh hl', fun _ => hf⟩
    · simp [hij] at hu; exact ⟨u, hu, rfl, rfl, id, id⟩
  have hops' : ∀ (j : Nat) (u0 : Thread), cfg.threads[j]? = some u0 →
      ∃ u, (cfg.threads.set i th' ++ ([] : List Thread))[j]? = some u ∧ u0.op = u.op ∧ u0.cver = u.cver ∧
        (lkd u0 → lkd u) := by
    intro j u0 hu0
    by_cases hij : i = j
    · subst hij; rw [hth] at hu0; cases hu0
      exact ⟨th', by rw [hget]; simp, hop.symm, hcv.symm, fun hh => absurd hh hl⟩
    · exact ⟨u0, by rw [hget]; simp [hij, hu0], rfl, rfl, id⟩
  constructor
  · intro j u hu
    obtain ⟨u0, hu0, ho, _⟩ := hops j u hu
    rw [← ho]; exact h.kinds j u0 hu0
  · exact h.listy
  · intro j u hu hm
    obtain ⟨u0, hu0, _, _, hlk, _⟩ := hops j u hu
    exact h.holder j u0 hu0 (hlk hm)
  · intro k hk
    obtain ⟨t, ht, hm⟩ := h.owned k hk
    obtain ⟨u, hu, _, _, hlk⟩ := hops' k t ht
    exact ⟨u, hu, hlk hm⟩
  · exact h.coh
  · intro j u hu
    obtain ⟨u0, hu0, _, _, _, hfx⟩ := hops j u hu
    exact hfx (h.facts j u0 hu0)
  · intro x j u hu hux hc hno
    obtain ⟨u0, hu0, ho, hc0, _⟩ := hops j u hu
    refine h.memA x j u0 hu0 (by rw [ho]; exact hux) (by rw [hc0]; exact hc) ?_
    intro k w hw hwop
    obtain ⟨w', hw', hwo, hwc, _⟩ := hops' k w hw
    rw [hwc]; exact hno k w' hw' (by rw [← hwo]; exact hwop)
  · intro x j u hu hux hc hno
    obtain ⟨u0, hu0, ho, hc0, _⟩ := hops j u hu
    refine h.memB x j u0 hu0 (by rw [ho]; exact hux) (by rw [hc0]; exact hc) ?_
    intro k w hw hwop
    obtain ⟨w', hw', hwo, hwc, _⟩ := hops' k w hw
    rw [hwc]; exact hno k w' hw' (by rw [← hwo]; exact hwop)
  · intro y hy
    rcases h.memC y hy with h1 | ⟨j, u0, hu0, ho, hc⟩
    · exact Or.inl h1
    · obtain ⟨u, hu, hou, hcu, _⟩ := hops' j u0 hu0
      exact Or.inr ⟨j, u, hu, by rw [← hou]; exact ho, by rw [← hcu]; exact hc⟩
  · intro y hy hno
    refine h.memD y hy ?_
    intro k w hw hwop
    obtain ⟨w', hw', hwo, hwc, _⟩ := hops' k w hw
    rw [hwc]; exact hno k w' hw' (by rw [← hwo]; exact hwop)

/-! #### Steps of a plain `GetList` reader -/

theorem step_getl_start (R : Route) (i : Nat) (ft : Option Tier) (σ : St) (t : Thread)
    (hop : t.op = .getl) (hpc : t.pc = .start) (hfc : fails ft R.ck = false) :
    ((stepThread true R i ft σ t).st, (stepThread true R i ft σ t).th) =
      match (σ.cell R.ck).val with
      | some v => (σ, { finish t (readRes .getl v) with rver := some (σ.cell R.ck).ver })
      | none =>
        if (R.pe && !R.passErr) = true then (σ, { t with pc := .readP })
        else (σ, { finish t .nf with rver := some (σ.cell R.ck).ver }) := by
  obtain ⟨op, pc, inv, ret, res, cver, rver, node⟩ := t
  simp only at hpc hop
  subst hpc; subst hop
  simp only [stepThread, hfc, Bool.false_eq_true, ↓reduceIte]
  cases (σ.cell R.ck).val with
  | some v => simp
  | none => by_cases hc : (R.pe && !R.passErr) = true <;> simp [hc]

theorem step_getl_readP (R : Route) (i : Nat) (ft : Option Tier) (σ : St) (t : Thread)
    (hop : t.op = .getl) (hpc : t.pc = .readP) :
    ((stepThread true R i ft σ t).st, (stepThread true R i ft σ t).th) =
      if fails ft .persistent = true then (unlock σ, finish t .err)
      else match σ.p.val with
        | none => (unlock σ, { finish t .nf with rver := some σ.p.ver })
        | some v => ({ σ with lock := some i }, { t with pc := .wb v σ.p.ver }) := by
  obtain ⟨op, pc, inv, ret, res, cver, rver, node⟩ := t
  simp only at hpc hop
  subst hpc; subst hop
  simp only [stepThread]
  split
  · rfl
  · cases σ.p.val <;> simp

theorem step_getl_wb (R : Route) (i : Nat) (ft : Option Tier) (σ : St) (t : Thread) (v : Val) (ver : Nat)
    (hop : t.op = .getl) (hpc : t.pc = .wb v ver) (hfc : fails ft R.ck = false) :
    ((stepThread true R i ft σ t).st, (stepThread true R i ft σ t).th) =
      (unlock (σ.setCell R.ck ⟨some v, R.wbTTL, ver⟩), { finish t (readRes .getl v) with rver := some ver }) := by
  obtain ⟨op, pc, inv, ret, res, cver, rver, node⟩ := t
  simp only at hpc hop
  subst hpc; subst hop
  simp [stepThread, hfc]

theorem readRes_getl_ne_ok (v : Val) : readRes .getl v ≠ .ok := by
  unfold readRes
  cases decodeList v <;> simp

theorem linv_stepCfg (R : Route) (hck : R.ck ≠ .persistent) (hpp : R.pe = true → R.passErr = false)
    (l0 : List Nat) (cfg : Cfg) (e : Entry) (hpf : PFault e.fault) (hev : EvictOK R e) (hn : Nodes0 cfg)
    (h : LInv R l0 cfg) :
    LInv R l0 (stepCfg .repaired R cfg e) := by
  rcases stepCfg_cases0 .repaired R cfg e hn with heq | ⟨t, het, heq⟩ | ⟨th, hth, hen, heq⟩
  · rw [heq]; exact linv_now h _
  · rw [heq]
    obtain ⟨h0, htp, hpe⟩ := hev t het
    rw [h0, evictCell_zero]
    exact linv_evict h htp hpe _
  · rw [heq]
    simp only [Variant.lk] at hen ⊢
    rw [stepThread_spawn_repaired]
    simp only [Option.map_none, Option.toList]
    rcases h.kinds e.tid th hth with hLM | hgetl
    · -- append / remove
      have hneed : ¬ lkd th → needsLock th.op th.pc = true := by
        intro hnl
        rw [lkd_of_LM hLM] at hnl
        have hs : th.pc = .start := by
          by_cases hs : th.pc = .start
          · exact hs
          · have hd : th.pc = .done := by
              by_cases hd : th.pc = .done
              · exact hd
              · exact absurd ⟨hs, hd⟩ hnl
            unfold enabled at hen; simp [hd] at hen
        rcases hLM with ⟨x, hx⟩ | ⟨x, hx⟩ <;> simp [hx, hs, needsLock]
      have hoth := others_nonmid h hth hen hneed
      have hl0 := lock_of_enabled h hth hen hneed
      have hl : (mid th.pc ∧ cfg.st.lock = some e.tid) ∨ (th.pc = .start ∧ cfg.st.lock = none) := by
        rcases hl0 with ⟨h1, h2⟩ | ⟨h1, h2⟩
        · exact Or.inl ⟨(lkd_of_LM hLM).1 h1, h2⟩
        · right
          rw [lkd_of_LM hLM] at h1
          refine ⟨?_, h2⟩
          by_cases hs : th.pc = .start
          · exact hs
          · have hd : th.pc = .done := by
              by_cases hd : th.pc = .done
              · exact hd
              · exact absurd ⟨hs, hd⟩ h1
            unfold enabled at hen; simp [hd] at hen
      have hstep := list_step R hck hpp e.tid e.fault hpf cfg.st
        { th with inv := some (th.inv.getD cfg.now), ret := some cfg.now }
        hLM (h.facts e.tid th hth) hl
        (fun hpe hlk => h.coh hpe hlk) h.listy
      rcases hstep with hn | hc
      · have hLM' : isLM (stepThread true R e.tid e.fault cfg.st
            { th with inv := some (th.inv.getD cfg.now), ret := some cfg.now }).th.op := by rw [hn.op]; exact hLM
        exact linv_nocommit h hth hoth hn.op hn.cv hn.cur
          (by rcases hn.lock with ⟨a, b⟩ | ⟨a, b⟩
              · exact Or.inl ⟨(lkd_of_LM hLM').2 a, b⟩
              · exact Or.inr ⟨fun hh => a ((lkd_of_LM hLM').1 hh), b⟩) hn.coh hn.facts
      · have hLM' : isLM (stepThread true R e.tid e.fault cfg.st
            { th with inv := some (th.inv.getD cfg.now), ret := some cfg.now }).th.op := by rw [hc.op]; exact hLM
        exact linv_commit h hth hoth hLM hc.op hc.cv0 hc.cv hc.cur
          (by rcases hc.lock with ⟨a, b⟩ | ⟨a, b⟩
              · exact Or.inl ⟨(lkd_of_LM hLM').2 a, b⟩
              · exact Or.inr ⟨fun hh => a ((lkd_of_LM hLM').1 hh), b⟩) hc.coh hc.facts
    · -- a plain GetList reader
      have hfc : fails e.fault R.ck = false := fails_ck_false hpf hck
      have hf := h.facts e.tid th hth
      have hop0 : ({ th with inv := some (th.inv.getD cfg.now), ret := some cfg.now } : Thread).op = .getl := hgetl
      cases hpc : th.pc with
      | start =>
        simp only [pcFacts, hpc] at hf
        obtain ⟨hcv, hres⟩ := hf
        have hnl : ¬ lkd th := by unfold lkd mid; simp [hpc]
        have heq2 := step_getl_start R e.tid e.fault cfg.st
          { th with inv := some (th.inv.getD cfg.now), ret := some cfg.now } hop0 hpc hfc
        have h1 := congrArg Prod.fst heq2
        have h2 := congrArg Prod.snd heq2
        simp only at h1 h2
        simp only [hpc] at h1 h2
        rw [h1, h2]
        cases hcc : (cfg.st.cell R.ck).val with
        | some v =>
          simp only
          exact linv_quiet h hth rfl rfl hnl (by unfold lkd mid; simp [finish])
            (by simp [pcFacts, finish, hcv, readRes_getl_ne_ok])
        | none =>
          simp only
          by_cases hc : (R.pe && !R.passErr) = true
          · simp only [hc, if_true]
            have hpe : R.pe = true := by simp at hc; exact hc.1
            exact linv_quiet h hth rfl rfl hnl (by unfold lkd; simp [hgetl])
              (by simp [pcFacts, hpe, hgetl, hcv, hres])
          · simp only [hc]
            exact linv_quiet h hth rfl rfl hnl (by unfold lkd mid; simp [finish])
              (by simp [pcFacts, finish, hcv])
      | readP =>
        simp only [pcFacts, hpc] at hf
        obtain ⟨hpe, _, hcv, hres⟩ := hf
        have hnl : ¬ lkd th := by unfold lkd; simp [hpc, hgetl]
        have hneed : ¬ lkd th → needsLock th.op th.pc = true := by
          intro _; simp [hgetl, hpc, needsLock]
        have hoth := others_nonmid h hth hen hneed
        have hlk : cfg.st.lock = none := by
          rcases lock_of_enabled h hth hen hneed with ⟨a, _⟩ | ⟨_, b⟩
          · exact absurd a hnl
          · exact b
        have heq2 := step_getl_readP R e.tid e.fault cfg.st
          { th with inv := some (th.inv.getD cfg.now), ret := some cfg.now } hop0 hpc
        have h1 := congrArg Prod.fst heq2
        have h2 := congrArg Prod.snd heq2
        simp only at h1 h2
        simp only [hpc] at h1 h2
        rw [h1, h2]
        by_cases hfp : fails e.fault .persistent = true
        · simp only [hfp, if_true]
          exact linv_nocommit h hth hoth rfl rfl (curVal_unlock R _)
            (Or.inr ⟨by unfold lkd mid; simp [finish], rfl⟩)
            (fun hp _ => by simpa using h.coh hp hlk) (by simp [pcFacts, finish, hcv])
        · have hfp' : fails e.fault .persistent = false := by simpa using hfp
          simp only [hfp', Bool.false_eq_true, ↓reduceIte]
          cases hp : cfg.st.p.val with
          | none =>
            simp only
            exact linv_nocommit h hth hoth rfl rfl (curVal_unlock R _)
              (Or.inr ⟨by unfold lkd mid; simp [finish], rfl⟩)
              (fun hp' _ => by simpa using h.coh hp' hlk) (by simp [pcFacts, finish, hcv])
          | some v =>
            simp only
            exact linv_nocommit h hth hoth rfl rfl (curVal_lock R _ _)
              (Or.inl ⟨by unfold lkd mid; simp, rfl⟩)
              (fun _ hl => by cases hl)
              (by simp only [pcFacts]; exact ⟨hpe, by simpa using h.coh hpe hlk, hp, hcv, hres⟩)
      | wb v ver =>
        simp only [pcFacts, hpc] at hf
        obtain ⟨hpe, _, hp, hcv, hres⟩ := hf
        have hl : lkd th := by unfold lkd mid; simp [hpc]
        have hneed : ¬ lkd th → needsLock th.op th.pc = true := fun hh => absurd hl hh
        have hoth := others_nonmid h hth hen hneed
        have heq2 := step_getl_wb R e.tid e.fault cfg.st
          { th with inv := some (th.inv.getD cfg.now), ret := some cfg.now } v ver hop0 hpc hfc
        have h1 := congrArg Prod.fst heq2
        have h2 := congrArg Prod.snd heq2
        simp only at h1 h2
        simp only [hpc] at h1 h2
        rw [h1, h2]
        exact linv_nocommit h hth hoth rfl rfl
          (by simp [curVal, hpe, p_setCell _ _ _ hck])
          (Or.inr ⟨by unfold lkd mid; simp [finish], rfl⟩)
          (fun _ _ => Or.inr (by simp [p_setCell _ _ _ hck, hp]))
          (by simp [pcFacts, finish, hcv, readRes_getl_ne_ok])
      | done => unfold enabled at hen; simp [hpc] at hen
      | write a b => simp [pcFacts, hpc] at hf; exact absurd hgetl hf.1
      | writeC a b c => simp [pcFacts, hpc] at hf; exact absurd hgetl hf.1
      | delP a => simp [pcFacts, hpc] at hf
      | exP => simp [pcFacts, hpc] at hf
      | expW a b c => simp [pcFacts, hpc] at hf

theorem linv_run (R : Route) (hck : R.ck ≠ .persistent) (hpp : R.pe = true → R.passErr = false)
    (l0 : List Nat) (sch : List Entry) (hpf : ∀ e ∈ sch, PFault e.fault) (hev : ∀ e ∈ sch, EvictOK R e)
    (cfg : Cfg) (hn : Nodes0 cfg) (h : LInv R l0 cfg) :
    LInv R l0 (run .repaired R cfg sch) := by
  induction sch generalizing cfg with
  | nil => exact h
  | cons e rest ih =>
    exact ih (fun e' he' => hpf e' (List.mem_cons_of_mem _ he')) (fun e' he' => hev e' (List.mem_cons_of_mem _ he')) _
      (nodes0_stepCfg R cfg e hn)
      (linv_stepCfg R hck hpp l0 cfg e (hpf e (List.mem_cons_self ..)) (hev e (List.mem_cons_self ..)) hn h)

/-! ### From the invariant to `holdsList` -/

def St0 (c s p : Option Val) : St := { c := ⟨c, 0, 0⟩, s := ⟨s, 0, 0⟩, p := ⟨p, 0, 0⟩ }

theorem finalGet_eq (R : Route) (hpp : R.pe = true → R.passErr = false) (σ : St)
    (hcoh : R.pe = true → (σ.cell R.ck).val = none ∨ (σ.cell R.ck).val = σ.p.val) :
    finalGet R σ = match curVal R σ with
      | some v => .val v
      | none => .nf := by
  unfold finalGet curVal
  by_cases hpe : R.pe = true
  · have hpass := hpp hpe
    simp only [hpe, hpass, if_true]
    rcases hcoh hpe with h | h
    · rw [h]; cases σ.p.val <;> simp
    · rw [h]; cases σ.p.val <;> simp
  · have hpe' : R.pe = false := by cases hq : R.pe <;> simp_all
    simp only [hpe']
    cases (σ.cell R.ck).val <;> simp

theorem coherent_iff (R : Route) (c s p : Option Val) :
    coherent R c s p = true ↔
      (R.pe = true → ((St0 c s p).cell R.ck).val = none ∨ ((St0 c s p).cell R.ck).val = (St0 c s p).p.val) := by
  unfold coherent
  simp only [St0, Bool.or_eq_true, Bool.not_eq_true', Option.isNone_iff_eq_none, beq_iff_eq]
  constructor
  · intro h hpe
    rcases h with (h | h) | h
    · rw [hpe] at h; cases h
    · exact Or.inl h
    · exact Or.inr h
  · intro h
    cases hpe : R.pe with
    | false => exact Or.inl (Or.inl rfl)
    | true =>
      rcases h hpe with h | h
      · exact Or.inl (Or.inr h)
      · exact Or.inr h

theorem initVal_eq_curVal (R : Route) (hpp : R.pe = true → R.passErr = false) (c s p : Option Val)
    (hco : coherent R c s p = true) : initVal R c s p = curVal R (St0 c s p) := by
  have h := finalGet_eq R hpp (St0 c s p) ((coherent_iff R c s p).1 hco)
  unfold initVal
  show (match finalGet R (St0 c s p) with | .val v => some v | _ => none) = _
  rw [h]
  cases curVal R (St0 c s p) <;> rfl

theorem linv_init (R : Route) (hpp : R.pe = true → R.passErr = false) (c s p : Option Val) (ops : List Op)
    (hco : coherent R c s p = true) (hall : ∀ o ∈ ops, isLMR o) (hlisty : listy (initVal R c s p)) :
    LInv R (lst (initVal R c s p)) (initCfg c s p ops) := by
  have hcur : curVal R (initCfg c s p ops).st = initVal R c s p := (initVal_eq_curVal R hpp c s p hco).symm
  have hth : ∀ (i : Nat) (t : Thread), (initCfg c s p ops).threads[i]? = some t →
      ∃ o ∈ ops, t = { op := o } := by
    intro i t ht
    simp only [initCfg, List.getElem?_map] at ht
    cases ho : ops[i]? with
    | none => simp [ho] at ht
    | some o =>
      simp [ho] at ht
      exact ⟨o, List.mem_of_getElem? ho, ht.symm⟩
  constructor
  · intro i t ht
    obtain ⟨o, ho, rfl⟩ := hth i t ht
    exact hall o ho
  · rw [hcur]; exact hlisty
  · intro i t ht hm
    obtain ⟨o, _, rfl⟩ := hth i t ht
    exact absurd rfl hm.1.1
  · intro i hi
    simp [initCfg] at hi
  · intro hpe _
    exact (coherent_iff R c s p).1 hco hpe
  · intro i t ht
    obtain ⟨o, _, rfl⟩ := hth i t ht
    simp [pcFacts]
  · intro x i t ht _ hc
    obtain ⟨o, _, rfl⟩ := hth i t ht
    simp at hc
  · intro x i t ht _ hc
    obtain ⟨o, _, rfl⟩ := hth i t ht
    simp at hc
  · intro y hy
    rw [hcur] at hy
    exact Or.inl hy
  · intro y hy _
    rw [hcur]; exact hy

theorem isListMut_LM {o : Op} (h : isListMut o = true) (hw : o ≠ .wbk) : isLMR o := by
  cases o <;> simp [isListMut] at h
  · exact Or.inr rfl
  · exact Or.inl (Or.inl ⟨_, rfl⟩)
  · exact Or.inl (Or.inr ⟨_, rfl⟩)
  · exact absurd rfl hw

theorem list_main (R : Route) (c s p : Option Val) (ops : List Op) (sch : List Entry)
    (hck : R.ck ≠ .persistent) (hpp : R.pe = true → R.passErr = false) (hops : ∀ o ∈ ops, o ≠ .wbk)
    (hf : ∀ e ∈ sch, e.fault = none ∨ e.fault = some .persistent) (hev : ∀ e ∈ sch, EvictOK R e)
    (hco : coherent R c s p = true) :
    holdsList (initVal R c s p) (model .repaired R c s p ops sch).ths
      (model .repaired R c s p ops sch).fget = true := by
  unfold holdsList
  split
  · rename_i hallb
    cases hlo : listOf (initVal R c s p) with
    | none => rfl
    | some l0 =>
      simp only
      -- every call is an append/remove
      have hopsEq := run_ops_repaired R sch (initCfg c s p ops)
      have hfinal : ∀ t ∈ (run .repaired R (initCfg c s p ops) sch).threads,
          isListMut t.op = true ∧ t.res.isSome = true := by
        intro t ht
        simp only [model, obsOf, List.all_eq_true, List.mem_map, Bool.and_eq_true] at hallb
        exact hallb _ ⟨t, ht, rfl⟩
      have hall : ∀ o ∈ ops, isLMR o := by
        intro o ho
        have : o ∈ (run .repaired R (initCfg c s p ops) sch).threads.map (·.op) := by
          rw [hopsEq]; simp [initCfg, List.map_map]; exact ho
        obtain ⟨t, ht, rfl⟩ := List.mem_map.1 this
        exact isListMut_LM (hfinal t ht).1 (hops _ ho)
      have hlisty : listy (initVal R c s p) ∧ l0 = lst (initVal R c s p) := by
        cases hi : initVal R c s p with
        | none => simp [hi, listOf] at hlo; exact ⟨trivial, by simp [lst, hlo]⟩
        | some v =>
          cases v <;> simp [hi, listOf] at hlo
          · exact ⟨trivial, by simp [lst, hlo]⟩
          · exact ⟨trivial, by simp [lst, hlo]⟩
      obtain ⟨hly, hl0⟩ := hlisty
      have hinv := linv_run R hck hpp _ sch hf hev _ (nodes0_init c s p ops) (linv_init R hpp c s p ops hco hall hly)
      -- all calls have returned: nobody holds the lock
      have hlock : (run .repaired R (initCfg c s p ops) sch).st.lock = none := by
        cases hl : (run .repaired R (initCfg c s p ops) sch).st.lock with
        | none => rfl
        | some k =>
          obtain ⟨t, ht, hm⟩ := hinv.owned k hl
          have hres := (hfinal t (List.mem_of_getElem? ht)).2
          have hfacts := hinv.facts k t ht
          unfold pcFacts at hfacts
          unfold lkd mid at hm
          cases hpc : t.pc <;> simp_all
      have hfg := finalGet_eq R hpp _ (fun hpe => hinv.coh hpe hlock)
      have hdoneCommitted : ∀ t ∈ (run .repaired R (initCfg c s p ops) sch).threads,
          t.res = some .ok → t.cver.isSome = true := by
        intro t ht hok
        obtain ⟨k, hk⟩ := List.mem_iff_getElem?.1 ht
        have hfacts := hinv.facts k t hk
        unfold pcFacts at hfacts
        cases hpc : t.pc <;> simp_all
      have hcommittedOk : ∀ t ∈ (run .repaired R (initCfg c s p ops) sch).threads,
          t.cver.isSome = true → t.res = some .ok := by
        intro t ht hc
        obtain ⟨k, hk⟩ := List.mem_iff_getElem?.1 ht
        have hfacts := hinv.facts k t hk
        have hres := (hfinal t ht).2
        unfold pcFacts at hfacts
        cases hpc : t.pc <;> simp_all
      -- a call of that kind that did not succeed has not committed
      have hnoRem : ∀ x, okRem (model .repaired R c s p ops sch).ths x = false →
          ∀ (j : Nat) (u : Thread), (run .repaired R (initCfg c s p ops) sch).threads[j]? = some u →
            u.op = .rem x → u.cver = none := by
        intro x hno j u hu hop
        cases hc : u.cver with
        | none => rfl
        | some n =>
          have hok := hcommittedOk u (List.mem_of_getElem? hu) (by rw [hc]; rfl)
          simp only [okRem, model, obsOf, List.any_eq_false, List.mem_map, Bool.and_eq_true, beq_iff_eq, not_and] at hno
          exact absurd hok (hno _ ⟨u, List.mem_of_getElem? hu, rfl⟩ hop)
      have hnoApp : ∀ x, okApp (model .repaired R c s p ops sch).ths x = false →
          ∀ (j : Nat) (u : Thread), (run .repaired R (initCfg c s p ops) sch).threads[j]? = some u →
            u.op = .app x → u.cver = none := by
        intro x hno j u hu hop
        cases hc : u.cver with
        | none => rfl
        | some n =>
          have hok := hcommittedOk u (List.mem_of_getElem? hu) (by rw [hc]; rfl)
          simp only [okApp, model, obsOf, List.any_eq_false, List.mem_map, Bool.and_eq_true, beq_iff_eq, not_and] at hno
          exact absurd hok (hno _ ⟨u, List.mem_of_getElem? hu, rfl⟩ hop)
      -- membership facts in terms of the observation
      have hA : ∀ x, okApp (model .repaired R c s p ops sch).ths x = true →
          okRem (model .repaired R c s p ops sch).ths x = false →
          x ∈ lst (curVal R (run .repaired R (initCfg c s p ops) sch).st) := by
        intro x hok hno
        simp only [okApp, model, obsOf, List.any_eq_true, List.mem_map, Bool.and_eq_true, beq_iff_eq] at hok
        obtain ⟨_, ⟨t, ht, rfl⟩, hop, hres⟩ := hok
        obtain ⟨k, hk⟩ := List.mem_iff_getElem?.1 ht
        exact hinv.memA x k t hk hop (hdoneCommitted t ht hres) (hnoRem x hno)
      have hB : ∀ x, okRem (model .repaired R c s p ops sch).ths x = true →
          okApp (model .repaired R c s p ops sch).ths x = false →
          x ∉ lst (curVal R (run .repaired R (initCfg c s p ops) sch).st) := by
        intro x hok hno
        simp only [okRem, model, obsOf, List.any_eq_true, List.mem_map, Bool.and_eq_true, beq_iff_eq] at hok
        obtain ⟨_, ⟨t, ht, rfl⟩, hop, hres⟩ := hok
        obtain ⟨k, hk⟩ := List.mem_iff_getElem?.1 ht
        exact hinv.memB x k t hk hop (hdoneCommitted t ht hres) (hnoApp x hno)
      have hC : ∀ y ∈ lst (curVal R (run .repaired R (initCfg c s p ops) sch).st),
          l0.contains y = true ∨ okApp (model .repaired R c s p ops sch).ths y = true := by
        intro y hy
        rcases hinv.memC y hy with h1 | ⟨j, u, hu, hop, hc⟩
        · left; rw [hl0]; simpa using h1
        · right
          simp only [okApp, model, obsOf, List.any_eq_true, List.mem_map, Bool.and_eq_true, beq_iff_eq]
          exact ⟨_, ⟨u, List.mem_of_getElem? hu, rfl⟩, hop, hcommittedOk u (List.mem_of_getElem? hu) hc⟩
      have hD : ∀ y ∈ l0, okRem (model .repaired R c s p ops sch).ths y = false →
          y ∈ lst (curVal R (run .repaired R (initCfg c s p ops) sch).st) := by
        intro y hy hno
        exact hinv.memD y (by rw [← hl0]; exact hy) (hnoRem y hno)
      have hfget : (model .repaired R c s p ops sch).fget =
          finalGet R (run .repaired R (initCfg c s p ops) sch).st := rfl
      rw [hfget, hfg]
      have hly' := hinv.listy
      cases hcur : curVal R (run .repaired R (initCfg c s p ops) sch).st with
      | none =>
        simp only [Bool.and_eq_true, List.all_eq_true]
        refine ⟨?_, ?_⟩
        · intro x _
          cases hok : okApp (model .repaired R c s p ops sch).ths x with
          | false => simp
          | true =>
            cases hno : okRem (model .repaired R c s p ops sch).ths x with
            | true => simp
            | false =>
              have := hA x hok hno
              rw [hcur] at this
              simp [lst] at this
        · intro y hy
          cases hno : okRem (model .repaired R c s p ops sch).ths y with
          | true => rfl
          | false =>
            have := hD y hy hno
            rw [hcur] at this
            simp [lst] at this
      | some v =>
        rw [hcur] at hly'
        obtain ⟨f, hdec, hlst⟩ := listy_decode hly'
        have hlo' : listOf (some v) = some f := by
          cases v <;> simp [decodeList] at hdec <;> simp [listOf, hdec]
        simp only [hlo', Bool.and_eq_true, List.all_eq_true]
        refine ⟨⟨?_, ?_⟩, ?_⟩
        · intro x _
          refine ⟨?_, ?_⟩
          · cases hok : okApp (model .repaired R c s p ops sch).ths x with
            | false => simp
            | true =>
              cases hno : okRem (model .repaired R c s p ops sch).ths x with
              | true => simp
              | false =>
                have := hA x hok hno
                rw [hcur] at this
                simpa [hlst] using this
          · cases hok : okRem (model .repaired R c s p ops sch).ths x with
            | false => simp
            | true =>
              cases hno : okApp (model .repaired R c s p ops sch).ths x with
              | true => simp
              | false =>
                have := hB x hok hno
                rw [hcur] at this
                simpa [hlst] using this
        · intro y hy
          have := hC y (by rw [hcur, hlst]; exact hy)
          simpa using this
        · intro y hy
          cases hno : okRem (model .repaired R c s p ops sch).ths y with
          | true => simp
          | false =>
            have := hD y hy hno
            rw [hcur] at this
            simpa [hlst] using this
  · rfl

end Tunnox.C14
