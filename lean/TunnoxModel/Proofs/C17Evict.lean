import TunnoxModel.Proofs.C17
/-! C17, invariant C: `ClientRegistry.Register` with the evicting thread parked inside the victim's
`Close()` while it holds the registry lock (fused lock step, ONE critical section). -/
namespace Tunnox.C17

/-- The thread holds the registry lock. -/
def insideC : PC → Bool
  | .locked => true
  | .evicting _ => true
  | _ => false

structure COk (I : Nat) (occ locks : List Nat) (t : Thread) : Prop where
  only : ∀ o ∈ t.ops, o = Op.acquire
  shape : t.pc = .idle ∨ t.pc = .waiting ∨ t.pc = .locked ∨ ∃ v, t.pc = .evicting v
  act : t.ops ≠ [] → t.inst = I
  wact : t.pc ≠ .idle → t.inst = I
  held : t.pc ≠ .idle → I ∈ locks
  evi : ∀ v, t.pc = .evicting v → ∃ r, occ = v :: r

structure InvC (P : Proto) (limit pre I : Nat) (c : Cfg) : Prop where
  base : Base P.zeroUnl limit pre c
  thr : ∀ i, COk I c.occ c.locks (c.threads i)
  excl : ∀ i j, insideC (c.threads i).pc = true → insideC (c.threads j).pc = true → i = j
  wmem : ∀ i, (c.threads i).pc = .waiting → i ∈ c.waitq

theorem insideC_ne_idle {pc : PC} (h : insideC pc = true) : pc ≠ .idle := by
  intro e; rw [e] at h; cases h

theorem invC_upd {P : Proto} {limit pre I : Nat} {c : Cfg} (h : InvC P limit pre I c) (tid : Nat) (t' : Thread)
    (c' : Cfg) (hb : Base P.zeroUnl limit pre c') (hthr : c'.threads = upd c.threads tid t')
    (ht' : COk I c'.occ c'.locks t')
    (hother : ∀ j, j ≠ tid → (c.threads j).pc ≠ .idle →
      I ∈ c'.locks ∧ ∀ v, (c.threads j).pc = .evicting v → ∃ r, c'.occ = v :: r)
    (hex : insideC t'.pc = true → ∀ j, j ≠ tid → insideC (c.threads j).pc = false)
    (hw : ∀ j, (upd c.threads tid t' j).pc = .waiting → j ∈ c'.waitq) : InvC P limit pre I c' := by
  refine ⟨hb, ?_, ?_, ?_⟩
  · intro i
    rw [hthr]
    by_cases hi : i = tid
    · subst hi; rw [upd_self]; exact ht'
    · rw [upd_ne _ _ _ _ hi]
      have old := h.thr i
      exact ⟨old.only, old.shape, old.act, old.wact, fun hpc => (hother i hi hpc).1,
        fun v hpc => (hother i hi (by rw [hpc]; simp)).2 v hpc⟩
  · intro i j hi hj
    rw [hthr] at hi hj
    by_cases e1 : i = tid
    · by_cases e2 : j = tid
      · rw [e1, e2]
      · subst e1
        rw [upd_self] at hi
        rw [upd_ne _ _ _ _ e2] at hj
        rw [hex hi j e2] at hj; cases hj
    · by_cases e2 : j = tid
      · subst e2
        rw [upd_self] at hj
        rw [upd_ne _ _ _ _ e1] at hi
        rw [hex hj i e1] at hi; cases hi
      · rw [upd_ne _ _ _ _ e1] at hi
        rw [upd_ne _ _ _ _ e2] at hj
        exact h.excl i j hi hj
  · intro i hi
    rw [hthr] at hi
    exact hw i hi

theorem mem_holdLock (locks : List Nat) (i : Nat) : i ∈ holdLock locks i := by
  unfold holdLock
  split
  · assumption
  · exact List.mem_cons_self

theorem idleC_ok {I : Nat} {occ locks : List Nat} (t t' : Thread) (hpc : t'.pc = .idle) (hinst : t'.inst = t.inst)
    (hops : ∀ o ∈ t'.ops, o ∈ t.ops) (old : ∀ o ∈ t.ops, o = Op.acquire) (ho : t.ops ≠ [] → t.inst = I) :
    COk I occ locks t' := by
  refine ⟨fun o ho' => old o (hops o ho'), Or.inl hpc, ?_, ?_, ?_, ?_⟩
  · intro hh
    rw [hinst]
    apply ho
    intro e
    cases hl : t'.ops with
    | nil => exact hh hl
    | cons a r => have := hops a (by rw [hl]; exact List.mem_cons_self); rw [e] at this; cases this
  · intro hh; exact absurd hpc hh
  · intro hh; exact absurd hpc hh
  · intro v hh; rw [hpc] at hh; cases hh

/-- `Unlock()` of the registry lock when nobody is inside: the first waiter enters, or the lock is free. -/
theorem invC_handover {P : Proto} {limit pre I : Nat} {c : Cfg} (h : InvC P limit pre I c) (inst : Nat)
    (hinst : inst = I) (hnone : ∀ j, insideC (c.threads j).pc = false) :
    InvC P limit pre I (handover c inst) := by
  unfold handover
  split
  · rename_i t hfind
    have hp := List.find?_some hfind
    simp only [Bool.and_eq_true, decide_eq_true_eq] at hp
    have old := h.thr t
    have hne : (c.threads t).pc ≠ .idle := by rw [hp.1]; simp
    refine invC_upd h t { c.threads t with pc := .locked } _ ?_ rfl ?_ ?_ ?_ ?_
    · exact base_congr h.base rfl rfl rfl rfl
    · exact ⟨old.only, Or.inr (Or.inr (Or.inl rfl)), old.act, fun _ => old.wact hne, fun _ => old.held hne,
        fun v hh => by cases hh⟩
    · intro j _ hj
      exact ⟨(h.thr j).held hj, (h.thr j).evi⟩
    · intro _ j _; exact hnone j
    · intro j hj
      by_cases e : j = t
      · subst e; rw [upd_self] at hj; cases hj
      · rw [upd_ne _ _ _ _ e] at hj
        exact List.mem_filter.mpr ⟨h.wmem j hj, by simpa using e⟩
  · rename_i hfind
    have hnf := List.find?_eq_none.mp hfind
    -- nobody is inside and nobody waits: every thread is idle
    have hidle : ∀ j, (c.threads j).pc = .idle := by
      intro j
      rcases (h.thr j).shape with e | e | e | ⟨v, e⟩
      · exact e
      · have hm := h.wmem j e
        have hi : (c.threads j).inst = inst := by rw [hinst]; exact (h.thr j).wact (by rw [e]; simp)
        have := hnf j hm
        simp [e, hi] at this
      · have := hnone j; rw [e] at this; cases this
      · have := hnone j; rw [e] at this; cases this
    refine ⟨base_congr h.base rfl rfl rfl rfl, ?_, h.excl, h.wmem⟩
    intro i
    have old := h.thr i
    exact ⟨old.only, old.shape, old.act, old.wact, fun hh => absurd (hidle i) hh, old.evi⟩

/-- The thread finishes its request (refused, or admitted into `occ'`) and unlocks. -/
theorem invC_finish {P : Proto} {limit pre I : Nat} {c : Cfg} (h : InvC P limit pre I c) (tid : Nat)
    (hm : P.mutex = true) (c1 : Cfg) (t' : Thread)
    (hb : Base P.zeroUnl limit pre c1) (hthr : c1.threads = upd c.threads tid t') (hlocks : c1.locks = c.locks)
    (hwq : c1.waitq = c.waitq)
    (hpc : t'.pc = .idle) (hinst : t'.inst = (c.threads tid).inst) (hops : ∀ o ∈ t'.ops, o ∈ (c.threads tid).ops)
    (hne : (c.threads tid).ops ≠ [])
    (hid : ∀ j, j ≠ tid → insideC (c.threads j).pc = false) :
    InvC P limit pre I (unlockCfg P c1 (c.threads tid).inst) := by
  have old := h.thr tid
  have h1 : InvC P limit pre I c1 := by
    refine invC_upd h tid t' c1 hb hthr ?_ ?_ ?_ ?_
    · exact idleC_ok (c.threads tid) t' hpc hinst hops old.only old.act
    · intro j hj hnj
      refine ⟨by rw [hlocks]; exact (h.thr j).held hnj, ?_⟩
      intro v hv
      have := hid j hj; rw [hv] at this; cases this
    · intro hh; rw [hpc] at hh; cases hh
    · intro j hj
      rw [hwq]
      by_cases e : j = tid
      · subst e; rw [upd_self, hpc] at hj; cases hj
      · rw [upd_ne _ _ _ _ e] at hj; exact h.wmem j hj
  unfold unlockCfg
  simp only [hm, if_true]
  apply invC_handover h1 _ (old.act hne)
  intro j
  rw [hthr]
  by_cases e : j = tid
  · subst e; rw [upd_self, hpc]; rfl
  · rw [upd_ne _ _ _ _ e]; exact hid j e

theorem tail_subset {α} (l : List α) : ∀ o ∈ l.tail, o ∈ l := fun _ ho => List.mem_of_mem_tail ho

theorem invC_refuse {P : Proto} {limit pre I : Nat} {c : Cfg} (h : InvC P limit pre I c) (tid : Nat)
    (hm : P.mutex = true) (hne : (c.threads tid).ops ≠ [])
    (hid : ∀ j, j ≠ tid → insideC (c.threads j).pc = false) : InvC P limit pre I (refuseCfg P c tid) := by
  unfold refuseCfg
  exact invC_finish h tid hm (refuseCore c tid) (finishOp (c.threads tid)) (base_refuseCore h.base tid) rfl rfl rfl rfl rfl
    (tail_subset _) hne hid

theorem invC_admit {P : Proto} {limit pre I : Nat} {c : Cfg} (h : InvC P limit pre I c) (tid : Nat)
    (hm : P.mutex = true) (hne : (c.threads tid).ops ≠ [])
    (hid : ∀ j, j ≠ tid → insideC (c.threads j).pc = false)
    (hcap : capOk P.zeroUnl limit (c.occ.length + 1) = true) :
    InvC P limit pre I (admitCfg P c tid c.occ none) := by
  unfold admitCfg
  exact invC_finish h tid hm (admitCore c tid c.occ none) { finishOp (c.threads tid) with own := some c.next }
    (base_admitCore h.base tid hcap) rfl rfl rfl rfl rfl (tail_subset _) hne hid

theorem invC_admit_evict {P : Proto} {limit pre I : Nat} {c : Cfg} (h : InvC P limit pre I c) (tid v : Nat) (r : List Nat)
    (hm : P.mutex = true) (hne : (c.threads tid).ops ≠ []) (hocc : c.occ = v :: r)
    (hid : ∀ j, j ≠ tid → insideC (c.threads j).pc = false) :
    InvC P limit pre I (admitCfg P c tid r (some v)) := by
  unfold admitCfg
  exact invC_finish h tid hm (admitCore c tid r (some v)) { finishOp (c.threads tid) with own := some c.next }
    (base_admitCore_evict h.base tid v r hocc) rfl rfl rfl rfl rfl (tail_subset _) hne hid

/-- From the moment the lock is held: refuse, insert, or park inside the victim's `Close()`. -/
theorem invC_enter {P : Proto} {limit pre I : Nat} {c : Cfg} (h : InvC P limit pre I c) (tid : Nat)
    (hm : P.mutex = true) (hs : P.sections ≤ 1) (hne : (c.threads tid).ops ≠ [])
    (hshape : (c.threads tid).pc = .idle ∨ (c.threads tid).pc = .locked)
    (hid : ∀ j, j ≠ tid → insideC (c.threads j).pc = false) :
    InvC P limit pre I (evictEnter P limit c tid) := by
  have old := h.thr tid
  have hI : (c.threads tid).inst = I := old.act hne
  unfold evictEnter
  cases hfull : full P limit c.occ.length with
  | false =>
    simp only [Bool.false_eq_true, if_false]
    exact invC_admit h tid hm hne hid (capOk_succ_of_not_full P limit _ hfull)
  | true =>
    simp only [if_true]
    cases hocc : c.occ with
    | nil => exact invC_refuse h tid hm hne hid
    | cons v r =>
      simp only [hs, if_true]
      refine invC_upd h tid { c.threads tid with pc := .evicting v } _ (base_stp h.base tid _ _) rfl ?_ ?_ ?_ ?_
      · refine ⟨old.only, Or.inr (Or.inr (Or.inr ⟨v, rfl⟩)), old.act, fun _ => hI, fun _ => ?_, ?_⟩
        · simp only [stpCfg, hI]; exact mem_holdLock _ _
        · intro v' hv'
          simp only [PC.evicting.injEq] at hv'
          exact ⟨r, by simp only [stpCfg]; rw [← hv']; exact hocc⟩
      · intro j hj hnj
        refine ⟨by simp only [stpCfg, hI]; exact mem_holdLock _ _, ?_⟩
        intro v' hv'
        have := hid j hj; rw [hv'] at this; cases this
      · intro _; exact hid
      · intro j hj
        by_cases e : j = tid
        · subst e; rw [upd_self] at hj; cases hj
        · rw [upd_ne _ _ _ _ e] at hj; exact h.wmem j hj

theorem invC_step {P : Proto} {limit pre I : Nat} {c : Cfg} (h : InvC P limit pre I c) (tid : Nat)
    (hm : P.mutex = true) (hfu : P.fused = true) (hs : P.sections ≤ 1) :
    InvC P limit pre I (stepThread P limit c tid) := by
  have old := h.thr tid
  unfold stepThread
  split
  · exact h
  · rename_i hops
    have := old.only .release (by rw [hops]; exact List.mem_cons_self)
    cases this
  · rename_i hops
    have hne : (c.threads tid).ops ≠ [] := by rw [hops]; simp
    have hI : (c.threads tid).inst = I := old.act hne
    split
    · -- idle
      rename_i hpc
      simp only [hm, hfu, if_true]
      by_cases hl : (c.threads tid).inst ∈ c.locks
      · simp only [hl, if_true]
        refine invC_upd h tid { c.threads tid with pc := .waiting } (waitCfg c tid) (base_blk h.base tid rfl rfl rfl rfl) rfl
          ?_ ?_ ?_ ?_
        · refine ⟨old.only, Or.inr (Or.inl rfl), old.act, fun _ => hI, fun _ => by rw [← hI]; exact hl, ?_⟩
          intro v hv; cases hv
        · intro j _ hnj; exact ⟨(h.thr j).held hnj, (h.thr j).evi⟩
        · intro hh; cases hh
        · intro j hj
          simp only [waitCfg]
          by_cases e : j = tid
          · subst e; exact List.mem_append_right _ List.mem_cons_self
          · rw [upd_ne _ _ _ _ e] at hj
            exact List.mem_append_left _ (h.wmem j hj)
      · simp only [hl, if_false]
        -- the lock is free: nobody else is active at all
        have hid : ∀ j, j ≠ tid → insideC (c.threads j).pc = false := by
          intro j _
          cases hin : insideC (c.threads j).pc with
          | false => rfl
          | true =>
            have := (h.thr j).held (insideC_ne_idle hin)
            rw [← hI] at this
            exact absurd this hl
        exact invC_enter h tid hm hs hne (Or.inl hpc) hid
    · exact ⟨base_blk (c' := blkCfg c tid) h.base tid rfl rfl rfl rfl, h.thr, h.excl, h.wmem⟩
    · -- locked (handed over)
      rename_i hpc
      simp only [hfu, if_true]
      have hin : insideC (c.threads tid).pc = true := by rw [hpc]; rfl
      have hid : ∀ j, j ≠ tid → insideC (c.threads j).pc = false := by
        intro j hj
        cases hj' : insideC (c.threads j).pc with
        | false => rfl
        | true => exact absurd (h.excl j tid hj' hin) hj
      exact invC_enter h tid hm hs hne (Or.inr hpc) hid
    · rename_i s k hpc
      rcases old.shape with e | e | e | ⟨v, e⟩ <;> rw [hpc] at e <;> cases e
    · rename_i s k hpc
      rcases old.shape with e | e | e | ⟨v, e⟩ <;> rw [hpc] at e <;> cases e
    · rename_i k hpc
      rcases old.shape with e | e | e | ⟨v, e⟩ <;> rw [hpc] at e <;> cases e
    · -- inside the victim's Close(): insert, unlock
      rename_i v hpc
      simp only [hfu, if_true]
      have hin : insideC (c.threads tid).pc = true := by rw [hpc]; rfl
      have hid : ∀ j, j ≠ tid → insideC (c.threads j).pc = false := by
        intro j hj
        cases hj' : insideC (c.threads j).pc with
        | false => rfl
        | true => exact absurd (h.excl j tid hj' hin) hj
      obtain ⟨r, hocc⟩ := old.evi v hpc
      unfold evictFinish
      simp only [hs, if_true]
      have her : c.occ.erase v = r := by rw [hocc]; simp
      rw [her]
      exact invC_admit_evict h tid v r hm hne hocc hid
    · rename_i r a hpc
      rcases old.shape with e | e | e | ⟨v, e⟩ <;> rw [hpc] at e <;> cases e
    · rename_i k hpc
      rcases old.shape with e | e | e | ⟨v, e⟩ <;> rw [hpc] at e <;> cases e
  · rename_i hops
    have := old.only .touch (by rw [hops]; exact List.mem_cons_self)
    cases this
  · rename_i hops
    have := old.only .mrevoke (by rw [hops]; exact List.mem_cons_self)
    cases this
  · rename_i fa _ hops
    have := old.only (.revoke fa) (by rw [hops]; exact List.mem_cons_self)
    cases this
  · rename_i hops
    have := old.only .other (by rw [hops]; exact List.mem_cons_self)
    cases this

theorem invC_run {P : Proto} {limit pre I : Nat} (hm : P.mutex = true) (hfu : P.fused = true) (hs : P.sections ≤ 1)
    (σ : List Nat) (c : Cfg) (h : InvC P limit pre I c) : InvC P limit pre I (run P limit c σ) := by
  induction σ generalizing c with
  | nil => exact h
  | cons t r ih =>
    simp only [run, List.foldl_cons]
    exact ih _ (invC_step h t hm hfu hs)

/-- `n k` = thread `k` issues `n k` registrations. -/
theorem invC_init (P : Proto) (limit pre I : Nat) (ns : List Nat)
    (h : capOk P.zeroUnl limit pre = true) :
    InvC P limit pre I (init pre (ns.map (fun n => (I, List.replicate n Op.acquire)))) := by
  refine ⟨base_init _ _ _ _ h, ?_, ?_, ?_⟩
  · intro i
    simp only [init, mkThreads]
    cases hi : (ns.map (fun n => (I, List.replicate n Op.acquire)))[i]? with
    | none =>
      exact ⟨fun o ho => (by cases ho), Or.inl rfl, fun hh => absurd rfl hh, fun hh => absurd rfl hh,
        fun hh => absurd rfl hh, fun v hh => by cases hh⟩
    | some p =>
      simp only [mkThread]
      rw [List.getElem?_map] at hi
      cases hp : ns[i]? with
      | none => simp [hp] at hi
      | some q =>
        simp [hp] at hi
        refine ⟨?_, Or.inl rfl, fun _ => by rw [← hi], fun hh => absurd rfl hh, fun hh => absurd rfl hh,
          fun v hh => by cases hh⟩
        intro o ho
        rw [← hi] at ho
        exact List.eq_of_mem_replicate ho
  · intro i j hi
    simp only [init, mkThreads] at hi
    split at hi <;> simp [mkThread, insideC] at hi
  · intro i hi
    simp only [init, mkThreads] at hi
    split at hi <;> simp [mkThread] at hi

end Tunnox.C17
