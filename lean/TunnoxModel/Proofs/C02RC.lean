import TunnoxModel.Proofs.C02Reattach
/-! C02: invariant of the concurrent re-attachment model (`RBridge`). -/
namespace Tunnox.C02
open Gen

theorem Prefixes_append {a b x y : List Bytes} (h1 : Prefixes a x) (h2 : Prefixes b y) : Prefixes (a ++ b) (x ++ y) := by
  induction h1 with
  | nil => simpa using h2
  | cons hp _ ih => exact .cons hp ih

theorem Prefixes_nils (ds : List Bytes) : Prefixes (List.replicate ds.length []) ds := by
  induction ds with
  | nil => exact .nil
  | cons d ds ih => exact .cons List.nil_prefix ih

theorem replicate_nil_flatten' (n : Nat) : (List.replicate n ([] : Bytes)).flatten = [] := by
  induction n with
  | zero => rfl
  | succ n ih => simp [List.replicate_succ, ih]

theorem eq_dropLast_append {α : Type} (l : List α) (g : α) (h : l.getLast? = some g) : l = l.dropLast ++ [g] := by
  induction l with
  | nil => simp at h
  | cons a t ih =>
    cases t with
    | nil => simp at h; simp [h]
    | cons b r =>
      have : (b :: r).getLast? = some g := by simpa [List.getLast?_cons_cons] using h
      have := ih this
      simp only [List.dropLast_cons_cons, List.cons_append]
      rw [← this]

theorem appendLast_flatten (xs : List Bytes) (w : Bytes) : (appendLast xs w).flatten = xs.flatten ++ w := by
  induction xs with
  | nil => simp [appendLast]
  | cons x rest ih =>
    cases rest with
    | nil => simp [appendLast]
    | cons y r => simp only [appendLast, List.flatten_cons, ih, List.append_assoc]

/-- A step of a direction only appends to what it has delivered. -/
theorem step_delivered_prefix (l : Limiter) (closed : Bool) (opp : Nat) (d : Dir) :
    d.st.delivered <+: (d.step l closed opp).st.delivered := by
  unfold Dir.step
  cases d.stop with
  | some _ => exact List.prefix_refl _
  | none =>
    simp only
    split
    · simp [flush]
    · cases d.reads with
      | nil => simp [flush]
      | cons ev rs =>
        simp only
        split
        · exact List.prefix_refl _
        · split
          · exact List.prefix_refl _
          · obtain ⟨k, _, hd, _, _, _⟩ := iter_spec l ev d.writes d.st
            split
            · simp only [flush, hd]; exact List.prefix_append _ _
            · simp only [hd]; exact List.prefix_append _ _

/-- Invariant of the concurrent model. -/
def RInv (tgt : List ReadEv) (b : RBridge) : Prop :=
  DirInv b.now b.sdir ∧
  (∃ ps, Prefixes ps (b.past.map allData) ∧ b.doneBytes = ps.flatten) ∧
  DirInv tgt b.tdir ∧
  b.perSrc.flatten = b.tdir.st.delivered

theorem RInv_init (lim : Limiter) (g : List ReadEv) (gs : List (List ReadEv)) (tw : List WriteEv)
    (tgt : List ReadEv) (sw : List WriteEv) : RInv tgt (RBridge.init lim g gs tw tgt sw) :=
  ⟨DirInv_init g tw, ⟨[], .nil, rfl⟩, DirInv_init tgt sw, rfl⟩

theorem RInv_step (tgt : List ReadEv) (b : RBridge) (e : REv) (h : RInv tgt b) : RInv tgt (b.step e) := by
  obtain ⟨h1, ⟨ps, hps, hdone⟩, h3, h4⟩ := h
  cases e with
  | attach =>
    simp only [RBridge.step]
    split
    · exact ⟨h1, ⟨ps, hps, hdone⟩, h3, h4⟩
    · exact ⟨h1, ⟨ps, hps, hdone⟩, h3, by simpa using h4⟩
  | t2s =>
    simp only [RBridge.step]
    refine ⟨h1, ⟨ps, hps, hdone⟩, DirInv_step tgt _ _ _ _ h3, ?_⟩
    rw [appendLast_flatten, h4]
    obtain ⟨t, ht⟩ := step_delivered_prefix b.lim b.closed b.toTarget.length b.tdir
    rw [← ht]; simp
  | s2t =>
    simp only [RBridge.step]
    have hstep := DirInv_step b.now b.lim b.closed b.tdir.st.delivered.length b.sdir h1
    split
    · exact ⟨h1, ⟨ps, hps, hdone⟩, h3, h4⟩
    · split
      · split
        · rename_i g hg
          split
          · exact ⟨hstep, ⟨ps, hps, hdone⟩, h3, h4⟩
          · refine ⟨DirInv_init g _, ?_, h3, h4⟩
            refine ⟨ps ++ [(b.sdir.step b.lim b.closed b.tdir.st.delivered.length).st.delivered] ++
              List.replicate (b.inst.dropLast.map allData).length [], ?_, ?_⟩
            · simp only [List.map_append, List.map_cons, List.map_nil]
              exact Prefixes_append (Prefixes_append hps (.cons (DirInv_prefix hstep) .nil)) (Prefixes_nils _)
            · simp [hdone]
        · exact ⟨hstep, ⟨ps, hps, hdone⟩, h3, h4⟩
      · exact ⟨hstep, ⟨ps, hps, hdone⟩, h3, h4⟩

theorem RInv_run (tgt : List ReadEv) (b : RBridge) (evs : List REv) (h : RInv tgt b) : RInv tgt (b.run evs) := by
  induction evs generalizing b with
  | nil => exact h
  | cons e es ih => exact ih _ (RInv_step tgt b e h)

/-- The list of all connections never changes. -/
theorem gens_step (b : RBridge) (e : REv) : (b.step e).gens = b.gens := by
  cases e with
  | attach =>
    simp only [RBridge.step]
    split
    · rfl
    · rename_i g f hf; simp [RBridge.gens, hf]
  | t2s => simp [RBridge.step, RBridge.gens]
  | s2t =>
    simp only [RBridge.step]
    split
    · rfl
    · split
      · split
        · rename_i g hg
          split
          · rfl
          · have : b.inst = b.inst.dropLast ++ [g] := eq_dropLast_append _ g hg
            simp only [RBridge.gens, List.append_nil]
            conv => rhs; rw [this]
            simp
        · rfl
      · rfl

theorem gens_run (b : RBridge) (evs : List REv) : (b.run evs).gens = b.gens := by
  induction evs generalizing b with
  | nil => rfl
  | cons e es ih => show ((b.step e).run es).gens = _; rw [ih, gens_step]

end Tunnox.C02
