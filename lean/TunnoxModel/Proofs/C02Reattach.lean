import TunnoxModel.Proofs.C02
/-! C02, source re-attachment: lemmas about `sourceLoop`, `matchGens`, `splitFired`. -/
namespace Tunnox.C02
open Gen

/-- `ps` is, entry by entry, a prefix of `ds`. -/
inductive Prefixes : List Bytes → List Bytes → Prop
  | nil : Prefixes [] []
  | cons {p d : Bytes} {ps ds : List Bytes} : p <+: d → Prefixes ps ds → Prefixes (p :: ps) (d :: ds)

theorem matchGens_of_prefixes : ∀ (ds : List Bytes) (ps : List Bytes),
    Prefixes ps ds → matchGens ds ps.flatten = true := by
  intro ds
  induction ds with
  | nil =>
    intro ps h
    cases h
    simp [matchGens]
  | cons d ds ih =>
    intro ps h
    cases h with
    | cons hp hrest =>
      rename_i p ps'
      simp only [matchGens, List.flatten_cons, List.any_eq_true, List.mem_range, Bool.and_eq_true]
      refine ⟨p.length, ?_, ?_, ?_⟩
      · have := hp.length_le; omega
      · rw [← List.prefix_iff_eq_take.mp hp]
        exact List.isPrefixOf_iff_prefix.mpr (List.prefix_append _ _)
      · rw [List.drop_left]; exact ih _ hrest

theorem iter_ws_cases (l : Limiter) (ev : ReadEv) (ws : List WriteEv) (st : St) :
    (iter l ev ws st).ws = ws ∨ (iter l ev ws st).ws = (nextWrite ws ev.data.length).2 := by
  simp only [iter]
  split
  · left; split <;> rfl
  · split
    · left; rfl
    · right
      split
      · rfl
      · split
        · rfl
        · split <;> rfl

theorem iter_ws_subset (l : Limiter) (ev : ReadEv) (ws : List WriteEv) (st : St) :
    ∀ w ∈ (iter l ev ws st).ws, w ∈ ws := by
  intro w hw
  rcases iter_ws_cases l ev ws st with h | h
  · rw [h] at hw; exact hw
  · rw [h] at hw
    cases ws with
    | nil => simp [nextWrite] at hw
    | cons a t => simp only [nextWrite] at hw; exact List.mem_cons_of_mem _ hw

theorem wsAfter_subset (l : Limiter) (chk : Nat) (canc : Bool) (rs : List ReadEv) (ws : List WriteEv) (st : St) :
    ∀ w ∈ wsAfter l chk canc rs ws st, w ∈ ws := by
  induction rs generalizing chk canc ws st with
  | nil => intro w hw; simpa [wsAfter] using hw
  | cons ev rs ih =>
    intro w hw
    unfold wsAfter at hw
    split at hw
    · exact hw
    · split at hw
      · exact iter_ws_subset l ev ws st w hw
      · exact iter_ws_subset l ev ws st w (ih _ _ _ _ w hw)

theorem cleanWrites_subset {ws ws' : List WriteEv} {m : Nat} (h : CleanWrites ws m) (hs : ∀ w ∈ ws', w ∈ ws) :
    CleanWrites ws' m := fun w hw => h w (hs w hw)

theorem copyFrom_eof_rest (l : Limiter) (chk : Nat) (canc : Bool) (rs : List ReadEv) (ws : List WriteEv) (st : St)
    (h : (copyFrom l chk canc rs ws st).2.1 = .eof) : (copyFrom l chk canc rs ws st).2.2 = [] := by
  induction rs generalizing chk canc ws st with
  | nil => simp [copyFrom]
  | cons ev rs ih =>
    unfold copyFrom at h ⊢
    split
    · rename_i hc; simp only [hc, if_true] at h; cases h
    · rename_i hc
      simp only [hc, if_false] at h
      split
      · rename_i s hs
        simp only [hs] at h
        exact absurd (by rw [hs, h]) (iter_stop_ne_eof l ev ws st)
      · rename_i hs
        simp only [hs] at h
        exact ih _ _ _ _ h

theorem nextCall_spec (st : St) :
    (nextCall st).delivered = st.delivered ∧ (nextCall st).counter = st.counter ∧ (nextCall st).batch = 0 := by
  simp [nextCall]

/-- Specification of the source loop: whatever the scripts, the target has received one prefix of
each source connection's stream, in the order the connections were installed, and the shared
counter has advanced by exactly that many bytes. -/
theorem sourceLoop_spec (l : Limiter) (gens : List SrcGen) (ws : List WriteEv) (st : St) (hb : st.batch = 0) :
    ∃ ps : List Bytes, Prefixes ps (gens.map (fun g => allData g.reads)) ∧
      (sourceLoop l gens ws st).1.delivered = st.delivered ++ ps.flatten ∧
      (sourceLoop l gens ws st).1.counter = st.counter + ps.flatten.length ∧
      (sourceLoop l gens ws st).1.batch = 0 := by
  induction gens generalizing ws st with
  | nil => exact ⟨[], .nil, by simp [sourceLoop], by simp [sourceLoop], by simp [sourceLoop, hb]⟩
  | cons g gs ih =>
    obtain ⟨p, hd, hp, _, hc, hbat, _⟩ := copy_spec l g.reads ws (nextCall st)
    simp only [nextCall_spec, Nat.add_zero] at hd hc
    cases gs with
    | nil =>
      refine ⟨[p], .cons hp .nil, ?_, ?_, ?_⟩ <;> simp [sourceLoop, hd, hc, hbat]
    | cons g' gs' =>
      have pad : Prefixes (List.replicate (g' :: gs').length ([] : Bytes)) ((g' :: gs').map (fun g => allData g.reads)) := by
        generalize g' :: gs' = xs
        induction xs with
        | nil => exact .nil
        | cons x xs ihx => exact .cons (List.nil_prefix) ihx
      have hflat : ∀ n, (List.replicate n ([] : Bytes)).flatten = [] := by
        intro n; induction n with
        | zero => rfl
        | succ n ihn => simp [List.replicate_succ, ihn]
      unfold sourceLoop
      split
      · refine ⟨p :: List.replicate (g' :: gs').length [], .cons hp pad, ?_, ?_, hbat⟩
        · simp [hd, hflat]
        · simp [hc, hflat]
      · split
        · refine ⟨p :: List.replicate (g' :: gs').length [], .cons hp pad, ?_, ?_, hbat⟩
          · simp [hd, hflat]
          · simp [hc, hflat]
        · obtain ⟨ps, hf, hd2, hc2, hb2⟩ := ih (wsAfter l 0 false g.reads ws (nextCall st)) (copy l g.reads ws (nextCall st)).1 hbat
          refine ⟨p :: ps, .cons hp hf, ?_, ?_, hb2⟩
          · rw [hd2, hd]; simp
          · rw [hc2, hc]; simp; omega

/-- Nothing is lost across re-attachments: when no source connection's script contains a fault, the
target accepts what it is given, and every connection is replaced only once it has been read to its
end, the target receives every byte of every connection and the loop ends with the last
connection's end-of-stream. -/
theorem sourceLoop_clean (l : Limiter) (m : Nat) (gens : List SrcGen) (ws : List WriteEv) (st : St)
    (hr : ∀ g ∈ gens, CleanReads g.reads ∧ g.attachAt ≤ g.reads.length ∧ ∀ ev ∈ g.reads, ev.data.length ≤ m)
    (hw : CleanWrites ws m) (hne : gens ≠ []) :
    (sourceLoop l gens ws st).1.delivered = st.delivered ++ (gens.map (fun g => allData g.reads)).flatten ∧
    (sourceLoop l gens ws st).2 = .eof := by
  induction gens generalizing ws st with
  | nil => exact absurd rfl hne
  | cons g gs ih =>
    obtain ⟨hcr, hat, hm⟩ := hr g (List.mem_cons_self ..)
    have heof := copy_clean_eof l g.reads ws (nextCall st) m hcr hw hm
    obtain ⟨p, hd, _, _, _, _, hfull⟩ := copy_spec l g.reads ws (nextCall st)
    have hp := hfull heof
    subst hp
    simp only [nextCall_spec] at hd
    cases gs with
    | nil => simp [sourceLoop, hd, heof]
    | cons g' gs' =>
      have hrest : (copy l g.reads ws (nextCall st)).2.2 = [] := copyFrom_eof_rest _ _ _ _ _ _ heof
      have hcanc : cancelledIn g.reads [] = false := by
        simp only [cancelledIn, List.length_nil, Nat.sub_zero, List.take_length, List.any_eq_false]
        intro ev hev; simp [(hcr ev hev).1]
      have hreach : reachedAttach l g ws st = true := by
        simp only [reachedAttach, Bool.and_eq_true, decide_eq_true_eq]
        refine ⟨?_, hat⟩
        exact copy_clean_eof l _ ws (nextCall st) m (fun ev hev => hcr ev (List.mem_of_mem_take hev)) hw
          (fun ev hev => hm ev (List.mem_of_mem_take hev))
      unfold sourceLoop
      simp only [hreach, Bool.not_true, Bool.false_eq_true, if_false, hrest, hcanc]
      have hw' : CleanWrites (wsAfter l 0 false g.reads ws (nextCall st)) m :=
        cleanWrites_subset hw (wsAfter_subset _ _ _ _ _ _)
      obtain ⟨h1, h2⟩ := ih (wsAfter l 0 false g.reads ws (nextCall st)) (copy l g.reads ws (nextCall st)).1
        (fun x hx => hr x (List.mem_cons_of_mem _ hx)) hw' (by simp)
      refine ⟨?_, h2⟩
      rw [h1, hd]; simp

theorem splitFired_flatten_prefix (ds : List Nat) (evs : List ReadEv) : (splitFired ds evs).flatten <+: evs := by
  induction ds generalizing evs with
  | nil => simp [splitFired]
  | cons d ds ih =>
    simp only [splitFired, List.flatten_cons]
    have h := ih (evs.dropWhile (fun e => decide (e.after ≤ d)))
    obtain ⟨t, ht⟩ := h
    refine ⟨t, ?_⟩
    rw [List.append_assoc, ht, List.takeWhile_append_dropWhile]

theorem allData_flatten (gs : List (List ReadEv)) : (gs.map allData).flatten = allData gs.flatten := by
  induction gs with
  | nil => simp [allData]
  | cons g gs ih => simp [allData_append, ih]

theorem allData_prefix {a b : List ReadEv} (h : a <+: b) : allData a <+: allData b := by
  obtain ⟨t, rfl⟩ := h
  rw [allData_append]; exact List.prefix_append _ _

theorem splitFired_length (ds : List Nat) (evs : List ReadEv) : (splitFired ds evs).length = ds.length := by
  induction ds generalizing evs with
  | nil => simp [splitFired]
  | cons d ds ih => simp [splitFired, ih]

theorem replicate_nil_flatten (n : Nat) : (List.replicate n ([] : Bytes)).flatten = [] := by
  induction n with
  | zero => rfl
  | succ n ih => simp [List.replicate_succ, ih]

theorem flatten_take_prefix (xs : List Bytes) (n : Nat) : (xs.take n).flatten <+: xs.flatten := by
  conv => rhs; rw [← List.take_append_drop n xs]
  rw [List.flatten_append]; exact List.prefix_append _ _

theorem expectedPerSource_prefix (ds : List Nat) (tgt : List ReadEv) (n : Nat) :
    (expectedPerSource ds tgt n).flatten <+: allData tgt := by
  unfold expectedPerSource
  refine List.IsPrefix.trans (flatten_take_prefix _ n) ?_
  rw [List.flatten_append, replicate_nil_flatten, List.append_nil, allData_flatten]
  exact allData_prefix (splitFired_flatten_prefix ds tgt)

theorem expectedPerSource_length (ds : List Nat) (tgt : List ReadEv) (n : Nat) :
    (expectedPerSource ds tgt n).length = n := by
  unfold expectedPerSource
  simp only [List.length_take, List.length_append, List.length_map, List.length_replicate]
  omega

theorem perSourceOk_refl (cur i : Nat) (es : List Bytes) : perSourceOk cur i es es = true := by
  induction es generalizing i with
  | nil => simp [perSourceOk]
  | cons e es ih =>
    simp only [perSourceOk, Bool.and_eq_true]
    refine ⟨?_, ih _⟩
    split
    · exact List.isPrefixOf_iff_prefix.mpr (List.prefix_refl _)
    · simp

end Tunnox.C02
