import TunnoxModel.Model.C13Alias
/-!
  C13 — the reference-semantics list model (repaired variant) refines the value semantics:
  every answer, including an answer looked at again later, is what the sequential map says.
-/
set_option linter.unusedSimpArgs false
namespace Tunnox.C13.Alias
open Tunnox Tunnox.TTLStore

/-- Every holder sees, through its reference, exactly the list the value semantics gives it. -/
def Sim (st : St) (sp : SpecSt) : Prop :=
  ∀ h, (st.holders.lookup h).map (deref st.heap) = (sp.lookup h).map (List.map some)

/-- References point to allocated arrays; an array held by a key is shared with caller registers
only, and those see no more of it than the key does. -/
structure Inv (st : St) : Prop where
  bound : ∀ h ref, st.holders.lookup h = some ref → ref.arr < st.next
  excl : ∀ k kref h ref, st.holders.lookup (.key k) = some kref → st.holders.lookup h = some ref →
    h ≠ .key k → ref.arr = kref.arr → (∃ r, h = .reg r) ∧ ref.len ≤ kref.len

theorem take_set_le {α} (c : List α) (x : α) : ∀ (n m : Nat), m ≤ n → (c.set n x).take m = c.take m := by
  induction c with
  | nil => intros; simp
  | cons a c ih =>
    intro n m h
    cases n with
    | zero => have : m = 0 := by omega
              subst this; simp
    | succ n =>
      cases m with
      | zero => simp
      | succ m => simp [List.set, ih n m (by omega)]

theorem take_set_succ {α} (c : List α) (x : α) : ∀ n, n < c.length → (c.set n x).take (n + 1) = c.take n ++ [x] := by
  induction c with
  | nil => intro n h; simp at h
  | cons a c ih =>
    intro n h
    cases n with
    | zero => simp
    | succ n => simp [List.set, ih n (by simpa using h)]

theorem filter_keep_map (a : Atom) (xs : List Atom) :
    (xs.map some).filter (keep a) = (xs.filter (fun x => x ≠ a)).map some := by
  induction xs with
  | nil => rfl
  | cons x xs ih =>
    by_cases h : x = a
    · simp [keep, h, ih]
    · simp [keep, h, ih]

theorem deref_insert_ne (heap : FMap Nat (List Cell)) (n : Nat) (c : List Cell) (ref : Ref) (h : n ≠ ref.arr) :
    deref (heap.insert n c) ref = deref heap ref := by
  unfold deref; rw [FMap.lookup_insert_ne heap c h]

theorem deref_insert_eq (heap : FMap Nat (List Cell)) (n L : Nat) (c : List Cell) :
    deref (heap.insert n c) ⟨n, L⟩ = c.take L := by
  unfold deref; rw [FMap.lookup_insert_eq]; rfl

/-- Bind key `k` to a fresh array whose first `L` cells are the new list. -/
theorem bindFresh {st : St} {sp : SpecSt} (hS : Sim st sp) (hI : Inv st) (k : String) (cells : List Cell)
    (L : Nat) (ys : List Atom) (hc : cells.take L = ys.map some) :
    Sim ⟨st.holders.insert (.key k) ⟨st.next, L⟩, st.heap.insert st.next cells, st.next + 1⟩
        (sp.insert (.key k) ys) ∧
    Inv ⟨st.holders.insert (.key k) ⟨st.next, L⟩, st.heap.insert st.next cells, st.next + 1⟩ := by
  refine ⟨?_, ?_, ?_⟩
  · intro h
    by_cases e : Holder.key k = h
    · subst e
      simp only [FMap.lookup_insert_eq, Option.map_some, deref_insert_eq, hc]
    · simp only [FMap.lookup_insert_ne _ _ e]
      have := hS h
      cases hl : st.holders.lookup h with
      | none => rw [hl] at this; simpa using this
      | some ref =>
        rw [hl] at this
        have hb := hI.bound h ref hl
        simp only [Option.map_some] at this ⊢
        rw [deref_insert_ne _ _ _ _ (by omega)]; exact this
  · intro h ref hl
    by_cases e : Holder.key k = h
    · subst e
      simp only [FMap.lookup_insert_eq, Option.some.injEq] at hl
      subst hl; show st.next < st.next + 1; omega
    · simp only [FMap.lookup_insert_ne _ _ e] at hl
      have := hI.bound h ref hl
      show ref.arr < st.next + 1; omega
  · intro k1 kref h ref hk hh hne harr
    by_cases e1 : Holder.key k = Holder.key k1
    · rw [← e1] at hk hne
      simp only [FMap.lookup_insert_eq, Option.some.injEq] at hk
      have e2 : Holder.key k ≠ h := fun e => hne e.symm
      simp only [FMap.lookup_insert_ne _ _ e2] at hh
      have := hI.bound h ref hh
      subst hk; simp at harr; omega
    · simp only [FMap.lookup_insert_ne _ _ e1] at hk
      by_cases e2 : Holder.key k = h
      · subst e2
        simp only [FMap.lookup_insert_eq, Option.some.injEq] at hh
        have := hI.bound _ kref hk
        subst hh; simp at harr; omega
      · simp only [FMap.lookup_insert_ne _ _ e2] at hh
        exact hI.excl k1 kref h ref hk hh hne harr

/-- Drop a holder. -/
theorem unbind {st : St} {sp : SpecSt} (hS : Sim st sp) (hI : Inv st) (h0 : Holder) :
    Sim ⟨st.holders.erase h0, st.heap, st.next⟩ (sp.erase h0) ∧ Inv ⟨st.holders.erase h0, st.heap, st.next⟩ := by
  have sub : ∀ h ref, (st.holders.erase h0).lookup h = some ref → st.holders.lookup h = some ref := by
    intro h ref hl
    by_cases e : h0 = h
    · subst e; rw [FMap.lookup_erase_eq] at hl; cases hl
    · rwa [FMap.lookup_erase_ne _ e] at hl
  refine ⟨?_, ?_, ?_⟩
  · intro h
    by_cases e : h0 = h
    · subst e; simp [FMap.lookup_erase_eq]
    · simp only [FMap.lookup_erase_ne _ e]; exact hS h
  · intro h ref hl; exact hI.bound h ref (sub h ref hl)
  · intro k1 kref h ref hk hh hne harr
    exact hI.excl k1 kref h ref (sub _ _ hk) (sub _ _ hh) hne harr

/-- The caller keeps the reference the store has for key `k`. -/
theorem bindShare {st : St} {sp : SpecSt} (hS : Sim st sp) (hI : Inv st) (r : Nat) (k : String) (kref : Ref)
    (xs : List Atom) (hk : st.holders.lookup (.key k) = some kref) (hx : sp.lookup (.key k) = some xs) :
    Sim ⟨st.holders.insert (.reg r) kref, st.heap, st.next⟩ (sp.insert (.reg r) xs) ∧
    Inv ⟨st.holders.insert (.reg r) kref, st.heap, st.next⟩ := by
  have hd : deref st.heap kref = xs.map some := by
    have := hS (.key k); rw [hk, hx] at this; simpa using this
  have hrk : ∀ k', Holder.reg r ≠ Holder.key k' := fun _ e => by cases e
  refine ⟨?_, ?_, ?_⟩
  · intro h
    by_cases e : Holder.reg r = h
    · subst e; simp [FMap.lookup_insert_eq, hd]
    · simp only [FMap.lookup_insert_ne _ _ e]; exact hS h
  · intro h ref hl
    by_cases e : Holder.reg r = h
    · subst e
      simp only [FMap.lookup_insert_eq, Option.some.injEq] at hl
      subst hl; exact hI.bound _ _ hk
    · simp only [FMap.lookup_insert_ne _ _ e] at hl; exact hI.bound h ref hl
  · intro k1 kref1 h ref hk1 hh hne harr
    simp only [FMap.lookup_insert_ne _ _ (hrk k1)] at hk1
    by_cases e : Holder.reg r = h
    · subst e
      simp only [FMap.lookup_insert_eq, Option.some.injEq] at hh
      subst hh
      by_cases ek : k1 = k
      · subst ek
        rw [hk] at hk1; cases hk1
        exact ⟨⟨r, rfl⟩, Nat.le_refl _⟩
      · have hne' : Holder.key k ≠ Holder.key k1 := fun e => ek (by cases e; rfl)
        obtain ⟨⟨r', hr'⟩, _⟩ := hI.excl k1 kref1 (.key k) kref hk1 hk hne' harr
        cases hr'
    · simp only [FMap.lookup_insert_ne _ _ e] at hh
      exact hI.excl k1 kref1 h ref hk1 hh hne harr

/-- `append` into spare capacity: one cell beyond what every other holder sees is written. -/
theorem appendInPlace {st : St} {sp : SpecSt} (hS : Sim st sp) (hI : Inv st) (k : String) (kref : Ref)
    (xs : List Atom) (a : Atom) (hk : st.holders.lookup (.key k) = some kref) (hx : sp.lookup (.key k) = some xs)
    (hcap : kref.len < ((st.heap.lookup kref.arr).getD []).length) :
    Sim ⟨st.holders.insert (.key k) ⟨kref.arr, kref.len + 1⟩,
         st.heap.insert kref.arr (((st.heap.lookup kref.arr).getD []).set kref.len (some a)), st.next⟩
        (sp.insert (.key k) (xs ++ [a])) ∧
    Inv ⟨st.holders.insert (.key k) ⟨kref.arr, kref.len + 1⟩,
         st.heap.insert kref.arr (((st.heap.lookup kref.arr).getD []).set kref.len (some a)), st.next⟩ := by
  have hd : deref st.heap kref = xs.map some := by
    have := hS (.key k); rw [hk, hx] at this; simpa using this
  refine ⟨?_, ?_, ?_⟩
  · intro h
    by_cases e : Holder.key k = h
    · subst e
      simp only [FMap.lookup_insert_eq, Option.map_some, deref_insert_eq]
      rw [take_set_succ _ _ _ hcap]
      unfold deref at hd
      simp [hd]
    · simp only [FMap.lookup_insert_ne _ _ e]
      have := hS h
      cases hl : st.holders.lookup h with
      | none => rw [hl] at this; simpa using this
      | some ref =>
        rw [hl] at this
        simp only [Option.map_some] at this ⊢
        by_cases ea : kref.arr = ref.arr
        · have hle := (hI.excl k kref h ref hk hl (fun e' => e e'.symm) ea.symm).2
          have : deref (st.heap.insert kref.arr (((st.heap.lookup kref.arr).getD []).set kref.len (some a))) ref
              = deref st.heap ref := by
            unfold deref
            rw [← ea, FMap.lookup_insert_eq]
            simp only [Option.getD_some]
            exact take_set_le _ _ _ _ hle
          rw [this]; assumption
        · rw [deref_insert_ne _ _ _ _ ea]; exact this
  · intro h ref hl
    by_cases e : Holder.key k = h
    · subst e
      simp only [FMap.lookup_insert_eq, Option.some.injEq] at hl
      subst hl; exact hI.bound _ kref hk
    · simp only [FMap.lookup_insert_ne _ _ e] at hl; exact hI.bound h ref hl
  · intro k1 kref1 h ref hk1 hh hne harr
    by_cases e1 : Holder.key k = Holder.key k1
    · rw [← e1] at hk1 hne
      simp only [FMap.lookup_insert_eq, Option.some.injEq] at hk1
      have e2 : Holder.key k ≠ h := fun e => hne e.symm
      simp only [FMap.lookup_insert_ne _ _ e2] at hh
      subst hk1
      obtain ⟨hr, hle⟩ := hI.excl k kref h ref hk hh hne harr
      exact ⟨hr, Nat.le_succ_of_le hle⟩
    · simp only [FMap.lookup_insert_ne _ _ e1] at hk1
      by_cases e2 : Holder.key k = h
      · subst e2
        simp only [FMap.lookup_insert_eq, Option.some.injEq] at hh
        subst hh
        obtain ⟨⟨r', hr'⟩, _⟩ := hI.excl k1 kref1 (.key k) kref hk1 hk hne harr
        cases hr'
      · simp only [FMap.lookup_insert_ne _ _ e2] at hh
        exact hI.excl k1 kref1 h ref hk1 hh hne harr

theorem sim_key {st : St} {sp : SpecSt} (hS : Sim st sp) (h : Holder) :
    (st.holders.lookup h = none ∧ sp.lookup h = none) ∨
    (∃ ref xs, st.holders.lookup h = some ref ∧ sp.lookup h = some xs ∧ deref st.heap ref = xs.map some) := by
  have := hS h
  cases hl : st.holders.lookup h with
  | none =>
    rw [hl] at this
    cases hx : sp.lookup h with
    | none => exact Or.inl ⟨rfl, rfl⟩
    | some xs => rw [hx] at this; simp at this
  | some ref =>
    rw [hl] at this
    cases hx : sp.lookup h with
    | none => rw [hx] at this; simp at this
    | some xs => rw [hx] at this; exact Or.inr ⟨ref, xs, rfl, rfl, by simpa using this⟩

/-- One call of the repaired code: same answer as the value semantics; relation and invariant kept. -/
theorem step_sim {st : St} {sp : SpecSt} (hS : Sim st sp) (hI : Inv st) (op : LOp) :
    (step .repaired op st).2 = (specStep op sp).2 ∧
    Sim (step .repaired op st).1 (specStep op sp).1 ∧ Inv (step .repaired op st).1 := by
  cases op with
  | setList k xs spare =>
    have := bindFresh hS hI k (xs.map some) (xs.map some).length xs (List.take_length)
    exact ⟨(by first | rfl | trivial), this.1, this.2⟩
  | setListFrom k r =>
    rcases sim_key hS (.reg r) with ⟨hl, hx⟩ | ⟨ref, xs, hl, hx, hd⟩
    · have := bindFresh hS hI k [] ([] : List Cell).length [] (by simp)
      simp only [step, specStep, hl, hx, storeCopy, alloc, Option.getD_none]
      exact ⟨(by first | rfl | trivial), this.1, this.2⟩
    · have := bindFresh hS hI k (deref st.heap ref) (deref st.heap ref).length xs (by rw [List.take_length]; exact hd)
      simp only [step, specStep, hl, hx, storeCopy, alloc, Option.getD_some]
      exact ⟨(by first | rfl | trivial), this.1, this.2⟩
  | hold r k =>
    rcases sim_key hS (.key k) with ⟨hl, hx⟩ | ⟨ref, xs, hl, hx, hd⟩
    · have := unbind hS hI (.reg r)
      simp only [step, specStep, hl, hx]
      exact ⟨(by first | rfl | trivial), this.1, this.2⟩
    · have := bindShare hS hI r k ref xs hl hx
      simp only [step, specStep, hl, hx, hd]
      exact ⟨(by first | rfl | trivial), this.1, this.2⟩
  | peek r =>
    rcases sim_key hS (.reg r) with ⟨hl, hx⟩ | ⟨ref, xs, hl, hx, hd⟩
    · simp only [step, specStep, hl, hx, Option.getD_none, List.map_nil]; exact ⟨(by first | rfl | trivial), hS, hI⟩
    · simp only [step, specStep, hl, hx, hd, Option.getD_some]; exact ⟨(by first | rfl | trivial), hS, hI⟩
  | getList k =>
    rcases sim_key hS (.key k) with ⟨hl, hx⟩ | ⟨ref, xs, hl, hx, hd⟩
    · simp only [step, specStep, hl, hx]; exact ⟨(by first | rfl | trivial), hS, hI⟩
    · simp only [step, specStep, hl, hx, hd]; exact ⟨(by first | rfl | trivial), hS, hI⟩
  | append k a spare =>
    rcases sim_key hS (.key k) with ⟨hl, hx⟩ | ⟨ref, xs, hl, hx, hd⟩
    · have := bindFresh hS hI k [some a] 1 [a] (by simp)
      simp only [step, specStep, hl, hx, alloc]
      exact ⟨(by first | rfl | trivial), this.1, this.2⟩
    · by_cases hcap : ref.len < ((st.heap.lookup ref.arr).getD []).length
      · have := appendInPlace hS hI k ref xs a hl hx hcap
        simp only [step, specStep, hl, hx, hcap, if_true]
        exact ⟨(by first | rfl | trivial), this.1, this.2⟩
      · have := bindFresh hS hI k (deref st.heap ref ++ some a :: List.replicate spare none)
          ((deref st.heap ref).length + 1) (xs ++ [a]) (by
            rw [hd]
            have : ((xs.map some).length + 1) = (xs.map some ++ [some a]).length := by simp
            rw [this]
            have h2 : xs.map some ++ some a :: List.replicate spare none =
                (xs.map some ++ [some a]) ++ List.replicate spare none := by simp
            rw [h2, List.take_left']
            · simp
            · rfl)
        simp only [step, specStep, hl, hx, hcap, if_false, alloc]
        exact ⟨(by first | rfl | trivial), this.1, this.2⟩
  | remove k a =>
    rcases sim_key hS (.key k) with ⟨hl, hx⟩ | ⟨ref, xs, hl, hx, hd⟩
    · simp only [step, specStep, hl, hx]; exact ⟨(by first | rfl | trivial), hS, hI⟩
    · have hk : (deref st.heap ref).filter (keep a) = (xs.filter (fun x => x ≠ a)).map some := by
        rw [hd]; exact filter_keep_map a xs
      have := bindFresh hS hI k
        ((deref st.heap ref).filter (keep a) ++ List.replicate (ref.len - ((deref st.heap ref).filter (keep a)).length) none)
        ((deref st.heap ref).filter (keep a)).length (xs.filter (fun x => x ≠ a)) (by
          rw [List.take_left']
          · exact hk
          · rfl)
      simp only [step, specStep, hl, hx, alloc]
      exact ⟨(by first | rfl | trivial), this.1, this.2⟩
  | delete k =>
    have := unbind hS hI (.key k)
    exact ⟨(by first | rfl | trivial), this.1, this.2⟩

theorem run_sim (ops : List LOp) : ∀ (st : St) (sp : SpecSt), Sim st sp → Inv st →
    run .repaired ops st = specRun ops sp := by
  induction ops with
  | nil => intros; rfl
  | cons op ops ih =>
    intro st sp hS hI
    have h := step_sim hS hI op
    simp only [run, specRun]
    rw [h.1, ih _ _ h.2.1 h.2.2]

theorem sim_empty : Sim St.empty FMap.empty := fun _ => rfl

theorem inv_empty : Inv St.empty :=
  ⟨fun _ _ h => by simp [St.empty, FMap.lookup_empty] at h, fun _ _ _ _ h => by simp [St.empty, FMap.lookup_empty] at h⟩

end Tunnox.C13.Alias
