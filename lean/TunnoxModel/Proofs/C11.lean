import TunnoxModel.Spec.C11
/-! Helper lemmas for C11 (core Lean only). -/
namespace Tunnox.C11
open Gen

theorem idxFilter_mem {α} (p : α → Bool) : ∀ (l : List α) (n i : Nat), i ∈ idxFilter p l n →
    n ≤ i ∧ ∃ a, l[i - n]? = some a ∧ p a = true := by
  intro l
  induction l with
  | nil => intro n i h; simp [idxFilter] at h
  | cons a as ih =>
    intro n i h
    simp only [idxFilter] at h
    split at h
    · rename_i hp
      rcases List.mem_cons.mp h with h | h
      · subst h; exact ⟨Nat.le_refl _, a, by simp, hp⟩
      · obtain ⟨hle, b, hb, hpb⟩ := ih (n + 1) i h
        refine ⟨by omega, b, ?_, hpb⟩
        have : i - n = (i - (n + 1)) + 1 := by omega
        rw [this]; simpa using hb
    · obtain ⟨hle, b, hb, hpb⟩ := ih (n + 1) i h
      refine ⟨by omega, b, ?_, hpb⟩
      have : i - n = (i - (n + 1)) + 1 := by omega
      rw [this]; simpa using hb

theorem idxFilter_mem0 {α} (p : α → Bool) (l : List α) (i : Nat) (h : i ∈ idxFilter p l 0) :
    ∃ a, l[i]? = some a ∧ p a = true := by
  obtain ⟨_, a, ha, hp⟩ := idxFilter_mem p l 0 i h
  exact ⟨a, by simpa using ha, hp⟩

theorem onlineAux_some (nd c : Nat) : ∀ (l : List Conn) (n j : Nat), onlineAux nd c l n = some j →
    n ≤ j ∧ ∃ x, l[j - n]? = some x ∧ x.kind = .auth ∧ x.cid = c := by
  intro l
  induction l with
  | nil => intro n j h; simp [onlineAux] at h
  | cons x xs ih =>
    intro n j h
    simp only [onlineAux] at h
    split at h
    · rename_i k hk
      cases h
      obtain ⟨hle, y, hx, hy⟩ := ih (n + 1) j hk
      refine ⟨by omega, y, ?_, hy⟩
      have : j - n = (j - (n + 1)) + 1 := by omega
      rw [this]; simpa using hx
    · split at h
      · rename_i hc
        cases h
        simp only [Bool.and_eq_true, beq_iff_eq] at hc
        exact ⟨Nat.le_refl _, x, by simp, hc.1.1, hc.1.2⟩
      · cases h

/-- the connection `GetByClientID` returns is authenticated as that very client -/
theorem online_some (w : World) (nd : Nat) (t : Int) (tc : Nat) (h : online w nd t = some tc) :
    0 < t ∧ ∃ x, w.conns[tc]? = some x ∧ x.kind = .auth ∧ x.cid = t.toNat := by
  unfold online at h
  split at h
  · cases h
  · rename_i hpos
    obtain ⟨_, x, hx, hk⟩ := onlineAux_some nd t.toNat w.conns 0 tc h
    exact ⟨by omega, x, by simpa using hx, hk⟩

theorem online_client (w : World) (nd : Nat) (t : Int) (tc : Nat) (h : online w nd t = some tc) :
    connClient w tc = t.toNat ∧ t.toNat ≠ 0 := by
  obtain ⟨hpos, x, hc, hk, hcid⟩ := online_some w nd t tc h
  refine ⟨?_, by omega⟩
  cases x with
  | mk k cid node =>
    simp only at hk hcid
    subst hk; subst hcid
    simp [connClient, ident, hc]

theorem getRef_some {α} (xs : List α) (r : Int) (i : Nat) (a : α) (h : getRef xs r = some (i, a)) :
    xs[i]? = some a ∧ r = Int.ofNat i := by
  unfold getRef at h
  split at h
  · cases h
  · rename_i hr
    split at h
    · rename_i b hb
      cases h
      exact ⟨hb, (Int.toNat_of_nonneg (by omega)).symm⟩
    · cases h

/-- assembling the predicate from its parts -/
theorem holdsRun_intro (w : World) (f : Nat) (c : Cmd) (na : Bool) (r : Run)
    (hv : ∀ o ∈ r.view, o.partyOf w (ident w f) = true)
    (hc : ∀ x ∈ r.chg, chgAllowed w (ident w f) c x = true)
    (hd : ∀ d ∈ r.dlv, dlvAllowed w (ident w f) f d = true)
    (hg : ∀ g ∈ r.gone, g = f)
    (h0 : ident w f = 0 → r.view = [] ∧ r.chg = [] ∧ r.dlv = [] ∧ (na = true → r.rsp ≠ .ok)) :
    holdsRun w f c na r = true := by
  unfold holdsRun
  simp only [Bool.and_eq_true, List.all_eq_true, Bool.or_eq_true, bne_iff_ne, ne_eq, beq_iff_eq,
    List.isEmpty_iff, Bool.not_eq_true']
  refine ⟨⟨⟨⟨hv, hc⟩, hd⟩, hg⟩, ?_⟩
  by_cases hz : ident w f = 0
  · right
    obtain ⟨a, b, d, e⟩ := h0 hz
    refine ⟨⟨⟨a, b⟩, by rw [d]; simp⟩, ?_⟩
    cases na with
    | false => left; rfl
    | true => right; exact e rfl
  · left; exact hz

theorem holdsRun_nothing (w : World) (f : Nat) (c : Cmd) (na : Bool) (ret : Bool) (rsp : Rsp) (hr : rsp ≠ .ok) :
    holdsRun w f c na ⟨ret, rsp, [], [], [], []⟩ = true := by
  apply holdsRun_intro <;> simp [hr]

theorem holdsRun_err (w f c na) : holdsRun w f c na Run.err = true := holdsRun_nothing w f c na _ _ (by decide)
theorem holdsRun_quiet (w f c na) : holdsRun w f c na Run.quiet = true := holdsRun_nothing w f c na _ _ (by decide)
theorem holdsRun_failResp (w f c na) : holdsRun w f c na Run.failResp = true := holdsRun_nothing w f c na _ _ (by decide)
theorem holdsRun_dnsErr (w f c na) : holdsRun w f c na (dnsErr w f) = true := by
  unfold dnsErr; split
  · exact holdsRun_nothing w f c na _ _ (by decide)
  · exact holdsRun_err w f c na

/-- a success response of an authenticated caller -/
theorem holdsRun_ok (w : World) (f : Nat) (c : Cmd) (na : Bool) (view : List Obj) (chg : List Chg) (dlv : List Dlv)
    (hid : ident w f ≠ 0)
    (hv : ∀ o ∈ view, o.partyOf w (ident w f) = true)
    (hc : ∀ x ∈ chg, chgAllowed w (ident w f) c x = true)
    (hd : ∀ d ∈ dlv, dlvAllowed w (ident w f) f d = true) :
    holdsRun w f c na (Run.okResp view chg dlv) = true := by
  apply holdsRun_intro
  · exact hv
  · exact hc
  · exact hd
  · intro g hg; simp [Run.okResp] at hg
  · intro h; exact absurd h hid


/-! ### every handler's outcome satisfies the predicate (repaired variant) -/

theorem partyOf_map (w : World) (id i : Nat) (m : Mapping) (hm : w.maps[i]? = some m) (hp : isParty id m = true) :
    (Obj.map i).partyOf w id = true := by simp [Obj.partyOf, hm, hp]

theorem clientMaps_party (w : World) (id : Nat) : ∀ o ∈ (clientMaps w id).map Obj.map, o.partyOf w id = true := by
  intro o ho
  obtain ⟨i, hi, rfl⟩ := List.mem_map.mp ho
  obtain ⟨m, hm, hp⟩ := idxFilter_mem0 _ _ _ hi
  exact partyOf_map w id i m hm hp

theorem dlv_open_ok (w : World) (f i tc : Nat) (m : Mapping) (nd : Nat) (hmi : w.maps[i]? = some m)
    (hid : ident w f ≠ 0) (hl : ident w f = m.listen) (htc : online w nd (Int.ofNat m.target) = some tc) :
    dlvAllowed w (ident w f) f ⟨tc, c11.cmd.TunnelOpenRequestCmd, none⟩ = true := by
  obtain ⟨hcl, hne⟩ := online_client w _ _ tc htc
  have hcl' : connClient w tc = m.target := by simpa using hcl
  simp only [dlvAllowed, Bool.or_eq_true, beq_iff_eq, Bool.and_eq_true, bne_iff_ne, ne_eq, if_true,
    List.any_eq_true]
  right
  refine ⟨⟨hid, ?_⟩, ⟨m, List.mem_of_getElem? hmi, ?_⟩, trivial⟩
  · rw [hcl']; simpa using hne
  · simp [hl, hcl']

theorem h_socks5 (w : World) (f : Nat) (c : Cmd) :
    holdsRun w f c true (execH .repaired .socks5 w f c) = true := by
  simp only [execH]
  split
  · exact holdsRun_err ..
  · split
    · exact holdsRun_err ..
    · rename_i i m hm
      obtain ⟨hmi, _⟩ := getRef_some _ _ _ _ hm
      split
      · exact holdsRun_err ..
      split
      · exact holdsRun_err ..
      · rename_i hchk
        simp only [beq_self_eq_true, Bool.true_and, Bool.or_eq_true, beq_iff_eq, bne_iff_ne, ne_eq, not_or,
          Decidable.not_not] at hchk
        obtain ⟨hid, hl⟩ := hchk
        split
        · rename_i tc htc
          apply holdsRun_intro
          · intro o ho
            simp only at ho
            split at ho
            · simp only [List.mem_singleton] at ho
              subst ho
              exact partyOf_map w _ i m hmi (by simp [isParty, hl])
            · simp at ho
          · intro x hx; simp at hx
          · intro d hd
            simp only [List.mem_singleton] at hd
            subst hd
            exact dlv_open_ok w f i tc m _ hmi hid hl htc
          · intro g hg; simp at hg
          · intro h0; exact absurd h0 hid
        · split
          · apply holdsRun_intro
            · intro o ho; simp at ho
            · intro x hx; simp at hx
            · intro d hd
              simp only [broadcastOpen, List.mem_filterMap, Option.map_eq_some_iff] at hd
              obtain ⟨n, _, tc, htc, rfl⟩ := hd
              exact dlv_open_ok w f i tc m n hmi hid hl htc
            · intro g hg; simp at hg
            · intro h0; exact absurd h0 hid
          · exact holdsRun_err ..

theorem h_traffic (w : World) (f : Nat) (c : Cmd) :
    holdsRun w f c true (execH .repaired .traffic w f c) = true := by
  simp only [execH]
  split
  · exact holdsRun_err ..
  · split
    · exact holdsRun_quiet ..
    · rename_i i m hm
      obtain ⟨hmi, _⟩ := getRef_some _ _ _ _ hm
      split
      · exact holdsRun_quiet ..
      split
      · exact holdsRun_err ..
      · rename_i hchk
        simp only [beq_self_eq_true, Bool.true_and, Bool.or_eq_true, beq_iff_eq, Bool.not_eq_true', not_or,
          Bool.not_eq_false] at hchk
        obtain ⟨hid, hp⟩ := hchk
        split
        · exact holdsRun_quiet ..
        apply holdsRun_intro
        · intro o ho; simp at ho
        · intro x hx
          simp only [List.mem_singleton] at hx
          subst hx
          simp [chgAllowed, partyOf_map w _ i m hmi hp]
        · intro d hd; simp at hd
        · intro g hg; simp at hg
        · intro h0; exact absurd h0 hid

theorem dnsFwd_holds (w : World) (f : Nat) (c : Cmd) (q : Bool) (n : Nat) (t : Int) (tc : Nat)
    (hid : ident w f ≠ 0) (htc : online w n t = some tc) :
    holdsRun w f c true (dnsFwd w f q tc) = true := by
  obtain ⟨hcl, hne⟩ := online_client w _ _ tc htc
  have hd : dlvAllowed w (ident w f) f ⟨tc, if q then c11.cmd.DNSQuery else c11.cmd.DNSResolve, none⟩ = true := by
    simp only [dlvAllowed, Bool.or_eq_true, beq_iff_eq, Bool.and_eq_true, bne_iff_ne, ne_eq]
    right
    refine ⟨⟨hid, by rw [hcl]; exact hne⟩, ?_⟩
    cases q <;> simp [c11.cmd.DNSQuery, c11.cmd.DNSResolve, c11.cmd.TunnelOpenRequestCmd, c11.cmd.NotifyClient]
  unfold dnsFwd
  split
  · apply holdsRun_intro
    · intro o ho; simp at ho
    · intro x hx; simp at hx
    · intro d hd'; simp only [List.mem_singleton] at hd'; subst hd'; exact hd
    · intro g hg; simp at hg
    · intro h0; exact absurd h0 hid
  · apply holdsRun_intro
    · intro o ho; simp at ho
    · intro x hx; simp at hx
    · intro d hd'; simp only [List.mem_singleton] at hd'; subst hd'; exact hd
    · intro g hg; simp at hg
    · intro h0; exact absurd h0 hid

theorem h_dnsReq (w : World) (f : Nat) (c : Cmd) (q : Bool) :
    holdsRun w f c true (execH .repaired (.dnsReq q) w f c) = true := by
  simp only [execH]
  split
  · exact holdsRun_dnsErr ..
  · split
    · exact holdsRun_dnsErr ..
    · rename_i hchk
      simp only [beq_self_eq_true, Bool.true_and, beq_iff_eq] at hchk
      split
      · exact holdsRun_dnsErr ..
      · rename_i t _
        split
        · rename_i tc htc
          exact dnsFwd_holds w f c q _ t tc hchk htc
        · split
          · split
            · rename_i tc rest hl
              have hm : tc ∈ (nodes w).filterMap (fun n => if n == nodeOf w f then none else online w n t) := by
                rw [hl]; simp
              simp only [List.mem_filterMap] at hm
              obtain ⟨n, _, hn⟩ := hm
              split at hn
              · cases hn
              · exact dnsFwd_holds w f c q n t tc hchk hn
            · exact holdsRun_dnsErr ..
          · exact holdsRun_dnsErr ..

theorem h_disconnect (w : World) (f : Nat) (c : Cmd) (na : Bool) :
    holdsRun w f c na (execH .repaired .disconnect w f c) = true := by
  simp only [execH]
  split
  · apply holdsRun_intro <;> simp
  · exact holdsRun_quiet ..

theorem h_sendNotify (w : World) (f : Nat) (c : Cmd) :
    holdsRun w f c true (execH .repaired .sendNotify w f c) = true := by
  simp only [execH]
  split
  · exact holdsRun_failResp ..
  · split
    · exact holdsRun_failResp ..
    · rename_i hchk
      simp only [beq_self_eq_true, Bool.true_and, beq_iff_eq] at hchk
      split
      · exact holdsRun_failResp ..
      · split
        · exact holdsRun_failResp ..
        · split
          · exact holdsRun_failResp ..
          · rename_i tc htc
            obtain ⟨hcl, hne⟩ := online_client w _ _ tc htc
            apply holdsRun_ok _ _ _ _ _ _ _ hchk
            · intro o ho; simp at ho
            · intro x hx; simp at hx
            · intro d hd
              simp only [List.mem_singleton] at hd
              subst hd
              simp only [dlvAllowed, Bool.or_eq_true, beq_iff_eq, Bool.and_eq_true, bne_iff_ne, ne_eq]
              right
              refine ⟨⟨hchk, by rw [hcl]; exact hne⟩, ?_⟩
              simp [hchk, c11.cmd.TunnelOpenRequestCmd, c11.cmd.NotifyClient]

theorem h_codeGen (w : World) (f : Nat) (c : Cmd) :
    holdsRun w f c true (execH .repaired .codeGen w f c) = true := by
  simp only [execH]
  split
  · exact holdsRun_failResp ..
  · rename_i hid
    simp only [beq_iff_eq] at hid
    split
    · exact holdsRun_failResp ..
    · apply holdsRun_ok _ _ _ _ _ _ _ hid
      · intro o ho; simp at ho
      · intro x hx; simp only [List.mem_singleton] at hx; subst hx; simp [chgAllowed]
      · intro d hd; simp at hd

theorem h_codeList (w : World) (f : Nat) (c : Cmd) :
    holdsRun w f c true (execH .repaired .codeList w f c) = true := by
  simp only [execH]
  split
  · exact holdsRun_failResp ..
  · rename_i hid
    simp only [beq_iff_eq] at hid
    apply holdsRun_ok _ _ _ _ _ _ _ hid
    · intro o ho
      obtain ⟨i, hi, rfl⟩ := List.mem_map.mp ho
      obtain ⟨cd, hcd, hp⟩ := idxFilter_mem0 _ _ _ hi
      simp [Obj.partyOf, hcd, hp]
    · intro x hx; simp at hx
    · intro d hd; simp at hd

theorem h_codeActivate (w : World) (f : Nat) (c : Cmd) (hct : dispatch c.ctype c.resp = some Handler.codeActivate) :
    holdsRun w f c true (execH .repaired .codeActivate w f c) = true := by
  simp only [execH]
  split
  · exact holdsRun_failResp ..
  · rename_i hid
    simp only [beq_iff_eq] at hid
    split
    · exact holdsRun_failResp ..
    · split
      · exact holdsRun_failResp ..
      · rename_i i cd hk
        obtain ⟨_, hki⟩ := getRef_some _ _ _ _ hk
        split
        · exact holdsRun_failResp ..
        · apply holdsRun_ok _ _ _ _ _ _ _ hid
          · intro o ho; simp at ho
          · intro x hx
            simp only [List.mem_cons, List.not_mem_nil, or_false] at hx
            rcases hx with rfl | rfl
            · simp [chgAllowed, hct, hki]
            · simp [chgAllowed]
          · intro d hd; simp at hd

theorem h_mapView (w : World) (f : Nat) (c : Cmd) :
    holdsRun w f c true (if (ident w f == 0) = true then Run.failResp
      else Run.okResp ((clientMaps w (ident w f)).map Obj.map) [] []) = true := by
  split
  · exact holdsRun_failResp ..
  · rename_i hid
    simp only [beq_iff_eq] at hid
    apply holdsRun_ok _ _ _ _ _ _ _ hid
    · exact clientMaps_party w _
    · intro x hx; simp at hx
    · intro d hd; simp at hd

theorem h_mapGet (w : World) (f : Nat) (c : Cmd) :
    holdsRun w f c true (execH .repaired .mapGet w f c) = true := by
  simp only [execH]
  split
  · exact holdsRun_failResp ..
  · rename_i hid
    simp only [beq_iff_eq] at hid
    split
    · exact holdsRun_failResp ..
    · split
      · exact holdsRun_failResp ..
      · rename_i i m hm
        obtain ⟨hmi, _⟩ := getRef_some _ _ _ _ hm
        split
        · exact holdsRun_failResp ..
        split
        · exact holdsRun_failResp ..
        · rename_i hp
          simp only [Bool.not_eq_true', Bool.not_eq_false] at hp
          apply holdsRun_ok _ _ _ _ _ _ _ hid
          · intro o ho; simp only [List.mem_singleton] at ho; subst ho; exact partyOf_map w _ i m hmi hp
          · intro x hx; simp at hx
          · intro d hd; simp at hd

theorem h_mapDelete (w : World) (f : Nat) (c : Cmd) :
    holdsRun w f c true (execH .repaired .mapDelete w f c) = true := by
  simp only [execH]
  split
  · exact holdsRun_failResp ..
  · rename_i hid
    simp only [beq_iff_eq] at hid
    split
    · exact holdsRun_failResp ..
    · split
      · exact holdsRun_failResp ..
      · rename_i i m hm
        obtain ⟨hmi, _⟩ := getRef_some _ _ _ _ hm
        split
        · exact holdsRun_failResp ..
        split
        · exact holdsRun_failResp ..
        · rename_i hp
          simp only [Bool.not_eq_true', Bool.not_eq_false] at hp
          split
          · apply holdsRun_ok _ _ _ _ _ _ _ hid
            · intro o ho; simp at ho
            · intro x hx; simp only [List.mem_singleton] at hx; subst hx
              simp [chgAllowed, partyOf_map w _ i m hmi hp]
            · intro d hd; simp at hd
          · apply holdsRun_ok _ _ _ _ _ _ _ hid
            · intro o ho; simp at ho
            · intro x hx; simp only [List.mem_singleton] at hx; subst hx
              simp [chgAllowed, partyOf_map w _ i m hmi hp]
            · intro d hd; simp at hd

theorem h_domCreate (w : World) (f : Nat) (c : Cmd) :
    holdsRun w f c true (execH .repaired .domCreate w f c) = true := by
  simp only [execH]
  split
  · exact holdsRun_failResp ..
  · rename_i hid
    simp only [beq_iff_eq] at hid
    split
    · exact holdsRun_failResp ..
    · split
      · exact holdsRun_failResp ..
      · apply holdsRun_ok _ _ _ _ _ _ _ hid
        · intro o ho; simp at ho
        · intro x hx; simp only [List.mem_singleton] at hx; subst hx; simp [chgAllowed]
        · intro d hd; simp at hd

theorem h_domDelete (w : World) (f : Nat) (c : Cmd) :
    holdsRun w f c true (execH .repaired .domDelete w f c) = true := by
  simp only [execH]
  split
  · exact holdsRun_failResp ..
  · rename_i hid
    simp only [beq_self_eq_true, Bool.true_and, beq_iff_eq] at hid
    split
    · exact holdsRun_failResp ..
    · split
      · split
        · apply holdsRun_ok _ _ _ _ _ _ _ hid <;> simp
        · exact holdsRun_failResp ..
      · rename_i i owner hd
        obtain ⟨hdi, _⟩ := getRef_some _ _ _ _ hd
        split
        · exact holdsRun_failResp ..
        · rename_i ho
          simp only [bne_iff_ne, ne_eq, Decidable.not_not] at ho
          apply holdsRun_ok _ _ _ _ _ _ _ hid
          · intro o ho'; simp at ho'
          · intro x hx; simp only [List.mem_singleton] at hx; subst hx
            simp [chgAllowed, Obj.partyOf, hdi, ho]
          · intro d hd'; simp at hd'

theorem h_domList (w : World) (f : Nat) (c : Cmd) :
    holdsRun w f c true (execH .repaired .domList w f c) = true := by
  simp only [execH]
  split
  · exact holdsRun_failResp ..
  · rename_i hid
    simp only [beq_self_eq_true, Bool.true_and, beq_iff_eq] at hid
    apply holdsRun_ok _ _ _ _ _ _ _ hid
    · intro o ho
      obtain ⟨i, hi, rfl⟩ := List.mem_map.mp ho
      obtain ⟨ow, how, hp⟩ := idxFilter_mem0 _ _ _ hi
      simp [Obj.partyOf, how, hp]
    · intro x hx; simp at hx
    · intro d hd; simp at hd

/-- open handlers: a success response without any view, change or delivery -/
theorem holdsRun_okEmpty (w : World) (f : Nat) (c : Cmd) : holdsRun w f c false (Run.okResp [] [] []) = true := by
  apply holdsRun_intro <;> simp [Run.okResp]


/-- the fallback without executor: only the asking connection itself receives anything -/
theorem execNoExec_holds (w : World) (f : Nat) (c : Cmd) (na : Bool) : holdsRun w f c na (execNoExec w f c) = true := by
  unfold execNoExec
  split
  · split
    · exact holdsRun_err ..
    · split
      · rename_i hz
        simp only [beq_iff_eq] at hz
        unfold holdsRun
        simp [hz, dlvAllowed]
      · rename_i hz
        simp only [beq_iff_eq] at hz
        apply holdsRun_intro
        · exact clientMaps_party w _
        · intro x hx; simp at hx
        · intro d hd; simp only [List.mem_singleton] at hd; subst hd; simp [dlvAllowed]
        · intro g hg; simp at hg
        · intro h0; exact absurd h0 hz
  · exact holdsRun_quiet ..

end Tunnox.C11
