import TunnoxModel.Proofs.C19SimU
/-!
  C19 — simulation for the `look` clause: every routed lookup observation is justified by the monitor's
  own knowledge at that point of the history.
-/
namespace Tunnox.C19
open Gen

theorem isActive_eq_routableSt (now : Nat) (r : Rec) :
    repos.HTTPDomainMapping.IsActive now r = routableSt now r.Status r.ExpiresAt := by
  unfold repos.HTTPDomainMapping.IsActive repos.HTTPDomainMapping.IsExpired routableSt
  by_cases h0 : r.ExpiresAt = 0
  · simp [h0]
  · have : (r.ExpiresAt == 0) = false := by simp [h0]
    simp only [this, Bool.false_eq_true, if_false, Bool.false_or]
    congr 1
    by_cases h : now > r.ExpiresAt
    · have h' : ¬ now ≤ r.ExpiresAt := by omega
      simp [h, h']
    · have h' : now ≤ r.ExpiresAt := by omega
      simp [h, h']

/-- Which stage answered. -/
def RegistryPath (s : Store) (host : String) (pc : PC) : Prop :=
  (pc = .lIdx ∧ s.index (extractDomain host) = none) ∨ (∃ n, pc = .lData n ∧ s.data n = none) ∨ pc = .lCloud

theorem stepLookup_lIdx_some {cf s host n} (h : s.index (extractDomain host) = some n) :
    stepLookup cf s host .lIdx = (s, .lData n, none) := by simp [stepLookup, h]

theorem stepLookup_lData_some {cf s host n r} (h : s.data n = some r) :
    (stepLookup cf s host (.lData n)).2.2 ≠ none := by
  simp only [stepLookup, h]
  split
  · split <;> simp
  · simp

/-- `Inv.lookup_route` with the stage that answered. -/
theorem Inv.lookup_route_path {cf : Config} {ops exts c} (h : Inv cf ops exts c) {t host rest pid cl th tp}
    (hto : (c.th t).todo = .look host :: rest)
    (hr : (stepLookup cf c.st host (c.th t).pc).2.2 = some (.route pid cl th tp)) :
    (∃ n o r, (c.th t).pc = .lData n ∧ c.st.born n = some o ∧ c.st.data n = some r ∧
        repos.HTTPDomainMapping.IsActive cf.now r = true ∧ pid = mappingID n ∧ cl = o.client ∧
        o.dom = extractDomain host ∧ ((th = o.thost ∧ tp = o.tport) ∨ (n, th, tp) ∈ updTargets ops)) ∨
    (ForeignSource cf exts host pid cl th tp ∧ RegistryPath c.st host (c.th t).pc) := by
  have hl := h.linv hto
  cases hpc : (c.th t).pc <;> rw [hpc] at hl hr <;> simp only [LInv] at hl <;> try exact hl.elim
  · simp [stepLookup] at hr
  · simp only [stepLookup] at hr
    cases hix : c.st.index (extractDomain host) with
    | none => rw [hix] at hr; exact Or.inr ⟨registryStage_route h hr, Or.inl ⟨rfl, hix⟩⟩
    | some k => rw [hix] at hr; cases hr
  · rename_i n
    simp only [stepLookup] at hr
    cases hd : c.st.data n with
    | none => rw [hd] at hr; exact Or.inr ⟨registryStage_route h hr, Or.inr (Or.inl ⟨n, rfl, hd⟩)⟩
    | some r =>
      rw [hd] at hr
      simp only at hr
      by_cases ha : repos.HTTPDomainMapping.IsActive cf.now r = true
      · simp only [ha, Bool.not_true, Bool.false_eq_true, if_false, Option.some.injEq, routeOf, toPM,
          Res.route.injEq] at hr
        obtain ⟨o, ho, hod⟩ := hl
        obtain ⟨o', ho', h1, h2, h3, h4, _⟩ := h.dataOK n r hd
        rw [ho] at ho'; injection ho' with e; subst e
        refine Or.inl ⟨n, o, r, rfl, ho, hd, ha, ?_, ?_, hod, ?_⟩
        · rw [← hr.1]; exact h3
        · rw [← hr.2.1]; exact h2
        · rw [← hr.2.2.1, ← hr.2.2.2]; exact h4
      · simp only [ha, Bool.not_false, if_true] at hr
        split at hr <;> cases hr
  · simp only [stepLookup] at hr
    cases hf : cloudFind cf (extractDomain host) with
    | none => rw [hf] at hr; cases hr
    | some mm =>
      rw [hf] at hr
      simp only at hr
      have hmem : mm ∈ exts := h.cloudSub mm (List.mem_of_find?_eq_some hf)
      have hdom : mm.fullDomain = extractDomain host := by
        have := List.find?_some hf
        simp only [Bool.and_eq_true, beq_iff_eq] at this
        exact this.2
      cases hp : pmCheck cf.now mm with
      | route a b c' d =>
        rw [hp] at hr
        simp only [Option.some.injEq, Res.route.injEq] at hr
        obtain ⟨h1, h2, h3, h4, h5⟩ := pmCheck_route hp
        exact Or.inr ⟨⟨mm, hmem, h1, hdom, by rw [← hr.1]; exact h2, by rw [← hr.2.1]; exact h3,
          by rw [← hr.2.2.1]; exact h4, by rw [← hr.2.2.2]; exact h5⟩, Or.inr (Or.inr rfl)⟩
      | okId k => rw [hp] at hr; cases hr
      | ok => rw [hp] at hr; cases hr
      | err code => rw [hp] at hr; cases hr

end Tunnox.C19
namespace Tunnox.C19
open Gen

structure SimK (c : Cfg) (m : Mon) : Prop where
  look : m.look = true
  ld1 : ∀ t n, n ∈ assocD m.lookDead t → n ∈ m.dead
  ld2 : ∀ t host rest n, (c.th t).todo = .look host :: rest → (c.th t).pc = .lData n → n ∉ assocD m.lookDead t
  sh : ∀ t n, n ∈ assocD m.shield t → ∃ host rest d cl, (c.th t).todo = .look host :: rest ∧
    (n, d, cl) ∈ m.certain ∧ nameOK host d = true ∧ colonFree d = true ∧
    ((c.th t).pc = .lIdx ∨ (c.th t).pc = .lData n)

theorem SimK.init (i : Input) : SimK (initCfg i) {} := by
  refine ⟨rfl, ?_, ?_, ?_⟩
  · intro t n h; simp [assocD] at h
  · intro t host rest n _ h; simp [initCfg] at h
  · intro t n h; simp [assocD] at h

section
variable {cf : Config} {ops : List Op} {exts : List PM} {c : Cfg} {m : Mon}

/-- A step of a thread whose current operation is not a lookup; the monitor's dead set and certain set may
only grow, `lookDead` / `shield` / `look` are unchanged. -/
theorem SimK.keep_other (hK : SimK c m) (t : Nat) {o rest} (hto : (c.th t).todo = o :: rest)
    (hnl : ∀ h, o ≠ .look h) (m' : Mon) (e1 : m'.look = m.look) (e2 : m'.lookDead = m.lookDead)
    (e3 : m'.shield = m.shield) (hd : ∀ n, n ∈ m.dead → n ∈ m'.dead) (hc : ∀ x, x ∈ m.certain → x ∈ m'.certain) :
    SimK (stepThread cf c t).1 m' := by
  have hne : ∀ t' host rest', (c.th t').todo = .look host :: rest' → t' ≠ t := by
    intro t' host rest' h e; subst e
    rw [hto] at h; injection h with h _; exact hnl _ h
  refine ⟨by rw [e1]; exact hK.look, ?_, ?_, ?_⟩
  · intro t' n h; rw [e2] at h; exact hd n (hK.ld1 t' n h)
  · intro t' host rest' n h1 h2
    rw [e2]
    by_cases e : t' = t
    · subst e
      exfalso
      cases hr : (stepOp cf c.st o (c.th t').pc).2.2 with
      | some r => rw [stepThread_self cf c t' o rest hto, hr] at h2; cases h2
      | none =>
        rw [stepThread_self cf c t' o rest hto, hr] at h1
        injection h1 with h1 _; exact hnl _ h1
    · rw [stepThread_others cf c t t' e] at h1 h2; exact hK.ld2 t' host rest' n h1 h2
  · intro t' n h
    rw [e3] at h
    obtain ⟨host, rest', d, cl, h1, h2, h3, h4, h5⟩ := hK.sh t' n h
    rw [stepThread_others cf c t t' (hne t' host rest' h1)]
    exact ⟨host, rest', d, cl, h1, hc _ h2, h3, h4, h5⟩

theorem SimK.step_create (i : Input) (hK : SimK c m)
    (t : Nat) {cl sub base th tp rest} (hto : (c.th t).todo = .create cl sub base th tp :: rest) :
    SimK (stepThread cf c t).1 (monSlot i m (stepThread cf c t).2) := by
  rw [stepThread_slot cf c t _ rest hto, monSlot_eq]
  have hp : ∀ b, (preMon m t b (.create cl sub base th tp)).look = m.look ∧
      (preMon m t b (.create cl sub base th tp)).lookDead = m.lookDead ∧
      (preMon m t b (.create cl sub base th tp)).shield = m.shield ∧
      (preMon m t b (.create cl sub base th tp)).dead = m.dead ∧
      (preMon m t b (.create cl sub base th tp)).certain = m.certain := by
    intro b; cases b <;> exact ⟨rfl, rfl, rfl, rfl, rfl⟩
  obtain ⟨p1, p2, p3, p4, p5⟩ := hp (c.th t).pc.isIdle
  have hnl : ∀ h, Op.create cl sub base th tp ≠ .look h := by intro _ h; cases h
  cases (stepOp cf c.st (.create cl sub base th tp) (c.th t).pc).2.2 with
  | none =>
    simp only [Option.map_none]
    exact hK.keep_other t hto hnl _ p1 p2 p3 (by rw [p4]; exact fun _ h => h) (by rw [p5]; exact fun _ h => h)
  | some r =>
    simp only [Option.map_some, monRet]
    have hq : ∀ (m0 : Mon), (retCreate m0 t cl (sub ++ "." ++ base) th tp r).look = m0.look ∧
        (retCreate m0 t cl (sub ++ "." ++ base) th tp r).lookDead = m0.lookDead ∧
        (retCreate m0 t cl (sub ++ "." ++ base) th tp r).shield = m0.shield ∧
        (retCreate m0 t cl (sub ++ "." ++ base) th tp r).dead = m0.dead ∧
        (∀ x, x ∈ m0.certain → x ∈ (retCreate m0 t cl (sub ++ "." ++ base) th tp r).certain) := by
      intro m0; unfold retCreate; simp only
      cases r with
      | okId n =>
        simp only; split
        · exact ⟨rfl, rfl, rfl, rfl, fun _ h => h⟩
        · exact ⟨rfl, rfl, rfl, rfl, fun _ h => List.mem_cons_of_mem _ h⟩
      | err code => simp only; split <;> exact ⟨rfl, rfl, rfl, rfl, fun _ h => h⟩
      | ok => exact ⟨rfl, rfl, rfl, rfl, fun _ h => h⟩
      | route _ _ _ _ => exact ⟨rfl, rfl, rfl, rfl, fun _ h => h⟩
    obtain ⟨q1, q2, q3, q4, q5⟩ := hq (preMon m t (c.th t).pc.isIdle (.create cl sub base th tp))
    exact hK.keep_other t hto hnl _ (by rw [q1, p1]) (by rw [q2, p2]) (by rw [q3, p3])
      (by rw [q4, p4]; exact fun _ h => h) (fun x hx => q5 x (by rw [p5]; exact hx))

theorem SimK.step_update (i : Input) (hK : SimK c m)
    (t : Nat) {n st e th tp rest} (hto : (c.th t).todo = .upd n st e th tp :: rest) :
    SimK (stepThread cf c t).1 (monSlot i m (stepThread cf c t).2) := by
  rw [stepThread_slot cf c t _ rest hto, monSlot_eq]
  have hp : ∀ b, (preMon m t b (.upd n st e th tp)).look = m.look ∧ (preMon m t b (.upd n st e th tp)).lookDead = m.lookDead ∧
      (preMon m t b (.upd n st e th tp)).shield = m.shield ∧ (preMon m t b (.upd n st e th tp)).dead = m.dead ∧
      (preMon m t b (.upd n st e th tp)).certain = m.certain := by
    intro b; cases b <;> exact ⟨rfl, rfl, rfl, rfl, rfl⟩
  obtain ⟨p1, p2, p3, p4, p5⟩ := hp (c.th t).pc.isIdle
  have hnl : ∀ h, Op.upd n st e th tp ≠ .look h := by intro _ h; cases h
  cases (stepOp cf c.st (.upd n st e th tp) (c.th t).pc).2.2 with
  | none =>
    simp only [Option.map_none]
    exact hK.keep_other t hto hnl _ p1 p2 p3 (by rw [p4]; exact fun _ h => h) (by rw [p5]; exact fun _ h => h)
  | some r =>
    simp only [Option.map_some, monRet, retUpdate]
    exact hK.keep_other t hto hnl _ p1 p2 p3 (by simp only; rw [p4]; exact fun _ h => h)
      (by simp only; rw [p5]; exact fun _ h => h)

theorem SimK.step_delete (i : Input) (hK : SimK c m)
    (t : Nat) {n0 cl0 rest} (hto : (c.th t).todo = .del n0 cl0 :: rest) :
    SimK (stepThread cf c t).1 (monSlot i m (stepThread cf c t).2) := by
  have hnl : ∀ h, Op.del n0 cl0 ≠ .look h := by intro _ h; cases h
  have hne : ∀ t' host rest', (c.th t').todo = .look host :: rest' → t' ≠ t := by
    intro t' host rest' h e; subst e
    rw [hto] at h; injection h with h _; cases h
  rw [stepThread_slot cf c t _ rest hto, monSlot_eq]
  by_cases hidle : (c.th t).pc = .idle
  · have hres : (stepOp cf c.st (.del n0 cl0) (c.th t).pc).2.2 = none := by rw [hidle]; rfl
    have hb : (c.th t).pc.isIdle = true := by rw [hidle]; rfl
    rw [hres, hb, preMon_true]
    simp only [Option.map_none, monInv]
    have h0 : SimK (stepThread cf c t).1 m := hK.keep_other t hto hnl m rfl rfl rfl (fun _ h => h) (fun _ h => h)
    unfold invDelete
    refine ⟨h0.look, h0.ld1, h0.ld2, ?_⟩
    intro t' n h
    simp only at h ⊢
    by_cases hio : isOwner m n0 cl0 = true
    · simp only [hio, if_true] at h
      rw [assocD_dropId] at h
      simp only [List.mem_filter, bne_iff_ne, ne_eq, decide_not, Bool.not_eq_true', decide_eq_false_iff_not] at h
      obtain ⟨host, rest', d, cl, h1, h2, h3, h4, h5⟩ := h0.sh t' n h.1
      refine ⟨host, rest', d, cl, h1, ?_, h3, h4, h5⟩
      rw [mem_filter_certain]
      exact ⟨h2, fun hh => h.2 hh.1⟩
    · simp only [hio, Bool.false_eq_true, if_false] at h
      obtain ⟨host, rest', d, cl, h1, h2, h3, h4, h5⟩ := h0.sh t' n h
      refine ⟨host, rest', d, cl, h1, ?_, h3, h4, h5⟩
      rw [mem_filter_certain]
      refine ⟨h2, ?_⟩
      rintro ⟨e1, e2⟩
      simp only at e1 e2; subst e1; subst e2
      exact hio (by unfold isOwner; exact List.any_eq_true.mpr ⟨_, h2, by simp⟩)
  · have hb : (c.th t).pc.isIdle = false := by
      cases hpc : (c.th t).pc <;> first | rfl | exact absurd hpc hidle
    rw [hb, preMon_false]
    cases (stepOp cf c.st (.del n0 cl0) (c.th t).pc).2.2 with
    | none =>
      simp only [Option.map_none]
      exact hK.keep_other t hto hnl m rfl rfl rfl (fun _ h => h) (fun _ h => h)
    | some r =>
      simp only [Option.map_some, monRet, retDelete]
      refine hK.keep_other t hto hnl _ rfl rfl rfl ?_ (fun _ h => h)
      intro n h
      simp only
      split
      · exact List.mem_cons_of_mem _ h
      · exact h

end
end Tunnox.C19
namespace Tunnox.C19
open Gen

section
variable {c : Cfg} {m : Mon}

theorem SimK.step_lookup (i : Input) (hI : Inv i.cf (allOps i) (i.reg ++ i.cf.cloud) c)
    (hv : i.cf.variant = .repaired) (hO : Sim c m) (hF : SimF c m) (hU : SimU i.cf.now c m) (hK : SimK c m)
    (t : Nat) {host rest} (hto : (c.th t).todo = .look host :: rest) :
    SimK (stepThread i.cf c t).1 (monSlot i m (stepThread i.cf c t).2) := by
  have hoth : ∀ t', t' ≠ t → (stepThread i.cf c t).1.th t' = c.th t' := fun t' h => stepThread_others i.cf c t t' h
  -- a mapping in this lookup's shield is certainly owned: indexed under the looked-up key and stored
  have hshield : ∀ n, n ∈ assocD m.shield t →
      c.st.index (extractDomain host) = some n ∧ (∃ r, c.st.data n = some r) ∧
      ((c.th t).pc = .lIdx ∨ (c.th t).pc = .lData n) := by
    intro n hn
    obtain ⟨host', rest', d, cl, h1, h2, h3, h4, h5⟩ := hK.sh t n hn
    rw [hto] at h1; injection h1 with h1 _; injection h1 with h1; subst h1
    obtain ⟨hidx, r, hr, _, _⟩ := (hO.certain n d cl h2).stored hI hv
    rw [extractDomain_of_nameOK host d h4 h3]
    exact ⟨hidx, ⟨r, hr⟩, h5⟩
  rw [stepThread_slot i.cf c t _ rest hto, monSlot_eq]
  simp only [stepOp]
  by_cases hidle : (c.th t).pc = .idle
  · -- invocation: the monitor snapshots its knowledge
    have hb : (c.th t).pc.isIdle = true := by rw [hidle]; rfl
    have hres : (stepLookup i.cf c.st host (c.th t).pc).2.2 = none := by rw [hidle]; rfl
    rw [hb, preMon_true, hres]
    simp only [Option.map_none, monInv]
    have hself : (stepThread i.cf c t).1.th t = ⟨.look host :: rest, .lIdx⟩ := by
      rw [stepThread_self i.cf c t _ rest hto]; simp only [stepOp, hidle]; rfl
    unfold invLookup
    refine ⟨hK.look, ?_, ?_, ?_⟩
    · intro t' n h
      simp only at h ⊢
      rw [assocD_cons_filter] at h
      split at h
      · exact h
      · exact hK.ld1 t' n h
    · intro t' host' rest' n h1 h2
      simp only
      rw [assocD_cons_filter]
      by_cases e : t' = t
      · subst e; rw [hself] at h2; cases h2
      · simp only [e, if_false]
        rw [hoth _ e] at h1 h2; exact hK.ld2 t' host' rest' n h1 h2
    · intro t' n h
      simp only at h ⊢
      rw [assocD_cons_filter] at h
      by_cases e : t' = t
      · subst e
        simp only [if_true, List.mem_map, List.mem_filter, Bool.and_eq_true] at h
        obtain ⟨x, ⟨hx1, hx2, hx3⟩, hx4⟩ := h
        refine ⟨host, rest, x.2.1, x.2.2, by rw [hself], ?_, hx2, hx3, Or.inl (by rw [hself])⟩
        rw [← hx4]; exact hx1
      · simp only [e, if_false] at h
        obtain ⟨host', rest', d, cl, h1, h2, h3, h4, h5⟩ := hK.sh t' n h
        rw [hoth _ e]
        exact ⟨host', rest', d, cl, h1, h2, h3, h4, h5⟩
  · have hb : (c.th t).pc.isIdle = false := by
      cases hpc : (c.th t).pc <;> first | rfl | exact absurd hpc hidle
    rw [hb, preMon_false]
    cases hr : (stepLookup i.cf c.st host (c.th t).pc).2.2 with
    | none =>
      simp only [Option.map_none]
      have hself : (stepThread i.cf c t).1.th t = ⟨.look host :: rest, (stepLookup i.cf c.st host (c.th t).pc).2.1⟩ := by
        rw [stepThread_self i.cf c t _ rest hto]; simp only [stepOp, hr]
      refine ⟨hK.look, hK.ld1, ?_, ?_⟩
      · intro t' host' rest' n h1 h2
        by_cases e : t' = t
        · subst e
          rw [hself] at h2
          simp only at h2
          -- the thread has just read the index entry, or was already past it
          have hl := hI.linv hto
          cases hpc : (c.th t').pc <;> rw [hpc] at hl hr h2 <;> simp only [LInv] at hl <;> try exact hl.elim
          · exact absurd hpc hidle
          · -- lIdx
            simp only [stepLookup] at h2 hr
            cases hix : c.st.index (extractDomain host) with
            | none =>
              rw [hix] at h2 hr
              unfold registryStage at h2 hr
              cases hreg : c.st.registry (extractDomain host) with
              | none => rw [hreg] at h2; cases h2
              | some mm => rw [hreg] at hr; cases hr
            | some k =>
              rw [hix] at h2
              simp only [PC.lData.injEq] at h2
              subst h2
              intro hmem
              exact (hF.dead k (hK.ld1 t' k hmem)).1 _ hix
          · -- lData
            rename_i k
            simp only [stepLookup] at h2 hr
            cases hd : c.st.data k with
            | none =>
              rw [hd] at h2 hr
              unfold registryStage at h2 hr
              cases hreg : c.st.registry (extractDomain host) with
              | none => rw [hreg] at h2; cases h2
              | some mm => rw [hreg] at hr; cases hr
            | some r =>
              rw [hd] at hr
              simp only at hr
              split at hr
              · split at hr <;> cases hr
              · cases hr
          · -- lCloud never continues
            simp only [stepLookup] at hr
            split at hr
            · cases hr
            · split at hr <;> cases hr
        · rw [hoth _ e] at h1 h2; exact hK.ld2 t' host' rest' n h1 h2
      · intro t' n h
        by_cases e : t' = t
        · subst e
          obtain ⟨hidx, ⟨r, hd⟩, hpc⟩ := hshield n h
          obtain ⟨host', rest', d, cl, h1, h2, h3, h4, _⟩ := hK.sh t' n h
          refine ⟨host, rest, d, cl, by rw [hself], h2, ?_, h4, Or.inr ?_⟩
          · rw [hto] at h1; injection h1 with h1 _; injection h1 with h1; rw [h1]; exact h3
          · rw [hself]
            simp only
            rcases hpc with hpc | hpc
            · rw [hpc, stepLookup_lIdx_some hidx]
            · rw [hpc] at hr; exact absurd hr (stepLookup_lData_some hd)
        · obtain ⟨host', rest', d, cl, h1, h2, h3, h4, h5⟩ := hK.sh t' n h
          rw [hoth _ e]
          exact ⟨host', rest', d, cl, h1, h2, h3, h4, h5⟩
    | some r =>
      simp only [Option.map_some, monRet]
      have hself : (stepThread i.cf c t).1.th t = ⟨rest, .idle⟩ := by
        rw [stepThread_self i.cf c t _ rest hto]; simp only [stepOp, hr]
      have hlists : ∀ (mm : Mon), mm.lookDead = m.lookDead.filter (·.1 != t) → mm.shield = m.shield.filter (·.1 != t) →
          mm.dead = m.dead → mm.certain = m.certain → mm.look = true → SimK (stepThread i.cf c t).1 mm := by
        intro mm q1 q2 q3 q4 q5
        refine ⟨q5, ?_, ?_, ?_⟩
        · intro t' n h
          rw [q1, assocD_filter] at h
          rw [q3]
          split at h
          · cases h
          · exact hK.ld1 t' n h
        · intro t' host' rest' n h1 h2
          rw [q1, assocD_filter]
          by_cases e : t' = t
          · subst e; rw [hself] at h2; cases h2
          · simp only [e, if_false]
            rw [hoth _ e] at h1 h2; exact hK.ld2 t' host' rest' n h1 h2
        · intro t' n h
          rw [q2, assocD_filter] at h
          rw [q4]
          by_cases e : t' = t
          · simp only [e, if_true] at h; cases h
          · simp only [e, if_false] at h
            obtain ⟨host', rest', d, cl, h1, h2, h3, h4, h5⟩ := hK.sh t' n h
            rw [hoth _ e]
            exact ⟨host', rest', d, cl, h1, h2, h3, h4, h5⟩
      unfold retLookup
      simp only
      cases r with
      | okId _ => exact hlists _ rfl rfl rfl rfl hK.look
      | ok => exact hlists _ rfl rfl rfl rfl hK.look
      | err _ => exact hlists _ rfl rfl rfl rfl hK.look
      | route pid cl th tp =>
        simp only
        refine hlists _ rfl rfl rfl rfl ?_
        simp only
        rw [hK.look, Bool.true_and, Bool.or_eq_true]
        rcases hI.lookup_route_path hto hr with ⟨n, o, rr, hpc, hbn, hdn, hact, hpid, hcl, hdom, htgt⟩ | ⟨hfs, hpath⟩
        · -- answered from the repository: the record of the mapping that claimed exactly this name
          left
          unfold repoSource
          rw [Bool.or_eq_true]
          have hname : nameOK host o.dom = true := by rw [hdom]; exact nameOK_extractDomain host
          rcases hF.born2 n o hbn with hb | ⟨t', hcid⟩
          · left
            rw [List.any_eq_true]
            refine ⟨_, hb, ?_⟩
            simp only [Bool.and_eq_true, beq_iff_eq, Bool.not_eq_true']
            refine ⟨⟨⟨⟨⟨hpid.symm, hcl.symm⟩, hname⟩, ?_⟩, ?_⟩, ?_⟩
            · rw [Bool.eq_false_iff]; intro hc'
              exact hK.ld2 t host rest n hto hpc (List.contains_iff_mem.mp hc')
            · rw [Bool.eq_false_iff]; intro hc'
              have hq := hU.bad t n (List.contains_iff_mem.mp hc')
              have := (hU.quiet n false hq).2.2 rr hdn
              rw [← isActive_eq_routableSt, hact] at this; cases this
            · unfold targetOK
              rw [Bool.or_eq_true]
              rcases htgt with ⟨h1, h2⟩ | h
              · left; simp [h1, h2]
              · right; exact List.contains_iff_mem.mpr h
          · right
            have hf := hF.creator_fly hI hcid hbn
            rw [List.any_eq_true]
            refine ⟨_, hf, ?_⟩
            simp only [Bool.and_eq_true, beq_iff_eq, Bool.or_eq_true]
            refine ⟨⟨hcl.symm, hname⟩, ?_⟩
            rcases htgt with ⟨h1, h2⟩ | h
            · left; exact ⟨h1, h2⟩
            · right
              rw [List.any_eq_true]
              exact ⟨_, h, by simp⟩
        · -- answered by the registry / cloud control: no mapping of the repository certainly owns the name
          right
          unfold extSource
          rw [Bool.and_eq_true]
          obtain ⟨mm, hm1, hm2, hm3, hm4, hm5, hm6, hm7⟩ := hfs
          refine ⟨?_, ?_⟩
          · rw [List.any_eq_true]
            refine ⟨mm, hm1, ?_⟩
            simp only [Bool.and_eq_true, beq_iff_eq]
            refine ⟨⟨⟨⟨⟨hm4.symm, hm5.symm⟩, hm6.symm⟩, hm7.symm⟩, ?_⟩, hm2⟩
            rw [hm3]; exact nameOK_extractDomain host
          · rw [List.isEmpty_iff]
            cases hsh : assocD m.shield t with
            | nil => rfl
            | cons n l =>
              exfalso
              obtain ⟨hidx, ⟨r0, hd⟩, hpc⟩ := hshield n (by rw [hsh]; exact List.mem_cons_self)
              rcases hpath with ⟨h1, h2⟩ | ⟨k, h1, h2⟩ | h1
              · rw [hidx] at h2; cases h2
              · rcases hpc with hpc | hpc
                · rw [hpc] at h1; cases h1
                · rw [hpc] at h1; injection h1 with h1; subst h1; rw [hd] at h2; cases h2
              · rcases hpc with hpc | hpc <;> rw [hpc] at h1 <;> cases h1

end

/-- **One joint slot keeps the `look` simulation** (repaired tree). -/
theorem SimK.step {c : Cfg} {m : Mon} (i : Input) (hI : Inv i.cf (allOps i) (i.reg ++ i.cf.cloud) c)
    (hv : i.cf.variant = .repaired) (hO : Sim c m) (hF : SimF c m) (hU : SimU i.cf.now c m) (hK : SimK c m) (t : Nat) :
    SimK (stepThread i.cf c t).1 (monSlot i m (stepThread i.cf c t).2) := by
  cases hto : (c.th t).todo with
  | nil => rw [stepThread_nil i.cf c t hto]; exact hK
  | cons o rest =>
    cases o with
    | create cl sub base th tp => exact hK.step_create i t hto
    | del n cl => exact hK.step_delete i t hto
    | upd n st e th tp => exact hK.step_update i t hto
    | look host => exact hK.step_lookup i hI hv hO hF hU t hto

end Tunnox.C19
