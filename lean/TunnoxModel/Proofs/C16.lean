import TunnoxModel.Spec.C16
/-! Helper lemmas for C16: list/`stepAt` plumbing, then one invariant + one termination
measure per component. -/
namespace Tunnox.C16
open Tunnox.Sched

/-! ## plumbing -/

theorem getElem?_set_cases {α} (ths : List α) (i j : Nat) (l' x : α)
    (h : (ths.set i l')[j]? = some x) : (i = j ∧ x = l') ∨ (i ≠ j ∧ ths[j]? = some x) := by
  by_cases hij : i = j
  · subst hij
    rw [List.getElem?_set] at h
    simp only [if_true] at h
    split at h
    · left; exact ⟨rfl, (Option.some.inj h).symm⟩
    · cases h
  · right
    rw [List.getElem?_set_ne hij] at h
    exact ⟨hij, h⟩

theorem lt_of_getElem? {α} (ths : List α) (i : Nat) (l : α) (h : ths[i]? = some l) : i < ths.length := by
  cases hlt : decide (i < ths.length) with
  | true => exact of_decide_eq_true hlt
  | false =>
    have : ths[i]? = none := List.getElem?_eq_none (Nat.le_of_not_lt (of_decide_eq_false hlt))
    rw [this] at h; cases h

theorem set_self_of_getElem? {α} : ∀ (ths : List α) (i : Nat) (l : α), ths[i]? = some l → ths.set i l = ths := by
  intro ths
  induction ths with
  | nil => intro i l h; simp at h
  | cons a t ih =>
    intro i l h
    cases i with
    | zero => simp at h; subst h; rfl
    | succ i => simp at h; simp [ih i l h]

/-- A step that changes the thread's local state is not a stutter. -/
theorem stepAt_ne_of_local {σ π} (p : Prog σ π) (c : Cfg σ π) (i : Nat) (l : π)
    (h : c.ths[i]? = some l) (hne : (p.step i c.sh l).2 ≠ l) : stepAt p c i ≠ c := by
  intro heq
  have h2 := getElem?_stepAt_self p c i l h
  rw [heq, h] at h2
  exact hne (Option.some.inj h2).symm

/-- A step that changes nothing is a stutter. -/
theorem stepAt_eq_of_same {σ π} (p : Prog σ π) (c : Cfg σ π) (i : Nat) (l : π)
    (h : c.ths[i]? = some l) (hs : p.step i c.sh l = (c.sh, l)) : stepAt p c i = c := by
  rw [stepAt_some p c i l h, hs]
  simp [set_self_of_getElem? c.ths i l h]

/-- Measure bookkeeping for weights that do not depend on the shared state. -/
theorem mu_lt_of_weight {σ π} (p : Prog σ π) (w : π → Nat) (c : Cfg σ π) (i : Nat) (l : π)
    (h : c.ths[i]? = some l) (hw : w (p.step i c.sh l).2 < w l) :
    ((stepAt p c i).ths.map w).sum < (c.ths.map w).sum := by
  rw [stepAt_some p c i l h]
  exact sum_map_set_lt w w c.ths i l _ h (fun _ => Nat.le_refl _) hw

theorem mem_replicate_getElem? {α} (n : Nat) (a x : α) (i : Nat)
    (h : (List.replicate n a)[i]? = some x) : x = a := by
  have := List.mem_of_getElem? h
  exact (List.mem_replicate.mp this).2

/-! ## Bridge.Close -/

structure BInv (c : Cfg BShared BPc) : Prop where
  sc : c.sh.sc + b2n c.sh.srcFwd + b2n c.sh.srcConn = 2
  tc : c.sh.tc + b2n c.sh.tgtFwd + b2n c.sh.tgtConn = 2
  stc : c.sh.stc + b2n c.sh.srcTC = 1
  ttc : c.sh.ttc + b2n c.sh.tgtTC = 1
  cl : c.sh.cleanups + b2n (!c.sh.closed) = 1
  done : ∀ i : Nat, c.ths[i]? = some BPc.done →
    c.sh.srcFwd = false ∧ c.sh.srcConn = false ∧ c.sh.tgtFwd = false ∧ c.sh.tgtConn = false ∧
    c.sh.srcTC = false ∧ c.sh.tgtTC = false ∧ c.sh.closed = true
  s2 : ∀ (i : Nat) (l : BPc), c.ths[i]? = some l → l ≠ BPc.s1 → c.sh.srcFwd = false
  s3 : ∀ (i : Nat) (l : BPc), c.ths[i]? = some l → l = BPc.s3 →
    c.sh.srcConn = false ∧ c.sh.tgtFwd = false ∧ c.sh.tgtConn = false ∧ c.sh.srcTC = false ∧ c.sh.tgtTC = false

theorem bInv_init (n : Nat) : BInv (bInit n) := by
  refine ⟨by simp [bInit, b2n], by simp [bInit, b2n], by simp [bInit, b2n], by simp [bInit, b2n], by simp [bInit, b2n], ?_, ?_, ?_⟩
  · intro i h; have := mem_replicate_getElem? _ _ _ _ h; cases this
  · intro i l h hne; exact absurd (mem_replicate_getElem? _ _ _ _ h) hne
  · intro i l h hl; have := mem_replicate_getElem? _ _ _ _ h; subst hl; cases this

theorem bInv_step (c : Cfg BShared BPc) (i : Nat) (hc : BInv c) : BInv (stepAt bProg c i) := by
  apply inv_stepAt_of_local bProg BInv c i hc
  intro l hl
  obtain ⟨sh, ths⟩ := c
  obtain ⟨srcFwd, tgtFwd, srcTC, tgtTC, srcConn, tgtConn, sc, tc, stc, ttc, closed, cleanups⟩ := sh
  obtain ⟨h1, h2, h3, h4, h5, hd, hs2, hs3⟩ := hc
  simp only at hl h1 h2 h3 h4 h5 hd hs2 hs3
  cases l with
  | s1 =>
    simp only [bProg, bStep]
    refine ⟨?_, h2, h3, h4, h5, ?_, ?_, ?_⟩
    · cases srcFwd <;> cases srcConn <;> simp_all [b2n]
    · intro j hj
      cases getElem?_set_cases _ _ _ _ _ hj with
      | inl h => cases h.2
      | inr h => have := hd j h.2; simp_all
    · intro j x hj hne; rfl
    · intro j x hj hx
      cases getElem?_set_cases _ _ _ _ _ hj with
      | inl h => subst hx; cases h.2
      | inr h => exact hs3 j x h.2 hx
  | s2 =>
    have hf := hs2 i .s2 hl (by decide)
    simp only [bProg, bStep]
    refine ⟨?_, ?_, ?_, ?_, h5, ?_, ?_, ?_⟩
    · cases srcFwd <;> cases srcConn <;> simp_all [b2n]
    · cases tgtFwd <;> cases tgtConn <;> simp_all [b2n] <;> omega
    · cases srcTC <;> simp_all [b2n]
    · cases tgtTC <;> simp_all [b2n]
    · intro j hj
      cases getElem?_set_cases _ _ _ _ _ hj with
      | inl h => cases h.2
      | inr h => have := hd j h.2; simp_all
    · intro j x hj hne; exact hf
    · intro j x hj hx; simp
  | s3 =>
    have hf := hs2 i .s3 hl (by decide)
    have hg := hs3 i .s3 hl rfl
    simp only [bProg, bStep]
    refine ⟨h1, h2, h3, h4, ?_, ?_, ?_, ?_⟩
    · cases closed <;> simp_all [b2n]
    · intro j hj; simp_all
    · intro j x hj hne; exact hf
    · intro j x hj hx; exact hg
  | done =>
    simp only [bProg, bStep]
    rw [set_self_of_getElem? ths i .done hl]
    exact ⟨h1, h2, h3, h4, h5, hd, hs2, hs3⟩

theorem b_dec (c : Cfg BShared BPc) (i : Nat) :
    stepAt bProg c i = c ∨ bMu (stepAt bProg c i) < bMu c := by
  cases hl : c.ths[i]? with
  | none => left; exact stepAt_none _ _ _ hl
  | some l =>
    cases l with
    | done => left; exact stepAt_eq_of_same bProg c i .done hl rfl
    | s1 => right; exact mu_lt_of_weight bProg bWeight c i .s1 hl (by simp [bProg, bStep, bWeight])
    | s2 => right; exact mu_lt_of_weight bProg bWeight c i .s2 hl (by simp [bProg, bStep, bWeight])
    | s3 => right; exact mu_lt_of_weight bProg bWeight c i .s3 hl (by simp [bProg, bStep, bWeight])

theorem sum_replicate_weight {π} (w : π → Nat) (n : Nat) (a : π) :
    ((List.replicate n a).map w).sum = n * w a := by
  induction n with
  | zero => simp
  | succ n ih => simp [List.replicate_succ, ih, Nat.succ_mul, Nat.add_comm]

/-- After the drain every closer is done. -/
theorem b_all_done (n : Nat) (s : Schedule) (i : Nat) (l : BPc)
    (h : (bFinal n s).ths[i]? = some l) : l = .done := by
  have hq : Quiescent bProg (bFinal n s) := by
    unfold bFinal
    rw [run_append]
    apply rounds_quiescent bProg (fun _ => True) bMu n (fun _ _ _ => trivial) (fun c i _ => b_dec c i)
    · trivial
    · rw [run_length]; simp [bInit]
    · have hle : ∀ (s : Schedule) (c : Cfg BShared BPc), bMu (run bProg s c) ≤ bMu c := by
        intro s
        induction s with
        | nil => intro c; exact Nat.le_refl _
        | cons j s ih =>
          intro c
          rw [run]
          cases b_dec c j with
          | inl h => rw [h]; exact ih c
          | inr h => exact Nat.le_trans (ih _) (Nat.le_of_lt h)
      refine Nat.le_trans (hle s _) ?_
      simp [bMu, bInit, sum_replicate_weight, bWeight, Nat.mul_comm]
  cases l with
  | done => rfl
  | s1 => exact absurd (hq i) (stepAt_ne_of_local bProg _ i .s1 h (by simp [bProg, bStep]))
  | s2 => exact absurd (hq i) (stepAt_ne_of_local bProg _ i .s2 h (by simp [bProg, bStep]))
  | s3 => exact absurd (hq i) (stepAt_ne_of_local bProg _ i .s3 h (by simp [bProg, bStep]))

theorem bInv_final (n : Nat) (s : Schedule) : BInv (bFinal n s) :=
  inv_run bProg BInv bInv_step _ _ (bInv_init n)



/-! ## Tunnel.Close (repaired): unique owner of the close sequence -/

def tOpen (init : Nat) : TShared := ⟨init, false, true, zeroCounts⟩
def tClosing : TShared := ⟨2, false, true, zeroCounts⟩
/-- Shared state once the close sequence ran for reason `r` (`st` = 2 before, 3 after the final store). -/
def tAfter (cfg : TCfg) (r st : Nat) : TShared := { closeBody cfg tClosing r with state := st }

/-- Per-thread part of the invariant; `o` is the thread currently inside the close sequence. -/
def TThreadOk (init : Nat) (rs : List Nat) (o : Option Nat) (sh : TShared) (i : Nat) (l : TLocal) : Prop :=
  l.reason ∈ rs ∧ ((l.pc = TPc.body ∨ l.pc = TPc.fin) ↔ o = some i) ∧ (l.pc = TPc.cas → l.seen = init) ∧
  l.pc ≠ TPc.storeClosing ∧ (l.pc = TPc.done → 2 ≤ sh.state)

def TInv (cfg : TCfg) (init : Nat) (rs : List Nat) (c : Cfg TShared TLocal) : Prop :=
  ∃ o : Option Nat,
    (∀ (i : Nat) (l : TLocal), c.ths[i]? = some l → TThreadOk init rs o c.sh i l) ∧
    (o = none → c.sh = tOpen init ∨ ∃ r, r ∈ rs ∧ c.sh = tAfter cfg r 3) ∧
    (∀ i, o = some i → ∃ l, c.ths[i]? = some l ∧
        ((l.pc = TPc.body ∧ c.sh = tClosing) ∨ (l.pc = TPc.fin ∧ c.sh = tAfter cfg l.reason 2)))

theorem tInv_init (cfg : TCfg) (init : Nat) (rs : List Nat) : TInv cfg init rs (tInit init rs) := by
  refine ⟨none, ?_, fun _ => Or.inl rfl, fun i h => (by cases h)⟩
  intro i l hl
  simp only [tInit, List.getElem?_map] at hl
  cases hr : rs[i]? with
  | none => simp [hr] at hl
  | some r =>
    simp only [hr, Option.map_some, Option.some.injEq] at hl
    subst hl
    exact ⟨List.mem_of_getElem? hr, by simp, by simp, by simp, by simp⟩

/-- The state of a configuration satisfying the invariant. -/
theorem tInv_state (cfg : TCfg) (init : Nat) (rs : List Nat) (c : Cfg TShared TLocal) (o : Option Nat)
    (h2 : o = none → c.sh = tOpen init ∨ ∃ r, r ∈ rs ∧ c.sh = tAfter cfg r 3)
    (h3 : ∀ i, o = some i → ∃ l, c.ths[i]? = some l ∧
        ((l.pc = TPc.body ∧ c.sh = tClosing) ∨ (l.pc = TPc.fin ∧ c.sh = tAfter cfg l.reason 2))) :
    (o = none ∧ (c.sh.state = init ∨ c.sh.state = 3)) ∨ (o.isSome ∧ c.sh.state = 2) := by
  cases o with
  | none =>
    left
    refine ⟨rfl, ?_⟩
    cases h2 rfl with
    | inl h => left; rw [h]; rfl
    | inr h => obtain ⟨r, _, h⟩ := h; right; rw [h]; rfl
  | some k =>
    right
    obtain ⟨l, _, h⟩ := h3 k rfl
    refine ⟨rfl, ?_⟩
    cases h with
    | inl h => rw [h.2]; rfl
    | inr h => rw [h.2]; rfl

theorem tInv_step (cfg : TCfg) (init : Nat) (hinit : init ≤ 1) (rs : List Nat)
    (c : Cfg TShared TLocal) (i : Nat) (hc : TInv cfg init rs c) :
    TInv cfg init rs (stepAt (tProg .repaired cfg) c i) := by
  apply inv_stepAt_of_local (tProg .repaired cfg) (TInv cfg init rs) c i hc
  intro l hl
  obtain ⟨o, h1, h2, h3⟩ := hc
  have hst := tInv_state cfg init rs c o h2 h3
  obtain ⟨hr, hown, hseen, hnsc, hdone⟩ := h1 i l hl
  have hi : i < c.ths.length := lt_of_getElem? _ _ _ hl
  obtain ⟨pc, reason, seen⟩ := l
  simp only at hr hown hseen hnsc hdone
  cases pc with
  | load =>
    have hno : o ≠ some i := fun h => by have := hown.mpr h; simp at this
    simp only [tProg, tStep]
    split
    · -- already closing / closed
      rename_i hcl
      dsimp only
      refine ⟨o, ?_, h2, ?_⟩
      · intro j x hj
        cases getElem?_set_cases _ _ _ _ _ hj with
        | inl h =>
          obtain ⟨rfl, rfl⟩ := h
          refine ⟨hr, ?_, by simp, by simp, ?_⟩
          · simp; exact hno
          · intro _; show 2 ≤ c.sh.state; omega
        | inr h => exact h1 j x h.2
      · intro k hk
        obtain ⟨l0, hl0, hb⟩ := h3 k hk
        have hki : i ≠ k := fun h => hno (h ▸ hk)
        exact ⟨l0, by rw [List.getElem?_set_ne hki]; exact hl0, hb⟩
    · rename_i hcl
      dsimp only
      have hopen : c.sh.state = init := by
        cases hst with
        | inl h => cases h.2 with
          | inl h => exact h
          | inr h => omega
        | inr h => omega
      refine ⟨o, ?_, h2, ?_⟩
      · intro j x hj
        cases getElem?_set_cases _ _ _ _ _ hj with
        | inl h =>
          obtain ⟨rfl, rfl⟩ := h
          refine ⟨hr, ?_, by simp [hopen], by simp, by simp⟩
          simp; exact hno
        | inr h => exact h1 j x h.2
      · intro k hk
        obtain ⟨l0, hl0, hb⟩ := h3 k hk
        have hki : i ≠ k := fun h => hno (h ▸ hk)
        exact ⟨l0, by rw [List.getElem?_set_ne hki]; exact hl0, hb⟩
  | cas =>
    have hno : o ≠ some i := fun h => by have := hown.mpr h; simp at this
    have hs : seen = init := hseen rfl
    subst hs
    simp only [tProg, tStep]
    split
    · -- CAS succeeds: this thread becomes the owner
      rename_i heq
      dsimp only
      have hon : o = none := by
        cases hst with
        | inl h => exact h.1
        | inr h => omega
      have hsh : c.sh = tOpen seen := by
        cases h2 hon with
        | inl h => exact h
        | inr h => obtain ⟨r, _, h⟩ := h; rw [h] at heq; simp [tAfter] at heq; omega
      refine ⟨some i, ?_, (by intro h; cases h), ?_⟩
      · intro j x hj
        cases getElem?_set_cases _ _ _ _ _ hj with
        | inl h =>
          obtain ⟨rfl, rfl⟩ := h
          exact ⟨hr, by simp, by simp, by simp, by simp⟩
        | inr h =>
          obtain ⟨a, b, c', d, e⟩ := h1 j x h.2
          refine ⟨a, ?_, c', d, ?_⟩
          · rw [hon] at b
            constructor
            · intro hx; exact absurd (b.mp hx) (by simp)
            · intro hx; exact absurd (Option.some.inj hx) h.1
          · intro hx; have := e hx; rw [hsh] at this; simp [tOpen] at this; omega
      · intro k hk
        cases hk
        refine ⟨{ pc := TPc.body, reason := reason, seen := seen }, by simp [List.getElem?_set_self hi], Or.inl ⟨rfl, ?_⟩⟩
        rw [hsh]; rfl
    · -- CAS fails: load again
      dsimp only
      refine ⟨o, ?_, h2, ?_⟩
      · intro j x hj
        cases getElem?_set_cases _ _ _ _ _ hj with
        | inl h =>
          obtain ⟨rfl, rfl⟩ := h
          refine ⟨hr, ?_, by simp, by simp, by simp⟩
          simp; exact hno
        | inr h => exact h1 j x h.2
      · intro k hk
        obtain ⟨l0, hl0, hb⟩ := h3 k hk
        have hki : i ≠ k := fun h => hno (h ▸ hk)
        exact ⟨l0, by rw [List.getElem?_set_ne hki]; exact hl0, hb⟩
  | storeClosing => exact absurd rfl hnsc
  | body =>
    have ho : o = some i := hown.mp (Or.inl rfl)
    obtain ⟨l0, hl0, hb⟩ := h3 i ho
    rw [hl] at hl0
    cases hl0
    have hsh : c.sh = tClosing := by
      cases hb with
      | inl h => exact h.2
      | inr h => simp at h
    simp only [tProg, tStep]
    refine ⟨o, ?_, (by intro h; rw [h] at ho; cases ho), ?_⟩
    · intro j x hj
      cases getElem?_set_cases _ _ _ _ _ hj with
      | inl h =>
        obtain ⟨rfl, rfl⟩ := h
        exact ⟨hr, by simp [ho], by simp, by simp, by simp⟩
      | inr h =>
        obtain ⟨a, b, c', d, e⟩ := h1 j x h.2
        refine ⟨a, b, c', d, ?_⟩
        intro hx; have := e hx; rw [hsh] at this ⊢; simp [closeBody, tClosing] at this ⊢
    · intro k hk
      rw [ho] at hk
      cases hk
      refine ⟨{ pc := TPc.fin, reason := reason, seen := seen }, by simp [List.getElem?_set_self hi], Or.inr ⟨rfl, ?_⟩⟩
      rw [hsh]; rfl
  | fin =>
    have ho : o = some i := hown.mp (Or.inr rfl)
    obtain ⟨l0, hl0, hb⟩ := h3 i ho
    rw [hl] at hl0
    cases hl0
    have hsh : c.sh = tAfter cfg reason 2 := by
      cases hb with
      | inl h => simp at h
      | inr h => exact h.2
    simp only [tProg, tStep]
    refine ⟨none, ?_, ?_, (by intro k hk; cases hk)⟩
    · intro j x hj
      cases getElem?_set_cases _ _ _ _ _ hj with
      | inl h =>
        obtain ⟨rfl, rfl⟩ := h
        exact ⟨hr, by simp, by simp, by simp, by simp⟩
      | inr h =>
        obtain ⟨a, b, c', d, e⟩ := h1 j x h.2
        refine ⟨a, ?_, c', d, by intro _; simp⟩
        rw [ho] at b
        constructor
        · intro hx; exact absurd (Option.some.inj (b.mp hx)) h.1
        · intro hx; cases hx
    · intro _
      right
      exact ⟨reason, hr, by rw [hsh]; rfl⟩
  | done =>
    simp only [tProg, tStep]
    rw [set_self_of_getElem? c.ths i _ hl]
    exact ⟨o, h1, h2, h3⟩


theorem tWeight_mono (sh sh' : TShared) (h : sh'.state ≤ 1 → sh.state ≤ 1) (x : TLocal) :
    tWeight sh' x ≤ tWeight sh x := by
  unfold tWeight
  cases x.pc <;> simp only [] <;> (try split) <;> (try split) <;> omega

theorem t_dec (cfg : TCfg) (init : Nat) (hinit : init ≤ 1) (rs : List Nat)
    (c : Cfg TShared TLocal) (i : Nat) (hc : TInv cfg init rs c) :
    stepAt (tProg .repaired cfg) c i = c ∨
      tMu (stepAt (tProg .repaired cfg) c i) < tMu c := by
  cases hl : c.ths[i]? with
  | none => left; exact stepAt_none _ _ _ hl
  | some l =>
    obtain ⟨o, h1, h2, h3⟩ := hc
    have hst := tInv_state cfg init rs c o h2 h3
    obtain ⟨hr, hown, hseen, hnsc, hdone⟩ := h1 i l hl
    obtain ⟨pc, reason, seen⟩ := l
    simp only at hown hseen hnsc hdone
    have key : ∀ (sh' : TShared) (l' : TLocal),
        (tProg .repaired cfg).step i c.sh ⟨pc, reason, seen⟩ = (sh', l') →
        (sh'.state ≤ 1 → c.sh.state ≤ 1) → tWeight sh' l' < tWeight c.sh ⟨pc, reason, seen⟩ →
        tMu (stepAt (tProg .repaired cfg) c i) < tMu c := by
      intro sh' l' hs hm hw
      rw [stepAt_some _ c i _ hl, hs]
      exact sum_map_set_lt (tWeight c.sh) (tWeight sh') c.ths i _ l' hl (tWeight_mono c.sh sh' hm) hw
    cases pc with
    | done => left; exact stepAt_eq_of_same _ c i _ hl rfl
    | storeClosing => exact absurd rfl hnsc
    | load =>
      right
      by_cases hcl : c.sh.state = 2 ∨ c.sh.state = 3
      · apply key c.sh ⟨.done, reason, c.sh.state⟩ (by simp [tProg, tStep, hcl]) (fun h => h)
        simp only [tWeight]; split <;> omega
      · have hopen : c.sh.state ≤ 1 := by
          cases hst with
          | inl h => cases h.2 with
            | inl h => omega
            | inr h => omega
          | inr h => omega
        apply key c.sh ⟨.cas, reason, c.sh.state⟩ (by simp [tProg, tStep, hcl]) (fun h => h)
        simp only [tWeight, hopen, if_true]; omega
    | cas =>
      right
      have hs : seen = init := hseen rfl
      by_cases heq : c.sh.state = seen
      · apply key { c.sh with state := 2 } ⟨.body, reason, seen⟩ (by simp [tProg, tStep, heq])
          (by intro h; simp at h)
        have : c.sh.state ≤ 1 := by omega
        simp only [tWeight, this, if_true]; omega
      · have hge : 2 ≤ c.sh.state := by
          cases hst with
          | inl h => cases h.2 with
            | inl h => omega
            | inr h => omega
          | inr h => omega
        apply key c.sh ⟨.load, reason, seen⟩ (by simp [tProg, tStep, heq]) (fun h => h)
        have h1 : ¬ c.sh.state ≤ 1 := by omega
        simp only [tWeight, h1, if_false]; omega
    | body =>
      right
      apply key (closeBody cfg c.sh reason) ⟨.fin, reason, seen⟩ (by simp [tProg, tStep])
        (by intro h; exact h)
      simp only [tWeight]; omega
    | fin =>
      right
      apply key { c.sh with state := 3 } ⟨.done, reason, seen⟩ (by simp [tProg, tStep])
        (by intro h; simp at h)
      simp only [tWeight]; omega

theorem tMu_init (init : Nat) (rs : List Nat) : tMu (tInit init rs) ≤ 8 * rs.length := by
  unfold tMu tInit
  simp only [List.map_map]
  induction rs with
  | nil => simp
  | cons r rs ih =>
    simp only [List.map_cons, List.sum_cons, List.length_cons]
    have : tWeight ⟨init, false, true, zeroCounts⟩ ⟨.load, r, 0⟩ ≤ 8 := by
      simp only [tWeight]; split <;> omega
    simp only [Function.comp] at ih ⊢
    omega

/-- **Final state of the repaired `Tunnel.Close`, every schedule**: after any schedule and the
fair drain, the shared state is exactly "the close sequence ran once, for the reason of one
of the callers", and every caller has returned. -/
theorem t_final (cfg : TCfg) (init : Nat) (hinit : init ≤ 1) (rs : List Nat) (hne : rs ≠ [])
    (s : Schedule) :
    (∃ r, r ∈ rs ∧ (tFinal .repaired cfg init rs s).sh = tAfter cfg r 3) ∧
    (∀ (i : Nat) (l : TLocal), (tFinal .repaired cfg init rs s).ths[i]? = some l → l.pc = TPc.done) := by
  have hstep := tInv_step cfg init hinit rs
  have hdec := t_dec cfg init hinit rs
  have hinv : TInv cfg init rs (tFinal .repaired cfg init rs s) :=
    inv_run _ _ hstep _ _ (tInv_init cfg init rs)
  have hq : Quiescent (tProg .repaired cfg) (tFinal .repaired cfg init rs s) := by
    unfold tFinal
    rw [run_append]
    apply rounds_quiescent _ (TInv cfg init rs) tMu rs.length hstep hdec
    · exact inv_run _ _ hstep _ _ (tInv_init cfg init rs)
    · rw [run_length]; simp [tInit]
    · exact Nat.le_trans (mu_run_le _ _ tMu hstep hdec s _ (tInv_init cfg init rs)) (tMu_init init rs)
  have hdone : ∀ (i : Nat) (l : TLocal), (tFinal .repaired cfg init rs s).ths[i]? = some l → l.pc = TPc.done := by
    intro i l hl
    obtain ⟨pc, reason, seen⟩ := l
    cases pc with
    | done => rfl
    | load =>
      refine absurd (hq i) (stepAt_ne_of_local _ _ i _ hl ?_)
      simp only [tProg, tStep]; split <;> simp
    | cas =>
      refine absurd (hq i) (stepAt_ne_of_local _ _ i _ hl ?_)
      simp only [tProg, tStep]; split <;> simp
    | storeClosing => exact absurd (hq i) (stepAt_ne_of_local _ _ i _ hl (by simp [tProg, tStep]))
    | body => exact absurd (hq i) (stepAt_ne_of_local _ _ i _ hl (by simp [tProg, tStep]))
    | fin => exact absurd (hq i) (stepAt_ne_of_local _ _ i _ hl (by simp [tProg, tStep]))
  refine ⟨?_, hdone⟩
  obtain ⟨o, h1, h2, h3⟩ := hinv
  cases o with
  | some k =>
    obtain ⟨l, hl, hb⟩ := h3 k rfl
    have := hdone k l hl
    cases hb with
    | inl h => rw [h.1] at this; cases this
    | inr h => rw [h.1] at this; cases this
  | none =>
    cases h2 rfl with
    | inr h => exact h
    | inl h =>
      -- some caller is done, so the state cannot still be open
      have hlen : 0 < (tFinal .repaired cfg init rs s).ths.length := by
        unfold tFinal; rw [run_length]; simp [tInit]; exact List.length_pos_iff.mpr hne
      have hl : (tFinal .repaired cfg init rs s).ths[0]? = some ((tFinal .repaired cfg init rs s).ths[0]) :=
        List.getElem?_eq_getElem hlen
      obtain ⟨_, _, _, _, e⟩ := h1 0 _ hl
      have := e (hdone 0 _ hl)
      rw [h] at this
      simp [tOpen] at this
      omega

theorem holdsT_after (cfg : TCfg) (rs : List Nat) (r : Nat) (hr : r ∈ rs) (ths : List TLocal) :
    holdsT cfg rs (tObs ⟨tAfter cfg r 3, ths⟩) = true := by
  simp [holdsT, tObs, tAfter, closeBody, tClosing, zeroCounts, hr]

/-- Safety at every moment (no drain): the invariant pins the shared state to one of four shapes. -/
theorem t_shapes (cfg : TCfg) (init : Nat) (rs : List Nat) (c : Cfg TShared TLocal)
    (hc : TInv cfg init rs c) :
    c.sh = tOpen init ∨ c.sh = tClosing ∨ ∃ r, r ∈ rs ∧ (c.sh = tAfter cfg r 2 ∨ c.sh = tAfter cfg r 3) := by
  obtain ⟨o, h1, h2, h3⟩ := hc
  cases o with
  | none =>
    cases h2 rfl with
    | inl h => exact Or.inl h
    | inr h => obtain ⟨r, hr, h⟩ := h; exact Or.inr (Or.inr ⟨r, hr, Or.inr h⟩)
  | some k =>
    obtain ⟨l, hl, hb⟩ := h3 k rfl
    cases hb with
    | inl h => exact Or.inr (Or.inl h.2)
    | inr h => exact Or.inr (Or.inr ⟨l.reason, (h1 k l hl).1, Or.inl h.2⟩)

end Tunnox.C16
