import TunnoxModel.Spec.C16
/-! Helper lemmas for C16: list/`stepAt` plumbing, then one invariant + one termination
measure per component. -/
namespace Tunnox.C16
open Tunnox.Sched

/-! ## plumbing -/

theorem getElem?_set_cases {α} (ths : List α) (i j : Nat) (l' x : α)
    (h : (ths.set i l')[j]? = some x) : (i = j ∧ x = l') ∨ (i ≠ j ∧ ths[j]? = some x) := by
  by_cases hij : i = j
  · subst hij
    rw [List.getElem?_set] at h
    simp only [if_true] at h
    split at h
    · left; exact ⟨rfl, (Option.some.inj h).symm⟩
    · cases h
  · right
    rw [List.getElem?_set_ne hij] at h
    exact ⟨hij, h⟩

theorem lt_of_getElem? {α} (ths : List α) (i : Nat) (l : α) (h : ths[i]? = some l) : i < ths.length := by
  cases hlt : decide (i < ths.length) with
  | true => exact of_decide_eq_true hlt
  | false =>
    have : ths[i]? = none := List.getElem?_eq_none (Nat.le_of_not_lt (of_decide_eq_false hlt))
    rw [this] at h; cases h

theorem set_self_of_getElem? {α} : ∀ (ths : List α) (i : Nat) (l : α), ths[i]? = some l → ths.set i l = ths := by
  intro ths
  induction ths with
  | nil => intro i l h; simp at h
  | cons a t ih =>
    intro i l h
    cases i with
    | zero => simp at h; subst h; rfl
    | succ i => simp at h; simp [ih i l h]

/-- A step that changes the thread's local state is not a stutter. -/
theorem stepAt_ne_of_local {σ π} (p : Prog σ π) (c : Cfg σ π) (i : Nat) (l : π)
    (h : c.ths[i]? = some l) (hne : (p.step i c.sh l).2 ≠ l) : stepAt p c i ≠ c := by
  intro heq
  have h2 := getElem?_stepAt_self p c i l h
  rw [heq, h] at h2
  exact hne (Option.some.inj h2).symm

/-- A step that changes nothing is a stutter. -/
theorem stepAt_eq_of_same {σ π} (p : Prog σ π) (c : Cfg σ π) (i : Nat) (l : π)
    (h : c.ths[i]? = some l) (hs : p.step i c.sh l = (c.sh, l)) : stepAt p c i = c := by
  rw [stepAt_some p c i l h, hs]
  simp [set_self_of_getElem? c.ths i l h]

/-- Measure bookkeeping for weights that do not depend on the shared state. -/
theorem mu_lt_of_weight {σ π} (p : Prog σ π) (w : π → Nat) (c : Cfg σ π) (i : Nat) (l : π)
    (h : c.ths[i]? = some l) (hw : w (p.step i c.sh l).2 < w l) :
    ((stepAt p c i).ths.map w).sum < (c.ths.map w).sum := by
  rw [stepAt_some p c i l h]
  exact sum_map_set_lt w w c.ths i l _ h (fun _ => Nat.le_refl _) hw

theorem mem_replicate_getElem? {α} (n : Nat) (a x : α) (i : Nat)
    (h : (List.replicate n a)[i]? = some x) : x = a := by
  have := List.mem_of_getElem? h
  exact (List.mem_replicate.mp this).2

/-! ## Bridge.Close -/

structure BInv (c : Cfg BShared BPc) : Prop where
  sc : c.sh.sc + b2n c.sh.srcFwd + b2n c.sh.srcConn = 2
  tc : c.sh.tc + b2n c.sh.tgtFwd + b2n c.sh.tgtConn = 2
  stc : c.sh.stc + b2n c.sh.srcTC = 1
  ttc : c.sh.ttc + b2n c.sh.tgtTC = 1
  cl : c.sh.cleanups + b2n (!c.sh.closed) = 1
  done : ∀ i : Nat, c.ths[i]? = some BPc.done →
    c.sh.srcFwd = false ∧ c.sh.srcConn = false ∧ c.sh.tgtFwd = false ∧ c.sh.tgtConn = false ∧
    c.sh.srcTC = false ∧ c.sh.tgtTC = false ∧ c.sh.closed = true
  s2 : ∀ (i : Nat) (l : BPc), c.ths[i]? = some l → l ≠ BPc.s1 → c.sh.srcFwd = false
  s3 : ∀ (i : Nat) (l : BPc), c.ths[i]? = some l → l = BPc.s3 →
    c.sh.srcConn = false ∧ c.sh.tgtFwd = false ∧ c.sh.tgtConn = false ∧ c.sh.srcTC = false ∧ c.sh.tgtTC = false

theorem bInv_init (n : Nat) : BInv (bInit n) := by
  refine ⟨by simp [bInit, b2n], by simp [bInit, b2n], by simp [bInit, b2n], by simp [bInit, b2n], by simp [bInit, b2n], ?_, ?_, ?_⟩
  · intro i h; have := mem_replicate_getElem? _ _ _ _ h; cases this
  · intro i l h hne; exact absurd (mem_replicate_getElem? _ _ _ _ h) hne
  · intro i l h hl; have := mem_replicate_getElem? _ _ _ _ h; subst hl; cases this

theorem bInv_step (c : Cfg BShared BPc) (i : Nat) (hc : BInv c) : BInv (stepAt bProg c i) := by
  apply inv_stepAt_of_local bProg BInv c i hc
  intro l hl
  obtain ⟨sh, ths⟩ := c
  obtain ⟨srcFwd, tgtFwd, srcTC, tgtTC, srcConn, tgtConn, sc, tc, stc, ttc, closed, cleanups⟩ := sh
  obtain ⟨h1, h2, h3, h4, h5, hd, hs2, hs3⟩ := hc
  simp only at hl h1 h2 h3 h4 h5 hd hs2 hs3
  cases l with
  | s1 =>
    simp only [bProg, bStep]
    refine ⟨?_, h2, h3, h4, h5, ?_, ?_, ?_⟩
    · cases srcFwd <;> cases srcConn <;> simp_all [b2n]
    · intro j hj
      cases getElem?_set_cases _ _ _ _ _ hj with
      | inl h => cases h.2
      | inr h => have := hd j h.2; simp_all
    · intro j x hj hne; rfl
    · intro j x hj hx
      cases getElem?_set_cases _ _ _ _ _ hj with
      | inl h => subst hx; cases h.2
      | inr h => exact hs3 j x h.2 hx
  | s2 =>
    have hf := hs2 i .s2 hl (by decide)
    simp only [bProg, bStep]
    refine ⟨?_, ?_, ?_, ?_, h5, ?_, ?_, ?_⟩
    · cases srcFwd <;> cases srcConn <;> simp_all [b2n]
    · cases tgtFwd <;> cases tgtConn <;> simp_all [b2n] <;> omega
    · cases srcTC <;> simp_all [b2n]
    · cases tgtTC <;> simp_all [b2n]
    · intro j hj
      cases getElem?_set_cases _ _ _ _ _ hj with
      | inl h => cases h.2
      | inr h => have := hd j h.2; simp_all
    · intro j x hj hne; exact hf
    · intro j x hj hx; simp
  | s3 =>
    have hf := hs2 i .s3 hl (by decide)
    have hg := hs3 i .s3 hl rfl
    simp only [bProg, bStep]
    refine ⟨h1, h2, h3, h4, ?_, ?_, ?_, ?_⟩
    · cases closed <;> simp_all [b2n]
    · intro j hj; simp_all
    · intro j x hj hne; exact hf
    · intro j x hj hx; exact hg
  | done =>
    simp only [bProg, bStep]
    rw [set_self_of_getElem? ths i .done hl]
    exact ⟨h1, h2, h3, h4, h5, hd, hs2, hs3⟩

theorem b_dec (c : Cfg BShared BPc) (i : Nat) :
    stepAt bProg c i = c ∨ bMu (stepAt bProg c i) < bMu c := by
  cases hl : c.ths[i]? with
  | none => left; exact stepAt_none _ _ _ hl
  | some l =>
    cases l with
    | done => left; exact stepAt_eq_of_same bProg c i .done hl rfl
    | s1 => right; exact mu_lt_of_weight bProg bWeight c i .s1 hl (by simp [bProg, bStep, bWeight])
    | s2 => right; exact mu_lt_of_weight bProg bWeight c i .s2 hl (by simp [bProg, bStep, bWeight])
    | s3 => right; exact mu_lt_of_weight bProg bWeight c i .s3 hl (by simp [bProg, bStep, bWeight])

theorem sum_replicate_weight {π} (w : π → Nat) (n : Nat) (a : π) :
    ((List.replicate n a).map w).sum = n * w a := by
  induction n with
  | zero => simp
  | succ n ih => simp [List.replicate_succ, ih, Nat.succ_mul, Nat.add_comm]

/-- After the drain every closer is done. -/
theorem b_all_done (n : Nat) (s : Schedule) (i : Nat) (l : BPc)
    (h : (bFinal n s).ths[i]? = some l) : l = .done := by
  have hq : Quiescent bProg (bFinal n s) := by
    unfold bFinal
    rw [run_append]
    apply rounds_quiescent bProg (fun _ => True) bMu n (fun _ _ _ => trivial) (fun c i _ => b_dec c i)
    · trivial
    · rw [run_length]; simp [bInit]
    · have hle : ∀ (s : Schedule) (c : Cfg BShared BPc), bMu (run bProg s c) ≤ bMu c := by
        intro s
        induction s with
        | nil => intro c; exact Nat.le_refl _
        | cons j s ih =>
          intro c
          rw [run]
          cases b_dec c j with
          | inl h => rw [h]; exact ih c
          | inr h => exact Nat.le_trans (ih _) (Nat.le_of_lt h)
      refine Nat.le_trans (hle s _) ?_
      simp [bMu, bInit, sum_replicate_weight, bWeight, Nat.mul_comm]
  cases l with
  | done => rfl
  | s1 => exact absurd (hq i) (stepAt_ne_of_local bProg _ i .s1 h (by simp [bProg, bStep]))
  | s2 => exact absurd (hq i) (stepAt_ne_of_local bProg _ i .s2 h (by simp [bProg, bStep]))
  | s3 => exact absurd (hq i) (stepAt_ne_of_local bProg _ i .s3 h (by simp [bProg, bStep]))

theorem bInv_final (n : Nat) (s : Schedule) : BInv (bFinal n s) :=
  inv_run bProg BInv bInv_step _ _ (bInv_init n)



/-! ## Tunnel.Close (repaired): unique owner of the close sequence -/

def tOpen (init : Nat) : TShared := ⟨init, false, true, zeroCounts⟩
def tClosing : TShared := ⟨2, false, true, zeroCounts⟩
/-- Shared state once the close sequence ran for reason `r` (`st` = 2 before, 3 after the final store). -/
def tAfter (cfg : TCfg) (r st : Nat) : TShared := { closeBody cfg tClosing r with state := st }

/-- Per-thread part of the invariant; `o` is the thread currently inside the close sequence. -/
def TThreadOk (init : Nat) (rs : List Nat) (o : Option Nat) (sh : TShared) (i : Nat) (l : TLocal) : Prop :=
  l.reason ∈ rs ∧ ((l.pc = TPc.body ∨ l.pc = TPc.fin) ↔ o = some i) ∧ (l.pc = TPc.cas → l.seen = init) ∧
  l.pc ≠ TPc.storeClosing ∧ (l.pc = TPc.done → 2 ≤ sh.state)

def TInv (cfg : TCfg) (init : Nat) (rs : List Nat) (c : Cfg TShared TLocal) : Prop :=
  ∃ o : Option Nat,
    (∀ (i : Nat) (l : TLocal), c.ths[i]? = some l → TThreadOk init rs o c.sh i l) ∧
    (o = none → c.sh = tOpen init ∨ ∃ r, r ∈ rs ∧ c.sh = tAfter cfg r 3) ∧
    (∀ i, o = some i → ∃ l, c.ths[i]? = some l ∧
        ((l.pc = TPc.body ∧ c.sh = tClosing) ∨ (l.pc = TPc.fin ∧ c.sh = tAfter cfg l.reason 2)))

theorem tInv_init (cfg : TCfg) (init : Nat) (rs : List Nat) : TInv cfg init rs (tInit init rs) := by
  refine ⟨none, ?_, fun _ => Or.inl rfl, fun i h => (by cases h)⟩
  intro i l hl
  simp only [tInit, List.getElem?_map] at hl
  cases hr : rs[i]? with
  | none => simp [hr] at hl
  | some r =>
    simp only [hr, Option.map_some, Option.some.injEq] at hl
    subst hl
    exact ⟨List.mem_of_getElem? hr, by simp, by simp, by simp, by simp⟩

/-- The state of a configuration satisfying the invariant. -/
theorem tInv_state (cfg : TCfg) (init : Nat) (rs : List Nat) (c : Cfg TShared TLocal) (o : Option Nat)
    (h2 : o = none → c.sh = tOpen init ∨ ∃ r, r ∈ rs ∧ c.sh = tAfter cfg r 3)
    (h3 : ∀ i, o = some i → ∃ l, c.ths[i]? = some l ∧
        ((l.pc = TPc.body ∧ c.sh = tClosing) ∨ (l.pc = TPc.fin ∧ c.sh = tAfter cfg l.reason 2))) :
    (o = none ∧ (c.sh.state = init ∨ c.sh.state = 3)) ∨ (o.isSome ∧ c.sh.state = 2) := by
  cases o with
  | none =>
    left
    refine ⟨rfl, ?_⟩
    cases h2 rfl with
    | inl h => left; rw [h]; rfl
    | inr h => obtain ⟨r, _, h⟩ := h; right; rw [h]; rfl
  | some k =>
    right
    obtain ⟨l, _, h⟩ := h3 k rfl
    refine ⟨rfl, ?_⟩
    cases h with
    | inl h => rw [h.2]; rfl
    | inr h => rw [h.2]; rfl

theorem tInv_step (cfg : TCfg) (init : Nat) (hinit : init ≤ 1) (rs : List Nat)
    (c : Cfg TShared TLocal) (i : Nat) (hc : TInv cfg init rs c) :
    TInv cfg init rs (stepAt (tProg .repaired cfg) c i) := by
  apply inv_stepAt_of_local (tProg .repaired cfg) (TInv cfg init rs) c i hc
  intro l hl
  obtain ⟨o, h1, h2, h3⟩ := hc
  have hst := tInv_state cfg init rs c o h2 h3
  obtain ⟨hr, hown, hseen, hnsc, hdone⟩ := h1 i l hl
  have hi : i < c.ths.length := lt_of_getElem? _ _ _ hl
  obtain ⟨pc, reason, seen⟩ := l
  simp only at hr hown hseen hnsc hdone
  cases pc with
  | load =>
    have hno : o ≠ some i := fun h => by have := hown.mpr h; simp at this
    simp only [tProg, tStep]
    split
    · -- already closing / closed
      rename_i hcl
      dsimp only
      refine ⟨o, ?_, h2, ?_⟩
      · intro j x hj
        cases getElem?_set_cases _ _ _ _ _ hj with
        | inl h =>
          obtain ⟨rfl, rfl⟩ := h
          refine ⟨hr, ?_, by simp, by simp, ?_⟩
          · simp; exact hno
          · intro _; show 2 ≤ c.sh.state; omega
        | inr h => exact h1 j x h.2
      · intro k hk
        obtain ⟨l0, hl0, hb⟩ := h3 k hk
        have hki : i ≠ k := fun h => hno (h ▸ hk)
        exact ⟨l0, by rw [List.getElem?_set_ne hki]; exact hl0, hb⟩
    · rename_i hcl
      dsimp only
      have hopen : c.sh.state = init := by
        cases hst with
        | inl h => cases h.2 with
          | inl h => exact h
          | inr h => omega
        | inr h => omega
      refine ⟨o, ?_, h2, ?_⟩
      · intro j x hj
        cases getElem?_set_cases _ _ _ _ _ hj with
        | inl h =>
          obtain ⟨rfl, rfl⟩ := h
          refine ⟨hr, ?_, by simp [hopen], by simp, by simp⟩
          simp; exact hno
        | inr h => exact h1 j x h.2
      · intro k hk
        obtain ⟨l0, hl0, hb⟩ := h3 k hk
        have hki : i ≠ k := fun h => hno (h ▸ hk)
        exact ⟨l0, by rw [List.getElem?_set_ne hki]; exact hl0, hb⟩
  | cas =>
    have hno : o ≠ some i := fun h => by have := hown.mpr h; simp at this
    have hs : seen = init := hseen rfl
    subst hs
    simp only [tProg, tStep]
    split
    · -- CAS succeeds: this thread becomes the owner
      rename_i heq
      dsimp only
      have hon : o = none := by
        cases hst with
        | inl h => exact h.1
        | inr h => omega
      have hsh : c.sh = tOpen seen := by
        cases h2 hon with
        | inl h => exact h
        | inr h => obtain ⟨r, _, h⟩ := h; rw [h] at heq; simp [tAfter] at heq; omega
      refine ⟨some i, ?_, (by intro h; cases h), ?_⟩
      · intro j x hj
        cases getElem?_set_cases _ _ _ _ _ hj with
        | inl h =>
          obtain ⟨rfl, rfl⟩ := h
          exact ⟨hr, by simp, by simp, by simp, by simp⟩
        | inr h =>
          obtain ⟨a, b, c', d, e⟩ := h1 j x h.2
          refine ⟨a, ?_, c', d, ?_⟩
          · rw [hon] at b
            constructor
            · intro hx; exact absurd (b.mp hx) (by simp)
            · intro hx; exact absurd (Option.some.inj hx) h.1
          · intro hx; have := e hx; rw [hsh] at this; simp [tOpen] at this; omega
      · intro k hk
        cases hk
        refine ⟨{ pc := TPc.body, reason := reason, seen := seen }, by simp [List.getElem?_set_self hi], Or.inl ⟨rfl, ?_⟩⟩
        rw [hsh]; rfl
    · -- CAS fails: load again
      dsimp only
      refine ⟨o, ?_, h2, ?_⟩
      · intro j x hj
        cases getElem?_set_cases _ _ _ _ _ hj with
        | inl h =>
          obtain ⟨rfl, rfl⟩ := h
          refine ⟨hr, ?_, by simp, by simp, by simp⟩
          simp; exact hno
        | inr h => exact h1 j x h.2
      · intro k hk
        obtain ⟨l0, hl0, hb⟩ := h3 k hk
        have hki : i ≠ k := fun h => hno (h ▸ hk)
        exact ⟨l0, by rw [List.getElem?_set_ne hki]; exact hl0, hb⟩
  | storeClosing => exact absurd rfl hnsc
  | body =>
    have ho : o = some i := hown.mp (Or.inl rfl)
    obtain ⟨l0, hl0, hb⟩ := h3 i ho
    rw [hl] at hl0
    cases hl0
    have hsh : c.sh = tClosing := by
      cases hb with
      | inl h => exact h.2
      | inr h => simp at h
    simp only [tProg, tStep]
    refine ⟨o, ?_, (by intro h; rw [h] at ho; cases ho), ?_⟩
    · intro j x hj
      cases getElem?_set_cases _ _ _ _ _ hj with
      | inl h =>
        obtain ⟨rfl, rfl⟩ := h
        exact ⟨hr, by simp [ho], by simp, by simp, by simp⟩
      | inr h =>
        obtain ⟨a, b, c', d, e⟩ := h1 j x h.2
        refine ⟨a, b, c', d, ?_⟩
        intro hx; have := e hx; rw [hsh] at this ⊢; simp [closeBody, tClosing] at this ⊢
    · intro k hk
      rw [ho] at hk
      cases hk
      refine ⟨{ pc := TPc.fin, reason := reason, seen := seen }, by simp [List.getElem?_set_self hi], Or.inr ⟨rfl, ?_⟩⟩
      rw [hsh]; rfl
  | fin =>
    have ho : o = some i := hown.mp (Or.inr rfl)
    obtain ⟨l0, hl0, hb⟩ := h3 i ho
    rw [hl] at hl0
    cases hl0
    have hsh : c.sh = tAfter cfg reason 2 := by
      cases hb with
      | inl h => simp at h
      | inr h => exact h.2
    simp only [tProg, tStep]
    refine ⟨none, ?_, ?_, (by intro k hk; cases hk)⟩
    · intro j x hj
      cases getElem?_set_cases _ _ _ _ _ hj with
      | inl h =>
        obtain ⟨rfl, rfl⟩ := h
        exact ⟨hr, by simp, by simp, by simp, by simp⟩
      | inr h =>
        obtain ⟨a, b, c', d, e⟩ := h1 j x h.2
        refine ⟨a, ?_, c', d, by intro _; simp⟩
        rw [ho] at b
        constructor
        · intro hx; exact absurd (Option.some.inj (b.mp hx)) h.1
        · intro hx; cases hx
    · intro _
      right
      exact ⟨reason, hr, by rw [hsh]; rfl⟩
  | done =>
    simp only [tProg, tStep]
    rw [set_self_of_getElem? c.ths i _ hl]
    exact ⟨o, h1, h2, h3⟩


theorem tWeight_mono (sh sh' : TShared) (h : sh'.state ≤ 1 → sh.state ≤ 1) (x : TLocal) :
    tWeight sh' x ≤ tWeight sh x := by
  unfold tWeight
  cases x.pc <;> simp only [] <;> (try split) <;> (try split) <;> omega

theorem t_dec (cfg : TCfg) (init : Nat) (hinit : init ≤ 1) (rs : List Nat)
    (c : Cfg TShared TLocal) (i : Nat) (hc : TInv cfg init rs c) :
    stepAt (tProg .repaired cfg) c i = c ∨
      tMu (stepAt (tProg .repaired cfg) c i) < tMu c := by
  cases hl : c.ths[i]? with
  | none => left; exact stepAt_none _ _ _ hl
  | some l =>
    obtain ⟨o, h1, h2, h3⟩ := hc
    have hst := tInv_state cfg init rs c o h2 h3
    obtain ⟨hr, hown, hseen, hnsc, hdone⟩ := h1 i l hl
    obtain ⟨pc, reason, seen⟩ := l
    simp only at hown hseen hnsc hdone
    have key : ∀ (sh' : TShared) (l' : TLocal),
        (tProg .repaired cfg).step i c.sh ⟨pc, reason, seen⟩ = (sh', l') →
        (sh'.state ≤ 1 → c.sh.state ≤ 1) → tWeight sh' l' < tWeight c.sh ⟨pc, reason, seen⟩ →
        tMu (stepAt (tProg .repaired cfg) c i) < tMu c := by
      intro sh' l' hs hm hw
      rw [stepAt_some _ c i _ hl, hs]
      exact sum_map_set_lt (tWeight c.sh) (tWeight sh') c.ths i _ l' hl (tWeight_mono c.sh sh' hm) hw
    cases pc with
    | done => left; exact stepAt_eq_of_same _ c i _ hl rfl
    | storeClosing => exact absurd rfl hnsc
    | load =>
      right
      by_cases hcl : c.sh.state = 2 ∨ c.sh.state = 3
      · apply key c.sh ⟨.done, reason, c.sh.state⟩ (by simp [tProg, tStep, hcl]) (fun h => h)
        simp only [tWeight]; split <;> omega
      · have hopen : c.sh.state ≤ 1 := by
          cases hst with
          | inl h => cases h.2 with
            | inl h => omega
            | inr h => omega
          | inr h => omega
        apply key c.sh ⟨.cas, reason, c.sh.state⟩ (by simp [tProg, tStep, hcl]) (fun h => h)
        simp only [tWeight, hopen, if_true]; omega
    | cas =>
      right
      have hs : seen = init := hseen rfl
      by_cases heq : c.sh.state = seen
      · apply key { c.sh with state := 2 } ⟨.body, reason, seen⟩ (by simp [tProg, tStep, heq])
          (by intro h; simp at h)
        have : c.sh.state ≤ 1 := by omega
        simp only [tWeight, this, if_true]; omega
      · have hge : 2 ≤ c.sh.state := by
          cases hst with
          | inl h => cases h.2 with
            | inl h => omega
            | inr h => omega
          | inr h => omega
        apply key c.sh ⟨.load, reason, seen⟩ (by simp [tProg, tStep, heq]) (fun h => h)
        have h1 : ¬ c.sh.state ≤ 1 := by omega
        simp only [tWeight, h1, if_false]; omega
    | body =>
      right
      apply key (closeBody cfg c.sh reason) ⟨.fin, reason, seen⟩ (by simp [tProg, tStep])
        (by intro h; exact h)
      simp only [tWeight]; omega
    | fin =>
      right
      apply key { c.sh with state := 3 } ⟨.done, reason, seen⟩ (by simp [tProg, tStep])
        (by intro h; simp at h)
      simp only [tWeight]; omega

theorem tMu_init (init : Nat) (rs : List Nat) : tMu (tInit init rs) ≤ 8 * rs.length := by
  unfold tMu tInit
  simp only [List.map_map]
  induction rs with
  | nil => simp
  | cons r rs ih =>
    simp only [List.map_cons, List.sum_cons, List.length_cons]
    have : tWeight ⟨init, false, true, zeroCounts⟩ ⟨.load, r, 0⟩ ≤ 8 := by
      simp only [tWeight]; split <;> omega
    simp only [Function.comp] at ih ⊢
    omega

/-- **Final state of the repaired `Tunnel.Close`, every schedule**: after any schedule and the
fair drain, the shared state is exactly "the close sequence ran once, for the reason of one
of the callers", and every caller has returned. -/
theorem t_final (cfg : TCfg) (init : Nat) (hinit : init ≤ 1) (rs : List Nat) (hne : rs ≠ [])
    (s : Schedule) :
    (∃ r, r ∈ rs ∧ (tFinal .repaired cfg init rs s).sh = tAfter cfg r 3) ∧
    (∀ (i : Nat) (l : TLocal), (tFinal .repaired cfg init rs s).ths[i]? = some l → l.pc = TPc.done) := by
  have hstep := tInv_step cfg init hinit rs
  have hdec := t_dec cfg init hinit rs
  have hinv : TInv cfg init rs (tFinal .repaired cfg init rs s) :=
    inv_run _ _ hstep _ _ (tInv_init cfg init rs)
  have hq : Quiescent (tProg .repaired cfg) (tFinal .repaired cfg init rs s) := by
    unfold tFinal
    rw [run_append]
    apply rounds_quiescent _ (TInv cfg init rs) tMu rs.length hstep hdec
    · exact inv_run _ _ hstep _ _ (tInv_init cfg init rs)
    · rw [run_length]; simp [tInit]
    · exact Nat.le_trans (mu_run_le _ _ tMu hstep hdec s _ (tInv_init cfg init rs)) (tMu_init init rs)
  have hdone : ∀ (i : Nat) (l : TLocal), (tFinal .repaired cfg init rs s).ths[i]? = some l → l.pc = TPc.done := by
    intro i l hl
    obtain ⟨pc, reason, seen⟩ := l
    cases pc with
    | done => rfl
    | load =>
      refine absurd (hq i) (stepAt_ne_of_local _ _ i _ hl ?_)
      simp only [tProg, tStep]; split <;> simp
    | cas =>
      refine absurd (hq i) (stepAt_ne_of_local _ _ i _ hl ?_)
      simp only [tProg, tStep]; split <;> simp
    | storeClosing => exact absurd (hq i) (stepAt_ne_of_local _ _ i _ hl (by simp [tProg, tStep]))
    | body => exact absurd (hq i) (stepAt_ne_of_local _ _ i _ hl (by simp [tProg, tStep]))
    | fin => exact absurd (hq i) (stepAt_ne_of_local _ _ i _ hl (by simp [tProg, tStep]))
  refine ⟨?_, hdone⟩
  obtain ⟨o, h1, h2, h3⟩ := hinv
  cases o with
  | some k =>
    obtain ⟨l, hl, hb⟩ := h3 k rfl
    have := hdone k l hl
    cases hb with
    | inl h => rw [h.1] at this; cases this
    | inr h => rw [h.1] at this; cases this
  | none =>
    cases h2 rfl with
    | inr h => exact h
    | inl h =>
      -- some caller is done, so the state cannot still be open
      have hlen : 0 < (tFinal .repaired cfg init rs s).ths.length := by
        unfold tFinal; rw [run_length]; simp [tInit]; exact List.length_pos_iff.mpr hne
      have hl : (tFinal .repaired cfg init rs s).ths[0]? = some ((tFinal .repaired cfg init rs s).ths[0]) :=
        List.getElem?_eq_getElem hlen
      obtain ⟨_, _, _, _, e⟩ := h1 0 _ hl
      have := e (hdone 0 _ hl)
      rw [h] at this
      simp [tOpen] at this
      omega

theorem holdsT_after (cfg : TCfg) (rs : List Nat) (r : Nat) (hr : r ∈ rs) (ths : List TLocal) :
    holdsT cfg rs (tObs ⟨tAfter cfg r 3, ths⟩) = true := by
  simp [holdsT, tObs, tAfter, closeBody, tClosing, zeroCounts, hr]

/-- Safety at every moment (no drain): the invariant pins the shared state to one of four shapes. -/
theorem t_shapes (cfg : TCfg) (init : Nat) (rs : List Nat) (c : Cfg TShared TLocal)
    (hc : TInv cfg init rs c) :
    c.sh = tOpen init ∨ c.sh = tClosing ∨ ∃ r, r ∈ rs ∧ (c.sh = tAfter cfg r 2 ∨ c.sh = tAfter cfg r 3) := by
  obtain ⟨o, h1, h2, h3⟩ := hc
  cases o with
  | none =>
    cases h2 rfl with
    | inl h => exact Or.inl h
    | inr h => obtain ⟨r, hr, h⟩ := h; exact Or.inr (Or.inr ⟨r, hr, Or.inr h⟩)
  | some k =>
    obtain ⟨l, hl, hb⟩ := h3 k rfl
    cases hb with
    | inl h => exact Or.inr (Or.inl h.2)
    | inr h => exact Or.inr (Or.inr ⟨l.reason, (h1 k l hl).1, Or.inl h.2⟩)


/-! ## reportTrafficStats (repaired): the report lock makes load–get–update–store one transaction -/

def RThreadOk (sh : RShared) (i : Nat) (l : RLocal) : Prop :=
  ((l.pc = RPc.get ∨ l.pc = RPc.upd) ↔ sh.lock = some i) ∧
  ((l.pc = RPc.get ∨ l.pc = RPc.upd) →
    l.curS = sh.sent ∧ l.curR = sh.recv ∧ l.dS = sh.sent - sh.lastS ∧ l.dR = sh.recv - sh.lastR) ∧
  (l.pc = RPc.upd → l.mS = sh.statS ∧ l.mR = sh.statR) ∧
  (l.pc = RPc.done → l.failG = false → l.failU = false → sh.lastS = sh.sent ∧ sh.lastR = sh.recv)

/-- What holds of the shared state between rounds and at every step. -/
structure RGlobal (sh : RShared) : Prop where
  statS : sh.statS = sh.lastS
  statR : sh.statR = sh.lastR
  leS : sh.lastS ≤ sh.sent
  leR : sh.lastR ≤ sh.recv

structure RInv (S R : Nat) (fg fu : List Nat) (c : Cfg RShared RLocal) : Prop where
  th : ∀ (i : Nat) (l : RLocal), c.ths[i]? = some l → RThreadOk c.sh i l
  fl : ∀ (i : Nat) (l : RLocal), c.ths[i]? = some l → l.failG = fg.contains i ∧ l.failU = fu.contains i
  own : ∀ i : Nat, c.sh.lock = some i → ∃ l, c.ths[i]? = some l
  sent : c.sh.sent = S ∧ c.sh.recv = R
  gl : RGlobal c.sh

theorem rStart_getElem? (sh : RShared) (r : Round) (i : Nat) (l : RLocal)
    (h : (rStart sh r).ths[i]? = some l) : l = rThread r i := by
  simp only [rStart, List.getElem?_map] at h
  cases hr : (List.range r.n)[i]? with
  | none => simp [hr] at h
  | some k =>
    simp only [hr, Option.map_some, Option.some.injEq] at h
    have hk := List.getElem?_eq_some_iff.mp hr
    obtain ⟨hlt, hk⟩ := hk
    simp at hk
    subst hk
    exact h.symm

theorem rInv_start (sh : RShared) (r : Round) (hg : RGlobal sh) (hl : sh.lock = none) :
    RInv (sh.sent + r.addS) (sh.recv + r.addR) r.failGet r.failUpd (rStart sh r) := by
  refine ⟨?_, ?_, ?_, ⟨rfl, rfl⟩, ?_⟩
  · intro i l h
    have := rStart_getElem? sh r i l h
    subst this
    simp [RThreadOk, rThread, rNew, rStart, hl]
  · intro i l h
    have := rStart_getElem? sh r i l h
    subst this
    simp [rThread]
  · intro i h; simp [rStart, hl] at h
  · obtain ⟨a, b, c, d⟩ := hg
    exact ⟨a, b, by simp [rStart]; omega, by simp [rStart]; omega⟩

theorem rInv_step (S R : Nat) (fg fu : List Nat) (c : Cfg RShared RLocal) (i : Nat) (hc : RInv S R fg fu c) :
    RInv S R fg fu (stepAt (rProg .repaired) c i) := by
  apply inv_stepAt_of_local (rProg .repaired) (RInv S R fg fu) c i hc
  intro l hl
  obtain ⟨hth, hfl, hown, hsent, ⟨g1, g2, g3, g4⟩⟩ := hc
  obtain ⟨t1, t2, t3, t4⟩ := hth i l hl
  have hflag := hfl i l hl
  have hi : i < c.ths.length := lt_of_getElem? _ _ _ hl
  obtain ⟨pc, curS, curR, dS, dR, mS, mR, failG, failU⟩ := l
  simp only at t1 t2 t3 t4 hflag
  -- flags never change
  have flags : ∀ (l' : RLocal), l'.failG = failG → l'.failU = failU →
      ∀ (j : Nat) (x : RLocal), (c.ths.set i l')[j]? = some x → x.failG = fg.contains j ∧ x.failU = fu.contains j := by
    intro l' e1 e2 j x hj
    cases getElem?_set_cases _ _ _ _ _ hj with
    | inl h => obtain ⟨rfl, rfl⟩ := h; rw [e1, e2]; exact hflag
    | inr h => exact hfl j x h.2
  -- releasing the lock without touching the counters (a storage call failed)
  have release : c.sh.lock = some i → (pc = RPc.get ∨ pc = RPc.upd) → (failG = true ∨ failU = true) →
      RInv S R fg fu ⟨{ c.sh with lock := none }, c.ths.set i ⟨RPc.done, curS, curR, dS, dR, mS, mR, failG, failU⟩⟩ := by
    intro ho hp hf
    refine ⟨?_, flags _ rfl rfl, (fun k hk => by cases hk), hsent, ⟨g1, g2, g3, g4⟩⟩
    intro j x hj
    cases getElem?_set_cases _ _ _ _ _ hj with
    | inl h =>
      obtain ⟨rfl, rfl⟩ := h
      refine ⟨by simp, by simp, by simp, ?_⟩
      intro _ e1 e2
      simp only at e1 e2
      rcases hf with h | h
      · rw [h] at e1; cases e1
      · rw [h] at e2; cases e2
    | inr h =>
      obtain ⟨a, b, c', d⟩ := hth j x h.2
      rw [ho] at a
      have hfx : ¬ (x.pc = RPc.get ∨ x.pc = RPc.upd) := fun hx => h.1 (Option.some.inj (a.mp hx))
      refine ⟨?_, fun hx => absurd hx hfx, fun hx => absurd (Or.inr hx) hfx, d⟩
      constructor
      · intro hx; exact absurd hx hfx
      · intro hx; cases hx
  cases pc with
  | start =>
    have hno : c.sh.lock ≠ some i := fun h => by have := t1.mpr h; simp at this
    simp only [rProg, rStep]
    split
    · -- waits for the lock
      dsimp only
      rw [set_self_of_getElem? c.ths i _ hl]
      exact ⟨hth, hfl, hown, hsent, ⟨g1, g2, g3, g4⟩⟩
    · rename_i hfree
      have hnone : c.sh.lock = none := by
        cases hlk : c.sh.lock with
        | none => rfl
        | some k => exact absurd ⟨trivial, by simp [hlk]⟩ hfree
      split
      · -- nothing to report
        rename_i hz
        dsimp only
        refine ⟨?_, flags _ rfl rfl, ?_, hsent, ⟨g1, g2, g3, g4⟩⟩
        · intro j x hj
          cases getElem?_set_cases _ _ _ _ _ hj with
          | inl h =>
            obtain ⟨rfl, rfl⟩ := h
            refine ⟨by simp [hnone], by simp, by simp, ?_⟩
            intro _ _ _
            show c.sh.lastS = c.sh.sent ∧ c.sh.lastR = c.sh.recv
            constructor <;> omega
          | inr h => exact hth j x h.2
        · intro k hk; rw [hnone] at hk; cases hk
      · dsimp only
        refine ⟨?_, flags _ rfl rfl, ?_, hsent, ⟨g1, g2, g3, g4⟩⟩
        · intro j x hj
          cases getElem?_set_cases _ _ _ _ _ hj with
          | inl h =>
            obtain ⟨rfl, rfl⟩ := h
            exact ⟨by simp, by simp, by simp, by simp⟩
          | inr h =>
            obtain ⟨a, b, c', d⟩ := hth j x h.2
            rw [hnone] at a
            have hf : ¬ (x.pc = RPc.get ∨ x.pc = RPc.upd) := fun hx => by have := a.mp hx; cases this
            refine ⟨?_, fun hx => absurd hx hf, fun hx => absurd (Or.inr hx) hf, d⟩
            constructor
            · intro hx; exact absurd hx hf
            · intro hx; simp at hx; exact absurd hx h.1
        · intro k hk
          simp at hk
          subst hk
          exact ⟨_, List.getElem?_set_self hi⟩
  | get =>
    have ho : c.sh.lock = some i := t1.mp (Or.inl rfl)
    simp only [rProg, rStep]
    cases hfg : failG with
    | true =>
      simp only [if_true]
      subst hfg
      exact release ho (Or.inl rfl) (Or.inl rfl)
    | false =>
      simp only [Bool.false_eq_true, if_false]
      subst hfg
      refine ⟨?_, flags _ rfl rfl, ?_, hsent, ⟨g1, g2, g3, g4⟩⟩
      · intro j x hj
        cases getElem?_set_cases _ _ _ _ _ hj with
        | inl h =>
          obtain ⟨rfl, rfl⟩ := h
          exact ⟨by simp [ho], by intro _; exact t2 (Or.inl rfl), by simp, by simp⟩
        | inr h => exact hth j x h.2
      · intro k hk
        obtain ⟨l0, hl0⟩ := hown k hk
        by_cases hki : i = k
        · subst hki; exact ⟨_, List.getElem?_set_self hi⟩
        · exact ⟨l0, by rw [List.getElem?_set_ne hki]; exact hl0⟩
  | upd =>
    have ho : c.sh.lock = some i := t1.mp (Or.inr rfl)
    obtain ⟨u1, u2, u3, u4⟩ := t2 (Or.inr rfl)
    obtain ⟨v1, v2⟩ := t3 rfl
    simp only [rProg, rStep]
    cases hfu : failU with
    | true =>
      simp only [if_true]
      subst hfu
      exact release ho (Or.inr rfl) (Or.inr rfl)
    | false =>
      simp only [Bool.false_eq_true, if_false]
      subst hfu
      refine ⟨?_, flags _ rfl rfl, ?_, hsent, ⟨?_, ?_, ?_, ?_⟩⟩
      · intro j x hj
        cases getElem?_set_cases _ _ _ _ _ hj with
        | inl h =>
          obtain ⟨rfl, rfl⟩ := h
          refine ⟨by simp, by simp, by simp, ?_⟩
          intro _ _ _; exact ⟨u1, u2⟩
        | inr h =>
          obtain ⟨a, b, c', d⟩ := hth j x h.2
          rw [ho] at a
          have hf : ¬ (x.pc = RPc.get ∨ x.pc = RPc.upd) :=
            fun hx => h.1 (Option.some.inj (a.mp hx))
          refine ⟨?_, fun hx => absurd hx hf, fun hx => absurd (Or.inr hx) hf, fun _ _ _ => ⟨u1, u2⟩⟩
          constructor
          · intro hx; exact absurd hx hf
          · intro hx; cases hx
      · intro k hk; cases hk
      · show mS + dS = curS; omega
      · show mR + dR = curR; omega
      · show curS ≤ c.sh.sent; omega
      · show curR ≤ c.sh.recv; omega
  | done =>
    simp only [rProg, rStep]
    rw [set_self_of_getElem? c.ths i _ hl]
    exact ⟨hth, hfl, hown, hsent, ⟨g1, g2, g3, g4⟩⟩

theorem r_dec (c : Cfg RShared RLocal) (i : Nat) :
    stepAt (rProg .repaired) c i = c ∨ rMu (stepAt (rProg .repaired) c i) < rMu c := by
  cases hl : c.ths[i]? with
  | none => left; exact stepAt_none _ _ _ hl
  | some l =>
    obtain ⟨pc, curS, curR, dS, dR, mS, mR, failG, failU⟩ := l
    cases pc with
    | done => left; exact stepAt_eq_of_same _ c i _ hl rfl
    | get =>
      right
      apply mu_lt_of_weight _ rWeight c i _ hl
      simp only [rProg, rStep]; split <;> simp [rWeight]
    | upd =>
      right
      apply mu_lt_of_weight _ rWeight c i _ hl
      simp only [rProg, rStep]; split <;> simp [rWeight]
    | start =>
      by_cases hb : c.sh.lock.isSome
      · left; exact stepAt_eq_of_same _ c i _ hl (by simp [rProg, rStep, hb])
      · right
        apply mu_lt_of_weight _ rWeight c i _ hl
        simp only [rProg, rStep]
        split
        · rename_i h; exact absurd h.2 hb
        · split <;> simp [rWeight]

theorem rMu_start (sh : RShared) (r : Round) : rMu (rStart sh r) ≤ 3 * r.n := by
  simp only [rMu, rStart, List.map_map]
  have : ∀ (l : List Nat), (l.map (rWeight ∘ rThread r)).sum = 3 * l.length := by
    intro l
    induction l with
    | nil => rfl
    | cons a t ih => simp only [List.map_cons, List.sum_cons, List.length_cons, ih, Function.comp, rThread, rNew, rWeight]; omega
  rw [this]; simp

/-- **One round of the repaired report, every schedule, any storage faults**: the totals in the
store equal the last-reported counters, those never exceed the byte counters, and equal them once
a reporter ran whose storage calls succeeded; the lock is free again. -/
theorem r_round (sh : RShared) (r : Round) (hg : RGlobal sh) (hl : sh.lock = none) :
    RGlobal (rRound .repaired sh r) ∧ (rRound .repaired sh r).lock = none ∧
    (rRound .repaired sh r).sent = sh.sent + r.addS ∧ (rRound .repaired sh r).recv = sh.recv + r.addR ∧
    ((List.range r.n).any r.clean = true →
      (rRound .repaired sh r).lastS = sh.sent + r.addS ∧ (rRound .repaired sh r).lastR = sh.recv + r.addR) := by
  let c := run (rProg .repaired) (r.sched ++ rounds r.n (3 * r.n)) (rStart sh r)
  have hc0 := rInv_start sh r hg hl
  have hstep := rInv_step (sh.sent + r.addS) (sh.recv + r.addR) r.failGet r.failUpd
  have hinv : RInv (sh.sent + r.addS) (sh.recv + r.addR) r.failGet r.failUpd c := inv_run _ _ hstep _ _ hc0
  have hq : Quiescent (rProg .repaired) c := by
    show Quiescent _ (run _ (r.sched ++ rounds r.n (3 * r.n)) _)
    rw [run_append]
    apply rounds_quiescent _ (fun _ => True) rMu r.n (fun _ _ _ => trivial) (fun c i _ => r_dec c i)
    · trivial
    · rw [run_length]; simp [rStart]
    · exact Nat.le_trans (mu_run_le _ (fun _ => True) rMu (fun _ _ _ => trivial) (fun c i _ => r_dec c i) _ _ trivial)
        (rMu_start sh r)
  have hlen : c.ths.length = r.n := by
    show (run _ _ _).ths.length = r.n
    rw [run_length]; simp [rStart]
  have hmove : ∀ (j : Nat) (x : RLocal), c.ths[j]? = some x → (x.pc = RPc.get ∨ x.pc = RPc.upd) → False := by
    intro j x hx hp
    refine absurd (hq j) (stepAt_ne_of_local _ _ j _ hx ?_)
    obtain ⟨pc, curS, curR, dS, dR, mS, mR, fG, fU⟩ := x
    cases hp with
    | inl h => simp only at h; subst h; simp only [rProg, rStep]; split <;> simp
    | inr h => simp only at h; subst h; simp only [rProg, rStep]; split <;> simp
  have hdone : ∀ (i : Nat) (l : RLocal), c.ths[i]? = some l → l.pc = RPc.done := by
    intro i l hli
    obtain ⟨pc, curS, curR, dS, dR, mS, mR, fG, fU⟩ := l
    cases pc with
    | done => rfl
    | get => exact (hmove i _ hli (Or.inl rfl)).elim
    | upd => exact (hmove i _ hli (Or.inr rfl)).elim
    | start =>
      cases hlk : c.sh.lock with
      | some k =>
        obtain ⟨x, hx⟩ := hinv.own k hlk
        exact (hmove k x hx ((hinv.th k x hx).1.mpr hlk)).elim
      | none =>
        refine absurd (hq i) (stepAt_ne_of_local _ _ i _ hli ?_)
        simp only [rProg, rStep, hlk]
        split
        · rename_i h; simp at h
        · split <;> simp
  have hlock : c.sh.lock = none := by
    cases hlk : c.sh.lock with
    | none => rfl
    | some k =>
      obtain ⟨x, hx⟩ := hinv.own k hlk
      have := hdone k x hx
      have h2 := (hinv.th k x hx).1.mpr hlk
      rw [this] at h2; simp at h2
  refine ⟨hinv.gl, hlock, hinv.sent.1, hinv.sent.2, ?_⟩
  intro hany
  obtain ⟨k, hk, hclean⟩ := List.any_eq_true.mp hany
  have hkn : k < r.n := List.mem_range.mp hk
  have h0 : c.ths[k]? = some (c.ths[k]'(by omega)) := List.getElem?_eq_getElem (by omega)
  obtain ⟨f1, f2⟩ := hinv.fl k _ h0
  simp only [Round.clean, Bool.and_eq_true, Bool.not_eq_true'] at hclean
  have := (hinv.th k _ h0).2.2.2 (hdone k _ h0) (by rw [f1]; exact hclean.1) (by rw [f2]; exact hclean.2)
  rw [hinv.sent.1, hinv.sent.2] at this
  exact this

theorem rGlobal_init : RGlobal rInit := ⟨rfl, rfl, Nat.le_refl _, Nat.le_refl _⟩

/-- Every list of rounds, every schedule in every round. -/
theorem r_rounds (rs : List Round) : ∀ (sh : RShared), RGlobal sh → sh.lock = none →
    holdsR sh.sent sh.recv rs ((rRounds .repaired sh rs).map rObs) = true := by
  induction rs with
  | nil => intro sh _ _; rfl
  | cons r rs ih =>
    intro sh hg hl
    obtain ⟨g, l, s1, s2, hn⟩ := r_round sh r hg hl
    obtain ⟨g1, g2, g3, g4⟩ := g
    simp only [rRounds, List.map_cons, holdsR, rObs, Bool.and_eq_true, beq_iff_eq, decide_eq_true_eq,
      Bool.or_eq_true]
    refine ⟨⟨⟨⟨⟨g1, g2⟩, ?_⟩, ?_⟩, ?_⟩, ?_⟩
    · rw [← s1]; exact g3
    · rw [← s2]; exact g4
    · cases hz : (List.range r.n).any r.clean with
      | false => left; rfl
      | true => right; exact hn hz
    · have := ih _ ⟨g1, g2, g3, g4⟩ l
      rw [s1, s2] at this
      exact this

/-! ## Dispose.Close: the latch under `currentLock` -/

def DThreadOk (E : Nat) (sh : DShared) (i : Nat) (l : DLocal) : Prop :=
  ((l.pc = DPc.crit ∨ l.pc = DPc.release) ↔ sh.lock = some i) ∧
  ((l.pc = DPc.release ∨ l.pc = DPc.done) → sh.closed = true ∧ l.res = E)

structure DInv (errs : List Bool) (c : Cfg DShared DLocal) : Prop where
  th : ∀ (i : Nat) (l : DLocal), c.ths[i]? = some l → DThreadOk (failing errs) c.sh i l
  own : ∀ i : Nat, c.sh.lock = some i → ∃ l, c.ths[i]? = some l
  opn : c.sh.closed = false → c.sh.runs = List.replicate errs.length 0 ∧ c.sh.errors = 0 ∧ c.sh.cancels = 0
  cls : c.sh.closed = true → c.sh.runs = List.replicate errs.length 1 ∧ c.sh.errors = failing errs ∧ c.sh.cancels = 1

theorem dInv_init (errs : List Bool) (n : Nat) : DInv errs (dInit errs n) := by
  refine ⟨?_, ?_, fun _ => ⟨rfl, rfl, rfl⟩, fun h => by simp [dInit] at h⟩
  · intro i l h
    have := mem_replicate_getElem? _ _ _ _ h
    subst this
    simp [DThreadOk, dInit]
  · intro i h; simp [dInit] at h

theorem dInv_step (errs : List Bool) (c : Cfg DShared DLocal) (i : Nat) (hc : DInv errs c) :
    DInv errs (stepAt (dProg errs) c i) := by
  apply inv_stepAt_of_local (dProg errs) (DInv errs) c i hc
  intro l hl
  obtain ⟨hth, hown, hopn, hcls⟩ := hc
  obtain ⟨t1, t2⟩ := hth i l hl
  have hi : i < c.ths.length := lt_of_getElem? _ _ _ hl
  obtain ⟨pc, res⟩ := l
  simp only at t1 t2
  cases pc with
  | acquire =>
    simp only [dProg, dStep]
    cases hlk : c.sh.lock with
    | some k =>
      dsimp only
      rw [set_self_of_getElem? c.ths i _ hl]
      exact ⟨hth, hown, hopn, hcls⟩
    | none =>
      dsimp only
      refine ⟨?_, ?_, hopn, hcls⟩
      · intro j x hj
        cases getElem?_set_cases _ _ _ _ _ hj with
        | inl h =>
          obtain ⟨rfl, rfl⟩ := h
          exact ⟨by simp, by simp⟩
        | inr h =>
          obtain ⟨a, b⟩ := hth j x h.2
          rw [hlk] at a
          refine ⟨?_, b⟩
          constructor
          · intro hx; have := a.mp hx; cases this
          · intro hx; simp at hx; exact absurd hx h.1
      · intro k hk
        simp at hk
        subst hk
        exact ⟨_, List.getElem?_set_self hi⟩
  | crit =>
    have ho : c.sh.lock = some i := t1.mp (Or.inl rfl)
    have hkeep : ∀ k : Nat, c.sh.lock = some k → ∃ l, (c.ths.set i l)[k]? = some l ∨ ∃ l0, (c.ths.set i l)[k]? = some l0 := by
      intro k _; exact ⟨⟨DPc.done, 0⟩, Or.inr (by
        by_cases hki : i = k
        · subst hki; exact ⟨_, List.getElem?_set_self hi⟩
        · obtain ⟨l0, hl0⟩ := hown k ‹_›; exact ⟨l0, by rw [List.getElem?_set_ne hki]; exact hl0⟩)⟩
    simp only [dProg, dStep]
    cases hcl : c.sh.closed with
    | true =>
      simp only [if_true]
      obtain ⟨c1, c2, c3⟩ := hcls hcl
      refine ⟨?_, ?_, hopn, hcls⟩
      · intro j x hj
        cases getElem?_set_cases _ _ _ _ _ hj with
        | inl h =>
          obtain ⟨rfl, rfl⟩ := h
          exact ⟨by simp [ho], by intro _; exact ⟨hcl, c2⟩⟩
        | inr h => exact hth j x h.2
      · intro k hk
        by_cases hki : i = k
        · subst hki; exact ⟨_, List.getElem?_set_self hi⟩
        · obtain ⟨l0, hl0⟩ := hown k hk; exact ⟨l0, by rw [List.getElem?_set_ne hki]; exact hl0⟩
    | false =>
      simp only [Bool.false_eq_true, if_false]
      obtain ⟨o1, o2, o3⟩ := hopn hcl
      refine ⟨?_, ?_, fun h => by simp at h, fun _ => ⟨?_, ?_, ?_⟩⟩
      · intro j x hj
        cases getElem?_set_cases _ _ _ _ _ hj with
        | inl h =>
          obtain ⟨rfl, rfl⟩ := h
          exact ⟨by simp [ho], by intro _; exact ⟨rfl, rfl⟩⟩
        | inr h =>
          obtain ⟨a, b⟩ := hth j x h.2
          exact ⟨a, fun hx => ⟨rfl, (b hx).2⟩⟩
      · intro k hk
        by_cases hki : i = k
        · subst hki; exact ⟨_, List.getElem?_set_self hi⟩
        · obtain ⟨l0, hl0⟩ := hown k hk; exact ⟨l0, by rw [List.getElem?_set_ne hki]; exact hl0⟩
      · show c.sh.runs.map (· + 1) = _
        rw [o1]; simp
      · show c.sh.errors + failing errs = failing errs
        omega
      · show c.sh.cancels + 1 = 1
        omega
  | release =>
    have ho : c.sh.lock = some i := t1.mp (Or.inr rfl)
    obtain ⟨r1, r2⟩ := t2 (Or.inl rfl)
    simp only [dProg, dStep]
    refine ⟨?_, (fun k hk => by cases hk), hopn, hcls⟩
    intro j x hj
    cases getElem?_set_cases _ _ _ _ _ hj with
    | inl h =>
      obtain ⟨rfl, rfl⟩ := h
      exact ⟨by simp, by intro _; exact ⟨r1, r2⟩⟩
    | inr h =>
      obtain ⟨a, b⟩ := hth j x h.2
      rw [ho] at a
      refine ⟨?_, b⟩
      constructor
      · intro hx; exact absurd (Option.some.inj (a.mp hx)) h.1
      · intro hx; cases hx
  | done =>
    simp only [dProg, dStep]
    rw [set_self_of_getElem? c.ths i _ hl]
    exact ⟨hth, hown, hopn, hcls⟩

theorem d_dec (errs : List Bool) (c : Cfg DShared DLocal) (i : Nat) :
    stepAt (dProg errs) c i = c ∨ dMu (stepAt (dProg errs) c i) < dMu c := by
  cases hl : c.ths[i]? with
  | none => left; exact stepAt_none _ _ _ hl
  | some l =>
    obtain ⟨pc, res⟩ := l
    cases pc with
    | done => left; exact stepAt_eq_of_same _ c i _ hl rfl
    | release => right; exact mu_lt_of_weight _ dWeight c i _ hl (by simp [dProg, dStep, dWeight])
    | crit =>
      right
      apply mu_lt_of_weight _ dWeight c i _ hl
      simp only [dProg, dStep]; split <;> simp [dWeight]
    | acquire =>
      cases hlk : c.sh.lock with
      | some k => left; exact stepAt_eq_of_same _ c i _ hl (by simp [dProg, dStep, hlk])
      | none => right; exact mu_lt_of_weight _ dWeight c i _ hl (by simp [dProg, dStep, hlk, dWeight])

/-- **Dispose.Close, every schedule**: after any schedule and the fair drain every caller is
done, the latch is closed and released. -/
theorem d_final (errs : List Bool) (n : Nat) (s : Schedule) :
    DInv errs (dFinal errs n s) ∧
    (∀ (i : Nat) (l : DLocal), (dFinal errs n s).ths[i]? = some l → l.pc = DPc.done) ∧
    (dFinal errs n s).ths.length = n := by
  have hinv : DInv errs (dFinal errs n s) := inv_run _ _ (dInv_step errs) _ _ (dInv_init errs n)
  have hq : Quiescent (dProg errs) (dFinal errs n s) := by
    unfold dFinal
    rw [run_append]
    apply rounds_quiescent _ (fun _ => True) dMu n (fun _ _ _ => trivial) (fun c i _ => d_dec errs c i)
    · trivial
    · rw [run_length]; simp [dInit]
    · refine Nat.le_trans (mu_run_le _ (fun _ => True) dMu (fun _ _ _ => trivial) (fun c i _ => d_dec errs c i) _ _ trivial) ?_
      simp [dMu, dInit, dWeight, Nat.mul_comm]
  refine ⟨hinv, ?_, by unfold dFinal; rw [run_length]; simp [dInit]⟩
  have hmove : ∀ (j : Nat) (x : DLocal), (dFinal errs n s).ths[j]? = some x →
      (x.pc = DPc.crit ∨ x.pc = DPc.release) → False := by
    intro j x hx hp
    refine absurd (hq j) (stepAt_ne_of_local _ _ j _ hx ?_)
    obtain ⟨pc, res⟩ := x
    cases hp with
    | inl h => simp only at h; subst h; simp only [dProg, dStep]; split <;> simp
    | inr h => simp only at h; subst h; simp [dProg, dStep]
  intro i l hli
  obtain ⟨pc, res⟩ := l
  cases pc with
  | done => rfl
  | crit => exact (hmove i _ hli (Or.inl rfl)).elim
  | release => exact (hmove i _ hli (Or.inr rfl)).elim
  | acquire =>
    cases hlk : (dFinal errs n s).sh.lock with
    | some k =>
      obtain ⟨x, hx⟩ := hinv.own k hlk
      exact (hmove k x hx ((hinv.th k x hx).1.mpr hlk)).elim
    | none =>
      exact absurd (hq i) (stepAt_ne_of_local _ _ i _ hli (by simp [dProg, dStep, hlk]))

theorem holdsD_final (errs : List Bool) (n : Nat) (hn : 1 ≤ n) (s : Schedule) :
    holdsD errs (dObs (dFinal errs n s)) = true := by
  obtain ⟨hinv, hdone, hlen⟩ := d_final errs n s
  generalize dFinal errs n s = c at hinv hdone hlen
  obtain ⟨sh, ths⟩ := c
  cases ths with
  | nil => simp at hlen; omega
  | cons l ls =>
    have h0 := hinv.th 0 l rfl
    have hres : ∀ x ∈ l :: ls, x.res = failing errs := by
      intro x hx
      obtain ⟨j, hj⟩ := List.mem_iff_getElem?.mp hx
      exact ((hinv.th j x hj).2 (Or.inr (hdone j x hj))).2
    have hcl : sh.closed = true := (h0.2 (Or.inr (hdone 0 l rfl))).1
    obtain ⟨c1, c2, c3⟩ := hinv.cls hcl
    simp only at c1 c2 c3 hcl
    have hall : ls.all (fun x => x.res == l.res) = true := by
      rw [List.all_eq_true]
      intro x hx
      rw [hres x (List.mem_cons_of_mem _ hx), hres l (List.mem_cons_self ..)]
      simp
    simp [holdsD, dObs, c1, c3, hcl, hres l (List.mem_cons_self ..)]
    intro x hx
    exact hres x (List.mem_cons_of_mem _ hx)

/-! ## StreamProcessor.Close (repaired) against in-flight I/O -/

def closerPc (pc : SPc) : Prop := pc = SPc.acquire ∨ pc = SPc.crit ∨ pc = SPc.release ∨ pc = SPc.done

def SThreadOk (k : Nat) (sh : SShared) (i : Nat) (l : SLocal) : Prop :=
  ((l.pc = SPc.crit ∨ l.pc = SPc.release) ↔ sh.lock = some i) ∧
  l.res ≠ 3 ∧
  (k ≤ i → closerPc l.pc ∧ ((l.pc = SPc.release ∨ l.pc = SPc.done) → sh.closed = true))

structure SInv (k : Nat) (c : Cfg SShared SLocal) : Prop where
  th : ∀ (i : Nat) (l : SLocal), c.ths[i]? = some l → SThreadOk k c.sh i l
  own : ∀ i : Nat, c.sh.lock = some i → ∃ l, c.ths[i]? = some l
  set : c.sh.readerSet = true ∧ c.sh.writerSet = true ∧ c.sh.panics = 0
  opn : c.sh.closed = false → c.sh.rcloses = 0 ∧ c.sh.wcloses = 0
  cls : c.sh.closed = true → c.sh.rcloses = 1 ∧ c.sh.wcloses = 1

theorem sInv_init (ops : List (Bool × Nat)) (n : Nat) : SInv ops.length (sInit ops n) := by
  refine ⟨?_, ?_, ⟨rfl, rfl, rfl⟩, fun _ => ⟨rfl, rfl⟩, fun h => by simp [sInit] at h⟩
  · intro i l h
    simp only [sInit] at h
    by_cases hi : i < ops.length
    · rw [List.getElem?_append_left (by simpa using hi)] at h
      simp only [List.getElem?_map] at h
      cases ho : ops[i]? with
      | none => simp [ho] at h
      | some o =>
        simp only [ho, Option.map_some, Option.some.injEq] at h
        subst h
        exact ⟨by simp [sInit], by simp, fun hk => by omega⟩
    · rw [List.getElem?_append_right (by simpa using Nat.le_of_not_lt hi)] at h
      have := mem_replicate_getElem? _ _ _ _ h
      subst this
      exact ⟨by simp [sInit], by simp, fun _ => ⟨Or.inl rfl, by simp⟩⟩
  · intro i h; simp [sInit] at h

theorem s_step_chk (v : Variant) (i : Nat) (sh : SShared) (isW : Bool) (res n : Nat) (hlk : sh.lock = none) :
    ∃ l' : SLocal, sStep v i sh ⟨SPc.chk n, isW, res⟩ = (sh, l') ∧
      ((l'.pc = SPc.done ∧ l'.res = 2) ∨ (l'.pc = SPc.io n ∧ l'.res = res)) := by
  simp only [sStep, hlk]
  by_cases h1 : sh.closed = true <;>
    by_cases h2 : (if isW = true then sh.writerSet else sh.readerSet) = true <;> simp [h1, h2]

theorem s_step_io (v : Variant) (i : Nat) (sh : SShared) (isW : Bool) (res n : Nat) :
    ∃ (sh' : SShared) (l' : SLocal), sStep v i sh ⟨SPc.io (n + 1), isW, res⟩ = (sh', l') ∧
      (l'.pc = SPc.done ∨ l'.pc = SPc.io n) ∧
      ((if isW = true then sh.writerSet else sh.readerSet) = true → sh' = sh ∧ (l'.res = 2 ∨ l'.res = res)) := by
  by_cases h2 : (if isW = true then sh.writerSet else sh.readerSet) = true
  · by_cases h1 : sh.closed = true
    · exact ⟨sh, ⟨SPc.done, isW, 2⟩, by simp [sStep, h1, h2], Or.inl rfl, fun _ => ⟨rfl, Or.inl rfl⟩⟩
    · exact ⟨sh, ⟨SPc.io n, isW, res⟩, by simp [sStep, h1, h2], Or.inr rfl, fun _ => ⟨rfl, Or.inr rfl⟩⟩
  · exact ⟨{ sh with panics := sh.panics + 1 }, ⟨SPc.done, isW, 3⟩, by simp [sStep, h2], Or.inl rfl,
      fun h => absurd h h2⟩

theorem sInv_step (k : Nat) (c : Cfg SShared SLocal) (i : Nat) (hc : SInv k c) :
    SInv k (stepAt (sProg .repaired) c i) := by
  apply inv_stepAt_of_local (sProg .repaired) (SInv k) c i hc
  intro l hl
  obtain ⟨hth, hown, hset, hopn, hcls⟩ := hc
  obtain ⟨t1, t2, t3⟩ := hth i l hl
  have hi : i < c.ths.length := lt_of_getElem? _ _ _ hl
  have hownKeep : ∀ (l' : SLocal) (j : Nat), c.sh.lock = some j → ∃ x, (c.ths.set i l')[j]? = some x := by
    intro l' j hj
    by_cases hji : i = j
    · subst hji; exact ⟨_, List.getElem?_set_self hi⟩
    · obtain ⟨l0, hl0⟩ := hown j hj; exact ⟨l0, by rw [List.getElem?_set_ne hji]; exact hl0⟩
  -- a step that leaves the shared state alone and keeps "not in the critical section"
  have local_only : ∀ (l' : SLocal), (l.pc ≠ SPc.crit ∧ l.pc ≠ SPc.release) →
      (l'.pc ≠ SPc.crit ∧ l'.pc ≠ SPc.release) → l'.res ≠ 3 →
      (k ≤ i → closerPc l'.pc ∧ ((l'.pc = SPc.release ∨ l'.pc = SPc.done) → c.sh.closed = true)) →
      SInv k ⟨c.sh, c.ths.set i l'⟩ := by
    intro l' hold hnew hres hcl
    have hno : c.sh.lock ≠ some i := fun h => by
      cases t1.mpr h with
      | inl h => exact hold.1 h
      | inr h => exact hold.2 h
    refine ⟨?_, fun j hj => hownKeep l' j hj, hset, hopn, hcls⟩
    intro j x hj
    cases getElem?_set_cases _ _ _ _ _ hj with
    | inl h =>
      obtain ⟨rfl, rfl⟩ := h
      refine ⟨?_, hres, hcl⟩
      constructor
      · intro hx; cases hx with
        | inl h => exact absurd h hnew.1
        | inr h => exact absurd h hnew.2
      · intro hx; exact absurd hx hno
    | inr h => exact hth j x h.2
  obtain ⟨pc, isW, res⟩ := l
  simp only at t1 t2 t3 local_only
  cases pc with
  | acquire =>
    simp only [sProg, sStep]
    cases hlk : c.sh.lock with
    | some j =>
      dsimp only
      rw [set_self_of_getElem? c.ths i _ hl]
      exact ⟨hth, hown, hset, hopn, hcls⟩
    | none =>
      dsimp only
      refine ⟨?_, ?_, hset, hopn, hcls⟩
      · intro j x hj
        cases getElem?_set_cases _ _ _ _ _ hj with
        | inl h =>
          obtain ⟨rfl, rfl⟩ := h
          exact ⟨by simp, t2, fun _ => ⟨Or.inr (Or.inl rfl), by simp⟩⟩
        | inr h =>
          obtain ⟨a, b, c'⟩ := hth j x h.2
          rw [hlk] at a
          refine ⟨?_, b, c'⟩
          constructor
          · intro hx; have := a.mp hx; cases this
          · intro hx; simp at hx; exact absurd hx h.1
      · intro j hj
        simp at hj
        subst hj
        exact ⟨_, List.getElem?_set_self hi⟩
  | crit =>
    have ho : c.sh.lock = some i := t1.mp (Or.inl rfl)
    simp only [sProg, sStep]
    cases hcl : c.sh.closed with
    | true =>
      simp only [if_true]
      refine ⟨?_, fun j hj => hownKeep _ j hj, hset, hopn, hcls⟩
      intro j x hj
      cases getElem?_set_cases _ _ _ _ _ hj with
      | inl h =>
        obtain ⟨rfl, rfl⟩ := h
        exact ⟨by simp [ho], t2, fun _ => ⟨Or.inr (Or.inr (Or.inl rfl)), fun _ => hcl⟩⟩
      | inr h => exact hth j x h.2
    | false =>
      simp only [Bool.false_eq_true, if_false]
      obtain ⟨o1, o2⟩ := hopn hcl
      refine ⟨?_, fun j hj => hownKeep _ j hj, ⟨by simp, by simp, hset.2.2⟩, fun h => by simp at h,
        fun _ => ⟨by show c.sh.rcloses + 1 = 1; omega, by show c.sh.wcloses + 1 = 1; omega⟩⟩
      intro j x hj
      cases getElem?_set_cases _ _ _ _ _ hj with
      | inl h =>
        obtain ⟨rfl, rfl⟩ := h
        exact ⟨by simp [ho], t2, fun _ => ⟨Or.inr (Or.inr (Or.inl rfl)), fun _ => rfl⟩⟩
      | inr h =>
        obtain ⟨a, b, c'⟩ := hth j x h.2
        exact ⟨a, b, fun hk => ⟨(c' hk).1, fun _ => rfl⟩⟩
  | release =>
    have ho : c.sh.lock = some i := t1.mp (Or.inr rfl)
    simp only [sProg, sStep]
    refine ⟨?_, (fun j hj => by cases hj), hset, hopn, hcls⟩
    intro j x hj
    cases getElem?_set_cases _ _ _ _ _ hj with
    | inl h =>
      obtain ⟨rfl, rfl⟩ := h
      exact ⟨by simp, t2, fun hk => ⟨Or.inr (Or.inr (Or.inr rfl)), fun _ => ((t3 hk).2 (Or.inl rfl))⟩⟩
    | inr h =>
      obtain ⟨a, b, c'⟩ := hth j x h.2
      rw [ho] at a
      refine ⟨?_, b, c'⟩
      constructor
      · intro hx; exact absurd (Option.some.inj (a.mp hx)) h.1
      · intro hx; cases hx
  | chk n =>
    have hk : ¬ k ≤ i := fun h => by
      have := (t3 h).1; simp [closerPc] at this
    cases hlk : c.sh.lock with
    | some j =>
      simp only [sProg, sStep, hlk]
      rw [set_self_of_getElem? c.ths i _ hl]
      exact ⟨hth, hown, hset, hopn, hcls⟩
    | none =>
      obtain ⟨l', hs, hl'⟩ := s_step_chk .repaired i c.sh isW res n hlk
      simp only [sProg, hs]
      apply local_only l' (by simp) ?_ ?_ (fun h => absurd h hk)
      · cases hl' with
        | inl h => simp [h.1]
        | inr h => simp [h.1]
      · cases hl' with
        | inl h => simp [h.2]
        | inr h => rw [h.2]; exact t2
  | io n =>
    have hk : ¬ k ≤ i := fun h => by
      have := (t3 h).1; simp [closerPc] at this
    have hr : (if isW = true then c.sh.writerSet else c.sh.readerSet) = true := by
      cases isW <;> simp [hset.1, hset.2.1]
    cases n with
    | zero =>
      simp only [sProg, sStep]
      exact local_only ⟨SPc.done, isW, 1⟩ (by simp) (by simp) (by simp) (fun h => absurd h hk)
    | succ n =>
      obtain ⟨sh', l', hs, hpc, hres0⟩ := s_step_io .repaired i c.sh isW res n
      obtain ⟨hsh, hres1⟩ := hres0 hr
      rw [hsh] at hs
      simp only [sProg, hs]
      apply local_only l' (by simp) ?_ ?_ (fun h => absurd h hk)
      · cases hpc with
        | inl h => simp [h]
        | inr h => simp [h]
      · cases hres1 with
        | inl h => simp [h]
        | inr h => rw [h]; exact t2
  | done =>
    simp only [sProg, sStep]
    rw [set_self_of_getElem? c.ths i _ hl]
    exact ⟨hth, hown, hset, hopn, hcls⟩

theorem s_dec (c : Cfg SShared SLocal) (i : Nat) :
    stepAt (sProg .repaired) c i = c ∨ sMu (stepAt (sProg .repaired) c i) < sMu c := by
  cases hl : c.ths[i]? with
  | none => left; exact stepAt_none _ _ _ hl
  | some l =>
    obtain ⟨pc, isW, res⟩ := l
    cases pc with
    | done => left; exact stepAt_eq_of_same _ c i _ hl rfl
    | release => right; exact mu_lt_of_weight _ sWeight c i _ hl (by simp [sProg, sStep, sWeight])
    | crit =>
      right
      apply mu_lt_of_weight _ sWeight c i _ hl
      simp only [sProg, sStep]; split <;> simp [sWeight]
    | acquire =>
      cases hlk : c.sh.lock with
      | some k => left; exact stepAt_eq_of_same _ c i _ hl (by simp [sProg, sStep, hlk])
      | none => right; exact mu_lt_of_weight _ sWeight c i _ hl (by simp [sProg, sStep, hlk, sWeight])
    | chk n =>
      cases hlk : c.sh.lock with
      | some k => left; exact stepAt_eq_of_same _ c i _ hl (by simp [sProg, sStep, hlk])
      | none =>
        right
        apply mu_lt_of_weight _ sWeight c i _ hl
        obtain ⟨l', hs, hl'⟩ := s_step_chk .repaired i c.sh isW res n hlk
        simp only [sProg, hs]
        cases hl' with
        | inl h => simp [sWeight, h.1]
        | inr h => simp [sWeight, h.1]
    | io n =>
      right
      apply mu_lt_of_weight _ sWeight c i _ hl
      cases n with
      | zero => simp [sProg, sStep, sWeight]
      | succ n =>
        obtain ⟨sh', l', hs, hpc, _⟩ := s_step_io .repaired i c.sh isW res n
        simp only [sProg, hs]
        cases hpc with
        | inl h => simp [sWeight, h]
        | inr h => simp [sWeight, h]

theorem sMu_init (ops : List (Bool × Nat)) (n : Nat) : sMu (sInit ops n) ≤ sFuel ops n := by
  simp only [sMu, sInit, sFuel, List.map_append, List.sum_append, List.map_map]
  have h1 : ((List.replicate n (⟨SPc.acquire, false, 0⟩ : SLocal)).map sWeight).sum = 3 * n := by
    rw [sum_replicate_weight]; simp [sWeight, Nat.mul_comm]
  have h2 : (ops.map (sWeight ∘ fun o => (⟨SPc.chk o.2, o.1, 0⟩ : SLocal))).sum = (ops.map (fun o => o.2 + 3)).sum := by
    congr 1
  rw [h1, h2]
  exact Nat.le_refl _

/-- **StreamProcessor.Close, every schedule**: nothing panics, both directions of the transport
are closed exactly once, the processor is closed. -/
theorem holdsS_final (ops : List (Bool × Nat)) (n : Nat) (hn : 1 ≤ n) (s : Schedule) :
    holdsS (sObs (sFinal .repaired ops n s)) = true := by
  have hstep := sInv_step ops.length
  have hinv : SInv ops.length (sFinal .repaired ops n s) := inv_run _ _ hstep _ _ (sInv_init ops n)
  have hq : Quiescent (sProg .repaired) (sFinal .repaired ops n s) := by
    unfold sFinal
    rw [run_append]
    apply rounds_quiescent _ (fun _ => True) sMu (ops.length + n) (fun _ _ _ => trivial) (fun c i _ => s_dec c i)
    · trivial
    · rw [run_length]; simp [sInit]
    · exact Nat.le_trans (mu_run_le _ (fun _ => True) sMu (fun _ _ _ => trivial) (fun c i _ => s_dec c i) _ _ trivial)
        (sMu_init ops n)
  have hlen : (sFinal .repaired ops n s).ths.length = ops.length + n := by
    unfold sFinal; rw [run_length]; simp [sInit]
  have hmove : ∀ (j : Nat) (x : SLocal), (sFinal .repaired ops n s).ths[j]? = some x →
      (x.pc = SPc.crit ∨ x.pc = SPc.release) → False := by
    intro j x hx hp
    refine absurd (hq j) (stepAt_ne_of_local _ _ j _ hx ?_)
    obtain ⟨pc, isW, res⟩ := x
    cases hp with
    | inl h => simp only at h; subst h; simp only [sProg, sStep]; split <;> simp
    | inr h => simp only at h; subst h; simp [sProg, sStep]
  -- the first closer is done, hence the processor is closed
  have hk : (sFinal .repaired ops n s).ths[ops.length]? = some ((sFinal .repaired ops n s).ths[ops.length]'(by omega)) :=
    List.getElem?_eq_getElem (by omega)
  generalize hx : (sFinal .repaired ops n s).ths[ops.length]'(by omega) = x at hk
  obtain ⟨a, b, c'⟩ := hinv.th _ x hk
  obtain ⟨hcp, hclosed⟩ := c' (Nat.le_refl _)
  have hcl : (sFinal .repaired ops n s).sh.closed = true := by
    obtain ⟨pc, isW, res⟩ := x
    simp only [closerPc] at hcp hclosed
    cases pc with
    | done => exact hclosed (Or.inr rfl)
    | release => exact hclosed (Or.inl rfl)
    | crit => exact (hmove _ _ hk (Or.inl rfl)).elim
    | chk m => simp at hcp
    | io m => simp at hcp
    | acquire =>
      cases hlk : (sFinal .repaired ops n s).sh.lock with
      | some j =>
        obtain ⟨y, hy⟩ := hinv.own j hlk
        exact (hmove j y hy ((hinv.th j y hy).1.mpr hlk)).elim
      | none =>
        exact absurd (hq _) (stepAt_ne_of_local _ _ _ _ hk (by simp [sProg, sStep, hlk]))
  obtain ⟨c1, c2⟩ := hinv.cls hcl
  have hop : (sObs (sFinal .repaired ops n s)).op ≠ 3 := by
    simp only [sObs]
    cases hths : (sFinal .repaired ops n s).ths with
    | nil => simp
    | cons l ls =>
      have : (sFinal .repaired ops n s).ths[0]? = some l := by rw [hths]; rfl
      exact (hinv.th 0 l this).2.1
  simp only [holdsS, Bool.and_eq_true, beq_iff_eq, bne_iff_ne, ne_eq]
  exact ⟨⟨⟨⟨c1, c2⟩, hop⟩, hcl⟩, rfl⟩

end Tunnox.C16
