import TunnoxModel.Model.C13
import TunnoxModel.Spec.C13
/-!
  C13 — helper lemmas: the memory backend model refines `TTLStore`.

  Refinement relation `R now m s`: from clock reading `now` on, the memory map `m` and the
  reference store `s` show the same visible entry for every key.  Entries the model has
  already dropped (lazy deletion) or still keeps although expired are invisible on both sides.
-/
set_option linter.unusedSimpArgs false
namespace Tunnox.C13
open Tunnox Tunnox.TTLStore

/-- Same visible entries from `now` on. -/
def R (now : Nat) (m s : Store) : Prop := ∀ t, now ≤ t → ∀ k, find t m k = find t s k

theorem expired_eq (now : Nat) (it : Item) : expired now it = !(it.live now) := by
  unfold expired Entry.live
  by_cases h0 : it.exp = 0
  · simp [h0]
  · by_cases h1 : now ≤ it.exp
    · have : ¬ it.exp < now := by omega
      simp [h0, h1, this]
    · have : it.exp < now := by omega
      simp [h0, h1, this]

theorem dead_mono {now t : Nat} (e : Entry) (h : now ≤ t) (hd : e.live now = false) : e.live t = false := by
  unfold Entry.live at *
  by_cases h0 : e.exp = 0
  · simp [h0] at hd
  · by_cases h1 : now ≤ e.exp
    · simp [h1] at hd
    · have : ¬ t ≤ e.exp := by omega
      simp [h0, this]

theorem find_insert_eq (t : Nat) (m : Store) (k : String) (e : Entry) :
    find t (m.insert k e) k = if e.live t then some e else none := by
  unfold find
  rw [FMap.lookup_insert_eq]
  by_cases h : e.live t <;> simp [Option.filter, h]

theorem find_insert_ne (t : Nat) (m : Store) {k k' : String} (e : Entry) (h : k ≠ k') :
    find t (m.insert k e) k' = find t m k' := by
  unfold find
  rw [FMap.lookup_insert_ne m e h]

theorem find_erase_eq (t : Nat) (m : Store) (k : String) : find t (m.erase k) k = none := by
  unfold find
  rw [FMap.lookup_erase_eq]
  rfl

theorem find_erase_ne (t : Nat) (m : Store) {k k' : String} (h : k ≠ k') :
    find t (m.erase k) k' = find t m k' := by
  unfold find
  rw [FMap.lookup_erase_ne m h]

theorem find_none_mono {now t : Nat} (m : Store) (k : String) (h : now ≤ t)
    (hn : find now m k = none) : find t m k = none := by
  unfold find at *
  cases hl : FMap.lookup m k with
  | none => rfl
  | some e =>
    rw [hl] at hn
    by_cases hlive : e.live now
    · simp [Option.filter, hlive] at hn
    · have hd : e.live now = false := by simpa using hlive
      have := dead_mono e h hd
      simp [Option.filter, this]

theorem R_mono {now now' : Nat} {m s : Store} (h : now ≤ now') (hR : R now m s) : R now' m s :=
  fun t ht k => hR t (Nat.le_trans h ht) k

theorem R_refl (now : Nat) (m : Store) : R now m m := fun _ _ _ => rfl

theorem R_insert {now : Nat} {m s : Store} (hR : R now m s) (k : String) (e : Entry) :
    R now (m.insert k e) (s.insert k e) := by
  intro t ht k'
  by_cases h : k = k'
  · subst h; rw [find_insert_eq, find_insert_eq]
  · rw [find_insert_ne t m e h, find_insert_ne t s e h]; exact hR t ht k'

theorem R_erase {now : Nat} {m s : Store} (hR : R now m s) (k : String) :
    R now (m.erase k) (s.erase k) := by
  intro t ht k'
  by_cases h : k = k'
  · subst h; rw [find_erase_eq, find_erase_eq]
  · rw [find_erase_ne t m h, find_erase_ne t s h]; exact hR t ht k'

/-- Dropping an entry that is invisible now is invisible forever (lazy deletion is sound). -/
theorem R_erase_left {now : Nat} {m s : Store} (hR : R now m s) (k : String)
    (hn : find now m k = none) : R now (m.erase k) s := by
  intro t ht k'
  by_cases h : k = k'
  · subst h
    rw [find_erase_eq, ← hR t ht k, find_none_mono m k ht hn]
  · rw [find_erase_ne t m h]; exact hR t ht k'

theorem R_erase_insert_left {now : Nat} {m s : Store} (hR : R now m s) (k : String) (e : Entry)
    (hn : find now m k = none) : R now ((m.erase k).insert k e) (s.insert k e) :=
  R_insert (R_erase_left hR k hn) k e

/-- What the model's inline test `lookup` + `expired` means on the reference side. -/
theorem bridge {now : Nat} {m s : Store} (hR : R now m s) (k : String) :
    (FMap.lookup m k = none ∧ find now s k = none ∧ find now m k = none) ∨
    (∃ it, FMap.lookup m k = some it ∧ expired now it = true ∧ find now s k = none ∧ find now m k = none) ∨
    (∃ it, FMap.lookup m k = some it ∧ expired now it = false ∧ find now s k = some it) := by
  have h := hR now (Nat.le_refl _) k
  cases hl : FMap.lookup m k with
  | none =>
    left
    have : find now m k = none := by unfold find; rw [hl]; rfl
    exact ⟨rfl, by rw [← h, this], this⟩
  | some it =>
    right
    by_cases he : expired now it = true
    · left
      have hlive : it.live now = false := by
        have := expired_eq now it; rw [he] at this; simpa using this.symm
      have : find now m k = none := by unfold find; rw [hl]; simp [Option.filter, hlive]
      exact ⟨it, rfl, he, by rw [← h, this], this⟩
    · right
      have he' : expired now it = false := by simpa using he
      have hlive : it.live now = true := by
        have := expired_eq now it; rw [he'] at this; simpa using this.symm
      have : find now m k = some it := by unfold find; rw [hl]; simp [Option.filter, hlive]
      exact ⟨it, rfl, he', by rw [← h, this]⟩

/-! ## One lemma per method: same answer, relation preserved -/

/-- `Ref now m s a b`: the model outcome `a` and the reference outcome `b` agree. -/
def Ref (now : Nat) (a b : Store × Res) : Prop := a.2 = b.2 ∧ R now a.1 b.1

macro "close_R" : tactic => `(tactic| first
  | assumption
  | exact R_insert ‹_› _ _
  | exact R_erase ‹_› _
  | exact R_erase_left ‹_› _ ‹_›
  | exact R_erase_insert_left ‹_› _ _ ‹_›)

variable {now : Nat} {m s : Store}

theorem Set_ref (hR : R now m s) (k : String) (v : Val) (ttl : Int) :
    Ref now (Set now m k v ttl) (TTLStore.set now s k v ttl) :=
  ⟨rfl, R_insert hR k _⟩

theorem Delete_ref (hR : R now m s) (k : String) : Ref now (Delete m k) (TTLStore.delete s k) :=
  ⟨rfl, R_erase hR k⟩

theorem Get_ref (hR : R now m s) (k : String) : Ref now (Get now m k) (TTLStore.get now s k) := by
  rcases bridge hR k with ⟨hm, hs, _⟩ | ⟨it, hm, he, hs, _⟩ | ⟨it, hm, he, hs⟩
  · simp [Ref, Get, TTLStore.get, hm, hs, hR]
  · simp [Ref, Get, TTLStore.get, hm, he, hs, hR]
  · simp [Ref, Get, TTLStore.get, hm, he, hs, hR]

theorem Exists_ref (hR : R now m s) (k : String) :
    Ref now (Exists now m k) (TTLStore.exists now s k) := by
  rcases bridge hR k with ⟨hm, hs, _⟩ | ⟨it, hm, he, hs, _⟩ | ⟨it, hm, he, hs⟩
  · simp [Ref, Exists, TTLStore.exists, hm, hs, hR]
  · simp [Ref, Exists, TTLStore.exists, hm, he, hs, hR]
  · simp [Ref, Exists, TTLStore.exists, hm, he, hs, hR]

theorem GetList_ref (hR : R now m s) (k : String) :
    Ref now (GetList now m k) (TTLStore.getList now s k) := by
  rcases bridge hR k with ⟨hm, hs, _⟩ | ⟨it, hm, he, hs, _⟩ | ⟨it, hm, he, hs⟩
  · simp [Ref, GetList, Get, TTLStore.getList, hm, hs, hR]
  · simp [Ref, GetList, Get, TTLStore.getList, hm, he, hs, hR]
  · cases hv : it.val <;> simp [Ref, GetList, Get, TTLStore.getList, hm, he, hs, hR, hv]

theorem AppendToList_ref (hR : R now m s) (k : String) (a : Atom) :
    Ref now (AppendToList now m k a) (TTLStore.append defaultTTL now s k a) := by
  rcases bridge hR k with ⟨hm, hs, hmn⟩ | ⟨it, hm, he, hs, hmn⟩ | ⟨it, hm, he, hs⟩
  · simp [Ref, AppendToList, TTLStore.append, hm, hs] <;> close_R
  · simp [Ref, AppendToList, TTLStore.append, hm, he, hs] <;> close_R
  · cases hv : it.val <;> simp [Ref, AppendToList, TTLStore.append, hm, he, hs, hv] <;> close_R

theorem RemoveFromList_ref (hR : R now m s) (k : String) (a : Atom) :
    Ref now (RemoveFromList now m k a) (TTLStore.remove now s k a) := by
  rcases bridge hR k with ⟨hm, hs, hmn⟩ | ⟨it, hm, he, hs, hmn⟩ | ⟨it, hm, he, hs⟩
  · simp [Ref, RemoveFromList, TTLStore.remove, hm, hs] <;> close_R
  · simp [Ref, RemoveFromList, TTLStore.remove, hm, he, hs] <;> close_R
  · cases hv : it.val <;> simp [Ref, RemoveFromList, TTLStore.remove, hm, he, hs, hv] <;> close_R

theorem SetHash_ref (hR : R now m s) (k f : String) (a : Atom) :
    Ref now (SetHash now m k f a) (TTLStore.hset defaultTTL now s k f a) := by
  rcases bridge hR k with ⟨hm, hs, hmn⟩ | ⟨it, hm, he, hs, hmn⟩ | ⟨it, hm, he, hs⟩
  · simp [Ref, SetHash, TTLStore.hset, hm, hs] <;> close_R
  · simp [Ref, SetHash, TTLStore.hset, hm, he, hs] <;> close_R
  · cases hv : it.val <;> simp [Ref, SetHash, TTLStore.hset, hm, he, hs, hv] <;> close_R

theorem DeleteHash_ref (hR : R now m s) (k f : String) :
    Ref now (DeleteHash now m k f) (TTLStore.hdel now s k f) := by
  rcases bridge hR k with ⟨hm, hs, hmn⟩ | ⟨it, hm, he, hs, hmn⟩ | ⟨it, hm, he, hs⟩
  · simp [Ref, DeleteHash, TTLStore.hdel, hm, hs] <;> close_R
  · simp [Ref, DeleteHash, TTLStore.hdel, hm, he, hs] <;> close_R
  · cases hv : it.val <;> simp [Ref, DeleteHash, TTLStore.hdel, hm, he, hs, hv] <;> close_R

theorem GetAllHash_ref (hR : R now m s) (k : String) :
    Ref now (GetAllHash now m k) (TTLStore.hall now s k) := by
  rcases bridge hR k with ⟨hm, hs, hmn⟩ | ⟨it, hm, he, hs, hmn⟩ | ⟨it, hm, he, hs⟩
  · simp [Ref, GetAllHash, TTLStore.hall, gcKey, hm, hs] <;> close_R
  · simp [Ref, GetAllHash, TTLStore.hall, gcKey, hm, he, hs] <;> close_R
  · cases hv : it.val <;> simp [Ref, GetAllHash, TTLStore.hall, gcKey, hm, he, hs, hv] <;> close_R

theorem SetExpiration_ref (hR : R now m s) (k : String) (ttl : Int) :
    Ref now (SetExpiration now m k ttl) (TTLStore.expire now s k ttl) := by
  rcases bridge hR k with ⟨hm, hs, hmn⟩ | ⟨it, hm, he, hs, hmn⟩ | ⟨it, hm, he, hs⟩
  · simp [Ref, SetExpiration, TTLStore.expire, expirationFor, deadline, hm, hs] <;> close_R
  · simp [Ref, SetExpiration, TTLStore.expire, expirationFor, deadline, hm, he, hs] <;> close_R
  · simp [Ref, SetExpiration, TTLStore.expire, expirationFor, deadline, hm, he, hs] <;> close_R

theorem SetNX_ref (hR : R now m s) (k : String) (v : Val) (ttl : Int) :
    Ref now (SetNX now m k v ttl) (TTLStore.setNX now s k v ttl) := by
  rcases bridge hR k with ⟨hm, hs, hmn⟩ | ⟨it, hm, he, hs, hmn⟩ | ⟨it, hm, he, hs⟩
  · simp [Ref, SetNX, TTLStore.setNX, expirationFor, deadline, hm, hs] <;> close_R
  · simp [Ref, SetNX, TTLStore.setNX, expirationFor, deadline, hm, he, hs] <;> close_R
  · simp [Ref, SetNX, TTLStore.setNX, expirationFor, deadline, hm, he, hs] <;> close_R

theorem gcKey_ref (hR : R now m s) (k : String) :
    Ref now (gcKey now m k) (s, Res.ok) := by
  rcases bridge hR k with ⟨hm, hs, hmn⟩ | ⟨it, hm, he, hs, hmn⟩ | ⟨it, hm, he, hs⟩
  · simp [Ref, gcKey, Prod.fst, hm, hs] <;> close_R
  · simp [Ref, gcKey, Prod.fst, hm, he, hs] <;> close_R
  · simp [Ref, gcKey, Prod.fst, hm, he, hs] <;> close_R

theorem GetHash_ref (hR : R now m s) (k f : String) :
    Ref now (GetHash now m k f) (TTLStore.hget now s k f) := by
  rcases bridge hR k with ⟨hm, hs, hmn⟩ | ⟨it, hm, he, hs, hmn⟩ | ⟨it, hm, he, hs⟩
  · simp [Ref, GetHash, TTLStore.hget, hm, hs] <;> close_R
  · simp [Ref, GetHash, TTLStore.hget, gcKey, hm, he, hs] <;> close_R
  · cases hv : it.val with
    | hash h =>
      cases hf : FMap.lookup h f <;> simp [Ref, GetHash, TTLStore.hget, hm, he, hs, hv, hf] <;> close_R
    | _ => simp [Ref, GetHash, TTLStore.hget, hm, he, hs, hv] <;> close_R

theorem IncrBy_ref (hR : R now m s) (k : String) (d : Int) :
    Ref now (IncrBy now m k d) (TTLStore.incrBy defaultTTL now s k d) := by
  rcases bridge hR k with ⟨hm, hs, hmn⟩ | ⟨it, hm, he, hs, hmn⟩ | ⟨it, hm, he, hs⟩
  · simp [Ref, IncrBy, TTLStore.incrBy, hm, hs] <;> close_R
  · simp [Ref, IncrBy, TTLStore.incrBy, hm, he, hs] <;> close_R
  · cases hv : it.val with
    | atom a =>
      cases a <;> simp [Ref, IncrBy, TTLStore.incrBy, hm, he, hs, hv] <;> close_R
    | _ => simp [Ref, IncrBy, TTLStore.incrBy, hm, he, hs, hv] <;> close_R

theorem GetExpiration_ref (hR : R now m s) (k : String) :
    Ref now (GetExpiration now m k) (TTLStore.ttl now s k) := by
  rcases bridge hR k with ⟨hm, hs, hmn⟩ | ⟨it, hm, he, hs, hmn⟩ | ⟨it, hm, he, hs⟩
  · simp [Ref, GetExpiration, TTLStore.ttl, hm, hs] <;> close_R
  · simp [Ref, GetExpiration, TTLStore.ttl, gcKey, hm, he, hs] <;> close_R
  · by_cases h0 : it.exp = 0 <;> simp [Ref, GetExpiration, TTLStore.ttl, hm, he, hs, h0] <;> close_R

theorem CompareAndSwap_ref (hR : R now m s) (k : String) (old : Option Atom) (new : Val) (ttl : Int) :
    Ref now (CompareAndSwap now m k old new ttl) (TTLStore.cas now s k old new ttl) := by
  rcases bridge hR k with ⟨hm, hs, hmn⟩ | ⟨it, hm, he, hs, hmn⟩ | ⟨it, hm, he, hs⟩
  · cases old <;> simp [Ref, CompareAndSwap, TTLStore.cas, expirationFor, deadline, hm, hs] <;> close_R
  · cases old <;> simp [Ref, CompareAndSwap, TTLStore.cas, expirationFor, deadline, hm, he, hs] <;> close_R
  · cases old with
    | none => simp [Ref, CompareAndSwap, TTLStore.cas, valueDiffers, hm, he, hs] <;> close_R
    | some a =>
      by_cases hv : it.val = Val.atom a <;>
        simp [Ref, CompareAndSwap, TTLStore.cas, valueDiffers, expirationFor, deadline, hm, he, hs, hv] <;> close_R

/-- The sweep only drops invisible entries. -/
theorem sweep_ref (hR : R now m s) (ks : List String) :
    R now (ks.foldl (fun acc k => (gcKey now acc k).1) m) s := by
  induction ks generalizing m with
  | nil => exact hR
  | cons k ks ih => exact ih (gcKey_ref hR k).2

theorem CleanupExpired_ref (hR : R now m s) : Ref now (CleanupExpired now m) (s, Res.ok) :=
  ⟨rfl, sweep_ref hR _⟩

/-- Every storage call: same answer as the reference, relation preserved. -/
theorem step_ref (hR : R now m s) (op : Op) :
    Ref now (step now op m) (TTLStore.step defaultTTL now op s) := by
  cases op with
  | set k v t => exact Set_ref hR k v t
  | get k => exact Get_ref hR k
  | delete k => exact Delete_ref hR k
  | «exists» k => exact Exists_ref hR k
  | setNX k v t => exact SetNX_ref hR k v t
  | cas k o n t => exact CompareAndSwap_ref hR k o n t
  | expire k t => exact SetExpiration_ref hR k t
  | ttl k => exact GetExpiration_ref hR k
  | getList k => exact GetList_ref hR k
  | append k a => exact AppendToList_ref hR k a
  | remove k a => exact RemoveFromList_ref hR k a
  | hset k f a => exact SetHash_ref hR k f a
  | hget k f => exact GetHash_ref hR k f
  | hall k => exact GetAllHash_ref hR k
  | hdel k f => exact DeleteHash_ref hR k f
  | incrBy k d => exact IncrBy_ref hR k d
  | gc => exact CleanupExpired_ref hR
  | gcKey k => exact gcKey_ref hR k

/-- In a monotone history every clock reading is at least the bound on the first one. -/
theorem mono_ge : ∀ (h : History) (t : Nat),
    (match h with | [] => True | e :: _ => t ≤ e.1) ∧ TTLStore.Monotone h = true → ∀ e ∈ h, t ≤ e.1 := by
  intro h
  induction h with
  | nil => intro _ _ e he; cases he
  | cons a h ih =>
    intro t hh e he
    cases he with
    | head => exact hh.1
    | tail _ hmem =>
      cases h with
      | nil => cases hmem
      | cons b h2 =>
        have hm := hh.2
        simp only [TTLStore.Monotone, Bool.and_eq_true, decide_eq_true_eq] at hm
        exact ih t ⟨Nat.le_trans hh.1 hm.1, hm.2⟩ e hmem

/-- Histories with a monotone clock: the memory backend's answers are the reference's. -/
theorem run_ref (h : History) : ∀ (m s : Store) (t0 : Nat), R t0 m s →
    (∀ e ∈ h, t0 ≤ e.1) → TTLStore.Monotone h = true →
    run h m = TTLStore.run defaultTTL h s := by
  induction h with
  | nil => intros; rfl
  | cons e h ih =>
    intro m s t0 hR hge hmono
    obtain ⟨now, op⟩ := e
    have hnow : t0 ≤ now := hge (now, op) (List.mem_cons_self)
    have hst := step_ref (R_mono hnow hR) op
    simp only [run, TTLStore.run]
    rw [hst.1]
    congr 1
    cases h with
    | nil => rfl
    | cons e2 h2 =>
      simp only [TTLStore.Monotone, Bool.and_eq_true, decide_eq_true_eq] at hmono
      apply ih _ _ now hst.2
      · intro e he
        exact mono_ge (e2 :: h2) now (by simpa [TTLStore.Monotone] using hmono) e he
      · exact hmono.2

/-! ## Sweeps split into a scan and a later, re-checking delete phase -/

theorem monoM_ge : ∀ (h : List (Nat × MStep)) (t : Nat),
    (match h with | [] => True | e :: _ => t ≤ e.1) ∧ monoM h = true → ∀ e ∈ h, t ≤ e.1 := by
  intro h
  induction h with
  | nil => intro _ _ e he; cases he
  | cons a h ih =>
    intro t hh e he
    cases he with
    | head => exact hh.1
    | tail _ hmem =>
      cases h with
      | nil => cases hmem
      | cons b h2 =>
        have hm := hh.2
        simp only [monoM, Bool.and_eq_true, decide_eq_true_eq] at hm
        exact ih t ⟨Nat.le_trans hh.1 hm.1, hm.2⟩ e hmem

theorem monoM_tail {a : Nat × MStep} {h : List (Nat × MStep)} (hm : monoM (a :: h) = true) :
    (∀ e ∈ h, a.1 ≤ e.1) ∧ monoM h = true := by
  cases h with
  | nil => exact ⟨(fun _ he => nomatch he), rfl⟩
  | cons b h2 =>
    simp only [monoM, Bool.and_eq_true, decide_eq_true_eq] at hm
    exact ⟨monoM_ge (b :: h2) a.1 ⟨hm.1, hm.2⟩, hm.2⟩

/-- Delete phases that re-check expiry, for ANY key lists (in particular lists collected by
scans of earlier states), interleaved anywhere: the calls answer as the reference. -/
theorem runM_ref (h : List (Nat × MStep)) : ∀ (m s : Store) (t0 : Nat), R t0 m s →
    (∀ e ∈ h, t0 ≤ e.1) → monoM h = true → allChecked h = true →
    runM h m = TTLStore.run defaultTTL (callsOf h) s := by
  induction h with
  | nil => intros; rfl
  | cons e h ih =>
    intro m s t0 hR hge hmono hchk
    obtain ⟨now, st⟩ := e
    have hnow : t0 ≤ now := hge (now, st) List.mem_cons_self
    have htail := monoM_tail hmono
    cases st with
    | call op =>
      have hst := step_ref (R_mono hnow hR) op
      simp only [runM, callsOf, TTLStore.run]
      rw [hst.1]
      congr 1
      exact ih _ _ now hst.2 htail.1 htail.2 (by simpa [allChecked] using hchk)
    | sweepDelete c ks =>
      cases c with
      | false => simp [allChecked] at hchk
      | true =>
        simp only [runM, callsOf]
        exact ih _ _ now (sweep_ref (R_mono hnow hR) ks) htail.1 htail.2 (by simpa [allChecked] using hchk)

end Tunnox.C13
