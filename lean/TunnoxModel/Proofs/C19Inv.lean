import TunnoxModel.Proofs.C19Host
/-!
  C19 — the inductive invariant of the interleaving model (store + one program counter per thread),
  preserved by every step of every thread: the basis of all `∀ schedule` theorems in `Props/C19.lean`.
-/
namespace Tunnox.C19
open Gen

@[simp] theorem upd_same {α β} [DecidableEq α] (f : α → β) (k : α) (v : β) : upd f k v k = v := by simp [upd]
theorem upd_other {α β} [DecidableEq α] (f : α → β) (k x : α) (v : β) (h : x ≠ k) : upd f k v x = f x := by
  simp [upd, h]

def PC.createId : PC → Option Nat
  | .cSetNX n => some n
  | .cSetData n => some n
  | .cAppC n => some n
  | .cAppG n => some n
  | _ => none

def PC.claimed : PC → Bool
  | .dIdxGet _ => true
  | .dIdxDel _ => true
  | .dData _ => true
  | .dRemC _ => true
  | .dRemG _ => true
  | .dRelease => true
  | _ => false

/-- A stored (or locally held) record of mapping `n` agrees with the ghost origin of `n`. -/
def RecOK (upds : List (Nat × String × Nat)) (s : Store) (n : Nat) (r : Rec) : Prop :=
  ∃ o, s.born n = some o ∧ r.FullDomain = o.dom ∧ r.ClientID = o.client ∧ r.ID = mappingID n ∧
    ((r.TargetHost = o.thost ∧ r.TargetPort = o.tport) ∨ (n, r.TargetHost, r.TargetPort) ∈ upds) ∧
    s.written n = true

def DelL (upds : List (Nat × String × Nat)) (s : Store) (n cl : Nat) (r : Rec) : Prop :=
  (n, cl) ∈ s.delReq ∧ r.ClientID = cl ∧ RecOK upds s n r

def Unindexed (s : Store) (n : Nat) : Prop := ∀ d, s.index d ≠ some n

/-- Facts about one thread (current operation, program counter) relative to the store. -/
def LInv (cf : Config) (upds : List (Nat × String × Nat)) (s : Store) : Op → PC → Prop
  | _, .idle => True
  | .create _ _ _ _ _, .cIncr => True
  | .create _ _ _ _ _, .cSetNX n => 1 ≤ n ∧ n ≤ s.next ∧ s.born n = none
  | .create cl sub base th tp, .cSetData n => s.born n = some ⟨sub ++ "." ++ base, cl, th, tp⟩ ∧ s.written n = false
  | .create cl sub base th tp, .cAppC n =>
      s.born n = some ⟨sub ++ "." ++ base, cl, th, tp⟩ ∧ ((n, cl) ∉ s.delReq → (s.data n).isSome = true) ∧
        s.written n = true
  | .create cl sub base th tp, .cAppG n =>
      s.born n = some ⟨sub ++ "." ++ base, cl, th, tp⟩ ∧ ((n, cl) ∉ s.delReq → (s.data n).isSome = true) ∧
        s.written n = true
  | .del n cl, .dGet => (n, cl) ∈ s.delReq
  | .del n cl, .dClaim r => DelL upds s n cl r ∧ cf.variant = .repaired
  | .del n cl, .dIdxGet r => DelL upds s n cl r ∧ cf.variant = .repaired ∧ s.claims n = true
  | .del n cl, .dIdxDel r =>
      DelL upds s n cl r ∧ (cf.variant = .repaired → s.claims n = true ∧ s.index r.FullDomain = some n)
  | .del n cl, .dData r => DelL upds s n cl r ∧ (cf.variant = .repaired → s.claims n = true) ∧ Unindexed s n
  | .del n cl, .dRemC r => DelL upds s n cl r ∧ (cf.variant = .repaired → s.claims n = true) ∧ Unindexed s n
  | .del n cl, .dRemG r => DelL upds s n cl r ∧ (cf.variant = .repaired → s.claims n = true) ∧ Unindexed s n
  | .del n cl, .dRelease =>
      (n, cl) ∈ s.delReq ∧ cf.variant = .repaired ∧ s.claims n = true ∧ Unindexed s n ∧ (∃ o', s.born n = some o')
  | .upd _ _ _ _ _, .uGet0 => True
  | .upd n st e _ _, .uGet1 r => RecOK upds s n r ∧ r.Status = st ∧ r.ExpiresAt = e
  | .upd n st e _ _, .uSet r => RecOK upds s n r ∧ r.Status = st ∧ r.ExpiresAt = e
  | .look _, .lIdx => True
  | .look h, .lData n => ∃ o, s.born n = some o ∧ o.dom = extractDomain h
  | .look _, .lCloud => True
  | _, _ => False

def TInv (cf : Config) (upds : List (Nat × String × Nat)) (s : Store) (th : Thread) : Prop :=
  match th.todo with
  | [] => th.pc = .idle
  | o :: _ => LInv cf upds s o th.pc

/-- thread `th` is inside the claimed region of `DeleteMapping` for mapping `n` -/
def InClaimed (th : Thread) (n : Nat) : Prop := ∃ cl rest, th.todo = .del n cl :: rest ∧ th.pc.claimed = true

structure Inv (cf : Config) (ops : List Op) (exts : List PM) (c : Cfg) : Prop where
  thr : ∀ t, TInv cf (updTargets ops) c.st (c.th t)
  mem : ∀ t o, o ∈ (c.th t).todo → o ∈ ops
  bornRange : ∀ n o, c.st.born n = some o → 1 ≤ n ∧ n ≤ c.st.next
  dataOK : ∀ n r, c.st.data n = some r → RecOK (updTargets ops) c.st n r
  g1 : cf.variant = .repaired → ∀ n o, c.st.born n = some o → (n, o.client) ∉ c.st.delReq → c.st.index o.dom = some n
  c6 : ∀ d n, c.st.index d = some n → ∃ o, c.st.born n = some o ∧ o.dom = d
  regOK : ∀ k m, c.st.registry k = some m → m ∈ exts ∧ m.fullDomain = k
  uniqId : ∀ t t' n, t ≠ t' → (c.th t).pc.createId = some n → (c.th t').pc.createId ≠ some n
  uniqClaim : cf.variant = .repaired → ∀ t t' n, t ≠ t' → InClaimed (c.th t) n → ¬ InClaimed (c.th t') n
  cloudSub : ∀ m, m ∈ cf.cloud → m ∈ exts
  wBorn : ∀ n, c.st.written n = true → ∃ o, c.st.born n = some o
  g2 : ∀ n o, c.st.born n = some o → c.st.written n = false ∨ (c.st.data n).isSome = true ∨ Unindexed c.st n
  settled : ∀ n o, c.st.born n = some o → (n, o.client) ∉ c.st.delReq → (∀ t, (c.th t).pc.createId ≠ some n) →
    (c.st.data n).isSome = true
  bornDom : ∀ n o, c.st.born n = some o → o.dom ∈ createDomains ops

/-! ### monotonicity of the thread-local facts -/

/-- The part of the store the thread-local facts of *other* threads depend on evolves monotonically,
except for the listed special events. -/
structure Mono (s s' : Store) : Prop where
  next : s.next ≤ s'.next
  born : ∀ n o, s.born n = some o → s'.born n = some o
  delReq : ∀ x, x ∈ s.delReq → x ∈ s'.delReq
  written : ∀ n, s.written n = true → s'.written n = true

theorem RecOK.mono {upds s s' n r} (m : Mono s s') (h : RecOK upds s n r) : RecOK upds s' n r := by
  obtain ⟨o, ho, h1, h2, h3, h4, h5⟩ := h
  exact ⟨o, m.born n o ho, h1, h2, h3, h4, m.written n h5⟩

theorem DelL.mono {upds s s' n cl r} (m : Mono s s') (h : DelL upds s n cl r) : DelL upds s' n cl r :=
  ⟨m.delReq _ h.1, h.2.1, h.2.2.mono m⟩

/-- Frame lemma: the facts of a thread that does not move survive a step of another thread, provided
the special facts it relies on (unborn id, stored record, claim flag, index entry, unindexed) survive. -/
theorem LInv.frame {cf upds s s'} (m : Mono s s') (o : Op) (pc : PC)
    (hborn : ∀ n, pc.createId = some n → s.born n = none → s'.born n = none)
    (hdata : ∀ n o', s.born n = some o' → (n, o'.client) ∉ s'.delReq → pc.createId = some n →
      (s.data n).isSome = true → (s'.data n).isSome = true)
    (hclaims : cf.variant = .repaired → ∀ n, (∃ cl, o = .del n cl) → pc.claimed = true → s.claims n = true → s'.claims n = true)
    (hindex : cf.variant = .repaired → ∀ n r, (∃ cl, o = .del n cl) → pc = .dIdxDel r → s.index r.FullDomain = some n → s'.index r.FullDomain = some n)
    (hunidx : ∀ n, (∃ cl, o = .del n cl) → (∃ o', s.born n = some o') → Unindexed s n → Unindexed s' n)
    (hwr : ∀ n, pc.createId = some n → s.written n = false → s'.written n = false)
    (h : LInv cf upds s o pc) : LInv cf upds s' o pc := by
  cases o with
  | create cl sub base th tp =>
    cases pc <;> simp only [LInv] at h ⊢ <;> try trivial
    · exact ⟨h.1, Nat.le_trans h.2.1 m.next, hborn _ rfl h.2.2⟩
    · exact ⟨m.born _ _ h.1, hwr _ rfl h.2⟩
    · refine ⟨m.born _ _ h.1, fun hn => hdata _ _ h.1 hn rfl (h.2.1 (fun hm => hn (m.delReq _ hm))), m.written _ h.2.2⟩
    · refine ⟨m.born _ _ h.1, fun hn => hdata _ _ h.1 hn rfl (h.2.1 (fun hm => hn (m.delReq _ hm))), m.written _ h.2.2⟩
  | del n cl =>
    have hb : ∀ r, DelL upds s n cl r → ∃ o', s.born n = some o' := fun r hd => ⟨_, hd.2.2.choose_spec.1⟩
    cases pc <;> simp only [LInv] at h ⊢ <;> try trivial
    · exact m.delReq _ h
    · exact ⟨h.1.mono m, h.2⟩
    · exact ⟨h.1.mono m, h.2.1, hclaims h.2.1 n ⟨cl, rfl⟩ rfl h.2.2⟩
    · exact ⟨h.1.mono m, fun hv => ⟨hclaims hv n ⟨cl, rfl⟩ rfl (h.2 hv).1, hindex hv n _ ⟨cl, rfl⟩ rfl (h.2 hv).2⟩⟩
    · exact ⟨h.1.mono m, fun hv => hclaims hv n ⟨cl, rfl⟩ rfl (h.2.1 hv), hunidx n ⟨cl, rfl⟩ (hb _ h.1) h.2.2⟩
    · exact ⟨h.1.mono m, fun hv => hclaims hv n ⟨cl, rfl⟩ rfl (h.2.1 hv), hunidx n ⟨cl, rfl⟩ (hb _ h.1) h.2.2⟩
    · exact ⟨h.1.mono m, fun hv => hclaims hv n ⟨cl, rfl⟩ rfl (h.2.1 hv), hunidx n ⟨cl, rfl⟩ (hb _ h.1) h.2.2⟩
    · obtain ⟨o', ho'⟩ := h.2.2.2.2
      exact ⟨m.delReq _ h.1, h.2.1, hclaims h.2.1 n ⟨cl, rfl⟩ rfl h.2.2.1, hunidx n ⟨cl, rfl⟩ ⟨o', ho'⟩ h.2.2.2.1, ⟨o', m.born _ _ ho'⟩⟩
  | upd n st e th tp =>
    cases pc <;> simp only [LInv] at h ⊢ <;> try trivial
    · exact ⟨h.1.mono m, h.2⟩
    · exact ⟨h.1.mono m, h.2⟩
  | look host =>
    cases pc <;> simp only [LInv] at h ⊢ <;> try trivial
    obtain ⟨o, ho, hd⟩ := h
    exact ⟨o, m.born _ _ ho, hd⟩

end Tunnox.C19
