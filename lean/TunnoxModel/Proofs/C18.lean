import TunnoxModel.Spec.C18
/-! Helper lemmas for C18: the simulation between the protector model and the ideal ledger. -/
namespace Tunnox.C18
open Tunnox.PredPrelude Gen

/-! ### expiry predicates regenerated from Go, in arithmetic form -/

theorem ban_isExpired_eq (now : Nat) (r : BanRecord) :
    security.BanRecord.isExpired now r = (!(r.ExpiresAt == 0) && decide (r.ExpiresAt < now)) := by
  simp [security.BanRecord.isExpired, timeIsZero, timeAfter, TimeLike.toTime]

theorem ip_isExpired_eq (now : Nat) (r : IPRecord) :
    security.IPRecord.isExpired now r = (!(r.ExpiresAt == 0) && decide (r.ExpiresAt < now)) := by
  simp [security.IPRecord.isExpired, timeIsZero, timeAfter, TimeLike.toTime]

/-! ### A. failure table -/

def frView (fr : Option FailureRecord) : FailureRecord := fr.getD ⟨[], 0⟩

/-- The model's failure record agrees with the ledger's list on the total and on every window
from now on (the model prunes eagerly, the ledger never prunes). -/
def RFr (cfg : BruteForceConfig) (t : Nat) (fr : Option FailureRecord) (fails : List Nat) : Prop :=
  (frView fr).TotalCount = fails.length ∧
  ∀ t', t ≤ t' → (frView fr).Failures.filter (inWindow cfg t') = fails.filter (inWindow cfg t')

theorem inWindow_mono (cfg : BruteForceConfig) {t t' : Nat} (h : t ≤ t') (x : Nat)
    (hx : inWindow cfg t' x = true) : inWindow cfg t x = true := by
  simp only [inWindow, decide_eq_true_eq] at *
  omega

theorem filter_prune (cfg : BruteForceConfig) {t t' : Nat} (h : t ≤ t') (l : List Nat) :
    (l.filter (inWindow cfg t)).filter (inWindow cfg t') = l.filter (inWindow cfg t') := by
  rw [List.filter_filter]
  apply List.filter_congr
  intro x _
  cases hx : inWindow cfg t' x
  · simp
  · simp [inWindow_mono cfg h x hx]

theorem RFr_mono (cfg : BruteForceConfig) {t t' : Nat} (h : t ≤ t') {fr fails}
    (hr : RFr cfg t fr fails) : RFr cfg t' fr fails :=
  ⟨hr.1, fun t'' h'' => hr.2 t'' (Nat.le_trans h h'')⟩

theorem RFr_nil (cfg : BruteForceConfig) (t : Nat) : RFr cfg t none [] := by
  simp [RFr, frView]

theorem RFr_fail (cfg : BruteForceConfig) (t : Nat) {fr fails} (hr : RFr cfg t fr fails) :
    RFr cfg t (some (recordStep1 cfg t fr)) (fails ++ [t]) ∧
    recordDec cfg t fr = specDec cfg t (fails ++ [t]) := by
  have h1 := hr.1
  have h2 := hr.2
  have hF : (recordStep1 cfg t fr).Failures = (fails ++ [t]).filter (inWindow cfg t) := by
    simp only [recordStep1, cleanupOldFailures, List.filter_append]
    rw [show (Option.getD fr ⟨[], 0⟩) = frView fr from rfl, h2 t (Nat.le_refl t)]
  have hT : (recordStep1 cfg t fr).TotalCount = (fails ++ [t]).length := by
    simp only [recordStep1, cleanupOldFailures, List.length_append, List.length_singleton]
    rw [show (Option.getD fr ⟨[], 0⟩) = frView fr from rfl, h1]
  refine ⟨⟨?_, ?_⟩, ?_⟩
  · simpa [frView] using hT
  · intro t' ht'
    simp only [frView, Option.getD_some]
    rw [hF, filter_prune cfg ht']
  · simp only [recordDec, decide2, specDec, hF, hT]

theorem RFr_cleanup (cfg : BruteForceConfig) (t : Nat) {fr fails} (hr : RFr cfg t fr fails) :
    RFr cfg t (cleanupFr cfg t fr)
      (if (fails.filter (inWindow cfg t)).length == 0 then [] else fails) := by
  have h1 := hr.1
  have h2 := hr.2
  cases fr with
  | none =>
    have : fails = [] := by
      have : fails.length = 0 := by simpa [frView] using h1.symm
      exact List.eq_nil_of_length_eq_zero this
    subst this
    simp [cleanupFr, RFr, frView]
  | some r =>
    have hw : r.Failures.filter (inWindow cfg t) = fails.filter (inWindow cfg t) := by
      simpa [frView] using h2 t (Nat.le_refl t)
    simp only [cleanupFr, cleanupOldFailures, hw]
    cases hz : ((fails.filter (inWindow cfg t)).length == 0)
    · simp only [Bool.false_eq_true, if_false]
      refine ⟨by simpa [frView] using h1, ?_⟩
      intro t' ht'
      simp only [frView, Option.getD_some, ← hw]
      rw [filter_prune cfg ht']
      simpa [frView] using h2 t' ht'
    · simp only [if_true]
      exact RFr_nil cfg t

/-! ### A. ban table -/

/-- The ban record agrees with the ledger: a permanent lock is a permanent record; otherwise the
record (if still present) ends exactly at `till`, and a missing record means `till` is over. -/
def RBan (B t : Nat) (ban : Option BanRecord) (perm : Bool) (till : Nat) : Prop :=
  till ≤ t + B ∧
  match perm, ban with
  | true, some r => r.ExpiresAt = 0
  | true, none => False
  | false, none => till < t
  | false, some r => r.ExpiresAt = till ∧ till ≠ 0

theorem RBan_mono {B t t' : Nat} (h : t ≤ t') {ban perm till} (hr : RBan B t ban perm till) :
    RBan B t' ban perm till := by
  obtain ⟨h1, h2⟩ := hr
  refine ⟨by omega, ?_⟩
  cases perm <;> cases ban <;> simp_all <;> omega

theorem RBan_query {B t : Nat} {ban perm till} (hr : RBan B t ban perm till) :
    isBanned t ban = (perm || decide (t ≤ till)) := by
  obtain ⟨_, h2⟩ := hr
  cases perm with
  | true =>
    cases ban with
    | none => exact h2.elim
    | some r =>
      have h2 : r.ExpiresAt = 0 := h2
      simp [isBanned, ban_isExpired_eq, h2]
  | false =>
    cases ban with
    | none =>
      have h2 : till < t := h2
      simp [isBanned]; omega
    | some r =>
      obtain ⟨h3, h4⟩ : r.ExpiresAt = till ∧ till ≠ 0 := h2
      have hz : (till == 0) = false := by simp; omega
      simp only [isBanned, ban_isExpired_eq, h3, hz, Bool.not_false, Bool.true_and, Bool.false_or]
      by_cases h : till < t
      · have : ¬ t ≤ till := by omega
        simp [h, this]
      · have : t ≤ till := by omega
        simp [h, this]

theorem RBan_unban {B t : Nat} {ban perm till} (hr : RBan B t ban perm till) :
    RBan B t (unbanIfExpired t ban) perm till := by
  obtain ⟨h1, h2⟩ := hr
  refine ⟨h1, ?_⟩
  cases perm <;> cases ban with
  | none => simp_all [unbanIfExpired]
  | some r =>
    simp only [unbanIfExpired, ban_isExpired_eq]
    simp only at h2
    by_cases he : (!(r.ExpiresAt == 0) && decide (r.ExpiresAt < t)) = true
    · simp only [he, if_true]
      simp_all
      try omega
    · simp only [he]
      simpa using h2

theorem RBan_cleanup {B t : Nat} {ban perm till} (hr : RBan B t ban perm till) :
    RBan B t (cleanupBan t ban) perm till := by
  obtain ⟨h1, h2⟩ := hr
  refine ⟨h1, ?_⟩
  cases perm <;> cases ban with
  | none => simp_all [cleanupBan]
  | some r =>
    simp only [cleanupBan, timeIsZero, timeAfter, TimeLike.toTime, id]
    simp only at h2
    by_cases hz : (r.ExpiresAt == 0) = true
    · simp only [hz, if_true]; simpa using h2
    · simp only [hz]
      by_cases he : decide (r.ExpiresAt < t) = true
      · simp only [he, if_true]; simp_all; try omega
      · simp only [he]; simpa using h2

theorem lock_fails (cfg : BruteForceConfig) (t : Nat) (d : Dec) (l : Ledger) : (lock cfg t d l).fails = l.fails := by
  cases d <;> rfl
theorem lock_pend (cfg : BruteForceConfig) (t : Nat) (d : Dec) (l : Ledger) : (lock cfg t d l).pend = l.pend := by
  cases d <;> rfl

theorem RBan_apply (cfg : BruteForceConfig) (hB : 0 < cfg.BanDuration) (t : Nat) (d : Dec) {ban} {l : Ledger}
    (hr : RBan cfg.BanDuration t ban l.perm l.till) :
    RBan cfg.BanDuration t (applyDec cfg t d ban) (lock cfg t d l).perm (lock cfg t d l).till := by
  obtain ⟨h1, h2⟩ := hr
  cases d with
  | none => exact ⟨h1, h2⟩
  | perm =>
    refine ⟨h1, ?_⟩
    cases ban <;> simp [applyDec, banIP, lock]
  | temp =>
    have hmax : max l.till (t + cfg.BanDuration) = t + cfg.BanDuration := Nat.max_eq_right h1
    refine ⟨by simp only [lock, hmax]; omega, ?_⟩
    simp only [applyDec, banIP, lock, hmax, hB, if_true, decide_true, Bool.and_true, timeIsZero, TimeLike.toTime, id]
    cases hp : l.perm <;> cases ban with
    | none => simp only [hp] at h2 <;> simp <;> omega
    | some r =>
      simp only [hp] at h2
      by_cases hz : (r.ExpiresAt == 0) = true
      · simp only [hz, if_true]
        simp_all
      · simp only [hz]
        simp_all
        try omega

/-! ### A. the simulation -/

def RComp (cfg : BruteForceConfig) (t : Nat) (c : Comp) (l : Ledger) : Prop :=
  RFr cfg t c.fr l.fails ∧ c.pend = l.pend ∧ RBan cfg.BanDuration t c.ban l.perm l.till

theorem RComp_mono (cfg : BruteForceConfig) {t t' : Nat} (h : t ≤ t') {c l} (hr : RComp cfg t c l) :
    RComp cfg t' c l := ⟨RFr_mono cfg h hr.1, hr.2.1, RBan_mono h hr.2.2⟩

theorem RComp_empty (cfg : BruteForceConfig) {t : Nat} (ht : 0 < t) : RComp cfg t Comp.empty Ledger.empty := by
  refine ⟨RFr_nil cfg t, rfl, ?_⟩
  simp [RBan, Comp.empty, Ledger.empty]
  omega

theorem compStep_sim (cfg : BruteForceConfig) (hB : 0 < cfg.BanDuration) (t : Nat) (e : Ev) {c l}
    (hr : RComp cfg t c l) :
    RComp cfg t (compStep cfg t e c).1 (ledgerStep cfg t e l).1 ∧
    (compStep cfg t e c).2 = (ledgerStep cfg t e l).2 := by
  obtain ⟨hf, hp, hb⟩ := hr
  cases e with
  | fail a =>
    obtain ⟨hf', hd⟩ := RFr_fail cfg t hf
    simp only [compStep, ledgerStep, hd]
    refine ⟨⟨?_, ?_, ?_⟩, by trivial⟩
    · simpa [lock_fails] using hf'
    · simpa [lock_pend] using hp
    · exact RBan_apply cfg hB t _ (l := { l with fails := l.fails ++ [t] }) hb
  | failRec a =>
    obtain ⟨hf', hd⟩ := RFr_fail cfg t hf
    simp only [compStep, ledgerStep, hd]
    exact ⟨⟨hf', by simp only [hp], hb⟩, by trivial⟩
  | failBan a i =>
    simp only [compStep, ledgerStep, hp]
    refine ⟨⟨?_, ?_, ?_⟩, by trivial⟩
    · simpa [lock_fails] using hf
    · simp [lock_pend]
    · exact RBan_apply cfg hB t _ (l := { l with pend := l.pend.eraseIdx i }) hb
  | success a =>
    simp only [compStep, ledgerStep]
    exact ⟨⟨RFr_nil cfg t, hp, hb⟩, by trivial⟩
  | query a =>
    simp only [compStep, ledgerStep, Ledger.refuses]
    exact ⟨⟨hf, hp, hb⟩, by rw [RBan_query hb]⟩
  | asyncUnban a =>
    simp only [compStep, ledgerStep]
    exact ⟨⟨hf, hp, RBan_unban hb⟩, by trivial⟩
  | cleanup =>
    simp only [compStep, ledgerStep]
    refine ⟨⟨?_, ?_, ?_⟩, by trivial⟩
    · have := RFr_cleanup cfg t hf
      split <;> simp_all
    · split <;> simpa using hp
    · have := RBan_cleanup hb
      split <;> simpa using this

theorem step_sim (cfg : BruteForceConfig) (hB : 0 < cfg.BanDuration) (t : Nat) (e : Ev) {st : State} {ls : Ledgers}
    (hr : ∀ a, RComp cfg t (st a) (ls a)) :
    (∀ a, RComp cfg t ((step cfg (t, e) st).1 a) ((ledgersStep cfg (t, e) ls).1 a)) ∧
    (step cfg (t, e) st).2 = (ledgersStep cfg (t, e) ls).2 := by
  cases ht : e.target with
  | none =>
    simp only [step, ledgersStep, ht]
    exact ⟨fun a => (compStep_sim cfg hB t e (hr a)).1, by trivial⟩
  | some b =>
    simp only [step, ledgersStep, ht]
    refine ⟨fun a => ?_, (compStep_sim cfg hB t e (hr b)).2⟩
    by_cases hab : a = b
    · simp only [hab, if_true]
      exact (compStep_sim cfg hB t e (hr b)).1
    · simp only [hab, if_false]
      exact hr a

theorem run_sim (cfg : BruteForceConfig) (hB : 0 < cfg.BanDuration) (es : List TEv) :
    ∀ (t0 : Nat) (st : State) (ls : Ledgers), Sorted t0 es → (∀ a, RComp cfg t0 (st a) (ls a)) →
      run cfg es st = specRun cfg es ls := by
  induction es with
  | nil => intros; rfl
  | cons e es ih =>
    intro t0 st ls hs hr
    obtain ⟨h0, hs'⟩ := hs
    have hr' : ∀ a, RComp cfg e.1 (st a) (ls a) := fun a => RComp_mono cfg h0 (hr a)
    obtain ⟨hn, ha⟩ := step_sim cfg hB e.1 e.2 hr'
    simp only [run, specRun]
    rw [show (e : TEv) = (e.1, e.2) from rfl, ha, ih e.1 _ _ hs' hn]

/-! ### B. blacklist -/

theorem any_candidates (ip : Nat) (list : IPKey → Option IPRecord) (keys : List IPKey) (p : IPRecord → Bool) :
    (candidates ip list keys).any p =
    (keysFor ip keys).any (fun k => k.matches ip && (match list k with | some r => p r | none => false)) := by
  unfold candidates keysFor
  generalize (⟨ip, none⟩ :: keys.filter (fun k => k.plen.isSome) : List IPKey) = ks
  induction ks with
  | nil => rfl
  | cons k ks ih =>
    simp only [List.filterMap_cons, List.any_cons]
    cases hm : k.matches ip
    · simp [ih]
    · cases hl : list k
      · simp [ih]
      · simp [ih]

theorem findInList_isSome (now ip : Nat) (list : IPKey → Option IPRecord) (keys : List IPKey) :
    (findInList now ip list keys).isSome = (candidates ip list keys).any (fun _ => true) := by
  unfold findInList
  cases hf : (candidates ip list keys).find? (fun r => !(security.IPRecord.isExpired now r)) with
  | some r =>
    have := List.mem_of_find?_eq_some hf
    simp only [Option.isSome_some]
    symm
    rw [List.any_eq_true]
    exact ⟨r, this, rfl⟩
  | none =>
    cases hc : candidates ip list keys <;> simp

theorem findInList_blocked (now ip : Nat) (list : IPKey → Option IPRecord) (keys : List IPKey) :
    (match findInList now ip list keys with
     | some r => security.IPRecord.isExpired now r
     | none => true) =
    !((candidates ip list keys).any (fun r => !(security.IPRecord.isExpired now r))) := by
  unfold findInList
  cases hf : (candidates ip list keys).find? (fun r => !(security.IPRecord.isExpired now r)) with
  | some r =>
    have hm := List.mem_of_find?_eq_some hf
    have hp := List.find?_some hf
    have hany : (candidates ip list keys).any (fun r => !(security.IPRecord.isExpired now r)) = true :=
      List.any_eq_true.mpr ⟨r, hm, hp⟩
    simp only [hany, Bool.not_true]
    simpa using hp
  | none =>
    have hall := List.find?_eq_none.mp hf
    have hany : (candidates ip list keys).any (fun r => !(security.IPRecord.isExpired now r)) = false := by
      rw [List.any_eq_false]
      intro x hx
      exact hall x hx
    simp only [hany, Bool.not_false]
    cases hc : candidates ip list keys with
    | nil => rfl
    | cons r rs =>
      have := hall r (by rw [hc]; exact List.mem_cons_self)
      simpa using this

/-- The manager's lists agree with the ledger: same keys; an entry that is present is the ledger's
latest entry; an entry that is missing is, in the ledger, absent or over. -/
def RIpm (t : Nat) (m : IPM) (l : BLedger) : Prop :=
  m.bkeys = l.bkeys ∧ m.wkeys = l.wkeys ∧
  (∀ k, (m.whitelist k).isSome = l.white k) ∧
  ∀ k, match m.blacklist k with
       | some r => l.black k = some r.ExpiresAt
       | none => unexpired t (l.black k) = false

theorem unexpired_mono {t t' : Nat} (h : t ≤ t') (e : Option Nat) (hu : unexpired t e = false) :
    unexpired t' e = false := by
  cases e with
  | none => rfl
  | some x =>
    simp only [unexpired, Bool.or_eq_false_iff, decide_eq_false_iff_not] at *
    exact ⟨hu.1, by omega⟩

theorem RIpm_mono {t t' : Nat} (h : t ≤ t') {m l} (hr : RIpm t m l) : RIpm t' m l := by
  obtain ⟨h1, h2, h3, h4⟩ := hr
  refine ⟨h1, h2, h3, fun k => ?_⟩
  have := h4 k
  cases hb : m.blacklist k with
  | none => simp only [hb] at this ⊢; exact unexpired_mono h _ this
  | some r => simp only [hb] at this ⊢; exact this

theorem RIpm_empty (t : Nat) : RIpm t IPM.empty BLedger.empty := by
  refine ⟨rfl, rfl, fun _ => rfl, fun _ => rfl⟩

theorem unexpired_of_record (t : Nat) (r : IPRecord) :
    unexpired t (some r.ExpiresAt) = !(security.IPRecord.isExpired t r) := by
  simp only [unexpired, ip_isExpired_eq]
  cases hz : (r.ExpiresAt == 0)
  · by_cases h : r.ExpiresAt < t
    · have : ¬ t ≤ r.ExpiresAt := by omega
      simp [h, this]
    · have : t ≤ r.ExpiresAt := by omega
      simp [h, this]
  · simp

theorem RIpm_allowed {t : Nat} {m l} (hr : RIpm t m l) (ip : Nat) :
    isAllowed t ip m = l.allowed t ip := by
  obtain ⟨h1, h2, h3, h4⟩ := hr
  unfold isAllowed BLedger.allowed
  rw [h1, h2, findInList_isSome, any_candidates]
  have hw : (fun k : IPKey => k.matches ip && (match m.whitelist k with | some _ => true | none => false)) =
            (fun k : IPKey => k.matches ip && l.white k) := by
    funext k
    rw [← h3 k]
    cases m.whitelist k <;> rfl
  rw [hw]
  have hblk := findInList_blocked t ip m.blacklist l.bkeys
  rw [any_candidates] at hblk
  have hb : (fun k : IPKey => k.matches ip &&
              (match m.blacklist k with | some r => !(security.IPRecord.isExpired t r) | none => false)) =
            (fun k : IPKey => k.matches ip && unexpired t (l.black k)) := by
    funext k
    have := h4 k
    cases hbk : m.blacklist k with
    | none => simp only [hbk] at this ⊢; rw [this]
    | some r => simp only [hbk] at this ⊢; rw [this, unexpired_of_record]
  rw [hb] at hblk
  cases hwl : (keysFor ip l.wkeys).any (fun k => k.matches ip && l.white k)
  · simp only [Bool.false_eq_true, if_false, Bool.false_or]
    exact hblk
  · simp

theorem ipmStep_sim (t : Nat) (e : IEv) {m l} (hr : RIpm t m l) :
    RIpm t (ipmStep t e m).1 (bledgerStep t e l).1 ∧ (ipmStep t e m).2 = (bledgerStep t e l).2 := by
  have hr0 := hr
  obtain ⟨h1, h2, h3, h4⟩ := hr
  cases e with
  | addBlack k dur =>
    refine ⟨⟨by simp [ipmStep, bledgerStep, h1], h2, h3, fun k' => ?_⟩, rfl⟩
    simp only [ipmStep, bledgerStep, upd]
    by_cases hk : k' = k
    · simp [hk]
    · simp only [hk, if_false]; exact h4 k'
  | removeBlack k =>
    refine ⟨⟨h1, h2, h3, fun k' => ?_⟩, rfl⟩
    simp only [ipmStep, bledgerStep, upd]
    by_cases hk : k' = k
    · simp [hk, unexpired]
    · simp only [hk, if_false]; exact h4 k'
  | addWhite k =>
    refine ⟨⟨h1, by simp [ipmStep, bledgerStep, h2], fun k' => ?_, h4⟩, rfl⟩
    simp only [ipmStep, bledgerStep, upd]
    by_cases hk : k' = k
    · simp [hk]
    · simp only [hk, if_false]; exact h3 k'
  | removeWhite k =>
    refine ⟨⟨h1, h2, fun k' => ?_, h4⟩, rfl⟩
    simp only [ipmStep, bledgerStep, upd]
    by_cases hk : k' = k
    · simp [hk]
    · simp only [hk, if_false]; exact h3 k'
  | isAllowed ip =>
    refine ⟨hr0, ?_⟩
    simp only [ipmStep, bledgerStep, RIpm_allowed hr0 ip]
  | asyncRemove ip =>
    refine ⟨⟨h1, h2, h3, fun k' => ?_⟩, rfl⟩
    simp only [ipmStep, bledgerStep]
    have := h4 k'
    by_cases hk : k' = ⟨ip, none⟩
    · simp only [hk, if_true]
      rw [hk] at this
      cases hb : m.blacklist ⟨ip, none⟩ with
      | none => simp only [hb] at this ⊢; exact this
      | some r =>
        simp only [hb] at this ⊢
        cases he : security.IPRecord.isExpired t r
        · simp only [Bool.false_eq_true, if_false]; exact this
        · simp only [if_true]
          rw [this, unexpired_of_record, he]; rfl
    · simp only [hk, if_false]; exact this
  | cleanup =>
    refine ⟨⟨h1, h2, h3, fun k' => ?_⟩, rfl⟩
    simp only [ipmStep, bledgerStep]
    have := h4 k'
    cases hb : m.blacklist k' with
    | none => simp only [hb] at this ⊢; exact this
    | some r =>
      simp only [hb] at this ⊢
      simp only [timeIsZero, timeAfter, TimeLike.toTime, id]
      by_cases hz : (r.ExpiresAt == 0) = true
      · simp only [hz, if_true]; exact this
      · simp only [hz, if_false]
        by_cases hlt : r.ExpiresAt < t
        · simp only [hlt, decide_true, if_true]
          rw [this, unexpired_of_record, ip_isExpired_eq]
          simp [hlt]
          simpa using hz
        · simp only [hlt, decide_false, Bool.false_eq_true, if_false]; exact this

theorem ipmRun_sim (es : List (Nat × IEv)) :
    ∀ (t0 : Nat) (m : IPM) (l : BLedger), Sorted t0 es → RIpm t0 m l → ipmRun es m = bspecRun es l := by
  induction es with
  | nil => intros; rfl
  | cons e es ih =>
    intro t0 m l hs hr
    obtain ⟨h0, hs'⟩ := hs
    obtain ⟨hn, ha⟩ := ipmStep_sim e.1 e.2 (RIpm_mono h0 hr)
    simp only [ipmRun, bspecRun]
    rw [ha, ih e.1 _ _ hs' hn]

end Tunnox.C18
