import TunnoxModel.Spec.C18
/-! Helper lemmas for C18: the simulation between the protector model and the ideal ledger. -/
namespace Tunnox.C18
open Tunnox.PredPrelude Gen

/-! ### expiry predicates regenerated from Go, in arithmetic form -/

theorem ban_isExpired_eq (now : Nat) (r : BanRecord) :
    security.BanRecord.isExpired now r = (!(r.ExpiresAt == 0) && decide (r.ExpiresAt < now)) := by
  simp [security.BanRecord.isExpired, timeIsZero, timeAfter, TimeLike.toTime]

theorem ip_isExpired_eq (now : Nat) (r : IPRecord) :
    security.IPRecord.isExpired now r = (!(r.ExpiresAt == 0) && decide (r.ExpiresAt < now)) := by
  simp [security.IPRecord.isExpired, timeIsZero, timeAfter, TimeLike.toTime]

/-! ### A. failure table -/

def frView (fr : Option FailureRecord) : FailureRecord := fr.getD ⟨[], 0⟩

/-- The model's failure record agrees with the ledger's list on the total and on every window
from now on (the model prunes eagerly, the ledger never prunes). -/
def RFr (cfg : BruteForceConfig) (t : Nat) (fr : Option FailureRecord) (fails : List Nat) : Prop :=
  (frView fr).TotalCount = fails.length ∧
  ∀ t', t ≤ t' → (frView fr).Failures.filter (inWindow cfg t') = fails.filter (inWindow cfg t')

theorem inWindow_mono (cfg : BruteForceConfig) {t t' : Nat} (h : t ≤ t') (x : Nat)
    (hx : inWindow cfg t' x = true) : inWindow cfg t x = true := by
  simp only [inWindow, decide_eq_true_eq] at *
  omega

theorem filter_prune (cfg : BruteForceConfig) {t t' : Nat} (h : t ≤ t') (l : List Nat) :
    (l.filter (inWindow cfg t)).filter (inWindow cfg t') = l.filter (inWindow cfg t') := by
  rw [List.filter_filter]
  apply List.filter_congr
  intro x _
  cases hx : inWindow cfg t' x
  · simp
  · simp [inWindow_mono cfg h x hx]

theorem RFr_mono (cfg : BruteForceConfig) {t t' : Nat} (h : t ≤ t') {fr fails}
    (hr : RFr cfg t fr fails) : RFr cfg t' fr fails :=
  ⟨hr.1, fun t'' h'' => hr.2 t'' (Nat.le_trans h h'')⟩

theorem RFr_nil (cfg : BruteForceConfig) (t : Nat) : RFr cfg t none [] := by
  simp [RFr, frView]

theorem RFr_fail (cfg : BruteForceConfig) (t : Nat) {fr fails} (hr : RFr cfg t fr fails) :
    RFr cfg t (some (recordStep1 cfg t fr)) (fails ++ [t]) ∧
    recordDec cfg t fr = specDec cfg t (fails ++ [t]) := by
  have h1 := hr.1
  have h2 := hr.2
  have hF : (recordStep1 cfg t fr).Failures = (fails ++ [t]).filter (inWindow cfg t) := by
    simp only [recordStep1, cleanupOldFailures, List.filter_append]
    rw [show (Option.getD fr ⟨[], 0⟩) = frView fr from rfl, h2 t (Nat.le_refl t)]
  have hT : (recordStep1 cfg t fr).TotalCount = (fails ++ [t]).length := by
    simp only [recordStep1, cleanupOldFailures, List.length_append, List.length_singleton]
    rw [show (Option.getD fr ⟨[], 0⟩) = frView fr from rfl, h1]
  refine ⟨⟨?_, ?_⟩, ?_⟩
  · simpa [frView] using hT
  · intro t' ht'
    simp only [frView, Option.getD_some]
    rw [hF, filter_prune cfg ht']
  · simp only [recordDec, decide2, specDec, hF, hT]

theorem RFr_cleanup (cfg : BruteForceConfig) (t : Nat) {fr fails} (hr : RFr cfg t fr fails) :
    RFr cfg t (cleanupFr cfg t fr)
      (if (fails.filter (inWindow cfg t)).length == 0 then [] else fails) := by
  have h1 := hr.1
  have h2 := hr.2
  cases fr with
  | none =>
    have : fails = [] := by
      have : fails.length = 0 := by simpa [frView] using h1.symm
      exact List.eq_nil_of_length_eq_zero this
    subst this
    simp [cleanupFr, RFr, frView]
  | some r =>
    have hw : r.Failures.filter (inWindow cfg t) = fails.filter (inWindow cfg t) := by
      simpa [frView] using h2 t (Nat.le_refl t)
    simp only [cleanupFr, cleanupOldFailures, hw]
    cases hz : ((fails.filter (inWindow cfg t)).length == 0)
    · simp only [Bool.false_eq_true, if_false]
      refine ⟨by simpa [frView] using h1, ?_⟩
      intro t' ht'
      simp only [frView, Option.getD_some, ← hw]
      rw [filter_prune cfg ht']
      simpa [frView] using h2 t' ht'
    · simp only [if_true]
      exact RFr_nil cfg t

/-! ### A. ban table -/

/-- The ban record agrees with the ledger: a permanent lock is a permanent record; otherwise the
record (if still present) ends exactly at `till`, and a missing record means `till` is over. -/
def RBan (B t : Nat) (ban : Option BanRecord) (perm : Bool) (till : Nat) : Prop :=
  till ≤ t + B ∧
  match perm, ban with
  | true, some r => r.ExpiresAt = 0
  | true, none => False
  | false, none => till < t
  | false, some r => r.ExpiresAt = till ∧ till ≠ 0

theorem RBan_mono {B t t' : Nat} (h : t ≤ t') {ban perm till} (hr : RBan B t ban perm till) :
    RBan B t' ban perm till := by
  obtain ⟨h1, h2⟩ := hr
  refine ⟨by omega, ?_⟩
  cases perm <;> cases ban <;> simp_all <;> omega

theorem RBan_query {B t : Nat} {ban perm till} (hr : RBan B t ban perm till) :
    isBanned t ban = (perm || decide (t ≤ till)) := by
  obtain ⟨_, h2⟩ := hr
  cases perm with
  | true =>
    cases ban with
    | none => exact h2.elim
    | some r =>
      have h2 : r.ExpiresAt = 0 := h2
      simp [isBanned, ban_isExpired_eq, h2]
  | false =>
    cases ban with
    | none =>
      have h2 : till < t := h2
      simp [isBanned]; omega
    | some r =>
      obtain ⟨h3, h4⟩ : r.ExpiresAt = till ∧ till ≠ 0 := h2
      have hz : (till == 0) = false := by simp; omega
      simp only [isBanned, ban_isExpired_eq, h3, hz, Bool.not_false, Bool.true_and, Bool.false_or]
      by_cases h : till < t
      · have : ¬ t ≤ till := by omega
        simp [h, this]
      · have : t ≤ till := by omega
        simp [h, this]

theorem RBan_unban {B t : Nat} {ban perm till} (hr : RBan B t ban perm till) :
    RBan B t (unbanIfExpired t ban) perm till := by
  obtain ⟨h1, h2⟩ := hr
  refine ⟨h1, ?_⟩
  cases perm <;> cases ban with
  | none => simp_all [unbanIfExpired]
  | some r =>
    simp only [unbanIfExpired, ban_isExpired_eq]
    simp only at h2
    by_cases he : (!(r.ExpiresAt == 0) && decide (r.ExpiresAt < t)) = true
    · simp only [he, if_true]
      simp_all
      try omega
    · simp only [he]
      simpa using h2

theorem RBan_cleanup {B t : Nat} {ban perm till} (hr : RBan B t ban perm till) :
    RBan B t (cleanupBan t ban) perm till := by
  obtain ⟨h1, h2⟩ := hr
  refine ⟨h1, ?_⟩
  cases perm <;> cases ban with
  | none => simp_all [cleanupBan]
  | some r =>
    simp only [cleanupBan, timeIsZero, timeAfter, TimeLike.toTime, id]
    simp only at h2
    by_cases hz : (r.ExpiresAt == 0) = true
    · simp only [hz, if_true]; simpa using h2
    · simp only [hz]
      by_cases he : decide (r.ExpiresAt < t) = true
      · simp only [he, if_true]; simp_all; try omega
      · simp only [he]; simpa using h2

theorem lock_fails (cfg : BruteForceConfig) (t : Nat) (d : Dec) (l : Ledger) : (lock cfg t d l).fails = l.fails := by
  cases d <;> rfl
theorem lock_pend (cfg : BruteForceConfig) (t : Nat) (d : Dec) (l : Ledger) : (lock cfg t d l).pend = l.pend := by
  cases d <;> rfl

theorem RBan_apply (cfg : BruteForceConfig) (hB : 0 < cfg.BanDuration) (t : Nat) (d : Dec) {ban} {l : Ledger}
    (hr : RBan cfg.BanDuration t ban l.perm l.till) :
    RBan cfg.BanDuration t (applyDec cfg t d ban) (lock cfg t d l).perm (lock cfg t d l).till := by
  obtain ⟨h1, h2⟩ := hr
  cases d with
  | none => exact ⟨h1, h2⟩
  | perm =>
    refine ⟨h1, ?_⟩
    cases ban <;> simp [applyDec, banIP, lock]
  | temp =>
    have hmax : max l.till (t + cfg.BanDuration) = t + cfg.BanDuration := Nat.max_eq_right h1
    refine ⟨by simp only [lock, hmax]; omega, ?_⟩
    simp only [applyDec, banIP, lock, hmax, hB, if_true, decide_true, Bool.and_true, timeIsZero, TimeLike.toTime, id]
    cases hp : l.perm <;> cases ban with
    | none => simp only [hp] at h2 <;> simp <;> omega
    | some r =>
      simp only [hp] at h2
      by_cases hz : (r.ExpiresAt == 0) = true
      · simp only [hz, if_true]
        simp_all
      · simp only [hz]
        simp_all
        try omega

/-! ### A. the simulation -/

def RComp (cfg : BruteForceConfig) (t : Nat) (c : Comp) (l : Ledger) : Prop :=
  RFr cfg t c.fr l.fails ∧ c.pend = l.pend ∧ RBan cfg.BanDuration t c.ban l.perm l.till

theorem RComp_mono (cfg : BruteForceConfig) {t t' : Nat} (h : t ≤ t') {c l} (hr : RComp cfg t c l) :
    RComp cfg t' c l := ⟨RFr_mono cfg h hr.1, hr.2.1, RBan_mono h hr.2.2⟩

theorem RComp_empty (cfg : BruteForceConfig) {t : Nat} (ht : 0 < t) : RComp cfg t Comp.empty Ledger.empty := by
  refine ⟨RFr_nil cfg t, rfl, ?_⟩
  simp [RBan, Comp.empty, Ledger.empty]
  omega

theorem compStep_sim (cfg : BruteForceConfig) (hB : 0 < cfg.BanDuration) (t : Nat) (e : Ev) {c l}
    (hr : RComp cfg t c l) :
    RComp cfg t (compStep cfg t e c).1 (ledgerStep cfg t e l).1 ∧
    (compStep cfg t e c).2 = (ledgerStep cfg t e l).2 := by
  obtain ⟨hf, hp, hb⟩ := hr
  cases e with
  | fail a =>
    obtain ⟨hf', hd⟩ := RFr_fail cfg t hf
    simp only [compStep, ledgerStep, hd]
    refine ⟨⟨?_, ?_, ?_⟩, by trivial⟩
    · simpa [lock_fails] using hf'
    · simpa [lock_pend] using hp
    · exact RBan_apply cfg hB t _ (l := { l with fails := l.fails ++ [t] }) hb
  | failRec a =>
    obtain ⟨hf', hd⟩ := RFr_fail cfg t hf
    simp only [compStep, ledgerStep, hd]
    exact ⟨⟨hf', by simp only [hp], hb⟩, by trivial⟩
  | failBan a i =>
    simp only [compStep, ledgerStep, hp]
    refine ⟨⟨?_, ?_, ?_⟩, by trivial⟩
    · simpa [lock_fails] using hf
    · simp [lock_pend]
    · exact RBan_apply cfg hB t _ (l := { l with pend := l.pend.eraseIdx i }) hb
  | success a =>
    simp only [compStep, ledgerStep]
    exact ⟨⟨RFr_nil cfg t, hp, hb⟩, by trivial⟩
  | query a =>
    simp only [compStep, ledgerStep, Ledger.refuses]
    exact ⟨⟨hf, hp, hb⟩, by rw [RBan_query hb]⟩
  | asyncUnban a =>
    simp only [compStep, ledgerStep]
    exact ⟨⟨hf, hp, RBan_unban hb⟩, by trivial⟩
  | cleanup =>
    simp only [compStep, ledgerStep]
    refine ⟨⟨?_, ?_, ?_⟩, by trivial⟩
    · have := RFr_cleanup cfg t hf
      split <;> simp_all
    · split <;> simpa using hp
    · have := RBan_cleanup hb
      split <;> simpa using this
  | cleanFr =>
    simp only [compStep, ledgerStep]
    refine ⟨⟨?_, ?_, ?_⟩, by trivial⟩
    · have := RFr_cleanup cfg t hf
      split <;> simp_all
    · split <;> simpa using hp
    · split <;> simpa using hb
  | cleanBan =>
    simp only [compStep, ledgerStep]
    exact ⟨⟨hf, hp, RBan_cleanup hb⟩, by trivial⟩
  | sweepScan =>
    simp only [compStep, ledgerStep]
    exact ⟨⟨hf, hp, hb⟩, by trivial⟩
  | sweepDelete =>
    simp only [compStep, ledgerStep]
    refine ⟨⟨hf, hp, ?_⟩, by trivial⟩
    show RBan cfg.BanDuration t (if c.marked then cleanupBan t c.ban else c.ban) l.perm l.till
    split
    · exact RBan_cleanup hb
    · exact hb

theorem step_sim (cfg : BruteForceConfig) (hB : 0 < cfg.BanDuration) (t : Nat) (e : Ev) {st : State} {ls : Ledgers}
    (hr : ∀ a, RComp cfg t (st a) (ls a)) :
    (∀ a, RComp cfg t ((step cfg (t, e) st).1 a) ((ledgersStep cfg (t, e) ls).1 a)) ∧
    (step cfg (t, e) st).2 = (ledgersStep cfg (t, e) ls).2 := by
  cases ht : e.target with
  | none =>
    simp only [step, ledgersStep, ht]
    exact ⟨fun a => (compStep_sim cfg hB t e (hr a)).1, by trivial⟩
  | some b =>
    simp only [step, ledgersStep, ht]
    refine ⟨fun a => ?_, (compStep_sim cfg hB t e (hr b)).2⟩
    by_cases hab : a = b
    · simp only [hab, if_true]
      exact (compStep_sim cfg hB t e (hr b)).1
    · simp only [hab, if_false]
      exact hr a

theorem run_sim (cfg : BruteForceConfig) (hB : 0 < cfg.BanDuration) (es : List TEv) :
    ∀ (t0 : Nat) (st : State) (ls : Ledgers), Sorted t0 es → (∀ a, RComp cfg t0 (st a) (ls a)) →
      run cfg es st = specRun cfg es ls := by
  induction es with
  | nil => intros; rfl
  | cons e es ih =>
    intro t0 st ls hs hr
    obtain ⟨h0, hs'⟩ := hs
    have hr' : ∀ a, RComp cfg e.1 (st a) (ls a) := fun a => RComp_mono cfg h0 (hr a)
    obtain ⟨hn, ha⟩ := step_sim cfg hB e.1 e.2 hr'
    simp only [run, specRun]
    rw [show (e : TEv) = (e.1, e.2) from rfl, ha, ih e.1 _ _ hs' hn]

/-! ### B. blacklist -/

theorem any_candidates (ip : Nat) (list : IPKey → Option IPRecord) (keys : List IPKey) (p : IPRecord → Bool) :
    (candidates ip list keys).any p =
    (keysFor ip keys).any (fun k => k.matches ip && (match list k with | some r => p r | none => false)) := by
  unfold candidates keysFor
  generalize (⟨ip, none⟩ :: keys.filter (fun k => k.plen.isSome) : List IPKey) = ks
  induction ks with
  | nil => rfl
  | cons k ks ih =>
    simp only [List.filterMap_cons, List.any_cons]
    cases hm : k.matches ip
    · simp [ih]
    · cases hl : list k
      · simp [ih]
      · simp [ih]

theorem findInList_isSome (now ip : Nat) (list : IPKey → Option IPRecord) (keys : List IPKey) :
    (findInList now ip list keys).isSome = (candidates ip list keys).any (fun _ => true) := by
  unfold findInList
  cases hf : (candidates ip list keys).find? (fun r => !(security.IPRecord.isExpired now r)) with
  | some r =>
    have := List.mem_of_find?_eq_some hf
    simp only [Option.isSome_some]
    symm
    rw [List.any_eq_true]
    exact ⟨r, this, rfl⟩
  | none =>
    cases hc : candidates ip list keys <;> simp

theorem findInList_blocked (now ip : Nat) (list : IPKey → Option IPRecord) (keys : List IPKey) :
    (match findInList now ip list keys with
     | some r => security.IPRecord.isExpired now r
     | none => true) =
    !((candidates ip list keys).any (fun r => !(security.IPRecord.isExpired now r))) := by
  unfold findInList
  cases hf : (candidates ip list keys).find? (fun r => !(security.IPRecord.isExpired now r)) with
  | some r =>
    have hm := List.mem_of_find?_eq_some hf
    have hp := List.find?_some hf
    have hany : (candidates ip list keys).any (fun r => !(security.IPRecord.isExpired now r)) = true :=
      List.any_eq_true.mpr ⟨r, hm, hp⟩
    simp only [hany, Bool.not_true]
    simpa using hp
  | none =>
    have hall := List.find?_eq_none.mp hf
    have hany : (candidates ip list keys).any (fun r => !(security.IPRecord.isExpired now r)) = false := by
      rw [List.any_eq_false]
      intro x hx
      exact hall x hx
    simp only [hany, Bool.not_false]
    cases hc : candidates ip list keys with
    | nil => rfl
    | cons r rs =>
      have := hall r (by rw [hc]; exact List.mem_cons_self)
      simpa using this

/-- The manager's lists agree with the ledger: same keys; an entry that is present is the ledger's
latest entry; an entry that is missing is, in the ledger, absent or over. -/
def RIpm (t : Nat) (m : IPM) (l : BLedger) : Prop :=
  m.bkeys = l.bkeys ∧ m.wkeys = l.wkeys ∧
  (∀ k, (m.whitelist k).isSome = l.white k) ∧
  (∀ k, match m.blacklist k with
       | some r => l.black k = some r.ExpiresAt
       | none => unexpired t (l.black k) = false) ∧
  -- what is persisted is what is in memory: a manager built over the storage starts from the same lists
  (∀ k, m.sblack k = m.blacklist k) ∧ (∀ k, m.swhite k = m.whitelist k)

theorem syncDel_eq (old new s : IPKey → Option IPRecord) (hs : ∀ k, s k = old k)
    (hn : ∀ k, new k = old k ∨ new k = none) : ∀ k, syncDel old new s k = new k := by
  intro k
  unfold syncDel
  rcases hn k with h | h
  · rw [h, hs k]; cases old k <;> simp
  · rw [h, hs k]; cases old k <;> simp

theorem upd_none_sub (m : IPKey → Option IPRecord) (k : IPKey) : ∀ k', upd m k none k' = m k' ∨ upd m k none k' = none := by
  intro k'; unfold upd; by_cases h : k' = k <;> simp [h]

theorem asyncRemoveList_sub (t ip : Nat) (m : IPKey → Option IPRecord) :
    ∀ k, asyncRemoveList t ip m k = m k ∨ asyncRemoveList t ip m k = none := by
  intro k; unfold asyncRemoveList
  by_cases h : k = ⟨ip, none⟩
  · simp only [h, if_true]; cases m ⟨ip, none⟩ with
    | none => simp
    | some r => by_cases he : security.IPRecord.isExpired t r = true <;> simp [he]
  · simp [h]

theorem cleanupList_sub (t : Nat) (m : IPKey → Option IPRecord) :
    ∀ k, cleanupList t m k = m k ∨ cleanupList t m k = none := by
  intro k; unfold cleanupList
  cases m k with
  | none => simp
  | some r =>
    by_cases h1 : timeIsZero r.ExpiresAt = true
    · simp [h1]
    · by_cases h2 : timeAfter t r.ExpiresAt = true <;> simp [h1, h2]

theorem unexpired_mono {t t' : Nat} (h : t ≤ t') (e : Option Nat) (hu : unexpired t e = false) :
    unexpired t' e = false := by
  cases e with
  | none => rfl
  | some x =>
    simp only [unexpired, Bool.or_eq_false_iff, decide_eq_false_iff_not] at *
    exact ⟨hu.1, by omega⟩

theorem RIpm_mono {t t' : Nat} (h : t ≤ t') {m l} (hr : RIpm t m l) : RIpm t' m l := by
  obtain ⟨h1, h2, h3, h4, hJ1, hJ2⟩ := hr
  refine ⟨h1, h2, h3, fun k => ?_, hJ1, hJ2⟩
  have := h4 k
  cases hb : m.blacklist k with
  | none => simp only [hb] at this ⊢; exact unexpired_mono h _ this
  | some r => simp only [hb] at this ⊢; exact this

theorem RIpm_empty (t : Nat) : RIpm t IPM.empty BLedger.empty := by
  refine ⟨rfl, rfl, fun _ => rfl, fun _ => rfl, fun _ => rfl, fun _ => rfl⟩

theorem unexpired_of_record (t : Nat) (r : IPRecord) :
    unexpired t (some r.ExpiresAt) = !(security.IPRecord.isExpired t r) := by
  simp only [unexpired, ip_isExpired_eq]
  cases hz : (r.ExpiresAt == 0)
  · by_cases h : r.ExpiresAt < t
    · have : ¬ t ≤ r.ExpiresAt := by omega
      simp [h, this]
    · have : t ≤ r.ExpiresAt := by omega
      simp [h, this]
  · simp

theorem RIpm_allowed {t : Nat} {m l} (hr : RIpm t m l) (ip : Nat) :
    isAllowed t ip m = l.allowed t ip := by
  obtain ⟨h1, h2, h3, h4, _, _⟩ := hr
  unfold isAllowed BLedger.allowed
  rw [h1, h2, findInList_isSome, any_candidates]
  have hw : (fun k : IPKey => k.matches ip && (match m.whitelist k with | some _ => true | none => false)) =
            (fun k : IPKey => k.matches ip && l.white k) := by
    funext k
    rw [← h3 k]
    cases m.whitelist k <;> rfl
  rw [hw]
  have hblk := findInList_blocked t ip m.blacklist l.bkeys
  rw [any_candidates] at hblk
  have hb : (fun k : IPKey => k.matches ip &&
              (match m.blacklist k with | some r => !(security.IPRecord.isExpired t r) | none => false)) =
            (fun k : IPKey => k.matches ip && unexpired t (l.black k)) := by
    funext k
    have := h4 k
    cases hbk : m.blacklist k with
    | none => simp only [hbk] at this ⊢; rw [this]
    | some r => simp only [hbk] at this ⊢; rw [this, unexpired_of_record]
  rw [hb] at hblk
  cases hwl : (keysFor ip l.wkeys).any (fun k => k.matches ip && l.white k)
  · simp only [Bool.false_eq_true, if_false, Bool.false_or]
    exact hblk
  · simp

theorem ipmStep_sim (t : Nat) (e : IEv) {m l} (hr : RIpm t m l) :
    RIpm t (ipmStep t e m).1 (bledgerStep t e l).1 ∧ (ipmStep t e m).2 = (bledgerStep t e l).2 := by
  have hr0 := hr
  obtain ⟨h1, h2, h3, h4, hJ1, hJ2⟩ := hr
  cases e with
  | addBlack k dur =>
    refine ⟨⟨by simp [ipmStep, bledgerStep, h1], h2, h3, fun k' => ?_, fun k' => ?_, hJ2⟩, rfl⟩
    · simp only [ipmStep, bledgerStep, upd]
      by_cases hk : k' = k
      · simp [hk]
      · simp only [hk, if_false]; exact h4 k'
    · simp only [ipmStep, upd]
      by_cases hk : k' = k
      · simp [hk]
      · simp only [hk, if_false]; exact hJ1 k'
  | removeBlack k =>
    refine ⟨⟨h1, h2, h3, fun k' => ?_, syncDel_eq _ _ _ hJ1 (upd_none_sub _ k), hJ2⟩, rfl⟩
    simp only [ipmStep, bledgerStep, upd]
    by_cases hk : k' = k
    · simp [hk, unexpired]
    · simp only [hk, if_false]; exact h4 k'
  | addWhite k =>
    refine ⟨⟨h1, by simp [ipmStep, bledgerStep, h2], fun k' => ?_, h4, hJ1, fun k' => ?_⟩, rfl⟩
    · simp only [ipmStep, bledgerStep, upd]
      by_cases hk : k' = k
      · simp [hk]
      · simp only [hk, if_false]; exact h3 k'
    · simp only [ipmStep, upd]
      by_cases hk : k' = k
      · simp [hk]
      · simp only [hk, if_false]; exact hJ2 k'
  | removeWhite k =>
    refine ⟨⟨h1, h2, fun k' => ?_, h4, hJ1, syncDel_eq _ _ _ hJ2 (upd_none_sub _ k)⟩, rfl⟩
    simp only [ipmStep, bledgerStep, upd]
    by_cases hk : k' = k
    · simp [hk]
    · simp only [hk, if_false]; exact h3 k'
  | isAllowed ip =>
    refine ⟨hr0, ?_⟩
    simp only [ipmStep, bledgerStep, RIpm_allowed hr0 ip]
  | asyncRemove ip =>
    refine ⟨⟨h1, h2, h3, fun k' => ?_, syncDel_eq _ _ _ hJ1 (asyncRemoveList_sub t ip _), hJ2⟩, rfl⟩
    simp only [ipmStep, bledgerStep, asyncRemoveList]
    have := h4 k'
    by_cases hk : k' = ⟨ip, none⟩
    · simp only [hk, if_true]
      rw [hk] at this
      cases hb : m.blacklist ⟨ip, none⟩ with
      | none => simp only [hb] at this ⊢; exact this
      | some r =>
        simp only [hb] at this ⊢
        cases he : security.IPRecord.isExpired t r
        · simp only [Bool.false_eq_true, if_false]; exact this
        · simp only [if_true]
          rw [this, unexpired_of_record, he]; rfl
    · simp only [hk, if_false]; exact this
  | cleanup =>
    refine ⟨⟨h1, h2, h3, fun k' => ?_, syncDel_eq _ _ _ hJ1 (cleanupList_sub t _), hJ2⟩, rfl⟩
    simp only [ipmStep, bledgerStep, cleanupList]
    have := h4 k'
    cases hb : m.blacklist k' with
    | none => simp only [hb] at this ⊢; exact this
    | some r =>
      simp only [hb] at this ⊢
      simp only [timeIsZero, timeAfter, TimeLike.toTime, id]
      by_cases hz : (r.ExpiresAt == 0) = true
      · simp only [hz, if_true]; exact this
      · simp only [hz]
        by_cases hlt : r.ExpiresAt < t
        · simp only [hlt, decide_true, if_true]
          rw [this, unexpired_of_record, ip_isExpired_eq]
          simp [hlt]
          simpa using hz
        · simp only [hlt, decide_false, Bool.false_eq_true, if_false]; exact this
  | restart =>
    refine ⟨⟨h1, h2, fun k => ?_, fun k => ?_, fun _ => rfl, fun _ => rfl⟩, rfl⟩
    · simp only [ipmStep, bledgerStep, hJ2 k]; exact h3 k
    · simp only [ipmStep, bledgerStep, hJ1 k]; exact h4 k

theorem ipmRun_sim (es : List (Nat × IEv)) :
    ∀ (t0 : Nat) (m : IPM) (l : BLedger), Sorted t0 es → RIpm t0 m l → ipmRun es m = bspecRun es l := by
  induction es with
  | nil => intros; rfl
  | cons e es ih =>
    intro t0 m l hs hr
    obtain ⟨h0, hs'⟩ := hs
    obtain ⟨hn, ha⟩ := ipmStep_sim e.1 e.2 (RIpm_mono h0 hr)
    simp only [ipmRun, bspecRun]
    rw [ha, ih e.1 _ _ hs' hn]

/-! ### C. token bucket -/

/-- Tokens (in `1/U`) the bucket of an address would hold at `t` if asked then. -/
def Phi (cfg : RateLimitConfig) (U : Nat) (b : Option TokenBucket) (t : Nat) : Nat :=
  match b with
  | none => cfg.Burst * U
  | some b => min (b.tokens + (t - b.lastRefill) * cfg.Rate) (cfg.Burst * U)

def InvB (t0 : Nat) (b : Option TokenBucket) : Prop := ∀ x, b = some x → x.lastRefill ≤ t0

theorem Phi_le_cap (cfg : RateLimitConfig) (U : Nat) (b : Option TokenBucket) (t : Nat) :
    Phi cfg U b t ≤ cfg.Burst * U := by
  cases b <;> simp only [Phi] <;> omega

theorem mul_split (R a b c : Nat) (h1 : a ≤ b) (h2 : b ≤ c) : R * (c - a) = R * (c - b) + R * (b - a) := by
  rw [← Nat.mul_add]; congr 1; omega

theorem Phi_mono (cfg : RateLimitConfig) (U : Nat) (b : Option TokenBucket) {t0 t : Nat}
    (hi : InvB t0 b) (h : t0 ≤ t) : Phi cfg U b t ≤ Phi cfg U b t0 + cfg.Rate * (t - t0) := by
  cases b with
  | none => simp only [Phi]; omega
  | some x =>
    have hl := hi x rfl
    have h3 := mul_split cfg.Rate x.lastRefill t0 t hl h
    simp only [Phi, Nat.mul_comm _ cfg.Rate]
    omega

theorem allowB_spec (cfg : RateLimitConfig) (U t : Nat) (b : Option TokenBucket) :
    (allowB cfg U t b).1.lastRefill = t ∧
    (allowB cfg U t b).1.tokens + (if (allowB cfg U t b).2 then U else 0) = Phi cfg U b t := by
  have key : ∀ T : Nat, (take1 U ⟨T, t⟩).1.lastRefill = t ∧
      (take1 U ⟨T, t⟩).1.tokens + (if (take1 U ⟨T, t⟩).2 then U else 0) = T := by
    intro T
    unfold take1
    by_cases h : T ≥ U
    · simp [h] <;> omega
    · simp [h]
  cases b with
  | none =>
    have := key (min (cfg.Burst * U + (t - t) * cfg.Rate) (cfg.Burst * U))
    simp only [allowB, refill, Option.getD_none, Phi]
    have h2 : min (cfg.Burst * U + (t - t) * cfg.Rate) (cfg.Burst * U) = cfg.Burst * U := by
      simp
    rw [h2] at this
    simpa [h2] using this
  | some x =>
    have := key (min (x.tokens + (t - x.lastRefill) * cfg.Rate) (cfg.Burst * U))
    simp only [allowB, refill, Option.getD_some, Phi]
    exact this

theorem cleanupB_Phi (cfg : RateLimitConfig) (U : Nat) (hwf : cfg.Burst * U ≤ cfg.Rate * cfg.TTL)
    (t : Nat) (b : Option TokenBucket) : Phi cfg U (cleanupB cfg t b) t = Phi cfg U b t := by
  cases b with
  | none => rfl
  | some x =>
    simp only [cleanupB]
    split
    · rename_i hgt
      have : cfg.Rate * cfg.TTL ≤ cfg.Rate * (t - x.lastRefill) := Nat.mul_le_mul_left _ (by omega)
      simp only [Phi, Nat.mul_comm _ cfg.Rate]
      omega
    · rfl

theorem cleanupB_Inv (cfg : RateLimitConfig) {t : Nat} {b : Option TokenBucket} (hi : InvB t b) :
    InvB t (cleanupB cfg t b) := by
  cases b with
  | none => intro x hx; cases hx
  | some y =>
    simp only [cleanupB]
    split
    · intro x hx; cases hx
    · exact hi

theorem lastTime_take_succ (t0 : Nat) (x : Nat × Bool) (xs : List (Nat × Bool)) (n : Nat) :
    lastTime t0 ((x :: xs).take (n + 1)) = lastTime x.1 (xs.take n) := rfl

theorem admitted_cons (x : Nat × Bool) (xs : List (Nat × Bool)) :
    admitted (x :: xs) = (if x.2 then 1 else 0) + admitted xs := by
  simp only [admitted, List.filter_cons]
  split <;> simp <;> omega

/-- The potential argument: along any time line, what one address is granted (in any prefix of its
calls) is bounded by what its bucket held at the start plus the refill until the last call. -/
theorem pot (cfg : RateLimitConfig) (U : Nat) (hwf : cfg.Burst * U ≤ cfg.Rate * cfg.TTL) (ip : Nat)
    (es : List (Nat × REv)) :
    ∀ (t0 : Nat) (st : RState), Sorted t0 es → InvB t0 (st ip) → ∀ n,
      t0 ≤ lastTime t0 ((allowsOf ip es (rlRun cfg U es st)).take n) ∧
      admitted ((allowsOf ip es (rlRun cfg U es st)).take n) * U ≤
        Phi cfg U (st ip) t0 + cfg.Rate * (lastTime t0 ((allowsOf ip es (rlRun cfg U es st)).take n) - t0) := by
  induction es with
  | nil => intro t0 st _ _ n; simp [allowsOf, admitted, lastTime]
  | cons e es ih =>
    intro t0 st hs hi n
    obtain ⟨h0, hs'⟩ := hs
    obtain ⟨t, ev⟩ := e
    simp only at h0 hs'
    cases ev with
    | cleanup =>
      have hi' : InvB t ((rlStep cfg U t .cleanup st).1 ip) := by
        simp only [rlStep]
        exact cleanupB_Inv cfg (fun x hx => Nat.le_trans (hi x hx) h0)
      have := ih t _ hs' hi' n
      simp only [rlRun, allowsOf]
      generalize (allowsOf ip es (rlRun cfg U es (rlStep cfg U t .cleanup st).1)).take n = L at this ⊢
      have hphi : Phi cfg U ((rlStep cfg U t .cleanup st).1 ip) t = Phi cfg U (st ip) t := by
        simp only [rlStep]; exact cleanupB_Phi cfg U hwf t (st ip)
      have hm := Phi_mono cfg U (st ip) hi h0
      cases L with
      | nil => simp [admitted, lastTime]
      | cons x xs =>
        simp only [lastTime] at this ⊢
        obtain ⟨h1, h2⟩ := this
        have h3 := mul_split cfg.Rate t0 t (lastTime x.1 xs) h0 h1
        exact ⟨by omega, by omega⟩
    | allow a =>
      by_cases ha : a = ip
      · subst ha
        have hsp := allowB_spec cfg U t (st a)
        have hi' : InvB t ((rlStep cfg U t (.allow a) st).1 a) := by
          simp only [rlStep, if_true]
          intro x hx
          cases hx
          exact Nat.le_of_eq hsp.1
        simp only [rlRun]
        rw [show (rlStep cfg U t (.allow a) st).2 = some (allowB cfg U t (st a)).2 from rfl]
        simp only [allowsOf, if_true]
        cases n with
        | zero => simp [admitted, lastTime]
        | succ n =>
          have := ih t _ hs' hi' n
          rw [lastTime_take_succ, List.take_succ_cons, admitted_cons]
          generalize (allowsOf a es (rlRun cfg U es (rlStep cfg U t (.allow a) st).1)).take n = L at this ⊢
          obtain ⟨h1, h2⟩ := this
          have hphi : Phi cfg U ((rlStep cfg U t (.allow a) st).1 a) t = (allowB cfg U t (st a)).1.tokens := by
            simp only [rlStep, if_true, Phi, hsp.1, Nat.sub_self, Nat.zero_mul, Nat.add_zero]
            have := Phi_le_cap cfg U (st a) t
            omega
          have hm := Phi_mono cfg U (st a) hi h0
          have h3 := mul_split cfg.Rate t0 t (lastTime t L) h0 h1
          have h4 := hsp.2
          rw [hphi] at h2
          dsimp only
          refine ⟨by omega, ?_⟩
          rw [Nat.add_mul]
          split at h4 <;> simp_all <;> omega
      · have hst : (rlStep cfg U t (.allow a) st).1 ip = st ip := by
          simp only [rlStep]
          have : ¬ ip = a := fun h => ha h.symm
          simp [this]
        have hi' : InvB t ((rlStep cfg U t (.allow a) st).1 ip) := by
          rw [hst]; exact fun x hx => Nat.le_trans (hi x hx) h0
        have := ih t _ hs' hi' n
        simp only [rlRun]
        rw [show (rlStep cfg U t (.allow a) st).2 = some (allowB cfg U t (st a)).2 from rfl]
        simp only [allowsOf, ha, if_false]
        generalize (allowsOf ip es (rlRun cfg U es (rlStep cfg U t (.allow a) st).1)).take n = L at this ⊢
        rw [hst] at this
        have hm := Phi_mono cfg U (st ip) hi h0
        cases L with
        | nil => simp [admitted, lastTime]
        | cons x xs =>
          simp only [lastTime] at this ⊢
          obtain ⟨h1, h2⟩ := this
          have h3 := mul_split cfg.Rate t0 t (lastTime x.1 xs) h0 h1
          exact ⟨by omega, by omega⟩

theorem prefixesOK_of_bound (cfg : RateLimitConfig) (U : Nat) (x : Nat × Bool) (xs : List (Nat × Bool))
    (h : ∀ n, admitted ((x :: xs).take n) * U ≤ cfg.Burst * U + cfg.Rate * (lastTime x.1 ((x :: xs).take n) - x.1)) :
    prefixesOK cfg U (x :: xs) = true := by
  unfold prefixesOK
  rw [List.all_eq_true]
  intro n _
  simp only [List.headD_cons]
  exact decide_eq_true (h n)

theorem stretches (cfg : RateLimitConfig) (U : Nat) (hwf : cfg.Burst * U ≤ cfg.Rate * cfg.TTL) (ip : Nat)
    (es : List (Nat × REv)) :
    ∀ (t0 : Nat) (st : RState), Sorted t0 es → InvB t0 (st ip) →
      stretchesOK cfg U (allowsOf ip es (rlRun cfg U es st)) = true := by
  induction es with
  | nil => intros; rfl
  | cons e es ih =>
    intro t0 st hs hi
    have hpot := pot cfg U hwf ip (e :: es) e.1 st ⟨Nat.le_refl _, hs.2⟩
      (fun x hx => Nat.le_trans (hi x hx) hs.1)
    obtain ⟨h0, hs'⟩ := hs
    obtain ⟨t, ev⟩ := e
    simp only at h0 hs' hpot
    cases ev with
    | cleanup =>
      simp only [rlRun]
      rw [show (rlStep cfg U t .cleanup st).2 = none from rfl]
      simp only [allowsOf]
      apply ih t _ hs'
      simp only [rlStep]
      exact cleanupB_Inv cfg (fun x hx => Nat.le_trans (hi x hx) h0)
    | allow a =>
      simp only [rlRun] at hpot ⊢
      rw [show (rlStep cfg U t (.allow a) st).2 = some (allowB cfg U t (st a)).2 from rfl] at hpot ⊢
      by_cases ha : a = ip
      · subst ha
        simp only [allowsOf, if_true] at hpot ⊢
        simp only [stretchesOK, Bool.and_eq_true]
        constructor
        · apply prefixesOK_of_bound
          intro n
          have h1 := (hpot n).2
          have h2 := Phi_le_cap cfg U (st a) t
          dsimp only at h1 ⊢
          omega
        · apply ih t _ hs'
          simp only [rlStep, if_true]
          intro x hx
          cases hx
          exact Nat.le_of_eq (allowB_spec cfg U t (st a)).1
      · simp only [allowsOf, ha, if_false]
        apply ih t _ hs'
        have : ¬ ip = a := fun h => ha h.symm
        simp only [rlStep, this, if_false]
        exact fun x hx => Nat.le_trans (hi x hx) h0

theorem rlRun_length (cfg : RateLimitConfig) (U : Nat) (es : List (Nat × REv)) :
    ∀ st, (rlRun cfg U es st).length = es.length := by
  induction es with
  | nil => intro; rfl
  | cons e es ih => intro st; simp [rlRun, ih]

/-! ### D. handshake -/

def RH (cfg : HCfg) (t : Nat) (s : HState) (l : HLedger) : Prop :=
  RIpm t s.ipm l.ipm ∧ (∀ a, RComp cfg.bf t (s.bf a) (l.bf a)) ∧ s.rl = l.rl

theorem RH_mono (cfg : HCfg) {t t' : Nat} (h : t ≤ t') {s l} (hr : RH cfg t s l) : RH cfg t' s l :=
  ⟨RIpm_mono h hr.1, fun a => RComp_mono cfg.bf h (hr.2.1 a), hr.2.2⟩

theorem handshake_sim (cfg : HCfg) (hB : 0 < cfg.bf.BanDuration) (t ip : Nat) (k : HKind) {s l}
    (hr : RH cfg t s l) :
    RH cfg t (handshake cfg t ip k s).1 (specHandshake cfg t ip k l).1 ∧
    (handshake cfg t ip k s).2 = (specHandshake cfg t ip k l).2 := by
  obtain ⟨h1, h2, h3⟩ := hr
  have ha := RIpm_allowed h1 ip
  have hb : isBanned t (s.bf ip).ban = (l.bf ip).refuses t := by
    rw [RBan_query (h2 ip).2.2]; rfl
  have hs := step_sim cfg.bf hB t (.success ip) h2
  have hf := step_sim cfg.bf hB t (.fail ip) h2
  unfold handshake specHandshake
  rw [ha, hb, h3]
  by_cases c1 : (!(l.ipm.allowed t ip)) = true
  · simp only [c1, if_true]
    exact ⟨⟨h1, h2, h3⟩, by first | trivial | rfl⟩
  · simp only [c1, Bool.false_eq_true, if_false]
    by_cases c2 : (l.bf ip).refuses t = true
    · simp only [c2, if_true]
      exact ⟨⟨h1, h2, h3⟩, by first | trivial | rfl⟩
    · simp only [c2, Bool.false_eq_true, if_false]
      by_cases c3 : (k.anon && !(allowB cfg.rl cfg.U t (l.rl ip)).2) = true
      · simp only [c3, if_true]
        exact ⟨⟨h1, h2, rfl⟩, by first | trivial | rfl⟩
      · simp only [c3, Bool.false_eq_true, if_false]
        cases k.outcome with
        | none => exact ⟨⟨h1, h2, h3⟩, by first | trivial | rfl⟩
        | some b =>
          cases b
          · exact ⟨⟨h1, hf.1, rfl⟩, by first | trivial | rfl⟩
          · exact ⟨⟨h1, hs.1, rfl⟩, by first | trivial | rfl⟩

theorem hStep_sim (cfg : HCfg) (hB : 0 < cfg.bf.BanDuration) (t : Nat) (e : HEv) {s l}
    (hr : RH cfg t s l) :
    RH cfg t (hStep cfg t e s).1 (hSpecStep cfg t e l).1 ∧ (hStep cfg t e s).2 = (hSpecStep cfg t e l).2 := by
  cases e with
  | hs ip k =>
    have := handshake_sim cfg hB t ip k hr
    simp only [hStep, hSpecStep]
    exact ⟨this.1, by rw [this.2]⟩
  | ipm e =>
    obtain ⟨h1, h2, h3⟩ := hr
    exact ⟨⟨(ipmStep_sim t e h1).1, h2, h3⟩, rfl⟩
  | bf e =>
    obtain ⟨h1, h2, h3⟩ := hr
    exact ⟨⟨h1, (step_sim cfg.bf hB t e h2).1, h3⟩, rfl⟩
  | rlCleanup =>
    obtain ⟨h1, h2, h3⟩ := hr
    refine ⟨⟨h1, h2, ?_⟩, rfl⟩
    simp only [hStep, hSpecStep, h3]

theorem hRun_sim (cfg : HCfg) (hB : 0 < cfg.bf.BanDuration) (es : List (Nat × HEv)) :
    ∀ (t0 : Nat) (s : HState) (l : HLedger), Sorted t0 es → RH cfg t0 s l →
      hRun cfg es s = hSpecRun cfg es l := by
  induction es with
  | nil => intros; rfl
  | cons e es ih =>
    intro t0 s l hs hr
    obtain ⟨h0, hs'⟩ := hs
    obtain ⟨hn, ha⟩ := hStep_sim cfg hB e.1 e.2 (RH_mono cfg h0 hr)
    simp only [hRun, hSpecRun]
    rw [ha, ih e.1 _ _ hs' hn]

/-- The limiter calls that a handshake time line makes (as the model executes it). -/
def rlProj (cfg : HCfg) : List (Nat × HEv) → HState → List (Nat × REv)
  | [], _ => []
  | (t, .hs ip k) :: es, s =>
    (if k.anon && isAllowed t ip s.ipm && !(isBanned t (s.bf ip).ban) then [(t, REv.allow ip)] else []) ++
      rlProj cfg es (hStep cfg t (.hs ip k) s).1
  | (t, .rlCleanup) :: es, s => (t, .cleanup) :: rlProj cfg es (hStep cfg t .rlCleanup s).1
  | (t, .ipm e) :: es, s => rlProj cfg es (hStep cfg t (.ipm e) s).1
  | (t, .bf e) :: es, s => rlProj cfg es (hStep cfg t (.bf e) s).1

theorem rlProj_sorted (cfg : HCfg) (es : List (Nat × HEv)) :
    ∀ t0 s, Sorted t0 es → Sorted t0 (rlProj cfg es s) := by
  induction es with
  | nil => intros; trivial
  | cons e es ih =>
    intro t0 s hs
    obtain ⟨h0, hs'⟩ := hs
    obtain ⟨t, ev⟩ := e
    have hmono : ∀ s', Sorted t0 (rlProj cfg es s') := by
      intro s'
      have := ih t s' hs'
      cases hr : rlProj cfg es s' with
      | nil => trivial
      | cons x xs => rw [hr] at this; exact ⟨Nat.le_trans h0 this.1, this.2⟩
    cases ev with
    | hs ip k =>
      simp only [rlProj]
      split
      · exact ⟨h0, ih t _ hs'⟩
      · exact hmono _
    | rlCleanup => exact ⟨h0, ih t _ hs'⟩
    | ipm e => exact hmono _
    | bf e => exact hmono _

theorem handshake_rl (cfg : HCfg) (t a : Nat) (k : HKind) (s : HState) :
    (handshake cfg t a k s).1.rl =
      (if k.anon && (isAllowed t a s.ipm && !(isBanned t (s.bf a).ban)) then (rlStep cfg.rl cfg.U t (.allow a) s.rl).1 else s.rl) ∧
    (((handshake cfg t a k s).2 != .blk && (handshake cfg t a k s).2 != .ban) =
      (isAllowed t a s.ipm && !(isBanned t (s.bf a).ban))) ∧
    ((k.anon && (isAllowed t a s.ipm && !(isBanned t (s.bf a).ban))) = true →
      ((handshake cfg t a k s).2 != .rate) = (allowB cfg.rl cfg.U t (s.rl a)).2) := by
  unfold handshake
  cases c1 : isAllowed t a s.ipm
  · simp
  · cases c2 : isBanned t (s.bf a).ban
    · cases c3 : (allowB cfg.rl cfg.U t (s.rl a)).2 <;> cases k <;>
        simp [HKind.anon, HKind.outcome, HKind.neutralResp]
    · simp

theorem rlProj_regs (cfg : HCfg) (ip : Nat) (es : List (Nat × HEv)) :
    ∀ s, regsOf ip es (hRun cfg es s) =
      allowsOf ip (rlProj cfg es s) (rlRun cfg.rl cfg.U (rlProj cfg es s) s.rl) := by
  induction es with
  | nil => intro s; rfl
  | cons e es ih =>
    intro s
    obtain ⟨t, ev⟩ := e
    cases ev with
    | rlCleanup =>
      simp only [hRun, rlProj, rlRun]
      rw [show (hStep cfg t .rlCleanup s).2 = none from rfl,
          show (rlStep cfg.rl cfg.U t .cleanup s.rl).2 = none from rfl]
      simp only [regsOf, allowsOf]
      exact ih _
    | ipm e =>
      simp only [hRun, rlProj]
      rw [show (hStep cfg t (.ipm e) s).2 = none from rfl]
      simp only [regsOf]
      exact ih _
    | bf e =>
      simp only [hRun, rlProj]
      rw [show (hStep cfg t (.bf e) s).2 = none from rfl]
      simp only [regsOf]
      exact ih _
    | hs a k =>
      simp only [hRun, rlProj]
      rw [show (hStep cfg t (.hs a k) s).2 = some (handshake cfg t a k s).2 from rfl,
          show (hStep cfg t (.hs a k) s).1 = (handshake cfg t a k s).1 from rfl]
      simp only [regsOf]
      rw [ih]
      obtain ⟨h1, h2, h3⟩ := handshake_rl cfg t a k s
      rw [h1, h2]
      have hassoc : (k.anon && isAllowed t a s.ipm && !(isBanned t (s.bf a).ban)) =
          (k.anon && (isAllowed t a s.ipm && !(isBanned t (s.bf a).ban))) := Bool.and_assoc _ _ _
      rw [hassoc]
      cases hc : (k.anon && (isAllowed t a s.ipm && !(isBanned t (s.bf a).ban)))
      · have : (decide (a = ip) && k.anon && (isAllowed t a s.ipm && !(isBanned t (s.bf a).ban))) = false := by
          rw [Bool.and_assoc, hc]; simp
        simp only [this, Bool.false_eq_true, if_false, List.nil_append]
      · have h3' := h3 hc
        have : (decide (a = ip) && k.anon && (isAllowed t a s.ipm && !(isBanned t (s.bf a).ban))) = decide (a = ip) := by
          rw [Bool.and_assoc, hc]; simp
        simp only [this, if_true, List.cons_append, List.nil_append, rlRun]
        rw [show (rlStep cfg.rl cfg.U t (.allow a) s.rl).2 = some (allowB cfg.rl cfg.U t (s.rl a)).2 from rfl]
        simp only [allowsOf, h3']
        by_cases hai : a = ip <;> simp [hai]

/-! ### C'. `allow` cut into its critical sections -/

theorem grant_char (cfg : RateLimitConfig) (U t : Nat) (b0 : Option TokenBucket) :
    InvB t (some (allowB cfg U t b0).1) ∧
    Phi cfg U (some (allowB cfg U t b0).1) t + (if (allowB cfg U t b0).2 then U else 0) = Phi cfg U b0 t := by
  have hsp := allowB_spec cfg U t b0
  have hle := Phi_le_cap cfg U b0 t
  refine ⟨fun x hx => by cases hx; exact Nat.le_of_eq hsp.1, ?_⟩
  have : Phi cfg U (some (allowB cfg U t b0).1) t = (allowB cfg U t b0).1.tokens := by
    simp only [Phi, hsp.1, Nat.sub_self, Nat.zero_mul, Nat.add_zero]
    have := hsp.2
    split at this <;> omega
  rw [this]; exact hsp.2

theorem setAt_same {α} (f : Nat → α) (a : Nat) (v : α) : setAt f a v a = v := by simp [setAt]
theorem setAt_other {α} (f : Nat → α) (a k : Nat) (v : α) (h : k ≠ a) : setAt f a v k = f k := by simp [setAt, h]

/-- Every step either says nothing about `ip` and leaves its potential alone, or answers one call of
`ip` and lowers the potential by exactly what it granted. -/
theorem xStep_char (cfg : RateLimitConfig) (U : Nat) (hwf : cfg.Burst * U ≤ cfg.Rate * cfg.TTL)
    (t ip : Nat) (e : XEv) (s : XState) (hi : InvB t (s.buckets ip)) :
    InvB t ((xStep cfg U t e s).1.buckets ip) ∧
    match obsFor ip e (xStep cfg U t e s).2 with
    | none => Phi cfg U ((xStep cfg U t e s).1.buckets ip) t = Phi cfg U (s.buckets ip) t
    | some adm => Phi cfg U ((xStep cfg U t e s).1.buckets ip) t + (if adm then U else 0) = Phi cfg U (s.buckets ip) t := by
  cases e with
  | allow a =>
    by_cases ha : a = ip
    · subst ha
      have g := grant_char cfg U t (s.buckets a)
      simp only [xStep, rlStep, obsFor, if_true]
      exact g
    · have hne : ¬ ip = a := fun h => ha h.symm
      simp only [xStep, rlStep, obsFor, ha, hne, if_false]
      exact ⟨hi, by first | trivial | rfl⟩
  | cleanup =>
    simp only [xStep, rlStep, obsFor]
    exact ⟨cleanupB_Inv cfg hi, cleanupB_Phi cfg U hwf t _⟩
  | lookup a =>
    simp only [xStep, obsFor]
    exact ⟨hi, by first | trivial | rfl⟩
  | create a i =>
    simp only [xStep]
    split
    · simp only [obsFor]
      by_cases ha : ip = a
      · subst ha
        rw [setAt_same]
        cases hb : s.buckets ip with
        | none =>
          refine ⟨fun x hx => by cases hx; exact Nat.le_refl _, ?_⟩
          simp [Phi]
        | some b =>
          rw [hb] at hi
          exact ⟨hi, by first | trivial | rfl⟩
      · rw [setAt_other _ _ _ _ ha]
        exact ⟨hi, by first | trivial | rfl⟩
    · simp only [obsFor]
      exact ⟨hi, by first | trivial | rfl⟩
  | take a i =>
    simp only [xStep]
    split
    · split
      · by_cases ha : a = ip
        · subst ha
          have g := grant_char cfg U t (s.buckets a)
          simp only [obsFor, if_true, setAt_same]
          exact g
        · have hne : ip ≠ a := fun h => ha h.symm
          simp only [obsFor, ha, if_false]
          rw [setAt_other _ _ _ _ hne]
          exact ⟨hi, by first | trivial | rfl⟩
      · by_cases ha : a = ip
        · simp only [obsFor, ha, if_true]
          exact ⟨hi, by simp⟩
        · simp only [obsFor, ha, if_false]
          exact ⟨hi, by first | trivial | rfl⟩
    · simp only [obsFor]
      exact ⟨hi, by first | trivial | rfl⟩

theorem xpot (cfg : RateLimitConfig) (U : Nat) (hwf : cfg.Burst * U ≤ cfg.Rate * cfg.TTL) (ip : Nat)
    (es : List (Nat × XEv)) :
    ∀ (t0 : Nat) (s : XState), Sorted t0 es → InvB t0 (s.buckets ip) → ∀ n,
      t0 ≤ lastTime t0 ((xAllowsOf ip es (xRun cfg U es s)).take n) ∧
      admitted ((xAllowsOf ip es (xRun cfg U es s)).take n) * U ≤
        Phi cfg U (s.buckets ip) t0 + cfg.Rate * (lastTime t0 ((xAllowsOf ip es (xRun cfg U es s)).take n) - t0) := by
  induction es with
  | nil => intro t0 s _ _ n; simp [xAllowsOf, admitted, lastTime]
  | cons e es ih =>
    intro t0 s hs hi n
    obtain ⟨h0, hs'⟩ := hs
    obtain ⟨t, ev⟩ := e
    simp only at h0 hs'
    have hit : InvB t (s.buckets ip) := fun x hx => Nat.le_trans (hi x hx) h0
    obtain ⟨hi', hc⟩ := xStep_char cfg U hwf t ip ev s hit
    have hm := Phi_mono cfg U (s.buckets ip) hi h0
    simp only [xRun, xAllowsOf]
    cases ho : obsFor ip ev (xStep cfg U t ev s).2 with
    | none =>
      simp only [ho] at hc ⊢
      have := ih t _ hs' hi' n
      generalize (xAllowsOf ip es (xRun cfg U es (xStep cfg U t ev s).1)).take n = L at this ⊢
      cases L with
      | nil => simp [admitted, lastTime]
      | cons x xs =>
        simp only [lastTime] at this ⊢
        obtain ⟨h1, h2⟩ := this
        have h3 := mul_split cfg.Rate t0 t (lastTime x.1 xs) h0 h1
        exact ⟨by omega, by omega⟩
    | some adm =>
      simp only [ho] at hc ⊢
      cases n with
      | zero => simp [admitted, lastTime]
      | succ n =>
        have := ih t _ hs' hi' n
        rw [lastTime_take_succ, List.take_succ_cons, admitted_cons]
        generalize (xAllowsOf ip es (xRun cfg U es (xStep cfg U t ev s).1)).take n = L at this ⊢
        obtain ⟨h1, h2⟩ := this
        have h3 := mul_split cfg.Rate t0 t (lastTime t L) h0 h1
        dsimp only
        refine ⟨by omega, ?_⟩
        rw [Nat.add_mul]
        cases adm <;> simp_all <;> omega

theorem xstretches (cfg : RateLimitConfig) (U : Nat) (hwf : cfg.Burst * U ≤ cfg.Rate * cfg.TTL) (ip : Nat)
    (es : List (Nat × XEv)) :
    ∀ (t0 : Nat) (s : XState), Sorted t0 es → InvB t0 (s.buckets ip) →
      stretchesOK cfg U (xAllowsOf ip es (xRun cfg U es s)) = true := by
  induction es with
  | nil => intros; rfl
  | cons e es ih =>
    intro t0 s hs hi
    have hit : InvB e.1 (s.buckets ip) := fun x hx => Nat.le_trans (hi x hx) hs.1
    have hpot := xpot cfg U hwf ip (e :: es) e.1 s ⟨Nat.le_refl _, hs.2⟩ hit
    obtain ⟨hi', _⟩ := xStep_char cfg U hwf e.1 ip e.2 s hit
    simp only [xRun, xAllowsOf] at hpot ⊢
    cases ho : obsFor ip e.2 (xStep cfg U e.1 e.2 s).2 with
    | none =>
      simp only [ho]
      exact ih e.1 _ hs.2 hi'
    | some adm =>
      simp only [ho] at hpot ⊢
      simp only [stretchesOK, Bool.and_eq_true]
      refine ⟨?_, ih e.1 _ hs.2 hi'⟩
      apply prefixesOK_of_bound
      intro n
      have h1 := (hpot n).2
      have h2 := Phi_le_cap cfg U (s.buckets ip) e.1
      dsimp only at h1 ⊢
      omega

theorem xRun_length (cfg : RateLimitConfig) (U : Nat) (es : List (Nat × XEv)) :
    ∀ s, (xRun cfg U es s).length = es.length := by
  induction es with
  | nil => intro; rfl
  | cons e es ih => intro s; simp [xRun, ih]

end Tunnox.C18
