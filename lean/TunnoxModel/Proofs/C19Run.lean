import TunnoxModel.Proofs.C19Step
/-!
  C19 — initial state, schedules and the drain as one list of thread ids, and generic facts about a
  single model step that the monitor simulations use.
-/
namespace Tunnox.C19
open Gen

/-! ### shape of one operation step -/

theorem stepOp_delReq (cf : Config) (s : Store) (o : Op) (pc : PC) :
    (stepOp cf s o pc).1.delReq =
      (match o, pc with
       | .del n cl, .idle => (n, cl) :: s.delReq
       | _, _ => s.delReq) := by
  cases o <;> cases pc <;>
    simp only [stepOp, stepCreate, stepDelete, stepUpdate, stepLookup, registryStage] <;>
    (repeat' split) <;> rfl

theorem stepOp_next_le (cf : Config) (s : Store) (o : Op) (pc : PC) : s.next ≤ (stepOp cf s o pc).1.next := by
  cases o <;> cases pc <;>
    simp only [stepOp, stepCreate, stepDelete, stepUpdate, stepLookup, registryStage] <;>
    (repeat' split) <;> simp

/-- A step hands a thread a mapping number only by `Incr` (the fresh number) or keeps the one it has. -/
theorem stepOp_createId (cf : Config) (s : Store) (o : Op) (pc : PC) (n : Nat)
    (h : (stepOp cf s o pc).2.1.createId = some n) : pc.createId = some n ∨ n = s.next + 1 := by
  revert h
  cases o <;> cases pc <;>
    simp only [stepOp, stepCreate, stepDelete, stepUpdate, stepLookup, registryStage] <;>
    (repeat' split) <;> simp [PC.createId] <;> (try (intro h; exact h.symm)) <;> (try (intro h; exact Or.inl h))

end Tunnox.C19
namespace Tunnox.C19
open Gen

theorem stepOp_born (cf : Config) (s : Store) (o : Op) (pc : PC) :
    (stepOp cf s o pc).1.born = s.born ∨
      ∃ n v, pc = .cSetNX n ∧ (stepOp cf s o pc).1.born = upd s.born n v := by
  cases o <;> cases pc <;>
    simp only [stepOp, stepCreate, stepDelete, stepUpdate, stepLookup, registryStage] <;>
    (repeat' split) <;> first | exact Or.inl rfl | exact Or.inl trivial | exact Or.inr ⟨_, _, rfl, rfl⟩

theorem stepThread_others (cf : Config) (c : Cfg) (t t' : Nat) (h : t' ≠ t) :
    (stepThread cf c t).1.th t' = c.th t' := by
  unfold stepThread
  cases (c.th t).todo with
  | nil => rfl
  | cons o rest => simp only [upd_other _ _ _ _ h]

theorem stepThread_nil (cf : Config) (c : Cfg) (t : Nat) (h : (c.th t).todo = []) :
    stepThread cf c t = (c, ⟨t, false, none, none⟩) := by
  unfold stepThread; simp only [h]

theorem stepThread_self (cf : Config) (c : Cfg) (t : Nat) (o : Op) (rest : List Op) (hto : (c.th t).todo = o :: rest) :
    (stepThread cf c t).1.th t =
      (match (stepOp cf c.st o (c.th t).pc).2.2 with
       | some _ => ⟨rest, .idle⟩
       | none => ⟨o :: rest, (stepOp cf c.st o (c.th t).pc).2.1⟩) := by
  rw [stepThread_cons cf c t o rest hto]; simp only [upd_same]; rfl

theorem stepThread_st (cf : Config) (c : Cfg) (t : Nat) (o : Op) (rest : List Op) (hto : (c.th t).todo = o :: rest) :
    (stepThread cf c t).1.st = (stepOp cf c.st o (c.th t).pc).1 := by
  rw [stepThread_cons cf c t o rest hto]

theorem stepThread_slot (cf : Config) (c : Cfg) (t : Nat) (o : Op) (rest : List Op) (hto : (c.th t).todo = o :: rest) :
    (stepThread cf c t).2 =
      ⟨t, true, if (c.th t).pc.isIdle then some o else none,
        ((stepOp cf c.st o (c.th t).pc).2.2).map (fun r => (o, r))⟩ := by
  unfold stepThread; simp only [hto]

theorem Inv.born_mono {cf ops exts c} (h : Inv cf ops exts c) (t : Nat) :
    ∀ n o, c.st.born n = some o → (stepThread cf c t).1.st.born n = some o := by
  intro n o hb
  cases hto : (c.th t).todo with
  | nil => rw [stepThread_nil cf c t hto]; exact hb
  | cons op rest =>
    rw [stepThread_st cf c t op rest hto]
    rcases stepOp_born cf c.st op (c.th t).pc with e | ⟨k, v, hpc, e⟩
    · rw [e]; exact hb
    · rw [e]
      have hl := h.linv hto
      rw [hpc] at hl
      have : n ≠ k := by
        intro e'; subst e'
        cases op <;> simp only [LInv] at hl
        rw [hl.2.2] at hb; cases hb
      simp only [upd_other _ _ _ _ this]; exact hb

theorem Inv.createId_step {cf ops exts c} (h : Inv cf ops exts c) (t t' n : Nat)
    (hid : ((stepThread cf c t).1.th t').pc.createId = some n) :
    (c.th t').pc.createId = some n ∨ n = c.st.next + 1 := by
  by_cases e : t' = t
  · subst e
    cases hto : (c.th t').todo with
    | nil => rw [stepThread_nil cf c t' hto] at hid; exact Or.inl hid
    | cons op rest =>
      rw [stepThread_self cf c t' op rest hto] at hid
      cases hr : (stepOp cf c.st op (c.th t').pc).2.2 with
      | some r => rw [hr] at hid; simp [PC.createId] at hid
      | none => rw [hr] at hid; exact stepOp_createId cf c.st op _ n hid
  · rw [stepThread_others cf c t t' e] at hid; exact Or.inl hid

theorem stepThread_delReq (cf : Config) (c : Cfg) (t : Nat) :
    (stepThread cf c t).1.st.delReq =
      (match (c.th t).todo, (c.th t).pc with
       | .del n cl :: _, .idle => (n, cl) :: c.st.delReq
       | _, _ => c.st.delReq) := by
  cases hto : (c.th t).todo with
  | nil => rw [stepThread_nil cf c t hto]
  | cons op rest =>
    rw [stepThread_st cf c t op rest hto, stepOp_delReq]
    cases op <;> cases (c.th t).pc <;> rfl

/-- "The create of mapping `n` (name `d`, client `cl`) has returned and no delete request of its client
was ever invoked." -/
def Settled (c : Cfg) (n : Nat) (d : String) (cl : Nat) : Prop :=
  (∃ o, c.st.born n = some o ∧ o.dom = d ∧ o.client = cl) ∧ (n, cl) ∉ c.st.delReq ∧
    ∀ t, (c.th t).pc.createId ≠ some n

theorem Settled.step {cf ops exts c} (h : Inv cf ops exts c) (t : Nat) {n d cl} (hs : Settled c n d cl)
    (hnd : (n, cl) ∉ (stepThread cf c t).1.st.delReq) : Settled (stepThread cf c t).1 n d cl := by
  obtain ⟨⟨o, ho, hd, hc⟩, _, hid⟩ := hs
  refine ⟨⟨o, h.born_mono t n o ho, hd, hc⟩, hnd, ?_⟩
  intro t' hid'
  rcases h.createId_step t t' n hid' with e | e
  · exact hid t' e
  · have := (h.bornRange n o ho).2; omega

/-- What a settled mapping looks like in the store (repaired tree): indexed under its name, stored with its client. -/
theorem Settled.stored {cf ops exts c} (h : Inv cf ops exts c) (hv : cf.variant = .repaired) {n d cl}
    (hs : Settled c n d cl) :
    c.st.index d = some n ∧ ∃ r, c.st.data n = some r ∧ r.FullDomain = d ∧ r.ClientID = cl := by
  obtain ⟨⟨o, ho, hd, hc⟩, hnd, hid⟩ := hs
  subst hd; subst hc
  refine ⟨h.g1 hv n o ho hnd, ?_⟩
  have := h.settled n o ho hnd hid
  cases hdat : c.st.data n with
  | none => rw [hdat] at this; cases this
  | some r =>
    have := (h.dataOK n r hdat).origin_eq ho
    exact ⟨r, rfl, this.1, this.2⟩

/-! ### initial state -/

theorem mem_allOps (i : Input) (t : Nat) (o : Op) (h : o ∈ i.threads.getD t []) : o ∈ allOps i := by
  unfold allOps
  rw [List.mem_flatten]
  by_cases ht : t < i.threads.length
  · refine ⟨i.threads[t], List.getElem_mem ht, ?_⟩
    simpa [List.getD, List.getElem?_eq_getElem ht] using h
  · have : i.threads[t]? = none := List.getElem?_eq_none (Nat.le_of_not_lt ht)
    simp [List.getD, this] at h

theorem foldl_registerPM_ok (cf : Config) (exts : List PM) (l : List PM) (reg : String → Option PM)
    (hreg : ∀ k m, reg k = some m → m ∈ exts ∧ m.fullDomain = k) (hl : ∀ m ∈ l, m ∈ exts) :
    ∀ k m, l.foldl (registerPM cf) reg k = some m → m ∈ exts ∧ m.fullDomain = k := by
  induction l generalizing reg with
  | nil => exact hreg
  | cons a l ih =>
    simp only [List.foldl_cons]
    exact ih _ (registerPM_ok hreg (hl a List.mem_cons_self)) (fun m hm => hl m (List.mem_cons_of_mem _ hm))

theorem Inv.init (i : Input) : Inv i.cf (allOps i) (i.reg ++ i.cf.cloud) (initCfg i) := by
  refine ⟨?_, ?_, ?_, ?_, ?_, ?_, ?_, ?_, ?_, ?_, ?_, ?_, ?_, ?_⟩
  · intro t; exact TInv_idle _ _ _ _
  · intro t o ho; exact mem_allOps i t o ho
  · intro n o hb; simp [initCfg, initStore] at hb
  · intro n r hd; simp [initCfg, initStore] at hd
  · intro _ n o hb; simp [initCfg, initStore] at hb
  · intro d n hi; simp [initCfg, initStore] at hi
  · intro k m hk
    simp only [initCfg, initStore] at hk
    exact foldl_registerPM_ok i.cf _ i.reg _ (by intro k m h; cases h)
      (fun m hm => List.mem_append_left _ hm) k m hk
  · intro t t' n _ h1; simp [initCfg, PC.createId] at h1
  · intro _ t t' n _ h1; obtain ⟨_, _, _, h2⟩ := h1; simp [initCfg, PC.claimed] at h2
  · intro m hm; exact List.mem_append_right _ hm
  · intro n hw; simp [initCfg, initStore] at hw
  · intro n o hb; simp [initCfg, initStore] at hb
  · intro n o hb; simp [initCfg, initStore] at hb
  · intro n o hb; simp [initCfg, initStore] at hb

/-! ### schedules -/

theorem runSched_append (cf : Config) (c : Cfg) (a b : List Nat) :
    runSched cf c (a ++ b) =
      ((runSched cf (runSched cf c a).1 b).1, (runSched cf c a).2 ++ (runSched cf (runSched cf c a).1 b).2) := by
  induction a generalizing c with
  | nil => simp [runSched]
  | cons t ts ih => simp only [List.cons_append, runSched, ih, List.cons_append]

/-- The drain is a schedule. -/
theorem drain_is_sched (cf : Config) (n : Nat) : ∀ fuel c, ∃ ts, drain cf n fuel c = runSched cf c ts := by
  intro fuel
  induction fuel with
  | zero => intro c; exact ⟨[], rfl⟩
  | succ f ih =>
    intro c
    unfold drain
    split
    · exact ⟨[], rfl⟩
    · obtain ⟨ts, hts⟩ := ih (runSched cf c (pending c n)).1
      refine ⟨pending c n ++ ts, ?_⟩
      rw [runSched_append, hts]

/-- The whole run of the model is one schedule from the initial configuration. -/
theorem model_is_sched (i : Input) :
    ∃ ts, (model i).slots = (runSched i.cf (initCfg i) ts).2 ∧
      (model i).final = finalOf i (runSched i.cf (initCfg i) ts).1.st := by
  obtain ⟨ts, hts⟩ := drain_is_sched i.cf i.threads.length (drainFuel i) (runSched i.cf (initCfg i) i.sched).1
  refine ⟨i.sched ++ ts, ?_, ?_⟩
  · simp only [model, runSched_append, hts]
  · simp only [model, runSched_append, hts]

/-- One slot of model and monitor together. -/
def joint (i : Input) (p : Cfg × Mon) (t : Nat) : Cfg × Mon :=
  ((stepThread i.cf p.1 t).1, monSlot i p.2 (stepThread i.cf p.1 t).2)

theorem runSched_joint (i : Input) (ts : List Nat) (c : Cfg) (m : Mon) :
    ((runSched i.cf c ts).1, (runSched i.cf c ts).2.foldl (monSlot i) m) = ts.foldl (joint i) (c, m) := by
  induction ts generalizing c m with
  | nil => rfl
  | cons t ts ih => simp only [runSched, List.foldl_cons, joint]; exact ih _ _

/-- Induction principle: a property of (configuration, monitor) that holds initially and is kept by every
joint slot holds at the end of every run of the model. -/
theorem model_induction (i : Input) (P : Cfg → Mon → Prop) (h0 : P (initCfg i) {})
    (hstep : ∀ c m t, P c m → P (stepThread i.cf c t).1 (monSlot i m (stepThread i.cf c t).2)) :
    ∃ c, P c (monRun i (model i).slots) ∧ (model i).final = finalOf i c.st := by
  obtain ⟨ts, h1, h2⟩ := model_is_sched i
  have key : ∀ (ts : List Nat) c m, P c m → P (ts.foldl (joint i) (c, m)).1 (ts.foldl (joint i) (c, m)).2 := by
    intro ts
    induction ts with
    | nil => intro c m h; exact h
    | cons t ts ih => intro c m h; simp only [List.foldl_cons]; exact ih _ _ (hstep c m t h)
  have := key ts (initCfg i) {} h0
  rw [← runSched_joint] at this
  refine ⟨(runSched i.cf (initCfg i) ts).1, ?_, h2⟩
  simp only [monRun, h1]
  exact this

end Tunnox.C19
